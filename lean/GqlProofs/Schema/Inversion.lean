import GqlProofs.Schema.Basic
/-
  Inversion lemmas: what a passing validator / a successful `load` guarantees.
-/
namespace Gql.Load
open Gql

/-- what `load sd = ok s` means, stage by stage (with the last check, the kinds of the root types) -/
theorem load_ok_inv' {sd : SchemaDoc} {s : Schema} (h : load sd = .ok s) :
    ∃ st r0 d0 r1 d1, buildState sd = .ok st ∧ sd.schema.length ≤ 1 ∧
      applySchemaDefs st sd.schema noRoots [] = .ok r0 d0 ∧
      applySchemaDefs st sd.schemaExt r0 d0 = .ok r1 d1 ∧
      validateTypeDefinitions st = .pass ∧ validateDirectiveDefinitions st = .pass ∧
      s = mkSchema sd st r1 d1 ∧ checkRootKinds st (finalRoots sd st r1) = .pass := by
  unfold load at h
  split at h
  · simp at h
  · rename_i st hst
    refine ⟨st, ?_⟩
    unfold finish at h
    split at h
    · simp at h
    · rename_i hlen
      have hlen' : sd.schema.length ≤ 1 := by
        match hs : sd.schema with
        | [] => simp
        | [_] => simp
        | a :: b :: c => exact absurd hs (hlen a b c)
      split at h <;> try (simp at h)
      rename_i r0 d0 h0
      split at h <;> try (simp at h)
      rename_i r1 d1 h1
      split at h <;> try (simp at h)
      rename_i ht
      split at h <;> try (simp at h)
      rename_i hd
      split at h <;> try (simp at h)
      rename_i hk
      exact ⟨r0, d0, r1, d1, hst, hlen', h0, h1, ht, hd, h.symm, hk⟩

/-- what `load sd = ok s` means, stage by stage -/
theorem load_ok_inv {sd : SchemaDoc} {s : Schema} (h : load sd = .ok s) :
    ∃ st r0 d0 r1 d1, buildState sd = .ok st ∧ sd.schema.length ≤ 1 ∧
      applySchemaDefs st sd.schema noRoots [] = .ok r0 d0 ∧
      applySchemaDefs st sd.schemaExt r0 d0 = .ok r1 d1 ∧
      validateTypeDefinitions st = .pass ∧ validateDirectiveDefinitions st = .pass ∧
      s = mkSchema sd st r1 d1 := by
  obtain ⟨st, r0, d0, r1, d1, a, b, c, d, e, f, g, _⟩ := load_ok_inv' h
  exact ⟨st, r0, d0, r1, d1, a, b, c, d, e, f, g⟩

/- ---------------- validators ---------------- -/

theorem validateName_pass {p : Pos} {n : Name} (h : validateName p n = .pass) : hasDunder n = false := by
  unfold validateName at h
  split at h
  · simp at h
  · rename_i hd; simpa using hd

theorem validateTypeRef_pass {st : LState} {t : GType} (h : validateTypeRef st t = .pass) :
    ∃ d, st.types.lookup t.name = some d := by
  unfold validateTypeRef LState.type? at h
  split at h
  · simp at h
  · rename_i d hd; exact ⟨d, hd⟩

theorem validateDirectiveUse_pass {st : LState} {loc : Bytes} {cur : Option Name} {dir : Directive}
    (h : validateDirectiveUse st loc cur dir = .pass) :
    ∃ dd, st.directives.lookup dir.name = some dd ∧ dd.locations.contains loc = true := by
  unfold validateDirectiveUse at h
  simp only [andThen_eq_pass] at h
  obtain ⟨_, _, h3⟩ := h
  split at h3
  · simp at h3
  · rename_i dd hdd
    simp only [andThen_eq_pass] at h3
    refine ⟨dd, hdd, ?_⟩
    obtain ⟨h4, _⟩ := h3
    split at h4
    · assumption
    · simp at h4

theorem validateDirectives_pass {st : LState} {dirs : List Directive} {loc : Bytes} {cur : Option Name}
    (h : validateDirectives st dirs loc cur = .pass) :
    ∀ dir ∈ dirs, ∃ dd, st.directives.lookup dir.name = some dd ∧ dd.locations.contains loc = true := by
  unfold validateDirectives at h
  rw [each_eq_pass] at h
  exact fun dir hdir => validateDirectiveUse_pass (h dir hdir)

theorem validateArgs_pass {st : LState} {args : List ArgDef} {cur : Option Name}
    (h : validateArgs st args cur = .pass) :
    ∀ a ∈ args, (∃ d, st.types.lookup a.type.name = some d ∧ isInputKind d.kind = true) ∧
      validateDirectives st a.dirs locArgumentDefinition cur = .pass := by
  unfold validateArgs at h
  rw [each_eq_pass] at h
  intro a ha
  have := h a ha
  simp only [andThen_eq_pass] at this
  obtain ⟨_, _, h3, h4⟩ := this
  refine ⟨?_, h4⟩
  unfold LState.type? at h3
  split at h3
  · simp at h3
  · rename_i d hd
    refine ⟨d, hd, ?_⟩
    split at h3
    · assumption
    · simp at h3

theorem validateImplements_pass {st : LState} {d : Definition} {i : Name} (h : validateImplements st d i = .pass) :
    ∃ intf, st.types.lookup i = some intf ∧ intf.kind = .interface := by
  unfold validateImplements LState.type? at h
  split at h
  · simp at h
  · rename_i intf hintf
    refine ⟨intf, hintf, ?_⟩
    split at h
    · simp at h
    · rename_i hk; simpa using hk

/-- the facts a passing `validateDefinition` establishes -/
structure DefOK (st : LState) (d : Definition) : Prop where
  fieldNames : ∀ f ∈ d.fields, hasDunder f.name = false
  uniqueFields : checkUniqueFields d.name d.fields = .pass
  defName : d.builtIn = false → hasDunder d.name = false
  fieldTypes : ∀ f ∈ d.fields, ∃ t, st.types.lookup f.type.name = some t
  fieldArgs : ∀ f ∈ d.fields, validateArgs st f.args none = .pass
  fieldDirs : ∀ f ∈ d.fields, validateDirectives st f.dirs
      (if d.kind = .inputObject then locInputFieldDefinition else locFieldDefinition) none = .pass
  members : ∀ m ∈ d.types, ∃ t, st.types.lookup m = some t ∧ t.kind = .object
  interfaces : ∀ i ∈ d.interfaces, ∃ intf, st.types.lookup i = some intf ∧ intf.kind = .interface
  implements : ∀ i ∈ d.interfaces, validateImplements st d i = .pass
  kindSpecific : validateKindSpecific st d = .pass
  dirs : validateDirectives st d.dirs d.kind.render none = .pass

theorem validateDefinition_pass {st : LState} {d : Definition} (h : validateDefinition st d = .pass) : DefOK st d := by
  unfold validateDefinition at h
  simp only [andThen_eq_pass, each_eq_pass] at h
  obtain ⟨hf, hm, hi, hk, hu, hn, hd⟩ := h
  refine ⟨fun f hf' => validateName_pass (hf f hf').1, hu,
    fun hb => by rw [hb] at hn; exact validateName_pass hn,
    fun f hf' => validateTypeRef_pass (hf f hf').2.1, fun f hf' => (hf f hf').2.2.1,
    fun f hf' => (hf f hf').2.2.2, ?_, fun i hi' => validateImplements_pass (hi i hi'), hi, hk, hd⟩
  intro m hm'
  have := hm m hm'
  unfold LState.type? at this
  split at this
  · simp at this
  · rename_i t ht
    refine ⟨t, ht, ?_⟩
    split at this
    · assumption
    · simp at this

/-- object / interface fields hold output types, input-object fields hold input types -/
theorem kindSpecific_fields {st : LState} {d : Definition} (h : validateKindSpecific st d = .pass)
    {f : FieldDef} (hf : f ∈ d.fields) {t : Definition} (ht : st.types.lookup f.type.name = some t) :
    (d.kind = .object ∨ d.kind = .interface → isOutputKind t.kind = true) ∧
    (d.kind = .inputObject → isInputKind t.kind = true) := by
  unfold validateKindSpecific at h
  have hout : ∀ (m1 : Bytes) (m2 : Bytes), (if d.fields.isEmpty = true then failAt d.pos m1
      else each d.fields fun f =>
        match st.type? f.type.name with
        | some t => if isOutputKind t.kind = true then Chk.pass
                    else failAt f.pos m2
        | none => Chk.pass) = .pass → isOutputKind t.kind = true := by
    intro m1 m2 h
    split at h
    · simp at h
    · rw [each_eq_pass] at h
      have := h f hf
      simp only [LState.type?, ht] at this
      split at this
      · assumption
      · simp at this
  cases hk : d.kind <;> simp only [hk] at h <;> simp only [reduceCtorEq, or_self, or_false, false_or, false_implies, true_implies, and_true, true_and]
  · exact hout _ _ h
  · exact hout _ _ h
  · split at h
    · simp at h
    · rw [each_eq_pass] at h
      have := h f hf
      simp only [LState.type?, ht] at this
      split at this
      · assumption
      · simp at this

/-- enum value directives are validated on enums -/
theorem kindSpecific_enumDirs {st : LState} {d : Definition} (h : validateKindSpecific st d = .pass)
    (hk : d.kind = .enum) : ∀ v ∈ d.enumValues, validateDirectives st v.dirs locEnumValue none = .pass := by
  unfold validateKindSpecific at h
  simp only [hk] at h
  split at h
  · simp at h
  · rw [each_eq_pass] at h
    intro v hv
    have := h v hv
    simp only [andThen_eq_pass] at this
    exact this.2.2

theorem validateTypeDefinitions_pass {st : LState} (h : validateTypeDefinitions st = .pass) :
    ∀ k d, st.types.lookup k = some d → DefOK st d := by
  unfold validateTypeDefinitions at h
  rw [each_eq_pass] at h
  intro k d hkd
  have hk : k ∈ sortNames (st.types.map Prod.fst) := by
    rw [mem_sortNames, ← lookup_isSome_iff_mem_keys, hkd]; rfl
  have := h k hk
  simp only [LState.type?, hkd] at this
  exact validateDefinition_pass this

theorem validateDirectiveDefinitions_pass {st : LState} (h : validateDirectiveDefinitions st = .pass) :
    ∀ k dd, st.directives.lookup k = some dd → validateArgs st dd.args (some dd.name) = .pass := by
  unfold validateDirectiveDefinitions at h
  rw [each_eq_pass] at h
  intro k dd hkd
  have hk : k ∈ sortNames (st.directives.map Prod.fst) := by
    rw [mem_sortNames, ← lookup_isSome_iff_mem_keys, hkd]; rfl
  have := h k hk
  simp only [hkd, validateDirectiveDef, andThen_eq_pass] at this
  exact this.2

end Gql.Load
