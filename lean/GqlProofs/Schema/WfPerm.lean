import GqlProofs.Schema.Complete
/-
  The specification is order independent: `Spec.WellFormed` does not change when the five lists of a
  merged document (definitions, extensions, directive definitions, schema definitions, schema extensions)
  are permuted — i.e. when the sources are loaded in another order or split differently.

  Permuting the EXTENSIONS changes the merged definitions (fields, interfaces, members, values and
  directives are appended in another order), so the merged type systems are compared up to `DefEquiv`.
-/
set_option linter.unusedSimpArgs false
namespace Gql.Load
open Gql

/-- `sd'` is `sd` with each of its five lists permuted -/
structure SourcesPerm (sd sd' : SchemaDoc) : Prop where
  definitions : sd'.definitions.Perm sd.definitions
  extensions : sd'.extensions.Perm sd.extensions
  directives : sd'.directives.Perm sd.directives
  schema : sd'.schema.Perm sd.schema
  schemaExt : sd'.schemaExt.Perm sd.schemaExt

theorem SourcesPerm.symm {sd sd' : SchemaDoc} (h : SourcesPerm sd sd') : SourcesPerm sd' sd :=
  ⟨h.definitions.symm, h.extensions.symm, h.directives.symm, h.schema.symm, h.schemaExt.symm⟩

theorem SourcesPerm.refl (sd : SchemaDoc) : SourcesPerm sd sd := ⟨.refl _, .refl _, .refl _, .refl _, .refl _⟩

theorem DefsPerm.sources {sd sd' : SchemaDoc} (h : DefsPerm sd sd') : SourcesPerm sd sd' :=
  ⟨h.definitions, by rw [h.extensions], by rw [h.directives], by rw [h.schema], by rw [h.schemaExt]⟩

/-- the same definition up to the order of its member lists -/
structure DefEquiv (d d' : Definition) : Prop where
  kind : d'.kind = d.kind
  name : d'.name = d.name
  builtIn : d'.builtIn = d.builtIn
  dirs : d'.dirs.Perm d.dirs
  interfaces : d'.interfaces.Perm d.interfaces
  fields : d'.fields.Perm d.fields
  types : d'.types.Perm d.types
  enumValues : d'.enumValues.Perm d.enumValues

theorem DefEquiv.refl (d : Definition) : DefEquiv d d := ⟨rfl, rfl, rfl, .refl _, .refl _, .refl _, .refl _, .refl _⟩

/-- relation on optional definitions: both absent, or both present and equivalent -/
def OptEquiv : Option Definition → Option Definition → Prop
  | some d, some d' => DefEquiv d d'
  | none, none => True
  | _, _ => False

/- ------------------------------------------------------------------ merging -/

theorem foldExt_fold (es : List Definition) (d : Definition) :
    (es.foldl Spec.foldExt d).kind = d.kind ∧ (es.foldl Spec.foldExt d).name = d.name ∧
    (es.foldl Spec.foldExt d).builtIn = d.builtIn ∧
    (es.foldl Spec.foldExt d).dirs = d.dirs ++ es.flatMap (·.dirs) ∧
    (es.foldl Spec.foldExt d).interfaces = d.interfaces ++ es.flatMap (·.interfaces) ∧
    (es.foldl Spec.foldExt d).fields = d.fields ++ es.flatMap (·.fields) ∧
    (es.foldl Spec.foldExt d).types = d.types ++ es.flatMap (·.types) ∧
    (es.foldl Spec.foldExt d).enumValues = d.enumValues ++ es.flatMap (·.enumValues) := by
  induction es generalizing d with
  | nil => simp
  | cons e rest ih =>
    simp only [List.foldl_cons, List.flatMap_cons]
    obtain ⟨h1, h2, h3, h4, h5, h6, h7, h8⟩ := ih (Spec.foldExt d e)
    refine ⟨h1, h2, h3, ?_, ?_, ?_, ?_, ?_⟩
    · rw [h4]; simp [Spec.foldExt]
    · rw [h5]; simp [Spec.foldExt]
    · rw [h6]; simp [Spec.foldExt]
    · rw [h7]; simp [Spec.foldExt]
    · rw [h8]; simp [Spec.foldExt]

theorem foldExt_equiv {es es' : List Definition} (hp : es'.Perm es) {d d' : Definition} (hd : DefEquiv d d') :
    DefEquiv (es.foldl Spec.foldExt d) (es'.foldl Spec.foldExt d') := by
  obtain ⟨h1, h2, h3, h4, h5, h6, h7, h8⟩ := foldExt_fold es d
  obtain ⟨g1, g2, g3, g4, g5, g6, g7, g8⟩ := foldExt_fold es' d'
  refine ⟨by rw [g1, h1, hd.kind], by rw [g2, h2, hd.name], by rw [g3, h3, hd.builtIn], ?_, ?_, ?_, ?_, ?_⟩
  · rw [g4, h4]; exact hd.dirs.append (hp.flatMap_right _)
  · rw [g5, h5]; exact hd.interfaces.append (hp.flatMap_right _)
  · rw [g6, h6]; exact hd.fields.append (hp.flatMap_right _)
  · rw [g7, h7]; exact hd.types.append (hp.flatMap_right _)
  · rw [g8, h8]; exact hd.enumValues.append (hp.flatMap_right _)

theorem find_name_perm {l l' : List Definition} (hp : l'.Perm l) (hn : (l.map (·.name)).Nodup) (n : Name) :
    l'.find? (·.name == n) = l.find? (·.name == n) := by
  rw [← lookup_map_pairs, ← lookup_map_pairs]
  apply perm_lookup (hp.map _)
  simpa [List.map_map, Function.comp_def] using hn

/-- same-named extensions without a base definition have the same kind -/
theorem ext_kinds_agree {sd : SchemaDoc} (hk : Spec.extensionKindsMatch sd = true) {n : Name}
    (hbase : sd.definitions.find? (·.name == n) = none) {e e' : Definition}
    (he : e ∈ sd.extensions) (hen : e.name = n) (he' : e' ∈ sd.extensions) (hen' : e'.name = n) : e.kind = e'.kind := by
  simp only [Spec.extensionKindsMatch, List.all_eq_true] at hk
  have h1 := hk e he
  have h2 := hk e' he'
  rw [hen, hbase] at h1
  rw [hen', hbase] at h2
  cases hf : sd.extensions.find? (·.name == n) with
  | none =>
    rw [List.find?_eq_none] at hf
    exact absurd (by simpa using hen) (hf e he)
  | some e0 =>
    simp only [hf, beq_iff_eq] at h1 h2
    rw [← h1, ← h2]

/-- **merging is order independent up to `DefEquiv`** -/
theorem mergedType_perm {sd sd' : SchemaDoc} (hp : SourcesPerm sd sd') (hu : (sd.definitions.map (·.name)).Nodup)
    (hk : Spec.extensionKindsMatch sd = true) (hext : ∀ e ∈ sd.extensions, e.builtIn = false) (n : Name) :
    OptEquiv (Spec.mergedType sd n) (Spec.mergedType sd' n) := by
  unfold Spec.mergedType
  rw [find_name_perm hp.definitions hu n]
  have hfp : (sd'.extensions.filter (·.name == n)).Perm (sd.extensions.filter (·.name == n)) := hp.extensions.filter _
  cases hb : sd.definitions.find? (·.name == n) with
  | some d => exact foldExt_equiv hfp (DefEquiv.refl d)
  | none =>
    simp only
    cases he : sd.extensions.filter (·.name == n) with
    | nil =>
      rw [he] at hfp
      rw [hfp.eq_nil]
      trivial
    | cons e es =>
      cases he' : sd'.extensions.filter (·.name == n) with
      | nil =>
        rw [he'] at hfp
        have := hfp.symm.eq_nil
        rw [he] at this
        cases this
      | cons e' es' =>
        rw [he, he'] at hfp
        have hm : e ∈ sd.extensions.filter (·.name == n) := by rw [he]; simp
        have hm' : e' ∈ sd.extensions.filter (·.name == n) := by
          rw [he]; exact hfp.mem_iff.mp (by simp)
        obtain ⟨hm1, hm2⟩ := List.mem_filter.mp hm
        obtain ⟨hm1', hm2'⟩ := List.mem_filter.mp hm'
        have hn1 : e.name = n := by simpa using hm2
        have hn2 : e'.name = n := by simpa using hm2'
        apply foldExt_equiv hfp
        exact ⟨(ext_kinds_agree hk hb hm1 hn1 hm1' hn2).symm, by simp [hn1, hn2],
          by simp [hext e hm1, hext e' hm1'], .refl _, .refl _, .refl _, .refl _, .refl _⟩

/- ------------------------------------------------------------------ equivalent type systems -/

/-- two merged type systems that differ by the order of the sources -/
structure TsEquiv (ts ts' : Spec.TypeSystem) : Prop where
  back : ∀ d' ∈ ts'.types, ∃ d ∈ ts.types, DefEquiv d d'
  typeQ : ∀ n, OptEquiv (ts.type? n) (ts'.type? n)
  dirs : ts'.directives.Perm ts.directives
  dirQ : ∀ n, ts'.directive? n = ts.directive? n
  sdefs : ts'.schemaDefs.Perm ts.schemaDefs

theorem type?_ofDoc (sd : SchemaDoc) (n : Name) :
    (Spec.TypeSystem.ofDoc sd).type? n =
      if n ∈ (sd.definitions ++ sd.extensions).map (·.name) then Spec.mergedType sd n else none := by
  unfold Spec.TypeSystem.type? Spec.TypeSystem.ofDoc
  simp only
  rw [find_filterMap (fun m d hm => mergedType_name hm)]
  simp only [mem_dedup, List.not_mem_nil, not_false_eq_true, and_true]

theorem find_unique_of_nodup {l : List DirectiveDef} {p : DirectiveDef → Bool}
    (hn : ((l.filter p).map (·.name)).Nodup) {d : DirectiveDef} (hd : d ∈ l) (hp : p d = true) :
    l.find? (fun x => x.name == d.name && p x) = some d := by
  induction l with
  | nil => simp at hd
  | cons x rest ih =>
    simp only [List.find?_cons]
    simp only [List.mem_cons] at hd
    cases hx : (x.name == d.name && p x) with
    | true =>
      simp only [Bool.and_eq_true, beq_iff_eq] at hx
      rcases hd with hd | hd
      · rw [hd]
      · exfalso
        simp only [List.filter_cons, hx.2, ↓reduceIte, List.map_cons, List.nodup_cons] at hn
        apply hn.1
        rw [hx.1]
        exact List.mem_map.mpr ⟨d, List.mem_filter.mpr ⟨hd, hp⟩, rfl⟩
    | false =>
      rcases hd with hd | hd
      · subst hd; simp [hp] at hx
      · apply ih _ hd
        simp only [List.filter_cons] at hn
        split at hn
        · simp only [List.map_cons, List.nodup_cons] at hn; exact hn.2
        · exact hn

/-- the first element with a property that at most one name-sake satisfies does not depend on the order -/
theorem find_perm_of_nodup {l l' : List DirectiveDef} (hp : l'.Perm l) {p : DirectiveDef → Bool}
    (hn : ((l.filter p).map (·.name)).Nodup) (n : Name) :
    l'.find? (fun x => x.name == n && p x) = l.find? (fun x => x.name == n && p x) := by
  have hn' : ((l'.filter p).map (·.name)).Nodup := (((hp.filter p).map _).nodup_iff).mpr hn
  cases hf : l.find? (fun x => x.name == n && p x) with
  | some d =>
    have hm := List.mem_of_find?_eq_some hf
    have hs := List.find?_some hf
    simp only [Bool.and_eq_true, beq_iff_eq] at hs
    rw [← hs.1]
    exact find_unique_of_nodup hn' (hp.mem_iff.mpr hm) hs.2
  | none =>
    rw [List.find?_eq_none] at hf ⊢
    exact fun x hx => hf x (hp.mem_iff.mp hx)

/-- the directive definition in force does not depend on the order of the declarations, when names are
    unique per provenance -/
theorem directive?_perm {sd sd' : SchemaDoc} (hp : sd'.directives.Perm sd.directives)
    (hu : Spec.uniqueDirectiveNames sd = true) (n : Name) :
    (Spec.TypeSystem.ofDoc sd').directive? n = (Spec.TypeSystem.ofDoc sd).directive? n := by
  simp only [Spec.uniqueDirectiveNames, Bool.and_eq_true] at hu
  have hU := nodup_of_pairwiseDistinct hu.1
  have hP := nodup_of_pairwiseDistinct hu.2
  unfold Spec.TypeSystem.directive? Spec.TypeSystem.ofDoc
  simp only
  rw [find_perm_of_nodup hp (p := fun d => Spec.userWritten d.pos) hU n]
  cases hf : sd.directives.find? (fun d => d.name == n && Spec.userWritten d.pos) with
  | some d => rfl
  | none =>
    simp only
    -- no user-written declaration of n: every declaration of n is the prelude's
    have key : ∀ l : List DirectiveDef, (∀ x ∈ l, x ∈ sd.directives) →
        l.find? (·.name == n) = l.find? (fun x => x.name == n && !Spec.userWritten x.pos) := by
      intro l hl
      apply find?_congr_mem
      intro x hx
      cases hxn : (x.name == n) with
      | false => simp
      | true =>
        cases hxu : Spec.userWritten x.pos with
        | false => simp
        | true =>
          rw [List.find?_eq_none] at hf
          exact absurd (by simp [hxn, hxu]) (hf x (hl x hx))
    rw [key sd.directives (fun x hx => hx), key sd'.directives (fun x hx => hp.mem_iff.mp hx)]
    exact find_perm_of_nodup hp (p := fun d => !Spec.userWritten d.pos) hP n

theorem tsEquiv_of_perm {sd sd' : SchemaDoc} (hp : SourcesPerm sd sd') (hw : Spec.WellFormed sd)
    (hext : ∀ e ∈ sd.extensions, e.builtIn = false) :
    TsEquiv (Spec.TypeSystem.ofDoc sd) (Spec.TypeSystem.ofDoc sd') := by
  have hu := nodup_of_pairwiseDistinct hw.uniqueTypeNames
  have hM := mergedType_perm hp hu hw.extensionKindsMatch hext
  have hnames : ∀ n, n ∈ (sd'.definitions ++ sd'.extensions).map (·.name) ↔ n ∈ (sd.definitions ++ sd.extensions).map (·.name) :=
    fun n => ((hp.definitions.append hp.extensions).map _).mem_iff
  have hQ : ∀ n, OptEquiv ((Spec.TypeSystem.ofDoc sd).type? n) ((Spec.TypeSystem.ofDoc sd').type? n) := by
    intro n
    rw [type?_ofDoc, type?_ofDoc]
    by_cases hn : n ∈ (sd.definitions ++ sd.extensions).map (·.name)
    · rw [if_pos hn, if_pos ((hnames n).mpr hn)]; exact hM n
    · rw [if_neg hn, if_neg (fun h => hn ((hnames n).mp h))]; trivial
  refine ⟨?_, hQ, hp.directives, directive?_perm hp.directives hw.uniqueDirectiveNames, hp.schema.append hp.schemaExt⟩
  intro d' hd'
  have hfind : (Spec.TypeSystem.ofDoc sd').type? d'.name = some d' := by
    -- d' is the entry found under its own name: names of merged types are their keys, keys are distinct
    unfold Spec.TypeSystem.ofDoc at hd'
    simp only [List.mem_filterMap] at hd'
    obtain ⟨n, hn, hmn⟩ := hd'
    have hname := mergedType_name hmn
    rw [type?_ofDoc, hname]
    rw [mem_dedup] at hn
    rw [if_pos hn.1]; exact hmn
  have := hQ d'.name
  rw [hfind] at this
  cases hs : (Spec.TypeSystem.ofDoc sd).type? d'.name with
  | none => rw [hs] at this; exact absurd this (by simp [OptEquiv])
  | some d =>
    rw [hs] at this
    unfold Spec.TypeSystem.type? at hs
    exact ⟨d, List.mem_of_find?_eq_some hs, this⟩

/- ------------------------------------------------------------------ what equivalence preserves -/

section
variable {ts ts' : Spec.TypeSystem}

theorem TsEquiv.typeIs_eq (E : TsEquiv ts ts') (n : Name) (p : DefKind → Bool) : ts'.typeIs n p = ts.typeIs n p := by
  unfold Spec.TypeSystem.typeIs
  have := E.typeQ n
  cases h1 : ts.type? n <;> cases h2 : ts'.type? n <;> rw [h1, h2] at this <;> simp only [OptEquiv] at this
  all_goals first | rfl | simp only [this.kind]

theorem TsEquiv.isSome_eq (E : TsEquiv ts ts') (n : Name) : (ts'.type? n).isSome = (ts.type? n).isSome := by
  have := E.typeQ n
  cases h1 : ts.type? n <;> cases h2 : ts'.type? n <;> rw [h1, h2] at this <;> simp only [OptEquiv] at this <;> rfl

theorem TsEquiv.covariant_eq (E : TsEquiv ts ts') : ∀ (r a : GType), Spec.covariant ts' r a = Spec.covariant ts r a := by
  intro r
  induction r with
  | named rn rnn rp =>
    intro a
    cases a with
    | named an ann ap =>
      simp only [Spec.covariant]
      congr 2
      have ha := E.typeQ an
      have hr := E.typeQ rn
      cases h1 : ts.type? an <;> cases h2 : ts'.type? an <;> rw [h1, h2] at ha <;> simp only [OptEquiv] at ha
      all_goals first
        | rfl
        | (cases h3 : ts.type? rn <;> cases h4 : ts'.type? rn <;> rw [h3, h4] at hr <;> simp only [OptEquiv] at hr
           all_goals first
             | rfl
             | simp only [ha.kind, hr.kind, hr.types.contains_eq, ha.interfaces.contains_eq])
    | list ae ann ap => rfl
  | list re rnn rp ih =>
    intro a
    cases a with
    | named an ann ap => rfl
    | list ae ann ap => simp only [Spec.covariant, ih]

theorem TsEquiv.mem_uses (E : TsEquiv ts ts') {u : Directive × Bytes × Option Name} (hu : u ∈ ts'.directiveUses) :
    u ∈ ts.directiveUses := by
  obtain ⟨dir, loc, cur⟩ := u
  simp only [Spec.TypeSystem.directiveUses, List.mem_append, List.mem_flatMap, List.mem_map, Prod.mk.injEq] at hu ⊢
  rcases hu with (⟨d', hd', hsite⟩ | ⟨s, hs, x, hx, e⟩) | ⟨dd, hdd, a, ha, x, hx, e⟩
  · obtain ⟨d, hd, Q⟩ := E.back d' hd'
    refine Or.inl (Or.inl ⟨d, hd, ?_⟩)
    rw [Q.kind] at hsite
    rcases hsite with (⟨x, hx, e⟩ | ⟨f, hf, hsite⟩) | ⟨v, hv, x, hx, e⟩
    · exact Or.inl (Or.inl ⟨x, Q.dirs.mem_iff.mp hx, e⟩)
    · exact Or.inl (Or.inr ⟨f, Q.fields.mem_iff.mp hf, hsite⟩)
    · refine Or.inr ⟨v, ?_, x, hx, e⟩
      by_cases hk : d.kind = .enum
      · simp only [hk, ↓reduceIte] at hv ⊢; exact Q.enumValues.mem_iff.mp hv
      · simp [hk] at hv
  · exact Or.inl (Or.inr ⟨s, E.sdefs.mem_iff.mp hs, x, hx, e⟩)
  · exact Or.inr ⟨dd, E.dirs.mem_iff.mp hdd, a, ha, x, hx, e⟩

theorem TsEquiv.mem_argDefs (E : TsEquiv ts ts') {a : ArgDef} (ha : a ∈ ts'.argDefs) : a ∈ ts.argDefs := by
  simp only [Spec.TypeSystem.argDefs, List.mem_append, List.mem_flatMap] at ha ⊢
  rcases ha with ⟨d', hd', f, hf, ha⟩ | ⟨dd, hdd, ha⟩
  · obtain ⟨d, hd, Q⟩ := E.back d' hd'
    exact Or.inl ⟨d, hd, f, Q.fields.mem_iff.mp hf, ha⟩
  · exact Or.inr ⟨dd, E.dirs.mem_iff.mp hdd, ha⟩

theorem pairwiseDistinct_perm {l l' : List Name} (hp : l'.Perm l) (h : Spec.pairwiseDistinct l = true) :
    Spec.pairwiseDistinct l' = true :=
  pairwiseDistinct_of_nodup (hp.nodup_iff.mpr (nodup_of_pairwiseDistinct h))

theorem find_field_perm {l l' : List FieldDef} (hp : l'.Perm l) (hn : (l.map (·.name)).Nodup) (n : Name) :
    l'.find? (·.name == n) = l.find? (·.name == n) := by
  have key : ∀ (m : List FieldDef), (m.map fun f => (f.name, f)).lookup n = m.find? (·.name == n) := by
    intro m
    induction m with
    | nil => rfl
    | cons d rest ih =>
      simp only [List.map_cons, List.lookup, List.find?_cons]
      by_cases h : d.name = n
      · subst h; simp
      · have h1 : (n == d.name) = false := by simp [Ne.symm h]
        have h2 : (d.name == n) = false := by simp [h]
        simp [h1, h2, ih]
  rw [← key, ← key]
  apply perm_lookup (hp.map _)
  simpa [List.map_map, Function.comp_def] using hn

/-- the root-kind clause of one operation is preserved -/
theorem TsEquiv.rootIsObject_eq (E : TsEquiv ts ts') {sd sd' : SchemaDoc} (hs : sd'.schema.Perm sd.schema)
    (op : Bytes) (dflt : Name) : Spec.rootIsObject sd' ts' op dflt = Spec.rootIsObject sd ts op dflt := by
  have hp : ((ts'.schemaDefs.flatMap (·.opTypes)).filter (·.op == op)).Perm
      ((ts.schemaDefs.flatMap (·.opTypes)).filter (·.op == op)) := (E.sdefs.flatMap_right _).filter _
  unfold Spec.rootIsObject
  simp only [hp.all_eq, hp.isEmpty_eq, hs.isEmpty_eq]
  have hobj : ∀ n, OptEquiv (ts.type? n) (ts'.type? n) := E.typeQ
  congr 1
  · congr 1
    funext o
    have := hobj o.type
    cases h1 : ts.type? o.type <;> cases h2 : ts'.type? o.type <;> rw [h1, h2] at this <;> simp only [OptEquiv] at this
    all_goals first | rfl | simp only [this.kind]
  · congr 1
    have := hobj dflt
    cases h1 : ts.type? dflt <;> cases h2 : ts'.type? dflt <;> rw [h1, h2] at this <;> simp only [OptEquiv] at this
    all_goals first | rfl | simp only [this.kind]

/-- every clause about the merged type system is preserved -/
theorem TsEquiv.clauses (E : TsEquiv ts ts') :
    (Spec.uniqueFieldNames ts = true → Spec.uniqueFieldNames ts' = true) ∧
    (Spec.fieldTypesOK ts = true → Spec.fieldTypesOK ts' = true) ∧
    (Spec.argTypesOK ts = true → Spec.argTypesOK ts' = true) ∧
    (Spec.interfacesOK ts = true → Spec.interfacesOK ts' = true) ∧
    (Spec.unionMembersOK ts = true → Spec.unionMembersOK ts' = true) ∧
    (Spec.rootsExist ts = true → Spec.rootsExist ts' = true) ∧
    (Spec.directivesDeclared ts = true → Spec.directivesDeclared ts' = true) ∧
    (Spec.directiveLocationsOK ts = true → Spec.directiveLocationsOK ts' = true) ∧
    (Spec.requiredArgsSupplied ts = true → Spec.requiredArgsSupplied ts' = true) ∧
    (Spec.uniqueFieldNames ts = true → Spec.implementsFieldsOK ts = true → Spec.implementsFieldsOK ts' = true) ∧
    (Spec.implementsAncestorsOK ts = true → Spec.implementsAncestorsOK ts' = true) ∧
    (Spec.nonEmpty ts = true → Spec.nonEmpty ts' = true) ∧
    (Spec.typeNamesNotReserved ts = true → Spec.typeNamesNotReserved ts' = true) ∧
    (Spec.fieldNamesNotReserved ts = true → Spec.fieldNamesNotReserved ts' = true) ∧
    (Spec.argNamesNotReserved ts = true → Spec.argNamesNotReserved ts' = true) ∧
    (Spec.directiveNamesNotReserved ts = true → Spec.directiveNamesNotReserved ts' = true) ∧
    (Spec.enumValueNamesNotReserved ts = true → Spec.enumValueNamesNotReserved ts' = true) ∧
    (Spec.enumValuesNotLiterals ts = true → Spec.enumValuesNotLiterals ts' = true) ∧
    (Spec.directiveArgsDeclared ts = true → Spec.directiveArgsDeclared ts' = true) ∧
    (Spec.noSelfReference ts = true → Spec.noSelfReference ts' = true) ∧
    (Spec.appliedNamesNotReserved ts = true → Spec.appliedNamesNotReserved ts' = true) := by
  refine ⟨?_, ?_, ?_, ?_, ?_, ?_, ?_, ?_, ?_, ?_, ?_, ?_, ?_, ?_, ?_, ?_, ?_, ?_, ?_, ?_, ?_⟩
  · -- uniqueFieldNames
    simp only [Spec.uniqueFieldNames, List.all_eq_true]
    intro h d' hd'
    obtain ⟨d, hd, Q⟩ := E.back d' hd'
    exact pairwiseDistinct_perm (Q.fields.map _) (h d hd)
  · -- fieldTypesOK
    simp only [Spec.fieldTypesOK, List.all_eq_true]
    intro h d' hd' f hf
    obtain ⟨d, hd, Q⟩ := E.back d' hd'
    rw [E.typeIs_eq, Q.kind]
    exact h d hd f (Q.fields.mem_iff.mp hf)
  · -- argTypesOK
    simp only [Spec.argTypesOK, List.all_eq_true]
    intro h a ha
    rw [E.typeIs_eq]
    exact h a (E.mem_argDefs ha)
  · -- interfacesOK
    simp only [Spec.interfacesOK, List.all_eq_true]
    intro h d' hd' i hi
    obtain ⟨d, hd, Q⟩ := E.back d' hd'
    rw [E.typeIs_eq]
    exact h d hd i (Q.interfaces.mem_iff.mp hi)
  · -- unionMembersOK
    simp only [Spec.unionMembersOK, List.all_eq_true]
    intro h d' hd' m hm
    obtain ⟨d, hd, Q⟩ := E.back d' hd'
    rw [E.typeIs_eq]
    exact h d hd m (Q.types.mem_iff.mp hm)
  · -- rootsExist
    simp only [Spec.rootsExist, List.all_eq_true]
    intro h s hs o ho
    rw [E.isSome_eq]
    exact h s (E.sdefs.mem_iff.mp hs) o ho
  · -- directivesDeclared
    simp only [Spec.directivesDeclared, List.all_eq_true]
    intro h u hu
    rw [E.dirQ]
    exact h u (E.mem_uses hu)
  · -- directiveLocationsOK
    simp only [Spec.directiveLocationsOK, List.all_eq_true]
    intro h u hu
    rw [E.dirQ]
    exact h u (E.mem_uses hu)
  · -- requiredArgsSupplied
    simp only [Spec.requiredArgsSupplied, List.all_eq_true]
    intro h u hu
    rw [E.dirQ]
    exact h u (E.mem_uses hu)
  · -- implementsFieldsOK
    simp only [Spec.uniqueFieldNames, Spec.implementsFieldsOK, List.all_eq_true]
    intro hun h d' hd' i hi
    obtain ⟨d, hd, Q⟩ := E.back d' hd'
    have hi0 := h d hd i (Q.interfaces.mem_iff.mp hi)
    have hq := E.typeQ i
    cases h1 : ts.type? i <;> cases h2 : ts'.type? i <;> rw [h1, h2] at hq <;> simp only [OptEquiv] at hq
    all_goals try rfl
    · rename_i intf intf'
      rw [h1] at hi0
      simp only [Bool.or_eq_true, bne_iff_ne, ne_eq, List.all_eq_true] at hi0 ⊢
      rw [hq.kind]
      rcases hi0 with hi0 | hi0
      · exact Or.inl hi0
      · right
        intro rf hrf
        have := hi0 rf (hq.fields.mem_iff.mp hrf)
        rw [find_field_perm Q.fields (nodup_of_pairwiseDistinct (hun d hd))]
        simp only [E.covariant_eq]
        exact this
  · -- implementsAncestorsOK
    simp only [Spec.implementsAncestorsOK, List.all_eq_true]
    intro h d' hd' i hi
    obtain ⟨d, hd, Q⟩ := E.back d' hd'
    have hi0 := h d hd i (Q.interfaces.mem_iff.mp hi)
    have hq := E.typeQ i
    cases h1 : ts.type? i <;> cases h2 : ts'.type? i <;> rw [h1, h2] at hq <;> simp only [OptEquiv] at hq
    all_goals try rfl
    · rw [h1] at hi0
      simp only [Bool.or_eq_true, bne_iff_ne, ne_eq, List.all_eq_true] at hi0 ⊢
      rw [hq.kind]
      rcases hi0 with hi0 | hi0
      · exact Or.inl hi0
      · right
        intro j hj
        rw [Q.interfaces.contains_eq]
        exact hi0 j (hq.interfaces.mem_iff.mp hj)
  · -- nonEmpty
    simp only [Spec.nonEmpty, List.all_eq_true]
    intro h d' hd'
    obtain ⟨d, hd, Q⟩ := E.back d' hd'
    have := h d hd
    rw [Q.kind, Q.fields.isEmpty_eq, Q.enumValues.isEmpty_eq]
    exact this
  · -- typeNamesNotReserved
    simp only [Spec.typeNamesNotReserved, List.all_eq_true]
    intro h d' hd'
    obtain ⟨d, hd, Q⟩ := E.back d' hd'
    rw [Q.builtIn, Q.name]
    exact h d hd
  · -- fieldNamesNotReserved
    simp only [Spec.fieldNamesNotReserved, List.all_eq_true]
    intro h d' hd' f hf
    obtain ⟨d, hd, Q⟩ := E.back d' hd'
    exact h d hd f (Q.fields.mem_iff.mp hf)
  · -- argNamesNotReserved
    simp only [Spec.argNamesNotReserved, List.all_eq_true]
    intro h a ha
    exact h a (E.mem_argDefs ha)
  · -- directiveNamesNotReserved
    simp only [Spec.directiveNamesNotReserved, List.all_eq_true]
    intro h dd hdd
    exact h dd (E.dirs.mem_iff.mp hdd)
  · -- enumValueNamesNotReserved
    simp only [Spec.enumValueNamesNotReserved, List.all_eq_true]
    intro h d' hd'
    obtain ⟨d, hd, Q⟩ := E.back d' hd'
    have := h d hd
    rw [Q.kind]
    simp only [Bool.or_eq_true, List.all_eq_true] at this ⊢
    rcases this with this | this
    · exact Or.inl this
    · exact Or.inr (fun v hv => this v (Q.enumValues.mem_iff.mp hv))
  · -- enumValuesNotLiterals
    simp only [Spec.enumValuesNotLiterals, List.all_eq_true]
    intro h d' hd'
    obtain ⟨d, hd, Q⟩ := E.back d' hd'
    have := h d hd
    rw [Q.kind]
    simp only [Bool.or_eq_true, List.all_eq_true] at this ⊢
    rcases this with this | this
    · exact Or.inl this
    · exact Or.inr (fun v hv => this v (Q.enumValues.mem_iff.mp hv))
  · -- directiveArgsDeclared
    simp only [Spec.directiveArgsDeclared, List.all_eq_true]
    intro h u hu
    rw [E.dirQ]
    exact h u (E.mem_uses hu)
  · -- noSelfReference
    simp only [Spec.noSelfReference, List.all_eq_true]
    intro h u hu
    exact h u (E.mem_uses hu)
  · -- appliedNamesNotReserved
    simp only [Spec.appliedNamesNotReserved, List.all_eq_true]
    intro h u hu
    exact h u (E.mem_uses hu)

end

/- ------------------------------------------------------------------ the clauses about the document itself -/

theorem uniqueDirectiveNames_perm {sd sd' : SchemaDoc} (hp : sd'.directives.Perm sd.directives)
    (h : Spec.uniqueDirectiveNames sd = true) : Spec.uniqueDirectiveNames sd' = true := by
  simp only [Spec.uniqueDirectiveNames, Bool.and_eq_true] at h ⊢
  exact ⟨pairwiseDistinct_perm ((hp.filter _).map _) h.1, pairwiseDistinct_perm ((hp.filter _).map _) h.2⟩

theorem extensionKindsMatch_perm {sd sd' : SchemaDoc} (hp : SourcesPerm sd sd')
    (hu : (sd.definitions.map (·.name)).Nodup) (h : Spec.extensionKindsMatch sd = true) :
    Spec.extensionKindsMatch sd' = true := by
  have h0 := h
  simp only [Spec.extensionKindsMatch, List.all_eq_true] at h ⊢
  intro e he'
  have he : e ∈ sd.extensions := hp.extensions.mem_iff.mp he'
  rw [find_name_perm hp.definitions hu]
  have := h e he
  cases hb : sd.definitions.find? (·.name == e.name) with
  | some d => rw [hb] at this; exact this
  | none =>
    simp only
    cases hf : sd'.extensions.find? (·.name == e.name) with
    | none => rfl
    | some e0 =>
      simp only [beq_iff_eq]
      have hm0 : e0 ∈ sd.extensions := hp.extensions.mem_iff.mp (List.mem_of_find?_eq_some hf)
      have hn0 : e0.name = e.name := by simpa using List.find?_some hf
      exact ext_kinds_agree h0 hb hm0 hn0 he rfl

theorem rootOperationTypesOnce_perm {sd sd' : SchemaDoc} (hp : SourcesPerm sd sd') :
    Spec.rootOperationTypesOnce sd' = Spec.rootOperationTypesOnce sd := by
  have hpp : (((sd'.schema ++ sd'.schemaExt).flatMap (·.opTypes)).map (·.op)).Perm
      (((sd.schema ++ sd.schemaExt).flatMap (·.opTypes)).map (·.op)) :=
    ((hp.schema.append hp.schemaExt).flatMap_right _).map _
  simp only [Spec.rootOperationTypesOnce, (hpp.filter _).length_eq]

/-- **`WellFormed_perm`: well-formedness does not depend on the order of the sources** (`hext`: no
    extension is marked built in — otherwise the `builtIn` flag of a type that only has extensions would be
    the flag of whichever extension comes first) -/
theorem WellFormed_perm {sd sd' : SchemaDoc} (hp : SourcesPerm sd sd')
    (hext : ∀ e ∈ sd.extensions, e.builtIn = false) (h : Spec.WellFormed sd) : Spec.WellFormed sd' := by
  have E := tsEquiv_of_perm hp h hext
  obtain ⟨c1, c2, c3, c4, c5, c6, c7, c8, c9, c10, c11, c12, c13, c14, c15, c16, c17, c18, c19, c20, c21⟩ := E.clauses
  have hu := nodup_of_pairwiseDistinct h.uniqueTypeNames
  exact {
    uniqueTypeNames := pairwiseDistinct_perm (hp.definitions.map _) h.uniqueTypeNames
    uniqueDirectiveNames := uniqueDirectiveNames_perm hp.directives h.uniqueDirectiveNames
    uniqueFieldNames := c1 h.uniqueFieldNames
    fieldTypesOK := c2 h.fieldTypesOK
    argTypesOK := c3 h.argTypesOK
    interfacesOK := c4 h.interfacesOK
    unionMembersOK := c5 h.unionMembersOK
    rootsExist := c6 h.rootsExist
    directivesDeclared := c7 h.directivesDeclared
    directiveLocationsOK := c8 h.directiveLocationsOK
    requiredArgsSupplied := c9 h.requiredArgsSupplied
    implementsFieldsOK := c10 h.uniqueFieldNames h.implementsFieldsOK
    implementsAncestorsOK := c11 h.implementsAncestorsOK
    nonEmpty := c12 h.nonEmpty
    typeNamesNotReserved := c13 h.typeNamesNotReserved
    fieldNamesNotReserved := c14 h.fieldNamesNotReserved
    argNamesNotReserved := c15 h.argNamesNotReserved
    directiveNamesNotReserved := c16 h.directiveNamesNotReserved
    enumValueNamesNotReserved := c17 h.enumValueNamesNotReserved
    singleSchemaDef := by
      have := h.singleSchemaDef
      simp only [Spec.singleSchemaDef, decide_eq_true_eq] at this ⊢
      rw [hp.schema.length_eq]; exact this
    extensionKindsMatch := extensionKindsMatch_perm hp hu h.extensionKindsMatch
    enumValuesNotLiterals := c18 h.enumValuesNotLiterals
    directiveArgsDeclared := c19 h.directiveArgsDeclared
    noSelfReference := c20 h.noSelfReference
    appliedNamesNotReserved := c21 h.appliedNamesNotReserved
    rootOperationTypesOnce := by rw [rootOperationTypesOnce_perm hp]; exact h.rootOperationTypesOnce
    rootTypesAreObjects := by
      have := h.rootTypesAreObjects
      unfold Spec.rootTypesAreObjectsDoc at this ⊢
      simp only [E.rootIsObject_eq hp.schema]
      exact this }

theorem WellFormed_perm_iff {sd sd' : SchemaDoc} (hp : SourcesPerm sd sd')
    (hext : ∀ e ∈ sd.extensions, e.builtIn = false) : Spec.WellFormed sd' ↔ Spec.WellFormed sd :=
  ⟨WellFormed_perm hp.symm (fun e he => hext e (hp.extensions.mem_iff.mp he)), WellFormed_perm hp hext⟩

/- ------------------------------------------------------------------ the hypotheses are order independent too -/

theorem namesLexical_perm {sd sd' : SchemaDoc} (hp : SourcesPerm sd sd') (h : NamesLexical sd) : NamesLexical sd' :=
  fun d hd => h d ((hp.definitions.append hp.extensions).mem_iff.mp hd)

theorem directiveNamesDistinct_perm {sd sd' : SchemaDoc} (hp : SourcesPerm sd sd') (h : DirectiveNamesDistinct sd) :
    DirectiveNamesDistinct sd' :=
  ((hp.directives.map _).nodup_iff).mpr h

/-- **the verdict of the loader does not depend on the order of the sources** (documents in which no
    directive name is declared twice): by soundness and completeness the loader accepts exactly the
    well-formed type systems, and well-formedness is order independent -/
theorem load_isOk_sourcesPerm {sd sd' : SchemaDoc} (hp : SourcesPerm sd sd')
    (hext : ∀ e ∈ sd.extensions, e.builtIn = false) (hlex : NamesLexical sd) (hd : DirectiveNamesDistinct sd) :
    (load sd').isOk = (load sd).isOk := by
  have hext' : ∀ e ∈ sd'.extensions, e.builtIn = false := fun e he => hext e (hp.extensions.mem_iff.mp he)
  have hlex' := namesLexical_perm hp hlex
  have hd' := directiveNamesDistinct_perm hp hd
  rw [Bool.eq_iff_iff, isOk_iff, isOk_iff]
  constructor
  · rintro ⟨s, hs⟩
    exact load_complete_distinct ((WellFormed_perm_iff hp hext).mp (load_wellFormed hs hext' hlex' hd')) hext hd
  · rintro ⟨s, hs⟩
    exact load_complete_distinct ((WellFormed_perm_iff hp hext).mpr (load_wellFormed hs hext hlex hd)) hext' hd'

/- ------------------------------------------------------------------ merging the sources in another order -/

/-- what `ParseSchemas` does with the parsed sources: `Merge` them one after the other -/
def mergeAll (l : List SchemaDoc) : SchemaDoc := l.foldl SchemaDoc.merge SchemaDoc.empty

theorem foldl_merge_lists (l : List SchemaDoc) (acc : SchemaDoc) :
    (l.foldl SchemaDoc.merge acc).schema = acc.schema ++ l.flatMap (·.schema) ∧
    (l.foldl SchemaDoc.merge acc).schemaExt = acc.schemaExt ++ l.flatMap (·.schemaExt) ∧
    (l.foldl SchemaDoc.merge acc).directives = acc.directives ++ l.flatMap (·.directives) ∧
    (l.foldl SchemaDoc.merge acc).definitions = acc.definitions ++ l.flatMap (·.definitions) ∧
    (l.foldl SchemaDoc.merge acc).extensions = acc.extensions ++ l.flatMap (·.extensions) := by
  induction l generalizing acc with
  | nil => simp
  | cons d rest ih =>
    simp only [List.foldl_cons, List.flatMap_cons]
    obtain ⟨h1, h2, h3, h4, h5⟩ := ih (acc.merge d)
    refine ⟨?_, ?_, ?_, ?_, ?_⟩
    · rw [h1]; simp [SchemaDoc.merge]
    · rw [h2]; simp [SchemaDoc.merge]
    · rw [h3]; simp [SchemaDoc.merge]
    · rw [h4]; simp [SchemaDoc.merge]
    · rw [h5]; simp [SchemaDoc.merge]

/-- merging the same parsed sources in another order permutes the five lists -/
theorem mergeAll_perm {l l' : List SchemaDoc} (hp : l'.Perm l) : SourcesPerm (mergeAll l) (mergeAll l') := by
  obtain ⟨h1, h2, h3, h4, h5⟩ := foldl_merge_lists l SchemaDoc.empty
  obtain ⟨g1, g2, g3, g4, g5⟩ := foldl_merge_lists l' SchemaDoc.empty
  unfold mergeAll
  refine ⟨?_, ?_, ?_, ?_, ?_⟩
  · rw [g4, h4]; exact (hp.flatMap_right _).append_left _
  · rw [g5, h5]; exact (hp.flatMap_right _).append_left _
  · rw [g3, h3]; exact (hp.flatMap_right _).append_left _
  · rw [g1, h1]; exact (hp.flatMap_right _).append_left _
  · rw [g2, h2]; exact (hp.flatMap_right _).append_left _

end Gql.Load

#print axioms Gql.Load.mergedType_perm
#print axioms Gql.Load.tsEquiv_of_perm
#print axioms Gql.Load.WellFormed_perm
#print axioms Gql.Load.load_isOk_sourcesPerm
#print axioms Gql.Load.mergeAll_perm
