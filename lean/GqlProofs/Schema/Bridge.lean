import GqlProofs.Schema.RelExact
/-
  The spec's merged type system (`Spec.TypeSystem.ofDoc`) and the loader's type map describe the
  same definitions.
-/
set_option linter.unusedSimpArgs false
namespace Gql.Load
open Gql

/-- base definition (if any) with the extensions of that name folded in -/
def mergedFrom (base : Option Definition) (exts : List Definition) : Option Definition :=
  match base, exts with
  | some d, es => some (es.foldl (fun d e => applyExt e d) d)
  | none, [] => none
  | none, e :: es => some ((e :: es).foldl (fun d e => applyExt e d) (extStub e))

theorem lookup_ensureBase (ext : Definition) (t : List (Name × Definition)) (n : Name) :
    (ensureBase ext t).lookup n =
      match t.lookup n with
      | some d => some d
      | none => if n = ext.name then some (extStub ext) else none := by
  unfold ensureBase
  by_cases hn : n = ext.name
  · subst hn
    cases hl : t.lookup ext.name with
    | some d => simp [hl]
    | none => simp [hl, lookup_append, List.lookup]
  · cases hl : t.lookup ext.name with
    | some d => simp only [hl]; cases t.lookup n <;> simp [hn]
    | none =>
      have : (n == ext.name) = false := by simp [hn]
      simp only [hl, lookup_append, List.lookup, this]
      cases t.lookup n <;> simp [hn]

theorem foldExtensions_lookup {l : List Definition} {t r : List (Name × Definition)}
    (h : foldExtensions l t = .ok r) (n : Name) :
    r.lookup n = mergedFrom (t.lookup n) (l.filter (·.name == n)) := by
  induction l generalizing t with
  | nil =>
    simp [foldExtensions] at h; subst h
    cases t.lookup n <;> simp [mergedFrom]
  | cons ext rest ih =>
    simp only [foldExtensions] at h
    split at h
    · rename_i hn
      have := lookup_ensureBase_self ext t
      rw [hn] at this; simp at this
    · split at h
      · simp at h
      · rw [ih h, lookup_modifyKV, lookup_ensureBase]
        by_cases hn : n = ext.name
        · subst hn
          simp only [↓reduceIte, List.filter_cons, BEq.rfl]
          cases hl : t.lookup ext.name with
          | some d => simp [mergedFrom]
          | none => simp [mergedFrom]
        · have hne : (ext.name == n) = false := by simp [Ne.symm hn]
          simp only [hn, ↓reduceIte, List.filter_cons, hne, Bool.false_eq_true]
          cases hl : t.lookup n <;> simp

theorem lookup_map_pairs (l : List Definition) (n : Name) :
    (l.map fun d => (d.name, d)).lookup n = l.find? (·.name == n) := by
  induction l with
  | nil => rfl
  | cons d rest ih =>
    simp only [List.map_cons, List.lookup, List.find?_cons]
    by_cases h : d.name = n
    · subst h; simp
    · have h1 : (n == d.name) = false := by simp [Ne.symm h]
      have h2 : (d.name == n) = false := by simp [h]
      simp [h1, h2, ih]

/-- the loader's entry for `n`: the definition named `n` with all extensions named `n` folded in -/
theorem state_lookup {sd : SchemaDoc} {st : LState} (h : buildState sd = .ok st) (n : Name) :
    st.types.lookup n = mergedFrom (sd.definitions.find? (·.name == n)) (sd.extensions.filter (·.name == n)) := by
  unfold buildState at h
  split at h
  · simp at h
  · rename_i t0 h0
    split at h
    · simp at h
    · rename_i t1 h1
      split at h
      split at h
      · simp at h
      · simp only [Except.ok.injEq] at h
        subst h
        obtain ⟨hn1, hn2⟩ := declareTypes_ok_inv h0
        have h0eq := declareTypes_ok hn1 hn2
        rw [h0] at h0eq
        simp only [Except.ok.injEq, List.nil_append] at h0eq
        show t1.lookup n = _
        rw [foldExtensions_lookup h1 n, h0eq, lookup_map_pairs]

/-- the spec's merge agrees (extensions are never `builtIn`: the prelude has none) -/
theorem mergedType_eq {sd : SchemaDoc} (hext : ∀ e ∈ sd.extensions, e.builtIn = false) (n : Name) :
    Spec.mergedType sd n = mergedFrom (sd.definitions.find? (·.name == n)) (sd.extensions.filter (·.name == n)) := by
  unfold Spec.mergedType mergedFrom
  cases hb : sd.definitions.find? (·.name == n) with
  | some d => rfl
  | none =>
    simp only
    cases he : sd.extensions.filter (·.name == n) with
    | nil => rfl
    | cons e es =>
      have hmem : e ∈ sd.extensions := by
        have : e ∈ sd.extensions.filter (·.name == n) := by rw [he]; simp
        exact (List.mem_filter.mp this).1
      simp only [extStub, hext e hmem]
      rfl

theorem mergedType_name {sd : SchemaDoc} {n : Name} {d : Definition} (h : Spec.mergedType sd n = some d) : d.name = n := by
  have hfold : ∀ (es : List Definition) (d0 : Definition), (es.foldl Spec.foldExt d0).name = d0.name := by
    intro es
    induction es with
    | nil => intro d0; rfl
    | cons e rest ih => intro d0; simp only [List.foldl_cons]; rw [ih]; rfl
  unfold Spec.mergedType at h
  split at h
  · rename_i d0 hd0
    simp only [Option.some.injEq] at h
    rw [← h, hfold]
    have := List.find?_some hd0
    simpa using this
  · simp only at h
    cases he : sd.extensions.filter (·.name == n) with
    | nil => rw [he] at h; simp at h
    | cons e es =>
      rw [he] at h
      simp only [Option.some.injEq] at h
      rw [← h, hfold]
      have hmem : e ∈ sd.extensions.filter (·.name == n) := by rw [he]; simp
      have := (List.mem_filter.mp hmem).2
      simpa using this

theorem mem_dedup {l seen : List Name} {n : Name} : n ∈ Spec.dedup l seen ↔ n ∈ l ∧ n ∉ seen := by
  induction l generalizing seen with
  | nil => simp [Spec.dedup]
  | cons x rest ih =>
    simp only [Spec.dedup]
    split
    · rename_i hx
      have hx : x ∈ seen := by simpa using hx
      rw [ih]
      constructor
      · rintro ⟨h1, h2⟩; exact ⟨by simp [h1], h2⟩
      · rintro ⟨h1, h2⟩
        simp only [List.mem_cons] at h1
        rcases h1 with h1 | h1
        · subst h1; exact absurd hx h2
        · exact ⟨h1, h2⟩
    · rename_i hx
      have hx : x ∉ seen := by simpa using hx
      simp only [List.mem_cons, ih]
      constructor
      · rintro (h | ⟨h1, h2⟩)
        · subst h; exact ⟨Or.inl rfl, hx⟩
        · exact ⟨Or.inr h1, fun h => h2 (Or.inr h)⟩
      · rintro ⟨h1 | h1, h2⟩
        · exact Or.inl h1
        · by_cases hn : n = x
          · exact Or.inl hn
          · right; refine ⟨h1, ?_⟩
            intro h; rcases h with h | h
            · exact hn h
            · exact h2 h

theorem find_filterMap {g : Name → Option Definition} (hg : ∀ m d, g m = some d → d.name = m) (L : List Name) (n : Name) :
    (L.filterMap g).find? (·.name == n) = if n ∈ L then g n else none := by
  induction L with
  | nil => simp
  | cons m rest ih =>
    simp only [List.filterMap_cons]
    cases hm : g m with
    | none =>
      simp only [ih, List.mem_cons]
      by_cases h : n = m
      · subst h; simp [hm]
      · simp [h]
    | some d =>
      have hname := hg m d hm
      simp only [List.find?_cons, hname, ih, List.mem_cons]
      by_cases h : m = n
      · subst h; simp [hm]
      · have h1 : (m == n) = false := by simp [h]
        have h2 : ¬ (n = m) := fun e => h e.symm
        simp [h1, h2]

/-- **bridge**: resolving a name in the spec's merged type system and in the loader's type map agree -/
theorem spec_type_eq {sd : SchemaDoc} {st : LState} (h : buildState sd = .ok st)
    (hext : ∀ e ∈ sd.extensions, e.builtIn = false) (n : Name) :
    (Spec.TypeSystem.ofDoc sd).type? n = st.types.lookup n := by
  unfold Spec.TypeSystem.type? Spec.TypeSystem.ofDoc
  simp only
  rw [find_filterMap (fun m d hm => mergedType_name hm), state_lookup h, ← mergedType_eq hext]
  split
  · rfl
  · rename_i hn
    rw [mem_dedup] at hn
    simp only [List.not_mem_nil, not_false_eq_true, and_true, List.mem_map, List.mem_append] at hn
    -- no definition and no extension is named n
    unfold Spec.mergedType
    have h1 : sd.definitions.find? (·.name == n) = none := by
      rw [List.find?_eq_none]
      intro d hd he
      exact hn ⟨d, Or.inl hd, by simpa using he⟩
    have h2 : sd.extensions.filter (·.name == n) = [] := by
      rw [List.filter_eq_nil_iff]
      intro d hd he
      exact hn ⟨d, Or.inr hd, by simpa using he⟩
    simp [h1, h2]

/-- every definition of the spec's merged type system is an entry of the loader's type map -/
theorem spec_types_mem {sd : SchemaDoc} {st : LState} (h : buildState sd = .ok st)
    (hext : ∀ e ∈ sd.extensions, e.builtIn = false) {d : Definition} (hd : d ∈ (Spec.TypeSystem.ofDoc sd).types) :
    (d.name, d) ∈ st.types := by
  unfold Spec.TypeSystem.ofDoc at hd
  simp only [List.mem_filterMap] at hd
  obtain ⟨n, _, hn⟩ := hd
  have hname := mergedType_name hn
  rw [mergedType_eq hext, ← state_lookup h] at hn
  rw [hname]
  exact mem_of_lookup hn

theorem spec_typeIs_eq {sd : SchemaDoc} {st : LState} (h : buildState sd = .ok st)
    (hext : ∀ e ∈ sd.extensions, e.builtIn = false) (n : Name) (p : DefKind → Bool) :
    (Spec.TypeSystem.ofDoc sd).typeIs n p = match st.types.lookup n with | some d => p d.kind | none => false := by
  unfold Spec.TypeSystem.typeIs
  rw [spec_type_eq h hext]
  cases st.types.lookup n <;> rfl

end Gql.Load
