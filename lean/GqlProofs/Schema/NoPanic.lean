import GqlProofs.Schema.Closed
/-
  The loader never panics.  The only panic site that was reachable is `isCovariant` reading a nil
  entry of `PossibleTypes`; since the repair no nil entry is ever stored (`buildRelations_noNil`),
  so every document is panic-free (`load_ne_panic`).
-/
namespace Gql.Load
open Gql

theorem validateName_ne_panic (p : Pos) (n : Name) : validateName p n ≠ .panic := by
  unfold validateName; split <;> simp

theorem validateTypeRef_ne_panic (st : LState) (t : GType) : validateTypeRef st t ≠ .panic := by
  unfold validateTypeRef; split <;> simp

theorem validateDirectiveUse_ne_panic (st : LState) (loc : Bytes) (cur : Option Name) (dir : Directive) :
    validateDirectiveUse st loc cur dir ≠ .panic := by
  unfold validateDirectiveUse
  apply andThen_ne_panic (validateName_ne_panic _ _)
  intro _
  apply andThen_ne_panic
  · split
    · split <;> simp
    · simp
  intro _
  split
  · simp
  · apply andThen_ne_panic
    · split <;> simp
    intro _
    apply andThen_ne_panic
    · apply each_ne_panic
      intro a _
      split <;> simp
    intro _
    apply each_ne_panic
    intro a _
    split
    · split
      · simp
      · split <;> simp
    · simp

theorem validateDirectives_ne_panic (st : LState) (dirs : List Directive) (loc : Bytes) (cur : Option Name) :
    validateDirectives st dirs loc cur ≠ .panic :=
  each_ne_panic (fun d _ => validateDirectiveUse_ne_panic st loc cur d)

theorem validateArgs_ne_panic (st : LState) (args : List ArgDef) (cur : Option Name) :
    validateArgs st args cur ≠ .panic := by
  unfold validateArgs
  apply each_ne_panic
  intro a _
  apply andThen_ne_panic (validateName_ne_panic _ _)
  intro _
  apply andThen_ne_panic (validateTypeRef_ne_panic _ _)
  intro hty
  obtain ⟨d, hd⟩ := validateTypeRef_pass hty
  apply andThen_ne_panic
  · simp only [LState.type?, hd]
    split <;> simp
  intro _
  exact validateDirectives_ne_panic _ _ _ _

/-- no nil entry in `PossibleTypes` -/
def NoNilPossible (st : LState) : Prop := ∀ p ∈ st.possible, ∀ e ∈ p.2, e ≠ none

theorem possibleHas_ne_none {l : List (Option Name)} (h : ∀ e ∈ l, e ≠ none) (a : Name) : possibleHas l a ≠ none := by
  induction l with
  | nil => simp [possibleHas]
  | cons e rest ih =>
    cases e with
    | none => exact absurd rfl (h none (by simp))
    | some n =>
      simp only [possibleHas]
      split
      · simp
      · exact ih (fun e he => h e (by simp [he]))

theorem isCovariant_ne_none {st : LState} (h : NoNilPossible st) (r a : GType) : isCovariant st r a ≠ none := by
  induction r generalizing a with
  | named rn rnn rp =>
    unfold isCovariant
    split
    · simp
    · split
      · simp
      · apply possibleHas_ne_none
        cases hl : st.possible.lookup rn with
        | none => simp
        | some vs => exact h (rn, vs) (mem_of_lookup hl)
  | list re rnn rp ih =>
    cases a with
    | named an ann ap => simp [isCovariant]
    | list ae ann ap =>
      simp only [isCovariant]
      split
      · simp
      · exact ih ae

theorem validateTypeImplementsAncestors_ne_panic (st : LState) (d : Definition) (i : Name) :
    validateTypeImplementsAncestors st d i ≠ .panic := by
  unfold validateTypeImplementsAncestors
  split
  · simp
  · apply each_ne_panic
    intro t _
    split
    · simp
    · split <;> simp

theorem validateImplementsField_ne_panic {st : LState} (h : NoNilPossible st) (d intf : Definition) (rf : FieldDef) :
    validateImplementsField st d intf rf ≠ .panic := by
  unfold validateImplementsField
  split
  · simp
  · rename_i found _
    apply andThen_ne_panic
    · have := isCovariant_ne_none h rf.type found.type
      split
      · rename_i hn; exact absurd hn this
      · simp
      · simp
    intro _
    apply andThen_ne_panic
    · apply each_ne_panic
      intro ra _
      split
      · simp
      · split <;> simp
    intro _
    apply each_ne_panic
    intro fa _
    split <;> simp

theorem validateImplements_ne_panic {st : LState} (h : NoNilPossible st) (d : Definition) (i : Name) :
    validateImplements st d i ≠ .panic := by
  unfold validateImplements
  split
  · simp
  · split
    · simp
    · apply andThen_ne_panic
      · exact each_ne_panic (fun rf _ => validateImplementsField_ne_panic h d _ rf)
      · intro _; exact validateTypeImplementsAncestors_ne_panic _ _ _

theorem checkUniqueFields_ne_panic (dn : Name) (fs : List FieldDef) : checkUniqueFields dn fs ≠ .panic := by
  induction fs with
  | nil => simp [checkUniqueFields]
  | cons f rest ih =>
    simp only [checkUniqueFields]
    apply andThen_ne_panic
    · apply each_ne_panic
      intro f2 _
      split <;> simp
    · intro _; exact ih

theorem validateKindSpecific_ne_panic (st : LState) (d : Definition) : validateKindSpecific st d ≠ .panic := by
  unfold validateKindSpecific
  split
  · split
    · simp
    · apply each_ne_panic
      intro f _
      split
      · split <;> simp
      · simp
  · split
    · simp
    · apply each_ne_panic
      intro f _
      split
      · split <;> simp
      · simp
  · split
    · simp
    · apply each_ne_panic
      intro v _
      apply andThen_ne_panic
      · split <;> simp
      intro _
      apply andThen_ne_panic (validateName_ne_panic _ _)
      intro _; exact validateDirectives_ne_panic _ _ _ _
  · split
    · simp
    · apply each_ne_panic
      intro f _
      split
      · split <;> simp
      · simp
  · simp
  · simp

theorem validateDefinition_ne_panic {st : LState} (h : NoNilPossible st) (d : Definition) :
    validateDefinition st d ≠ .panic := by
  unfold validateDefinition
  apply andThen_ne_panic
  · apply each_ne_panic
    intro f _
    apply andThen_ne_panic (validateName_ne_panic _ _)
    intro _
    apply andThen_ne_panic (validateTypeRef_ne_panic _ _)
    intro _
    apply andThen_ne_panic (validateArgs_ne_panic _ _ _)
    intro _
    exact validateDirectives_ne_panic _ _ _ _
  intro _
  apply andThen_ne_panic
  · apply each_ne_panic
    intro m _
    split
    · simp
    · split <;> simp
  intro _
  apply andThen_ne_panic
  · exact each_ne_panic (fun i _ => validateImplements_ne_panic h d i)
  intro _
  apply andThen_ne_panic (validateKindSpecific_ne_panic _ _)
  intro _
  apply andThen_ne_panic (checkUniqueFields_ne_panic _ _)
  intro _
  apply andThen_ne_panic
  · split
    · exact validateName_ne_panic _ _
    · simp
  intro _
  exact validateDirectives_ne_panic _ _ _ _

theorem validateTypeDefinitions_ne_panic {st : LState} (h : NoNilPossible st) : validateTypeDefinitions st ≠ .panic := by
  unfold validateTypeDefinitions
  apply each_ne_panic
  intro k hk
  rw [mem_sortNames, ← lookup_isSome_iff_mem_keys] at hk
  simp only [LState.type?]
  split
  · exact validateDefinition_ne_panic h _
  · rename_i hn; rw [hn] at hk; simp at hk

theorem validateDirectiveDefinitions_ne_panic (st : LState) : validateDirectiveDefinitions st ≠ .panic := by
  unfold validateDirectiveDefinitions
  apply each_ne_panic
  intro k hk
  rw [mem_sortNames, ← lookup_isSome_iff_mem_keys] at hk
  split
  · unfold validateDirectiveDef
    apply andThen_ne_panic (validateName_ne_panic _ _)
    intro _
    exact validateArgs_ne_panic _ _ _
  · rename_i hn; rw [hn] at hk; simp at hk

theorem applySchemaDef_ne_panic (st : LState) (sdef : SchemaDef) (r : Roots) (acc : List Directive) :
    applySchemaDef st sdef r acc ≠ .panic := by
  unfold applySchemaDef
  split
  · simp
  · split
    · simp
    · rename_i hp; exact absurd hp (validateDirectives_ne_panic _ _ _ _)
    · simp

theorem applySchemaDefs_ne_panic (st : LState) (l : List SchemaDef) (r : Roots) (acc : List Directive) :
    applySchemaDefs st l r acc ≠ .panic := by
  induction l generalizing r acc with
  | nil => simp [applySchemaDefs]
  | cons sdef rest ih =>
    simp only [applySchemaDefs]
    split
    · exact ih _ _
    · exact applySchemaDef_ne_panic _ _ _ _

theorem checkRootKind_ne_panic (st : LState) (op : Bytes) (root : Option Name) : checkRootKind st op root ≠ .panic := by
  unfold checkRootKind
  split
  · simp
  · split
    · simp
    · split <;> simp

theorem checkRootKinds_ne_panic (st : LState) (r : Roots) : checkRootKinds st r ≠ .panic := by
  unfold checkRootKinds
  exact andThen_ne_panic (checkRootKind_ne_panic _ _ _)
    (fun _ => andThen_ne_panic (checkRootKind_ne_panic _ _ _) (fun _ => checkRootKind_ne_panic _ _ _))

/-- with no nil entry in `PossibleTypes`, everything after `buildState` is panic-free -/
theorem finish_ne_panic {sd : SchemaDoc} {st : LState} (h : NoNilPossible st) : (finish sd st).isPanic = false := by
  unfold finish
  split
  · rfl
  · split
    · rfl
    · rename_i hp; exact absurd hp (applySchemaDefs_ne_panic _ _ _ _)
    · split
      · rfl
      · rename_i hp; exact absurd hp (applySchemaDefs_ne_panic _ _ _ _)
      · split
        · rfl
        · rename_i hp; exact absurd hp (validateTypeDefinitions_ne_panic h)
        · split
          · rfl
          · rename_i hp; exact absurd hp (validateDirectiveDefinitions_ne_panic st)
          · split
            · rfl
            · rename_i hp; exact absurd hp (checkRootKinds_ne_panic _ _)
            · rfl

theorem load_ne_panic_of_state {sd : SchemaDoc} (h : ∀ st, buildState sd = .ok st → NoNilPossible st) :
    (load sd).isPanic = false := by
  unfold load
  split
  · rfl
  · rename_i st hst; exact finish_ne_panic (h st hst)

end Gql.Load

namespace Gql.Load
open Gql

/-- every union member named anywhere in the document is the name of some definition or extension -/
def MembersDeclared (sd : SchemaDoc) : Prop :=
  ∀ d ∈ sd.definitions ++ sd.extensions, ∀ m ∈ d.types, ∃ d' ∈ sd.definitions ++ sd.extensions, d'.name = m

theorem declareTypes_entries {l : List Definition} {acc r : List (Name × Definition)} (h : declareTypes l acc = .ok r) :
    ∀ p ∈ r, p ∈ acc ∨ p.2 ∈ l := by
  induction l generalizing acc with
  | nil => simp [declareTypes] at h; subst h; intro p hp; exact Or.inl hp
  | cons d rest ih =>
    simp only [declareTypes] at h
    split at h
    · simp at h
    · intro p hp
      rcases ih h p hp with hp | hp
      · simp only [List.mem_append, List.mem_singleton] at hp
        rcases hp with hp | hp
        · exact Or.inl hp
        · right; subst hp; simp
      · right; simp [hp]

theorem lookup_ensureBase_self (ext : Definition) (types : List (Name × Definition)) :
    ((ensureBase ext types).lookup ext.name).isSome := by
  unfold ensureBase
  split
  · rename_i h; rw [h]; rfl
  · rename_i h; rw [lookup_append, h]; simp [List.lookup]

theorem lookup_ensureBase_mono {ext : Definition} {types : List (Name × Definition)} {n : Name}
    (h : (types.lookup n).isSome) : ((ensureBase ext types).lookup n).isSome := by
  unfold ensureBase
  split
  · exact h
  · rw [lookup_append]; cases hl : types.lookup n <;> simp_all

theorem isSome_lookup_modifyKV {α} {k q : Name} {f : α → α} {l : List (Name × α)} :
    ((modifyKV q f l).lookup k).isSome = (l.lookup k).isSome := by
  rw [lookup_modifyKV]; split <;> simp

theorem foldExtensions_keys {l : List Definition} {types r : List (Name × Definition)} (h : foldExtensions l types = .ok r) :
    (∀ n, (types.lookup n).isSome → (r.lookup n).isSome) ∧ ∀ e ∈ l, (r.lookup e.name).isSome := by
  induction l generalizing types with
  | nil => simp [foldExtensions] at h; subst h; simp
  | cons ext rest ih =>
    simp only [foldExtensions] at h
    split at h
    · rename_i hn
      have := lookup_ensureBase_self ext types
      rw [hn] at this; simp at this
    · split at h
      · simp at h
      · obtain ⟨ih1, ih2⟩ := ih h
        refine ⟨fun n hn => ih1 n (by rw [isSome_lookup_modifyKV]; exact lookup_ensureBase_mono hn), ?_⟩
        intro e he
        simp only [List.mem_cons] at he
        rcases he with he | he
        · subst he
          exact ih1 _ (by rw [isSome_lookup_modifyKV]; exact lookup_ensureBase_self _ _)
        · exact ih2 e he

/-- union members of merged definitions come from the members written in the document -/
theorem foldExtensions_members {P : Name → Prop} {l : List Definition} {types r : List (Name × Definition)}
    (h : foldExtensions l types = .ok r) (hl : ∀ e ∈ l, ∀ m ∈ e.types, P m)
    (ht : ∀ p ∈ types, ∀ m ∈ p.2.types, P m) : ∀ p ∈ r, ∀ m ∈ p.2.types, P m := by
  induction l generalizing types with
  | nil => simp [foldExtensions] at h; subst h; exact ht
  | cons ext rest ih =>
    simp only [foldExtensions] at h
    have hb : ∀ p ∈ ensureBase ext types, ∀ m ∈ p.2.types, P m := by
      unfold ensureBase
      split
      · exact ht
      · intro p hp
        simp only [List.mem_append, List.mem_singleton] at hp
        rcases hp with hp | hp
        · exact ht p hp
        · subst hp; simp [extStub]
    split at h
    · simp at h; subst h; exact hb
    · split at h
      · simp at h
      · apply ih h (fun e he => hl e (by simp [he]))
        intro p hp m hm
        obtain ⟨k, v⟩ := p
        rcases mem_modifyKV hp with hp | ⟨_, v0, hv0, hv⟩
        · exact hb _ hp m hm
        · subst hv
          simp only [applyExt, List.mem_append] at hm
          rcases hm with hm | hm
          · exact hb _ hv0 m hm
          · exact hl ext (by simp) m hm

/-- **no nil entry ever enters `PossibleTypes`** (the repaired loader skips undeclared names) -/
theorem noNil_of_buildState {sd : SchemaDoc} {st : LState} (h : buildState sd = .ok st) : NoNilPossible st := by
  have hrel := (buildState_inv h).2.2
  have hfst : st.possible = (buildRelations st.types).1 := congrArg Prod.fst hrel
  intro p hp e he
  rw [hfst] at hp
  exact (buildRelations_noNil st.types).1 p hp e he

/-- … in particular when every union member is declared (the former hypothesis of the partial theorem) -/
theorem noNil_of_membersDeclared {sd : SchemaDoc} (_hm : MembersDeclared sd) {st : LState}
    (h : buildState sd = .ok st) : NoNilPossible st := noNil_of_buildState h

/-- **the loader never panics** -/
theorem load_ne_panic (sd : SchemaDoc) : (load sd).isPanic = false :=
  load_ne_panic_of_state (fun _ hst => noNil_of_buildState hst)

end Gql.Load
