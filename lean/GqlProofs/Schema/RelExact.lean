import GqlProofs.Schema.Perm
/-
  `PossibleTypes` / `Implements` of a loaded schema are the relations the definitions imply.
-/
set_option linter.unusedSimpArgs false
namespace Gql.Load
open Gql

theorem sameSet_iff {a b : List Name} : Spec.sameSet a b = true ↔ ∀ x, x ∈ a ↔ x ∈ b := by
  simp only [Spec.sameSet, Bool.and_eq_true, List.all_eq_true, List.contains_iff_mem]
  constructor
  · intro ⟨h1, h2⟩ x; exact ⟨h1 x, h2 x⟩
  · intro h; exact ⟨fun x hx => (h x).mp hx, fun x hx => (h x).mpr hx⟩

theorem mem_possible_iff (types : List (Name × Definition)) (k : Name) (e : Option Name) :
    e ∈ entriesOf (buildRelations types).1 k ↔ ∃ p ∈ types, (k, e) ∈ possPushes types p.2 := by
  rw [possible_entries]
  simp only [List.mem_map, List.mem_filter, List.mem_flatMap, beq_iff_eq]
  constructor
  · rintro ⟨⟨k', e'⟩, ⟨⟨d, ⟨p, hp, rfl⟩, hd⟩, hk⟩, rfl⟩
    simp only at hk; subst hk
    exact ⟨p, hp, hd⟩
  · rintro ⟨p, hp, hd⟩
    exact ⟨(k, e), ⟨⟨p.2, ⟨p, hp, rfl⟩, hd⟩, rfl⟩, rfl⟩

theorem mem_implements_iff (types : List (Name × Definition)) (k : Name) (e : Option Name) :
    e ∈ entriesOf (buildRelations types).2 k ↔ ∃ p ∈ types, (k, e) ∈ implPushes types p.2 := by
  rw [implements_entries]
  simp only [List.mem_map, List.mem_filter, List.mem_flatMap, beq_iff_eq]
  constructor
  · rintro ⟨⟨k', e'⟩, ⟨⟨d, ⟨p, hp, rfl⟩, hd⟩, hk⟩, rfl⟩
    simp only at hk; subst hk
    exact ⟨p, hp, hd⟩
  · rintro ⟨p, hp, hd⟩
    exact ⟨(k, e), ⟨⟨p.2, ⟨p, hp, rfl⟩, hd⟩, rfl⟩, rfl⟩

/-- the final type map is the state's type map with one definition extended by the introspection fields -/
def finalDef (q : Option Name) (p : Name × Definition) : Name × Definition :=
  match q with
  | some q => if p.1 == q then (p.1, addIntrospection p.2) else p
  | none => p

theorem mkSchema_types_map {sd : SchemaDoc} {st : LState} {r1 : Roots} {d1 : List Directive}
    (hn : (st.types.map Prod.fst).Nodup) :
    (mkSchema sd st r1 d1).types = st.types.map (finalDef (finalRoots sd st r1).query) := by
  rw [mkSchema_types]
  cases hq : (finalRoots sd st r1).query with
  | none =>
    have : finalDef none = id := by funext p; rfl
    simp [this]
  | some q =>
    have : finalDef (some q) = fun p => if p.1 == q then (p.1, addIntrospection p.2) else p := by funext p; rfl
    rw [this]; exact modifyKV_eq_map q addIntrospection hn

theorem finalDef_fst (q : Option Name) (p : Name × Definition) : (finalDef q p).1 = p.1 := by
  unfold finalDef; split
  · split <;> rfl
  · rfl
theorem finalDef_kind (q : Option Name) (p : Name × Definition) : (finalDef q p).2.kind = p.2.kind := by
  unfold finalDef; split
  · split <;> rfl
  · rfl
theorem finalDef_interfaces (q : Option Name) (p : Name × Definition) : (finalDef q p).2.interfaces = p.2.interfaces := by
  unfold finalDef; split
  · split <;> rfl
  · rfl
theorem finalDef_types (q : Option Name) (p : Name × Definition) : (finalDef q p).2.types = p.2.types := by
  unfold finalDef; split
  · split <;> rfl
  · rfl

/-- `s.possible k` / `s.implementsOf k` in terms of the state's relations -/
theorem possible_mkSchema (sd : SchemaDoc) (st : LState) (r1 : Roots) (d1 : List Directive) (k : Name) :
    (mkSchema sd st r1 d1).possible k = (entriesOf st.possible k).map (·.getD nilName) := by
  show ((relOut st.possible).lookup k).getD [] = _
  rw [lookup_relOut]; unfold entriesOf
  cases st.possible.lookup k <;> rfl

theorem implementsOf_mkSchema (sd : SchemaDoc) (st : LState) (r1 : Roots) (d1 : List Directive) (k : Name) :
    (mkSchema sd st r1 d1).implementsOf k = (entriesOf st.implements k).map (·.getD nilName) := by
  show ((relOut st.implements).lookup k).getD [] = _
  rw [lookup_relOut]; unfold entriesOf
  cases st.implements.lookup k <;> rfl

end Gql.Load

set_option linter.unusedSimpArgs false
namespace Gql.Load
open Gql

theorem mem_map_keyed {l : List Name} {v : Option Name} {k : Name} {e : Option Name} :
    (k, e) ∈ l.map (fun i => (i, v)) ↔ k ∈ l ∧ e = v := by
  simp only [List.mem_map, Prod.mk.injEq]
  constructor
  · rintro ⟨i, hi, rfl, rfl⟩; exact ⟨hi, rfl⟩
  · rintro ⟨hk, rfl⟩; exact ⟨k, hk, rfl, rfl⟩

theorem mem_map_valued {l : List Name} {c : Name} {g : Name → Option Name} {k : Name} {e : Option Name} :
    (k, e) ∈ l.map (fun t => (c, g t)) ↔ k = c ∧ ∃ t ∈ l, e = g t := by
  simp only [List.mem_map, Prod.mk.injEq]
  constructor
  · rintro ⟨t, ht, rfl, rfl⟩; exact ⟨rfl, t, ht, rfl⟩
  · rintro ⟨rfl, t, ht, rfl⟩; exact ⟨t, ht, rfl, rfl⟩

theorem mem_filter_valued {l : List Name} {c : Name} {g : Name → Option Name} {k : Name} {e : Option Name} :
    (k, e) ∈ (l.map (fun t => (c, g t))).filter (·.2.isSome) ↔ k = c ∧ e.isSome = true ∧ ∃ t ∈ l, e = g t := by
  simp only [List.mem_filter, mem_map_valued]
  constructor
  · rintro ⟨⟨h1, h2⟩, h3⟩; exact ⟨h1, h3, h2⟩
  · rintro ⟨h1, h3, h2⟩; exact ⟨⟨h1, h2⟩, h3⟩

theorem mem_possPushes {T : List (Name × Definition)} {d : Definition} {k : Name} {e : Option Name} :
    (k, e) ∈ possPushes T d ↔
      (d.kind = .union ∧ k = d.name ∧ e.isSome = true ∧ ∃ t ∈ d.types, e = ptrOf T t) ∨
      ((d.kind = .object ∨ d.kind = .interface) ∧ k ∈ d.interfaces ∧ e = some d.name) ∨
      (d.kind = .object ∧ k = d.name ∧ e = some d.name) := by
  unfold possPushes
  cases hk : d.kind <;>
    simp only [mem_map_keyed, mem_filter_valued, List.mem_append, List.mem_singleton, Prod.mk.injEq, List.not_mem_nil,
      reduceCtorEq, false_and, true_and, or_false, false_or, or_true, true_or, or_self]

theorem mem_implPushes {T : List (Name × Definition)} {d : Definition} {k : Name} {e : Option Name} :
    (k, e) ∈ implPushes T d ↔
      (d.kind = .union ∧ k ∈ d.types ∧ e = some d.name) ∨
      ((d.kind = .object ∨ d.kind = .interface) ∧ k = d.name ∧ e.isSome = true ∧ ∃ i ∈ d.interfaces, e = ptrOf T i) := by
  unfold implPushes
  cases hk : d.kind <;>
    simp only [mem_map_keyed, mem_filter_valued, List.mem_append, List.mem_singleton, Prod.mk.injEq, List.not_mem_nil,
      reduceCtorEq, false_and, true_and, or_false, false_or, or_true, true_or, or_self]

theorem unique_of_nodup {α} {T : List (Name × α)} (hn : (T.map Prod.fst).Nodup) {k : Name} {a b : α}
    (ha : (k, a) ∈ T) (hb : (k, b) ∈ T) : a = b := by
  have h1 := lookup_of_mem_nodup hn ha
  have h2 := lookup_of_mem_nodup hn hb
  rw [h1] at h2; exact Option.some.inj h2

theorem ptrOf_self {T : List (Name × Definition)} (hinv : KeysInv (·.name) T) {x : Name} {t : Definition}
    (h : T.lookup x = some t) : ptrOf T x = some x := by
  have : t.name = x := hinv.2 (x, t) (mem_of_lookup h)
  simp [ptrOf, h, this]

theorem mem_getD_iff {l : List (Option Name)} (h : ∀ e ∈ l, ∃ n, e = some n) (x : Name) :
    x ∈ l.map (·.getD nilName) ↔ some x ∈ l := by
  simp only [List.mem_map]
  constructor
  · rintro ⟨e, he, rfl⟩
    obtain ⟨n, rfl⟩ := h e he
    exact he
  · intro hx; exact ⟨some x, hx, rfl⟩

end Gql.Load

namespace Gql.Load
open Gql

theorem Facts.relInv {sd s st r1 d1} (F : Facts sd s st r1 d1) :
    RelInv st.types st.possible ∧ RelInv st.types st.implements := by
  have hr := buildRelations_inv F.typesInv F.refs
  rw [← F.rel] at hr
  exact hr

theorem entries_some {T : List (Name × Definition)} {rel : Rel} (h : RelInv T rel) (k : Name) :
    ∀ e ∈ entriesOf rel k, ∃ n, e = some n := by
  intro e he
  unfold entriesOf at he
  cases hl : rel.lookup k with
  | none => simp [hl] at he
  | some vs =>
    rw [hl] at he
    obtain ⟨n, hn, _⟩ := (h (k, vs) (mem_of_lookup hl)).2 e he
    exact ⟨n, hn⟩

theorem Facts.mem_possible {sd s st r1 d1} (F : Facts sd s st r1 d1) (k x : Name) :
    x ∈ (mkSchema sd st r1 d1).possible k ↔ ∃ p ∈ st.types, (k, some x) ∈ possPushes st.types p.2 := by
  rw [possible_mkSchema, mem_getD_iff (entries_some F.relInv.1 k)]
  have e1 : st.possible = (buildRelations st.types).1 := congrArg Prod.fst F.rel
  rw [e1, mem_possible_iff]

theorem Facts.mem_implementsOf {sd s st r1 d1} (F : Facts sd s st r1 d1) (k x : Name) :
    x ∈ (mkSchema sd st r1 d1).implementsOf k ↔ ∃ p ∈ st.types, (k, some x) ∈ implPushes st.types p.2 := by
  rw [implementsOf_mkSchema, mem_getD_iff (entries_some F.relInv.2 k)]
  have e2 : st.implements = (buildRelations st.types).2 := congrArg Prod.snd F.rel
  rw [e2, mem_implements_iff]

/-- the final lookup of a key of the state -/
theorem lookup_final {sd : SchemaDoc} {st : LState} {r1 : Roots} {d1 : List Directive} {k : Name} {d : Definition}
    (h : st.types.lookup k = some d) :
    (mkSchema sd st r1 d1).types.lookup k = some (finalDef (finalRoots sd st r1).query (k, d)).2 := by
  rw [mkSchema_types]
  cases hq : (finalRoots sd st r1).query with
  | none => simpa [finalDef] using h
  | some q =>
    simp only [finalDef]
    rw [lookup_modifyKV, h]
    by_cases hk : k = q
    · subst hk; simp
    · have : (k == q) = false := by simp [hk]
      simp [hk, this]

/-- the names of the final entries satisfying a predicate on kind / interfaces / members -/
theorem mem_final_filter {sd : SchemaDoc} {st : LState} {r1 : Roots} {d1 : List Directive}
    (hn : (st.types.map Prod.fst).Nodup) (P : DefKind → List Name → List Name → Bool) (x : Name) :
    x ∈ ((mkSchema sd st r1 d1).types.filter fun p => P p.2.kind p.2.interfaces p.2.types).map (·.1) ↔
      ∃ p ∈ st.types, P p.2.kind p.2.interfaces p.2.types = true ∧ p.1 = x := by
  rw [mkSchema_types_map hn]
  simp only [List.mem_map, List.mem_filter]
  constructor
  · rintro ⟨p', ⟨⟨p, hp, rfl⟩, hP⟩, rfl⟩
    rw [finalDef_kind, finalDef_interfaces, finalDef_types] at hP
    exact ⟨p, hp, hP, (finalDef_fst _ _).symm⟩
  · rintro ⟨p, hp, hP, rfl⟩
    refine ⟨finalDef _ p, ⟨⟨p, hp, rfl⟩, ?_⟩, finalDef_fst _ _⟩
    rw [finalDef_kind, finalDef_interfaces, finalDef_types]; exact hP

end Gql.Load

namespace Gql.Load
open Gql

section
variable {sd : SchemaDoc} {s : Schema} {st : LState} {r1 : Roots} {d1 : List Directive}

theorem Facts.name_eq (F : Facts sd s st r1 d1) {p : Name × Definition} (hp : p ∈ st.types) : p.2.name = p.1 :=
  F.typesInv.2 p hp

/-- the entry of the state stored under key `p.1` is `p.2` -/
theorem Facts.entry_eq (F : Facts sd s st r1 d1) {p p' : Name × Definition} (hp : p ∈ st.types) (hp' : p' ∈ st.types)
    (hk : p'.2.name = p.1) : p' = p := by
  have h1 : p'.2.name = p'.1 := F.typesInv.2 p' hp'
  have hkey : p'.1 = p.1 := by rw [← h1, hk]
  obtain ⟨k, d⟩ := p
  obtain ⟨k', d'⟩ := p'
  simp only at hkey; subst hkey
  rw [unique_of_nodup F.typesInv.1 hp' hp]

/-- a name listed as an interface resolves to an interface definition -/
theorem Facts.interface_kind (F : Facts sd s st r1 d1) {p p' : Name × Definition} (hp : p ∈ st.types) (hp' : p' ∈ st.types)
    (hi : p.1 ∈ p'.2.interfaces) : p.2.kind = .interface := by
  obtain ⟨intf, hl, hk⟩ := (F.defOK p' hp').interfaces p.1 hi
  have := lookup_of_mem_nodup F.typesInv.1 hp
  rw [hl] at this
  rw [← Option.some.inj this]; exact hk

theorem possibleUnion_exact (F : Facts sd s st r1 d1) {p : Name × Definition} (hp : p ∈ st.types)
    (hk : p.2.kind = .union) (x : Name) : x ∈ (mkSchema sd st r1 d1).possible p.1 ↔ x ∈ p.2.types := by
  rw [F.mem_possible]
  constructor
  · rintro ⟨p', hp', hmem⟩
    rcases mem_possPushes.mp hmem with ⟨_, hname, _, t, ht, he⟩ | ⟨_, hi, _⟩ | ⟨hk', hname, _⟩
    · have := F.entry_eq hp hp' hname.symm
      subst this
      obtain ⟨td, htd, _⟩ := (F.defOK p' hp').members t ht
      rw [ptrOf_self F.typesInv htd] at he
      rw [Option.some.inj he]; exact ht
    · have := F.interface_kind hp hp' hi
      rw [hk] at this; cases this
    · have := F.entry_eq hp hp' hname.symm
      subst this
      rw [hk] at hk'; cases hk'
  · intro hx
    obtain ⟨td, htd, _⟩ := (F.defOK p hp).members x hx
    exact ⟨p, hp, mem_possPushes.mpr (Or.inl ⟨hk, (F.typesInv.2 p hp).symm, rfl, x, hx,
      (ptrOf_self F.typesInv htd).symm⟩)⟩

theorem possibleInterface_exact (F : Facts sd s st r1 d1)
    {p : Name × Definition} (hp : p ∈ st.types) (hk : p.2.kind = .interface) (x : Name) :
    x ∈ (mkSchema sd st r1 d1).possible p.1 ↔
      ∃ p' ∈ st.types, ((p'.2.kind == .object || p'.2.kind == .interface) && p'.2.interfaces.contains p.1) = true ∧ p'.1 = x := by
  rw [F.mem_possible]
  constructor
  · rintro ⟨p', hp', hmem⟩
    rcases mem_possPushes.mp hmem with ⟨hk', hname, _⟩ | ⟨hk', hi, he⟩ | ⟨hk', hname, _⟩
    · have := F.entry_eq hp hp' hname.symm
      subst this
      rw [hk] at hk'; cases hk'
    · refine ⟨p', hp', ?_, ?_⟩
      · rcases hk' with h | h
        · simp [h, hi]
        · simp [h, hi]
      · rw [← F.typesInv.2 p' hp']; exact (Option.some.inj he).symm
    · have := F.entry_eq hp hp' hname.symm
      subst this
      rw [hk] at hk'; cases hk'
  · rintro ⟨p', hp', hcond, rfl⟩
    simp only [Bool.and_eq_true, Bool.or_eq_true, beq_iff_eq, List.contains_iff_mem] at hcond
    exact ⟨p', hp', mem_possPushes.mpr (Or.inr (Or.inl ⟨hcond.1, hcond.2, congrArg some (F.name_eq hp').symm⟩))⟩

theorem possibleObject_exact (F : Facts sd s st r1 d1) {p : Name × Definition} (hp : p ∈ st.types)
    (hk : p.2.kind = .object) (x : Name) : x ∈ (mkSchema sd st r1 d1).possible p.1 ↔ x = p.1 := by
  rw [F.mem_possible]
  constructor
  · rintro ⟨p', hp', hmem⟩
    rcases mem_possPushes.mp hmem with ⟨hk', hname, _⟩ | ⟨_, hi, _⟩ | ⟨_, hname, he⟩
    · have := F.entry_eq hp hp' hname.symm
      subst this
      rw [hk] at hk'; cases hk'
    · have := F.interface_kind hp hp' hi
      rw [hk] at this; cases this
    · rw [Option.some.inj he, hname]
  · rintro rfl
    have hname := F.name_eq hp
    exact ⟨p, hp, mem_possPushes.mpr (Or.inr (Or.inr ⟨hk, hname.symm, congrArg some hname.symm⟩))⟩

theorem implements_exact (F : Facts sd s st r1 d1)
    {p : Name × Definition} (hp : p ∈ st.types) (x : Name) :
    x ∈ (mkSchema sd st r1 d1).implementsOf p.1 ↔
      ((p.2.kind = .object ∨ p.2.kind = .interface) ∧ x ∈ p.2.interfaces) ∨
      ∃ p' ∈ st.types, (p'.2.kind == .union && p'.2.types.contains p.1) = true ∧ p'.1 = x := by
  rw [F.mem_implementsOf]
  constructor
  · rintro ⟨p', hp', hmem⟩
    rcases mem_implPushes.mp hmem with ⟨hk', hm, he⟩ | ⟨hk', hname, _, i, hi, he⟩
    · right
      refine ⟨p', hp', by simp [hk', hm], ?_⟩
      rw [← F.typesInv.2 p' hp']; exact (Option.some.inj he).symm
    · left
      have := F.entry_eq hp hp' hname.symm
      subst this
      obtain ⟨intf, hl, _⟩ := (F.defOK p' hp').interfaces i hi
      rw [ptrOf_self F.typesInv hl] at he
      rw [Option.some.inj he]
      exact ⟨hk', hi⟩
  · rintro (⟨hk, hx⟩ | ⟨p', hp', hcond, rfl⟩)
    · obtain ⟨intf, hl, _⟩ := (F.defOK p hp).interfaces x hx
      exact ⟨p, hp, mem_implPushes.mpr (Or.inr ⟨hk, (F.typesInv.2 p hp).symm, rfl, x, hx,
        (ptrOf_self F.typesInv hl).symm⟩)⟩
    · simp only [Bool.and_eq_true, beq_iff_eq, List.contains_iff_mem] at hcond
      exact ⟨p', hp', mem_implPushes.mpr (Or.inl ⟨hcond.1, hcond.2, congrArg some (F.name_eq hp').symm⟩)⟩

/- ---------------- only object, interface and union types have possible types ---------------- -/

theorem keys_pushKV {β} (k : Name) (v : β) (rel : List (Name × List β)) (x : Name) :
    x ∈ (pushKV k v rel).map Prod.fst ↔ x = k ∨ x ∈ rel.map Prod.fst := by
  induction rel with
  | nil => simp [pushKV]
  | cons q rest ih =>
    obtain ⟨k', vs⟩ := q
    simp only [pushKV]
    split
    · rename_i hq
      have hq : k' = k := by simpa using hq
      subst hq
      simp only [List.map_cons, List.mem_cons]
      constructor
      · intro h; exact Or.inr h
      · rintro (h | h)
        · exact Or.inl h
        · exact h
    · simp only [List.map_cons, List.mem_cons, ih]
      constructor
      · rintro (h | h | h)
        · exact Or.inr (Or.inl h)
        · exact Or.inl h
        · exact Or.inr (Or.inr h)
      · rintro (h | h | h)
        · exact Or.inr (Or.inl h)
        · exact Or.inl h
        · exact Or.inr (Or.inr h)

/-- the keys of a relation are the keys that were pushed -/
theorem keys_pushAll {β} (l : List (Name × β)) (rel : List (Name × List β)) (x : Name) :
    x ∈ (pushAll l rel).map Prod.fst ↔ x ∈ rel.map Prod.fst ∨ ∃ kv ∈ l, kv.1 = x := by
  induction l generalizing rel with
  | nil => simp [pushAll]
  | cons kv rest ih =>
    simp only [pushAll, List.foldl_cons] at ih ⊢
    rw [ih, keys_pushKV]
    simp only [List.mem_cons, exists_eq_or_imp]
    constructor
    · rintro ((h | h) | h)
      · exact Or.inr (Or.inl h.symm)
      · exact Or.inl h
      · exact Or.inr (Or.inr h)
    · rintro (h | h | h)
      · exact Or.inl (Or.inr h)
      · exact Or.inl (Or.inl h.symm)
      · exact Or.inr h

/-- a key of `PossibleTypes` is the key of a push some definition made -/
theorem possible_key (types : List (Name × Definition)) {p : Name × List (Option Name)}
    (hp : p ∈ (buildRelations types).1) : ∃ q ∈ types, ∃ e, (p.1, e) ∈ possPushes types q.2 := by
  rw [buildRelations_eq] at hp
  have hk : p.1 ∈ (pushAll ((types.map Prod.snd).flatMap (possPushes types)) []).map Prod.fst :=
    List.mem_map.mpr ⟨p, hp, rfl⟩
  rw [keys_pushAll] at hk
  rcases hk with hk | ⟨kv, hkv, hkey⟩
  · simp at hk
  · simp only [List.mem_flatMap, List.mem_map] at hkv
    obtain ⟨d, ⟨q, hq, rfl⟩, hmem⟩ := hkv
    exact ⟨q, hq, kv.2, by rw [← hkey]; exact hmem⟩

/-- every key of `PossibleTypes` of a loaded schema is an object, interface or union type -/
theorem possible_keys_kind (F : Facts sd s st r1 d1) {p : Name × List (Option Name)} (hp : p ∈ st.possible) :
    ∃ d, st.types.lookup p.1 = some d ∧ (d.kind = .object ∨ d.kind = .interface ∨ d.kind = .union) := by
  have e1 : st.possible = (buildRelations st.types).1 := congrArg Prod.fst F.rel
  rw [e1] at hp
  obtain ⟨q, hq, e, hmem⟩ := possible_key st.types hp
  have hself : st.types.lookup q.2.name = some q.2 := by
    rw [F.name_eq hq]; exact lookup_of_mem_nodup F.typesInv.1 hq
  rcases mem_possPushes.mp hmem with ⟨hk, hname, _⟩ | ⟨_, hi, _⟩ | ⟨hk, hname, _⟩
  · exact ⟨q.2, by rw [hname]; exact hself, Or.inr (Or.inr hk)⟩
  · obtain ⟨intf, hl, hki⟩ := (F.defOK q hq).interfaces p.1 hi
    exact ⟨intf, hl, Or.inr (Or.inl hki)⟩
  · exact ⟨q.2, by rw [hname]; exact hself, Or.inl hk⟩

end
end Gql.Load
