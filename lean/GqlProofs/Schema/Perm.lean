import GqlProofs.Schema.Relations
import GqlProofs.Schema.NoPanic
/-
  Order independence: permuting `definitions` does not change whether a document loads.
-/
namespace Gql.Load
open Gql

theorem perm_lookup {α} {l l' : List (Name × α)} (hp : l'.Perm l) (hn : (l.map Prod.fst).Nodup) (n : Name) :
    l'.lookup n = l.lookup n := by
  induction hp with
  | nil => rfl
  | cons x _ ih =>
    obtain ⟨k, v⟩ := x
    simp only [List.map_cons, List.nodup_cons] at hn
    simp only [List.lookup]
    split
    · rfl
    · exact ih hn.2
  | swap x y l =>
    obtain ⟨k1, v1⟩ := x
    obtain ⟨k2, v2⟩ := y
    simp only [List.map_cons, List.nodup_cons, List.mem_cons, not_or] at hn
    have hne : k1 ≠ k2 := hn.1.1
    simp only [List.lookup]
    by_cases h1 : n = k1
    · subst h1
      have : (n == k2) = false := by simp [hne]
      simp [this]
    · have : (n == k1) = false := by simp [h1]
      simp [this]
  | trans h1 h2 ih1 ih2 =>
    have hmid := (h2.map Prod.fst).nodup_iff.mpr hn
    rw [ih1 hmid, ih2 hn]

theorem keysInv_perm {l l' : List (Name × Definition)} (hp : l'.Perm l) (h : KeysInv (·.name) l) :
    KeysInv (·.name) l' :=
  ⟨(hp.map Prod.fst).nodup_iff.mpr h.1, fun p hp' => h.2 p (hp.mem_iff.mp hp')⟩

/- ---------------- declareTypes ---------------- -/

theorem declareTypes_ok {l : List Definition} {acc : List (Name × Definition)}
    (h1 : ∀ d ∈ l, acc.lookup d.name = none) (h2 : (l.map (·.name)).Nodup) :
    declareTypes l acc = .ok (acc ++ l.map fun d => (d.name, d)) := by
  induction l generalizing acc with
  | nil => simp [declareTypes]
  | cons d rest ih =>
    simp only [List.map_cons, List.nodup_cons] at h2
    simp only [declareTypes, h1 d (by simp)]
    rw [ih]
    · simp
    · intro d' hd'
      rw [lookup_append, h1 d' (by simp [hd'])]
      have : d'.name ≠ d.name := by
        intro e; apply h2.1; rw [← e]; exact List.mem_map.mpr ⟨d', hd', rfl⟩
      have : (d'.name == d.name) = false := by simp [this]
      simp [List.lookup, this]
    · exact h2.2

theorem declareTypes_ok_inv {l : List Definition} {acc r : List (Name × Definition)} (h : declareTypes l acc = .ok r) :
    (∀ d ∈ l, acc.lookup d.name = none) ∧ (l.map (·.name)).Nodup := by
  induction l generalizing acc with
  | nil => simp
  | cons d rest ih =>
    simp only [declareTypes] at h
    split at h
    · simp at h
    · rename_i hnone
      obtain ⟨ih1, ih2⟩ := ih h
      have key : ∀ d' ∈ rest, acc.lookup d'.name = none ∧ d'.name ≠ d.name := by
        intro d' hd'
        have := ih1 d' hd'
        rw [lookup_append] at this
        cases hl : acc.lookup d'.name with
        | some x => rw [hl] at this; simp at this
        | none =>
          rw [hl] at this
          refine ⟨rfl, ?_⟩
          intro e
          simp [List.lookup, e] at this
      refine ⟨?_, ?_⟩
      · intro d' hd'
        simp only [List.mem_cons] at hd'
        rcases hd' with hd' | hd'
        · subst hd'; exact hnone
        · exact (key d' hd').1
      · simp only [List.map_cons, List.nodup_cons]
        refine ⟨?_, ih2⟩
        intro hmem
        obtain ⟨d', hd', e⟩ := List.mem_map.mp hmem
        exact (key d' hd').2 e

/- ---------------- foldExtensions ---------------- -/

theorem map_id_of_ne {α} {q : Name} {f : α → α} {l : List (Name × α)} (h : ∀ p ∈ l, p.1 ≠ q) :
    l.map (fun p => if p.1 == q then (p.1, f p.2) else p) = l := by
  induction l with
  | nil => rfl
  | cons p rest ih =>
    have hp : (p.1 == q) = false := by simp [h p (by simp)]
    simp only [List.map_cons, hp, Bool.false_eq_true, ↓reduceIte]
    rw [ih (fun p hp => h p (by simp [hp]))]

theorem modifyKV_eq_map {α} (q : Name) (f : α → α) {l : List (Name × α)} (hn : (l.map Prod.fst).Nodup) :
    modifyKV q f l = l.map (fun p => if p.1 == q then (p.1, f p.2) else p) := by
  induction l with
  | nil => rfl
  | cons p rest ih =>
    obtain ⟨k, v⟩ := p
    simp only [List.map_cons, List.nodup_cons] at hn
    simp only [modifyKV, List.map_cons]
    split
    · rename_i hk
      have hk' : k = q := by simpa using hk
      rw [map_id_of_ne]
      intro p hp e
      apply hn.1
      rw [hk', ← e]
      exact List.mem_map.mpr ⟨p, hp, rfl⟩
    · rw [ih hn.2]

theorem ensureBase_perm {ext : Definition} {t t' : List (Name × Definition)} (hp : t'.Perm t)
    (hn : (t.map Prod.fst).Nodup) : (ensureBase ext t').Perm (ensureBase ext t) := by
  unfold ensureBase
  rw [perm_lookup hp hn]
  split
  · exact hp
  · exact hp.append_right _

theorem keysInv_ensureBase {ext : Definition} {t : List (Name × Definition)} (h : KeysInv (·.name) t) :
    KeysInv (·.name) (ensureBase ext t) := by
  unfold ensureBase
  split
  · exact h
  · rename_i hnone
    exact keysInv_append_new (v := extStub ext) h hnone

theorem foldExtensions_perm {l : List Definition} {t t' r : List (Name × Definition)} (hp : t'.Perm t)
    (hinv : KeysInv (·.name) t) (h : foldExtensions l t = .ok r) :
    ∃ r', foldExtensions l t' = .ok r' ∧ r'.Perm r := by
  induction l generalizing t t' with
  | nil => simp [foldExtensions] at h ⊢; subst h; exact hp
  | cons ext rest ih =>
    simp only [foldExtensions] at h ⊢
    have hb := ensureBase_perm (ext := ext) hp hinv.1
    have hbi := keysInv_ensureBase (ext := ext) hinv
    rw [perm_lookup hb hbi.1]
    split at h
    · rename_i hn
      have := lookup_ensureBase_self ext t
      rw [hn] at this; simp at this
    · rename_i d hd
      split at h
      · simp at h
      · rename_i hk
        simp only [hk]
        apply ih _ (keysInv_modifyKV (q := ext.name) (f := applyExt ext) (fun _ => rfl) hbi) h
        rw [modifyKV_eq_map _ _ hbi.1, modifyKV_eq_map _ _ ((hb.map Prod.fst).nodup_iff.mpr hbi.1)]
        exact hb.map _

/- ---------------- state equivalence ---------------- -/

structure StateEq (st st' : LState) : Prop where
  types : ∀ n, st'.type? n = st.type? n
  dirs : st'.directives = st.directives
  cov : ∀ r a, isCovariant st' r a = isCovariant st r a

theorem possibleHas_of_noNil {l : List (Option Name)} (h : ∀ e ∈ l, e ≠ none) (a : Name) :
    possibleHas l a = some (decide (some a ∈ l)) := by
  induction l with
  | nil => simp [possibleHas]
  | cons e rest ih =>
    cases e with
    | none => exact absurd rfl (h none (by simp))
    | some n =>
      simp only [possibleHas]
      by_cases hn : n = a
      · subst hn; simp
      · have : (n == a) = false := by simp [hn]
        rw [this, ih (fun e he => h e (by simp [he]))]
        have hne : ¬ (a = n) := fun e => hn e.symm
        simp [hne]

theorem isCovariant_congr {st st' : LState} (hnil : NoNilPossible st)
    (hperm : ∀ k, (entriesOf st'.possible k).Perm (entriesOf st.possible k)) (r a : GType) :
    isCovariant st' r a = isCovariant st r a := by
  induction r generalizing a with
  | named rn rnn rp =>
    unfold isCovariant
    split
    · rfl
    · split
      · rfl
      · have h1 : ∀ e ∈ entriesOf st.possible rn, e ≠ none := by
          intro e he
          unfold entriesOf at he
          cases hl : st.possible.lookup rn with
          | none => simp [hl] at he
          | some vs => rw [hl] at he; exact hnil (rn, vs) (mem_of_lookup hl) e he
        have h2 : ∀ e ∈ entriesOf st'.possible rn, e ≠ none :=
          fun e he => h1 e ((hperm rn).mem_iff.mp he)
        show possibleHas (entriesOf st'.possible rn) _ = possibleHas (entriesOf st.possible rn) _
        rw [possibleHas_of_noNil h1, possibleHas_of_noNil h2]
        simp only [(hperm rn).mem_iff]
  | list re rnn rp ih =>
    cases a with
    | named an ann ap => simp [isCovariant]
    | list ae ann ap =>
      simp only [isCovariant]
      rw [ih]

/- validators only read the state through `type?`, `directives` and `isCovariant` -/

theorem validateDirectives_congr {st st' : LState} (E : StateEq st st') (ds : List Directive) (loc : Bytes) (cur : Option Name) :
    validateDirectives st' ds loc cur = validateDirectives st ds loc cur := by
  unfold validateDirectives validateDirectiveUse
  simp only [E.dirs]

theorem validateTypeRef_congr {st st' : LState} (E : StateEq st st') (t : GType) :
    validateTypeRef st' t = validateTypeRef st t := by
  unfold validateTypeRef
  simp only [E.types]

theorem validateArgs_congr {st st' : LState} (E : StateEq st st') (args : List ArgDef) (cur : Option Name) :
    validateArgs st' args cur = validateArgs st args cur := by
  unfold validateArgs
  simp only [E.types, validateTypeRef_congr E, validateDirectives_congr E]

theorem validateImplements_congr {st st' : LState} (E : StateEq st st') (d : Definition) (i : Name) :
    validateImplements st' d i = validateImplements st d i := by
  unfold validateImplements validateImplementsField validateTypeImplementsAncestors
  simp only [E.types, E.cov]

theorem validateImplements_congr' {st st' : LState} (E : StateEq st st') (d : Definition) :
    validateImplements st' d = validateImplements st d := funext (validateImplements_congr E d)

theorem validateKindSpecific_congr {st st' : LState} (E : StateEq st st') (d : Definition) :
    validateKindSpecific st' d = validateKindSpecific st d := by
  unfold validateKindSpecific
  simp only [E.types, validateDirectives_congr E]

theorem validateDefinition_congr {st st' : LState} (E : StateEq st st') (d : Definition) :
    validateDefinition st' d = validateDefinition st d := by
  unfold validateDefinition
  simp only [E.types, validateTypeRef_congr E, validateArgs_congr E, validateDirectives_congr E,
    validateImplements_congr' E, validateKindSpecific_congr E]

theorem validateDirectiveDef_congr {st st' : LState} (E : StateEq st st') (dd : DirectiveDef) :
    validateDirectiveDef st' dd = validateDirectiveDef st dd := by
  unfold validateDirectiveDef
  simp only [validateArgs_congr E]

theorem setRoots_congr {t t' : List (Name × Definition)} (h : ∀ n, t'.lookup n = t.lookup n) (l : List OpTypeDef) (r : Roots) :
    setRoots t' l r = setRoots t l r := by
  induction l generalizing r with
  | nil => rfl
  | cons e rest ih => simp only [setRoots, h, ih]

theorem applySchemaDefs_congr {st st' : LState} (E : StateEq st st') (l : List SchemaDef) (r : Roots) (acc : List Directive) :
    applySchemaDefs st' l r acc = applySchemaDefs st l r acc := by
  induction l generalizing r acc with
  | nil => rfl
  | cons s rest ih =>
    have h1 : applySchemaDef st' s r acc = applySchemaDef st s r acc := by
      unfold applySchemaDef
      rw [setRoots_congr (fun n => E.types n), validateDirectives_congr E]
    simp only [applySchemaDefs, h1, ih]

end Gql.Load

namespace Gql.Load
open Gql

/-- `sd'` is `sd` with its `definitions` permuted -/
structure DefsPerm (sd sd' : SchemaDoc) : Prop where
  definitions : sd'.definitions.Perm sd.definitions
  extensions : sd'.extensions = sd.extensions
  directives : sd'.directives = sd.directives
  schema : sd'.schema = sd.schema
  schemaExt : sd'.schemaExt = sd.schemaExt

theorem DefsPerm.symm {sd sd' : SchemaDoc} (h : DefsPerm sd sd') : DefsPerm sd' sd :=
  ⟨h.definitions.symm, h.extensions.symm, h.directives.symm, h.schema.symm, h.schemaExt.symm⟩

theorem buildState_perm {sd sd' : SchemaDoc} (hp : DefsPerm sd sd') {st : LState} (h : buildState sd = .ok st) :
    ∃ st', buildState sd' = .ok st' ∧ st'.types.Perm st.types ∧ st'.directives = st.directives := by
  unfold buildState at h ⊢
  split at h
  · simp at h
  · rename_i t0 h0
    split at h
    · simp at h
    · rename_i t1 h1
      split at h
      split at h
      · simp at h
      · rename_i dirs hd
        simp only [Except.ok.injEq] at h
        subst h
        obtain ⟨hn1, hn2⟩ := declareTypes_ok_inv h0
        have h0eq := declareTypes_ok hn1 hn2
        rw [h0] at h0eq
        simp only [Except.ok.injEq, List.nil_append] at h0eq
        have h0' : declareTypes sd'.definitions [] = .ok (sd'.definitions.map fun d => (d.name, d)) := by
          have := declareTypes_ok (l := sd'.definitions) (acc := []) (by simp)
            ((hp.definitions.map (·.name)).nodup_iff.mpr hn2)
          simpa using this
        have hperm0 : (sd'.definitions.map fun d => (d.name, d)).Perm t0 := by
          rw [h0eq]; exact hp.definitions.map _
        obtain ⟨t1', h1', hperm1⟩ := foldExtensions_perm hperm0 (declareTypes_inv (keysInv_nil _) h0) h1
        rw [h0']
        simp only [hp.extensions, h1', hp.directives, hd]
        exact ⟨_, rfl, hperm1, rfl⟩

theorem possPushes_congr {t t' : List (Name × Definition)} (h : ∀ n, t'.lookup n = t.lookup n) :
    possPushes t' = possPushes t := by
  funext d
  unfold possPushes ptrOf
  simp only [h]

theorem stateEq_of_perm {st st' : LState} (hinv : KeysInv (·.name) st.types)
    (hrel : (st.possible, st.implements) = buildRelations st.types)
    (hrel' : (st'.possible, st'.implements) = buildRelations st'.types)
    (hperm : st'.types.Perm st.types) (hdirs : st'.directives = st.directives) (hnil : NoNilPossible st) :
    StateEq st st' := by
  have hl : ∀ n, st'.types.lookup n = st.types.lookup n := perm_lookup hperm hinv.1
  refine ⟨hl, hdirs, isCovariant_congr hnil ?_⟩
  intro k
  have e1 : st.possible = (buildRelations st.types).1 := congrArg Prod.fst hrel
  have e2 : st'.possible = (buildRelations st'.types).1 := congrArg Prod.fst hrel'
  rw [e1, e2, possible_entries, possible_entries, possPushes_congr hl]
  exact (((hperm.map Prod.snd).flatMap_right _).filter _).map _

theorem validateTypeDefinitions_congr {st st' : LState} (E : StateEq st st')
    (h : validateTypeDefinitions st = .pass) : validateTypeDefinitions st' = .pass := by
  unfold validateTypeDefinitions at h ⊢
  rw [each_eq_pass] at h ⊢
  intro k hk
  rw [mem_sortNames, ← lookup_isSome_iff_mem_keys] at hk
  have hk' : (st.types.lookup k).isSome := by
    have := E.types k
    simp only [LState.type?] at this
    rw [← this]; exact hk
  have := h k (by rw [mem_sortNames, ← lookup_isSome_iff_mem_keys]; exact hk')
  rw [E.types k]
  simp only [validateDefinition_congr E]
  exact this

theorem validateDirectiveDefinitions_congr {st st' : LState} (E : StateEq st st')
    (h : validateDirectiveDefinitions st = .pass) : validateDirectiveDefinitions st' = .pass := by
  unfold validateDirectiveDefinitions at h ⊢
  simp only [E.dirs, validateDirectiveDef_congr E]
  exact h

theorem finish_eq_ok {sd : SchemaDoc} {st : LState} {r0 r1 : Roots} {d0 d1 : List Directive}
    (hlen : sd.schema.length ≤ 1) (h0 : applySchemaDefs st sd.schema noRoots [] = .ok r0 d0)
    (h1 : applySchemaDefs st sd.schemaExt r0 d0 = .ok r1 d1) (ht : validateTypeDefinitions st = .pass)
    (hd : validateDirectiveDefinitions st = .pass) (hk : checkRootKinds st (finalRoots sd st r1) = .pass) :
    finish sd st = .ok (mkSchema sd st r1 d1) := by
  unfold finish
  split
  · rename_i a b c e; rw [e] at hlen; simp at hlen
  · simp only [h0, h1, ht, hd, hk]

/-- the root-kind check only reads the state through `type?` -/
theorem checkRootKinds_congr {st st' : LState} (E : StateEq st st') {sd sd' : SchemaDoc} (hs : sd'.schema = sd.schema)
    (r : Roots) : checkRootKinds st' (finalRoots sd' st' r) = checkRootKinds st (finalRoots sd st r) := by
  have hl : ∀ n, st'.types.lookup n = st.types.lookup n := E.types
  have hf : finalRoots sd' st' r = finalRoots sd st r := by
    unfold finalRoots inferRoots inferRoot ptrOf
    simp only [hs, hl]
  rw [hf]
  unfold checkRootKinds checkRootKind
  simp only [E.types]

/-- if a document loads, every permutation of its definitions loads -/
theorem load_ok_of_defsPerm {sd sd' : SchemaDoc} (hp : DefsPerm sd sd') {s : Schema} (h : load sd = .ok s) :
    ∃ s', load sd' = .ok s' := by
  obtain ⟨st, r1, d1, F⟩ := loaded_facts h
  obtain ⟨st0, r0, d0, r1', d1', hb, hlen, h0, h1, ht, hd, hs, hk⟩ := load_ok_inv' h
  have : st0 = st := by rw [F.built] at hb; simpa using hb.symm
  subst this
  obtain ⟨st', hb', hperm, hdirs⟩ := buildState_perm hp hb
  have hrel' := (buildState_inv hb').2.2
  have hnil : NoNilPossible st0 := by
    have hr := buildRelations_inv F.typesInv F.refs
    rw [← F.rel] at hr
    intro p hp' e he
    obtain ⟨n, hn, _⟩ := (hr.1 p hp').2 e he
    rw [hn]; simp
  have E := stateEq_of_perm F.typesInv F.rel hrel' hperm hdirs hnil
  refine ⟨mkSchema sd' st' r1' d1', ?_⟩
  simp only [load, hb']
  apply finish_eq_ok (r0 := r0) (d0 := d0)
  · rw [hp.schema]; exact hlen
  · rw [hp.schema, applySchemaDefs_congr E]; exact h0
  · rw [hp.schemaExt, applySchemaDefs_congr E]; exact h1
  · exact validateTypeDefinitions_congr E ht
  · exact validateDirectiveDefinitions_congr E hd
  · rw [checkRootKinds_congr E hp.schema]; exact hk

end Gql.Load

namespace Gql.Load
open Gql

theorem implPushes_congr {t t' : List (Name × Definition)} (h : ∀ n, t'.lookup n = t.lookup n) :
    implPushes t' = implPushes t := by
  funext d
  unfold implPushes ptrOf
  simp only [h]

theorem lookup_relOut (rel : Rel) (k : Name) :
    (relOut rel).lookup k = (rel.lookup k).map (fun vs => vs.map (·.getD nilName)) := by
  induction rel with
  | nil => rfl
  | cons p rest ih =>
    obtain ⟨k', vs⟩ := p
    simp only [relOut, List.map_cons, List.lookup] at ih ⊢
    split
    · rfl
    · exact ih

/-- the loaded schemas of two documents that differ by a permutation of `definitions` -/
structure SchemaEquiv (s s' : Schema) : Prop where
  query : s'.query = s.query
  mutation : s'.mutation = s.mutation
  subscription : s'.subscription = s.subscription
  schemaDirectives : s'.schemaDirectives = s.schemaDirectives
  description : s'.description = s.description
  directives : s'.directives = s.directives
  types : s'.types.Perm s.types
  possible : ∀ k, (s'.possible k).Perm (s.possible k)
  implementsOf : ∀ k, (s'.implementsOf k).Perm (s.implementsOf k)

theorem load_defsPerm_equiv {sd sd' : SchemaDoc} (hp : DefsPerm sd sd') {s : Schema} (h : load sd = .ok s) :
    ∃ s', load sd' = .ok s' ∧ SchemaEquiv s s' := by
  obtain ⟨st, r1, d1, F⟩ := loaded_facts h
  obtain ⟨st0, r0, d0, r1', d1', hb, hlen, h0, h1, ht, hd, hs, hk⟩ := load_ok_inv' h
  have : st0 = st := by rw [F.built] at hb; simpa using hb.symm
  subst this
  obtain ⟨st', hb', hperm, hdirs⟩ := buildState_perm hp hb
  have hrel' := (buildState_inv hb').2.2
  have hinv' := (buildState_inv hb').1
  have hnil : NoNilPossible st0 := by
    have hr := buildRelations_inv F.typesInv F.refs
    rw [← F.rel] at hr
    intro p hp' e he
    obtain ⟨n, hn, _⟩ := (hr.1 p hp').2 e he
    rw [hn]; simp
  have E := stateEq_of_perm F.typesInv F.rel hrel' hperm hdirs hnil
  have hl : ∀ n, st'.types.lookup n = st0.types.lookup n := E.types
  refine ⟨mkSchema sd' st' r1' d1', ?_, ?_⟩
  · simp only [load, hb']
    apply finish_eq_ok (r0 := r0) (d0 := d0)
    · rw [hp.schema]; exact hlen
    · rw [hp.schema, applySchemaDefs_congr E]; exact h0
    · rw [hp.schemaExt, applySchemaDefs_congr E]; exact h1
    · exact validateTypeDefinitions_congr E ht
    · exact validateDirectiveDefinitions_congr E hd
    · rw [checkRootKinds_congr E hp.schema]; exact hk
  · subst hs
    have hroots : finalRoots sd' st' r1' = finalRoots sd st0 r1' := by
      unfold finalRoots inferRoots inferRoot ptrOf
      simp only [hp.schema, hl]
    have hq : (mkSchema sd' st' r1' d1').query = (mkSchema sd st0 r1' d1').query := by
      rw [mkSchema_query, mkSchema_query, hroots]
    have e1 : st0.possible = (buildRelations st0.types).1 := congrArg Prod.fst F.rel
    have e1' : st'.possible = (buildRelations st'.types).1 := congrArg Prod.fst hrel'
    have e2 : st0.implements = (buildRelations st0.types).2 := congrArg Prod.snd F.rel
    have e2' : st'.implements = (buildRelations st'.types).2 := congrArg Prod.snd hrel'
    refine ⟨hq, ?_, ?_, rfl, ?_, hdirs, ?_, ?_, ?_⟩
    · show (finalRoots sd' st' r1').mutation = (finalRoots sd st0 r1').mutation
      rw [hroots]
    · show (finalRoots sd' st' r1').subscription = (finalRoots sd st0 r1').subscription
      rw [hroots]
    · show (match sd'.schema with | [d] => d.desc | _ => []) = (match sd.schema with | [d] => d.desc | _ => [])
      rw [hp.schema]
    · rw [mkSchema_types, mkSchema_types, hroots]
      split
      · rw [modifyKV_eq_map _ _ hinv'.1, modifyKV_eq_map _ _ F.typesInv.1]
        exact hperm.map _
      · exact hperm
    · intro k
      show (((relOut st'.possible).lookup k).getD []).Perm (((relOut st0.possible).lookup k).getD [])
      rw [lookup_relOut, lookup_relOut]
      have : (entriesOf st'.possible k).Perm (entriesOf st0.possible k) := by
        rw [e1, e1', possible_entries, possible_entries, possPushes_congr hl]
        exact (((hperm.map Prod.snd).flatMap_right _).filter _).map _
      unfold entriesOf at this
      cases h1 : st'.possible.lookup k <;> cases h2 : st0.possible.lookup k <;> simp only [h1, h2, Option.getD, Option.map] at this ⊢
      · exact List.Perm.refl _
      · exact this.map _
      · exact this.map _
      · exact this.map _
    · intro k
      show (((relOut st'.implements).lookup k).getD []).Perm (((relOut st0.implements).lookup k).getD [])
      rw [lookup_relOut, lookup_relOut]
      have : (entriesOf st'.implements k).Perm (entriesOf st0.implements k) := by
        rw [e2, e2', implements_entries, implements_entries, implPushes_congr hl]
        exact (((hperm.map Prod.snd).flatMap_right _).filter _).map _
      unfold entriesOf at this
      cases h1 : st'.implements.lookup k <;> cases h2 : st0.implements.lookup k <;> simp only [h1, h2, Option.getD, Option.map] at this ⊢
      · exact List.Perm.refl _
      · exact this.map _
      · exact this.map _
      · exact this.map _

end Gql.Load

namespace Gql.Load
theorem isOk_iff (r : LoadResult) : r.isOk = true ↔ ∃ s, r = .ok s := by
  cases r <;> simp [LoadResult.isOk]

end Gql.Load
