import GqlProofs.Schema.Bridge
import GqlProofs.Schema.Roots
/-
  Soundness of the loader w.r.t. the spec: what `load sd = ok s` implies about `Spec.WellFormed sd`.
-/
set_option linter.unusedSimpArgs false
namespace Gql.Load
open Gql

theorem reserved_eq (n : Name) : Spec.reserved n = hasDunder n := by
  unfold Spec.reserved hasDunder
  split <;> simp

theorem buildState_defs_nodup {sd : SchemaDoc} {st : LState} (h : buildState sd = .ok st) :
    (sd.definitions.map (·.name)).Nodup := by
  unfold buildState at h
  split at h
  · simp at h
  · rename_i t0 h0
    exact (declareTypes_ok_inv h0).2

theorem checkUniqueFields_pass {dn : Name} {fs : List FieldDef} (h : checkUniqueFields dn fs = .pass) :
    Spec.pairwiseDistinct (fs.map (·.name)) = true := by
  induction fs with
  | nil => rfl
  | cons f rest ih =>
    simp only [checkUniqueFields, andThen_eq_pass, each_eq_pass] at h
    simp only [List.map_cons, Spec.pairwiseDistinct, Bool.and_eq_true, Bool.not_eq_true']
    refine ⟨?_, ih h.2⟩
    rw [← Bool.not_eq_true]
    intro hc
    rw [List.contains_iff_mem, List.mem_map] at hc
    obtain ⟨f2, hf2, he⟩ := hc
    have := h.1 f2 hf2
    rw [he] at this
    simp at this

theorem kindSpecific_nonEmpty {st : LState} {d : Definition} (h : validateKindSpecific st d = .pass) :
    (match d.kind with
     | .object | .interface | .inputObject => !d.fields.isEmpty
     | .enum => !d.enumValues.isEmpty
     | .scalar | .union => true) = true := by
  unfold validateKindSpecific at h
  cases hk : d.kind <;> simp only [hk] at h ⊢
  all_goals first
    | rfl
    | (split at h
       · simp at h
       · rename_i hne; simpa using hne)

theorem kindSpecific_enumNames {st : LState} {d : Definition} (h : validateKindSpecific st d = .pass)
    (hk : d.kind = .enum) : ∀ v ∈ d.enumValues, nonEnumNames.contains v.name = false := by
  unfold validateKindSpecific at h
  simp only [hk] at h
  split at h
  · simp at h
  · rw [each_eq_pass] at h
    intro v hv
    have := h v hv
    simp only [andThen_eq_pass] at this
    have h1 := this.1
    split at h1
    · simp at h1
    · rename_i hc; simpa using hc

theorem kindSpecific_enumValueNames {st : LState} {d : Definition} (h : validateKindSpecific st d = .pass)
    (hk : d.kind = .enum) : ∀ v ∈ d.enumValues, hasDunder v.name = false := by
  unfold validateKindSpecific at h
  simp only [hk] at h
  split at h
  · simp at h
  · rw [each_eq_pass] at h
    intro v hv
    have := h v hv
    simp only [andThen_eq_pass] at this
    exact validateName_pass this.2.1

theorem fieldPosition_ok {st : LState} {d : Definition} (D : DefOK st d) {f : FieldDef} (hf : f ∈ d.fields)
    {t : Definition} (ht : st.types.lookup f.type.name = some t) : Spec.fieldPosition d.kind t.kind = true := by
  obtain ⟨ho, hi⟩ := kindSpecific_fields D.kindSpecific hf ht
  cases hk : d.kind <;> simp only [Spec.fieldPosition, Spec.anyKind]
  · rw [isOutputKind_eq]; exact ho (Or.inl hk)
  · rw [isOutputKind_eq]; exact ho (Or.inr hk)
  · rw [isInputKind_eq]; exact hi hk

theorem validateImplements_ancestors {st : LState} {d : Definition} {i : Name} (h : validateImplements st d i = .pass)
    {intf : Definition} (hl : st.types.lookup i = some intf) : ∀ j ∈ intf.interfaces, d.interfaces.contains j = true := by
  unfold validateImplements at h
  simp only [LState.type?, hl] at h
  split at h
  · simp at h
  · simp only [andThen_eq_pass] at h
    have h2 := h.2
    unfold validateTypeImplementsAncestors at h2
    simp only [LState.type?, hl, each_eq_pass] at h2
    intro j hj
    have := h2 j hj
    split at this
    · assumption
    · split at this <;> simp at this

theorem setRoots_resolves {types : List (Name × Definition)} {l : List OpTypeDef} {r r' : Roots}
    (h : setRoots types l r = .ok r') : ∀ o ∈ l, (types.lookup o.type).isSome := by
  induction l generalizing r with
  | nil => simp
  | cons e rest ih =>
    obtain ⟨d, hd, r2, h2, _⟩ := setRoots_cons_ok h
    intro o ho
    simp only [List.mem_cons] at ho
    rcases ho with ho | ho
    · subst ho; rw [hd]; rfl
    · exact ih h2 o ho

theorem applySchemaDefs_resolves {st : LState} {l : List SchemaDef} {r r' : Roots} {acc acc' : List Directive}
    (h : applySchemaDefs st l r acc = .ok r' acc') : ∀ s ∈ l, ∀ o ∈ s.opTypes, (st.types.lookup o.type).isSome := by
  induction l generalizing r acc with
  | nil => simp
  | cons sdef rest ih =>
    simp only [applySchemaDefs] at h
    split at h
    · rename_i r1 acc1 h1
      intro s hs
      simp only [List.mem_cons] at hs
      rcases hs with hs | hs
      · subst hs
        unfold applySchemaDef at h1
        split at h1
        · simp at h1
        · rename_i r2 hr2
          exact setRoots_resolves hr2
      · exact ih h s hs
    · rename_i hne
      exact absurd h (hne _ _)

/- ---------------- every root operation type is given at most once ---------------- -/

/-- how many entry points of a list name the operation `o` -/
def opCount (o : Bytes) (l : List OpTypeDef) : Nat := (l.filter (·.op == o)).length
/-- 1 when the operation already has a root -/
def rootSet (r : Roots) (o : Bytes) : Nat := if (rootOf r o).isSome then 1 else 0

theorem opCount_append (o : Bytes) (a b : List OpTypeDef) : opCount o (a ++ b) = opCount o a + opCount o b := by
  simp [opCount, List.filter_append]

theorem rootSet_le (r : Roots) (o : Bytes) : rootSet r o ≤ 1 := by unfold rootSet; split <;> omega

theorem setRoots_step_count {types : List (Name × Definition)} {e : OpTypeDef} {rest : List OpTypeDef} {r r' : Roots}
    (h : setRoots types (e :: rest) r = .ok r') {o : Bytes} (ho : isRootOp o = true) :
    ∃ r2, setRoots types rest r2 = .ok r' ∧ rootSet r o + opCount o (e :: rest) = rootSet r2 o + opCount o rest := by
  obtain ⟨d, _, r2, h2, hnone, hstep⟩ := setRoots_cons_ok h
  refine ⟨r2, h2, ?_⟩
  by_cases heo : e.op = o
  · subst heo
    have h1 : rootOf r e.op = none := hnone ho
    have h2' : rootOf r2 e.op = some d.name := by rw [hstep]; simp [ho]
    simp [rootSet, h1, h2', opCount, List.filter]
    omega
  · have h1 : (e.op == o) = false := by simp [heo]
    have h2' : (o == e.op) = false := by simp [Ne.symm heo]
    have h3 : rootOf r2 o = rootOf r o := by rw [hstep]; simp [h2']
    simp [rootSet, h3, opCount, List.filter, h1]

theorem setRoots_once {types : List (Name × Definition)} {l : List OpTypeDef} {r r' : Roots}
    (h : setRoots types l r = .ok r') {o : Bytes} (ho : isRootOp o = true) :
    rootSet r o + opCount o l ≤ 1 ∧ (1 ≤ rootSet r o + opCount o l → rootSet r' o = 1) := by
  induction l generalizing r with
  | nil =>
    simp only [setRoots, Except.ok.injEq] at h
    subst h
    have := rootSet_le r o
    simp only [opCount, List.filter_nil, List.length_nil, Nat.add_zero]
    omega
  | cons e rest ih =>
    obtain ⟨r2, h2, heq⟩ := setRoots_step_count h ho
    rw [heq]
    exact ih h2

theorem applySchemaDefs_once {st : LState} {l : List SchemaDef} {r r' : Roots} {acc acc' : List Directive}
    (h : applySchemaDefs st l r acc = .ok r' acc') {o : Bytes} (ho : isRootOp o = true) :
    rootSet r o + opCount o (l.flatMap (·.opTypes)) ≤ 1 ∧
    (1 ≤ rootSet r o + opCount o (l.flatMap (·.opTypes)) → rootSet r' o = 1) := by
  induction l generalizing r acc with
  | nil =>
    simp only [applySchemaDefs, RootsResult.ok.injEq] at h
    obtain ⟨h1, _⟩ := h
    subst h1
    have := rootSet_le r o
    simp only [List.flatMap_nil, opCount, List.filter_nil, List.length_nil, Nat.add_zero]
    omega
  | cons sdef rest ih =>
    simp only [applySchemaDefs] at h
    split at h
    · rename_i r1 acc1 h1
      have hset : setRoots st.types sdef.opTypes r = .ok r1 := by
        unfold applySchemaDef at h1
        split at h1
        · simp at h1
        · rename_i r2 hr2
          split at h1 <;> try (simp at h1)
          obtain ⟨e1, _⟩ := h1
          subst e1; exact hr2
      have A := setRoots_once hset ho
      have B := ih h
      have := rootSet_le r1 o
      simp only [List.flatMap_cons, opCount_append]
      omega
    · rename_i hne
      exact absurd h (hne _ _)

theorem noRoots_rootSet (o : Bytes) : rootSet noRoots o = 0 := by
  simp [rootSet, rootOf, noRoots]

theorem opCount_eq (o : Bytes) (l : List OpTypeDef) : ((l.map (·.op)).filter (· == o)).length = opCount o l := by
  simp [opCount, List.filter_map, Function.comp_def]

/-- kinds of extensions agree with their base (or with the first extension of that name) -/
theorem foldExtensions_kinds {l : List Definition} {t r : List (Name × Definition)} (h : foldExtensions l t = .ok r) :
    ∀ e ∈ l, match t.lookup e.name with
      | some d => d.kind = e.kind
      | none => match l.find? (·.name == e.name) with
        | some e0 => e0.kind = e.kind
        | none => True := by
  induction l generalizing t with
  | nil => simp
  | cons ext rest ih =>
    simp only [foldExtensions] at h
    split at h
    · rename_i hn
      have := lookup_ensureBase_self ext t
      rw [hn] at this; simp at this
    · rename_i d hd
      split at h
      · simp at h
      · rename_i hk
        have hk : d.kind = ext.kind := by simpa using hk
        have hbase := lookup_ensureBase ext t ext.name
        rw [hd] at hbase
        intro e he
        simp only [List.mem_cons] at he
        rcases he with he | he
        · subst he
          cases hl : t.lookup e.name with
          | some d0 => simp only [hl] at hbase; simp only [Option.some.injEq] at hbase; rw [← hbase]; exact hk
          | none => simp
        · have := ih h e he
          rw [lookup_modifyKV, lookup_ensureBase] at this
          by_cases hn : e.name = ext.name
          · simp only [hn, ↓reduceIte] at this ⊢
            cases hl : t.lookup ext.name with
            | some d0 =>
              simp only [hl] at this hbase ⊢
              simp only [Option.map, Option.some.injEq] at this hbase
              simpa [applyExt] using this
            | none =>
              simp only [hl, ↓reduceIte] at this hbase ⊢
              simp only [Option.map] at this
              simp only [List.find?_cons, BEq.rfl]
              simpa [applyExt, extStub] using this
          · have hne : (ext.name == e.name) = false := by simp [Ne.symm hn]
            simp only [hn, ↓reduceIte] at this
            cases hl : t.lookup e.name with
            | some d0 => simpa [hl] using this
            | none =>
              simp only [hl] at this
              simp only [List.find?_cons, hne]
              exact this

end Gql.Load

namespace Gql.Load
open Gql

theorem buildState_ext_kinds {sd : SchemaDoc} {st : LState} (h : buildState sd = .ok st) :
    Spec.extensionKindsMatch sd = true := by
  unfold buildState at h
  split at h
  · simp at h
  · rename_i t0 h0
    split at h
    · simp at h
    · rename_i t1 h1
      obtain ⟨hn1, hn2⟩ := declareTypes_ok_inv h0
      have h0eq := declareTypes_ok hn1 hn2
      rw [h0] at h0eq
      simp only [Except.ok.injEq, List.nil_append] at h0eq
      simp only [Spec.extensionKindsMatch, List.all_eq_true]
      intro e he
      have := foldExtensions_kinds h1 e he
      rw [h0eq, lookup_map_pairs] at this
      cases hd : sd.definitions.find? (·.name == e.name) with
      | some d => simp only [hd] at this ⊢; simp [this]
      | none =>
        simp only [hd] at this ⊢
        cases hx : sd.extensions.find? (·.name == e.name) with
        | some e0 => simp only [hx] at this ⊢; simp [this]
        | none => rfl

/-- a document the loader accepts gives every operation a root type at most once (no hypothesis) -/
theorem load_rootsOnce {sd : SchemaDoc} {s : Schema} (h : load sd = .ok s) : Spec.rootOperationTypesOnce sd = true := by
  obtain ⟨st0, r0, d0, r1', d1', _, _, h0, h1, _, _, _⟩ := load_ok_inv h
  simp only [Spec.rootOperationTypesOnce, List.all_cons, List.all_nil, Bool.and_true, Bool.and_eq_true,
    decide_eq_true_eq, opCount_eq, List.flatMap_append, opCount_append]
  have key : ∀ o, isRootOp o = true →
      opCount o (sd.schema.flatMap (·.opTypes)) + opCount o (sd.schemaExt.flatMap (·.opTypes)) ≤ 1 := by
    intro o ho
    have A := applySchemaDefs_once h0 ho
    have B := applySchemaDefs_once h1 ho
    rw [noRoots_rootSet] at A
    have := rootSet_le r0 o
    omega
  exact ⟨key opQuery (by decide), key opMutation (by decide), key opSubscription (by decide)⟩

/-- the clauses of `Spec.WellFormed` that every document accepted by the loader satisfies -/
structure SoundClauses (sd : SchemaDoc) : Prop where
  uniqueTypeNames : Spec.uniqueTypeNames sd = true
  uniqueFieldNames : Spec.uniqueFieldNames (.ofDoc sd) = true
  fieldTypesOK : Spec.fieldTypesOK (.ofDoc sd) = true
  interfacesOK : Spec.interfacesOK (.ofDoc sd) = true
  unionMembersOK : Spec.unionMembersOK (.ofDoc sd) = true
  rootsExist : Spec.rootsExist (.ofDoc sd) = true
  implementsAncestorsOK : Spec.implementsAncestorsOK (.ofDoc sd) = true
  nonEmpty : Spec.nonEmpty (.ofDoc sd) = true
  typeNamesNotReserved : Spec.typeNamesNotReserved (.ofDoc sd) = true
  fieldNamesNotReserved : Spec.fieldNamesNotReserved (.ofDoc sd) = true
  singleSchemaDef : Spec.singleSchemaDef sd = true
  extensionKindsMatch : Spec.extensionKindsMatch sd = true
  enumValuesNotLiterals : Spec.enumValuesNotLiterals (.ofDoc sd) = true
  enumValueNamesNotReserved : Spec.enumValueNamesNotReserved (.ofDoc sd) = true
  rootOperationTypesOnce : Spec.rootOperationTypesOnce sd = true
  rootTypesAreObjects : Spec.rootTypesAreObjectsDoc sd = true

/-- **every loaded schema has object types as root operation types** (the loader's last check;
    before the repair `scalar Query`, `input Query {…}`, `schema { query: Int }` loaded) -/
theorem loaded_rootTypesAreObjects {sd : SchemaDoc} {s : Schema} (h : load sd = .ok s) :
    Spec.rootTypesAreObjects s = true := by
  obtain ⟨st, r1, d1, F⟩ := loaded_facts h
  rw [F.eq]
  have hk := checkRootKinds_pass_iff.mp F.rootKinds
  have key : ∀ o, isRootOp o = true → ∀ n, rootOf (finalRoots sd st r1) o = some n →
      Spec.typeIs (mkSchema sd st r1 d1) n (· == .object) = true := by
    intro o ho n hr
    have hsome : (st.types.lookup n).isSome := by
      obtain ⟨h1, h2, h3⟩ := F.roots
      simp only [isRootOp, Bool.or_eq_true, beq_iff_eq] at ho
      rcases ho with (rfl | rfl) | rfl
      · rw [rootOf_query] at hr; exact h1 n hr
      · rw [rootOf_mutation] at hr; exact h2 n hr
      · rw [rootOf_subscription] at hr; exact h3 n hr
    cases hl : st.types.lookup n with
    | none => rw [hl] at hsome; cases hsome
    | some d => exact typeIs_mkSchema hl (by simp [hk o ho n d hr hl])
  have hq : (mkSchema sd st r1 d1).query = (finalRoots sd st r1).query := rfl
  have hm : (mkSchema sd st r1 d1).mutation = (finalRoots sd st r1).mutation := rfl
  have hs : (mkSchema sd st r1 d1).subscription = (finalRoots sd st r1).subscription := rfl
  simp only [Spec.rootTypesAreObjects, List.all_cons, List.all_nil, Bool.and_true, Bool.and_eq_true, hq, hm, hs]
  refine ⟨?_, ?_, ?_⟩
  · cases hr : (finalRoots sd st r1).query with
    | none => rfl
    | some n => exact key opQuery (by decide) n (by rw [rootOf_query]; exact hr)
  · cases hr : (finalRoots sd st r1).mutation with
    | none => rfl
    | some n => exact key opMutation (by decide) n (by rw [rootOf_mutation]; exact hr)
  · cases hr : (finalRoots sd st r1).subscription with
    | none => rfl
    | some n => exact key opSubscription (by decide) n (by rw [rootOf_subscription]; exact hr)

theorem load_sound {sd : SchemaDoc} {s : Schema} (h : load sd = .ok s)
    (hext : ∀ e ∈ sd.extensions, e.builtIn = false) : SoundClauses sd := by
  obtain ⟨st, r1, d1, F⟩ := loaded_facts h
  obtain ⟨st0, r0, d0, r1', d1', hb, hlen, h0, h1, _, _, hs1, _⟩ := load_ok_inv' h
  have : st0 = st := by rw [F.built] at hb; simpa using hb.symm
  subst this
  have hmem : ∀ d ∈ (Spec.TypeSystem.ofDoc sd).types, (d.name, d) ∈ st0.types :=
    fun d hd => spec_types_mem F.built hext hd
  have hD : ∀ d ∈ (Spec.TypeSystem.ofDoc sd).types, DefOK st0 d := fun d hd => F.defOK _ (hmem d hd)
  have hty := spec_typeIs_eq F.built hext
  refine ⟨?_, ?_, ?_, ?_, ?_, ?_, ?_, ?_, ?_, ?_, ?_, ?_, ?_, ?_, ?_, ?_⟩
  · exact pairwiseDistinct_of_nodup (buildState_defs_nodup F.built)
  · simp only [Spec.uniqueFieldNames, List.all_eq_true]
    exact fun d hd => checkUniqueFields_pass (hD d hd).uniqueFields
  · simp only [Spec.fieldTypesOK, List.all_eq_true]
    intro d hd f hf
    obtain ⟨t, ht⟩ := (hD d hd).fieldTypes f hf
    rw [hty, ht]
    exact fieldPosition_ok (hD d hd) hf ht
  · simp only [Spec.interfacesOK, List.all_eq_true]
    intro d hd i hi
    obtain ⟨t, ht, hk⟩ := (hD d hd).interfaces i hi
    rw [hty, ht]; simp [hk]
  · simp only [Spec.unionMembersOK, List.all_eq_true]
    intro d hd m hm
    obtain ⟨t, ht, hk⟩ := (hD d hd).members m hm
    rw [hty, ht]; simp [hk]
  · simp only [Spec.rootsExist, List.all_eq_true]
    intro sdef hs o ho
    rw [spec_type_eq F.built hext]
    have hs' : sdef ∈ sd.schema ++ sd.schemaExt := hs
    rw [List.mem_append] at hs'
    rcases hs' with hs' | hs'
    · exact applySchemaDefs_resolves h0 sdef hs' o ho
    · exact applySchemaDefs_resolves h1 sdef hs' o ho
  · simp only [Spec.implementsAncestorsOK, List.all_eq_true]
    intro d hd i hi
    rw [spec_type_eq F.built hext]
    cases hl : st0.types.lookup i with
    | none => rfl
    | some intf =>
      simp only [Bool.or_eq_true, List.all_eq_true]
      right
      exact validateImplements_ancestors ((hD d hd).implements i hi) hl
  · simp only [Spec.nonEmpty, List.all_eq_true]
    intro d hd
    have := kindSpecific_nonEmpty (hD d hd).kindSpecific
    cases hk : d.kind <;> simp only [hk] at this ⊢ <;> exact this
  · simp only [Spec.typeNamesNotReserved, List.all_eq_true, Bool.or_eq_true, Bool.not_eq_true']
    intro d hd
    cases hb : d.builtIn with
    | true => exact Or.inl rfl
    | false => right; rw [reserved_eq]; exact (hD d hd).defName hb
  · simp only [Spec.fieldNamesNotReserved, List.all_eq_true, Bool.not_eq_true']
    intro d hd f hf
    rw [reserved_eq]; exact (hD d hd).fieldNames f hf
  · simp only [Spec.singleSchemaDef, decide_eq_true_eq]; exact hlen
  · exact buildState_ext_kinds F.built
  · simp only [Spec.enumValuesNotLiterals, List.all_eq_true, Bool.or_eq_true, Bool.not_eq_true']
    intro d hd
    by_cases hk : d.kind = .enum
    · right
      intro v hv
      exact kindSpecific_enumNames (hD d hd).kindSpecific hk v hv
    · left; simp [hk]
  · simp only [Spec.enumValueNamesNotReserved, List.all_eq_true, Bool.or_eq_true, Bool.not_eq_true']
    intro d hd
    by_cases hk : d.kind = .enum
    · right
      intro v hv
      rw [reserved_eq]
      exact kindSpecific_enumValueNames (hD d hd).kindSpecific hk v hv
    · left; simp [hk]
  · exact load_rootsOnce h
  · -- the roots the two passes left are the r1 of `Facts` (same schema, same state)
    obtain ⟨stx, r0x, d0x, r1x, d1x, hbx, _, h0x, h1x, _, _, _, hkx⟩ := load_ok_inv' h
    have : stx = st0 := by rw [F.built] at hbx; simpa using hbx.symm
    subst this
    rw [rootTypesAreObjectsDoc_iff]
    intro o ho
    exact rootIsObject_of_check F.typesInv (spec_type_eq F.built hext) (rootsFrom_of_apply h0x h1x) hkx ho

end Gql.Load
