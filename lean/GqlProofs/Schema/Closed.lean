import GqlProofs.Schema.State
import GqlModel.Schema.Spec
/-
  A successfully loaded schema is closed (lemmas; the property theorems are in Props/C07.lean).
-/
namespace Gql.Load
open Gql

/-- everything the loader has established when it returns `ok s` -/
structure Loaded (sd : SchemaDoc) (s : Schema) : Prop where
  ex : ∃ st r0 d0 r1 d1, buildState sd = .ok st ∧ sd.schema.length ≤ 1 ∧
      applySchemaDefs st sd.schema noRoots [] = .ok r0 d0 ∧
      applySchemaDefs st sd.schemaExt r0 d0 = .ok r1 d1 ∧
      validateTypeDefinitions st = .pass ∧ validateDirectiveDefinitions st = .pass ∧
      s = mkSchema sd st r1 d1

theorem isInputKind_eq (k : DefKind) : Spec.isInputKind k = isInputKind k := by cases k <;> rfl
theorem isOutputKind_eq (k : DefKind) : Spec.isOutputKind k = isOutputKind k := by cases k <;> rfl
theorem kindLocation_eq (k : DefKind) : Spec.kindLocation k = k.render := by cases k <;> rfl

theorem mkSchema_types (sd : SchemaDoc) (st : LState) (r1 : Roots) (d1 : List Directive) :
    (mkSchema sd st r1 d1).types =
      match (finalRoots sd st r1).query with
      | some q => modifyKV q addIntrospection st.types
      | none => st.types := rfl

theorem mkSchema_query (sd : SchemaDoc) (st : LState) (r1 : Roots) (d1 : List Directive) :
    (mkSchema sd st r1 d1).query = (finalRoots sd st r1).query := rfl

/-- lookups in the final type map: the same definition, possibly with the introspection fields -/
theorem lookup_mkSchema {sd : SchemaDoc} {st : LState} {r1 : Roots} {d1 : List Directive} {n : Name} {d : Definition}
    (h : st.types.lookup n = some d) :
    ∃ d', (mkSchema sd st r1 d1).types.lookup n = some d' ∧ d'.kind = d.kind := by
  rw [mkSchema_types]
  split
  · rw [lookup_modifyKV]
    split
    · exact ⟨addIntrospection d, by simp [h], rfl⟩
    · exact ⟨d, h, rfl⟩
  · exact ⟨d, h, rfl⟩

theorem typeIs_mkSchema {sd : SchemaDoc} {st : LState} {r1 : Roots} {d1 : List Directive} {n : Name} {d : Definition}
    {p : DefKind → Bool} (h : st.types.lookup n = some d) (hp : p d.kind = true) :
    Spec.typeIs (mkSchema sd st r1 d1) n p = true := by
  obtain ⟨d', h1, h2⟩ := lookup_mkSchema (sd := sd) (r1 := r1) (d1 := d1) h
  simp [Spec.typeIs, h1, h2, hp]

theorem typeIs_any_mkSchema {sd : SchemaDoc} {st : LState} {r1 : Roots} {d1 : List Directive} {n : Name}
    (h : (st.types.lookup n).isSome) : Spec.typeIs (mkSchema sd st r1 d1) n Spec.anyKind = true := by
  cases hl : st.types.lookup n with
  | none => simp [hl] at h
  | some d => exact typeIs_mkSchema hl rfl

/-- entries of the final type map -/
theorem mem_mkSchema_types {sd : SchemaDoc} {st : LState} {r1 : Roots} {d1 : List Directive} {p : Name × Definition}
    (hp : p ∈ (mkSchema sd st r1 d1).types) :
    ∃ d, (p.1, d) ∈ st.types ∧ (p.2 = d ∨ (p.2 = addIntrospection d ∧ (mkSchema sd st r1 d1).query = some p.1)) := by
  obtain ⟨k, v⟩ := p
  rw [mkSchema_types] at hp
  rw [mkSchema_query]
  split at hp
  · rename_i q hq
    rcases mem_modifyKV hp with hp | ⟨hk, v0, hv0, hv⟩
    · exact ⟨v, hp, Or.inl rfl⟩
    · exact ⟨v0, hv0, Or.inr ⟨hv, by rw [hq, hk]⟩⟩
  · exact ⟨v, hp, Or.inl rfl⟩

/-- a type the document declares (by definition) with kind `k` is in the state with kind `k` -/
def DeclaresKind (sd : SchemaDoc) (n : Name) (k : DefKind) : Prop := ∃ d ∈ sd.definitions, d.name = n ∧ d.kind = k

theorem declareTypes_mono {l : List Definition} {acc r : List (Name × Definition)} (h : declareTypes l acc = .ok r) :
    (∀ n d, acc.lookup n = some d → r.lookup n = some d) ∧ ∀ d ∈ l, r.lookup d.name = some d := by
  induction l generalizing acc with
  | nil => simp [declareTypes] at h; subst h; simp
  | cons d rest ih =>
    simp only [declareTypes] at h
    split at h
    · simp at h
    · rename_i hnone
      obtain ⟨ih1, ih2⟩ := ih h
      refine ⟨fun n x hx => ih1 n x (by rw [lookup_append, hx]; rfl), ?_⟩
      intro d' hd'
      simp only [List.mem_cons] at hd'
      rcases hd' with hd' | hd'
      · subst hd'
        apply ih1
        rw [lookup_append, hnone]; simp [List.lookup]
      · exact ih2 d' hd'

theorem foldExtensions_kind {l : List Definition} {types r : List (Name × Definition)} (h : foldExtensions l types = .ok r)
    {n : Name} {k : DefKind} (hn : ∃ d, types.lookup n = some d ∧ d.kind = k) : ∃ d, r.lookup n = some d ∧ d.kind = k := by
  induction l generalizing types with
  | nil => simp [foldExtensions] at h; subst h; exact hn
  | cons ext rest ih =>
    simp only [foldExtensions] at h
    obtain ⟨d, hd, hk⟩ := hn
    have h1 : (ensureBase ext types).lookup n = some d := by
      unfold ensureBase
      split
      · exact hd
      · rw [lookup_append, hd]; rfl
    split at h
    · simp at h; subst h; exact ⟨d, h1, hk⟩
    · split at h
      · simp at h
      · apply ih h
        rw [lookup_modifyKV]
        split
        · exact ⟨applyExt ext d, by rw [h1]; rfl, hk⟩
        · exact ⟨d, h1, hk⟩

theorem buildState_declares {sd : SchemaDoc} {st : LState} (h : buildState sd = .ok st) {n : Name} {k : DefKind}
    (hd : DeclaresKind sd n k) : ∃ d, st.types.lookup n = some d ∧ d.kind = k := by
  obtain ⟨d, hmem, hname, hkind⟩ := hd
  unfold buildState at h
  split at h
  · simp at h
  · rename_i t0 h0
    split at h
    · simp at h
    · rename_i t1 h1
      split at h
      split at h
      · simp at h
      · simp only [Except.ok.injEq] at h
        subst h
        apply foldExtensions_kind h1
        exact ⟨d, by rw [← hname]; exact (declareTypes_mono h0).2 d hmem, hkind⟩

/- ---------------- roots ---------------- -/

/-- `schema.Query` / `schema.Mutation` / `schema.Subscription` selected by the operation keyword -/
def rootOf (r : Roots) (o : Bytes) : Option Name :=
  if o == opQuery then r.query else if o == opMutation then r.mutation
  else if o == opSubscription then r.subscription else none

def isRootOp (o : Bytes) : Bool := o == opQuery || o == opMutation || o == opSubscription

theorem opQuery_ne_opMutation : (opQuery == opMutation) = false := by decide
theorem opQuery_ne_opSubscription : (opQuery == opSubscription) = false := by decide
theorem opMutation_ne_opSubscription : (opMutation == opSubscription) = false := by decide
theorem opMutation_ne_opQuery : (opMutation == opQuery) = false := by decide
theorem opSubscription_ne_opQuery : (opSubscription == opQuery) = false := by decide
theorem opSubscription_ne_opMutation : (opSubscription == opMutation) = false := by decide

/-- one step of `setRoots` that does not fail: the entry point's type exists, its operation had no
    root yet, and afterwards it has this one -/
theorem setRoots_cons_ok {types : List (Name × Definition)} {e : OpTypeDef} {rest : List OpTypeDef} {r r' : Roots}
    (h : setRoots types (e :: rest) r = .ok r') :
    ∃ d, types.lookup e.type = some d ∧ ∃ r2, setRoots types rest r2 = .ok r' ∧
      (isRootOp e.op = true → rootOf r e.op = none) ∧
      ∀ o, rootOf r2 o = if isRootOp e.op && o == e.op then some d.name else rootOf r o := by
  simp only [setRoots] at h
  split at h
  · simp at h
  · rename_i d hd
    refine ⟨d, hd, ?_⟩
    split at h
    · rename_i hq
      have hq : e.op = opQuery := by simpa using hq
      split at h
      · simp at h
      · rename_i hn
        have hn : r.query = none := by simpa using hn
        refine ⟨_, h, ?_, ?_⟩
        · intro _; rw [hq]; simp [rootOf, hn]
        · intro o
          rw [hq]
          by_cases ho : o = opQuery
          · subst ho; simp [rootOf, isRootOp]
          · have : (o == opQuery) = false := by simp [ho]
            simp [rootOf, isRootOp, this]
    · rename_i hq
      have hq : (e.op == opQuery) = false := by simpa using hq
      split at h
      · rename_i hm
        have hm : e.op = opMutation := by simpa using hm
        split at h
        · simp at h
        · rename_i hn
          have hn : r.mutation = none := by simpa using hn
          refine ⟨_, h, ?_, ?_⟩
          · intro _; rw [hm]; simp [rootOf, hn, opMutation_ne_opQuery]
          · intro o
            rw [hm]
            by_cases ho : o = opMutation
            · subst ho; simp [rootOf, isRootOp, opMutation_ne_opQuery]
            · have h1 : (o == opMutation) = false := by simp [ho]
              simp [rootOf, isRootOp, h1]
      · rename_i hm
        have hm : (e.op == opMutation) = false := by simpa using hm
        split at h
        · rename_i hs
          have hs : e.op = opSubscription := by simpa using hs
          split at h
          · simp at h
          · rename_i hn
            have hn : r.subscription = none := by simpa using hn
            refine ⟨_, h, ?_, ?_⟩
            · intro _; rw [hs]; simp [rootOf, hn, opSubscription_ne_opQuery, opSubscription_ne_opMutation]
            · intro o
              rw [hs]
              by_cases ho : o = opSubscription
              · subst ho; simp [rootOf, isRootOp, opSubscription_ne_opQuery, opSubscription_ne_opMutation]
              · have h1 : (o == opSubscription) = false := by simp [ho]
                simp [rootOf, isRootOp, h1]
        · rename_i hs
          have hs : (e.op == opSubscription) = false := by simpa using hs
          refine ⟨_, h, ?_, ?_⟩
          · intro hroot; simp [isRootOp, hq, hm, hs] at hroot
          · intro o; simp [isRootOp, hq, hm, hs]

def RootsOK (types : List (Name × Definition)) (r : Roots) : Prop :=
  (∀ n, r.query = some n → (types.lookup n).isSome) ∧ (∀ n, r.mutation = some n → (types.lookup n).isSome) ∧
  (∀ n, r.subscription = some n → (types.lookup n).isSome)

theorem setRoots_ok {types : List (Name × Definition)} (hinv : KeysInv (·.name) types) {l : List OpTypeDef} {r r' : Roots}
    (hr : RootsOK types r) (h : setRoots types l r = .ok r') : RootsOK types r' := by
  induction l generalizing r with
  | nil => simp [setRoots] at h; subst h; exact hr
  | cons e rest ih =>
    simp only [setRoots] at h
    split at h
    · simp at h
    · rename_i d hd
      have hname : d.name = e.type := hinv.2 (e.type, d) (mem_of_lookup hd)
      have hres : (types.lookup d.name).isSome := by rw [hname, hd]; rfl
      obtain ⟨h1, h2, h3⟩ := hr
      split at h
      · split at h
        · simp at h
        · refine ih ?_ h
          exact ⟨fun n hn => by simp at hn; subst hn; exact hres, h2, h3⟩
      · split at h
        · split at h
          · simp at h
          · refine ih ?_ h
            exact ⟨h1, fun n hn => by simp at hn; subst hn; exact hres, h3⟩
        · split at h
          · split at h
            · simp at h
            · refine ih ?_ h
              exact ⟨h1, h2, fun n hn => by simp at hn; subst hn; exact hres⟩
          · refine ih ?_ h
            exact ⟨h1, h2, h3⟩

/-- directives that passed `validateDirectives … SCHEMA` -/
def SchemaDirsOK (st : LState) (ds : List Directive) : Prop :=
  ∀ dir ∈ ds, ∃ dd, st.directives.lookup dir.name = some dd ∧ dd.locations.contains locSchema = true

theorem applySchemaDefs_ok {st : LState} (hinv : KeysInv (·.name) st.types) {l : List SchemaDef} {r r' : Roots}
    {acc acc' : List Directive} (hr : RootsOK st.types r) (hacc : SchemaDirsOK st acc)
    (h : applySchemaDefs st l r acc = .ok r' acc') : RootsOK st.types r' ∧ SchemaDirsOK st acc' := by
  induction l generalizing r acc with
  | nil => simp [applySchemaDefs] at h; obtain ⟨h1, h2⟩ := h; subst h1; subst h2; exact ⟨hr, hacc⟩
  | cons sdef rest ih =>
    simp only [applySchemaDefs] at h
    split at h
    · rename_i r1 acc1 h1
      refine ih ?_ ?_ h
      all_goals
        unfold applySchemaDef at h1
        split at h1
        · simp at h1
        · rename_i r2 hr2
          split at h1 <;> try (simp at h1)
          rename_i hv
          obtain ⟨e1, e2⟩ := h1
          subst e1; subst e2
          first
          | exact setRoots_ok hinv hr hr2
          | (intro dir hdir
             simp only [List.mem_append] at hdir
             rcases hdir with hdir | hdir
             · exact hacc dir hdir
             · exact validateDirectives_pass hv dir hdir)
    · rename_i hne
      exact absurd h (hne _ _)

theorem inferRoots_ok {types : List (Name × Definition)} (hinv : KeysInv (·.name) types) {r : Roots}
    (hr : RootsOK types r) : RootsOK types (inferRoots types r) := by
  have key : ∀ (cur : Option Name) (nm : Name), (∀ n, cur = some n → (types.lookup n).isSome) →
      ∀ n, inferRoot types cur nm = some n → (types.lookup n).isSome := by
    intro cur nm hcur n hn
    unfold inferRoot at hn
    split at hn
    · exact hcur n hn
    · cases hl : types.lookup nm with
      | none => simp [ptrOf, hl] at hn
      | some d =>
        simp [ptrOf, hl] at hn
        have hname : d.name = nm := hinv.2 (nm, d) (mem_of_lookup hl)
        rw [← hn, hname, hl]; rfl
  exact ⟨key _ _ hr.1, key _ _ hr.2.1, key _ _ hr.2.2⟩

theorem pairwiseDistinct_of_nodup {l : List Name} (h : l.Nodup) : Spec.pairwiseDistinct l = true := by
  induction l with
  | nil => rfl
  | cons x rest ih =>
    simp only [List.nodup_cons] at h
    simp [Spec.pairwiseDistinct, h.1, ih h.2]

end Gql.Load

namespace Gql.Load
open Gql

/-- the facts every closedness theorem starts from -/
structure Facts (sd : SchemaDoc) (s : Schema) (st : LState) (r1 : Roots) (d1 : List Directive) : Prop where
  eq : s = mkSchema sd st r1 d1
  built : buildState sd = .ok st
  typesInv : KeysInv (·.name) st.types
  dirsInv : KeysInv (·.name) st.directives
  rel : (st.possible, st.implements) = buildRelations st.types
  defOK : ∀ p ∈ st.types, DefOK st p.2
  dirDefOK : ∀ p ∈ st.directives, validateArgs st p.2.args (some p.2.name) = .pass
  roots : RootsOK st.types (finalRoots sd st r1)
  schemaDirs : SchemaDirsOK st d1
  rootKinds : checkRootKinds st (finalRoots sd st r1) = .pass

theorem loaded_facts {sd : SchemaDoc} {s : Schema} (h : load sd = .ok s) : ∃ st r1 d1, Facts sd s st r1 d1 := by
  obtain ⟨st, r0, d0, r1, d1, hb, _, h0, h1, ht, hd, hs, hk⟩ := load_ok_inv' h
  obtain ⟨hti, hdi, hrel⟩ := buildState_inv hb
  have hr0 := applySchemaDefs_ok hti (r := noRoots) (acc := [])
    ⟨by simp [noRoots], by simp [noRoots], by simp [noRoots]⟩ (by simp [SchemaDirsOK]) h0
  have hr1 := applySchemaDefs_ok hti hr0.1 hr0.2 h1
  refine ⟨st, r1, d1, hs, hb, hti, hdi, hrel, ?_, ?_, ?_, hr1.2, hk⟩
  · intro p hp
    exact validateTypeDefinitions_pass ht p.1 p.2 (lookup_of_mem_nodup hti.1 hp)
  · intro p hp
    exact validateDirectiveDefinitions_pass hd p.1 p.2 (lookup_of_mem_nodup hdi.1 hp)
  · unfold finalRoots
    split
    · exact inferRoots_ok hti hr1.1
    · exact hr1.1

theorem Facts.refs {sd s st r1 d1} (F : Facts sd s st r1 d1) : ∀ p ∈ st.types, RefsResolve st.types p.2 := by
  intro p hp
  have hd := F.defOK p hp
  refine ⟨?_, ?_, ?_⟩
  · have : p.2.name = p.1 := F.typesInv.2 p hp
    rw [this]; exact lookup_isSome_of_mem (v := p.2) hp
  · intro i hi
    obtain ⟨t, ht, _⟩ := hd.interfaces i hi
    rw [ht]; rfl
  · intro m hm
    obtain ⟨t, ht, _⟩ := hd.members m hm
    rw [ht]; rfl

/-- a relation with resolving keys and non-nil resolving entries renders to a closed name relation -/
theorem relOut_closed {sd : SchemaDoc} {st : LState} {r1 : Roots} {d1 : List Directive} {rel : Rel}
    (h : RelInv st.types rel) :
    ∀ p ∈ relOut rel, Spec.typeIs (mkSchema sd st r1 d1) p.1 Spec.anyKind = true ∧
      ∀ n ∈ p.2, Spec.typeIs (mkSchema sd st r1 d1) n Spec.anyKind = true := by
  intro p hp
  simp only [relOut, List.mem_map] at hp
  obtain ⟨⟨k, vs⟩, hq, rfl⟩ := hp
  obtain ⟨hk, hvs⟩ := h (k, vs) hq
  refine ⟨typeIs_any_mkSchema hk, ?_⟩
  intro n hn
  simp only [List.mem_map] at hn
  obtain ⟨e, he, rfl⟩ := hn
  obtain ⟨n', rfl, hn'⟩ := hvs e he
  exact typeIs_any_mkSchema hn'

/-- a passing `validateDirectives` in the state gives `directiveIs` in the schema -/
theorem directiveIs_of_pass {sd : SchemaDoc} {st : LState} {r1 : Roots} {d1 : List Directive} {dirs : List Directive}
    {loc : Bytes} {cur : Option Name} (h : validateDirectives st dirs loc cur = .pass) :
    ∀ d ∈ dirs, Spec.directiveIs (mkSchema sd st r1 d1) d loc = true := by
  intro d hd
  obtain ⟨dd, h1, h2⟩ := validateDirectives_pass h d hd
  have : (mkSchema sd st r1 d1).directives = st.directives := rfl
  simp only [Spec.directiveIs, this, h1]
  exact h2

end Gql.Load
