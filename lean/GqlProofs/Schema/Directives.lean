import GqlProofs.Schema.Implements
/-
  Soundness of the loader for the directive clauses of `Spec.WellFormed` and for the clauses that
  range over directive definitions, under the hypothesis that no directive name is declared twice
  (`DirectiveNamesDistinct`).  Without it the loader keeps the LAST declaration of a builtin directive
  (finding R7b) while the specification reads the first user-written one, and the clauses differ.
-/
set_option linter.unusedSimpArgs false
namespace Gql.Load
open Gql

/-- no directive name is declared twice in the whole document (prelude included) -/
def DirectiveNamesDistinct (sd : SchemaDoc) : Prop := (sd.directives.map (·.name)).Nodup

instance (sd : SchemaDoc) : Decidable (DirectiveNamesDistinct sd) := by unfold DirectiveNamesDistinct; infer_instance

/- ------------------------------------------------------------------ the directive map -/

theorem insertKV_new {α} {k : Name} {v : α} {l : List (Name × α)} (h : l.lookup k = none) :
    insertKV k v l = l ++ [(k, v)] := by
  induction l with
  | nil => rfl
  | cons p rest ih =>
    obtain ⟨k', v'⟩ := p
    simp only [List.lookup] at h
    by_cases hk : k = k'
    · subst hk; simp at h
    · have h1 : (k == k') = false := by simp [hk]
      have h2 : (k' == k) = false := by simp [Ne.symm hk]
      simp only [h1] at h
      simp [insertKV, h2, ih h]

theorem declareDirectives_distinct {l : List DirectiveDef} {acc : List (Name × DirectiveDef)}
    (h1 : ∀ d ∈ l, acc.lookup d.name = none) (h2 : (l.map (·.name)).Nodup) :
    declareDirectives l acc = .ok (acc ++ l.map fun d => (d.name, d)) := by
  induction l generalizing acc with
  | nil => simp [declareDirectives]
  | cons d rest ih =>
    simp only [List.map_cons, List.nodup_cons] at h2
    have hd := h1 d (by simp)
    simp only [declareDirectives, hd, Option.isSome_none, Bool.false_and, Bool.false_eq_true, ↓reduceIte]
    rw [insertKV_new hd, ih]
    · simp
    · intro d' hd'
      rw [lookup_append, h1 d' (by simp [hd'])]
      have : d'.name ≠ d.name := by
        intro e; apply h2.1; rw [← e]; exact List.mem_map.mpr ⟨d', hd', rfl⟩
      have : (d'.name == d.name) = false := by simp [this]
      simp [List.lookup, this]
    · exact h2.2

theorem lookup_map_dirs (l : List DirectiveDef) (n : Name) :
    (l.map fun d => (d.name, d)).lookup n = l.find? (·.name == n) := by
  induction l with
  | nil => rfl
  | cons d rest ih =>
    simp only [List.map_cons, List.lookup, List.find?_cons]
    by_cases h : d.name = n
    · subst h; simp
    · have h1 : (n == d.name) = false := by simp [Ne.symm h]
      have h2 : (d.name == n) = false := by simp [h]
      simp [h1, h2, ih]

theorem state_directives {sd : SchemaDoc} {st : LState} (h : buildState sd = .ok st) (hd : DirectiveNamesDistinct sd) :
    st.directives = sd.directives.map fun d => (d.name, d) := by
  unfold buildState at h
  split at h
  · simp at h
  · split at h
    · simp at h
    · split at h
      have := declareDirectives_distinct (l := sd.directives) (acc := []) (by simp) hd
      rw [this] at h
      simp only [List.nil_append, Except.ok.injEq] at h
      subst h; rfl

theorem find_unique {l : List DirectiveDef} (hn : (l.map (·.name)).Nodup) {d : DirectiveDef} (hd : d ∈ l) :
    l.find? (·.name == d.name) = some d := by
  induction l with
  | nil => simp at hd
  | cons x rest ih =>
    simp only [List.map_cons, List.nodup_cons] at hn
    simp only [List.find?_cons]
    simp only [List.mem_cons] at hd
    rcases hd with hd | hd
    · subst hd; simp
    · have : x.name ≠ d.name := by
        intro e; apply hn.1; rw [e]; exact List.mem_map.mpr ⟨d, hd, rfl⟩
      have : (x.name == d.name) = false := by simp [this]
      simp only [this]
      exact ih hn.2 hd

/-- **bridge**: the directive definition in force for a name is the one the loader stored -/
theorem spec_directive_eq {sd : SchemaDoc} {st : LState} (h : buildState sd = .ok st) (hd : DirectiveNamesDistinct sd)
    (n : Name) : (Spec.TypeSystem.ofDoc sd).directive? n = st.directives.lookup n := by
  rw [state_directives h hd, lookup_map_dirs]
  unfold Spec.TypeSystem.directive? Spec.TypeSystem.ofDoc
  simp only
  split
  · rename_i d hfind
    have hmem : d ∈ sd.directives := List.mem_of_find?_eq_some hfind
    have hname : d.name = n := by
      have := List.find?_some hfind
      simp only [Bool.and_eq_true, beq_iff_eq] at this
      exact this.1
    rw [← hname]
    exact (find_unique hd hmem).symm
  · rfl

/- ------------------------------------------------------------------ what a passing use establishes -/

theorem validateDirectiveUse_facts {st : LState} {loc : Bytes} {cur : Option Name} {dir : Directive}
    (h : validateDirectiveUse st loc cur dir = .pass) :
    hasDunder dir.name = false ∧ cur ≠ some dir.name ∧
    ∃ dd, st.directives.lookup dir.name = some dd ∧ dd.locations.contains loc = true ∧
      (∀ x ∈ dir.args, (dd.args.find? (fun a => a.name == x.name)).isSome = true) ∧
      (∀ a ∈ dd.args, (!(a.type.nonNull && a.default.isNone) ||
        (match dir.args.find? (fun x => x.name == a.name) with
         | some x => x.value.kind != .null
         | none => false)) = true) := by
  unfold validateDirectiveUse at h
  simp only [andThen_eq_pass] at h
  obtain ⟨h1, h2, h3⟩ := h
  refine ⟨validateName_pass h1, ?_, ?_⟩
  · intro hc
    rw [hc] at h2
    simp at h2
  · split at h3
    · simp at h3
    · rename_i dd hdd
      simp only [andThen_eq_pass, each_eq_pass] at h3
      obtain ⟨h4, h5, h6⟩ := h3
      refine ⟨dd, hdd, ?_, ?_, ?_⟩
      · split at h4
        · assumption
        · simp at h4
      · intro x hx
        have := h5 x hx
        unfold argDefForName at this
        split at this
        · simp at this
        · rename_i hf; simp [hf]
      · intro a ha
        have := h6 a ha
        split at this
        · rename_i hreq
          unfold argForName at this
          simp only [hreq, Bool.not_true, Bool.false_or]
          split at this
          · simp at this
          · rename_i x hx
            simp only [hx]
            split at this
            · simp at this
            · rename_i hk; simpa using hk
        · rename_i hreq
          have : (a.type.nonNull && a.default.isNone) = false := by
            cases hb : (a.type.nonNull && a.default.isNone) with
            | false => rfl
            | true => exact absurd hb hreq
          simp [this]

/-- every `schema` / `extend schema` block that was applied had its directives validated -/
theorem applySchemaDefs_dirs_pass {st : LState} {l : List SchemaDef} {r r' : Roots} {acc acc' : List Directive}
    (h : applySchemaDefs st l r acc = .ok r' acc') :
    ∀ s ∈ l, validateDirectives st s.dirs locSchema none = .pass := by
  induction l generalizing r acc with
  | nil => simp
  | cons sdef rest ih =>
    simp only [applySchemaDefs] at h
    split at h
    · rename_i r1 acc1 h1
      intro s hs
      simp only [List.mem_cons] at hs
      rcases hs with hs | hs
      · subst hs
        unfold applySchemaDef at h1
        split at h1
        · simp at h1
        · split at h1 <;> try (simp at h1)
          assumption
      · exact ih h s hs
    · rename_i hne
      exact absurd h (hne _ _)

theorem validateArgs_names {st : LState} {args : List ArgDef} {cur : Option Name}
    (h : validateArgs st args cur = .pass) : ∀ a ∈ args, hasDunder a.name = false := by
  unfold validateArgs at h
  rw [each_eq_pass] at h
  intro a ha
  have := h a ha
  simp only [andThen_eq_pass] at this
  exact validateName_pass this.1

theorem validateDirectiveDefinitions_names {st : LState} (h : validateDirectiveDefinitions st = .pass) :
    ∀ k dd, st.directives.lookup k = some dd → hasDunder dd.name = false := by
  unfold validateDirectiveDefinitions at h
  rw [each_eq_pass] at h
  intro k dd hkd
  have hk : k ∈ sortNames (st.directives.map Prod.fst) := by
    rw [mem_sortNames, ← lookup_isSome_iff_mem_keys, hkd]; rfl
  have := h k hk
  simp only [hkd, validateDirectiveDef, andThen_eq_pass] at this
  exact validateName_pass this.1

/- ------------------------------------------------------------------ every applied directive was validated -/

/-- every directive application the specification enumerates (`directiveUses`) passed the loader's
    `validateDirectiveUse` at its location -/
theorem uses_pass {sd : SchemaDoc} {s : Schema} (h : load sd = .ok s)
    (hext : ∀ e ∈ sd.extensions, e.builtIn = false) (hd : DirectiveNamesDistinct sd) :
    ∃ st r1 d1, Facts sd s st r1 d1 ∧
      ∀ u ∈ (Spec.TypeSystem.ofDoc sd).directiveUses, validateDirectiveUse st u.2.1 u.2.2 u.1 = .pass := by
  obtain ⟨st, r1, d1, F⟩ := loaded_facts h
  obtain ⟨st0, r0, d0, r1', d1', hb, _, h0, h1, _, _, _⟩ := load_ok_inv h
  have : st0 = st := by rw [F.built] at hb; simpa using hb.symm
  subst this
  refine ⟨st0, r1, d1, F, ?_⟩
  have hmem : ∀ d ∈ (Spec.TypeSystem.ofDoc sd).types, (d.name, d) ∈ st0.types :=
    fun d hd => spec_types_mem F.built hext hd
  intro u hu
  obtain ⟨dir, loc, cur⟩ := u
  simp only [Spec.TypeSystem.directiveUses, List.mem_append, List.mem_flatMap, List.mem_map, Prod.mk.injEq] at hu
  have each_pass : ∀ {ds : List Directive} {loc : Bytes} {cur : Option Name},
      validateDirectives st0 ds loc cur = .pass → ∀ x ∈ ds, validateDirectiveUse st0 loc cur x = .pass := by
    intro ds loc cur hp
    unfold validateDirectives at hp
    exact each_eq_pass.mp hp
  rcases hu with (⟨d, hd', hsite⟩ | ⟨sdef, hs, x, hx, rfl, rfl, rfl⟩) | ⟨dd, hdd, a, ha, x, hx, rfl, rfl, rfl⟩
  · have D := F.defOK _ (hmem d hd')
    rcases hsite with (⟨x, hx, rfl, rfl, rfl⟩ | ⟨f, hf, hsite⟩) | ⟨v, hv, x, hx, rfl, rfl, rfl⟩
    · rw [kindLocation_eq]
      exact each_pass D.dirs x hx
    · rcases hsite with ⟨x, hx, rfl, rfl, rfl⟩ | ⟨a, ha, x, hx, rfl, rfl, rfl⟩
      · exact each_pass (D.fieldDirs f hf) x hx
      · exact each_pass (validateArgs_pass (D.fieldArgs f hf) a ha).2 x hx
    · by_cases hk : d.kind = .enum
      · simp only [hk, ↓reduceIte] at hv
        exact each_pass (kindSpecific_enumDirs D.kindSpecific hk v hv) x hx
      · simp [hk] at hv
  · have hs' : sdef ∈ sd.schema ++ sd.schemaExt := hs
    rw [List.mem_append] at hs'
    rcases hs' with hs' | hs'
    · exact each_pass (applySchemaDefs_dirs_pass h0 sdef hs') x hx
    · exact each_pass (applySchemaDefs_dirs_pass h1 sdef hs') x hx
  · have hdd' : dd ∈ sd.directives := hdd
    have hin : (dd.name, dd) ∈ st0.directives := by
      rw [state_directives F.built hd]
      exact List.mem_map.mpr ⟨dd, hdd', rfl⟩
    exact each_pass (validateArgs_pass (F.dirDefOK _ hin) a ha).2 x hx

/-- the directive clauses and the clauses ranging over directive definitions -/
structure DirectiveClauses (sd : SchemaDoc) : Prop where
  uniqueDirectiveNames : Spec.uniqueDirectiveNames sd = true
  argTypesOK : Spec.argTypesOK (.ofDoc sd) = true
  directivesDeclared : Spec.directivesDeclared (.ofDoc sd) = true
  directiveLocationsOK : Spec.directiveLocationsOK (.ofDoc sd) = true
  requiredArgsSupplied : Spec.requiredArgsSupplied (.ofDoc sd) = true
  argNamesNotReserved : Spec.argNamesNotReserved (.ofDoc sd) = true
  directiveNamesNotReserved : Spec.directiveNamesNotReserved (.ofDoc sd) = true
  directiveArgsDeclared : Spec.directiveArgsDeclared (.ofDoc sd) = true
  noSelfReference : Spec.noSelfReference (.ofDoc sd) = true
  appliedNamesNotReserved : Spec.appliedNamesNotReserved (.ofDoc sd) = true

theorem nodup_filter_map {l : List DirectiveDef} (h : (l.map (·.name)).Nodup) (p : DirectiveDef → Bool) :
    ((l.filter p).map (·.name)).Nodup := by
  induction l with
  | nil => simp
  | cons x rest ih =>
    simp only [List.map_cons, List.nodup_cons] at h
    simp only [List.filter_cons]
    split
    · simp only [List.map_cons, List.nodup_cons]
      refine ⟨?_, ih h.2⟩
      intro hm
      apply h.1
      obtain ⟨y, hy, e⟩ := List.mem_map.mp hm
      exact List.mem_map.mpr ⟨y, (List.mem_filter.mp hy).1, e⟩
    · exact ih h.2

theorem load_directive_clauses {sd : SchemaDoc} {s : Schema} (h : load sd = .ok s)
    (hext : ∀ e ∈ sd.extensions, e.builtIn = false) (hd : DirectiveNamesDistinct sd) : DirectiveClauses sd := by
  obtain ⟨st, r1, d1, F, hu⟩ := uses_pass h hext hd
  obtain ⟨st0, _, _, _, _, hb, _, _, _, _, hdd, _⟩ := load_ok_inv h
  have : st0 = st := by rw [F.built] at hb; simpa using hb.symm
  subst this
  have hdir := spec_directive_eq F.built hd
  have hty := spec_typeIs_eq F.built hext
  have hmem : ∀ d ∈ (Spec.TypeSystem.ofDoc sd).types, (d.name, d) ∈ st0.types :=
    fun d hd => spec_types_mem F.built hext hd
  have hdin : ∀ dd ∈ sd.directives, (dd.name, dd) ∈ st0.directives := by
    intro dd hdd'
    rw [state_directives F.built hd]
    exact List.mem_map.mpr ⟨dd, hdd', rfl⟩
  have facts := fun u hu' => validateDirectiveUse_facts (hu u hu')
  -- every argument definition the spec enumerates passed `validateArgs`
  have hargs : ∀ a ∈ (Spec.TypeSystem.ofDoc sd).argDefs,
      (∃ t, st0.types.lookup a.type.name = some t ∧ isInputKind t.kind = true) ∧ hasDunder a.name = false := by
    intro a ha
    simp only [Spec.TypeSystem.argDefs, List.mem_append, List.mem_flatMap] at ha
    rcases ha with ⟨d, hd', f, hf, ha⟩ | ⟨dd, hdd', ha⟩
    · have D := F.defOK _ (hmem d hd')
      exact ⟨(validateArgs_pass (D.fieldArgs f hf) a ha).1, validateArgs_names (D.fieldArgs f hf) a ha⟩
    · have P := F.dirDefOK _ (hdin dd hdd')
      exact ⟨(validateArgs_pass P a ha).1, validateArgs_names P a ha⟩
  refine ⟨?_, ?_, ?_, ?_, ?_, ?_, ?_, ?_, ?_, ?_⟩
  · simp only [Spec.uniqueDirectiveNames, Bool.and_eq_true]
    exact ⟨pairwiseDistinct_of_nodup (nodup_filter_map hd _), pairwiseDistinct_of_nodup (nodup_filter_map hd _)⟩
  · simp only [Spec.argTypesOK, List.all_eq_true]
    intro a ha
    obtain ⟨⟨t, ht, hk⟩, _⟩ := hargs a ha
    rw [hty, ht]; simp only; rw [isInputKind_eq]; exact hk
  · simp only [Spec.directivesDeclared, List.all_eq_true]
    intro u hu'
    obtain ⟨_, _, dd, hl, _⟩ := facts u hu'
    rw [hdir, hl]; rfl
  · simp only [Spec.directiveLocationsOK, List.all_eq_true]
    intro u hu'
    obtain ⟨_, _, dd, hl, hloc, _⟩ := facts u hu'
    rw [hdir, hl]; exact hloc
  · simp only [Spec.requiredArgsSupplied, List.all_eq_true]
    intro u hu'
    obtain ⟨_, _, dd, hl, _, _, hreq⟩ := facts u hu'
    rw [hdir, hl]
    simp only [List.all_eq_true]
    exact hreq
  · simp only [Spec.argNamesNotReserved, List.all_eq_true, Bool.not_eq_true']
    intro a ha
    rw [reserved_eq]; exact (hargs a ha).2
  · simp only [Spec.directiveNamesNotReserved, List.all_eq_true, Bool.not_eq_true']
    intro dd hdd'
    rw [reserved_eq]
    exact validateDirectiveDefinitions_names hdd dd.name dd (lookup_of_mem_nodup F.dirsInv.1 (hdin dd hdd'))
  · simp only [Spec.directiveArgsDeclared, List.all_eq_true]
    intro u hu'
    obtain ⟨_, _, dd, hl, _, hdecl, _⟩ := facts u hu'
    rw [hdir, hl]
    simp only [List.all_eq_true]
    exact hdecl
  · simp only [Spec.noSelfReference, List.all_eq_true, bne_iff_ne, ne_eq]
    intro u hu'
    exact (facts u hu').2.1
  · simp only [Spec.appliedNamesNotReserved, List.all_eq_true, Bool.not_eq_true']
    intro u hu'
    rw [reserved_eq]; exact (facts u hu').1

/-- **the ⇒ direction of "loads iff well formed"**, for documents in which no directive name is
    declared twice: everything the loader accepts satisfies every clause of `Spec.WellFormed` -/
theorem load_wellFormed {sd : SchemaDoc} {s : Schema} (h : load sd = .ok s)
    (hext : ∀ e ∈ sd.extensions, e.builtIn = false) (hlex : NamesLexical sd) (hd : DirectiveNamesDistinct sd) :
    Spec.WellFormed sd := by
  have S := load_sound h hext
  have I := load_implementsFieldsOK h hext hlex
  have D := load_directive_clauses h hext hd
  exact {
    uniqueTypeNames := S.uniqueTypeNames, uniqueDirectiveNames := D.uniqueDirectiveNames,
    uniqueFieldNames := S.uniqueFieldNames, fieldTypesOK := S.fieldTypesOK, argTypesOK := D.argTypesOK,
    interfacesOK := S.interfacesOK, unionMembersOK := S.unionMembersOK, rootsExist := S.rootsExist,
    directivesDeclared := D.directivesDeclared, directiveLocationsOK := D.directiveLocationsOK,
    requiredArgsSupplied := D.requiredArgsSupplied, implementsFieldsOK := I,
    implementsAncestorsOK := S.implementsAncestorsOK, nonEmpty := S.nonEmpty,
    typeNamesNotReserved := S.typeNamesNotReserved, fieldNamesNotReserved := S.fieldNamesNotReserved,
    argNamesNotReserved := D.argNamesNotReserved, directiveNamesNotReserved := D.directiveNamesNotReserved,
    enumValueNamesNotReserved := S.enumValueNamesNotReserved, singleSchemaDef := S.singleSchemaDef,
    extensionKindsMatch := S.extensionKindsMatch, enumValuesNotLiterals := S.enumValuesNotLiterals,
    directiveArgsDeclared := D.directiveArgsDeclared, noSelfReference := D.noSelfReference,
    appliedNamesNotReserved := D.appliedNamesNotReserved, rootOperationTypesOnce := S.rootOperationTypesOnce,
    rootTypesAreObjects := S.rootTypesAreObjects }

end Gql.Load
