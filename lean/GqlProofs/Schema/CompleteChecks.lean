import GqlProofs.Schema.CompleteBuild
/-
  Completeness of the loader, part 2: in the state built from a well-formed merged document every
  validator passes.  One lemma per check of validator/schema.go, named `load_<step>_ok_of_wf`; each
  error site is discharged by the clause of `Spec.WellFormed` quoted in its comment.
-/
set_option linter.unusedSimpArgs false
namespace Gql.Load
open Gql

/-- a well-formed document together with the state the loader built from it; `dirEq`: the directive
    definition the specification regards as in force is the one in `schema.Directives` (true in a merged
    document, `spec_directive_eq_of_merged`, and when no directive name is declared twice, `spec_directive_eq`) -/
structure WfState (sd : SchemaDoc) (st : LState) : Prop where
  wf : Spec.WellFormed sd
  hext : ∀ e ∈ sd.extensions, e.builtIn = false
  built : buildState sd = .ok st
  dirEq : ∀ n, (Spec.TypeSystem.ofDoc sd).directive? n = st.directives.lookup n

section
variable {sd : SchemaDoc} {st : LState}

theorem WfState.typeEq (W : WfState sd st) (n : Name) : (Spec.TypeSystem.ofDoc sd).type? n = st.types.lookup n :=
  spec_type_eq W.built W.hext n

theorem WfState.typesInv (W : WfState sd st) : KeysInv (·.name) st.types := (buildState_inv W.built).1
theorem WfState.dirsInv (W : WfState sd st) : KeysInv (·.name) st.directives := (buildState_inv W.built).2.1

theorem WfState.typeIs (W : WfState sd st) {n : Name} {p : DefKind → Bool}
    (h : (Spec.TypeSystem.ofDoc sd).typeIs n p = true) : ∃ d, st.types.lookup n = some d ∧ p d.kind = true := by
  rw [spec_typeIs_eq W.built W.hext] at h
  cases hl : st.types.lookup n with
  | none => rw [hl] at h; cases h
  | some d => rw [hl] at h; exact ⟨d, rfl, h⟩

theorem WfState.mem_spec (W : WfState sd st) {p : Name × Definition} (hp : p ∈ st.types) :
    p.2 ∈ (Spec.TypeSystem.ofDoc sd).types ∧ p.2.name = p.1 :=
  state_types_mem_spec W.built W.hext hp

/- ------------------------------------------------------------------ validateName -/

theorem validateName_ok {p : Pos} {n : Name} (h : Spec.reserved n = false) : validateName p n = .pass := by
  unfold validateName
  rw [← reserved_eq, h]
  rfl

/- ------------------------------------------------------------------ validateDirectives -/

/-- **validateDirectives (schema.go:505–549)**, one applied directive.  Error sites and the clauses that
    exclude them: reserved name — `appliedNamesNotReserved`; "cannot refer to itself" — `noSelfReference`;
    "Undefined directive" — `directivesDeclared`; "is not applicable on" — `directiveLocationsOK`;
    "Undefined argument" — `directiveArgsDeclared`; "cannot be null" — `requiredArgsSupplied`. -/
theorem load_validateDirectiveUse_ok_of_wf (W : WfState sd st) {dir : Directive} {loc : Bytes} {cur : Option Name}
    (hu : (dir, loc, cur) ∈ (Spec.TypeSystem.ofDoc sd).directiveUses) :
    validateDirectiveUse st loc cur dir = .pass := by
  have h1 := W.wf.appliedNamesNotReserved
  have h2 := W.wf.noSelfReference
  have h3 := W.wf.directivesDeclared
  have h4 := W.wf.directiveLocationsOK
  have h5 := W.wf.directiveArgsDeclared
  have h6 := W.wf.requiredArgsSupplied
  simp only [Spec.appliedNamesNotReserved, List.all_eq_true] at h1
  simp only [Spec.noSelfReference, List.all_eq_true] at h2
  simp only [Spec.directivesDeclared, List.all_eq_true] at h3
  simp only [Spec.directiveLocationsOK, List.all_eq_true] at h4
  simp only [Spec.directiveArgsDeclared, List.all_eq_true] at h5
  simp only [Spec.requiredArgsSupplied, List.all_eq_true] at h6
  have h1 := h1 _ hu
  have h2 := h2 _ hu
  have h3 := h3 _ hu
  have h4 := h4 _ hu
  have h5 := h5 _ hu
  have h6 := h6 _ hu
  simp only [Bool.not_eq_true'] at h1
  simp only [bne_iff_ne, ne_eq] at h2
  rw [W.dirEq] at h3 h4 h5 h6
  cases hl : st.directives.lookup dir.name with
  | none => rw [hl] at h3; cases h3
  | some dd =>
    simp only [hl, List.all_eq_true] at h4 h5 h6
    unfold validateDirectiveUse
    simp only [hl, andThen_eq_pass, each_eq_pass]
    refine ⟨validateName_ok h1, ?_, ?_, ?_, ?_⟩
    · cases cur with
      | none => rfl
      | some c =>
        have : (dir.name == c) = false := by
          simp only [beq_eq_false_iff_ne, ne_eq]
          intro e; apply h2; rw [e]
        simp [this]
    · simp only [h4, ↓reduceIte]
    · intro arg harg
      have := h5 arg harg
      unfold argDefForName
      cases hf : dd.args.find? (fun a => a.name == arg.name) with
      | none => rw [hf] at this; cases this
      | some _ => rfl
    · intro sa hsa
      have := h6 sa hsa
      cases hreq : (sa.type.nonNull && sa.default.isNone) with
      | false => simp
      | true =>
        simp only [hreq, Bool.not_true, Bool.false_or] at this
        simp only [↓reduceIte]
        unfold argForName
        cases hf : dir.args.find? (fun a => a.name == sa.name) with
        | none => rw [hf] at this; cases this
        | some x =>
          rw [hf] at this
          simp only [bne_iff_ne, ne_eq] at this
          simp [this]

theorem load_validateDirectives_ok_of_wf (W : WfState sd st) {dirs : List Directive} {loc : Bytes} {cur : Option Name}
    (hu : ∀ x ∈ dirs, (x, loc, cur) ∈ (Spec.TypeSystem.ofDoc sd).directiveUses) :
    validateDirectives st dirs loc cur = .pass := by
  unfold validateDirectives
  rw [each_eq_pass]
  exact fun x hx => load_validateDirectiveUse_ok_of_wf W (hu x hx)

/- where the specification enumerates the applied directives -/

theorem uses_typeDirs {d : Definition} (hd : d ∈ (Spec.TypeSystem.ofDoc sd).types) {x : Directive} (hx : x ∈ d.dirs) :
    (x, Spec.kindLocation d.kind, none) ∈ (Spec.TypeSystem.ofDoc sd).directiveUses := by
  unfold Spec.TypeSystem.directiveUses
  apply List.mem_append_left; apply List.mem_append_left
  refine List.mem_flatMap.mpr ⟨d, hd, ?_⟩
  apply List.mem_append_left; apply List.mem_append_left
  exact List.mem_map.mpr ⟨x, hx, rfl⟩

theorem uses_fieldDirs {d : Definition} (hd : d ∈ (Spec.TypeSystem.ofDoc sd).types) {f : FieldDef} (hf : f ∈ d.fields)
    {x : Directive} (hx : x ∈ f.dirs) :
    (x, (if d.kind = .inputObject then str "INPUT_FIELD_DEFINITION" else str "FIELD_DEFINITION"), none) ∈
      (Spec.TypeSystem.ofDoc sd).directiveUses := by
  unfold Spec.TypeSystem.directiveUses
  apply List.mem_append_left; apply List.mem_append_left
  refine List.mem_flatMap.mpr ⟨d, hd, ?_⟩
  apply List.mem_append_left; apply List.mem_append_right
  refine List.mem_flatMap.mpr ⟨f, hf, ?_⟩
  apply List.mem_append_left
  exact List.mem_map.mpr ⟨x, hx, rfl⟩

theorem uses_fieldArgDirs {d : Definition} (hd : d ∈ (Spec.TypeSystem.ofDoc sd).types) {f : FieldDef} (hf : f ∈ d.fields)
    {a : ArgDef} (ha : a ∈ f.args) {x : Directive} (hx : x ∈ a.dirs) :
    (x, str "ARGUMENT_DEFINITION", none) ∈ (Spec.TypeSystem.ofDoc sd).directiveUses := by
  unfold Spec.TypeSystem.directiveUses
  apply List.mem_append_left; apply List.mem_append_left
  refine List.mem_flatMap.mpr ⟨d, hd, ?_⟩
  apply List.mem_append_left; apply List.mem_append_right
  refine List.mem_flatMap.mpr ⟨f, hf, ?_⟩
  apply List.mem_append_right
  refine List.mem_flatMap.mpr ⟨a, ha, ?_⟩
  exact List.mem_map.mpr ⟨x, hx, rfl⟩

theorem uses_enumValueDirs {d : Definition} (hd : d ∈ (Spec.TypeSystem.ofDoc sd).types) (hk : d.kind = .enum)
    {v : EnumValDef} (hv : v ∈ d.enumValues) {x : Directive} (hx : x ∈ v.dirs) :
    (x, str "ENUM_VALUE", none) ∈ (Spec.TypeSystem.ofDoc sd).directiveUses := by
  unfold Spec.TypeSystem.directiveUses
  apply List.mem_append_left; apply List.mem_append_left
  refine List.mem_flatMap.mpr ⟨d, hd, ?_⟩
  apply List.mem_append_right
  refine List.mem_flatMap.mpr ⟨v, by simp [hk, hv], ?_⟩
  exact List.mem_map.mpr ⟨x, hx, rfl⟩

theorem uses_schemaDirs {s : SchemaDef} (hs : s ∈ sd.schema ++ sd.schemaExt) {x : Directive} (hx : x ∈ s.dirs) :
    (x, str "SCHEMA", none) ∈ (Spec.TypeSystem.ofDoc sd).directiveUses := by
  unfold Spec.TypeSystem.directiveUses
  apply List.mem_append_left; apply List.mem_append_right
  refine List.mem_flatMap.mpr ⟨s, hs, ?_⟩
  exact List.mem_map.mpr ⟨x, hx, rfl⟩

theorem uses_directiveArgDirs {dd : DirectiveDef} (hdd : dd ∈ sd.directives) {a : ArgDef} (ha : a ∈ dd.args)
    {x : Directive} (hx : x ∈ a.dirs) :
    (x, str "ARGUMENT_DEFINITION", some dd.name) ∈ (Spec.TypeSystem.ofDoc sd).directiveUses := by
  unfold Spec.TypeSystem.directiveUses
  apply List.mem_append_right
  refine List.mem_flatMap.mpr ⟨dd, hdd, ?_⟩
  refine List.mem_flatMap.mpr ⟨a, ha, ?_⟩
  exact List.mem_map.mpr ⟨x, hx, rfl⟩

theorem argDefs_field {d : Definition} (hd : d ∈ (Spec.TypeSystem.ofDoc sd).types) {f : FieldDef} (hf : f ∈ d.fields)
    {a : ArgDef} (ha : a ∈ f.args) : a ∈ (Spec.TypeSystem.ofDoc sd).argDefs := by
  simp only [Spec.TypeSystem.argDefs, List.mem_append, List.mem_flatMap]
  exact Or.inl ⟨d, hd, f, hf, ha⟩

theorem argDefs_directive {dd : DirectiveDef} (hdd : dd ∈ sd.directives) {a : ArgDef} (ha : a ∈ dd.args) :
    a ∈ (Spec.TypeSystem.ofDoc sd).argDefs := by
  simp only [Spec.TypeSystem.argDefs, List.mem_append, List.mem_flatMap]
  exact Or.inr ⟨dd, hdd, ha⟩

/- ------------------------------------------------------------------ validateArgs -/

/-- **validateArgs (schema.go:481–503)**.  Reserved argument name — `argNamesNotReserved`; "Undefined
    type" — `argTypesOK`; "cannot use … as argument … because … is not a valid input type" —
    `argTypesOK`; the argument's directives — the directive clauses. -/
theorem load_validateArgs_ok_of_wf (W : WfState sd st) {args : List ArgDef} {cur : Option Name}
    (ha : ∀ a ∈ args, a ∈ (Spec.TypeSystem.ofDoc sd).argDefs)
    (hu : ∀ a ∈ args, ∀ x ∈ a.dirs, (x, str "ARGUMENT_DEFINITION", cur) ∈ (Spec.TypeSystem.ofDoc sd).directiveUses) :
    validateArgs st args cur = .pass := by
  have h1 := W.wf.argNamesNotReserved
  have h2 := W.wf.argTypesOK
  simp only [Spec.argNamesNotReserved, List.all_eq_true, Bool.not_eq_true'] at h1
  simp only [Spec.argTypesOK, List.all_eq_true] at h2
  unfold validateArgs
  rw [each_eq_pass]
  intro a haa
  obtain ⟨d, hl, hk⟩ := W.typeIs (h2 a (ha a haa))
  rw [isInputKind_eq] at hk
  simp only [andThen_eq_pass]
  refine ⟨validateName_ok (h1 a (ha a haa)), ?_, ?_, load_validateDirectives_ok_of_wf W (hu a haa)⟩
  · simp [validateTypeRef, LState.type?, hl]
  · simp [LState.type?, hl, hk]

/- ------------------------------------------------------------------ isCovariant -/

theorem sameType_render : ∀ {a b : GType}, Spec.sameType a b = true → a.render = b.render := by
  intro a
  induction a with
  | named n nn p =>
    intro b h
    cases b with
    | named m mn q =>
      simp only [Spec.sameType, Bool.and_eq_true, beq_iff_eq] at h
      simp [GType.render, h.1, h.2]
    | list e mn q => simp [Spec.sameType] at h
  | list e nn p ih =>
    intro b h
    cases b with
    | named m mn q => simp [Spec.sameType] at h
    | list e' mn q =>
      simp only [Spec.sameType, Bool.and_eq_true, beq_iff_eq] at h
      simp [GType.render, ih h.1, h.2]

theorem WfState.noNil (W : WfState sd st) : NoNilPossible st := noNil_of_buildState W.built

/-- membership in `PossibleTypes[rn]` from the definitions (the direction completeness needs; no
    validator has run yet) -/
theorem WfState.possible_of (W : WfState sd st) {rn an : Name} {ad rd : Definition}
    (ha : st.types.lookup an = some ad) (hr : st.types.lookup rn = some rd)
    (hka : ad.kind = .object ∨ ad.kind = .interface)
    (hcase : (rd.kind = .union ∧ an ∈ rd.types) ∨ (rd.kind = .interface ∧ rn ∈ ad.interfaces)) :
    some an ∈ entriesOf st.possible rn := by
  have e1 : st.possible = (buildRelations st.types).1 := congrArg Prod.fst (buildState_inv W.built).2.2
  rw [e1, mem_possible_iff]
  have hma := mem_of_lookup ha
  have hmr := mem_of_lookup hr
  have hna : ad.name = an := W.typesInv.2 _ hma
  have hnr : rd.name = rn := W.typesInv.2 _ hmr
  rcases hcase with ⟨hku, hmem⟩ | ⟨_, hmem⟩
  · exact ⟨(rn, rd), hmr, mem_possPushes.mpr (Or.inl ⟨hku, hnr.symm, rfl, an, hmem, (ptrOf_self W.typesInv ha).symm⟩)⟩
  · exact ⟨(an, ad), hma, mem_possPushes.mpr (Or.inr (Or.inl ⟨hka, hmem, congrArg some hna.symm⟩))⟩

/-- the specification's IsValidImplementationFieldType implies the loader's `isCovariant` -/
theorem load_isCovariant_ok_of_wf (W : WfState sd st) :
    ∀ (r a : GType), Spec.covariant (Spec.TypeSystem.ofDoc sd) r a = true → isCovariant st r a = some true := by
  intro r
  induction r with
  | named rn rnn rp =>
    intro a h
    cases a with
    | named an ann ap =>
      simp only [Spec.covariant, Bool.and_eq_true, Bool.or_eq_true, Bool.not_eq_true', beq_iff_eq] at h
      obtain ⟨hnn, hrest⟩ := h
      unfold isCovariant
      have h1 : (rnn && !(GType.named an ann ap).nonNull) = false := by
        simp only [GType.nonNull]
        rcases hnn with hnn | hnn <;> simp [hnn]
      simp only [h1, Bool.false_eq_true, ↓reduceIte, namedOf]
      by_cases h2 : rn = an
      · simp [h2]
      · have h2' : (rn == an) = false := by simp [h2]
        simp only [h2', Bool.false_eq_true, ↓reduceIte]
        rcases hrest with hrest | hrest
        · exact absurd hrest h2
        · rw [W.typeEq, W.typeEq] at hrest
          have hnn' : ∀ e ∈ entriesOf st.possible rn, e ≠ none := by
            intro e he
            unfold entriesOf at he
            cases hl : st.possible.lookup rn with
            | none => simp [hl] at he
            | some vs => rw [hl] at he; exact W.noNil (rn, vs) (mem_of_lookup hl) e he
          show possibleHas (entriesOf st.possible rn) an = _
          rw [possibleHas_of_noNil hnn']
          cases hla : st.types.lookup an with
          | none => simp [hla] at hrest
          | some ad =>
            cases hlr : st.types.lookup rn with
            | none => simp [hla, hlr] at hrest
            | some rd =>
              simp only [hla, hlr, Bool.and_eq_true, Bool.or_eq_true, beq_iff_eq, List.contains_iff_mem] at hrest
              have := W.possible_of hla hlr hrest.1 hrest.2
              simp [this]
    | list ae ann ap => simp [Spec.covariant] at h
  | list re rnn rp ih =>
    intro a h
    cases a with
    | named an ann ap => simp [Spec.covariant] at h
    | list ae ann ap =>
      simp only [Spec.covariant, Bool.and_eq_true, Bool.or_eq_true, Bool.not_eq_true'] at h
      simp only [isCovariant]
      have h1 : (rnn && !ann) = false := by
        rcases h.1 with hnn | hnn <;> simp [hnn]
      simp only [h1, Bool.false_eq_true, ↓reduceIte]
      exact ih ae h.2

/- ------------------------------------------------------------------ validateImplements -/

/-- **validateImplements (schema.go:390–438) and validateTypeImplementsAncestors (schema.go:441–461)**.
    "Undefined type" / "is a non interface type" — `interfacesOK`; "must have a field called",
    "must have type", "must have the same arguments but it is missing / has the wrong type", "any additional
    arguments … must be optional" — `implementsFieldsOK`; "must implement … because it is implemented by"
    and "would create a circular reference" — `implementsAncestorsOK`. -/
theorem load_validateImplements_ok_of_wf (W : WfState sd st) {d : Definition}
    (hd : d ∈ (Spec.TypeSystem.ofDoc sd).types) {i : Name} (hi : i ∈ d.interfaces) :
    validateImplements st d i = .pass := by
  have h1 := W.wf.interfacesOK
  have h2 := W.wf.implementsFieldsOK
  have h3 := W.wf.implementsAncestorsOK
  simp only [Spec.interfacesOK, List.all_eq_true] at h1
  simp only [Spec.implementsFieldsOK, List.all_eq_true] at h2
  simp only [Spec.implementsAncestorsOK, List.all_eq_true] at h3
  obtain ⟨intf, hl, hk⟩ := W.typeIs (h1 d hd i hi)
  have hk : intf.kind = .interface := by simpa using hk
  have h2 := h2 d hd i hi
  have h3 := h3 d hd i hi
  rw [W.typeEq, hl] at h2 h3
  simp only [hk, bne_self_eq_false, Bool.false_or, List.all_eq_true] at h2 h3
  unfold validateImplements
  simp only [LState.type?, hl, hk, bne_self_eq_false, Bool.false_eq_true, ↓reduceIte, andThen_eq_pass, each_eq_pass]
  refine ⟨?_, ?_⟩
  · intro rf hrf
    have hf := h2 rf hrf
    unfold validateImplementsField fieldForName
    cases hfind : d.fields.find? (fun f => f.name == rf.name) with
    | none => rw [hfind] at hf; cases hf
    | some f =>
      rw [hfind] at hf
      simp only [Bool.and_eq_true, List.all_eq_true] at hf
      obtain ⟨⟨hcov, hargs⟩, hextra⟩ := hf
      simp only [andThen_eq_pass, each_eq_pass]
      refine ⟨?_, ?_, ?_⟩
      · rw [load_isCovariant_ok_of_wf W _ _ hcov]
      · intro ra hra
        have := hargs ra hra
        unfold argDefForName
        cases hfa : f.args.find? (fun a => a.name == ra.name) with
        | none => rw [hfa] at this; cases this
        | some fa =>
          rw [hfa] at this
          simp [sameType_render this]
      · intro fa hfa
        have := hextra fa hfa
        unfold argDefForName
        cases hx : rf.args.find? (fun a => a.name == fa.name) with
        | some _ => simp
        | none =>
          rw [hx] at this
          simp only [Option.isSome_none, Bool.false_or, Bool.not_eq_true'] at this
          simp only [Option.isNone_none, Bool.true_and, this, Bool.false_eq_true, ↓reduceIte]
  · unfold validateTypeImplementsAncestors
    simp only [LState.type?, hl, each_eq_pass]
    intro j hj
    simp only [h3 j hj, ↓reduceIte]

/- ------------------------------------------------------------------ the kind switch -/

/-- **validateDefinition, `switch def.Kind` (schema.go:307–357)**.  "must define one or more fields /
    unique enum values / input fields" — `nonEmpty`; "field must be one of …" — `fieldTypesOK`
    (output types on objects and interfaces, input types on input objects); "non-enum value" —
    `enumValuesNotLiterals`; reserved enum value name — `enumValueNamesNotReserved`; enum value
    directives — the directive clauses. -/
theorem load_validateKindSpecific_ok_of_wf (W : WfState sd st) {d : Definition}
    (hd : d ∈ (Spec.TypeSystem.ofDoc sd).types) : validateKindSpecific st d = .pass := by
  have h1 := W.wf.nonEmpty
  have h2 := W.wf.fieldTypesOK
  have h3 := W.wf.enumValuesNotLiterals
  have h4 := W.wf.enumValueNamesNotReserved
  simp only [Spec.nonEmpty, List.all_eq_true] at h1
  simp only [Spec.fieldTypesOK, List.all_eq_true] at h2
  simp only [Spec.enumValuesNotLiterals, List.all_eq_true] at h3
  simp only [Spec.enumValueNamesNotReserved, List.all_eq_true] at h4
  have h1 := h1 d hd
  have h2 := h2 d hd
  have h3 := h3 d hd
  have h4 := h4 d hd
  unfold validateKindSpecific
  cases hk : d.kind <;> simp only [hk] at h1 h2 h3 h4 ⊢
  case object =>
    simp only [Bool.not_eq_true'] at h1
    simp only [h1, Bool.false_eq_true, ↓reduceIte, each_eq_pass]
    intro f hf
    obtain ⟨t, hl, hkk⟩ := W.typeIs (h2 f hf)
    simp only [Spec.fieldPosition] at hkk
    rw [isOutputKind_eq] at hkk
    simp [LState.type?, hl, hkk]
  case interface =>
    simp only [Bool.not_eq_true'] at h1
    simp only [h1, Bool.false_eq_true, ↓reduceIte, each_eq_pass]
    intro f hf
    obtain ⟨t, hl, hkk⟩ := W.typeIs (h2 f hf)
    simp only [Spec.fieldPosition] at hkk
    rw [isOutputKind_eq] at hkk
    simp [LState.type?, hl, hkk]
  case enum =>
    simp only [Bool.not_eq_true'] at h1
    simp only [bne_self_eq_false, Bool.false_or, List.all_eq_true, Bool.not_eq_true'] at h3 h4
    simp only [h1, Bool.false_eq_true, ↓reduceIte, each_eq_pass, andThen_eq_pass]
    intro v hv
    refine ⟨?_, validateName_ok (h4 v hv), ?_⟩
    · have := h3 v hv
      have e : nonEnumNames = [str "true", str "false", str "null"] := rfl
      rw [e, this]
      rfl
    · exact load_validateDirectives_ok_of_wf W (fun x hx => uses_enumValueDirs hd hk hv hx)
  case inputObject =>
    simp only [Bool.not_eq_true'] at h1
    simp only [h1, Bool.false_eq_true, ↓reduceIte, each_eq_pass]
    intro f hf
    obtain ⟨t, hl, hkk⟩ := W.typeIs (h2 f hf)
    simp only [Spec.fieldPosition] at hkk
    rw [isInputKind_eq] at hkk
    simp [LState.type?, hl, hkk]

/- ------------------------------------------------------------------ unique field names -/

/-- **"Field %s.%s can only be defined once." (schema.go:359–367)** — `uniqueFieldNames` -/
theorem load_checkUniqueFields_ok_of_wf {dn : Name} {fs : List FieldDef}
    (h : Spec.pairwiseDistinct (fs.map (·.name)) = true) : checkUniqueFields dn fs = .pass := by
  induction fs with
  | nil => rfl
  | cons f rest ih =>
    simp only [List.map_cons, Spec.pairwiseDistinct, Bool.and_eq_true, Bool.not_eq_true'] at h
    simp only [checkUniqueFields, andThen_eq_pass, each_eq_pass]
    refine ⟨?_, ih h.2⟩
    intro f2 hf2
    have : (f.name == f2.name) = false := by
      simp only [beq_eq_false_iff_ne, ne_eq]
      intro e
      have hm : f.name ∈ rest.map (·.name) := by rw [e]; exact List.mem_map.mpr ⟨f2, hf2, rfl⟩
      have := List.contains_iff_mem.mpr hm
      rw [h.1] at this
      cases this
    simp [this]

/- ------------------------------------------------------------------ validateDefinition -/

/-- **validateDefinition (schema.go:269–388)** passes on every merged definition.  Besides the parts
    above: reserved field name — `fieldNamesNotReserved`; "Undefined type" of a field — `fieldTypesOK`;
    union member "Undefined type" / "must be OBJECT" — `unionMembersOK`; reserved type name (unless built
    in) — `typeNamesNotReserved`; the directives on fields and on the definition — the directive clauses. -/
theorem load_validateDefinition_ok_of_wf (W : WfState sd st) {d : Definition}
    (hd : d ∈ (Spec.TypeSystem.ofDoc sd).types) : validateDefinition st d = .pass := by
  have h1 := W.wf.fieldNamesNotReserved
  have h2 := W.wf.fieldTypesOK
  have h3 := W.wf.unionMembersOK
  have h4 := W.wf.uniqueFieldNames
  have h5 := W.wf.typeNamesNotReserved
  simp only [Spec.fieldNamesNotReserved, List.all_eq_true, Bool.not_eq_true'] at h1
  simp only [Spec.fieldTypesOK, List.all_eq_true] at h2
  simp only [Spec.unionMembersOK, List.all_eq_true] at h3
  simp only [Spec.uniqueFieldNames, List.all_eq_true] at h4
  simp only [Spec.typeNamesNotReserved, List.all_eq_true, Bool.or_eq_true, Bool.not_eq_true'] at h5
  unfold validateDefinition
  simp only [andThen_eq_pass, each_eq_pass]
  refine ⟨?_, ?_, fun i hi => load_validateImplements_ok_of_wf W hd hi, load_validateKindSpecific_ok_of_wf W hd,
    load_checkUniqueFields_ok_of_wf (h4 d hd), ?_, ?_⟩
  · intro f hf
    obtain ⟨t, hl, _⟩ := W.typeIs (h2 d hd f hf)
    refine ⟨validateName_ok (h1 d hd f hf), ?_, ?_, ?_⟩
    · simp [validateTypeRef, LState.type?, hl]
    · exact load_validateArgs_ok_of_wf W (fun a ha => argDefs_field hd hf ha)
        (fun a ha x hx => uses_fieldArgDirs hd hf ha hx)
    · exact load_validateDirectives_ok_of_wf W (fun x hx => uses_fieldDirs hd hf hx)
  · intro m hm
    obtain ⟨t, hl, hk⟩ := W.typeIs (h3 d hd m hm)
    have hk : t.kind = .object := by simpa using hk
    simp [LState.type?, hl, hk]
  · rcases h5 d hd with hb | hr
    · simp [hb]
    · cases hb : d.builtIn with
      | true => simp
      | false => simpa using validateName_ok hr
  · rw [← kindLocation_eq]
    exact load_validateDirectives_ok_of_wf W (fun x hx => uses_typeDirs hd hx)

/-- **validateTypeDefinitions (schema.go:196–209)** -/
theorem load_validateTypeDefinitions_ok_of_wf (W : WfState sd st) : validateTypeDefinitions st = .pass := by
  unfold validateTypeDefinitions
  rw [each_eq_pass]
  intro k hk
  rw [mem_sortNames, ← lookup_isSome_iff_mem_keys] at hk
  cases hl : st.types.lookup k with
  | none => rw [hl] at hk; cases hk
  | some d =>
    simp only [LState.type?, hl]
    exact load_validateDefinition_ok_of_wf W (W.mem_spec (mem_of_lookup hl)).1

/- ------------------------------------------------------------------ directive definitions -/

/-- **validateDirective (schema.go:251–267) / validateDirectiveDefinitions (schema.go:211–224)**.
    Reserved directive name — `directiveNamesNotReserved`; the arguments — `load_validateArgs_ok_of_wf`
    (with "cannot refer to itself" — `noSelfReference`). -/
theorem load_validateDirectiveDefinitions_ok_of_wf (W : WfState sd st) : validateDirectiveDefinitions st = .pass := by
  have h1 := W.wf.directiveNamesNotReserved
  simp only [Spec.directiveNamesNotReserved, List.all_eq_true, Bool.not_eq_true'] at h1
  unfold validateDirectiveDefinitions
  rw [each_eq_pass]
  intro k hk
  rw [mem_sortNames, ← lookup_isSome_iff_mem_keys] at hk
  cases hl : st.directives.lookup k with
  | none => rw [hl] at hk; cases hk
  | some dd =>
    have hdd : dd ∈ sd.directives := state_directives_mem W.built _ (mem_of_lookup hl)
    simp only [validateDirectiveDef, andThen_eq_pass]
    exact ⟨validateName_ok (h1 dd hdd),
      load_validateArgs_ok_of_wf W (fun a ha => argDefs_directive hdd ha) (fun a ha x hx => uses_directiveArgDirs hdd ha hx)⟩

end
end Gql.Load
