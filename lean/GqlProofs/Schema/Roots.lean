import GqlProofs.Schema.Bridge
/-
  The last check of the loader: a root operation type is an object type
  (`checkRootKinds`, the repair "a root operation type must be an object type"), and its
  specification `Spec.rootIsObject` — both directions, stated on the state and the roots the two
  `applySchemaDefs` passes produce, so that soundness, completeness and the loaded-schema clause
  `Spec.rootTypesAreObjects` all use the same lemmas.
-/
set_option linter.unusedSimpArgs false
namespace Gql.Load
open Gql

/- ------------------------------------------------------------------ the check -/

theorem checkRootKind_pass_iff {st : LState} {op : Bytes} {root : Option Name} :
    checkRootKind st op root = .pass ↔ ∀ n d, root = some n → st.types.lookup n = some d → d.kind = .object := by
  unfold checkRootKind LState.type?
  cases root with
  | none => simp
  | some n =>
    simp only [Option.some.injEq]
    cases hl : st.types.lookup n with
    | none =>
      simp only
      refine ⟨fun _ n' d' e1 e2 => ?_, fun _ => trivial⟩
      subst e1; rw [hl] at e2; cases e2
    | some d =>
      simp only
      constructor
      · intro h n' d' e1 e2
        subst e1
        rw [hl] at e2
        simp only [Option.some.injEq] at e2
        subst e2
        split at h
        · simp at h
        · rename_i hk; simpa using hk
      · intro h
        have := h n d rfl hl
        simp [this]

theorem rootOf_query (r : Roots) : rootOf r opQuery = r.query := by simp [rootOf]
theorem rootOf_mutation (r : Roots) : rootOf r opMutation = r.mutation := by simp [rootOf, opMutation_ne_opQuery]
theorem rootOf_subscription (r : Roots) : rootOf r opSubscription = r.subscription := by
  simp [rootOf, opSubscription_ne_opQuery, opSubscription_ne_opMutation]

theorem checkRootKinds_pass_iff {st : LState} {r : Roots} :
    checkRootKinds st r = .pass ↔
      ∀ o, isRootOp o = true → ∀ n d, rootOf r o = some n → st.types.lookup n = some d → d.kind = .object := by
  unfold checkRootKinds
  simp only [andThen_eq_pass, checkRootKind_pass_iff]
  constructor
  · rintro ⟨h1, h2, h3⟩ o ho n d hr hl
    simp only [isRootOp, Bool.or_eq_true, beq_iff_eq] at ho
    rcases ho with (rfl | rfl) | rfl
    · rw [rootOf_query] at hr; exact h1 n d hr hl
    · rw [rootOf_mutation] at hr; exact h2 n d hr hl
    · rw [rootOf_subscription] at hr; exact h3 n d hr hl
  · intro h
    refine ⟨fun n d hr hl => h opQuery (by decide) n d (by rw [rootOf_query]; exact hr) hl,
      fun n d hr hl => h opMutation (by decide) n d (by rw [rootOf_mutation]; exact hr) hl,
      fun n d hr hl => h opSubscription (by decide) n d (by rw [rootOf_subscription]; exact hr) hl⟩

/-- default name of the root type of an operation -/
def defaultRootName (o : Bytes) : Name :=
  if o == opQuery then nameQuery else if o == opMutation then nameMutation else nameSubscription

/-- the final root of an operation: the declared one, else (without a schema definition) the type with
    the default name -/
theorem rootOf_finalRoots (sd : SchemaDoc) (st : LState) (r1 : Roots) {o : Bytes} (ho : isRootOp o = true) :
    rootOf (finalRoots sd st r1) o =
      if sd.schema.isEmpty then inferRoot st.types (rootOf r1 o) (defaultRootName o) else rootOf r1 o := by
  unfold finalRoots
  split
  · simp only [isRootOp, Bool.or_eq_true, beq_iff_eq] at ho
    rcases ho with (rfl | rfl) | rfl
    · simp [rootOf_query, inferRoots, defaultRootName]
    · simp [rootOf_mutation, inferRoots, defaultRootName, opMutation_ne_opQuery]
    · simp [rootOf_subscription, inferRoots, defaultRootName, opSubscription_ne_opQuery, opSubscription_ne_opMutation]
  · rfl

/- ------------------------------------------------------------------ what a successful setRoots leaves -/

/-- a root that is set stays -/
theorem setRoots_persist {types : List (Name × Definition)} {l : List OpTypeDef} {r r' : Roots}
    (h : setRoots types l r = .ok r') {o : Bytes} {n : Name} (hr : rootOf r o = some n) : rootOf r' o = some n := by
  induction l generalizing r with
  | nil => simp only [setRoots, Except.ok.injEq] at h; subst h; exact hr
  | cons e rest ih =>
    obtain ⟨d, _, r2, h2, hnone, hstep⟩ := setRoots_cons_ok h
    apply ih h2
    rw [hstep]
    cases hc : (isRootOp e.op && o == e.op) with
    | false => simpa using hr
    | true =>
      simp only [Bool.and_eq_true, beq_iff_eq] at hc
      rw [hc.2, hnone hc.1] at hr
      cases hr

/-- every entry point of a root operation becomes the root of that operation -/
theorem setRoots_sets {types : List (Name × Definition)} {l : List OpTypeDef} {r r' : Roots}
    (h : setRoots types l r = .ok r') :
    ∀ e ∈ l, isRootOp e.op = true → ∃ d, types.lookup e.type = some d ∧ rootOf r' e.op = some d.name := by
  induction l generalizing r with
  | nil => simp
  | cons e rest ih =>
    obtain ⟨d, hd, r2, h2, _, hstep⟩ := setRoots_cons_ok h
    intro e' he' ho
    simp only [List.mem_cons] at he'
    rcases he' with he' | he'
    · subst he'
      refine ⟨d, hd, setRoots_persist h2 ?_⟩
      rw [hstep]; simp [ho]
    · exact ih h2 e' he' ho

/-- a root is set only by an entry point of its operation -/
theorem setRoots_origin {types : List (Name × Definition)} {l : List OpTypeDef} {r r' : Roots}
    (h : setRoots types l r = .ok r') {o : Bytes} {n : Name} (hr : rootOf r' o = some n) :
    rootOf r o = some n ∨ ∃ e ∈ l, e.op = o ∧ ∃ d, types.lookup e.type = some d ∧ n = d.name := by
  induction l generalizing r with
  | nil => simp only [setRoots, Except.ok.injEq] at h; subst h; exact Or.inl hr
  | cons e rest ih =>
    obtain ⟨d, hd, r2, h2, _, hstep⟩ := setRoots_cons_ok h
    rcases ih h2 with h3 | ⟨e', he', h4⟩
    · rw [hstep] at h3
      cases hc : (isRootOp e.op && o == e.op) with
      | false => rw [hc] at h3; exact Or.inl (by simpa using h3)
      | true =>
        rw [hc] at h3
        simp only [Bool.and_eq_true, beq_iff_eq] at hc
        simp only [↓reduceIte, Option.some.injEq] at h3
        exact Or.inr ⟨e, by simp, hc.2.symm, d, hd, h3.symm⟩
    · exact Or.inr ⟨e', by simp [he'], h4⟩

theorem applySchemaDefs_cons_ok {st : LState} {s : SchemaDef} {rest : List SchemaDef} {r r' : Roots}
    {acc acc' : List Directive} (h : applySchemaDefs st (s :: rest) r acc = .ok r' acc') :
    ∃ r1 acc1, setRoots st.types s.opTypes r = .ok r1 ∧ applySchemaDefs st rest r1 acc1 = .ok r' acc' := by
  simp only [applySchemaDefs] at h
  split at h
  · rename_i r1 acc1 h1
    refine ⟨r1, acc1, ?_, h⟩
    unfold applySchemaDef at h1
    split at h1
    · simp at h1
    · rename_i r2 hr2
      split at h1 <;> try (simp at h1)
      obtain ⟨e1, _⟩ := h1
      subst e1; exact hr2
  · rename_i hne
    exact absurd h (hne _ _)

theorem applySchemaDefs_persist {st : LState} {l : List SchemaDef} {r r' : Roots} {acc acc' : List Directive}
    (h : applySchemaDefs st l r acc = .ok r' acc') {o : Bytes} {n : Name} (hr : rootOf r o = some n) :
    rootOf r' o = some n := by
  induction l generalizing r acc with
  | nil => simp only [applySchemaDefs, RootsResult.ok.injEq] at h; rw [← h.1]; exact hr
  | cons s rest ih =>
    obtain ⟨r1, acc1, h1, h2⟩ := applySchemaDefs_cons_ok h
    exact ih h2 (setRoots_persist h1 hr)

theorem applySchemaDefs_sets {st : LState} {l : List SchemaDef} {r r' : Roots} {acc acc' : List Directive}
    (h : applySchemaDefs st l r acc = .ok r' acc') :
    ∀ e ∈ l.flatMap (·.opTypes), isRootOp e.op = true →
      ∃ d, st.types.lookup e.type = some d ∧ rootOf r' e.op = some d.name := by
  induction l generalizing r acc with
  | nil => simp
  | cons s rest ih =>
    obtain ⟨r1, acc1, h1, h2⟩ := applySchemaDefs_cons_ok h
    intro e he ho
    simp only [List.flatMap_cons, List.mem_append] at he
    rcases he with he | he
    · obtain ⟨d, hd, hr⟩ := setRoots_sets h1 e he ho
      exact ⟨d, hd, applySchemaDefs_persist h2 hr⟩
    · exact ih h2 e he ho

theorem applySchemaDefs_origin {st : LState} {l : List SchemaDef} {r r' : Roots} {acc acc' : List Directive}
    (h : applySchemaDefs st l r acc = .ok r' acc') {o : Bytes} {n : Name} (hr : rootOf r' o = some n) :
    rootOf r o = some n ∨ ∃ e ∈ l.flatMap (·.opTypes), e.op = o ∧ ∃ d, st.types.lookup e.type = some d ∧ n = d.name := by
  induction l generalizing r acc with
  | nil => simp only [applySchemaDefs, RootsResult.ok.injEq] at h; rw [h.1]; exact Or.inl hr
  | cons s rest ih =>
    obtain ⟨r1, acc1, h1, h2⟩ := applySchemaDefs_cons_ok h
    rcases ih h2 with h3 | ⟨e, he, h4⟩
    · rcases setRoots_origin h1 h3 with h5 | ⟨e, he, h6⟩
      · exact Or.inl h5
      · exact Or.inr ⟨e, by simp [he], h6⟩
    · exact Or.inr ⟨e, by simp [he], h4⟩

/-- what the schema definition and its extensions leave in the roots -/
structure RootsFrom (sd : SchemaDoc) (st : LState) (r1 : Roots) : Prop where
  sets : ∀ e ∈ (sd.schema ++ sd.schemaExt).flatMap (·.opTypes), isRootOp e.op = true →
    ∃ d, st.types.lookup e.type = some d ∧ rootOf r1 e.op = some d.name
  origin : ∀ o n, rootOf r1 o = some n →
    ∃ e ∈ (sd.schema ++ sd.schemaExt).flatMap (·.opTypes), e.op = o ∧ ∃ d, st.types.lookup e.type = some d ∧ n = d.name

theorem rootsFrom_of_apply {sd : SchemaDoc} {st : LState} {r0 r1 : Roots} {d0 d1 : List Directive}
    (h0 : applySchemaDefs st sd.schema noRoots [] = .ok r0 d0)
    (h1 : applySchemaDefs st sd.schemaExt r0 d0 = .ok r1 d1) : RootsFrom sd st r1 := by
  refine ⟨?_, ?_⟩
  · intro e he ho
    simp only [List.flatMap_append, List.mem_append] at he
    rcases he with he | he
    · obtain ⟨d, hd, hr⟩ := applySchemaDefs_sets h0 e he ho
      exact ⟨d, hd, applySchemaDefs_persist h1 hr⟩
    · exact applySchemaDefs_sets h1 e he ho
  · intro o n hr
    simp only [List.flatMap_append, List.mem_append]
    rcases applySchemaDefs_origin h1 hr with h3 | ⟨e, he, h4⟩
    · rcases applySchemaDefs_origin h0 h3 with h5 | ⟨e, he, h6⟩
      · have : rootOf noRoots o = none := by simp [rootOf, noRoots]
        rw [this] at h5; cases h5
      · exact ⟨e, Or.inl he, h6⟩
    · exact ⟨e, Or.inr he, h4⟩

/- ------------------------------------------------------------------ the check and the clause -/

section
variable {sd : SchemaDoc} {st : LState} {r1 : Roots}

/-- the clause for one operation, read on the state -/
theorem rootIsObject_iff (hty : ∀ n, (Spec.TypeSystem.ofDoc sd).type? n = st.types.lookup n) (o : Bytes) (dflt : Name) :
    Spec.rootIsObject sd (Spec.TypeSystem.ofDoc sd) o dflt = true ↔
      (∀ e ∈ (sd.schema ++ sd.schemaExt).flatMap (·.opTypes), e.op = o → ∀ d, st.types.lookup e.type = some d → d.kind = .object) ∧
      ((∀ e ∈ (sd.schema ++ sd.schemaExt).flatMap (·.opTypes), e.op ≠ o) → sd.schema.isEmpty = true →
        ∀ d, st.types.lookup dflt = some d → d.kind = .object) := by
  have hobj : ∀ n, (match (Spec.TypeSystem.ofDoc sd).type? n with | some d => d.kind == DefKind.object | none => true) = true ↔
      ∀ d, st.types.lookup n = some d → d.kind = .object := by
    intro n
    rw [hty]
    cases st.types.lookup n <;> simp
  have hsd : (Spec.TypeSystem.ofDoc sd).schemaDefs = sd.schema ++ sd.schemaExt := rfl
  have hemp : (((sd.schema ++ sd.schemaExt).flatMap (·.opTypes)).filter (·.op == o)).isEmpty = true ↔
      ∀ e ∈ (sd.schema ++ sd.schemaExt).flatMap (·.opTypes), e.op ≠ o := by
    rw [List.isEmpty_iff, List.filter_eq_nil_iff]
    constructor
    · intro h e he hc; exact h e he (by simpa using hc)
    · intro h e he hc; exact h e he (by simpa using hc)
  unfold Spec.rootIsObject
  simp only [hsd, Bool.and_eq_true, List.all_eq_true, hobj, Bool.or_eq_true, Bool.not_eq_true', List.mem_filter,
    beq_iff_eq, and_imp]
  constructor
  · rintro ⟨h1, h2⟩
    refine ⟨fun e he ho => (hobj _).mp (h1 e he ho), fun hne hs => ?_⟩
    rcases h2 with h2 | h2
    · rw [hemp.mpr hne, hs] at h2; cases h2
    · exact (hobj _).mp h2
  · rintro ⟨h1, h2⟩
    refine ⟨fun e he ho => (hobj _).mpr (h1 e he ho), ?_⟩
    cases hs : sd.schema.isEmpty with
    | false => left; simp
    | true =>
      cases he : (((sd.schema ++ sd.schemaExt).flatMap (·.opTypes)).filter (·.op == o)).isEmpty with
      | false => left; rfl
      | true => right; exact (hobj _).mpr (h2 (hemp.mp he) hs)

/-- **soundness of the last check**: when the root kinds pass, the clause holds -/
theorem rootIsObject_of_check (hinv : KeysInv (·.name) st.types)
    (hty : ∀ n, (Spec.TypeSystem.ofDoc sd).type? n = st.types.lookup n) (R : RootsFrom sd st r1)
    (hk : checkRootKinds st (finalRoots sd st r1) = .pass) {o : Bytes} (ho : isRootOp o = true) :
    Spec.rootIsObject sd (Spec.TypeSystem.ofDoc sd) o (defaultRootName o) = true := by
  rw [checkRootKinds_pass_iff] at hk
  have hk := hk o ho
  rw [rootOf_finalRoots sd st r1 ho] at hk
  rw [rootIsObject_iff hty]
  refine ⟨?_, ?_⟩
  · intro e he heo d hd
    obtain ⟨d', hd', hr⟩ := R.sets e he (by rw [heo]; exact ho)
    rw [hd] at hd'
    simp only [Option.some.injEq] at hd'
    subst hd'
    have hname : d.name = e.type := hinv.2 _ (mem_of_lookup hd)
    rw [heo, hname] at hr
    apply hk e.type d _ hd
    split
    · simp [inferRoot, hr]
    · exact hr
  · intro hne hs d hd
    have hnone : rootOf r1 o = none := by
      cases hr : rootOf r1 o with
      | none => rfl
      | some n =>
        obtain ⟨e, he, heo, _⟩ := R.origin o n hr
        exact absurd heo (hne e he)
    have hname : d.name = defaultRootName o := hinv.2 _ (mem_of_lookup hd)
    apply hk (defaultRootName o) d _ hd
    simp [hs, hnone, inferRoot, ptrOf, hd, hname]

/-- **completeness of the last check**: the clause excludes "Schema root %s must be an object type" -/
theorem check_of_rootIsObject (hinv : KeysInv (·.name) st.types)
    (hty : ∀ n, (Spec.TypeSystem.ofDoc sd).type? n = st.types.lookup n) (R : RootsFrom sd st r1)
    (hc : ∀ o, isRootOp o = true → Spec.rootIsObject sd (Spec.TypeSystem.ofDoc sd) o (defaultRootName o) = true) :
    checkRootKinds st (finalRoots sd st r1) = .pass := by
  rw [checkRootKinds_pass_iff]
  intro o ho n d hr hl
  obtain ⟨hc1, hc2⟩ := (rootIsObject_iff hty o (defaultRootName o)).mp (hc o ho)
  rw [rootOf_finalRoots sd st r1 ho] at hr
  have hdecl : ∀ n, rootOf r1 o = some n → ∀ d, st.types.lookup n = some d → d.kind = .object := by
    intro n hr d hl
    obtain ⟨e, he, heo, d', hd', hn⟩ := R.origin o n hr
    have hname : d'.name = e.type := hinv.2 _ (mem_of_lookup hd')
    rw [hn, hname] at hl
    exact hc1 e he heo d hl
  split at hr
  · rename_i hs
    unfold inferRoot at hr
    split at hr
    · rename_i c hcur
      simp only [Option.some.injEq] at hr
      subst hr
      exact hdecl _ hcur d hl
    · rename_i hcur
      have hne : ∀ e ∈ (sd.schema ++ sd.schemaExt).flatMap (·.opTypes), e.op ≠ o := by
        intro e he heo
        obtain ⟨d', _, hr'⟩ := R.sets e he (by rw [heo]; exact ho)
        rw [heo, hcur] at hr'
        cases hr'
      cases hd0 : st.types.lookup (defaultRootName o) with
      | none => simp [ptrOf, hd0] at hr
      | some d0 =>
        have hname : d0.name = defaultRootName o := hinv.2 _ (mem_of_lookup hd0)
        simp only [ptrOf, hd0, Option.map_some, Option.some.injEq] at hr
        rw [← hr, hname, hd0] at hl
        simp only [Option.some.injEq] at hl
        subst hl
        exact hc2 hne hs d0 hd0
  · exact hdecl n hr d hl

/-- the 27th clause is the conjunction over the three operations -/
theorem rootTypesAreObjectsDoc_iff (sd : SchemaDoc) :
    Spec.rootTypesAreObjectsDoc sd = true ↔
      ∀ o, isRootOp o = true → Spec.rootIsObject sd (Spec.TypeSystem.ofDoc sd) o (defaultRootName o) = true := by
  simp only [Spec.rootTypesAreObjectsDoc, Bool.and_eq_true]
  constructor
  · rintro ⟨⟨h1, h2⟩, h3⟩ o ho
    simp only [isRootOp, Bool.or_eq_true, beq_iff_eq] at ho
    rcases ho with (rfl | rfl) | rfl
    · exact h1
    · exact h2
    · exact h3
  · intro h
    exact ⟨⟨h opQuery (by decide), h opMutation (by decide)⟩, h opSubscription (by decide)⟩

end
end Gql.Load
