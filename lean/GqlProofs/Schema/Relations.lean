import GqlProofs.Schema.State
/-
  The relation construction as a list of pushes: `PossibleTypes[k]` is, in order, the values pushed
  under key `k` while the definitions are traversed.
-/
namespace Gql.Load
open Gql

/-- `m[k]` with the nil slice for an absent key -/
def entriesOf {β} (rel : List (Name × List β)) (k : Name) : List β := (rel.lookup k).getD []

theorem lookup_pushKV {β} (k k' : Name) (v : β) (rel : List (Name × List β)) :
    (pushKV k v rel).lookup k' = if k' = k then some (entriesOf rel k' ++ [v]) else rel.lookup k' := by
  induction rel with
  | nil =>
    simp only [pushKV, List.lookup, entriesOf]
    by_cases h : k' = k
    · subst h; simp
    · have : (k' == k) = false := by simp [h]
      simp [this, h]
  | cons p rest ih =>
    obtain ⟨k0, vs⟩ := p
    simp only [pushKV]
    by_cases h0 : k0 = k
    · subst h0
      simp only [beq_self_eq_true, ↓reduceIte, List.lookup, entriesOf]
      by_cases h : k' = k0
      · subst h; simp
      · have : (k' == k0) = false := by simp [h]
        simp [this, h]
    · have h0' : (k0 == k) = false := by simp [h0]
      simp only [h0', Bool.false_eq_true, ↓reduceIte, List.lookup, entriesOf]
      by_cases h : k' = k0
      · subst h
        have : k' ≠ k := h0
        simp [this]
      · have : (k' == k0) = false := by simp [h]
        simp only [this, ih, entriesOf]

theorem entriesOf_pushKV {β} (k k' : Name) (v : β) (rel : List (Name × List β)) :
    entriesOf (pushKV k v rel) k' = entriesOf rel k' ++ (if k' = k then [v] else []) := by
  unfold entriesOf
  rw [lookup_pushKV]
  split <;> simp [entriesOf]

/-- a sequence of pushes -/
def pushAll {β} (l : List (Name × β)) (rel : List (Name × List β)) : List (Name × List β) :=
  l.foldl (fun r kv => pushKV kv.1 kv.2 r) rel

theorem entriesOf_pushAll {β} (l : List (Name × β)) (rel : List (Name × List β)) (k : Name) :
    entriesOf (pushAll l rel) k = entriesOf rel k ++ (l.filter (fun kv => kv.1 == k)).map Prod.snd := by
  induction l generalizing rel with
  | nil => simp [pushAll]
  | cons kv rest ih =>
    simp only [pushAll, List.foldl_cons] at ih ⊢
    rw [ih, entriesOf_pushKV]
    by_cases h : kv.1 = k
    · subst h; simp [List.filter]
    · have h' : ¬ (k = kv.1) := fun e => h e.symm
      have : (kv.1 == k) = false := by simp [h]
      simp [List.filter, this, h']

theorem pushAll_append {β} (l m : List (Name × β)) (rel : List (Name × List β)) :
    pushAll (l ++ m) rel = pushAll m (pushAll l rel) := by
  simp [pushAll, List.foldl_append]

/-- pushes through `pushPtr` are the pushes of the non-nil pointers -/
theorem foldl_pushPtr {α} (xs : List α) (f : α → Name × Option Name) (rel : Rel) :
    xs.foldl (fun r a => pushPtr (f a).1 (f a).2 r) rel = pushAll ((xs.map f).filter (·.2.isSome)) rel := by
  induction xs generalizing rel with
  | nil => rfl
  | cons a rest ih =>
    simp only [List.foldl_cons, List.map_cons]
    rw [ih]
    cases h : (f a).2 with
    | none => simp [pushPtr, List.filter, h]
    | some n => simp only [List.filter, h, Option.isSome_some, pushAll, List.foldl_cons, pushPtr]

theorem foldl_pushKV {α} (xs : List α) (f : α → Name × Option Name) (rel : Rel) :
    xs.foldl (fun r a => pushKV (f a).1 (f a).2 r) rel = pushAll (xs.map f) rel := by
  induction xs generalizing rel with
  | nil => rfl
  | cons a rest ih => simp only [List.foldl_cons, List.map_cons, pushAll] at ih ⊢; rw [ih]

/-- a fold over pairs that treats the components independently -/
theorem foldl_pair {α} (xs : List α) (F G : α → Rel → Rel) (p i : Rel) :
    xs.foldl (fun (x : Rel × Rel) a => match x with
      | (p, i) => (F a p, G a i)) (p, i) =
    (xs.foldl (fun r a => F a r) p, xs.foldl (fun r a => G a r) i) := by
  induction xs generalizing p i with
  | nil => rfl
  | cons a rest ih => simp only [List.foldl_cons]; rw [ih]

/-- the pushes one definition makes into `PossibleTypes` (an undeclared union member is skipped) -/
def possPushes (types : List (Name × Definition)) (d : Definition) : List (Name × Option Name) :=
  match d.kind with
  | .union => (d.types.map fun t => (d.name, ptrOf types t)).filter (·.2.isSome)
  | .object => d.interfaces.map (fun i => (i, some d.name)) ++ [(d.name, some d.name)]
  | .interface => d.interfaces.map fun i => (i, some d.name)
  | .scalar | .enum | .inputObject => []

/-- … and into `Implements` (an undeclared interface is skipped) -/
def implPushes (types : List (Name × Definition)) (d : Definition) : List (Name × Option Name) :=
  match d.kind with
  | .union => d.types.map fun t => (t, some d.name)
  | .object | .interface => (d.interfaces.map fun i => (d.name, ptrOf types i)).filter (·.2.isSome)
  | .scalar | .enum | .inputObject => []

theorem interfaces_fold_eq (types : List (Name × Definition)) (d : Definition) (p i : Rel) :
    d.interfaces.foldl (fun (x : Rel × Rel) intf => match x with
      | (p, i) => (pushKV intf (some d.name) p, pushPtr d.name (ptrOf types intf) i)) (p, i) =
    (pushAll (d.interfaces.map fun i => (i, some d.name)) p,
     pushAll ((d.interfaces.map fun i => (d.name, ptrOf types i)).filter (·.2.isSome)) i) := by
  rw [foldl_pair d.interfaces (fun intf r => pushKV intf (some d.name) r) (fun intf r => pushPtr d.name (ptrOf types intf) r)]
  rw [foldl_pushKV d.interfaces (fun intf => (intf, some d.name)),
      foldl_pushPtr d.interfaces (fun intf => (d.name, ptrOf types intf))]

theorem relateDef_eq (types : List (Name × Definition)) (d : Definition) (p i : Rel) :
    relateDef types d (p, i) = (pushAll (possPushes types d) p, pushAll (implPushes types d) i) := by
  unfold relateDef possPushes implPushes
  cases d.kind
  · rfl
  · simp only
    rw [interfaces_fold_eq]
    simp only [pushAll_append]
    rfl
  · simp only
    rw [interfaces_fold_eq]
  · simp only
    rw [foldl_pair d.types (fun t r => pushPtr d.name (ptrOf types t) r) (fun t r => pushKV t (some d.name) r)]
    rw [foldl_pushPtr d.types (fun t => (d.name, ptrOf types t)), foldl_pushKV d.types (fun t => (t, some d.name))]
  · rfl
  · rfl

theorem foldl_relateDef (types : List (Name × Definition)) (ds : List Definition) (p i : Rel) :
    ds.foldl (fun pi d => relateDef types d pi) (p, i) =
      (pushAll (ds.flatMap (possPushes types)) p, pushAll (ds.flatMap (implPushes types)) i) := by
  induction ds generalizing p i with
  | nil => rfl
  | cons d rest ih =>
    simp only [List.foldl_cons, List.flatMap_cons, pushAll_append]
    rw [relateDef_eq, ih]

theorem buildRelations_eq (types : List (Name × Definition)) :
    buildRelations types =
      (pushAll ((types.map Prod.snd).flatMap (possPushes types)) [],
       pushAll ((types.map Prod.snd).flatMap (implPushes types)) []) := by
  unfold buildRelations
  exact foldl_relateDef types _ [] []

/-- `PossibleTypes[k]`, in order -/
theorem possible_entries (types : List (Name × Definition)) (k : Name) :
    entriesOf (buildRelations types).1 k =
      (((types.map Prod.snd).flatMap (possPushes types)).filter (fun kv => kv.1 == k)).map Prod.snd := by
  rw [buildRelations_eq, entriesOf_pushAll]; simp [entriesOf]

theorem implements_entries (types : List (Name × Definition)) (k : Name) :
    entriesOf (buildRelations types).2 k =
      (((types.map Prod.snd).flatMap (implPushes types)).filter (fun kv => kv.1 == k)).map Prod.snd := by
  rw [buildRelations_eq, entriesOf_pushAll]; simp [entriesOf]

end Gql.Load
