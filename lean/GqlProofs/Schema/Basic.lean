import GqlModel.Schema.Model
/-
  Generic lemmas for the loader proofs: "first failing check wins" (`Chk.andThen`, `each`),
  association lists (`insertKV`, `modifyKV`, `pushKV`) and `sortNames`.
-/
namespace Gql.Load
open Gql

/- ---------------- Chk ---------------- -/

@[simp] theorem andThen_pass (b : Unit → Chk) : Chk.andThen .pass b = b () := rfl
@[simp] theorem andThen_fail (e : LoadError) (b : Unit → Chk) : Chk.andThen (.fail e) b = .fail e := rfl
@[simp] theorem andThen_panic (b : Unit → Chk) : Chk.andThen .panic b = .panic := rfl

theorem andThen_eq_pass {a : Chk} {b : Unit → Chk} : a.andThen b = .pass ↔ a = .pass ∧ b () = .pass := by
  cases a <;> simp

theorem andThen_ne_panic {a : Chk} {b : Unit → Chk} (ha : a ≠ .panic) (hb : a = .pass → b () ≠ .panic) :
    a.andThen b ≠ .panic := by
  cases a <;> simp_all

/-- first failing check wins: the loop passes iff every element passes -/
theorem each_eq_pass {α} {xs : List α} {f : α → Chk} : each xs f = .pass ↔ ∀ x ∈ xs, f x = .pass := by
  induction xs with
  | nil => simp [each]
  | cons x rest ih => simp [each, andThen_eq_pass, ih]

theorem each_ne_panic {α} {xs : List α} {f : α → Chk} (h : ∀ x ∈ xs, f x ≠ .panic) : each xs f ≠ .panic := by
  induction xs with
  | nil => simp [each]
  | cons x rest ih =>
    simp only [each]
    exact andThen_ne_panic (h x (by simp)) (fun _ => ih (fun y hy => h y (by simp [hy])))

@[simp] theorem failAt_ne_pass (p : Pos) (m : Bytes) : failAt p m ≠ .pass := by simp [failAt]
@[simp] theorem failAt_ne_panic (p : Pos) (m : Bytes) : failAt p m ≠ .panic := by simp [failAt]

/- ---------------- sortNames ---------------- -/

theorem mem_insertName {x y : Name} {l : List Name} : y ∈ insertName x l ↔ y = x ∨ y ∈ l := by
  induction l with
  | nil => simp [insertName]
  | cons z zs ih =>
    simp only [insertName]
    split
    · simp
    · simp [ih]; constructor <;> (intro h; rcases h with h | h | h <;> simp [h])

theorem mem_sortNames {y : Name} {l : List Name} : y ∈ sortNames l ↔ y ∈ l := by
  induction l with
  | nil => simp [sortNames]
  | cons x xs ih => simp [sortNames, mem_insertName, ih]

/- ---------------- association lists ---------------- -/

theorem lookup_isSome_of_mem {α} {k : Name} {v : α} {l : List (Name × α)} (h : (k, v) ∈ l) :
    (l.lookup k).isSome := by
  induction l with
  | nil => simp at h
  | cons p rest ih =>
    obtain ⟨k', v'⟩ := p
    simp only [List.lookup]
    by_cases hk : k = k'
    · subst hk; simp
    · have : (k == k') = false := by simp [hk]
      simp only [this]
      apply ih
      simp only [List.mem_cons, Prod.mk.injEq] at h
      rcases h with ⟨h1, _⟩ | h
      · exact absurd h1 hk
      · exact h

theorem mem_of_lookup {α} {k : Name} {v : α} {l : List (Name × α)} (h : l.lookup k = some v) : (k, v) ∈ l := by
  induction l with
  | nil => simp at h
  | cons p rest ih =>
    obtain ⟨k', v'⟩ := p
    simp only [List.lookup] at h
    by_cases hk : k = k'
    · subst hk; simp at h; simp [h]
    · have : (k == k') = false := by simp [hk]
      simp only [this] at h
      simp [ih h]

theorem lookup_isSome_iff_mem_keys {α} {k : Name} {l : List (Name × α)} :
    (l.lookup k).isSome ↔ k ∈ l.map Prod.fst := by
  induction l with
  | nil => simp
  | cons p rest ih =>
    obtain ⟨k', v'⟩ := p
    simp only [List.lookup, List.map_cons, List.mem_cons]
    by_cases hk : k = k'
    · subst hk; simp
    · have : (k == k') = false := by simp [hk]
      simp [this, ih, hk]

/-- with distinct keys, membership determines lookup -/
theorem lookup_of_mem_nodup {α} {k : Name} {v : α} {l : List (Name × α)} (hn : (l.map Prod.fst).Nodup)
    (h : (k, v) ∈ l) : l.lookup k = some v := by
  induction l with
  | nil => simp at h
  | cons p rest ih =>
    obtain ⟨k', v'⟩ := p
    simp only [List.map_cons, List.nodup_cons] at hn
    simp only [List.mem_cons, Prod.mk.injEq] at h
    simp only [List.lookup]
    rcases h with ⟨h1, h2⟩ | h
    · subst h1; subst h2; simp
    · have hk : k ≠ k' := by
        intro e; subst e
        exact hn.1 (List.mem_map.mpr ⟨(k, v), h, rfl⟩)
      have : (k == k') = false := by simp [hk]
      simp only [this]
      exact ih hn.2 h

theorem lookup_append {α} {k : Name} {l m : List (Name × α)} :
    (l ++ m).lookup k = (l.lookup k).or (m.lookup k) := by
  induction l with
  | nil => simp
  | cons p rest ih =>
    obtain ⟨k', v'⟩ := p
    simp only [List.cons_append, List.lookup]
    split <;> simp [ih]

/-- lookup after `modifyKV` -/
theorem lookup_modifyKV {α} (k q : Name) (f : α → α) (l : List (Name × α)) :
    (modifyKV q f l).lookup k = if k = q then (l.lookup k).map f else l.lookup k := by
  induction l with
  | nil => simp [modifyKV]
  | cons p rest ih =>
    obtain ⟨k', v'⟩ := p
    simp only [modifyKV]
    by_cases hq : k' = q
    · subst hq
      simp only [beq_self_eq_true, ↓reduceIte, List.lookup]
      by_cases hk : k = k'
      · subst hk; simp
      · have : (k == k') = false := by simp [hk]
        simp [this, hk]
    · have hq' : (k' == q) = false := by simp [hq]
      simp only [hq', Bool.false_eq_true, ↓reduceIte, List.lookup]
      by_cases hk : k = k'
      · subst hk; simp [hq]
      · have : (k == k') = false := by simp [hk]
        simp only [this, ih]

theorem keys_modifyKV {α} (q : Name) (f : α → α) (l : List (Name × α)) :
    (modifyKV q f l).map Prod.fst = l.map Prod.fst := by
  induction l with
  | nil => simp [modifyKV]
  | cons p rest ih =>
    obtain ⟨k', v'⟩ := p
    simp only [modifyKV]
    split <;> simp [ih]

/-- an entry of a modified list is an old entry, or the image of the old entry at `q` -/
theorem mem_modifyKV {α} {q : Name} {f : α → α} {l : List (Name × α)} {k : Name} {v : α}
    (h : (k, v) ∈ modifyKV q f l) : (k, v) ∈ l ∨ (k = q ∧ ∃ v0, (k, v0) ∈ l ∧ v = f v0) := by
  induction l with
  | nil => simp [modifyKV] at h
  | cons p rest ih =>
    obtain ⟨k', v'⟩ := p
    simp only [modifyKV] at h
    split at h
    · rename_i hq
      simp only [List.mem_cons, Prod.mk.injEq] at h
      rcases h with ⟨h1, h2⟩ | h
      · right; subst h1; subst h2
        exact ⟨by simpa using hq, v', by simp, rfl⟩
      · left; simp [h]
    · simp only [List.mem_cons, Prod.mk.injEq] at h
      rcases h with ⟨h1, h2⟩ | h
      · left; simp [h1, h2]
      · rcases ih h with h | ⟨h1, v0, h2, h3⟩
        · left; simp [h]
        · right; exact ⟨h1, v0, by simp [h2], h3⟩

theorem keys_insertKV_nodup {α} {k : Name} {v : α} {l : List (Name × α)} (hn : (l.map Prod.fst).Nodup) :
    ((insertKV k v l).map Prod.fst).Nodup ∧ ∀ x, x ∈ (insertKV k v l).map Prod.fst ↔ x = k ∨ x ∈ l.map Prod.fst := by
  induction l with
  | nil => simp [insertKV]
  | cons p rest ih =>
    obtain ⟨k', v'⟩ := p
    simp only [List.map_cons, List.nodup_cons] at hn
    simp only [insertKV]
    split
    · rename_i hq
      have hq : k' = k := by simpa using hq
      subst hq
      simp only [List.map_cons, List.nodup_cons, List.mem_cons]
      refine ⟨hn, fun x => ?_⟩
      constructor
      · intro h; rcases h with h | h
        · exact Or.inl h
        · exact Or.inr (Or.inr h)
      · intro h; rcases h with h | h | h
        · exact Or.inl h
        · exact Or.inl h
        · exact Or.inr h
    · rename_i hq
      have hq : k' ≠ k := by simpa using hq
      obtain ⟨ih1, ih2⟩ := ih hn.2
      simp only [List.map_cons, List.nodup_cons, List.mem_cons]
      refine ⟨⟨?_, ih1⟩, fun x => ?_⟩
      · rw [ih2]; intro h; rcases h with h | h
        · exact hq h
        · exact hn.1 h
      · rw [ih2]; constructor
        · intro h; rcases h with h | h | h
          · exact Or.inr (Or.inl h)
          · exact Or.inl h
          · exact Or.inr (Or.inr h)
        · intro h; rcases h with h | h | h
          · exact Or.inr (Or.inl h)
          · exact Or.inl h
          · exact Or.inr (Or.inr h)

/-- every entry of `insertKV k v l` is `(k, v)` or an old entry -/
theorem mem_insertKV {α} {k : Name} {v : α} {l : List (Name × α)} {p : Name × α} (h : p ∈ insertKV k v l) :
    p = (k, v) ∨ p ∈ l := by
  induction l with
  | nil => simp [insertKV] at h; simp [h]
  | cons q rest ih =>
    obtain ⟨k', v'⟩ := q
    simp only [insertKV] at h
    split at h
    · rename_i hq
      have hq : k' = k := by simpa using hq
      simp only [List.mem_cons] at h
      rcases h with h | h
      · left; rw [h, hq]
      · right; simp [h]
    · simp only [List.mem_cons] at h
      rcases h with h | h
      · right; simp [h]
      · rcases ih h with h | h
        · left; exact h
        · right; simp [h]

theorem lookup_insertKV_self {α} (k : Name) (v : α) (l : List (Name × α)) : (insertKV k v l).lookup k = some v := by
  induction l with
  | nil => simp [insertKV]
  | cons p rest ih =>
    obtain ⟨k', v'⟩ := p
    simp only [insertKV]
    split
    · rename_i hq
      have hq : k' = k := by simpa using hq
      subst hq; simp [List.lookup]
    · rename_i hq
      have hq : k' ≠ k := by simpa using hq
      have : (k == k') = false := by simp [Ne.symm hq]
      simp [List.lookup, this, ih]

/-- `pushKV` keeps an invariant on keys and on list elements -/
theorem pushKV_inv {β} {P : Name → Prop} {Q : β → Prop} {k : Name} {v : β} {l : List (Name × List β)}
    (hl : ∀ p ∈ l, P p.1 ∧ ∀ x ∈ p.2, Q x) (hk : P k) (hv : Q v) :
    ∀ p ∈ pushKV k v l, P p.1 ∧ ∀ x ∈ p.2, Q x := by
  induction l with
  | nil => intro p hp; simp [pushKV] at hp; subst hp; simp [hk, hv]
  | cons q rest ih =>
    obtain ⟨k', vs⟩ := q
    intro p hp
    simp only [pushKV] at hp
    have hq := hl (k', vs) (by simp)
    have hrest : ∀ p ∈ rest, P p.1 ∧ ∀ x ∈ p.2, Q x := fun p hp => hl p (by simp [hp])
    split at hp
    · simp only [List.mem_cons] at hp
      rcases hp with hp | hp
      · subst hp
        refine ⟨hq.1, fun x hx => ?_⟩
        simp only [List.mem_append, List.mem_singleton] at hx
        rcases hx with hx | hx
        · exact hq.2 x hx
        · subst hx; exact hv
      · exact hrest p hp
    · simp only [List.mem_cons] at hp
      rcases hp with hp | hp
      · subst hp; exact hq
      · exact ih hrest p hp

end Gql.Load
