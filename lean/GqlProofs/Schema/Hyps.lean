import GqlProofs.Schema.Directives
import GqlProofs.Schema.Examples
/-
  Hypotheses named in the C07 property theorems (what "the prelude is part of the document" means)
  and small helper lemmas, kept out of Props/C07.lean.
-/
set_option linter.unusedSimpArgs false
open Gql Gql.Load

/-- the document declares (as definitions, e.g. through the prelude) the three types the introspection
    fields `__schema: __Schema!` / `__type(name: String!): __Type` refer to -/
structure IntrospectionTypesDeclared (sd : SchemaDoc) : Prop where
  schema : DeclaresKind sd (str "__Schema") .object
  type : DeclaresKind sd (str "__Type") .object
  string : DeclaresKind sd (str "String") .scalar

/-- the query root of the loaded schema is not an input object (the loader does not check root kinds) -/
def QueryRootNotInput (s : Schema) : Prop :=
  ∀ q d, s.query = some q → (q, d) ∈ s.types → d.kind ≠ .inputObject


theorem filter_dunder_nil {fs : List FieldDef} (h : ∀ f ∈ fs, hasDunder f.name = false) {n : Name}
    (hn : hasDunder n = true) : fs.filter (·.name == n) = [] := by
  rw [List.filter_eq_nil_iff]
  intro f hf he
  have : f.name = n := by simpa using he
  have h' := h f hf
  rw [this, hn] at h'
  exact absurd h' (by simp)


/-- the document contains the built-in scalars, directives and introspection types (the prelude) -/
structure PreludeDeclared (sd : SchemaDoc) : Prop where
  scalars : ∀ n ∈ Spec.builtinScalars, DeclaresKind sd n .scalar
  types : ∀ p ∈ Spec.introspectionTypes, DeclaresKind sd p.1 p.2
  directives : ∀ n ∈ Spec.builtinDirectives, ∃ dd ∈ sd.directives, dd.name = n

theorem keys_insertKV_mono {α} {k n : Name} {v : α} {l : List (Name × α)} (hn : n ∈ l.map Prod.fst) :
    n ∈ (insertKV k v l).map Prod.fst := by
  induction l with
  | nil => simp at hn
  | cons p rest ih =>
    obtain ⟨k', v'⟩ := p
    simp only [insertKV]
    split
    · simpa using hn
    · simp only [List.map_cons, List.mem_cons] at hn ⊢
      rcases hn with hn | hn
      · exact Or.inl hn
      · exact Or.inr (ih hn)

theorem declareDirectives_keys {l : List DirectiveDef} {acc r : List (Name × DirectiveDef)}
    (h : declareDirectives l acc = .ok r) :
    (∀ n, (acc.lookup n).isSome → (r.lookup n).isSome) ∧ ∀ dd ∈ l, (r.lookup dd.name).isSome := by
  induction l generalizing acc with
  | nil => simp [declareDirectives] at h; subst h; simp
  | cons dd rest ih =>
    simp only [declareDirectives] at h
    split at h
    · simp at h
    · obtain ⟨ih1, ih2⟩ := ih h
      have hmono : ∀ n, (acc.lookup n).isSome → ((insertKV dd.name dd acc).lookup n).isSome := by
        intro n hn
        rw [lookup_isSome_iff_mem_keys] at hn ⊢
        exact keys_insertKV_mono hn
      refine ⟨fun n hn => ih1 n (hmono n hn), ?_⟩
      intro d' hd'
      simp only [List.mem_cons] at hd'
      rcases hd' with hd' | hd'
      · subst hd'
        exact ih1 _ (by rw [lookup_insertKV_self]; rfl)
      · exact ih2 d' hd'

