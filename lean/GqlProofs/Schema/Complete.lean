import GqlProofs.Schema.CompleteChecks
/-
  Completeness of the loader, part 3: the schema definition / schema extensions (root operation
  types), and the assembly: `load sd` succeeds for every well-formed merged document.
-/
set_option linter.unusedSimpArgs false
namespace Gql.Load
open Gql

/- ------------------------------------------------------------------ root operation types -/

/-- every operation has at most one root type among what is already set and what is still to come -/
def RootsFree (r : Roots) (l : List OpTypeDef) : Prop :=
  rootSet r opQuery + opCount opQuery l ≤ 1 ∧ rootSet r opMutation + opCount opMutation l ≤ 1 ∧
  rootSet r opSubscription + opCount opSubscription l ≤ 1

theorem rootSet_query (r : Roots) : rootSet r opQuery = if r.query.isSome then 1 else 0 := by
  simp [rootSet, rootOf]
theorem rootSet_mutation (r : Roots) : rootSet r opMutation = if r.mutation.isSome then 1 else 0 := by
  simp [rootSet, rootOf, opMutation_ne_opQuery]
theorem rootSet_subscription (r : Roots) : rootSet r opSubscription = if r.subscription.isSome then 1 else 0 := by
  simp [rootSet, rootOf, opSubscription_ne_opQuery, opSubscription_ne_opMutation]

theorem opCount_cons (o : Bytes) (e : OpTypeDef) (l : List OpTypeDef) :
    opCount o (e :: l) = (if e.op == o then 1 else 0) + opCount o l := by
  simp only [opCount, List.filter_cons]
  split <;> simp <;> omega

/-- **"Schema root %s refers to a type %s that does not exist." (schema.go:126/141)** — `rootsExist`;
    **"Schema root %s is defined more than once." (setRootOperationType)** — `rootOperationTypesOnce` -/
theorem load_setRoots_ok_of_wf {types : List (Name × Definition)} {l : List OpTypeDef} {r : Roots}
    (hex : ∀ e ∈ l, (types.lookup e.type).isSome) (l2 : List OpTypeDef) (hfree : RootsFree r (l ++ l2)) :
    ∃ r', setRoots types l r = .ok r' ∧ RootsFree r' l2 := by
  induction l generalizing r with
  | nil => exact ⟨r, rfl, hfree⟩
  | cons e rest ih =>
    have hrest : ∀ e ∈ rest, (types.lookup e.type).isSome := fun x hx => hex x (by simp [hx])
    simp only [setRoots]
    cases hl : types.lookup e.type with
    | none => have := hex e (by simp); rw [hl] at this; cases this
    | some d =>
      simp only
      obtain ⟨hq, hm, hs⟩ := hfree
      simp only [List.cons_append, opCount_cons, rootSet_query, rootSet_mutation, rootSet_subscription] at hq hm hs
      by_cases h1 : (e.op == opQuery) = true
      · have e1 : e.op = opQuery := by simpa using h1
        have hnone : r.query.isSome = false := by
          cases hx : r.query.isSome with
          | false => rfl
          | true => simp [hx, h1] at hq; omega
        simp only [h1, ↓reduceIte, hnone, Bool.false_eq_true]
        apply ih hrest
        refine ⟨?_, ?_, ?_⟩
        · simp only [rootSet_query, Option.isSome_some, ↓reduceIte]
          simp [hnone, h1] at hq; omega
        · simp only [rootSet_mutation]
          simp [e1, opQuery_ne_opMutation] at hm; exact hm
        · simp only [rootSet_subscription]
          simp [e1, opQuery_ne_opSubscription] at hs; exact hs
      · have h1' : (e.op == opQuery) = false := by simpa using h1
        simp only [h1', Bool.false_eq_true, ↓reduceIte]
        simp only [h1', Bool.false_eq_true, ↓reduceIte, Nat.zero_add] at hq
        by_cases h2 : (e.op == opMutation) = true
        · have e2 : e.op = opMutation := by simpa using h2
          have hnone : r.mutation.isSome = false := by
            cases hx : r.mutation.isSome with
            | false => rfl
            | true => simp [hx, h2] at hm; omega
          simp only [h2, ↓reduceIte, hnone, Bool.false_eq_true]
          apply ih hrest
          refine ⟨?_, ?_, ?_⟩
          · simp only [rootSet_query]; exact hq
          · simp only [rootSet_mutation, Option.isSome_some, ↓reduceIte]
            simp [hnone, h2] at hm; omega
          · simp only [rootSet_subscription]
            simp [e2, opMutation_ne_opSubscription] at hs; exact hs
        · have h2' : (e.op == opMutation) = false := by simpa using h2
          simp only [h2', Bool.false_eq_true, ↓reduceIte]
          simp only [h2', Bool.false_eq_true, ↓reduceIte, Nat.zero_add] at hm
          by_cases h3 : (e.op == opSubscription) = true
          · have hnone : r.subscription.isSome = false := by
              cases hx : r.subscription.isSome with
              | false => rfl
              | true => simp [hx, h3] at hs; omega
            simp only [h3, ↓reduceIte, hnone, Bool.false_eq_true]
            apply ih hrest
            refine ⟨?_, ?_, ?_⟩
            · simp only [rootSet_query]; exact hq
            · simp only [rootSet_mutation]; exact hm
            · simp only [rootSet_subscription, Option.isSome_some, ↓reduceIte]
              simp [hnone, h3] at hs; omega
          · have h3' : (e.op == opSubscription) = false := by simpa using h3
            simp only [h3', Bool.false_eq_true, ↓reduceIte]
            simp only [h3', Bool.false_eq_true, ↓reduceIte, Nat.zero_add] at hs
            apply ih hrest
            exact ⟨by simp only [rootSet_query]; exact hq, by simp only [rootSet_mutation]; exact hm,
              by simp only [rootSet_subscription]; exact hs⟩

/-- the `schema` / `extend schema` blocks: entry points and `validateDirectives(…, LocationSchema, nil)` -/
theorem load_applySchemaDefs_ok_of_wf {sd : SchemaDoc} {st : LState} (W : WfState sd st) {l : List SchemaDef}
    (hl : ∀ s ∈ l, s ∈ sd.schema ++ sd.schemaExt) {r : Roots} (acc : List Directive) (l2 : List OpTypeDef)
    (hfree : RootsFree r (l.flatMap (·.opTypes) ++ l2)) :
    ∃ r' acc', applySchemaDefs st l r acc = .ok r' acc' ∧ RootsFree r' l2 := by
  induction l generalizing r acc with
  | nil => exact ⟨r, acc, rfl, hfree⟩
  | cons s rest ih =>
    have hs := hl s (by simp)
    have hroots := W.wf.rootsExist
    simp only [Spec.rootsExist, List.all_eq_true] at hroots
    have hex : ∀ e ∈ s.opTypes, (st.types.lookup e.type).isSome := by
      intro e he
      have := hroots s hs e he
      rw [W.typeEq] at this
      exact this
    simp only [List.flatMap_cons, List.append_assoc] at hfree
    obtain ⟨r1, h1, hfree1⟩ := load_setRoots_ok_of_wf hex _ hfree
    have hdirs : validateDirectives st s.dirs locSchema none = .pass :=
      load_validateDirectives_ok_of_wf W (fun x hx => uses_schemaDirs hs hx)
    have hstep : applySchemaDef st s r acc = .ok r1 (acc ++ s.dirs) := by
      simp [applySchemaDef, h1, hdirs]
    simp only [applySchemaDefs, hstep]
    exact ih (fun x hx => hl x (by simp [hx])) _ hfree1

theorem rootsFree_noRoots {sd : SchemaDoc} (h : Spec.rootOperationTypesOnce sd = true) :
    RootsFree noRoots (sd.schema.flatMap (·.opTypes) ++ sd.schemaExt.flatMap (·.opTypes)) := by
  simp only [Spec.rootOperationTypesOnce, List.all_cons, List.all_nil, Bool.and_true, Bool.and_eq_true,
    decide_eq_true_eq, opCount_eq, List.flatMap_append] at h
  simp only [RootsFree, noRoots_rootSet, Nat.zero_add]
  exact h

/- ------------------------------------------------------------------ assembly -/

/-- everything after the maps are built passes (`finish`): "Cannot have multiple schema entry points"
    (schema.go:117) — `singleSchemaDef`; the schema blocks; `validateTypeDefinitions`;
    `validateDirectiveDefinitions`; "Schema root %s must be an object type, %s is a %s." —
    `rootTypesAreObjects` -/
theorem load_finish_ok_of_wf {sd : SchemaDoc} {st : LState} (W : WfState sd st) : ∃ s, finish sd st = .ok s := by
  have hsingle := W.wf.singleSchemaDef
  simp only [Spec.singleSchemaDef, decide_eq_true_eq] at hsingle
  obtain ⟨r0, d0, h0, hfree0⟩ := load_applySchemaDefs_ok_of_wf W (l := sd.schema) (fun s hs => by simp [hs]) []
    (sd.schemaExt.flatMap (·.opTypes)) (rootsFree_noRoots W.wf.rootOperationTypesOnce)
  obtain ⟨r1, d1, h1, _⟩ := load_applySchemaDefs_ok_of_wf W (l := sd.schemaExt) (fun s hs => by simp [hs]) d0 []
    (by simpa using hfree0)
  -- "Schema root %s must be an object type, %s is a %s." (the last check) — `rootTypesAreObjects`
  have hk : checkRootKinds st (finalRoots sd st r1) = .pass :=
    check_of_rootIsObject W.typesInv W.typeEq (rootsFrom_of_apply h0 h1)
      ((rootTypesAreObjectsDoc_iff sd).mp W.wf.rootTypesAreObjects)
  exact ⟨_, finish_eq_ok hsingle h0 h1 (load_validateTypeDefinitions_ok_of_wf W)
    (load_validateDirectiveDefinitions_ok_of_wf W) hk⟩

/-- completeness from the two facts about the directive map it needs -/
theorem load_complete_of {sd : SchemaDoc} (h : Spec.WellFormed sd) (hext : ∀ e ∈ sd.extensions, e.builtIn = false)
    (hdirs : ∃ r, declareDirectives sd.directives [] = .ok r)
    (hdirEq : ∀ st, buildState sd = .ok st → ∀ n, (Spec.TypeSystem.ofDoc sd).directive? n = st.directives.lookup n) :
    ∃ s, load sd = .ok s := by
  obtain ⟨st, hb⟩ := load_buildState_ok_of h hdirs
  obtain ⟨s, hs⟩ := load_finish_ok_of_wf (st := st) ⟨h, hext, hb, hdirEq st hb⟩
  exact ⟨s, by unfold load; rw [hb]; exact hs⟩

/-- **completeness of the loader**: a well-formed merged document loads -/
theorem load_complete {sd : SchemaDoc} (h : Spec.WellFormed sd) (hm : MergedDoc sd) : ∃ s, load sd = .ok s :=
  load_complete_of h hm.extNotBuiltin (load_declareDirectives_ok_of_wf h.uniqueDirectiveNames hm)
    (fun _ hb => spec_directive_eq_of_merged hb h.uniqueDirectiveNames hm)

/-- … and so does a well-formed document in which no directive name is declared twice (the hypotheses of
    the soundness theorem `load_wellFormed`; nothing about the order of the sources is needed then) -/
theorem load_complete_distinct {sd : SchemaDoc} (h : Spec.WellFormed sd)
    (hext : ∀ e ∈ sd.extensions, e.builtIn = false) (hd : DirectiveNamesDistinct sd) : ∃ s, load sd = .ok s :=
  load_complete_of h hext ⟨_, declareDirectives_distinct (l := sd.directives) (acc := []) (by simp) hd⟩
    (fun _ hb => spec_directive_eq hb hd)

end Gql.Load

#print axioms Gql.Load.load_declareTypes_ok_of_wf
#print axioms Gql.Load.load_foldExtensions_ok_of_wf
#print axioms Gql.Load.load_declareDirectives_ok_of_wf
#print axioms Gql.Load.load_buildState_ok_of_wf
#print axioms Gql.Load.spec_directive_eq_of_merged
#print axioms Gql.Load.load_validateDirectiveUse_ok_of_wf
#print axioms Gql.Load.load_validateArgs_ok_of_wf
#print axioms Gql.Load.load_isCovariant_ok_of_wf
#print axioms Gql.Load.load_validateImplements_ok_of_wf
#print axioms Gql.Load.load_validateKindSpecific_ok_of_wf
#print axioms Gql.Load.load_checkUniqueFields_ok_of_wf
#print axioms Gql.Load.load_validateDefinition_ok_of_wf
#print axioms Gql.Load.load_validateTypeDefinitions_ok_of_wf
#print axioms Gql.Load.load_validateDirectiveDefinitions_ok_of_wf
#print axioms Gql.Load.load_setRoots_ok_of_wf
#print axioms Gql.Load.load_applySchemaDefs_ok_of_wf
#print axioms Gql.Load.load_finish_ok_of_wf
#print axioms Gql.Load.load_complete
#print axioms Gql.Load.load_complete_distinct
