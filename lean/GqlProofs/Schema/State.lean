import GqlProofs.Schema.Inversion
/-
  Invariants of the state `buildState` produces: keys are distinct and equal the stored names;
  the relations are `buildRelations` of the final type map.
-/
namespace Gql.Load
open Gql

def KeysInv {α} (nameOf : α → Name) (l : List (Name × α)) : Prop :=
  (l.map Prod.fst).Nodup ∧ ∀ p ∈ l, nameOf p.2 = p.1

theorem keysInv_nil {α} (nameOf : α → Name) : KeysInv nameOf [] := by simp [KeysInv]

theorem keysInv_append_new {α} {nameOf : α → Name} {l : List (Name × α)} {v : α}
    (h : KeysInv nameOf l) (hnew : l.lookup (nameOf v) = none) : KeysInv nameOf (l ++ [(nameOf v, v)]) := by
  obtain ⟨h1, h2⟩ := h
  refine ⟨?_, ?_⟩
  · simp only [List.map_append, List.map_cons, List.map_nil]
    rw [List.nodup_append]
    refine ⟨h1, by simp, ?_⟩
    intro a ha b hb
    simp only [List.mem_singleton] at hb
    subst hb
    intro e; subst e
    have := lookup_isSome_iff_mem_keys.mpr ha
    rw [hnew] at this; simp at this
  · intro p hp
    simp only [List.mem_append, List.mem_singleton] at hp
    rcases hp with hp | hp
    · exact h2 p hp
    · subst hp; rfl

theorem declareTypes_inv {l : List Definition} {acc r : List (Name × Definition)}
    (hacc : KeysInv (·.name) acc) (h : declareTypes l acc = .ok r) : KeysInv (·.name) r := by
  induction l generalizing acc with
  | nil => simp [declareTypes] at h; subst h; exact hacc
  | cons d rest ih =>
    simp only [declareTypes] at h
    split at h
    · simp at h
    · rename_i hnone
      exact ih (keysInv_append_new (v := d) hacc hnone) h

theorem keysInv_modifyKV {l : List (Name × Definition)} {q : Name} {f : Definition → Definition}
    (hf : ∀ d, (f d).name = d.name) (h : KeysInv (·.name) l) : KeysInv (·.name) (modifyKV q f l) := by
  obtain ⟨h1, h2⟩ := h
  refine ⟨by rw [keys_modifyKV]; exact h1, ?_⟩
  intro p hp
  obtain ⟨k, v⟩ := p
  rcases mem_modifyKV hp with hp | ⟨_, v0, hv0, hv⟩
  · exact h2 _ hp
  · subst hv; simp only [hf]; exact h2 _ hv0

theorem foldExtensions_inv {l : List Definition} {types r : List (Name × Definition)}
    (hacc : KeysInv (·.name) types) (h : foldExtensions l types = .ok r) : KeysInv (·.name) r := by
  induction l generalizing types with
  | nil => simp [foldExtensions] at h; subst h; exact hacc
  | cons ext rest ih =>
    simp only [foldExtensions] at h
    have h1 : KeysInv (·.name) (ensureBase ext types) := by
      unfold ensureBase
      split
      · exact hacc
      · rename_i hnone
        exact keysInv_append_new (v := extStub ext) hacc hnone
    split at h
    · simp at h; subst h; exact h1
    · split at h
      · simp at h
      · exact ih (keysInv_modifyKV (q := ext.name) (f := applyExt ext) (fun d => rfl) h1) h

theorem declareDirectives_inv {l : List DirectiveDef} {acc r : List (Name × DirectiveDef)}
    (hacc : KeysInv (·.name) acc) (h : declareDirectives l acc = .ok r) : KeysInv (·.name) r := by
  induction l generalizing acc with
  | nil => simp [declareDirectives] at h; subst h; exact hacc
  | cons d rest ih =>
    simp only [declareDirectives] at h
    split at h
    · simp at h
    · refine ih ?_ h
      obtain ⟨h1, h2⟩ := hacc
      refine ⟨(keys_insertKV_nodup h1).1, ?_⟩
      intro p hp
      rcases mem_insertKV hp with hp | hp
      · subst hp; rfl
      · exact h2 p hp

/-- the state every validator runs in -/
theorem buildState_inv {sd : SchemaDoc} {st : LState} (h : buildState sd = .ok st) :
    KeysInv (·.name) st.types ∧ KeysInv (·.name) st.directives ∧
    (st.possible, st.implements) = buildRelations st.types := by
  unfold buildState at h
  split at h
  · simp at h
  · rename_i t0 h0
    split at h
    · simp at h
    · rename_i t1 h1
      have ht := foldExtensions_inv (declareTypes_inv (keysInv_nil _) h0) h1
      split at h
      rename_i p i hpi
      split at h
      · simp at h
      · rename_i dirs hd
        simp only [Except.ok.injEq] at h
        subst h
        exact ⟨ht, declareDirectives_inv (keysInv_nil _) hd, hpi.symm⟩

/- ---------------- relations ---------------- -/

theorem foldl_inv {σ α} (I : σ → Prop) (f : σ → α → σ) (l : List α) (s0 : σ) (h0 : I s0)
    (hstep : ∀ s x, x ∈ l → I s → I (f s x)) : I (l.foldl f s0) := by
  induction l generalizing s0 with
  | nil => exact h0
  | cons x rest ih =>
    simp only [List.foldl_cons]
    exact ih _ (hstep s0 x (by simp) h0) (fun s y hy hs => hstep s y (by simp [hy]) hs)

/-- keys resolve, entries are non-nil and resolve -/
def RelInv (types : List (Name × Definition)) (rel : Rel) : Prop :=
  ∀ p ∈ rel, (types.lookup p.1).isSome ∧ ∀ e ∈ p.2, ∃ n, e = some n ∧ (types.lookup n).isSome

theorem relInv_push {types : List (Name × Definition)} {rel : Rel} {k : Name} {e : Option Name}
    (h : RelInv types rel) (hk : (types.lookup k).isSome) (he : ∃ n, e = some n ∧ (types.lookup n).isSome) :
    RelInv types (pushKV k e rel) :=
  pushKV_inv (P := fun k => (types.lookup k).isSome) (Q := fun e => ∃ n, e = some n ∧ (types.lookup n).isSome) h hk he

theorem relInv_pushPtr {types : List (Name × Definition)} {rel : Rel} {k : Name} {e : Option Name}
    (h : RelInv types rel) (hk : (types.lookup k).isSome) (he : ∀ n, e = some n → (types.lookup n).isSome) :
    RelInv types (pushPtr k e rel) := by
  cases e with
  | none => exact h
  | some n => exact relInv_push h hk ⟨n, rfl, he n rfl⟩

theorem ptrOf_ok {types : List (Name × Definition)} (hinv : KeysInv (·.name) types) {x : Name}
    (hx : (types.lookup x).isSome) : ∃ n, ptrOf types x = some n ∧ (types.lookup n).isSome := by
  cases hl : types.lookup x with
  | none => simp [hl] at hx
  | some d =>
    have hname : d.name = x := hinv.2 (x, d) (mem_of_lookup hl)
    exact ⟨d.name, by simp [ptrOf, hl], by rw [hname]; exact hx⟩

/-- whatever `schema.Types[x]` points to is itself a key of the type map -/
theorem ptrOf_resolves {types : List (Name × Definition)} (hinv : KeysInv (·.name) types) {x n : Name}
    (h : ptrOf types x = some n) : (types.lookup n).isSome := by
  cases hl : types.lookup x with
  | none => simp [ptrOf, hl] at h
  | some d =>
    have hname : d.name = x := hinv.2 (x, d) (mem_of_lookup hl)
    simp only [ptrOf, hl, Option.map_some, Option.some.injEq] at h
    rw [← h, hname, hl]; rfl

/-- what the relation construction needs of one definition -/
def RefsResolve (types : List (Name × Definition)) (d : Definition) : Prop :=
  (types.lookup d.name).isSome ∧ (∀ i ∈ d.interfaces, (types.lookup i).isSome) ∧ (∀ m ∈ d.types, (types.lookup m).isSome)

/-- an invariant of both relations is kept by the fold over the interface list -/
theorem interfaces_fold_inv (I : Rel × Rel → Prop) (types : List (Name × Definition)) (d : Definition)
    (hstep : ∀ p i intf, intf ∈ d.interfaces → I (p, i) →
      I (pushKV intf (some d.name) p, pushPtr d.name (ptrOf types intf) i)) (pi : Rel × Rel) (h : I pi) :
    I (d.interfaces.foldl (fun (x : Rel × Rel) intf =>
        match x with
        | (p, i) => (pushKV intf (some d.name) p, pushPtr d.name (ptrOf types intf) i)) pi) := by
  apply foldl_inv I
  · exact h
  · intro s x hx hs
    obtain ⟨p, i⟩ := s
    exact hstep p i x hx hs

/-- an invariant of both relations is kept by `relateDef` when every push keeps it -/
theorem relateDef_induct (I : Rel × Rel → Prop) (types : List (Name × Definition)) (d : Definition)
    (hunion : ∀ p i t, t ∈ d.types → I (p, i) → I (pushPtr d.name (ptrOf types t) p, pushKV t (some d.name) i))
    (hintf : ∀ p i intf, intf ∈ d.interfaces → I (p, i) →
      I (pushKV intf (some d.name) p, pushPtr d.name (ptrOf types intf) i))
    (hself : ∀ p i, I (p, i) → I (pushKV d.name (some d.name) p, i))
    (pi : Rel × Rel) (h : I pi) : I (relateDef types d pi) := by
  unfold relateDef
  split
  · apply foldl_inv I
    · exact h
    · intro s x hx hs
      obtain ⟨p, i⟩ := s
      exact hunion p i x hx hs
  · have := interfaces_fold_inv I types d hintf pi h
    revert this
    generalize (d.interfaces.foldl _ pi) = q
    obtain ⟨p, i⟩ := q
    intro this
    exact hself p i this
  · exact interfaces_fold_inv I types d hintf pi h
  · exact h
  · exact h
  · exact h

theorem relateDef_inv {types : List (Name × Definition)} (hinv : KeysInv (·.name) types) {d : Definition}
    (hd : RefsResolve types d) {pi : Rel × Rel} (h : RelInv types pi.1 ∧ RelInv types pi.2) :
    RelInv types (relateDef types d pi).1 ∧ RelInv types (relateDef types d pi).2 := by
  obtain ⟨hname, hintf, hmem⟩ := hd
  have hself : ∃ n, some d.name = some n ∧ (types.lookup n).isSome := ⟨d.name, rfl, hname⟩
  apply relateDef_induct (fun q => RelInv types q.1 ∧ RelInv types q.2) types d _ _ _ pi h
  · intro p i t ht hs
    exact ⟨relInv_pushPtr hs.1 hname (fun n hn => ptrOf_resolves hinv hn), relInv_push hs.2 (hmem t ht) hself⟩
  · intro p i x hx hs
    exact ⟨relInv_push hs.1 (hintf x hx) hself, relInv_pushPtr hs.2 hname (fun n hn => ptrOf_resolves hinv hn)⟩
  · intro p i hs
    exact ⟨relInv_push hs.1 hname hself, hs.2⟩

theorem buildRelations_inv {types : List (Name × Definition)} (hinv : KeysInv (·.name) types)
    (hrefs : ∀ p ∈ types, RefsResolve types p.2) :
    RelInv types (buildRelations types).1 ∧ RelInv types (buildRelations types).2 := by
  unfold buildRelations
  apply foldl_inv (fun (q : Rel × Rel) => RelInv types q.1 ∧ RelInv types q.2)
  · simp [RelInv]
  · intro s d hd hs
    simp only [List.mem_map] at hd
    obtain ⟨p, hp, rfl⟩ := hd
    exact relateDef_inv hinv (hrefs p hp) hs

/- ---------------- no nil entries, unconditionally (the repaired loader) ---------------- -/

/-- no nil entry in a relation -/
def NoNil (rel : Rel) : Prop := ∀ p ∈ rel, ∀ e ∈ p.2, e ≠ none

theorem noNil_pushKV {rel : Rel} {k n : Name} (h : NoNil rel) : NoNil (pushKV k (some n) rel) := by
  have := pushKV_inv (P := fun _ => True) (Q := fun (e : Option Name) => e ≠ none) (k := k) (v := some n) (l := rel)
    (fun p hp => ⟨trivial, h p hp⟩) trivial (by simp)
  exact fun p hp => (this p hp).2

theorem noNil_pushPtr {rel : Rel} {k : Name} {e : Option Name} (h : NoNil rel) : NoNil (pushPtr k e rel) := by
  cases e with
  | none => exact h
  | some n => exact noNil_pushKV h

theorem relateDef_noNil (types : List (Name × Definition)) (d : Definition) {pi : Rel × Rel}
    (h : NoNil pi.1 ∧ NoNil pi.2) : NoNil (relateDef types d pi).1 ∧ NoNil (relateDef types d pi).2 := by
  apply relateDef_induct (fun q => NoNil q.1 ∧ NoNil q.2) types d _ _ _ pi h
  · intro p i t _ hs; exact ⟨noNil_pushPtr hs.1, noNil_pushKV hs.2⟩
  · intro p i x _ hs; exact ⟨noNil_pushKV hs.1, noNil_pushPtr hs.2⟩
  · intro p i hs; exact ⟨noNil_pushKV hs.1, hs.2⟩

/-- **no nil entry is ever stored** in `PossibleTypes` / `Implements`, whatever the document -/
theorem buildRelations_noNil (types : List (Name × Definition)) :
    NoNil (buildRelations types).1 ∧ NoNil (buildRelations types).2 := by
  unfold buildRelations
  apply foldl_inv (fun (q : Rel × Rel) => NoNil q.1 ∧ NoNil q.2)
  · simp [NoNil]
  · intro s d _ hs
    exact relateDef_noNil types d hs

end Gql.Load
