import GqlProofs.ValSpec.TypedBridge
import GqlProofs.ValSpec.FieldRules
import GqlProofs.ValSpec.LeafFrag
import GqlProofs.ValSpec.ValuesCorrectLocal
import GqlModel.Schema.Spec
set_option linter.unusedSimpArgs false
set_option linter.unusedVariables false
/-
  END TO END, part 8: `Spec.wellParented s d` — the one hypothesis of the typed C08 / C09 theorems that
  is neither an invariant of parser output nor of loader output — is a CONSEQUENCE of what both sides
  of the C08 equivalences say, on a schema with the loader's invariants:

    * `wellParented_of_spec`  : the specification predicates knownRootType, fragmentSpreadTypeExistence,
                                fragmentsOnCompositeTypes, fieldSelections, leafFieldSelections imply it;
    * `wellParented_of_rules` : KnownRootType, KnownTypeNames, FragmentsOnCompositeTypes (through their
                                hypothesis-free equivalences) and the silence of FieldsOnCorrectType and
                                ScalarLeafs imply it.

  One top-down induction (`wp_sel` / `wp_sels`): below a parent that is a composite type of the schema
  (`Good`) the walker's typing and the declarative typing agree (`wNext_eq`, `wInline_eq`), so the local
  facts about a node — available either from the specification predicate on `Spec.docSels` or from the
  rule on the node's event — make the parent of its children `Good` again.
-/
namespace Gql.EndToEnd
open Gql Gql.Validate Gql.Validate.Rules

/-- what the proof needs of the schema (all of it holds of loaded schemas, `Loaded.lean`) -/
structure WPSchema (s : Schema) : Prop where
  fieldTypes : Gql.Spec.ClosedFieldTypes s
  string : ∃ dd, s.type? (str "String") = some dd ∧ dd.kind = .scalar
  unions : ∀ p ∈ s.types, p.2.kind = .union → p.2.fields = []
  roots : Gql.Spec.rootTypesAreObjects s = true

/-- the parent is a composite type of the schema (a union declaring no fields) -/
def Good (s : Schema) (p : Option Definition) : Prop :=
  ∃ q n, p = some q ∧ s.type? n = some q ∧ Spec.isComposite q = true ∧ (q.kind = .union → q.fields = [])

theorem Good.wp {s : Schema} {p : Option Definition} (h : Good s p) (y : Selection) :
    Spec.nodeWellParented ⟨p, y⟩ = true := by
  obtain ⟨q, n, rfl, _, hc, hu⟩ := h
  unfold Spec.nodeWellParented
  simp only [Bool.and_eq_true, Bool.or_eq_true, bne_iff_ne, ne_eq, List.isEmpty_iff]
  refine ⟨hc, ?_⟩
  by_cases hk : q.kind = .union
  · exact Or.inr (hu hk)
  · exact Or.inl hk

theorem good_of_type {s : Schema} (hu : ∀ p ∈ s.types, p.2.kind = .union → p.2.fields = []) {n : Name} {q : Definition}
    (hq : s.type? n = some q) (hc : Spec.isComposite q = true) : Good s (some q) :=
  ⟨q, n, rfl, hq, hc, fun hk => hu (n, q) (mem_of_lookup' _ _ _ hq) hk⟩

/-- what is known locally of a node whose parent is `Good` -/
def LocalOK (s : Schema) (p : Option Definition) (y : Selection) : Prop :=
  match y with
  | .field _ nm _ _ sub _ => ∀ q, p = some q →
      ∃ fd, Spec.fieldDefOn q nm = some fd ∧
        (sub ≠ .nil → ∃ ft, s.type? fd.type.name = some ft ∧ Spec.isComposite ft = true)
  | .inline tc _ _ _ => tc ≠ [] → ∃ q', s.type? tc = some q' ∧ Spec.isComposite q' = true
  | .spread .. => True

section
variable (s : Schema) (d : QueryDoc) (hu : ∀ p ∈ s.types, p.2.kind = .union → p.2.fields = [])
  (Loc : ∀ p' y, InDocW s.view d p' y → (⟨p', y⟩ : Spec.TSel) ∈ Spec.docSels s d → Good s p' → LocalOK s p' y)
include hu Loc

mutual
  theorem wp_sel : ∀ (x : Selection) (p : Option Definition), Good s p →
      (∀ p' y, InSelW s.view p x p' y → InDocW s.view d p' y) →
      (∀ t ∈ Spec.typedSel s p x, t ∈ Spec.docSels s d) →
      ∀ t ∈ Spec.typedSel s p x, Spec.nodeWellParented t = true
    | .field al nm args dirs sub pos, p, hg, hW, hD, t, ht => by
      have hnode := hg.wp (.field al nm args dirs sub pos)
      rw [Spec.typedSel] at ht
      rcases List.mem_cons.1 ht with rfl | ht
      · exact hnode
      · have hloc := Loc p _ (hW _ _ (InSelW.self _ _)) (hD _ (typedSel_head s p _)) hg
        have hnext : wNext s.view p nm = Spec.fieldType s p nm := wNext_eq s p al nm args dirs sub pos hnode
        obtain ⟨q, n, rfl, hn, hc, hun⟩ := hg
        obtain ⟨fd, hfd, hsub⟩ := hloc q rfl
        have hne : sub ≠ .nil := by intro e; subst e; simp [Spec.typedSels] at ht
        obtain ⟨ft, hft, hcft⟩ := hsub hne
        have hft' : Spec.fieldType s (some q) nm = some ft := by simp [Spec.fieldType, hfd, hft]
        have hg' : Good s (Spec.fieldType s (some q) nm) := by rw [hft']; exact good_of_type hu hft hcft
        exact wp_sels sub _ hg'
          (fun p' y hi => hW p' y (InSelW.fieldSub _ _ _ _ _ _ _ _ _ (hnext ▸ hi)))
          (fun t ht => hD t (by simp only [Spec.typedSel, List.mem_cons]; exact Or.inr ht)) t ht
    | .spread nm dirs pos, p, hg, hW, hD, t, ht => by
      rw [Spec.typedSel] at ht
      rw [List.mem_singleton.1 ht]
      exact hg.wp _
    | .inline tc dirs sub pos, p, hg, hW, hD, t, ht => by
      have hnode := hg.wp (.inline tc dirs sub pos)
      rw [Spec.typedSel] at ht
      rcases List.mem_cons.1 ht with rfl | ht
      · exact hnode
      · have hloc := Loc p _ (hW _ _ (InSelW.self _ _)) (hD _ (typedSel_head s p _)) hg
        have hnext : wInline s.view p tc = Spec.inlineType s p tc := wInline_eq s p tc
        have hg' : Good s (Spec.inlineType s p tc) := by
          unfold Spec.inlineType
          by_cases htc : tc = []
          · simp [htc]; exact hg
          · obtain ⟨q', hq', hc'⟩ := hloc htc
            simp only [beq_iff_eq, htc, if_false]
            rw [hq']; exact good_of_type hu hq' hc'
        exact wp_sels sub _ hg'
          (fun p' y hi => hW p' y (InSelW.inlineSub _ _ _ _ _ _ _ (hnext ▸ hi)))
          (fun t ht => hD t (by simp only [Spec.typedSel, List.mem_cons]; exact Or.inr ht)) t ht
  theorem wp_sels : ∀ (xs : Selections) (p : Option Definition), Good s p →
      (∀ p' y, InSelsW s.view p xs p' y → InDocW s.view d p' y) →
      (∀ t ∈ Spec.typedSels s p xs, t ∈ Spec.docSels s d) →
      ∀ t ∈ Spec.typedSels s p xs, Spec.nodeWellParented t = true
    | .nil, p, _, _, _, t, ht => by simp [Spec.typedSels] at ht
    | .cons x rest, p, hg, hW, hD, t, ht => by
      rw [Spec.typedSels] at ht
      rcases List.mem_append.1 ht with ht | ht
      · exact wp_sel x p hg (fun p' y hi => hW p' y (InSelsW.head _ _ _ _ _ hi))
          (fun t ht => hD t (by simp only [Spec.typedSels, List.mem_append]; exact Or.inl ht)) t ht
      · exact wp_sels rest p hg (fun p' y hi => hW p' y (InSelsW.tail _ _ _ _ _ hi))
          (fun t ht => hD t (by simp only [Spec.typedSels, List.mem_append]; exact Or.inr ht)) t ht
end

/-- the induction, from the roots of the document -/
theorem wellParented_of_local (hops : ∀ op ∈ d.ops, Good s (Spec.rootDef s op.op))
    (hfrags : ∀ f ∈ d.frags, Good s (s.type? f.typeCond)) : Spec.wellParented s d = true := by
  unfold Spec.wellParented
  rw [List.all_eq_true]
  intro t ht
  have ht0 := ht
  unfold Spec.docSels at ht
  rcases List.mem_append.1 ht with ht | ht
  · obtain ⟨op, hop, ht⟩ := List.mem_flatMap.1 ht
    refine wp_sels s d hu Loc op.sel _ (hops op hop) (fun p' y hi => Or.inl ⟨op, hop, ?_⟩) (fun t ht => ?_) t ht
    · rw [opRoot_def]; exact hi
    · unfold Spec.docSels
      exact List.mem_append_left _ (List.mem_flatMap.2 ⟨op, hop, ht⟩)
  · obtain ⟨f, hf, ht⟩ := List.mem_flatMap.1 ht
    refine wp_sels s d hu Loc f.sel _ (hfrags f hf) (fun p' y hi => Or.inr ⟨f, hf, hi⟩) (fun t ht => ?_) t ht
    unfold Spec.docSels
    exact List.mem_append_right _ (List.mem_flatMap.2 ⟨f, hf, ht⟩)

end

/-! ### the schema side -/

theorem kind_cases (k : DefKind) (h : Gql.Spec.isOutputKind k = true) :
    (k = .scalar ∨ k = .enum) ∨ (k = .object ∨ k = .interface ∨ k = .union) := by
  cases k <;> simp [Gql.Spec.isOutputKind] at h ⊢

/-- the type of a field that is defined on a composite type of the schema resolves to a leaf or a
    composite type -/
theorem field_type_resolves {s : Schema} (S : WPSchema s) {n : Name} {q : Definition} (hq : s.type? n = some q)
    {nm : Name} {fd : FieldDef} (hfd : Spec.fieldDefOn q nm = some fd) :
    ∃ ft, s.type? fd.type.name = some ft ∧ (Spec.isLeaf ft = true ∨ Spec.isComposite ft = true) := by
  unfold Spec.fieldDefOn at hfd
  split at hfd
  · split at hfd
    · cases hfd
      obtain ⟨dd, hdd, hk⟩ := S.string
      refine ⟨dd, hdd, Or.inl ?_⟩
      simp [Spec.isLeaf, hk]
    · cases hfd
  · split at hfd
    · rename_i hk
      have hmem : fd ∈ q.fields := List.mem_of_find?_eq_some hfd
      have := S.fieldTypes (n, q) (mem_of_lookup' _ _ _ hq) fd hmem
      unfold Gql.Spec.typeIs at this
      cases hl : s.types.lookup fd.type.name with
      | none => rw [hl] at this; cases this
      | some ft =>
        rw [hl] at this
        refine ⟨ft, hl, ?_⟩
        have hpos : Gql.Spec.fieldPosition q.kind = Gql.Spec.isOutputKind := by
          simp only [Bool.or_eq_true, beq_iff_eq] at hk
          rcases hk with hk | hk <;> rw [hk] <;> rfl
        rw [hpos] at this
        rcases kind_cases ft.kind this with (h | h) | (h | h | h)
        · exact Or.inl (by simp [Spec.isLeaf, h])
        · exact Or.inl (by simp [Spec.isLeaf, h])
        · exact Or.inr (by simp [Spec.isComposite, h])
        · exact Or.inr (by simp [Spec.isComposite, h])
        · exact Or.inr (by simp [Spec.isComposite, h])
    · cases hfd

/-- the roots are `Good` -/
theorem good_root {s : Schema} (S : WPSchema s) {op : Operation} (h : (Spec.rootDef s op).isSome = true) :
    Good s (Spec.rootDef s op) := by
  unfold Spec.rootDef at h ⊢
  cases hr : Spec.rootName s op with
  | none => rw [hr] at h; simp at h
  | some n =>
    rw [hr] at h
    simp only [Option.bind_some] at h ⊢
    cases hq : s.type? n with
    | none => rw [hq] at h; simp at h
    | some q =>
      have hmem : some n ∈ [s.query, s.mutation, s.subscription] := by
        unfold Spec.rootName at hr
        split at hr
        · simp [hr]
        · split at hr
          · simp [hr]
          · split at hr
            · simp [hr]
            · cases hr
      have hobj := List.all_eq_true.1 S.roots (some n) hmem
      simp only [Gql.Spec.typeIs] at hobj
      have hq' : s.types.lookup n = some q := hq
      rw [hq'] at hobj
      have hk : q.kind = .object := by simpa using hobj
      exact ⟨q, n, rfl, hq, by simp [Spec.isComposite, hk], fun hu => by rw [hk] at hu; cases hu⟩

theorem good_typeCond {s : Schema} (S : WPSchema s) {tc : Name} (h1 : (s.type? tc).isSome = true)
    (h2 : (match s.type? tc with | some t => Spec.isComposite t | none => true) = true) : Good s (s.type? tc) := by
  cases hq : s.type? tc with
  | none => rw [hq] at h1; simp at h1
  | some q =>
    rw [hq] at h2
    exact good_of_type S.unions hq h2

/-! ### from the specification predicates -/

theorem wellParented_of_spec {s : Schema} (S : WPSchema s) (d : QueryDoc)
    (h1 : Spec.knownRootType s d = true) (h2 : Spec.fragmentSpreadTypeExistence s d = true)
    (h3 : Spec.fragmentsOnCompositeTypes s d = true) (h4 : Spec.fieldSelections s d = true)
    (h5 : Spec.leafFieldSelections s d = true) : Spec.wellParented s d = true := by
  unfold Spec.knownRootType at h1
  unfold Spec.fragmentSpreadTypeExistence at h2
  unfold Spec.fragmentsOnCompositeTypes at h3
  unfold Spec.fieldSelections at h4
  unfold Spec.leafFieldSelections at h5
  rw [List.all_eq_true] at h1 h2 h3 h4 h5
  refine wellParented_of_local s d S.unions ?_ (fun op hop => good_root S (h1 op hop)) (fun f hf => ?_)
  · intro p' y _ hmem hg
    obtain ⟨q, n, rfl, hq, hc, _⟩ := hg
    cases y with
    | field al nm args dirs sub pos =>
      intro q' hq'
      cases hq'
      have hfs := h4 _ hmem
      simp only at hfs
      cases hfd : Spec.fieldDefOn q nm with
      | none => rw [hfd] at hfs; simp at hfs
      | some fd =>
        refine ⟨fd, rfl, fun hne => ?_⟩
        obtain ⟨ft, hft, hlc⟩ := field_type_resolves S hq hfd
        refine ⟨ft, hft, ?_⟩
        rcases hlc with hl | hcft
        · have hlf := h5 _ hmem
          have hnt : Spec.fieldNodeType s ⟨some q, .field al nm args dirs sub pos⟩ = some ft := by
            simp [Spec.fieldNodeType, hfd, hft]
          rw [hnt] at hlf
          simp only [Spec.leafShapeOk, hl, if_true, Spec.subSelectionOf] at hlf
          cases sub with
          | nil => exact absurd rfl hne
          | cons x r => simp [Selections.toList] at hlf
        · exact hcft
    | spread nm dirs pos => trivial
    | inline tc dirs sub pos =>
      intro htc
      have hmemtc : tc ∈ Spec.typeConditions s d := by
        unfold Spec.typeConditions
        refine List.mem_append_right _ (List.mem_filterMap.2 ⟨_, hmem, ?_⟩)
        simp [htc]
      have e1 := h2 tc hmemtc
      have e2 := h3 tc hmemtc
      cases hq' : s.type? tc with
      | none => rw [hq'] at e1; simp at e1
      | some q' => rw [hq'] at e2; exact ⟨q', rfl, e2⟩
  · have hmemtc : f.typeCond ∈ Spec.typeConditions s d := by
      unfold Spec.typeConditions
      exact List.mem_append_left _ (List.mem_map_of_mem hf)
    exact good_typeCond S (h2 _ hmemtc) (h3 _ hmemtc)

/-! ### from the rules -/

theorem wellParented_of_rules {s : Schema} (S : WPSchema s) (d : QueryDoc)
    (h1 : Spec.knownRootType s d = true) (h2 : Spec.fragmentSpreadTypeExistence s d = true)
    (h3 : Spec.fragmentsOnCompositeTypes s d = true)
    (hF : validate [fieldsOnCorrectType] s d = .ok []) (hS : validate [scalarLeafs] s d = .ok []) :
    Spec.wellParented s d = true := by
  obtain ⟨evs, hw⟩ := walkDoc_isSome s.view d
  unfold fieldsOnCorrectType at hF
  unfold scalarLeafs at hS
  rw [validate_stateless_nil s d _ _ evs hw] at hF hS
  unfold Spec.knownRootType at h1
  unfold Spec.fragmentSpreadTypeExistence at h2
  unfold Spec.fragmentsOnCompositeTypes at h3
  rw [List.all_eq_true] at h1 h2 h3
  refine wellParented_of_local s d S.unions ?_ (fun op hop => good_root S (h1 op hop)) (fun f hf => ?_)
  · intro p' y hin hmem hg
    have hwpn := hg.wp y
    obtain ⟨q, n, rfl, hq, hc, _⟩ := hg
    cases y with
    | field al nm args dirs sub pos =>
      intro q' hq'
      cases hq'
      obtain ⟨e, he, hp⟩ := walkDoc_hasW s.view d evs hw _ _ hin
      have hdef : wFieldDef (some q) nm = Spec.fieldDefOn q nm := by
        have := wFieldDef_eq (some q) al nm args dirs sub pos hwpn
        simpa using this
      rw [hdef] at hp
      cases hfd : Spec.fieldDefOn q nm with
      | none =>
        rw [hfd] at hp
        have := hF e he
        simp [fieldsOnCorrectTypeStep, hp] at this
      | some fd =>
        rw [hfd] at hp
        refine ⟨fd, rfl, fun hne => ?_⟩
        obtain ⟨ft, hft, hlc⟩ := field_type_resolves S hq hfd
        refine ⟨ft, hft, ?_⟩
        rcases hlc with hl | hcft
        · have := hS e he
          have hft' : s.view.type? fd.type.name = some ft := hft
          have hleaf : isLeafType ft = true := by
            simp only [Spec.isLeaf, Bool.or_eq_true, beq_iff_eq] at hl
            simp only [isLeafType, Bool.or_eq_true, beq_iff_eq]
            exact hl.symm
          cases sub with
          | nil => exact absurd rfl hne
          | cons x r => simp [scalarLeafsStep, hp, hft', hleaf, selEmpty] at this
        · exact hcft
    | spread nm dirs pos => trivial
    | inline tc dirs sub pos =>
      intro htc
      have hmemtc : tc ∈ Spec.typeConditions s d := by
        unfold Spec.typeConditions
        refine List.mem_append_right _ (List.mem_filterMap.2 ⟨_, hmem, ?_⟩)
        simp [htc]
      have e1 := h2 tc hmemtc
      have e2 := h3 tc hmemtc
      cases hq' : s.type? tc with
      | none => rw [hq'] at e1; simp at e1
      | some q' => rw [hq'] at e2; exact ⟨q', rfl, e2⟩
  · have hmemtc : f.typeCond ∈ Spec.typeConditions s d := by
      unfold Spec.typeConditions
      exact List.mem_append_left _ (List.mem_map_of_mem hf)
    exact good_typeCond S (h2 _ hmemtc) (h3 _ hmemtc)

#print axioms wellParented_of_spec
#print axioms wellParented_of_rules

end Gql.EndToEnd
