import GqlProofs.EndToEnd.DocValues
import GqlProofs.ValSpec.ValuesCorrectOneOfRun
import GqlProofs.ValSpec.ReachSpec
import GqlProofs.Validate.OpEvents
set_option linter.unusedSimpArgs false
set_option linter.unusedVariables false
/-
  END TO END, part 5: node identity by position.  The offsets a parsed document records for its
  variable usages and fragment definitions are pairwise different (`parsed_posDoc_nodup`); the
  specification's typed enumeration of the variable usages (`allUses`) is contained in the
  structural one, whose offsets are a sublist of `posDoc d`.  Hence `usePosDistinct` and
  `FragPosDistinct`.
-/
namespace Gql.EndToEnd
open Gql Gql.Parser Gql.Format Gql.Validate

/-! ### list helpers -/

theorem eq_of_nodup_map {α β : Type} {f : α → β} : ∀ {l : List α}, (l.map f).Nodup →
    ∀ {a b : α}, a ∈ l → b ∈ l → f a = f b → a = b
  | [], _, _, _, ha, _, _ => by cases ha
  | x :: xs, h, a, b, ha, hb, hab => by
    rw [List.map_cons, List.nodup_cons] at h
    rcases List.mem_cons.1 ha with ha' | ha' <;> rcases List.mem_cons.1 hb with hb' | hb'
    · rw [ha', hb']
    · subst ha'
      exact absurd (hab ▸ List.mem_map_of_mem hb') h.1
    · subst hb'
      exact absurd (hab ▸ List.mem_map_of_mem ha') h.1
    · exact eq_of_nodup_map h.2 ha' hb' hab

theorem flatMap_sublist {α β : Type} {f g : α → List β} (h : ∀ x, (f x).Sublist (g x)) :
    ∀ l : List α, (l.flatMap f).Sublist (l.flatMap g)
  | [] => List.Sublist.slnil
  | x :: xs => by
    rw [List.flatMap_cons, List.flatMap_cons]
    exact List.Sublist.append (h x) (flatMap_sublist h xs)

/-! ### the offsets of the specification's usages are the recorded offsets -/

mutual
  theorem usesInValue_starts (s : Schema) : ∀ (v : Value) (exp : Option GType) (ld : Bool) (oo : Option Name),
      (Spec.usesInValue s exp ld oo v).map (·.pos.start) = usesV v
    | .mk k raw ch p, exp, ld, oo => by
      unfold Spec.usesInValue usesV
      cases k <;> simp only [List.map_cons, List.map_nil]
      · exact usesInItems_starts s ch _
      · split
        · split
          · exact usesInFields_starts s ch _
          · exact usesInFields_starts s ch _
        · exact usesInFields_starts s ch _
  theorem usesInItems_starts (s : Schema) : ∀ (ch : Children) (e : Option GType),
      (Spec.usesInItems s e ch).map (·.pos.start) = usesCh ch
    | .nil, e => by simp [Spec.usesInItems, usesCh]
    | .cons n v p rest, e => by
      simp only [Spec.usesInItems, usesCh, List.map_append, usesInValue_starts s v, usesInItems_starts s rest]
  theorem usesInFields_starts (s : Schema) : ∀ (ch : Children) (dd : Option Definition),
      (Spec.usesInFields s dd ch).map (·.pos.start) = usesCh ch
    | .nil, dd => by simp [Spec.usesInFields, usesCh]
    | .cons n v p rest, dd => by
      simp only [Spec.usesInFields, usesCh, List.map_append, usesInFields_starts s rest]
      congr 1
      split <;> exact usesInValue_starts s v _ _ _
end

theorem usesInArgs_starts (s : Schema) (defs : Option (List ArgDef)) :
    ∀ args : List Argument, (Spec.usesInArgs s defs args).map (·.pos.start) = usesArgs args
  | [] => rfl
  | a :: rest => by
    have ih := usesInArgs_starts s defs rest
    simp only [Spec.usesInArgs, usesArgs, List.flatMap_cons, List.map_append] at ih ⊢
    rw [ih]
    congr 1
    split <;> exact usesInValue_starts s a.value _ _ _

theorem usesInDirs_starts (s : Schema) : ∀ dirs : List Directive,
    (Spec.usesInDirs s dirs).map (·.pos.start) = usesDirs dirs
  | [] => rfl
  | dir :: rest => by
    have ih := usesInDirs_starts s rest
    simp only [Spec.usesInDirs, usesDirs, List.flatMap_cons, List.map_append] at ih ⊢
    rw [ih, usesInArgs_starts]

mutual
  theorem usesInSel_starts (s : Schema) : ∀ (x : Selection) (parent : Option Definition),
      (Spec.usesInSel s parent x).map (·.pos.start) = usesSel x
    | .field al nm args dirs sub p, parent => by
      simp only [Spec.usesInSel, usesSel, List.map_append, usesInArgs_starts, usesInDirs_starts,
        usesInSels_starts s sub]
    | .spread nm dirs p, parent => by
      simp only [Spec.usesInSel, usesSel, usesInDirs_starts]
    | .inline tc dirs sub p, parent => by
      simp only [Spec.usesInSel, usesSel, List.map_append, usesInDirs_starts, usesInSels_starts s sub]
  theorem usesInSels_starts (s : Schema) : ∀ (xs : Selections) (parent : Option Definition),
      (Spec.usesInSels s parent xs).map (·.pos.start) = usesSels xs
    | .nil, parent => by simp [Spec.usesInSels, usesSels]
    | .cons x rest, parent => by
      simp only [Spec.usesInSels, usesSels, List.map_append, usesInSel_starts s x, usesInSels_starts s rest]
end

theorem usesInOperation_starts (s : Schema) (op : OperationDef) :
    ((Spec.usesInOperation s op).map (·.pos.start)).Sublist (usesOp op) := by
  unfold Spec.usesInOperation usesOp
  rw [List.map_append, List.map_append, usesInDirs_starts, usesInSels_starts, List.map_flatMap]
  refine List.Sublist.append (List.Sublist.append ?_ (List.Sublist.refl _)) (List.Sublist.refl _)
  refine flatMap_sublist (fun v => ?_) op.vars
  rw [usesInDirs_starts]
  exact List.sublist_append_right _ _

theorem usesInFragment_starts (s : Schema) (f : FragmentDef) :
    ((Spec.usesInFragment s f).map (·.pos.start)).Sublist (posFrag f) := by
  unfold Spec.usesInFragment posFrag usesFrag
  rw [List.map_append, usesInDirs_starts, usesInSels_starts, List.append_assoc]
  exact List.Sublist.cons _ (List.sublist_append_right _ _)

/-- the usages of the document, structurally: operation by operation, fragment by fragment -/
def structUses (s : Schema) (d : QueryDoc) : List Spec.VarUse :=
  d.ops.flatMap (Spec.usesInOperation s) ++ d.frags.flatMap (Spec.usesInFragment s)

theorem structUses_starts (s : Schema) (d : QueryDoc) :
    ((structUses s d).map (·.pos.start)).Sublist (posDoc d) := by
  unfold structUses posDoc
  rw [List.map_append, List.map_flatMap, List.map_flatMap]
  exact List.Sublist.append (flatMap_sublist (usesInOperation_starts s) d.ops)
    (flatMap_sublist (usesInFragment_starts s) d.frags)

theorem fragStarts_sublist (d : QueryDoc) : (d.frags.map (·.pos.start)).Sublist (posDoc d) := by
  unfold posDoc
  refine List.Sublist.trans ?_ (List.sublist_append_right _ _)
  have : d.frags.map (·.pos.start) = d.frags.flatMap (fun f => [f.pos.start]) := by
    induction d.frags with
    | nil => rfl
    | cons f r ih => simp [ih]
  rw [this]
  refine flatMap_sublist (fun f => ?_) d.frags
  unfold posFrag
  exact List.Sublist.cons_cons _ (List.nil_sublist _)

/-! ### typed enumeration ⊆ structural enumeration -/

theorem node_uses_sub_doc (s : Schema) (d : QueryDoc) (t : Spec.TSel) (ht : t ∈ Spec.docSels s d)
    (u : Spec.VarUse) (hu : u ∈ nodeUsesV s t) : u ∈ structUses s d := by
  unfold Spec.docSels at ht
  unfold structUses
  rcases List.mem_append.1 ht with ht | ht
  · obtain ⟨op, hop, ht⟩ := List.mem_flatMap.1 ht
    exact List.mem_append_left _ (List.mem_flatMap.2 ⟨op, hop,
      List.mem_append_right _ (nodeUses_sub_usesInSels s u op.sel _ t ht hu)⟩)
  · obtain ⟨f, hf, ht⟩ := List.mem_flatMap.1 ht
    exact List.mem_append_right _ (List.mem_flatMap.2 ⟨f, hf,
      List.mem_append_right _ (nodeUses_sub_usesInSels s u f.sel _ t ht hu)⟩)

theorem mem_usesInDirs {s : Schema} {ds : List Directive} {dir : Directive} (hd : dir ∈ ds) {u : Spec.VarUse}
    (hu : u ∈ Spec.usesInArgs s ((s.directive? dir.name).map (·.args)) dir.args) : u ∈ Spec.usesInDirs s ds :=
  List.mem_flatMap.2 ⟨dir, hd, hu⟩

/-- every usage the specification enumerates through the typing is a usage of an operation or of a
    fragment definition -/
theorem allUses_sub_structUses (s : Schema) (d : QueryDoc) (u : Spec.VarUse) (hu : u ∈ allUses s d) :
    u ∈ structUses s d := by
  unfold allUses at hu
  obtain ⟨site, hsite, hu⟩ := List.mem_flatMap.1 hu
  unfold Spec.argSites at hsite
  rcases List.mem_append.1 hsite with hsite | hsite
  · simp only [Spec.fieldArgSites, List.mem_filterMap] at hsite
    obtain ⟨t, ht, hs⟩ := hsite
    refine node_uses_sub_doc s d t ht u ?_
    unfold nodeUsesV
    cases hsel : t.sel with
    | field al nm args ds sub p =>
      rw [hsel] at hs
      simp only [Option.some.injEq] at hs
      subst hs
      exact List.mem_append_left _ hu
    | spread nm ds p => rw [hsel] at hs; cases hs
    | inline tc ds sub p => rw [hsel] at hs; cases hs
  · simp only [Spec.directiveArgSites, List.mem_map] at hsite
    obtain ⟨dir, hdir, rfl⟩ := hsite
    unfold Spec.allDirectives at hdir
    obtain ⟨dsite, hdsite, hd⟩ := List.mem_flatMap.1 hdir
    have hu' := mem_usesInDirs (s := s) hd hu
    unfold Spec.directiveSites at hdsite
    rcases List.mem_append.1 hdsite with hdsite | hdsite
    · rcases List.mem_append.1 hdsite with hdsite | hdsite
      · obtain ⟨op, hop, hs⟩ := List.mem_flatMap.1 hdsite
        refine List.mem_append_left _ (List.mem_flatMap.2 ⟨op, hop, ?_⟩)
        unfold Spec.usesInOperation
        rcases List.mem_cons.1 hs with rfl | hs
        · exact List.mem_append_left _ (List.mem_append_right _ hu')
        · obtain ⟨vd, hvd, rfl⟩ := List.mem_map.1 hs
          exact List.mem_append_left _ (List.mem_append_left _ (List.mem_flatMap.2 ⟨vd, hvd, hu'⟩))
      · obtain ⟨f, hf, rfl⟩ := List.mem_map.1 hdsite
        refine List.mem_append_right _ (List.mem_flatMap.2 ⟨f, hf, ?_⟩)
        unfold Spec.usesInFragment
        exact List.mem_append_left _ hu'
    · obtain ⟨t, ht, rfl⟩ := List.mem_map.1 hdsite
      refine node_uses_sub_doc s d t ht u ?_
      unfold nodeUsesV
      exact List.mem_append_right _ hu'

/-! ### the conditions -/

/-- two variable usages of the document that start at the same offset are the same usage -/
theorem usePosDistinct_of_nodup (s : Schema) (d : QueryDoc) (h : (posDoc d).Nodup) : usePosDistinct s d = true := by
  have hn : ((structUses s d).map (·.pos.start)).Nodup := h.sublist (structUses_starts s d)
  unfold usePosDistinct
  rw [List.all_eq_true]
  intro u hu
  rw [List.all_eq_true]
  intro u' hu'
  by_cases hp : u.pos.start = u'.pos.start
  · have := eq_of_nodup_map hn (allUses_sub_structUses s d u hu) (allUses_sub_structUses s d u' hu') hp
    subst this
    simp
  · simp [hp]

/-- fragment definitions with the same position are the same definition -/
theorem fragPosDistinct_of_nodup (d : QueryDoc) (h : (posDoc d).Nodup) : FragPosDistinct d := by
  have hn : (d.frags.map (·.pos.start)).Nodup := h.sublist (fragStarts_sublist d)
  intro f hf g hg hpos
  exact eq_of_nodup_map hn hf hg (by rw [hpos])

end Gql.EndToEnd
