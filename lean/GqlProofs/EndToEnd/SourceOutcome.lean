import GqlProofs.EndToEnd.SourceWitness
set_option linter.unusedSimpArgs false
set_option linter.unusedVariables false
/-
  END TO END, part 11: the results of the kernel computation `SourceWitness.check_true`, by name.
-/
namespace Gql.EndToEnd.SourceWitness
open Gql Gql.Lexer Gql.Parser Gql.Load Gql.Validate Gql.Validate.Rules

/-! ### the results, by name -/

/-- the merged schema document -/
def sdW : SchemaDoc := match parseSchemas 0 srcs with | .ok sd => sd | _ => SchemaDoc.empty
/-- the loaded schema -/
def sW : Schema := match load sdW with | .ok s => s | _ => Schema.empty
/-- the parsed request -/
def docOf (q : Bytes) : QueryDoc := match parseQuery 0 q with | .ok d => d | _ => { ops := [], frags := [] }

/-- the facts computed about the request `q`: it parses, and the four verdicts are `a b c f` -/
def Req (q : Bytes) (a b c f : Bool) : Prop :=
  parseQuery 0 q = .ok (docOf q) ∧ subscriptionsSelectRoot sW (docOf q) = a ∧
    defaultedLocationsHarmless sW (docOf q) = b ∧ Spec.specValid sW (docOf q) = c ∧
    decide (validate [variablesInAllowedPosition] sW (docOf q) = .ok []) = f

theorem req_of_verdict {q : Bytes} {a b c f : Bool} (h : verdict sW q = some (a, b, c, f)) : Req q a b c f := by
  obtain ⟨d, hd, h1, h2, h3, h4⟩ := verdict_elim h
  have e : docOf q = d := by unfold docOf; rw [hd]
  rw [← e] at hd h1 h2 h3 h4
  exact ⟨hd, h1, h2, h3, h4⟩

structure Outcome : Prop where
  valid : ∀ src ∈ srcs, Utf8.valid src.2
  parsed : parseSchemas 0 srcs = .ok sdW
  prelude : PreludeDeclared sdW
  loaded : load sdW = .ok sW
  good : Req qGood true true true true
  bad : Req qBad true true false true
  subOne : Req qSubOne true true true true
  subZero : Req qSubZero false true false true
  subZeroSilent : silent sW (docOf qSubZero) = true
  locDefault : Req qLocDefault true false true false

theorem outcome : Outcome := by
  have h := check_true
  unfold check at h
  rw [Bool.and_eq_true] at h
  obtain ⟨hu, h⟩ := h
  split at h
  · rename_i sd hsd
    have e1 : sdW = sd := by unfold sdW; rw [hsd]
    rw [Bool.and_eq_true] at h
    obtain ⟨hp, h⟩ := h
    split at h
    · rename_i s hs
      rw [← e1] at hs hp
      have e2 : sW = s := by unfold sW; rw [hs]
      rw [← e2] at h
      simp only [Bool.and_eq_true, beq_iff_eq] at h
      obtain ⟨⟨⟨⟨⟨h1, h2⟩, h3⟩, h4⟩, h5⟩, h6⟩ := h
      refine ⟨?_, e1 ▸ hsd, preludeDeclared_of_B hp, e2 ▸ hs, req_of_verdict h1, req_of_verdict h2, req_of_verdict h3,
        req_of_verdict h4, ?_, req_of_verdict h6⟩
      · intro src hsrc
        exact List.all_eq_true.1 hu src hsrc
      · unfold silentOn at h5
        split at h5
        · rename_i d hd
          have e : docOf qSubZero = d := by unfold docOf; rw [hd]
          rw [e]; exact h5
        · cases h5
    · cases h
  · cases h

#print axioms outcome

end Gql.EndToEnd.SourceWitness
