import GqlModel.Gen.Prelude
import GqlProofs.EndToEnd.SourceWitness
import GqlProofs.Parser.ResultsMulti
/-
  The prelude inside the model.  `Gen.preludeBytes` is regenerated on every run from
  /repo/validator/imported/prelude.graphql (the text `validator.Prelude` embeds and `LoadSchema` puts in
  front of the caller's sources, marked BuiltIn).  One kernel evaluation runs the lexer and parser MODELS
  on it and checks that the parsed document declares every built-in scalar, every introspection type and
  every built-in directive: `PreludeDeclared`, until now a hypothesis of the end-to-end theorems ("the
  model contains no prelude text"), becomes a theorem about every document that `ParseSchemas` merges from
  the prelude followed by any sources.
-/
namespace Gql.EndToEnd.Prelude
open Gql Gql.Parser Gql.Load Gql.EndToEnd.SourceWitness

/-- parse the regenerated prelude text with the parser model (source index 0, BuiltIn) and test the declarations -/
def preludeChecked : Option Bool :=
  match parseSchemaSrc 0 0 true Gen.preludeBytes with
  | .ok d => some (preludeDeclaredB d)
  | _ => none

/-- ONE KERNEL EVALUATION of lexer + parser model over the 8 kB of the prelude -/
theorem prelude_checked : preludeChecked = some true := by decide +kernel

theorem prelude_parses : ∃ d, parseSchemaSrc 0 0 true Gen.preludeBytes = .ok d ∧ PreludeDeclared d := by
  have h := prelude_checked
  unfold preludeChecked at h
  split at h
  · rename_i d hd
    exact ⟨d, hd, preludeDeclared_of_B (by simpa using h)⟩
  · cases h

/-- the prelude is well-formed UTF-8 (the hypothesis the end-to-end theorems make about every source) -/
theorem valid_of_ascii (inp : Bytes) (h : ∀ b ∈ inp, b < 128) : Lexer.Utf8.valid inp := by
  refine (Lexer.Utf8.valid_iff inp).2 ⟨inp, ?_, ?_⟩
  · intro c hc
    have := h c hc
    first | (unfold Gql.Lexer.Spec.IsScalar; omega) | (unfold Gql.IsScalar; omega) | (simp only [Gql.Lexer.Spec.IsScalar]; omega)
  · induction inp with
    | nil => rfl
    | cons b rest ih =>
      have hb : b < 128 := h b (by simp)
      have ih' := ih (fun x hx => h x (by simp [hx]))
      simp only [utf8Encode, List.flatMap_cons] at ih' ⊢
      rw [ih']
      simp [encodeRune, hb]

theorem prelude_ascii : Gen.preludeBytes.all (· < 128) = true := by decide +kernel

theorem prelude_utf8 : Lexer.Utf8.valid Gen.preludeBytes :=
  valid_of_ascii _ (fun b hb => by simpa using (List.all_eq_true.1 prelude_ascii) b hb)

theorem declaresKind_merge_left {a b : SchemaDoc} {n : Name} {k : DefKind} (h : DeclaresKind a n k) :
    DeclaresKind (a.merge b) n k := by
  obtain ⟨d, hd, h1, h2⟩ := h
  exact ⟨d, by simp [SchemaDoc.merge, hd], h1, h2⟩

theorem declaresKind_merge_right {a b : SchemaDoc} {n : Name} {k : DefKind} (h : DeclaresKind b n k) :
    DeclaresKind (a.merge b) n k := by
  obtain ⟨d, hd, h1, h2⟩ := h
  exact ⟨d, by simp [SchemaDoc.merge, hd], h1, h2⟩

theorem preludeDeclared_merge_left {a : SchemaDoc} (b : SchemaDoc) (h : PreludeDeclared a) : PreludeDeclared (a.merge b) :=
  ⟨fun n hn => declaresKind_merge_left (h.scalars n hn), fun p hp => declaresKind_merge_left (h.types p hp),
   fun n hn => by
     obtain ⟨dd, hd, he⟩ := h.directives n hn
     exact ⟨dd, by simp [SchemaDoc.merge, hd], he⟩⟩

theorem preludeDeclared_merge_right (a : SchemaDoc) {b : SchemaDoc} (h : PreludeDeclared b) : PreludeDeclared (a.merge b) :=
  ⟨fun n hn => declaresKind_merge_right (h.scalars n hn), fun p hp => declaresKind_merge_right (h.types p hp),
   fun n hn => by
     obtain ⟨dd, hd, he⟩ := h.directives n hn
     exact ⟨dd, by simp [SchemaDoc.merge, hd], he⟩⟩

/-- merging further sources keeps what is declared -/
theorem parseSchemasFrom_preludeDeclared {L : Nat} {srcs : List (Bool × Bytes)} {i : Nat} {acc sd : SchemaDoc}
    (h : parseSchemasFrom L i acc srcs = .ok sd) (hacc : PreludeDeclared acc) : PreludeDeclared sd := by
  induction srcs generalizing i acc with
  | nil => simp [parseSchemasFrom] at h; subst h; exact hacc
  | cons x rest ih =>
    obtain ⟨bi, inp⟩ := x
    unfold parseSchemasFrom at h
    cases h1 : parseSchemaSrc L i bi inp with
    | ok d1 => rw [h1] at h; exact ih h (preludeDeclared_merge_left d1 hacc)
    | error e => rw [h1] at h; cases h
    | outOfFuel => rw [h1] at h; cases h

/-- **what `LoadSchema` hands to the loader declares the prelude**: for ANY sources after the prelude
    (marked BuiltIn, first — `gqlparser.LoadSchema`, `validator.LoadSchema`) and under any token limit, the
    merged document satisfies `PreludeDeclared` -/
theorem sources_with_prelude_declared {L : Nat} {srcs : List (Bool × Bytes)} {sd : SchemaDoc}
    (h : parseSchemas L ((true, Gen.preludeBytes) :: srcs) = .ok sd) : PreludeDeclared sd := by
  obtain ⟨d0, hd0, hp0⟩ := prelude_parses
  unfold parseSchemas parseSchemasFrom at h
  cases h1 : parseSchemaSrc L 0 true Gen.preludeBytes with
  | ok d1 =>
    rw [h1] at h
    have : d1 = d0 := by
      have := parseSchemaSrc_mono (stricter_zero L) 0 true Gen.preludeBytes d1 h1
      rw [hd0] at this; cases this; rfl
    subst this
    exact parseSchemasFrom_preludeDeclared h (preludeDeclared_merge_right _ hp0)
  | error e => rw [h1] at h; cases h
  | outOfFuel => rw [h1] at h; cases h

/-- the prelude followed by one user source: `ParseSchemas` and the loader model both succeed -/
def loadsWithPrelude (user : Bytes) : Bool :=
  match parseSchemas 0 [(true, Gen.preludeBytes), (false, user)] with
  | .ok sd => (match load sd with | .ok _ => true | _ => false)
  | _ => false

/-- kernel evaluation of lexer, parser and LOADER models on the prelude and `type Query { a: Int }` -/
theorem prelude_and_user_source_load : loadsWithPrelude (str "type Query { a: Int }") = true := by decide +kernel

/-- non-vacuity of the `…_loadSchema` theorems: their hypotheses about the schema sources are satisfiable -/
theorem loadSchema_hyps_satisfiable :
    ∃ sd s, parseSchemas 0 [(true, Gen.preludeBytes), (false, str "type Query { a: Int }")] = .ok sd ∧ load sd = .ok s := by
  have h := prelude_and_user_source_load
  unfold loadsWithPrelude at h
  split at h
  · rename_i sd hsd
    split at h
    · rename_i s hs; exact ⟨sd, s, hsd, hs⟩
    · cases h
  · cases h

end Gql.EndToEnd.Prelude
