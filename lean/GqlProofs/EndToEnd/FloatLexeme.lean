import GqlProofs.ValSpec.ValuesCorrectNum
import GqlProofs.Format.NumExt
/-
  ValuesOfCorrectType, numeric literals, the FLOAT half of `numLiteralsOK`.

  For every text of the shape

      -? Digit+ ( . Digit* )? ( [eE] [+-]? Digit+ )?                (`floatText`)

  (a superset of the IntValue and FloatValue lexemes of the grammar: leading zeros, an empty
  fraction after the point and the absence of both optional parts are admitted) the model of
  `strconv.ParseFloat(·, 64)` (`floatErr`: error or ±Inf) and the specification's finiteness test
  (`Spec.floatLitFinite`) agree: `float_lexeme_agree`.

  Bridge to the lexer: a text that is on its own exactly one number lexeme of the lexer
  specification (`Gql.Format.numRaw k raw`, i.e. `Spec.numberToken raw = some (k, raw, [])`) is a
  `floatText`, and an `intText` when `k = .int`.
-/
namespace Gql.EndToEnd
open Gql Gql.Validate

/- ================= arithmetic: decimal magnitude against a threshold between 10^308 and 10^309 ================= -/

theorem mul_pow_lt (m n k T B : Nat) (hm : m < 10 ^ n) (hT : 10 ^ B < T) (h : n + k ≤ B) : m * 10 ^ k < T := by
  have hpos : 0 < 10 ^ k := Nat.pow_pos (by decide)
  have h1 : m * 10 ^ k < 10 ^ n * 10 ^ k := Nat.mul_lt_mul_of_pos_right hm hpos
  have h2 : 10 ^ n * 10 ^ k = 10 ^ (n + k) := (Nat.pow_add 10 n k).symm
  have h3 : 10 ^ (n + k) ≤ 10 ^ B := Nat.pow_le_pow_right (by decide) h
  omega

theorem le_mul_pow (m n k T B : Nat) (hm : 10 ^ (n - 1) ≤ m) (hT : T ≤ 10 ^ B) (h : B + 1 ≤ n + k) : T ≤ m * 10 ^ k := by
  have h1 : 10 ^ (n - 1) * 10 ^ k ≤ m * 10 ^ k := Nat.mul_le_mul_right _ hm
  have h2 : 10 ^ (n - 1) * 10 ^ k = 10 ^ (n - 1 + k) := (Nat.pow_add 10 (n - 1) k).symm
  have h3 : 10 ^ B ≤ 10 ^ (n - 1 + k) := Nat.pow_le_pow_right (by decide) (by omega)
  omega

theorem lt_mul_pow (m n j T B : Nat) (hm : m < 10 ^ n) (hT : 10 ^ B < T) (h : n ≤ B + j) : m < T * 10 ^ j := by
  have h1 : 10 ^ n ≤ 10 ^ (B + j) := Nat.pow_le_pow_right (by decide) h
  have h2 : 10 ^ (B + j) = 10 ^ B * 10 ^ j := Nat.pow_add 10 B j
  have h3 : 10 ^ B * 10 ^ j ≤ T * 10 ^ j := Nat.mul_le_mul_right _ (Nat.le_of_lt hT)
  omega

theorem mul_pow_le (m n j T B : Nat) (hm : 10 ^ (n - 1) ≤ m) (hT : T ≤ 10 ^ B) (h : B + 1 + j ≤ n) : T * 10 ^ j ≤ m := by
  have h1 : T * 10 ^ j ≤ 10 ^ B * 10 ^ j := Nat.mul_le_mul_right _ hT
  have h2 : 10 ^ B * 10 ^ j = 10 ^ (B + j) := (Nat.pow_add 10 B j).symm
  have h3 : 10 ^ (B + j) ≤ 10 ^ (n - 1) := Nat.pow_le_pow_right (by decide) (by omega)
  omega

/- ================= the two definitions in closed form ================= -/

/-- `floatStatus` after the text has been split: `a` the digits of integer part and fraction without
    leading zeros, `k` = exponent − number of fraction digits -/
def nfStatus (a : List Nat) (k : Int) : NumErr :=
  if a.isEmpty then .none
  else if (a.length : Int) + k > 310 then .range
  else if (a.length : Int) + k < 300 then .none
  else if (if k ≥ 0 then decide (Spec.digitsVal a 0 * 10 ^ k.toNat ≥ 2 ^ 1024 - 2 ^ 970)
           else decide (Spec.digitsVal a 0 ≥ (2 ^ 1024 - 2 ^ 970) * 10 ^ (-k).toNat)) then .range
  else .none

/-- `Spec.floatLitFinite` in the same terms -/
def nfFinite (a : List Nat) (k : Int) : Bool :=
  if Spec.digitsVal a 0 == 0 then true
  else if (a.length : Int) + k ≤ 308 then true
  else if (a.length : Int) - 1 + k ≥ 309 then false
  else if k ≥ 0 then decide (Spec.digitsVal a 0 * 10 ^ k.toNat < 2 ^ 1024 - 2 ^ 970)
  else decide (Spec.digitsVal a 0 < (2 ^ 1024 - 2 ^ 970) * 10 ^ (-k).toNat)

theorem nf_agree_nat (m n T : Nat) (hlo : 10 ^ (n - 1) ≤ m) (hhi : m < 10 ^ n)
    (hT1 : 10 ^ 308 < T) (hT2 : T ≤ 10 ^ 309) (k : Int) :
    ((if (n : Int) + k > 310 then NumErr.range
      else if (n : Int) + k < 300 then .none
      else if (if k ≥ 0 then decide (m * 10 ^ k.toNat ≥ T) else decide (m ≥ T * 10 ^ (-k).toNat)) then .range
      else .none) != .none) =
    !(if (n : Int) + k ≤ 308 then true
      else if (n : Int) - 1 + k ≥ 309 then false
      else if k ≥ 0 then decide (m * 10 ^ k.toNat < T) else decide (m < T * 10 ^ (-k).toNat)) := by
  by_cases hk : 0 ≤ k
  · obtain ⟨kn, rfl⟩ := Int.eq_ofNat_of_zero_le hk
    have hkk : (kn : Int) ≥ 0 := hk
    simp only [hkk, if_true, Int.toNat_natCast]
    by_cases h1 : n + kn ≤ 308
    · have := mul_pow_lt m n kn T 308 hhi hT1 h1
      have h2 : ¬ (n : Int) + kn > 310 := by omega
      have h3 : (n : Int) + kn ≤ 308 := by omega
      have h4 : ¬ m * 10 ^ kn ≥ T := by omega
      by_cases h5 : (n : Int) + kn < 300 <;> simp [h2, h3, h4, h5]
    · by_cases h2 : n + kn = 309
      · have h3 : ¬ (n : Int) + kn > 310 := by omega
        have h4 : ¬ (n : Int) + kn < 300 := by omega
        have h5 : ¬ (n : Int) + kn ≤ 308 := by omega
        have h6 : ¬ (n : Int) - 1 + kn ≥ 309 := by omega
        by_cases h7 : m * 10 ^ kn ≥ T
        · have : ¬ m * 10 ^ kn < T := by omega
          simp [h3, h4, h5, h6, h7, this]
        · have : m * 10 ^ kn < T := by omega
          simp [h3, h4, h5, h6, h7, this]
      · have := le_mul_pow m n kn T 309 hlo hT2 (by omega)
        have h4 : ¬ (n : Int) + kn < 300 := by omega
        have h5 : ¬ (n : Int) + kn ≤ 308 := by omega
        have h6 : (n : Int) - 1 + kn ≥ 309 := by omega
        have h7 : m * 10 ^ kn ≥ T := this
        by_cases h3 : (n : Int) + kn > 310 <;> simp [h3, h4, h5, h6, h7]
  · obtain ⟨j, rfl⟩ : ∃ j : Nat, k = -(j : Int) := ⟨(-k).toNat, by omega⟩
    have hkk : ¬ (-(j : Int)) ≥ 0 := hk
    have hj : (- -(j : Int)).toNat = j := by omega
    simp only [hkk, if_false, hj]
    by_cases h1 : n ≤ 308 + j
    · have := lt_mul_pow m n j T 308 hhi hT1 h1
      have h2 : ¬ (n : Int) + -(j : Int) > 310 := by omega
      have h3 : (n : Int) + -(j : Int) ≤ 308 := by omega
      have h4 : ¬ m ≥ T * 10 ^ j := by omega
      by_cases h5 : (n : Int) + -(j : Int) < 300 <;> simp [h2, h3, h4, h5]
    · by_cases h2 : n = 309 + j
      · have h3 : ¬ (n : Int) + -(j : Int) > 310 := by omega
        have h4 : ¬ (n : Int) + -(j : Int) < 300 := by omega
        have h5 : ¬ (n : Int) + -(j : Int) ≤ 308 := by omega
        have h6 : ¬ (n : Int) - 1 + -(j : Int) ≥ 309 := by omega
        by_cases h7 : m ≥ T * 10 ^ j
        · have : ¬ m < T * 10 ^ j := by omega
          simp [h3, h4, h5, h6, h7, this]
        · have : m < T * 10 ^ j := by omega
          simp [h3, h4, h5, h6, h7, this]
      · have := mul_pow_le m n j T 309 hlo hT2 (by omega)
        have h4 : ¬ (n : Int) + -(j : Int) < 300 := by omega
        have h5 : ¬ (n : Int) + -(j : Int) ≤ 308 := by omega
        have h6 : (n : Int) - 1 + -(j : Int) ≥ 309 := by omega
        have h7 : m ≥ T * 10 ^ j := this
        by_cases h3 : (n : Int) + -(j : Int) > 310 <;> simp [h3, h4, h5, h6, h7]

/-- the closed forms agree on digit strings without leading zeros -/
theorem nf_agree (a : List Nat) (hd : a.all Spec.isDigit = true)
    (hh : a = [] ∨ ∃ c rest, a = c :: rest ∧ 49 ≤ c) (k : Int) : (nfStatus a k != .none) = !nfFinite a k := by
  rcases hh with rfl | ⟨c, rest, rfl, hc⟩
  · simp [nfStatus, nfFinite, Spec.digitsVal]
  · have hlo := digitsVal_ge_pow c rest hc
    have hhi := digitsVal_lt (c :: rest) hd
    have hpos : 0 < 10 ^ rest.length := Nat.pow_pos (by decide)
    have hne : (Spec.digitsVal (c :: rest) 0 == 0) = false := by
      simp only [beq_eq_false_iff_ne, ne_eq]
      omega
    unfold nfStatus nfFinite
    simp only [List.isEmpty_cons, Bool.false_eq_true, if_false, hne]
    exact nf_agree_nat (Spec.digitsVal (c :: rest) 0) (c :: rest).length (2 ^ 1024 - 2 ^ 970)
      (by simpa using hlo) hhi pow308_lt le_pow309 k

/- ================= the shape of a float text ================= -/

/-- nothing, or `.` followed by the digits `fr` -/
def FracOK (fp fr : List Nat) : Prop :=
  (fp = [] ∧ fr = []) ∨ (fp = 46 :: fr ∧ fr.all Spec.isDigit = true)

/-- nothing (`eneg = false`, `ed = []`), or `e`/`E`, an optional sign, and the digits `ed` (not empty) -/
def ExpOK (ep : List Nat) (eneg : Bool) (ed : List Nat) : Prop :=
  (ep = [] ∧ eneg = false ∧ ed = []) ∨
  (∃ e s, ep = e :: (s ++ ed) ∧ (e = 101 ∨ e = 69) ∧
      ((s = [] ∧ eneg = false) ∨ (s = [43] ∧ eneg = false) ∨ (s = [45] ∧ eneg = true)) ∧
      ed ≠ [] ∧ ed.all Spec.isDigit = true)

/-- empty, or the first character does not satisfy `p` -/
def HeadNot (p : Nat → Bool) (X : List Nat) : Prop := ∀ c t, X = c :: t → p c = false

theorem takeWhile_app {p : Nat → Bool} {X : List Nat} (hX : HeadNot p X) :
    ∀ {ds : List Nat}, ds.all p = true → (ds ++ X).takeWhile p = ds
  | [], _ => by
    cases X with
    | nil => rfl
    | cons c t => simp [hX c t rfl]
  | c :: rest, h => by
    rw [List.all_cons, Bool.and_eq_true] at h
    rw [List.cons_append, List.takeWhile_cons, if_pos h.1, takeWhile_app hX h.2]

theorem dropWhile_app {p : Nat → Bool} {X : List Nat} (hX : HeadNot p X) :
    ∀ {ds : List Nat}, ds.all p = true → (ds ++ X).dropWhile p = X
  | [], _ => by
    cases X with
    | nil => rfl
    | cons c t => simp [hX c t rfl]
  | c :: rest, h => by
    rw [List.all_cons, Bool.and_eq_true] at h
    rw [List.cons_append, List.dropWhile_cons, if_pos h.1, dropWhile_app hX h.2]

theorem digit_bounds {c : Nat} (h : Spec.isDigit c = true) : 48 ≤ c ∧ c ≤ 57 := by
  simpa [Spec.isDigit] using h

theorem head_digit {ed : List Nat} (hne : ed ≠ []) (hd : ed.all Spec.isDigit = true) :
    ∃ c t, ed = c :: t ∧ 48 ≤ c ∧ c ≤ 57 := by
  cases ed with
  | nil => exact absurd rfl hne
  | cons c t =>
    rw [List.all_cons, Bool.and_eq_true] at hd
    exact ⟨c, t, rfl, digit_bounds hd.1⟩

theorem FracOK.headNot {fp fr : List Nat} (h : FracOK fp fr) : HeadNot Spec.isDigit fp := by
  intro c t e
  rcases h with ⟨rfl, _⟩ | ⟨rfl, _⟩
  · simp at e
  · simp at e; rw [← e.1]; rfl

theorem ExpOK.headNot {ep : List Nat} {eneg : Bool} {ed : List Nat} (h : ExpOK ep eneg ed) :
    HeadNot Spec.isDigit ep := by
  intro c t e
  rcases h with ⟨rfl, _⟩ | ⟨e', s, rfl, he, _⟩
  · simp at e
  · simp at e; rw [← e.1]; rcases he with rfl | rfl <;> rfl

theorem ExpOK.not46 {ep : List Nat} {eneg : Bool} {ed : List Nat} (h : ExpOK ep eneg ed) :
    ∀ t, ep = 46 :: t → False := by
  intro t e
  rcases h with ⟨rfl, _⟩ | ⟨e', s, rfl, he, _⟩
  · simp at e
  · simp at e; omega

theorem headNot_append {p : Nat → Bool} {A B : List Nat} (hA : HeadNot p A) (hB : HeadNot p B) : HeadNot p (A ++ B) := by
  intro c t e
  cases A with
  | nil => exact hB c t e
  | cons a A' => simp at e; obtain ⟨rfl, _⟩ := e; exact hA _ _ rfl

/- ================= the model of `strconv.ParseFloat` on a float text ================= -/

/-- the exponent scanner of `floatStatus` -/
def fsExp (r2 : Bytes) : Option (Bool × Bytes) :=
  match r2 with
  | [] => some (false, [])
  | e :: r =>
    if e = 101 || e = 69 then
      let (eneg, ds) : Bool × Bytes := match r with
        | 45 :: ds => (true, ds)
        | 43 :: ds => (false, ds)
        | ds => (false, ds)
      if ds.isEmpty || !ds.all isDigit then none else some (eneg, ds)
    else none

/-- `floatStatus` after integer part, fraction and the rest `r2` have been separated -/
def fsTail (intPart frac r2 : Bytes) : NumErr :=
  if intPart.isEmpty && frac.isEmpty then .syntax
  else
    match fsExp r2 with
    | none => .syntax
    | some (eneg, eds) =>
      let mant := (intPart ++ frac).dropWhile (· = 48)
      if mant.isEmpty then .none
      else
        let e : Int := if eneg then -(natOfDigits eds : Int) else natOfDigits eds
        let p : Int := (mant.length : Int) + e - frac.length
        if p > 310 then .range
        else if p < 300 then .none
        else
          let thr : Nat := 2 ^ 1024 - 2 ^ 970
          let sh : Int := e - frac.length
          let m := natOfDigits mant
          let over : Bool := if sh ≥ 0 then decide (m * 10 ^ sh.toNat ≥ thr) else decide (m ≥ thr * 10 ^ (-sh).toNat)
          if over then .range else .none

theorem floatStatus_dot (body r : Bytes) (h : body.dropWhile isDigit = 46 :: r) :
    floatStatus (45 :: body) = fsTail (body.takeWhile isDigit) (r.takeWhile isDigit) (r.dropWhile isDigit) := by
  unfold floatStatus
  simp only [h]
  rfl

theorem floatStatus_nil (body : Bytes) (h : body.dropWhile isDigit = []) :
    floatStatus (45 :: body) = fsTail (body.takeWhile isDigit) [] [] := by
  unfold floatStatus
  simp only [h]
  rfl

theorem floatStatus_e (body t : Bytes) (h : body.dropWhile isDigit = 101 :: t) :
    floatStatus (45 :: body) = fsTail (body.takeWhile isDigit) [] (101 :: t) := by
  unfold floatStatus
  simp only [h]
  rfl

theorem floatStatus_E (body t : Bytes) (h : body.dropWhile isDigit = 69 :: t) :
    floatStatus (45 :: body) = fsTail (body.takeWhile isDigit) [] (69 :: t) := by
  unfold floatStatus
  simp only [h]
  rfl

/-- value of the exponent part -/
def expVal (eneg : Bool) (ed : List Nat) : Int :=
  if eneg then -((Spec.digitsVal ed 0 : Nat) : Int) else ((Spec.digitsVal ed 0 : Nat) : Int)

theorem fsExp_digits (e : Nat) (he : e = 101 ∨ e = 69) (ed : List Nat) (hne : ed ≠ [])
    (hd : ed.all Spec.isDigit = true) : fsExp (e :: ed) = some (false, ed) := by
  obtain ⟨c, t, rfl, hc⟩ := head_digit hne hd
  have hd' : (c :: t).all isDigit = true := hd
  have : c = 48 ∨ c = 49 ∨ c = 50 ∨ c = 51 ∨ c = 52 ∨ c = 53 ∨ c = 54 ∨ c = 55 ∨ c = 56 ∨ c = 57 := by omega
  rcases he with rfl | rfl <;>
    rcases this with rfl | rfl | rfl | rfl | rfl | rfl | rfl | rfl | rfl | rfl <;>
    simp [fsExp, hd']

theorem fsExp_nf {ep : List Nat} {eneg : Bool} {ed : List Nat} (h : ExpOK ep eneg ed) :
    fsExp ep = some (eneg, ed) := by
  rcases h with ⟨rfl, rfl, rfl⟩ | ⟨e, s, rfl, he, hs, hne, hd⟩
  · rfl
  · have hd' : ed.all isDigit = true := hd
    have hemp : ed.isEmpty = false := by cases ed <;> simp_all
    rcases hs with ⟨rfl, rfl⟩ | ⟨rfl, rfl⟩ | ⟨rfl, rfl⟩
    · exact fsExp_digits e he ed hne hd
    · rcases he with rfl | rfl <;> simp [fsExp, hd', hemp]
    · rcases he with rfl | rfl <;> simp [fsExp, hd', hemp]

theorem fsTail_nf (ip fr : List Nat) (hip : ip ≠ []) {ep : List Nat} {eneg : Bool} {ed : List Nat}
    (h : ExpOK ep eneg ed) :
    fsTail ip fr ep = nfStatus ((ip ++ fr).dropWhile (· == 48)) (expVal eneg ed - (fr.length : Int)) := by
  have he : ip.isEmpty = false := by cases ip <;> simp_all
  unfold fsTail nfStatus expVal
  rw [fsExp_nf h]
  simp only [he, Bool.false_and, Bool.false_eq_true, if_false, natOfDigits_eq, dropWhile_zero_eq, Int.add_sub_assoc]

theorem headNot_cons {p : Nat → Bool} {c : Nat} (t : List Nat) (h : p c = false) : HeadNot p (c :: t) := by
  intro c' t' e
  simp at e
  rw [← e.1]; exact h

/-- `floatStatus` of a (negative) float text, in closed form -/
theorem floatStatus_nf (ip fp fr ep : List Nat) (eneg : Bool) (ed : List Nat) (hip : ip ≠ [])
    (hipd : ip.all Spec.isDigit = true) (hf : FracOK fp fr) (he : ExpOK ep eneg ed) :
    floatStatus (45 :: (ip ++ (fp ++ ep))) =
      nfStatus ((ip ++ fr).dropWhile (· == 48)) (expVal eneg ed - (fr.length : Int)) := by
  have hipd' : ip.all isDigit = true := hipd
  rw [← fsTail_nf ip fr hip he]
  rcases hf with ⟨rfl, rfl⟩ | ⟨rfl, hfr⟩
  · have hE : HeadNot isDigit ep := he.headNot
    have h1 : (ip ++ ep).takeWhile isDigit = ip := takeWhile_app hE hipd'
    have h2 : (ip ++ ep).dropWhile isDigit = ep := dropWhile_app hE hipd'
    rw [List.nil_append]
    rcases he with ⟨rfl, _, _⟩ | ⟨e, s, rfl, he', _⟩
    · rw [floatStatus_nil _ h2, h1]
    · rcases he' with rfl | rfl
      · rw [floatStatus_e _ _ h2, h1]
      · rw [floatStatus_E _ _ h2, h1]
  · have hfr' : fr.all isDigit = true := hfr
    have hE : HeadNot isDigit ep := he.headNot
    have hD : HeadNot isDigit (46 :: fr ++ ep) := headNot_cons _ rfl
    have h1 : (ip ++ (46 :: fr ++ ep)).takeWhile isDigit = ip := takeWhile_app hD hipd'
    have h2 : (ip ++ (46 :: fr ++ ep)).dropWhile isDigit = 46 :: (fr ++ ep) := dropWhile_app hD hipd'
    rw [floatStatus_dot _ _ h2, h1, takeWhile_app hE hfr', dropWhile_app hE hfr']

/- ================= the specification's finiteness test on a float text ================= -/

def notE (c : Nat) : Bool := c != 101 && c != 69

def negHead (l : List Nat) : Bool := match l with | 45 :: _ => true | _ => false

theorem floatLitFinite_eq (body : Bytes) :
    Spec.floatLitFinite (45 :: body) =
      nfFinite (((body.takeWhile notE).takeWhile Spec.isDigit ++
          (((body.takeWhile notE).dropWhile Spec.isDigit).drop 1)).dropWhile (· == 48))
        (expVal (negHead ((body.dropWhile notE).drop 1)) (((body.dropWhile notE).drop 1).filter Spec.isDigit) -
          (((((body.takeWhile notE).dropWhile Spec.isDigit).drop 1).length : Nat) : Int)) := by
  rfl

theorem filter_digits {ed : List Nat} (hd : ed.all Spec.isDigit = true) : ed.filter Spec.isDigit = ed := by
  rw [List.filter_eq_self]
  rw [List.all_eq_true] at hd
  exact hd

theorem negHead_digits {ed : List Nat} (hd : ed.all Spec.isDigit = true) : negHead ed = false := by
  cases ed with
  | nil => rfl
  | cons c t =>
    rw [List.all_cons, Bool.and_eq_true] at hd
    have hc := digit_bounds hd.1
    unfold negHead
    split
    · rename_i h; simp at h; omega
    · rfl

theorem exp_spec_nf {ep : List Nat} {eneg : Bool} {ed : List Nat} (h : ExpOK ep eneg ed) :
    negHead (ep.drop 1) = eneg ∧ (ep.drop 1).filter Spec.isDigit = ed := by
  rcases h with ⟨rfl, rfl, rfl⟩ | ⟨e, s, rfl, _, hs, _, hd⟩
  · exact ⟨rfl, rfl⟩
  · have hf := filter_digits hd
    rcases hs with ⟨rfl, rfl⟩ | ⟨rfl, rfl⟩ | ⟨rfl, rfl⟩
    · exact ⟨negHead_digits hd, hf⟩
    · refine ⟨rfl, ?_⟩
      have : Spec.isDigit 43 = false := rfl
      simp [this, hf]
    · refine ⟨rfl, ?_⟩
      have : Spec.isDigit 45 = false := rfl
      simp [this, hf]

theorem ExpOK.headNotE {ep : List Nat} {eneg : Bool} {ed : List Nat} (h : ExpOK ep eneg ed) : HeadNot notE ep := by
  intro c t e
  rcases h with ⟨rfl, _⟩ | ⟨e', s, rfl, he, _⟩
  · simp at e
  · simp at e; rw [← e.1]; rcases he with rfl | rfl <;> rfl

theorem all_notE' {ds : List Nat} (hd : ds.all Spec.isDigit = true) : ds.all notE = true := all_notE hd

theorem FracOK.all_notE {fp fr : List Nat} (h : FracOK fp fr) : fp.all notE = true := by
  rcases h with ⟨rfl, _⟩ | ⟨rfl, hfr⟩
  · rfl
  · rw [List.all_cons, all_notE' hfr]; rfl

theorem FracOK.drop {fp fr : List Nat} (h : FracOK fp fr) : fp.drop 1 = fr := by
  rcases h with ⟨rfl, rfl⟩ | ⟨rfl, _⟩ <;> rfl

/-- `Spec.floatLitFinite` of a (negative) float text, in closed form -/
theorem floatLitFinite_nf (ip fp fr ep : List Nat) (eneg : Bool) (ed : List Nat)
    (hipd : ip.all Spec.isDigit = true) (hf : FracOK fp fr) (he : ExpOK ep eneg ed) :
    Spec.floatLitFinite (45 :: (ip ++ (fp ++ ep))) =
      nfFinite ((ip ++ fr).dropWhile (· == 48)) (expVal eneg ed - (fr.length : Int)) := by
  have hm : (ip ++ fp).all notE = true := by rw [List.all_append, all_notE' hipd, hf.all_notE]; rfl
  rw [floatLitFinite_eq, ← List.append_assoc, takeWhile_app he.headNotE hm, dropWhile_app he.headNotE hm,
    takeWhile_app hf.headNot hipd, dropWhile_app hf.headNot hipd, hf.drop, (exp_spec_nf he).1, (exp_spec_nf he).2]

/- ================= agreement on the normal form ================= -/

theorem FracOK.digits {fp fr : List Nat} (h : FracOK fp fr) : fr.all Spec.isDigit = true := by
  rcases h with ⟨_, rfl⟩ | ⟨_, hfr⟩
  · rfl
  · exact hfr

theorem float_neg_agree (ip fp fr ep : List Nat) (eneg : Bool) (ed : List Nat) (hip : ip ≠ [])
    (hipd : ip.all Spec.isDigit = true) (hf : FracOK fp fr) (he : ExpOK ep eneg ed) :
    floatErr (45 :: (ip ++ (fp ++ ep))) = !Spec.floatLitFinite (45 :: (ip ++ (fp ++ ep))) := by
  unfold floatErr
  rw [floatStatus_nf ip fp fr ep eneg ed hip hipd hf he, floatLitFinite_nf ip fp fr ep eneg ed hipd hf he]
  have hall : (ip ++ fr).all Spec.isDigit = true := by rw [List.all_append, hipd, hf.digits]; rfl
  obtain ⟨h1, h2⟩ := dropWhile_zero_spec (ip ++ fr) hall
  exact nf_agree _ h1 h2 _

/-- the normal form of a float text: optional `-`, digits, optional fraction, optional exponent -/
def FloatNF (raw : Bytes) : Prop :=
  ∃ sg ip fp fr ep eneg ed, raw = sg ++ (ip ++ (fp ++ ep)) ∧ (sg = [] ∨ sg = [45]) ∧ ip ≠ [] ∧
    ip.all Spec.isDigit = true ∧ FracOK fp fr ∧ ExpOK ep eneg ed

theorem float_nf_agree (raw : Bytes) (h : FloatNF raw) : floatErr raw = !Spec.floatLitFinite raw := by
  obtain ⟨sg, ip, fp, fr, ep, eneg, ed, rfl, hsg, hip, hipd, hf, he⟩ := h
  rcases hsg with rfl | rfl
  · obtain ⟨c, t, rfl, hc⟩ := head_digit hip hipd
    have := float_neg_agree (c :: t) fp fr ep eneg ed hip hipd hf he
    unfold floatErr at this ⊢
    rw [List.nil_append, List.cons_append, floatStatus_unsigned c _ hc, floatLitFinite_unsigned c _ hc]
    exact this
  · exact float_neg_agree ip fp fr ep eneg ed hip hipd hf he

/- ================= a decidable description of the float texts ================= -/

/-- `Digit+` -/
def digits1b (ds : List Nat) : Bool := !ds.isEmpty && ds.all Spec.isDigit

/-- `[+-]? Digit+` -/
def signedDigits (r : List Nat) : Bool :=
  match r with
  | 43 :: ds => digits1b ds
  | 45 :: ds => digits1b ds
  | ds => digits1b ds

/-- nothing, or `[eE] [+-]? Digit+` -/
def expText : List Nat → Bool
  | [] => true
  | e :: r => (e == 101 || e == 69) && signedDigits r

/-- `Digit+ ( . Digit* )? ( [eE] [+-]? Digit+ )?` -/
def floatBody (body : Bytes) : Bool :=
  !(body.takeWhile Spec.isDigit).isEmpty &&
    (match body.dropWhile Spec.isDigit with
     | 46 :: r => expText (r.dropWhile Spec.isDigit)
     | r => expText r)

/-- `-? Digit+ ( . Digit* )? ( [eE] [+-]? Digit+ )?`: every IntValue and FloatValue lexeme of the
    grammar has this shape (`floatText_of_numRaw`); leading zeros, an empty fraction and the absence of
    both optional parts are admitted as well. -/
def floatText (raw : Bytes) : Bool :=
  floatBody (match raw with | 45 :: r => r | r => r)

theorem all_takeWhile' (p : Nat → Bool) : ∀ l : List Nat, (l.takeWhile p).all p = true
  | [] => rfl
  | c :: rest => by
    rw [List.takeWhile_cons]
    by_cases h : p c = true
    · rw [if_pos h, List.all_cons, h, all_takeWhile' p rest]; rfl
    · rw [if_neg h]; rfl

theorem digits1b_iff {ds : List Nat} : digits1b ds = true ↔ ds ≠ [] ∧ ds.all Spec.isDigit = true := by
  unfold digits1b
  cases ds <;> simp

theorem signedDigits_digits {ed : List Nat} (hne : ed ≠ []) (hd : ed.all Spec.isDigit = true) :
    signedDigits ed = true := by
  obtain ⟨c, t, rfl, hc⟩ := head_digit hne hd
  unfold signedDigits
  split
  · rename_i h; simp at h; omega
  · rename_i h; simp at h; omega
  · exact digits1b_iff.2 ⟨hne, hd⟩

theorem expText_of_ExpOK {ep : List Nat} {eneg : Bool} {ed : List Nat} (h : ExpOK ep eneg ed) : expText ep = true := by
  rcases h with ⟨rfl, _, _⟩ | ⟨e, s, rfl, he, hs, hne, hd⟩
  · rfl
  · have h1 : (e == 101 || e == 69) = true := by rcases he with rfl | rfl <;> rfl
    have h2 : digits1b ed = true := digits1b_iff.2 ⟨hne, hd⟩
    show ((e == 101 || e == 69) && signedDigits (s ++ ed)) = true
    rw [h1, Bool.true_and]
    rcases hs with ⟨rfl, _⟩ | ⟨rfl, _⟩ | ⟨rfl, _⟩
    · exact signedDigits_digits hne hd
    · exact h2
    · exact h2

theorem ExpOK_of_expText {ep : List Nat} (h : expText ep = true) : ∃ eneg ed, ExpOK ep eneg ed := by
  cases ep with
  | nil => exact ⟨false, [], Or.inl ⟨rfl, rfl, rfl⟩⟩
  | cons e r =>
    unfold expText at h
    rw [Bool.and_eq_true] at h
    have he : e = 101 ∨ e = 69 := by simpa using h.1
    have h2 := h.2
    unfold signedDigits at h2
    split at h2
    · rename_i ds
      have := digits1b_iff.1 h2
      exact ⟨false, ds, Or.inr ⟨e, [43], rfl, he, Or.inr (Or.inl ⟨rfl, rfl⟩), this.1, this.2⟩⟩
    · rename_i ds
      have := digits1b_iff.1 h2
      exact ⟨true, ds, Or.inr ⟨e, [45], rfl, he, Or.inr (Or.inr ⟨rfl, rfl⟩), this.1, this.2⟩⟩
    · have := digits1b_iff.1 h2
      exact ⟨false, r, Or.inr ⟨e, [], rfl, he, Or.inl ⟨rfl, rfl⟩, this.1, this.2⟩⟩

theorem floatBody_nf {body : Bytes} (h : floatBody body = true) :
    ∃ ip fp fr ep eneg ed, body = ip ++ (fp ++ ep) ∧ ip ≠ [] ∧ ip.all Spec.isDigit = true ∧ FracOK fp fr ∧
      ExpOK ep eneg ed := by
  unfold floatBody at h
  rw [Bool.and_eq_true] at h
  have hip : body.takeWhile Spec.isDigit ≠ [] := by simpa using h.1
  have hipd := all_takeWhile' Spec.isDigit body
  have hb : body = body.takeWhile Spec.isDigit ++ body.dropWhile Spec.isDigit := List.takeWhile_append_dropWhile.symm
  have h2 := h.2
  split at h2
  · rename_i r hr
    obtain ⟨eneg, ed, he⟩ := ExpOK_of_expText h2
    refine ⟨_, 46 :: r.takeWhile Spec.isDigit, r.takeWhile Spec.isDigit, r.dropWhile Spec.isDigit, eneg, ed, ?_,
      hip, hipd, Or.inr ⟨rfl, all_takeWhile' _ r⟩, he⟩
    rw [List.cons_append, List.takeWhile_append_dropWhile, ← hr]
    exact hb
  · obtain ⟨eneg, ed, he⟩ := ExpOK_of_expText h2
    exact ⟨_, [], [], _, eneg, ed, by rw [List.nil_append]; exact hb, hip, hipd, Or.inl ⟨rfl, rfl⟩, he⟩

theorem floatBody_of_nf (ip fp fr ep : List Nat) (eneg : Bool) (ed : List Nat) (hip : ip ≠ [])
    (hipd : ip.all Spec.isDigit = true) (hf : FracOK fp fr) (he : ExpOK ep eneg ed) :
    floatBody (ip ++ (fp ++ ep)) = true := by
  have hX : HeadNot Spec.isDigit (fp ++ ep) := headNot_append hf.headNot he.headNot
  have he1 : ip.isEmpty = false := by cases ip <;> simp_all
  unfold floatBody
  rw [takeWhile_app hX hipd, dropWhile_app hX hipd, he1]
  rcases hf with ⟨rfl, rfl⟩ | ⟨rfl, hfr⟩
  · rw [List.nil_append]
    simp only [Bool.not_false, Bool.true_and]
    split
    · exact (he.not46 _ rfl).elim
    · exact expText_of_ExpOK he
  · simp only [Bool.not_false, Bool.true_and, List.cons_append]
    rw [dropWhile_app he.headNot hfr]
    exact expText_of_ExpOK he

theorem floatText_nf {raw : Bytes} (h : floatText raw = true) : FloatNF raw := by
  unfold floatText at h
  split at h
  · rename_i r
    obtain ⟨ip, fp, fr, ep, eneg, ed, rfl, h1, h2, h3, h4⟩ := floatBody_nf h
    exact ⟨[45], ip, fp, fr, ep, eneg, ed, rfl, Or.inr rfl, h1, h2, h3, h4⟩
  · obtain ⟨ip, fp, fr, ep, eneg, ed, rfl, h1, h2, h3, h4⟩ := floatBody_nf h
    exact ⟨[], ip, fp, fr, ep, eneg, ed, rfl, Or.inl rfl, h1, h2, h3, h4⟩

theorem floatText_of_nf {raw : Bytes} (h : FloatNF raw) : floatText raw = true := by
  obtain ⟨sg, ip, fp, fr, ep, eneg, ed, rfl, hsg, hip, hipd, hf, he⟩ := h
  have hb := floatBody_of_nf ip fp fr ep eneg ed hip hipd hf he
  rcases hsg with rfl | rfl
  · obtain ⟨c, t, rfl, hc⟩ := head_digit hip hipd
    unfold floatText
    split
    · rename_i r hr; simp at hr; omega
    · exact hb
  · exact hb

/- ================= MAIN THEOREM ================= -/

/-- for a float text the model of `strconv.ParseFloat(·, 64)` (error or ±Inf) and the specification's
    finiteness test agree -/
theorem float_lexeme_agree (raw : Bytes) (h : floatText raw = true) :
    floatErr raw = !Spec.floatLitFinite raw :=
  float_nf_agree raw (floatText_nf h)

theorem nfStatus_ne_syntax (a : List Nat) (k : Int) : nfStatus a k ≠ .syntax := by
  unfold nfStatus
  repeat' split
  all_goals simp

theorem floatStatus_nf_ne_syntax (raw : Bytes) (h : FloatNF raw) : floatStatus raw ≠ .syntax := by
  obtain ⟨sg, ip, fp, fr, ep, eneg, ed, rfl, hsg, hip, hipd, hf, he⟩ := h
  rcases hsg with rfl | rfl
  · obtain ⟨c, t, rfl, hc⟩ := head_digit hip hipd
    rw [List.nil_append, List.cons_append, floatStatus_unsigned c _ hc, ← List.cons_append,
      floatStatus_nf (c :: t) fp fr ep eneg ed hip hipd hf he]
    exact nfStatus_ne_syntax _ _
  · show floatStatus (45 :: (ip ++ (fp ++ ep))) ≠ .syntax
    rw [floatStatus_nf ip fp fr ep eneg ed hip hipd hf he]
    exact nfStatus_ne_syntax _ _

/-- a float text satisfies the numeric hypothesis `numLeafOK .float`, and evaluates
    (`Value.Value(nil)` reports no error: `strconv.ParseFloat` has no syntax error) -/
theorem numLeafOK_float_of_lexeme (raw : Bytes) (h : floatText raw = true) :
    numLeafOK .float raw = true ∧ ∀ ch p, constErr (.mk .float raw ch p) = false := by
  refine ⟨?_, fun ch p => ?_⟩
  · simp [numLeafOK, float_lexeme_agree raw h]
  · have := floatStatus_nf_ne_syntax raw (floatText_nf h)
    unfold constErr
    simp only
    cases h3 : floatStatus raw <;> simp_all

/- ================= bridge to the lexer specification ================= -/

open Gql.Lexer Gql.Lexer.Spec in
theorem spanP_digits : ∀ l : List Nat, (spanP isDigitC l).1.all Gql.Validate.Spec.isDigit = true
  | [] => rfl
  | c :: rest => by
    unfold spanP
    by_cases h : isDigitC c = true
    · have h' : Gql.Validate.Spec.isDigit c = true := h
      simp only [h, if_true, List.all_cons, h', spanP_digits rest, Bool.and_self]
    · simp only [h]; rfl

open Gql.Lexer Gql.Lexer.Spec in
theorem digits1_nf {cs ds r : List Nat} (h : digits1 cs = some (ds, r)) :
    ds ≠ [] ∧ ds.all Gql.Validate.Spec.isDigit = true := by
  unfold digits1 at h
  simp only [] at h
  split at h
  · simp at h
  · rename_i hne
    simp at h
    obtain ⟨rfl, _⟩ := h
    exact ⟨by simpa using hne, spanP_digits cs⟩

open Gql.Lexer Gql.Lexer.Spec in
theorem intPart_nf {sg r1 ip r : List Nat} (h : intPart sg r1 = some (ip, r)) :
    ∃ ds, ip = sg ++ ds ∧ ds ≠ [] ∧ ds.all Gql.Validate.Spec.isDigit = true := by
  unfold intPart at h
  split at h
  · simp at h
    exact ⟨[48], h.1.symm, by simp, rfl⟩
  · rename_i d r' _
    split at h
    · rename_i hd
      simp at h
      refine ⟨d :: (spanP isDigitC r').1, h.1.symm, by simp, ?_⟩
      rw [List.all_cons, spanP_digits r']
      have : Gql.Validate.Spec.isDigit d = true := hd
      rw [this]; rfl
    · simp at h
  · simp at h

open Gql.Lexer Gql.Lexer.Spec in
theorem integerPart_nf {cs ip r : List Nat} (h : integerPart cs = some (ip, r)) :
    ∃ sg ds, ip = sg ++ ds ∧ (sg = [] ∨ sg = [45]) ∧ ds ≠ [] ∧ ds.all Gql.Validate.Spec.isDigit = true := by
  rw [integerPart_eq] at h
  obtain ⟨ds, h1, h2, h3⟩ := intPart_nf h
  refine ⟨_, ds, h1, ?_, h2, h3⟩
  unfold stripSign
  split
  · exact Or.inr rfl
  · exact Or.inl rfl

open Gql.Lexer Gql.Lexer.Spec in
theorem fractionalPart_nf {r fp r1 : List Nat} (h : fractionalPart r = some (fp, r1)) :
    ∃ fr, FracOK fp fr ∧ fp ≠ [] := by
  unfold fractionalPart at h
  split at h
  · rename_i t
    cases hd : digits1 t with
    | none => simp [hd] at h
    | some q =>
      obtain ⟨ds, r'⟩ := q
      simp [hd] at h
      obtain ⟨rfl, _⟩ := h
      exact ⟨ds, Or.inr ⟨rfl, (digits1_nf hd).2⟩, by simp⟩
  · simp at h

open Gql.Lexer Gql.Lexer.Spec in
theorem exponentPart_nf {r ep r2 : List Nat} (h : exponentPart r = some (ep, r2)) :
    ∃ eneg ed, ExpOK ep eneg ed ∧ ep ≠ [] := by
  unfold exponentPart at h
  split at h
  · rename_i e r'
    split at h
    · rename_i he
      simp only [] at h
      split at h
      · rename_i s r''
        split at h
        · rename_i hs
          cases hd : digits1 r'' with
          | none => simp [hd] at h
          | some q =>
            obtain ⟨ds, r3⟩ := q
            simp [hd] at h
            obtain ⟨rfl, _⟩ := h
            have := digits1_nf hd
            rcases hs with rfl | rfl
            · exact ⟨false, ds, Or.inr ⟨e, [43], rfl, he, Or.inr (Or.inl ⟨rfl, rfl⟩), this.1, this.2⟩, by simp⟩
            · exact ⟨true, ds, Or.inr ⟨e, [45], rfl, he, Or.inr (Or.inr ⟨rfl, rfl⟩), this.1, this.2⟩, by simp⟩
        · cases hd : digits1 (s :: r'') with
          | none => simp [hd] at h
          | some q =>
            obtain ⟨ds, r3⟩ := q
            simp [hd] at h
            obtain ⟨rfl, _⟩ := h
            have := digits1_nf hd
            exact ⟨false, ds, Or.inr ⟨e, [], rfl, he, Or.inl ⟨rfl, rfl⟩, this.1, this.2⟩, by simp⟩
      · cases hd : digits1 ([] : List Nat) with
        | none => simp [hd] at h
        | some q =>
          obtain ⟨ds, r3⟩ := q
          simp [hd] at h
          obtain ⟨rfl, _⟩ := h
          have := digits1_nf hd
          exact ⟨false, ds, Or.inr ⟨e, [], rfl, he, Or.inl ⟨rfl, rfl⟩, this.1, this.2⟩, by simp⟩
    · simp at h
  · simp at h

theorem intText_of_nf (sg ds : List Nat) (hsg : sg = [] ∨ sg = [45]) (hne : ds ≠ [])
    (hd : ds.all Spec.isDigit = true) : intText (sg ++ ds) = true := by
  have he : ds.isEmpty = false := by cases ds <;> simp_all
  rcases hsg with rfl | rfl
  · obtain ⟨c, t, rfl, hc⟩ := head_digit hne hd
    unfold intText
    split
    · rename_i h; simp at h; omega
    · simp [hd]
  · show (!ds.isEmpty && ds.all Spec.isDigit) = true
    rw [he, hd]; rfl

open Gql.Lexer Gql.Lexer.Spec in
theorem finS_some_nf {k' k : Kind} {l r' lex rest : List Nat} (h : finS k' l r' = some (k, lex, rest)) :
    k = k' ∧ lex = l := by
  unfold finS at h
  split at h
  · simp at h; exact ⟨h.1.symm, h.2.1.symm⟩
  · simp at h

/-- every number lexeme of the lexer specification is a float text in normal form, and an IntValue
    lexeme is an `intText` -/
theorem numberToken_nf {cs : List Nat} {k : Gql.Lexer.Kind} {lex rest : List Nat}
    (h : Gql.Lexer.Spec.numberToken cs = some (k, lex, rest)) :
    FloatNF lex ∧ (k = .int → intText lex = true) := by
  rw [Gql.Lexer.numberToken_eq] at h
  cases hi : Gql.Lexer.Spec.integerPart cs with
  | none => simp [hi] at h
  | some q =>
    obtain ⟨ip, r⟩ := q
    simp only [hi] at h
    obtain ⟨sg, ds, rfl, hsg, hne, hd⟩ := integerPart_nf hi
    unfold Gql.Lexer.numTail at h
    cases hf : Gql.Lexer.Spec.fractionalPart r with
    | some q1 =>
      obtain ⟨fp, r1⟩ := q1
      obtain ⟨fr, hfr, _⟩ := fractionalPart_nf hf
      simp only [hf] at h
      cases he : Gql.Lexer.Spec.exponentPart r1 with
      | some q2 =>
        obtain ⟨ep, r2⟩ := q2
        obtain ⟨eneg, ed, hep, _⟩ := exponentPart_nf he
        simp only [he] at h
        obtain ⟨rfl, rfl⟩ := finS_some_nf h
        exact ⟨⟨sg, ds, fp, fr, ep, eneg, ed, by simp [List.append_assoc], hsg, hne, hd, hfr, hep⟩,
          fun hk => by cases hk⟩
      | none =>
        simp only [he] at h
        obtain ⟨rfl, rfl⟩ := finS_some_nf h
        exact ⟨⟨sg, ds, fp, fr, [], false, [], by simp [List.append_assoc], hsg, hne, hd, hfr,
          Or.inl ⟨rfl, rfl, rfl⟩⟩, fun hk => by cases hk⟩
    | none =>
      simp only [hf] at h
      cases he : Gql.Lexer.Spec.exponentPart r with
      | some q2 =>
        obtain ⟨ep, r2⟩ := q2
        obtain ⟨eneg, ed, hep, _⟩ := exponentPart_nf he
        simp only [he] at h
        obtain ⟨rfl, rfl⟩ := finS_some_nf h
        exact ⟨⟨sg, ds, [], [], ep, eneg, ed, by simp [List.append_assoc], hsg, hne, hd, Or.inl ⟨rfl, rfl⟩, hep⟩,
          fun hk => by cases hk⟩
      | none =>
        simp only [he] at h
        obtain ⟨rfl, rfl⟩ := finS_some_nf h
        exact ⟨⟨sg, ds, [], [], [], false, [], by simp, hsg, hne, hd, Or.inl ⟨rfl, rfl⟩, Or.inl ⟨rfl, rfl, rfl⟩⟩,
          fun _ => intText_of_nf sg ds hsg hne hd⟩

/-- a text that is on its own exactly one number lexeme (of either kind) is a float text -/
theorem floatText_of_numRaw' (k : Gql.Lexer.Kind) (raw : Bytes) (h : Gql.Format.numRaw k raw = true) :
    floatText raw = true := by
  have h0 : Gql.Lexer.Spec.numberToken raw = some (k, raw, []) := by simpa [Gql.Format.numRaw] using h
  exact floatText_of_nf (numberToken_nf h0).1

/-- a text that is on its own exactly one FloatValue lexeme is a float text -/
theorem floatText_of_numRaw (raw : Bytes) (h : Gql.Format.numRaw .float raw = true) : floatText raw = true :=
  floatText_of_numRaw' .float raw h

/-- a text that is on its own exactly one IntValue lexeme is an `intText` -/
theorem intText_of_numRaw (raw : Bytes) (h : Gql.Format.numRaw .int raw = true) : intText raw = true := by
  have h0 : Gql.Lexer.Spec.numberToken raw = some (.int, raw, []) := by simpa [Gql.Format.numRaw] using h
  exact (numberToken_nf h0).2 rfl

theorem numLeafOK_of_numRaw_float (raw : Bytes) (h : Gql.Format.numRaw .float raw = true) :
    numLeafOK .float raw = true :=
  (numLeafOK_float_of_lexeme raw (floatText_of_numRaw raw h)).1

theorem numLeafOK_of_numRaw_int (raw : Bytes) (h : Gql.Format.numRaw .int raw = true) :
    numLeafOK .int raw = true :=
  (numLeafOK_int_of_lexeme raw (intText_of_numRaw raw h)).1

theorem constErr_of_numRaw_float (raw : Bytes) (h : Gql.Format.numRaw .float raw = true) (ch : Children) (p : Pos) :
    constErr (.mk .float raw ch p) = false :=
  (numLeafOK_float_of_lexeme raw (floatText_of_numRaw raw h)).2 ch p

theorem constErr_of_numRaw_int (raw : Bytes) (h : Gql.Format.numRaw .int raw = true) (ch : Children) (p : Pos) :
    constErr (.mk .int raw ch p) = false :=
  (numLeafOK_int_of_lexeme raw (intText_of_numRaw raw h)).2 ch p

/-- the float texts include the IntValue texts: `float_lexeme_agree` subsumes `int_lexeme_float_agree` -/
theorem floatText_of_intText (raw : Bytes) (h : intText raw = true) : floatText raw = true := by
  apply floatText_of_nf
  unfold intText at h
  split at h
  · rename_i ds
    simp only [Bool.and_eq_true, Bool.not_eq_true', List.isEmpty_eq_false_iff] at h
    exact ⟨[45], ds, [], [], [], false, [], by simp, Or.inr rfl, h.1, h.2, Or.inl ⟨rfl, rfl⟩, Or.inl ⟨rfl, rfl, rfl⟩⟩
  · simp only [Bool.and_eq_true, Bool.not_eq_true', List.isEmpty_eq_false_iff] at h
    exact ⟨[], raw, [], [], [], false, [], by simp, Or.inl rfl, h.1, h.2, Or.inl ⟨rfl, rfl⟩, Or.inl ⟨rfl, rfl, rfl⟩⟩

/- ================= non-vacuity and boundary texts ================= -/

-- float texts, and lexemes on their own
example : floatText (str "1.7976931348623157e308") = true := by decide
example : Gql.Format.numRaw .float (str "1.7976931348623157e308") = true := by decide
example : Gql.Format.numRaw .float (str "-0.0") = true := by decide
example : Gql.Format.numRaw .float (str "1E+2") = true := by decide
example : Gql.Format.numRaw .float (str "0.0e999") = true := by decide
example : Gql.Format.numRaw .int (str "-12") = true := by decide
-- not lexemes / not float texts
example : Gql.Format.numRaw .float (str "12") = false := by decide
example : Gql.Format.numRaw .float (str "01.5") = false := by decide
example : Gql.Format.numRaw .float (str "1.") = false := by decide
example : floatText (str "1.") = true := by decide          -- the liberal superset
example : floatText (str ".5") = false := by decide
example : floatText (str "1e") = false := by decide
example : floatText (str "1e+") = false := by decide
example : floatText (str "+1.0") = false := by decide
example : floatText (str "1.0x") = false := by decide
-- both sides of the overflow boundary: largest double, and the first text that rounds to +Inf
example : floatErr (str "1.7976931348623157e308") = false := by decide +kernel
example : floatErr (str "1.7976931348623159e308") = true := by decide +kernel
example : floatErr (str "1e308") = false ∧ floatErr (str "1e309") = true := by decide +kernel
example : Spec.floatLitFinite (str "1.7976931348623157e308") = true := by decide +kernel
example : Spec.floatLitFinite (str "1.7976931348623159e308") = false := by decide +kernel
example : floatErr (str "0.0e999") = false ∧ floatErr (str "1e-400") = false := by decide

end Gql.EndToEnd

#print axioms Gql.EndToEnd.nf_agree
#print axioms Gql.EndToEnd.float_nf_agree
#print axioms Gql.EndToEnd.float_lexeme_agree
#print axioms Gql.EndToEnd.floatStatus_nf_ne_syntax
#print axioms Gql.EndToEnd.numLeafOK_float_of_lexeme
#print axioms Gql.EndToEnd.numberToken_nf
#print axioms Gql.EndToEnd.floatText_of_numRaw
#print axioms Gql.EndToEnd.floatText_of_numRaw'
#print axioms Gql.EndToEnd.intText_of_numRaw
#print axioms Gql.EndToEnd.numLeafOK_of_numRaw_float
#print axioms Gql.EndToEnd.numLeafOK_of_numRaw_int
#print axioms Gql.EndToEnd.constErr_of_numRaw_float
#print axioms Gql.EndToEnd.constErr_of_numRaw_int
#print axioms Gql.EndToEnd.floatText_of_intText
