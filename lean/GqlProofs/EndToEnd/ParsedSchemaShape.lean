import GqlProofs.EndToEnd.ParsedShape
import GqlProofs.EndToEnd.TokLex
import GqlProofs.EndToEnd.LexClean
import GqlProofs.Parser.SoundSchemaTop
import GqlProofs.Parser.Results
import GqlProofs.Format.FormattableSchema
set_option linter.unusedSimpArgs false
set_option linter.unusedVariables false
/-
  END TO END for type-system documents: one traversal of the SCHEMA parser model
  (`GqlModel/Parser/Schema.lean`) in the program logic `Spec` of `GqlProofs/Parser/Spec.lean`, with
  postconditions of the shape `OutS ok used`:

    `ok` — the lexical well-formedness of the subtree (`Format.argDefOk`, `fieldDefOk`, `defOk`,
           `extOk`, `dirDefOk`, `schemaDefOk`, … of `Format/FormattableSchema.lean`) holds PROVIDED
           every consumed token satisfies `TokLexU`.

  `TokLexU t` is what the lexer model guarantees about a token of a well-formed UTF-8 source:
  `TokLex t` (the text of a Name token is a lexer Name, of an Int / Float token a number lexeme;
  `TokLex.lean`, no hypothesis on the bytes), its value is well-formed UTF-8 (`LexClean.lean`; this is
  what descriptions need) and its line is at least 1 (`readToken_line` below: the cursor starts on
  line 1 and lines never decrease; this is what `fieldSuppressed` needs — the formatter hides a field
  whose name starts with `__` only when it has NO position, which travels as line 0).

  At the top (`parsedSchema_formattable`): the consumed tokens are the significant tokens of the
  source, so every document the schema parser model returns from a well-formed UTF-8 source is
  `FormattableSchema`.  The hypothesis on the source is needed: the parser accepts the description
  `"\xFF"` (driver: `ps -1 22ff22207363616c61722053`), whose value is not well-formed UTF-8.
-/
namespace Gql.EndToEnd
open Gql Gql.Lexer Gql.Parser Gql.Format

/-! ### lines: every token of the lexer model is on a line ≥ 1 -/

/-- the token of a step, if any, is on a line ≥ 1, and so is the cursor after it -/
def StepLine (st : Step) : Prop :=
  match st with
  | .tok t _ c' => 1 ≤ t.line ∧ 1 ≤ c'.line
  | .err _ => True

theorem ws_line (rest : Bytes) (c : Cur) (h : 1 ≤ c.line) : 1 ≤ (ws rest c).2.line := by
  fun_induction ws rest c <;> simp_all [Cur.adv, Cur.newline]

theorem readStringLoop_line (q : Cur) (l : Bytes) (c : Cur) (acc : Bytes) (buf : Bool) (h : 1 ≤ c.line) :
    StepLine (readStringLoop q l c acc buf) := by
  fun_induction readStringLoop q l c acc buf
  all_goals first
    | exact trivial
    | exact ⟨h, h⟩
    | (apply_assumption; exact h)

theorem readBlockLoop_line (q : Cur) (l : Bytes) (c : Cur) (acc : Bytes) (hq : 1 ≤ q.line) (h : 1 ≤ c.line) :
    StepLine (readBlockLoop q l c acc) := by
  fun_induction readBlockLoop q l c acc
  all_goals first
    | exact trivial
    | exact ⟨hq, h⟩
    | (apply_assumption; exact h)
    | (apply_assumption; exact Nat.le_succ_of_le h)
    | (apply_assumption; split <;> first | exact h | exact Nat.le_succ_of_le h)

theorem simpleTok_line (k : Kind) (v : Bytes) (c : Cur) (nb nr : Nat) (rest : Bytes) (h : 1 ≤ c.line) :
    StepLine (simpleTok k v c nb nr rest) := ⟨h, h⟩

theorem unexpectedChar_line (c : Cur) (b : Nat) : StepLine (unexpectedChar c b) := by
  unfold unexpectedChar; split <;> (try split) <;> exact trivial

theorem readNumber_line (start : Cur) (rest0 : Bytes) (h : 1 ≤ start.line) : StepLine (readNumber start rest0) := by
  have hs := readNumber_spec start rest0
  cases hn : Spec.numberToken rest0 with
  | none =>
    rw [hn] at hs
    obtain ⟨e, he⟩ := hs
    rw [he]; trivial
  | some p =>
    obtain ⟨k, lex, r⟩ := p
    rw [hn] at hs
    rw [hs.1]
    exact ⟨h, h⟩

theorem readTokenBody_line (rest1 : Bytes) (c1 : Cur) (h : 1 ≤ c1.line) : StepLine (readTokenBody rest1 c1) := by
  unfold readTokenBody
  cases rest1 with
  | nil => exact simpleTok_line _ _ _ _ _ _ h
  | cons b tl =>
    simp only []
    split
    · exact simpleTok_line _ _ _ _ _ _ h
    · split
      · split
        · exact simpleTok_line _ _ _ _ _ _ h
        · exact unexpectedChar_line _ _
      · split
        · exact simpleTok_line _ _ _ _ _ _ h
        · split
          · exact simpleTok_line _ _ _ _ _ _ h
          · split
            · exact readNumber_line c1 (b :: tl) h
            · split
              · split
                · exact readBlockLoop_line c1 _ _ _ h h
                · exact readStringLoop_line c1 _ _ _ _ h
              · exact unexpectedChar_line _ _

/-- every token `readToken` returns from a cursor on a line ≥ 1 is on a line ≥ 1 (and so is the
    cursor it leaves) -/
theorem readToken_line (rest : Bytes) (c : Cur) (hc : 1 ≤ c.line) {t : Token} {r : Bytes} {c' : Cur}
    (h : readToken rest c = .tok t r c') : 1 ≤ t.line ∧ 1 ≤ c'.line := by
  have := readTokenBody_line (ws rest c).1 (ws rest c).2 (ws_line rest c hc)
  unfold readToken at h
  rw [h] at this
  exact this

/-- every token of the raw stream (comments included) is on a line ≥ 1 -/
theorem rawS_line (rest : Bytes) (c : Cur) (hc : 1 ≤ c.line) : ∀ t ∈ (rawS rest c).toks, 1 ≤ t.line := by
  induction hn : rest.length using Nat.strongRecOn generalizing rest c with
  | _ n ih =>
    cases h : readToken rest c with
    | err e =>
      rw [rawS_err h]
      simp [Stream.toks]
    | tok t rest' c' =>
      rw [rawS_tok h]
      obtain ⟨hl, hc'⟩ := readToken_line rest c hc h
      by_cases hk : t.kind = .eof
      · rw [if_pos hk]
        simp [Stream.toks]
      · rw [if_neg hk]
        have hp := readToken_progress rest c
        rw [h] at hp
        have i1 := ih _ (by have := hp.2 hk; omega) rest' c' hc' rfl
        intro u hu
        simp only [Stream.toks, List.mem_cons] at hu
        rcases hu with rfl | hu
        · exact hl
        · exact i1 u hu

/-! ### what the lexer guarantees about the tokens of a well-formed UTF-8 source -/

/-- `TokLex`, a well-formed UTF-8 value, a line ≥ 1 -/
def TokLexU (t : Token) : Prop := TokLex t ∧ strRaw t.value = true ∧ 1 ≤ t.line

/-- every significant token of a well-formed UTF-8 source satisfies `TokLexU` -/
theorem sig_toks_tokLexU (inp : Bytes) (hv : Utf8.valid inp) :
    ∀ t ∈ (rawS inp Cur.init).sig.toks, TokLexU t := by
  intro t ht
  have ht' := ht
  rw [Stream.sig_toks] at ht'
  have hm := (List.mem_filter.mp ht').1
  exact ⟨sig_toks_tokLex inp Cur.init t ht, valid_source_token_values inp hv Cur.init t hm,
    rawS_line inp Cur.init (by decide) t hm⟩

/-! ### the shape of the postconditions -/

structure OutS (ok : Prop) (u : List Token) : Prop where
  lex : (∀ t ∈ u, TokLexU t) → ok

theorem OutS.triv (u : List Token) : OutS True u := ⟨fun _ => trivial⟩

theorem OutS.pure {ok : Prop} (h : ok) (u : List Token) : OutS ok u := ⟨fun _ => h⟩

theorem OutS.and {o1 o2 : Prop} {u1 u2 : List Token} (h1 : OutS o1 u1) (h2 : OutS o2 u2) : OutS (o1 ∧ o2) (u1 ++ u2) :=
  ⟨fun g => ⟨h1.lex fun t ht => g t (List.mem_append_left _ ht), h2.lex fun t ht => g t (List.mem_append_right _ ht)⟩⟩

theorem OutS.both {o1 o2 : Prop} {u : List Token} (h1 : OutS o1 u) (h2 : OutS o2 u) : OutS (o1 ∧ o2) u :=
  ⟨fun g => ⟨h1.lex g, h2.lex g⟩⟩

theorem OutS.cast {o o' : Prop} {u : List Token} (h : OutS o u) (ho : o → o') : OutS o' u := ⟨fun g => ho (h.lex g)⟩

theorem OutS.tok (t : Token) : OutS (TokLexU t) [t] := ⟨fun g => g t (by simp)⟩

/-- a postcondition of the query traversal (`ParsedShape.lean`) is one of this traversal -/
theorem OutS.ofOut {ok : Prop} {ps : List Nat} {u : List Token} (h : Out ok ps u) : OutS ok u :=
  ⟨fun g => h.lex fun t ht => (g t ht).1⟩

theorem nameOutS {t : Token} (hk : t.kind = .name) : OutS (isNameB t.value = true) [t] :=
  (OutS.tok t).cast fun h => h.1.1 hk

theorem many_outS {α : Type} {ok : α → Prop} {xs : List α} {mid : List Token}
    (h : Many (fun x u => OutS (ok x) u) xs mid) : OutS (∀ x ∈ xs, ok x) mid := by
  induction h with
  | nil => exact ⟨fun _ _ h => (by cases h)⟩
  | @cons x xs u us hx _ ih =>
    refine (hx.and ih).cast (fun ⟨h1, h2⟩ y hy => ?_)
    rcases List.mem_cons.1 hy with rfl | hy
    · exact h1
    · exact h2 y hy

theorem bracketed_outS {α : Type} {ok : α → Prop} {start stop : Kind} {xs : List α} {a a' : AS}
    (hb : Bracketed (fun x u => OutS (ok x) u) start stop xs a a') :
    ∃ u, Ate a a' u ∧ OutS (∀ x ∈ xs, ok x) u := by
  rcases hb with ⟨rfl, _, rfl⟩ | ⟨_, u, hu, t1, mid, t2, rfl, _, _, _, _, hm⟩
  · exact ⟨[], Ate.peeked a, ⟨fun _ _ h => (by cases h)⟩⟩
  · refine ⟨_, hu, ?_⟩
    have := ((OutS.triv [t1]).and ((many_outS hm).and (OutS.triv [t2]))).cast (fun h => h.2.1)
    simpa using this

/-- the position recorded by `peekPos` is on the line of the first significant token ahead -/
theorem spec_peekPosL : Spec peekPos (fun pos a a' => a' = { a with pk := true } ∧ pos.line = a.σ.head.line) := by
  unfold peekPos
  refine (Spec.bind spec_hasErr fun e => Spec.ite (fun _ => Spec.pure Pos.zero)
    (fun _ => Spec.bind spec_peek fun tok => Spec.bind spec_getSrc fun i => Spec.pure (posOf i tok))).mono ?_
  rintro pos a a'' _ ⟨e, a', ⟨rfl, rfl⟩, ⟨he, _⟩ | ⟨_, tok, a1, ⟨rfl, rfl⟩, i, a2, rfl, rfl, rfl⟩⟩
  · cases he
  · exact ⟨rfl, rfl⟩

/-- a position recorded in front of consumed tokens is on a line ≥ 1 -/
theorem lineOutS {a a' : AS} {u : List Token} {pos : Pos} (h : Ate a a' u) (hu : u ≠ [])
    (hpos : pos.line = a.σ.head.line) : OutS (1 ≤ pos.line) u := by
  cases u with
  | nil => exact absurd rfl hu
  | cons t rest =>
    refine ⟨fun g => ?_⟩
    rw [hpos, h.head]
    exact (g t (by simp)).2.2

theorem not_suppressed {name : Bytes} {pos : Pos} (h : 1 ≤ pos.line) : fieldSuppressed false name pos = false := by
  unfold fieldSuppressed
  have : (pos.line == 0) = false := by
    cases hl : pos.line with
    | zero => omega
    | succ k => rfl
  simp [this]

theorem strRaw_nil : strRaw [] = true := by decide

/-! ### the sub-parsers shared with the query parser (`ParsedShape.lean`) -/

def SDirs (ds : List Directive) (u : List Token) : Prop := OutS (ds.all dirOk = true) u
def SType (ty : GType) (u : List Token) : Prop := OutS (typeOk ty = true) u
def SValue (v : Value) (u : List Token) : Prop := OutS (valueOk v = true) u
def SName (n : Name) (u : List Token) : Prop := OutS (isNameB n = true) u

theorem s_parseDirectives (n : Nat) : Spec (parseDirectives n true) (Eats SDirs) :=
  (e_parseDirectives n true).mono fun _ _ _ _ e => e.mono fun _ _ h => OutS.ofOut h

theorem s_parseTypeReference (n : Nat) : Spec (parseTypeReference n) (Eats SType) :=
  (e_parseTypeReference n).mono fun _ _ _ _ e => e.mono fun _ _ h => OutS.ofOut h

theorem s_parseValueLiteral (n : Nat) : Spec (parseValueLiteral n true) (Eats SValue) :=
  (e_parseValueLiteral true n).mono fun _ _ _ _ e => e.mono fun _ _ h => OutS.ofOut h

theorem s_parseName : Spec parseName (Eats SName) :=
  spec_parseName'.mono fun _ _ _ _ e => e.mono fun n u ⟨t, h1, h2, h3, _⟩ => by
    subst h1 h3; exact nameOutS h2

/-! ### descriptions -/

def SDesc (d : Bytes) (u : List Token) : Prop := OutS (strRaw d = true) u

theorem s_parseDescription : Spec parseDescription (Eats SDesc) := by
  unfold parseDescription
  refine (Spec.bind spec_peek fun token => Spec.ite (fun _ => Spec.pure [])
    (fun _ => Spec.bind spec_next fun t => Spec.pure t.value)).mono ?_
  rintro d a a'' hne ⟨token, a1, ⟨rfl, rfl⟩, ⟨hk, rfl, rfl⟩ | ⟨hk, t, a2, hn, rfl, rfl⟩⟩
  · exact ⟨[], Ate.peeked a, OutS.pure strRaw_nil _⟩
  · have hk' : a.σ.head.kind = .blockString ∨ a.σ.head.kind = .string := by
      by_cases h1 : a.σ.head.kind = .blockString
      · exact .inl h1
      · by_cases h2 : a.σ.head.kind = .string
        · exact .inr h2
        · exact absurd ⟨h1, h2⟩ hk
    have hks : ∃ k, a.σ.head.kind = k ∧ k ≠ .eof ∧ k ≠ .invalid := by
      rcases hk' with h | h <;> exact ⟨_, h, by decide, by decide⟩
    obtain ⟨k, hk1, hk2, hk3⟩ := hks
    obtain ⟨e1, e2, _⟩ := next_eats (a := { a with pk := true }) hne rfl hk1 hk2 hk3 hn
    exact ⟨[t], (Ate.peeked a).trans e2, (OutS.tok t).cast fun h => h.2.1⟩

/-! ### separated lists of names -/

theorem s_sepLoop {α : Type} {P : α → List Token → Prop} (sep : Kind) (h1 : sep ≠ .eof) (h2 : sep ≠ .invalid)
    {item : Prog α} (hitem : Spec item (Eats P)) (n : Nat) (acc : List α) :
    Spec (sepLoop sep item n acc) (fun xs a a' => ∃ items used, xs = items.reverse ++ acc ∧ Ate a a' used ∧
      Many (fun x u => ∃ t u', u = t :: u' ∧ P x u') items used) := by
  induction n generalizing acc with
  | zero => exact Spec.of_dead (outOfFuel_dead _)
  | succ n ih =>
    unfold sepLoop
    refine (Spec.bind (spec_skip sep h1 h2) fun b => Spec.ite
      (fun _ => Spec.bind spec_hasErr fun e => Spec.ite (fun _ => Spec.pure acc)
        (fun _ => Spec.bind hitem fun x => ih (x :: acc))) (fun _ => Spec.pure acc)).mono ?_
    rintro xs a a'' _ ⟨b, a1, hs, ⟨hb, e, a2, ⟨rfl, rfl⟩, ⟨he, _⟩ |
      ⟨_, x, a3, ⟨u, g1, g2⟩, items, used, rfl, g3, g4⟩⟩ | ⟨hb, rfl, rfl⟩⟩
    · cases he
    · rcases hs with ⟨_, t0, g0, _, _⟩ | ⟨rfl, _⟩
      · exact ⟨x :: items, ([t0] ++ u) ++ used, by simp, (g0.trans g1).trans g3, .cons ⟨t0, u, rfl, g2⟩ g4⟩
      · simp at hb
    · rcases hs with ⟨rfl, _⟩ | ⟨_, _, rfl⟩
      · simp at hb
      · exact ⟨[], [], rfl, Ate.peeked a, .nil⟩

/-- a non-empty list of names -/
def SNames1 (ns : List Name) (u : List Token) : Prop := ns ≠ [] ∧ OutS (ns.all isNameB = true) u

def SNames (ns : List Name) (u : List Token) : Prop := OutS (ns.all isNameB = true) u

/-- what the three `sep? x (sep x)*` parsers establish, from their parts -/
theorem sepNames_assemble {sep : Kind} {b : Bool} {a0 a1 a2 a3 : AS} {first : Name} {xs : List Name}
    (hs : Skips sep b a0 a1) (hf : Eats SName first a1 a2)
    (hl : ∃ items used, xs = items.reverse ++ [first] ∧ Ate a2 a3 used ∧
      Many (fun x u => ∃ t u', u = t :: u' ∧ SName x u') items used) :
    Eats SNames1 xs.reverse a0 a3 := by
  obtain ⟨u1, g1, p1⟩ := hf
  obtain ⟨items, used, rfl, g2, hm⟩ := hl
  have hm' : Many (fun x u => OutS (isNameB x = true) u) items used :=
    hm.mono fun x u ⟨t, u', e, p⟩ => by
      subst e
      exact ⟨fun g => p.lex fun t' ht' => g t' (List.mem_cons_of_mem _ ht')⟩
  have o := many_outS hm'
  have hall : isNameB first = true ∧ (∀ x ∈ items, isNameB x = true) →
      ((items.reverse ++ [first]).reverse).all isNameB = true := by
    rintro ⟨q1, q2⟩
    simp only [List.reverse_append, List.reverse_reverse, List.reverse_cons, List.reverse_nil, List.nil_append,
      List.singleton_append, List.all_cons, Bool.and_eq_true, List.all_eq_true]
    exact ⟨q1, q2⟩
  rcases hs with ⟨_, t0, g0, _, _⟩ | ⟨_, _, rfl⟩
  · exact ⟨_, g0.trans (g1.trans g2), by simp, ((OutS.triv [t0]).and (p1.and o)).cast fun h => hall h.2⟩
  · exact ⟨_, (Ate.peeked a0).trans (g1.trans g2), by simp, (p1.and o).cast hall⟩

/-- `ImplementsInterfaces?` -/
theorem s_parseImplementsInterfaces (n : Nat) : Spec (parseImplementsInterfaces n) (Eats SNames) := by
  unfold parseImplementsInterfaces
  refine (Spec.bind spec_peek fun t => Spec.ite
    (fun _ => Spec.bind spec_next fun _ => Spec.bind (spec_skip .amp (by decide) (by decide)) fun _ =>
      Spec.bind s_parseName fun first =>
      Spec.bind (s_sepLoop .amp (by decide) (by decide) s_parseName n [first]) fun more => Spec.pure more.reverse)
    (fun _ => Spec.pure [])).mono ?_
  rintro ifs a a'' hne ⟨t, a1, ⟨rfl, rfl⟩, ⟨hk, tn, a2, hn, b, a3, hs, first, a4, hf, more, a5, hl, rfl, rfl⟩ | ⟨_, rfl, rfl⟩⟩
  · obtain ⟨e1, e2, _⟩ := next_eats (a := { a with pk := true }) (k := .name) hne rfl hk.1 (by decide) (by decide) hn
    obtain ⟨u, g, _, p⟩ := sepNames_assemble hs hf hl
    exact ⟨_, (Ate.peeked a).trans (e2.trans g), ((OutS.triv [tn]).and p).cast fun h => h.2⟩
  · exact ⟨[], Ate.peeked a, OutS.pure (by simp) _⟩

/-- `UnionMemberTypes?` -/
theorem s_parseUnionMemberTypes (n : Nat) : Spec (parseUnionMemberTypes n) (Eats SNames) := by
  unfold parseUnionMemberTypes
  refine (Spec.bind (spec_skip .equals (by decide) (by decide)) fun b0 => Spec.ite
    (fun _ => Spec.bind (spec_skip .pipe (by decide) (by decide)) fun _ =>
      Spec.bind s_parseName fun first =>
      Spec.bind (s_sepLoop .pipe (by decide) (by decide) s_parseName n [first]) fun more => Spec.pure more.reverse)
    (fun _ => Spec.pure [])).mono ?_
  rintro ts a a'' hne ⟨b0, a1, hs0, ⟨hb, b, a3, hs, first, a4, hf, more, a5, hl, rfl, rfl⟩ | ⟨hb, rfl, rfl⟩⟩
  · rcases hs0 with ⟨_, t0, g0, _, _⟩ | ⟨rfl, _⟩
    · obtain ⟨u, g, _, p⟩ := sepNames_assemble hs hf hl
      exact ⟨_, g0.trans g, ((OutS.triv [t0]).and p).cast fun h => h.2⟩
    · simp at hb
  · rcases hs0 with ⟨rfl, _⟩ | ⟨_, _, rfl⟩
    · simp at hb
    · exact ⟨[], Ate.peeked a, OutS.pure (by simp) _⟩

theorem s_parseDirectiveLocation : Spec parseDirectiveLocation (Eats SName) := by
  unfold parseDirectiveLocation
  refine (Spec.bind (spec_expect .name (by decide) (by decide)) fun name => Spec.ite (fun _ => Spec.pure name.value)
    (fun _ => Spec.of_dead_bind (R := fun _ _ _ => False) (failAt_dead _ _))).mono ?_
  rintro l a a'' _ ⟨name, a1, ⟨u, g, rfl, k1, _⟩, ⟨hc, rfl, rfl⟩ | ⟨_, hf⟩⟩
  · exact ⟨_, g, nameOutS k1⟩
  · exact hf.elim

/-- `DirectiveLocations` -/
theorem s_parseDirectiveLocations (n : Nat) : Spec (parseDirectiveLocations n) (Eats SNames1) := by
  unfold parseDirectiveLocations
  refine (Spec.bind (spec_skip .pipe (by decide) (by decide)) fun _ =>
    Spec.bind s_parseDirectiveLocation fun first =>
    Spec.bind (s_sepLoop .pipe (by decide) (by decide) s_parseDirectiveLocation n [first]) fun more =>
      Spec.pure more.reverse).mono ?_
  rintro ls a a'' _ ⟨b, a3, hs, first, a4, hf, more, a5, hl, rfl, rfl⟩
  exact sepNames_assemble hs hf hl

/-! ### input values, fields, enum values -/

def SArgDef (x : ArgDef) (u : List Token) : Prop := OutS (argDefOk x = true) u

theorem s_parseArgumentDef (n : Nat) : Spec (parseArgumentDef n) (Eats SArgDef) := by
  unfold parseArgumentDef
  refine (Spec.bind spec_peekPos fun pos => Spec.bind s_parseDescription fun desc => Spec.bind spec_peek fun _ =>
    Spec.bind spec_parseName' fun name => Spec.bind (spec_expect .colon (by decide) (by decide)) fun _ =>
    Spec.bind (s_parseTypeReference n) fun ty =>
    Spec.bind (spec_skip .equals (by decide) (by decide)) fun b => Spec.ite
      (fun _ => Spec.bind (s_parseValueLiteral n) fun v => Spec.bind (Spec.pure (Option.some v)) fun dv =>
        Spec.bind (s_parseDirectives n) fun dirs => Spec.pure _)
      (fun _ => Spec.bind (Spec.pure none) fun dv =>
        Spec.bind (s_parseDirectives n) fun dirs => Spec.pure _)).mono ?_
  rintro x a a'' _ ⟨pos, a1, ⟨rfl, _⟩, desc, a2, ⟨u0, h0, p0⟩, _, a2', ⟨_, rfl⟩, name, a3, ⟨u1, h1, t1, rfl, k1, rfl, _⟩,
    _, a4, ⟨u2, h2, _⟩, ty, a5, ⟨u3, h3, p3⟩, b, a6, hs,
    ⟨hb, v, a7, ⟨u4, h4, p4⟩, dv, a8, ⟨rfl, rfl⟩, dirs, a9, ⟨u5, h5, p5⟩, rfl, rfl⟩ |
    ⟨hb, dv, a8, ⟨rfl, rfl⟩, dirs, a9, ⟨u5, h5, p5⟩, rfl, rfl⟩⟩
  · rcases hs with ⟨_, te, he, _, _⟩ | ⟨rfl, _⟩
    · refine ⟨_, (Ate.peeked a).trans (h0.trans ((Ate.peeked a2).trans (h1.trans (h2.trans (h3.trans (he.trans (h4.trans h5))))))),
        (p0.and ((nameOutS k1).and ((OutS.triv u2).and (p3.and ((OutS.triv [te]).and (p4.and p5)))))).cast fun h => ?_⟩
      simp only [argDefOk, defaultOk, Bool.and_eq_true]
      exact ⟨⟨⟨⟨h.1, h.2.1⟩, h.2.2.2.1⟩, h.2.2.2.2.2.1⟩, h.2.2.2.2.2.2⟩
    · simp at hb
  · rcases hs with ⟨rfl, _⟩ | ⟨_, _, rfl⟩
    · simp at hb
    · refine ⟨_, (Ate.peeked a).trans (h0.trans ((Ate.peeked a2).trans (h1.trans (h2.trans (h3.trans ((Ate.peeked a5).trans h5)))))),
        (p0.and ((nameOutS k1).and ((OutS.triv u2).and (p3.and p5)))).cast fun h => ?_⟩
      simp only [argDefOk, defaultOk, Bool.and_eq_true]
      exact ⟨⟨⟨⟨h.1, h.2.1⟩, h.2.2.2.1⟩, trivial⟩, h.2.2.2.2⟩

/-- `ArgumentsDefinition?` -/
def SArgDefs (as : List ArgDef) (u : List Token) : Prop := OutS (as.all argDefOk = true) u

theorem s_parseArgumentDefs (n : Nat) : Spec (parseArgumentDefs n) (Eats SArgDefs) := by
  unfold parseArgumentDefs
  refine (spec_pSome .parenL .parenR (by decide) (by decide) (by decide) (by decide) n (s_parseArgumentDef n)).mono ?_
  rintro as a a' _ ⟨hb, _⟩
  obtain ⟨u, h1, o⟩ := bracketed_outS hb
  exact ⟨u, h1, o.cast fun h => List.all_eq_true.2 h⟩

/-- an input field: well-formed, and no arguments -/
def SInputField (f : FieldDef) (u : List Token) : Prop := OutS (fieldDefOk f = true ∧ f.args.isEmpty = true) u

theorem fieldDefOk_mk {desc : Bytes} {name : Name} {args : List ArgDef} {dv : Option Value} {ty : GType}
    {dirs : List Directive} {pos : Pos} (h1 : strRaw desc = true) (h2 : isNameB name = true)
    (h3 : args.all argDefOk = true) (h4 : typeOk ty = true) (h5 : defaultOk dv = true) (h6 : dirs.all dirOk = true)
    (h7 : 1 ≤ pos.line) :
    fieldDefOk { desc := desc, name := name, args := args, default := dv, type := ty, dirs := dirs, pos := pos } = true := by
  simp only [fieldDefOk, Bool.and_eq_true, not_suppressed h7, Bool.not_false]
  exact ⟨⟨⟨⟨⟨⟨h1, h2⟩, h3⟩, h4⟩, h5⟩, h6⟩, trivial⟩

theorem s_parseInputValueDef (n : Nat) : Spec (parseInputValueDef n) (Eats SInputField) := by
  unfold parseInputValueDef
  refine (Spec.bind spec_peekPosL fun pos => Spec.bind s_parseDescription fun desc => Spec.bind spec_peek fun _ =>
    Spec.bind spec_parseName' fun name => Spec.bind (spec_expect .colon (by decide) (by decide)) fun _ =>
    Spec.bind (s_parseTypeReference n) fun ty =>
    Spec.bind (spec_skip .equals (by decide) (by decide)) fun b => Spec.ite
      (fun _ => Spec.bind (s_parseValueLiteral n) fun v => Spec.bind (Spec.pure (Option.some v)) fun dv =>
        Spec.bind (s_parseDirectives n) fun dirs => Spec.pure _)
      (fun _ => Spec.bind (Spec.pure none) fun dv =>
        Spec.bind (s_parseDirectives n) fun dirs => Spec.pure _)).mono ?_
  rintro x a a'' _ ⟨pos, a1, ⟨rfl, hpos⟩, desc, a2, ⟨u0, h0, p0⟩, _, a2', ⟨_, rfl⟩, name, a3, ⟨u1, h1, t1, rfl, k1, rfl, _⟩,
    _, a4, ⟨u2, h2, _⟩, ty, a5, ⟨u3, h3, p3⟩, b, a6, hs,
    ⟨hb, v, a7, ⟨u4, h4, p4⟩, dv, a8, ⟨rfl, rfl⟩, dirs, a9, ⟨u5, h5, p5⟩, rfl, rfl⟩ |
    ⟨hb, dv, a8, ⟨rfl, rfl⟩, dirs, a9, ⟨u5, h5, p5⟩, rfl, rfl⟩⟩
  · rcases hs with ⟨_, te, he, _, _⟩ | ⟨rfl, _⟩
    · have hate := (Ate.peeked a).trans (h0.trans ((Ate.peeked a2).trans (h1.trans (h2.trans (h3.trans (he.trans (h4.trans h5)))))))
      refine ⟨_, hate,
        ((p0.and ((nameOutS k1).and ((OutS.triv u2).and (p3.and ((OutS.triv [te]).and (p4.and p5)))))).both
          (lineOutS hate (by simp) hpos)).cast fun h => ?_⟩
      exact ⟨fieldDefOk_mk h.1.1 h.1.2.1 (by simp) h.1.2.2.2.1 h.1.2.2.2.2.2.1 h.1.2.2.2.2.2.2 h.2, rfl⟩
    · simp at hb
  · rcases hs with ⟨rfl, _⟩ | ⟨_, _, rfl⟩
    · simp at hb
    · have hate := (Ate.peeked a).trans (h0.trans ((Ate.peeked a2).trans (h1.trans (h2.trans (h3.trans ((Ate.peeked a5).trans h5))))))
      refine ⟨_, hate,
        ((p0.and ((nameOutS k1).and ((OutS.triv u2).and (p3.and p5)))).both (lineOutS hate (by simp) hpos)).cast fun h => ?_⟩
      exact ⟨fieldDefOk_mk h.1.1 h.1.2.1 (by simp) h.1.2.2.2.1 rfl h.1.2.2.2.2 h.2, rfl⟩

/-- `InputFieldsDefinition?` -/
def SInputFields (fs : List FieldDef) (u : List Token) : Prop :=
  OutS (fs.all fieldDefOk = true ∧ fs.all (fun f => f.args.isEmpty) = true) u

theorem s_parseInputFieldsDefinition (n : Nat) : Spec (parseInputFieldsDefinition n) (Eats SInputFields) := by
  unfold parseInputFieldsDefinition
  refine (spec_pSome .braceL .braceR (by decide) (by decide) (by decide) (by decide) n (s_parseInputValueDef n)).mono ?_
  rintro fs a a' _ ⟨hb, _⟩
  obtain ⟨u, h1, o⟩ := bracketed_outS hb
  exact ⟨u, h1, o.cast fun h => ⟨List.all_eq_true.2 fun f hf => (h f hf).1, List.all_eq_true.2 fun f hf => (h f hf).2⟩⟩

/-- a field definition: well-formed, and no default value -/
def SFieldDef (f : FieldDef) (u : List Token) : Prop := OutS (fieldDefOk f = true ∧ f.default.isNone = true) u

theorem s_parseFieldDefinition (n : Nat) : Spec (parseFieldDefinition n) (Eats SFieldDef) := by
  unfold parseFieldDefinition
  refine (Spec.bind spec_peekPosL fun pos => Spec.bind s_parseDescription fun desc => Spec.bind spec_peek fun _ =>
    Spec.bind spec_parseName' fun name => Spec.bind (s_parseArgumentDefs n) fun args =>
    Spec.bind (spec_expect .colon (by decide) (by decide)) fun _ =>
    Spec.bind (s_parseTypeReference n) fun ty =>
    Spec.bind (s_parseDirectives n) fun dirs => Spec.pure _).mono ?_
  rintro x a a'' _ ⟨pos, a1, ⟨rfl, hpos⟩, desc, a2, ⟨u0, h0, p0⟩, _, a2', ⟨_, rfl⟩, name, a3, ⟨u1, h1, t1, rfl, k1, rfl, _⟩,
    args, a4, ⟨u2, h2, p2⟩, _, a5, ⟨u3, h3, _⟩, ty, a6, ⟨u4, h4, p4⟩, dirs, a7, ⟨u5, h5, p5⟩, rfl, rfl⟩
  have hate := (Ate.peeked a).trans (h0.trans ((Ate.peeked a2).trans (h1.trans (h2.trans (h3.trans (h4.trans h5))))))
  refine ⟨_, hate,
    ((p0.and ((nameOutS k1).and (p2.and ((OutS.triv u3).and (p4.and p5))))).both (lineOutS hate (by simp) hpos)).cast
      fun h => ?_⟩
  exact ⟨fieldDefOk_mk h.1.1 h.1.2.1 h.1.2.2.1 h.1.2.2.2.2.1 rfl h.1.2.2.2.2.2 h.2, rfl⟩

/-- `FieldsDefinition?` -/
def SFields (fs : List FieldDef) (u : List Token) : Prop :=
  OutS (fs.all fieldDefOk = true ∧ fs.all (fun f => f.default.isNone) = true) u

theorem s_parseFieldsDefinition (n : Nat) : Spec (parseFieldsDefinition n) (Eats SFields) := by
  unfold parseFieldsDefinition
  refine (spec_pSome .braceL .braceR (by decide) (by decide) (by decide) (by decide) n (s_parseFieldDefinition n)).mono ?_
  rintro fs a a' _ ⟨hb, _⟩
  obtain ⟨u, h1, o⟩ := bracketed_outS hb
  exact ⟨u, h1, o.cast fun h => ⟨List.all_eq_true.2 fun f hf => (h f hf).1, List.all_eq_true.2 fun f hf => (h f hf).2⟩⟩

def SEnumVal (e : EnumValDef) (u : List Token) : Prop := OutS (enumValOk e = true) u

theorem s_parseEnumValueDefinition (n : Nat) : Spec (parseEnumValueDefinition n) (Eats SEnumVal) := by
  unfold parseEnumValueDefinition
  refine (Spec.bind spec_peekPos fun pos => Spec.bind s_parseDescription fun desc => Spec.bind spec_peek fun _ =>
    Spec.bind spec_parseName' fun name => Spec.bind (s_parseDirectives n) fun dirs => Spec.pure _).mono ?_
  rintro x a a'' _ ⟨pos, a1, ⟨rfl, _⟩, desc, a2, ⟨u0, h0, p0⟩, _, a2', ⟨_, rfl⟩, name, a3, ⟨u1, h1, t1, rfl, k1, rfl, _⟩,
    dirs, a4, ⟨u2, h2, p2⟩, rfl, rfl⟩
  refine ⟨_, (Ate.peeked a).trans (h0.trans ((Ate.peeked a2).trans (h1.trans h2))),
    (p0.and ((nameOutS k1).and p2)).cast fun h => ?_⟩
  simp only [enumValOk, Bool.and_eq_true]
  exact ⟨⟨h.1, h.2.1⟩, h.2.2⟩

/-- `EnumValuesDefinition?` -/
def SEnumVals (es : List EnumValDef) (u : List Token) : Prop := OutS (es.all enumValOk = true) u

theorem s_parseEnumValuesDefinition (n : Nat) : Spec (parseEnumValuesDefinition n) (Eats SEnumVals) := by
  unfold parseEnumValuesDefinition
  refine (spec_pSome .braceL .braceR (by decide) (by decide) (by decide) (by decide) n (s_parseEnumValueDefinition n)).mono ?_
  rintro es a a' _ ⟨hb, _⟩
  obtain ⟨u, h1, o⟩ := bracketed_outS hb
  exact ⟨u, h1, o.cast fun h => List.all_eq_true.2 h⟩

/-! ### type definitions and extensions -/

theorem defOk_scalar {desc : Bytes} {name : Name} {dirs : List Directive} {pos : Pos} {bi : Bool}
    (h1 : strRaw desc = true) (h2 : isNameB name = true) (h3 : dirs.all dirOk = true) :
    defOk { kind := .scalar, desc := desc, name := name, dirs := dirs, interfaces := [], fields := [], types := [],
            enumValues := [], pos := pos, builtIn := bi } = true := by
  simp [defOk, shapeOk, h1, h2, h3]

theorem defOk_object {desc : Bytes} {name : Name} {dirs : List Directive} {ifs : List Name} {fields : List FieldDef}
    {pos : Pos} {bi : Bool} (h1 : strRaw desc = true) (h2 : isNameB name = true) (h3 : dirs.all dirOk = true)
    (h4 : ifs.all isNameB = true) (h5 : fields.all fieldDefOk = true) (h6 : fields.all (fun f => f.default.isNone) = true) :
    defOk { kind := .object, desc := desc, name := name, dirs := dirs, interfaces := ifs, fields := fields, types := [],
            enumValues := [], pos := pos, builtIn := bi } = true := by
  simp only [defOk, shapeOk, h1, h2, h3, h4, h5, h6, List.all_nil, List.isEmpty_nil, Bool.and_self]

theorem defOk_interface {desc : Bytes} {name : Name} {dirs : List Directive} {ifs : List Name} {fields : List FieldDef}
    {pos : Pos} {bi : Bool} (h1 : strRaw desc = true) (h2 : isNameB name = true) (h3 : dirs.all dirOk = true)
    (h4 : ifs.all isNameB = true) (h5 : fields.all fieldDefOk = true) (h6 : fields.all (fun f => f.default.isNone) = true) :
    defOk { kind := .interface, desc := desc, name := name, dirs := dirs, interfaces := ifs, fields := fields, types := [],
            enumValues := [], pos := pos, builtIn := bi } = true := by
  simp only [defOk, shapeOk, h1, h2, h3, h4, h5, h6, List.all_nil, List.isEmpty_nil, Bool.and_self]

theorem defOk_union {desc : Bytes} {name : Name} {dirs : List Directive} {types : List Name}
    {pos : Pos} {bi : Bool} (h1 : strRaw desc = true) (h2 : isNameB name = true) (h3 : dirs.all dirOk = true)
    (h4 : types.all isNameB = true) :
    defOk { kind := .union, desc := desc, name := name, dirs := dirs, interfaces := [], fields := [], types := types,
            enumValues := [], pos := pos, builtIn := bi } = true := by
  simp only [defOk, shapeOk, h1, h2, h3, h4, List.all_nil, List.isEmpty_nil, Bool.and_self]

theorem defOk_enum {desc : Bytes} {name : Name} {dirs : List Directive} {evs : List EnumValDef}
    {pos : Pos} {bi : Bool} (h1 : strRaw desc = true) (h2 : isNameB name = true) (h3 : dirs.all dirOk = true)
    (h4 : evs.all enumValOk = true) :
    defOk { kind := .enum, desc := desc, name := name, dirs := dirs, interfaces := [], fields := [], types := [],
            enumValues := evs, pos := pos, builtIn := bi } = true := by
  simp only [defOk, shapeOk, h1, h2, h3, h4, List.all_nil, List.isEmpty_nil, Bool.and_self]

theorem defOk_input {desc : Bytes} {name : Name} {dirs : List Directive} {fields : List FieldDef}
    {pos : Pos} {bi : Bool} (h1 : strRaw desc = true) (h2 : isNameB name = true) (h3 : dirs.all dirOk = true)
    (h5 : fields.all fieldDefOk = true) (h6 : fields.all (fun f => f.args.isEmpty) = true) :
    defOk { kind := .inputObject, desc := desc, name := name, dirs := dirs, interfaces := [], fields := fields, types := [],
            enumValues := [], pos := pos, builtIn := bi } = true := by
  simp only [defOk, shapeOk, h1, h2, h3, h5, h6, List.all_nil, List.isEmpty_nil, Bool.and_self]

theorem extOk_of {d : Definition} (h : defOk d = true) (hd : d.desc = []) : extOk d = true := by
  simp [extOk, h, hd]

/-- a type definition parsed after the description `desc` -/
def SDef (desc : Bytes) (d : Definition) (u : List Token) : Prop := OutS (strRaw desc = true → defOk d = true) u

theorem s_parseScalarTypeDefinition (n : Nat) (desc : Bytes) :
    Spec (parseScalarTypeDefinition n desc) (Eats (SDef desc)) := by
  unfold parseScalarTypeDefinition
  refine (Spec.bind (spec_expectKeyword kwScalar) fun _ => Spec.bind spec_peekPos fun pos =>
    Spec.bind spec_parseName' fun name => Spec.bind (s_parseDirectives n) fun dirs => Spec.pure _).mono ?_
  rintro d a a'' _ ⟨tkw, a1, ⟨u0, h0, rfl, k0, v0⟩, pos, a2, ⟨rfl, hpos⟩, name, a3, ⟨u1, h1, tnm, rfl, k1, rfl, _⟩,
    dirs, a5, ⟨u3, h3, p3⟩, rfl, rfl⟩
  exact ⟨_, h0.trans ((Ate.peeked a1).trans (h1.trans h3)),
    ((OutS.triv [tkw]).and ((nameOutS k1).and p3)).cast fun h hd => defOk_scalar hd h.2.1 h.2.2⟩

theorem s_parseObjectTypeDefinition (n : Nat) (desc : Bytes) :
    Spec (parseObjectTypeDefinition n desc) (Eats (SDef desc)) := by
  unfold parseObjectTypeDefinition
  refine (Spec.bind (spec_expectKeyword kwType) fun _ => Spec.bind spec_peekPos fun pos =>
    Spec.bind spec_parseName' fun name => Spec.bind (s_parseImplementsInterfaces n) fun ifs =>
    Spec.bind (s_parseDirectives n) fun dirs => Spec.bind (s_parseFieldsDefinition n) fun fields =>
    Spec.pure _).mono ?_
  rintro d a a'' _ ⟨tkw, a1, ⟨u0, h0, rfl, k0, v0⟩, pos, a2, ⟨rfl, hpos⟩, name, a3, ⟨u1, h1, tnm, rfl, k1, rfl, _⟩,
    ifs, a4, ⟨u2, h2, p2⟩, dirs, a5, ⟨u3, h3, p3⟩, fields, a6, ⟨u4, h4, p4⟩, rfl, rfl⟩
  exact ⟨_, h0.trans ((Ate.peeked a1).trans (h1.trans (h2.trans (h3.trans h4)))),
    ((OutS.triv [tkw]).and ((nameOutS k1).and (p2.and (p3.and p4)))).cast fun h hd =>
      defOk_object hd h.2.1 h.2.2.2.1 h.2.2.1 h.2.2.2.2.1 h.2.2.2.2.2⟩

theorem s_parseInterfaceTypeDefinition (n : Nat) (desc : Bytes) :
    Spec (parseInterfaceTypeDefinition n desc) (Eats (SDef desc)) := by
  unfold parseInterfaceTypeDefinition
  refine (Spec.bind (spec_expectKeyword kwInterface) fun _ => Spec.bind spec_peekPos fun pos =>
    Spec.bind spec_parseName' fun name => Spec.bind (s_parseImplementsInterfaces n) fun ifs =>
    Spec.bind (s_parseDirectives n) fun dirs => Spec.bind (s_parseFieldsDefinition n) fun fields =>
    Spec.pure _).mono ?_
  rintro d a a'' _ ⟨tkw, a1, ⟨u0, h0, rfl, k0, v0⟩, pos, a2, ⟨rfl, hpos⟩, name, a3, ⟨u1, h1, tnm, rfl, k1, rfl, _⟩,
    ifs, a4, ⟨u2, h2, p2⟩, dirs, a5, ⟨u3, h3, p3⟩, fields, a6, ⟨u4, h4, p4⟩, rfl, rfl⟩
  exact ⟨_, h0.trans ((Ate.peeked a1).trans (h1.trans (h2.trans (h3.trans h4)))),
    ((OutS.triv [tkw]).and ((nameOutS k1).and (p2.and (p3.and p4)))).cast fun h hd =>
      defOk_interface hd h.2.1 h.2.2.2.1 h.2.2.1 h.2.2.2.2.1 h.2.2.2.2.2⟩

theorem s_parseUnionTypeDefinition (n : Nat) (desc : Bytes) :
    Spec (parseUnionTypeDefinition n desc) (Eats (SDef desc)) := by
  unfold parseUnionTypeDefinition
  refine (Spec.bind (spec_expectKeyword kwUnion) fun _ => Spec.bind spec_peekPos fun pos =>
    Spec.bind spec_parseName' fun name => Spec.bind (s_parseDirectives n) fun dirs =>
    Spec.bind (s_parseUnionMemberTypes n) fun types => Spec.pure _).mono ?_
  rintro d a a'' _ ⟨tkw, a1, ⟨u0, h0, rfl, k0, v0⟩, pos, a2, ⟨rfl, hpos⟩, name, a3, ⟨u1, h1, tnm, rfl, k1, rfl, _⟩,
    dirs, a5, ⟨u3, h3, p3⟩, types, a6, ⟨u4, h4, p4⟩, rfl, rfl⟩
  exact ⟨_, h0.trans ((Ate.peeked a1).trans (h1.trans (h3.trans h4))),
    ((OutS.triv [tkw]).and ((nameOutS k1).and (p3.and p4))).cast fun h hd => defOk_union hd h.2.1 h.2.2.1 h.2.2.2⟩

theorem s_parseEnumTypeDefinition (n : Nat) (desc : Bytes) :
    Spec (parseEnumTypeDefinition n desc) (Eats (SDef desc)) := by
  unfold parseEnumTypeDefinition
  refine (Spec.bind (spec_expectKeyword kwEnum) fun _ => Spec.bind spec_peekPos fun pos =>
    Spec.bind spec_parseName' fun name => Spec.bind (s_parseDirectives n) fun dirs =>
    Spec.bind (s_parseEnumValuesDefinition n) fun evs => Spec.pure _).mono ?_
  rintro d a a'' _ ⟨tkw, a1, ⟨u0, h0, rfl, k0, v0⟩, pos, a2, ⟨rfl, hpos⟩, name, a3, ⟨u1, h1, tnm, rfl, k1, rfl, _⟩,
    dirs, a5, ⟨u3, h3, p3⟩, evs, a6, ⟨u4, h4, p4⟩, rfl, rfl⟩
  exact ⟨_, h0.trans ((Ate.peeked a1).trans (h1.trans (h3.trans h4))),
    ((OutS.triv [tkw]).and ((nameOutS k1).and (p3.and p4))).cast fun h hd => defOk_enum hd h.2.1 h.2.2.1 h.2.2.2⟩

theorem s_parseInputObjectTypeDefinition (n : Nat) (desc : Bytes) :
    Spec (parseInputObjectTypeDefinition n desc) (Eats (SDef desc)) := by
  unfold parseInputObjectTypeDefinition
  refine (Spec.bind (spec_expectKeyword kwInput) fun _ => Spec.bind spec_peekPos fun pos =>
    Spec.bind spec_parseName' fun name => Spec.bind (s_parseDirectives n) fun dirs =>
    Spec.bind (s_parseInputFieldsDefinition n) fun fields => Spec.pure _).mono ?_
  rintro d a a'' _ ⟨tkw, a1, ⟨u0, h0, rfl, k0, v0⟩, pos, a2, ⟨rfl, hpos⟩, name, a3, ⟨u1, h1, tnm, rfl, k1, rfl, _⟩,
    dirs, a5, ⟨u3, h3, p3⟩, fields, a6, ⟨u4, h4, p4⟩, rfl, rfl⟩
  exact ⟨_, h0.trans ((Ate.peeked a1).trans (h1.trans (h3.trans h4))),
    ((OutS.triv [tkw]).and ((nameOutS k1).and (p3.and p4))).cast fun h hd =>
      defOk_input hd h.2.1 h.2.2.1 h.2.2.2.1 h.2.2.2.2⟩

/-- `parseTypeSystemDefinition` -/
theorem s_parseTypeSystemDefinition (n : Nat) (desc : Bytes) :
    Spec (parseTypeSystemDefinition n desc) (Eats (SDef desc)) := by
  unfold parseTypeSystemDefinition
  refine (Spec.bind spec_peek fun tok => Spec.ite
    (fun _ => Spec.of_dead_bind (R := fun _ _ _ => False) unexpectedError_dead) fun _ => Spec.ite
    (fun _ => s_parseScalarTypeDefinition n desc) fun _ => Spec.ite
    (fun _ => s_parseObjectTypeDefinition n desc) fun _ => Spec.ite
    (fun _ => s_parseInterfaceTypeDefinition n desc) fun _ => Spec.ite
    (fun _ => s_parseUnionTypeDefinition n desc) fun _ => Spec.ite
    (fun _ => s_parseEnumTypeDefinition n desc) fun _ => Spec.ite
    (fun _ => s_parseInputObjectTypeDefinition n desc)
    (fun _ => Spec.of_dead_bind (R := fun _ _ _ => False) unexpectedError_dead)).mono ?_
  rintro d a a'' _ ⟨tok, a1, ⟨rfl, rfl⟩, ⟨_, hf⟩ | ⟨_, ⟨_, u, h, p⟩ | ⟨_, ⟨_, u, h, p⟩ | ⟨_, ⟨_, u, h, p⟩ | ⟨_, ⟨_, u, h, p⟩ |
    ⟨_, ⟨_, u, h, p⟩ | ⟨_, ⟨_, u, h, p⟩ | ⟨_, hf⟩⟩⟩⟩⟩⟩⟩⟩
  · exact hf.elim
  all_goals first
    | exact ⟨u, (Ate.peeked a).trans h, p⟩
    | exact hf.elim

/-- a type extension -/
def SExt (d : Definition) (u : List Token) : Prop := OutS (extOk d = true) u

theorem s_parseScalarTypeExtension (n : Nat) : Spec (parseScalarTypeExtension n) (Eats SExt) := by
  unfold parseScalarTypeExtension
  refine (Spec.bind (spec_expectKeyword kwScalar) fun _ => Spec.bind spec_peekPos fun pos =>
    Spec.bind spec_parseName' fun name => Spec.bind (s_parseDirectives n) fun dirs =>
    Spec.ite (fun _ => Spec.of_dead_bind (R := fun _ _ _ => False) unexpectedError_dead) (fun _ => Spec.pure _)).mono ?_
  rintro d a a'' _ ⟨tkw, a1, ⟨u0, h0, rfl, k0, v0⟩, pos, a2, ⟨rfl, hpos⟩, name, a3, ⟨u1, h1, tnm, rfl, k1, rfl, _⟩,
    dirs, a5, ⟨u3, h3, p3⟩, ⟨_, hf⟩ | ⟨hc, rfl, rfl⟩⟩
  · exact hf.elim
  · exact ⟨_, h0.trans ((Ate.peeked a1).trans (h1.trans h3)),
      ((OutS.triv [tkw]).and ((nameOutS k1).and p3)).cast fun h => extOk_of (defOk_scalar strRaw_nil h.2.1 h.2.2) rfl⟩

theorem s_parseObjectTypeExtension (n : Nat) : Spec (parseObjectTypeExtension n) (Eats SExt) := by
  unfold parseObjectTypeExtension
  refine (Spec.bind (spec_expectKeyword kwType) fun _ => Spec.bind spec_peekPos fun pos =>
    Spec.bind spec_parseName' fun name => Spec.bind (s_parseImplementsInterfaces n) fun ifs =>
    Spec.bind (s_parseDirectives n) fun dirs => Spec.bind (s_parseFieldsDefinition n) fun fields =>
    Spec.ite (fun _ => Spec.of_dead_bind (R := fun _ _ _ => False) unexpectedError_dead) (fun _ => Spec.pure _)).mono ?_
  rintro d a a'' _ ⟨tkw, a1, ⟨u0, h0, rfl, k0, v0⟩, pos, a2, ⟨rfl, hpos⟩, name, a3, ⟨u1, h1, tnm, rfl, k1, rfl, _⟩,
    ifs, a4, ⟨u2, h2, p2⟩, dirs, a5, ⟨u3, h3, p3⟩, fields, a6, ⟨u4, h4, p4⟩, ⟨_, hf⟩ | ⟨hc, rfl, rfl⟩⟩
  · exact hf.elim
  · exact ⟨_, h0.trans ((Ate.peeked a1).trans (h1.trans (h2.trans (h3.trans h4)))),
      ((OutS.triv [tkw]).and ((nameOutS k1).and (p2.and (p3.and p4)))).cast fun h =>
        extOk_of (defOk_object strRaw_nil h.2.1 h.2.2.2.1 h.2.2.1 h.2.2.2.2.1 h.2.2.2.2.2) rfl⟩

theorem s_parseInterfaceTypeExtension (n : Nat) : Spec (parseInterfaceTypeExtension n) (Eats SExt) := by
  unfold parseInterfaceTypeExtension
  refine (Spec.bind (spec_expectKeyword kwInterface) fun _ => Spec.bind spec_peekPos fun pos =>
    Spec.bind spec_parseName' fun name => Spec.bind (s_parseImplementsInterfaces n) fun ifs =>
    Spec.bind (s_parseDirectives n) fun dirs => Spec.bind (s_parseFieldsDefinition n) fun fields =>
    Spec.ite (fun _ => Spec.of_dead_bind (R := fun _ _ _ => False) unexpectedError_dead) (fun _ => Spec.pure _)).mono ?_
  rintro d a a'' _ ⟨tkw, a1, ⟨u0, h0, rfl, k0, v0⟩, pos, a2, ⟨rfl, hpos⟩, name, a3, ⟨u1, h1, tnm, rfl, k1, rfl, _⟩,
    ifs, a4, ⟨u2, h2, p2⟩, dirs, a5, ⟨u3, h3, p3⟩, fields, a6, ⟨u4, h4, p4⟩, ⟨_, hf⟩ | ⟨hc, rfl, rfl⟩⟩
  · exact hf.elim
  · exact ⟨_, h0.trans ((Ate.peeked a1).trans (h1.trans (h2.trans (h3.trans h4)))),
      ((OutS.triv [tkw]).and ((nameOutS k1).and (p2.and (p3.and p4)))).cast fun h =>
        extOk_of (defOk_interface strRaw_nil h.2.1 h.2.2.2.1 h.2.2.1 h.2.2.2.2.1 h.2.2.2.2.2) rfl⟩

theorem s_parseUnionTypeExtension (n : Nat) : Spec (parseUnionTypeExtension n) (Eats SExt) := by
  unfold parseUnionTypeExtension
  refine (Spec.bind (spec_expectKeyword kwUnion) fun _ => Spec.bind spec_peekPos fun pos =>
    Spec.bind spec_parseName' fun name => Spec.bind (s_parseDirectives n) fun dirs =>
    Spec.bind (s_parseUnionMemberTypes n) fun types =>
    Spec.ite (fun _ => Spec.of_dead_bind (R := fun _ _ _ => False) unexpectedError_dead) (fun _ => Spec.pure _)).mono ?_
  rintro d a a'' _ ⟨tkw, a1, ⟨u0, h0, rfl, k0, v0⟩, pos, a2, ⟨rfl, hpos⟩, name, a3, ⟨u1, h1, tnm, rfl, k1, rfl, _⟩,
    dirs, a5, ⟨u3, h3, p3⟩, types, a6, ⟨u4, h4, p4⟩, ⟨_, hf⟩ | ⟨hc, rfl, rfl⟩⟩
  · exact hf.elim
  · exact ⟨_, h0.trans ((Ate.peeked a1).trans (h1.trans (h3.trans h4))),
      ((OutS.triv [tkw]).and ((nameOutS k1).and (p3.and p4))).cast fun h =>
        extOk_of (defOk_union strRaw_nil h.2.1 h.2.2.1 h.2.2.2) rfl⟩

theorem s_parseEnumTypeExtension (n : Nat) : Spec (parseEnumTypeExtension n) (Eats SExt) := by
  unfold parseEnumTypeExtension
  refine (Spec.bind (spec_expectKeyword kwEnum) fun _ => Spec.bind spec_peekPos fun pos =>
    Spec.bind spec_parseName' fun name => Spec.bind (s_parseDirectives n) fun dirs =>
    Spec.bind (s_parseEnumValuesDefinition n) fun evs =>
    Spec.ite (fun _ => Spec.of_dead_bind (R := fun _ _ _ => False) unexpectedError_dead) (fun _ => Spec.pure _)).mono ?_
  rintro d a a'' _ ⟨tkw, a1, ⟨u0, h0, rfl, k0, v0⟩, pos, a2, ⟨rfl, hpos⟩, name, a3, ⟨u1, h1, tnm, rfl, k1, rfl, _⟩,
    dirs, a5, ⟨u3, h3, p3⟩, evs, a6, ⟨u4, h4, p4⟩, ⟨_, hf⟩ | ⟨hc, rfl, rfl⟩⟩
  · exact hf.elim
  · exact ⟨_, h0.trans ((Ate.peeked a1).trans (h1.trans (h3.trans h4))),
      ((OutS.triv [tkw]).and ((nameOutS k1).and (p3.and p4))).cast fun h =>
        extOk_of (defOk_enum strRaw_nil h.2.1 h.2.2.1 h.2.2.2) rfl⟩

theorem s_parseInputObjectTypeExtension (n : Nat) : Spec (parseInputObjectTypeExtension n) (Eats SExt) := by
  unfold parseInputObjectTypeExtension
  refine (Spec.bind (spec_expectKeyword kwInput) fun _ => Spec.bind spec_peekPos fun pos =>
    Spec.bind spec_parseName' fun name => Spec.bind (s_parseDirectives n) fun dirs =>
    Spec.bind (s_parseInputFieldsDefinition n) fun fields =>
    Spec.ite (fun _ => Spec.of_dead_bind (R := fun _ _ _ => False) unexpectedError_dead) (fun _ => Spec.pure _)).mono ?_
  rintro d a a'' _ ⟨tkw, a1, ⟨u0, h0, rfl, k0, v0⟩, pos, a2, ⟨rfl, hpos⟩, name, a3, ⟨u1, h1, tnm, rfl, k1, rfl, _⟩,
    dirs, a5, ⟨u3, h3, p3⟩, fields, a6, ⟨u4, h4, p4⟩, ⟨_, hf⟩ | ⟨hc, rfl, rfl⟩⟩
  · exact hf.elim
  · exact ⟨_, h0.trans ((Ate.peeked a1).trans (h1.trans (h3.trans h4))),
      ((OutS.triv [tkw]).and ((nameOutS k1).and (p3.and p4))).cast fun h =>
        extOk_of (defOk_input strRaw_nil h.2.1 h.2.2.1 h.2.2.2.1 h.2.2.2.2) rfl⟩

/-! ### schema definition and extension -/

def SOpType (o : OpTypeDef) (u : List Token) : Prop := OutS (opTypeOk o = true) u

theorem s_parseOperationTypeDefinition : Spec parseOperationTypeDefinition (Eats SOpType) := by
  unfold parseOperationTypeDefinition
  refine (Spec.bind spec_peekPos fun pos => Spec.bind spec_parseOperationType fun op =>
    Spec.bind (spec_expect .colon (by decide) (by decide)) fun _ => Spec.bind spec_parseName' fun ty =>
    Spec.pure _).mono ?_
  rintro o a a'' _ ⟨pos, a1, ⟨rfl, _⟩, op, a2, hop, _, a3, ⟨u2, h2, _⟩, ty, a4, ⟨u3, h3, t3, rfl, k3, rfl, _⟩, rfl, rfl⟩
  obtain ⟨t1, e1, e2, e3⟩ := hop rfl
  refine ⟨_, (Ate.peeked a).trans (e1.trans (h2.trans h3)),
    ((OutS.triv [t1]).and ((OutS.triv u2).and (nameOutS k3))).cast fun h => ?_⟩
  simp only [opTypeOk, Bool.and_eq_true]
  exact ⟨isNameB_opKind e3, h.2.2⟩

/-- the `{ RootOperationTypeDefinition+ }` block -/
def SOpTypes (ots : List OpTypeDef) (u : List Token) : Prop := OutS (ots.all opTypeOk = true) u

theorem s_opTypesBlock (n : Nat) : Spec (pSome .braceL .braceR n parseOperationTypeDefinition) (Eats SOpTypes) := by
  refine (spec_pSome .braceL .braceR (by decide) (by decide) (by decide) (by decide) n
    s_parseOperationTypeDefinition).mono ?_
  rintro ots a a' _ ⟨hb, _⟩
  obtain ⟨u, h1, o⟩ := bracketed_outS hb
  exact ⟨u, h1, o.cast fun h => List.all_eq_true.2 h⟩

/-- `schema Directives? { … }` (what follows the description `desc` of a schema definition) -/
def SSchemaDef (desc : Bytes) (sd : SchemaDef) (u : List Token) : Prop :=
  OutS (strRaw desc = true → schemaDefOk sd = true) u

theorem s_parseSchemaDefinition (n : Nat) (desc : Bytes) :
    Spec (parseSchemaDefinition n desc) (Eats (SSchemaDef desc)) := by
  unfold parseSchemaDefinition
  refine (Spec.bind (spec_expectKeyword kwSchema) fun _ => Spec.bind spec_peekPos fun pos =>
    Spec.bind (s_parseDirectives n) fun dirs => Spec.bind spec_peek fun t => Spec.ite
      (fun _ => Spec.of_dead_bind (R := fun _ _ _ => False) unexpectedError_dead)
      (fun _ => Spec.bind (s_opTypesBlock n) fun ots => Spec.pure _)).mono ?_
  rintro sd a a'' _ ⟨tkw, a1, ⟨u0, h0, rfl, k0, v0⟩, pos, a2, ⟨rfl, hpos⟩, dirs, a3, ⟨u1, h1, p1⟩, t, a4, ⟨rfl, rfl⟩,
    ⟨_, hf⟩ | ⟨hk, ots, a5, ⟨u2, h2, p2⟩, rfl, rfl⟩⟩
  · exact hf.elim
  · refine ⟨_, h0.trans ((Ate.peeked a1).trans (h1.trans ((Ate.peeked a3).trans h2))),
      ((OutS.triv [tkw]).and (p1.and p2)).cast fun h hd => ?_⟩
    simp only [schemaDefOk, Bool.and_eq_true]
    exact ⟨⟨hd, h.2.1⟩, h.2.2⟩

def SSchemaExt (sd : SchemaDef) (u : List Token) : Prop := OutS (schemaExtOk sd = true) u

theorem s_parseSchemaExtension (n : Nat) : Spec (parseSchemaExtension n) (Eats SSchemaExt) := by
  unfold parseSchemaExtension
  refine (Spec.bind (spec_expectKeyword kwSchema) fun _ => Spec.bind spec_peekPos fun pos =>
    Spec.bind (s_parseDirectives n) fun dirs => Spec.bind (s_opTypesBlock n) fun ots => Spec.ite
      (fun _ => Spec.of_dead_bind (R := fun _ _ _ => False) unexpectedError_dead) (fun _ => Spec.pure _)).mono ?_
  rintro sd a a'' _ ⟨tkw, a1, ⟨u0, h0, rfl, k0, v0⟩, pos, a2, ⟨rfl, hpos⟩, dirs, a3, ⟨u1, h1, p1⟩,
    ots, a5, ⟨u2, h2, p2⟩, ⟨_, hf⟩ | ⟨hc, rfl, rfl⟩⟩
  · exact hf.elim
  · refine ⟨_, h0.trans ((Ate.peeked a1).trans (h1.trans h2)),
      ((OutS.triv [tkw]).and (p1.and p2)).cast fun h => ?_⟩
    simp only [schemaExtOk, Bool.and_eq_true, List.isEmpty_nil]
    exact ⟨⟨trivial, h.2.1⟩, h.2.2⟩

/-! ### directive definitions -/

/-- the part of a directive definition after the description `desc` -/
def SDirectiveDef (desc : Bytes) (dd : DirectiveDef) (u : List Token) : Prop :=
  OutS (strRaw desc = true → dirDefOk dd = true) u

theorem s_directiveTail (n : Nat) (desc : Bytes) (pos : Pos) (name : Name) (args : List ArgDef) (rep : Bool) :
    Spec (directiveTail n desc pos name args rep) (Eats fun dd u => ∃ locs,
      dd = { desc := desc, name := name, args := args, locations := locs, repeatable := rep, pos := pos } ∧
      locs ≠ [] ∧ OutS (locs.all isNameB = true) u) := by
  unfold directiveTail
  refine (Spec.bind (spec_expectKeyword kwOn) fun _ => Spec.bind (s_parseDirectiveLocations n) fun locs =>
    Spec.pure _).mono ?_
  rintro dd a a'' _ ⟨ton, a1, ⟨u0, h0, rfl, k0, v0⟩, locs, a2, ⟨u1, h1, p1, q1⟩, rfl, rfl⟩
  exact ⟨_, h0.trans h1, locs, rfl, p1, ((OutS.triv [ton]).and q1).cast fun h => h.2⟩

theorem dirDefOk_mk {desc : Bytes} {name : Name} {args : List ArgDef} {locs : List Bytes} {rep : Bool} {pos : Pos}
    (h1 : strRaw desc = true) (h2 : isNameB name = true) (h3 : args.all argDefOk = true) (h4 : locs ≠ [])
    (h5 : locs.all isNameB = true) :
    dirDefOk { desc := desc, name := name, args := args, locations := locs, repeatable := rep, pos := pos } = true := by
  cases locs with
  | nil => exact absurd rfl h4
  | cons l ls =>
    simp only [dirDefOk, Bool.and_eq_true, List.isEmpty_cons, Bool.not_false]
    exact ⟨⟨⟨⟨h1, h2⟩, h3⟩, trivial⟩, h5⟩

theorem s_parseDirectiveDefinition (n : Nat) (desc : Bytes) :
    Spec (parseDirectiveDefinition n desc) (Eats (SDirectiveDef desc)) := by
  rw [parseDirectiveDefinition_eq]
  refine (Spec.bind (spec_expectKeyword kwDirective) fun _ => Spec.bind (spec_expect .at (by decide) (by decide)) fun _ =>
    Spec.bind spec_peekPos fun pos => Spec.bind spec_parseName' fun name => Spec.bind (s_parseArgumentDefs n) fun args =>
    Spec.bind spec_peek fun pk => Spec.ite
      (fun _ => Spec.bind (spec_skip .name (by decide) (by decide)) fun _ => s_directiveTail n desc pos name args true)
      (fun _ => s_directiveTail n desc pos name args false)).mono ?_
  rintro dd a a'' _ ⟨tkw, a1, ⟨u0, h0, rfl, k0, v0⟩, _, a2, ⟨u1, h1, _⟩, pos, a3, ⟨rfl, hpos⟩, name, a4,
    ⟨u2, h2, tnm, rfl, k2, rfl, _⟩, args, a5, ⟨u3, h3, p3⟩, pk, a6, ⟨rfl, rfl⟩,
    ⟨hk, b, a7, hs, u5, h5, locs, rfl, q2, q3⟩ | ⟨hk, u5, h5, locs, rfl, q2, q3⟩⟩
  · rcases hs with ⟨_, trep, g, kr, _⟩ | ⟨_, hkn, _⟩
    · exact ⟨_, h0.trans (h1.trans ((Ate.peeked a2).trans (h2.trans (h3.trans ((Ate.peeked a5).trans (g.trans h5)))))),
        ((OutS.triv [tkw]).and ((OutS.triv u1).and ((nameOutS k2).and (p3.and ((OutS.triv [trep]).and q3))))).cast
          fun h hd => dirDefOk_mk hd h.2.2.1 h.2.2.2.1 q2 h.2.2.2.2.2⟩
    · exact absurd hk.1 hkn
  · exact ⟨_, h0.trans (h1.trans ((Ate.peeked a2).trans (h2.trans (h3.trans ((Ate.peeked a5).trans h5))))),
      ((OutS.triv [tkw]).and ((OutS.triv u1).and ((nameOutS k2).and (p3.and q3)))).cast
        fun h hd => dirDefOk_mk hd h.2.2.1 h.2.2.2.1 q2 h.2.2.2.2⟩

/-! ### the document -/

/-- the well-formedness of one top-level item -/
def itemOkS : SItem → Prop
  | .schema s => schemaDefOk s = true
  | .schemaExt s => schemaExtOk s = true
  | .directive d => dirDefOk d = true
  | .definition d => defOk d = true
  | .extension d => extOk d = true

def SItemP (it : SItem) (u : List Token) : Prop := OutS (itemOkS it) u

theorem s_parseOptionalDescription :
    Spec parseOptionalDescription (fun r a a' => Eats SDesc r.1 a a') := by
  unfold parseOptionalDescription
  refine (Spec.bind spec_peek fun x => Spec.ite
    (fun _ => Spec.bind s_parseDescription fun d => Spec.pure (d, true))
    (fun _ => Spec.bind spec_peek fun y => Spec.ite
      (fun _ => Spec.bind s_parseDescription fun d => Spec.pure (d, true))
      (fun _ => Spec.pure ([], false)))).mono ?_
  rintro r a a'' _ ⟨x, a1, ⟨rfl, rfl⟩, ⟨_, d, a2, ⟨u, h, p⟩, rfl, rfl⟩ |
    ⟨_, y, a2, ⟨rfl, rfl⟩, ⟨_, d, a3, ⟨u, h, p⟩, rfl, rfl⟩ | ⟨_, rfl, rfl⟩⟩⟩
  · exact ⟨u, (Ate.peeked a).trans h, p⟩
  · exact ⟨u, (Ate.peeked a).trans ((Ate.peeked _).trans h), p⟩
  · exact ⟨[], (Ate.peeked a).trans (Ate.peeked _), OutS.pure strRaw_nil _⟩

/-- `extend …` -/
theorem s_parseTypeSystemExtension (n : Nat) (doc : SchemaDoc) :
    Spec (parseTypeSystemExtension n doc) (Eats fun doc' u => ∃ it, SItemP it u ∧ doc' = doc.add it) := by
  unfold parseTypeSystemExtension
  refine (Spec.bind (spec_expectKeyword kwExtend) fun _ => Spec.bind spec_peek fun t => Spec.ite
    (fun _ => Spec.bind (s_parseSchemaExtension n) fun d => Spec.pure _) fun _ => Spec.ite
    (fun _ => Spec.bind (s_parseScalarTypeExtension n) fun d => Spec.pure _) fun _ => Spec.ite
    (fun _ => Spec.bind (s_parseObjectTypeExtension n) fun d => Spec.pure _) fun _ => Spec.ite
    (fun _ => Spec.bind (s_parseInterfaceTypeExtension n) fun d => Spec.pure _) fun _ => Spec.ite
    (fun _ => Spec.bind (s_parseUnionTypeExtension n) fun d => Spec.pure _) fun _ => Spec.ite
    (fun _ => Spec.bind (s_parseEnumTypeExtension n) fun d => Spec.pure _) fun _ => Spec.ite
    (fun _ => Spec.bind (s_parseInputObjectTypeExtension n) fun d => Spec.pure _)
    (fun _ => Spec.of_dead_bind (R := fun _ _ _ => False) unexpectedError_dead)).mono ?_
  have key : ∀ {a1 a'' : AS} {text : Token} {a : AS} {d : Definition} {u : List Token}, Ate a a1 [text] →
      Ate { a1 with pk := true } a'' u → SExt d u →
      Eats (fun doc' u => ∃ it, SItemP it u ∧ doc' = doc.add it) (doc.add (.extension d)) a a'' := by
    intro a1 a'' text a d u h0 h p
    exact ⟨_, h0.trans ((Ate.peeked a1).trans h), .extension d, ((OutS.triv [text]).and p).cast (fun h => h.2), rfl⟩
  rintro doc' a a'' _ ⟨text, a1, ⟨u0, h0, rfl, k0, v0⟩, t, a2, ⟨rfl, rfl⟩,
    ⟨_, d, a3, ⟨u, h, p⟩, rfl, rfl⟩ | ⟨_, ⟨_, d, a3, ⟨u, h, p⟩, rfl, rfl⟩ | ⟨_, ⟨_, d, a3, ⟨u, h, p⟩, rfl, rfl⟩ |
    ⟨_, ⟨_, d, a3, ⟨u, h, p⟩, rfl, rfl⟩ | ⟨_, ⟨_, d, a3, ⟨u, h, p⟩, rfl, rfl⟩ | ⟨_, ⟨_, d, a3, ⟨u, h, p⟩, rfl, rfl⟩ |
    ⟨_, ⟨_, d, a3, ⟨u, h, p⟩, rfl, rfl⟩ | ⟨_, hf⟩⟩⟩⟩⟩⟩⟩⟩
  · exact ⟨_, h0.trans ((Ate.peeked a1).trans h), .schemaExt d, ((OutS.triv [text]).and p).cast (fun h => h.2), rfl⟩
  · exact key h0 h p
  · exact key h0 h p
  · exact key h0 h p
  · exact key h0 h p
  · exact key h0 h p
  · exact key h0 h p
  · exact hf.elim

/-- what the schema document loop establishes -/
def SRel (doc : SchemaDoc) : SchemaDoc → AS → AS → Prop := fun d a a' =>
  ∃ items used, Ate a a' used ∧ a'.pk = true ∧ a'.σ.head.kind = .eof ∧ d = items.foldl SchemaDoc.add doc ∧
    Many SItemP items used

theorem SRel.cons {doc d : SchemaDoc} {it : SItem} {a a1 a' : AS} {u : List Token}
    (h1 : Ate a a1 u) (p : SItemP it u) (h2 : SRel (doc.add it) d a1 a') : SRel doc d a a' := by
  obtain ⟨items, used, g1, g2, g3, g4, g5⟩ := h2
  exact ⟨it :: items, u ++ used, h1.trans g1, g2, g3, by simpa using g4, .cons p g5⟩

theorem s_schemaDocLoop (m : Nat) : ∀ (n : Nat) (doc : SchemaDoc), Spec (schemaDocLoop m n doc) (SRel doc)
  | 0, doc => Spec.of_dead (outOfFuel_dead _)
  | n + 1, doc => by
    have ih := s_schemaDocLoop m n
    unfold schemaDocLoop
    refine (Spec.bind spec_peek fun t => Spec.ite
      (fun _ => Spec.bind spec_hasErr fun e => Spec.ite (fun _ => Spec.pure default)
        (fun _ => Spec.bind s_parseOptionalDescription
          (R2 := fun x d a1 a' => ∀ uD a0, Ate a0 a1 uD → SDesc x.1 uD → SRel doc d a0 a') ?_))
      (fun _ => Spec.pure doc)).mono ?_
    · rintro ⟨desc, has⟩
      refine (Spec.bind spec_peek fun c => Spec.ite
        (fun _ => Spec.of_dead_bind (R := fun _ _ _ => False) unexpectedError_dead)
        (fun _ => Spec.bind spec_peek fun d => Spec.ite
          (fun _ => Spec.bind (s_parseTypeSystemDefinition m desc) fun df => ih _) fun _ => Spec.ite
          (fun _ => Spec.bind (s_parseSchemaDefinition m desc) fun sd => ih _) fun _ => Spec.ite
          (fun _ => Spec.bind (s_parseDirectiveDefinition m desc) fun dd => ih _) fun _ => Spec.ite
          (fun _ => Spec.bind (spec_rejectDescription has) fun _ =>
            Spec.bind (s_parseTypeSystemExtension m doc) fun doc' => ih doc')
          (fun _ => Spec.of_dead_bind (R := fun _ _ _ => False) unexpectedError_dead))).mono ?_
      rintro dfin a a'' _ ⟨c, a1, ⟨rfl, rfl⟩, ⟨_, hf⟩ | ⟨_, d, a2, ⟨rfl, rfl⟩,
        ⟨_, df, a3, ⟨u, h, p⟩, hrest⟩ | ⟨_, ⟨_, sd, a3, ⟨u, h, p⟩, hrest⟩ | ⟨_, ⟨_, dd, a3, ⟨u, h, p⟩, hrest⟩ |
        ⟨_, ⟨_, _, a3, ⟨hhas, rfl⟩, doc', a4, ⟨u, h, it, pit, rfl⟩, hrest⟩ | ⟨_, hf⟩⟩⟩⟩⟩⟩ uD a0 hD pD
      · exact hf.elim
      · -- type definition
        have hu : Ate a0 a3 (uD ++ u) := hD.trans ((Ate.peeked a).trans ((Ate.peeked _).trans h))
        exact SRel.cons (it := .definition df) hu ((pD.and p).cast fun h => h.2 h.1) hrest
      · -- schema definition
        have hu : Ate a0 a3 (uD ++ u) := hD.trans ((Ate.peeked a).trans ((Ate.peeked _).trans h))
        exact SRel.cons (it := .schema sd) hu ((pD.and p).cast fun h => h.2 h.1) hrest
      · -- directive definition
        have hu : Ate a0 a3 (uD ++ u) := hD.trans ((Ate.peeked a).trans ((Ate.peeked _).trans h))
        exact SRel.cons (it := .directive dd) hu ((pD.and p).cast fun h => h.2 h.1) hrest
      · -- extension
        have hu : Ate a0 a4 (uD ++ u) := hD.trans ((Ate.peeked a).trans ((Ate.peeked _).trans h))
        exact SRel.cons hu (((OutS.triv uD).and pit).cast fun h => h.2) hrest
      · exact hf.elim
    · rintro d a a'' _ ⟨t, a1, ⟨rfl, rfl⟩, ⟨_, e, a2, ⟨rfl, rfl⟩, ⟨he, _⟩ | ⟨_, x, a3, ⟨uD, hD, pD⟩, h⟩⟩ |
        ⟨hk, rfl, rfl⟩⟩
      · cases he
      · exact h uD _ ((Ate.peeked a).trans hD) pD
      · simp only [ne_eq, Decidable.not_not] at hk
        exact ⟨[], [], Ate.peeked a, rfl, hk, rfl, .nil⟩

theorem s_parseSchemaDocument (n : Nat) : Spec (parseSchemaDocument n) (SRel SchemaDoc.empty) := by
  unfold parseSchemaDocument
  refine (Spec.bind spec_peekPos fun _ => s_schemaDocLoop n n SchemaDoc.empty).mono ?_
  rintro d a a'' _ ⟨_, a1, ⟨rfl, _⟩, items, used, g1, g⟩
  exact ⟨items, used, by simpa using (Ate.peeked a).trans g1, g⟩

/-! ### from the program logic to `parseSchemaSrc` -/

/-- every item of the five lists of a document the parser run returns from a well-formed UTF-8
    source is well-formed (no token limit, any source index) -/
theorem runSchema_itemOk (src : Nat) (inp : Bytes) (d0 : SchemaDoc) (hv : Utf8.valid inp)
    (h : Result.ofRun (runSchema 0 src inp) = .ok d0) : DocAll itemOkS d0 := by
  obtain ⟨hoof, herr, hdoc⟩ := ofRun_ok.1 h
  have hlive : dead (runSchema 0 src inp).2 = false := by simp [dead, hoof, herr]
  obtain ⟨raw, eof, hlex, heof, hraw, hsorted, hcount, r, huniq⟩ :=
    run_to_eof (s_parseSchemaDocument (fuelFor inp)) src inp hlive
      (fun _ _ _ ⟨_, used, h1, h2, h3, _⟩ => ⟨used, h1, h2, h3⟩)
  obtain ⟨items, used, hate, hpk, hk, hd, hm⟩ := r
  -- the consumed tokens are the significant tokens of the source
  have hne0 : (abs (PState.init src inp)).σ.NoEof := abs_noEof (WF.init src inp)
  obtain ⟨t, ht⟩ := (hate.noEof hne0).eof_of_head hk
  have hσ := hate.σ
  rw [abs_init, ht] at hσ
  simp only at hσ
  have hused : (rawS inp Cur.init).sig.toks = used := by
    rw [hσ, Stream.toks_app]; simp [Stream.toks]
  have hall : ∀ t ∈ used, TokLexU t := by rw [← hused]; exact sig_toks_tokLexU inp hv
  have hok := (many_outS hm).lex hall
  have hd0 : d0 = items.foldl SchemaDoc.add SchemaDoc.empty := by rw [← hdoc]; exact hd
  rw [hd0]
  exact (DocAll.foldl items SchemaDoc.empty).2 ⟨DocAll.empty _, hok⟩

theorem schemaDocOk_of_docAll {d : SchemaDoc} (h : DocAll itemOkS d) : schemaDocOk d = true := by
  obtain ⟨h1, h2, h3, h4, h5⟩ := h
  simp only [schemaDocOk, Bool.and_eq_true, List.all_eq_true]
  exact ⟨⟨⟨⟨h1, h2⟩, h3⟩, h4⟩, h5⟩

theorem docAll_setBuiltIn (b : Bool) {d : SchemaDoc} (h : DocAll itemOkS d) : DocAll itemOkS (setBuiltIn b d) := by
  obtain ⟨h1, h2, h3, h4, h5⟩ := h
  refine ⟨h1, h2, h3, ?_, ?_⟩
  · intro x hx
    simp only [setBuiltIn, List.mem_map] at hx
    obtain ⟨y, hy, rfl⟩ := hx
    exact h4 y hy
  · intro x hx
    simp only [setBuiltIn, List.mem_map] at hx
    obtain ⟨y, hy, rfl⟩ := hx
    exact h5 y hy

/-- **`FormattableSchema` is an invariant of parser output**: every document the schema parser model
    returns (with or without token limit, any source index, any `BuiltIn` flag) from a well-formed
    UTF-8 source is `FormattableSchema`. -/
theorem parsedSchema_formattable (L src : Nat) (b : Bool) (inp : Bytes) (d : SchemaDoc) (hv : Utf8.valid inp)
    (hp : parseSchemaSrc L src b inp = .ok d) : FormattableSchema d := by
  obtain ⟨d0, h1, rfl⟩ := parseSchemaSrc_ok.1 (parseSchemaSrc_mono (stricter_zero L) src b inp d hp)
  exact schemaDocOk_of_docAll (docAll_setBuiltIn b (runSchema_itemOk src inp d0 hv h1))

#print axioms sig_toks_tokLexU
#print axioms parsedSchema_formattable

end Gql.EndToEnd
