import GqlProofs.EndToEnd.TokLexDef
import GqlProofs.Lexer.SpecNumber
import GqlProofs.Format.NumExt
import GqlProofs.Parser.Stream
/-
  END TO END: every token the lexer model hands out satisfies `TokLex` — the text of a Name token
  is a lexer Name, the text of an Int / Float token is ON ITS OWN exactly one number lexeme of that
  kind.  No hypothesis on the input bytes (no UTF-8, no ASCII).

  The new ingredient is `numberToken_standalone`: the lexeme `Spec.numberToken` cuts out of a longer
  text re-lexes on its own to the same token (companion of `numberToken_inert`, which is the opposite
  direction).  Each part of the number grammar is shown to be insensitive to what follows it as long
  as that does not start with a digit (`NoDig`).
-/
namespace Gql.EndToEnd
open Gql Gql.Lexer Gql.Lexer.Spec Gql.Format

/-! ### a number lexeme re-lexes on its own -/

/-- empty, or does not start with a digit -/
def NoDig (X : List Nat) : Prop := ∀ c t, X = c :: t → isDigitC c = false

theorem NoDig_nil : NoDig [] := fun _ _ h => by simp at h

theorem NoDig_cons {c : Nat} (t : List Nat) (h : isDigitC c = false) : NoDig (c :: t) := by
  intro c' t' e
  simp at e
  rw [← e.1]; exact h

theorem spanP_nohead (p : Cp → Bool) (X : List Cp) (hX : ∀ c t, X = c :: t → p c = false) :
    spanP p X = ([], X) := by
  cases X with
  | nil => rfl
  | cons c t => simp [spanP, hX c t rfl]

/-- the span found in a longer text is found again in front of anything that does not continue it -/
theorem spanP_cut (p : Cp → Bool) (cs X : List Cp) (hX : ∀ c t, X = c :: t → p c = false) :
    spanP p ((spanP p cs).1 ++ X) = ((spanP p cs).1, X) := by
  induction cs with
  | nil => simpa [spanP] using spanP_nohead p X hX
  | cons a cs ih =>
    cases h : p a
    · simpa [spanP, h] using spanP_nohead p X hX
    · simp [spanP, h, ih]

theorem digitSpan_cut (l X : Bytes) (hX : NoDig X) :
    digitSpan ((digitSpan l).1 ++ X) = ((digitSpan l).1, X) := by
  rw [digitSpan_eq_spanP, digitSpan_eq_spanP]
  exact spanP_cut isDigitC l X hX

/-- a non-empty digit span starts with a digit of the text -/
theorem digitSpan_head {l : Bytes} (h : (digitSpan l).1.isEmpty = false) :
    ∃ d t, l = d :: t ∧ isDigit d = true ∧ (digitSpan l).1 = d :: (digitSpan t).1 := by
  cases l with
  | nil => simp [digitSpan] at h
  | cons d t =>
    by_cases hd : isDigit d = true
    · exact ⟨d, t, rfl, hd, by simp [digitSpan, hd]⟩
    · simp [digitSpan, hd] at h

theorem fractionalPart_cut {r fp r1 : List Cp} (h : fractionalPart r = some (fp, r1)) :
    (∃ ds, fp = 46 :: ds) ∧ ∀ X, NoDig X → fractionalPart (fp ++ X) = some (fp, X) := by
  cases r with
  | nil => cases h
  | cons d t =>
    by_cases hd : d = 46
    · subst hd
      rw [fractionalPart_dot] at h
      split at h
      · cases h
      · rename_i he
        simp only [Option.some.injEq, Prod.mk.injEq] at h
        obtain ⟨rfl, rfl⟩ := h
        refine ⟨⟨_, rfl⟩, fun X hX => ?_⟩
        rw [List.cons_append, fractionalPart_dot, digitSpan_cut t X hX]
        simp only [he]
        simp
    · rw [fractionalPart_nodot (d :: t) (by intro t' ht; simp at ht; exact hd ht.1)] at h
      cases h

theorem exponentPart_cut {r ep r2 : List Cp} (h : exponentPart r = some (ep, r2)) :
    (∃ e t, ep = e :: t ∧ (e = 101 ∨ e = 69)) ∧ ∀ X, NoDig X → exponentPart (ep ++ X) = some (ep, X) := by
  cases r with
  | nil => cases h
  | cons e r =>
    by_cases he : e = 101 ∨ e = 69
    · cases r with
      | nil =>
        rw [exponentPart_nosign e [] he (by simp)] at h
        simp [digitSpan] at h
      | cons s r' =>
        by_cases hs : s = 45 ∨ s = 43
        · rw [exponentPart_sign e s r' he hs] at h
          split at h
          · cases h
          · rename_i hne
            simp only [Option.some.injEq, Prod.mk.injEq] at h
            obtain ⟨rfl, rfl⟩ := h
            refine ⟨⟨e, _, rfl, he⟩, fun X hX => ?_⟩
            rw [List.cons_append, List.cons_append, exponentPart_sign e s _ he hs, digitSpan_cut r' X hX]
            simp only [hne]
            simp
        · rw [exponentPart_nosign e (s :: r') he (by intro s' t' h'; simp at h'; rw [← h'.1]; exact hs)] at h
          split at h
          · cases h
          · rename_i hne
            simp only [Option.some.injEq, Prod.mk.injEq] at h
            obtain ⟨rfl, rfl⟩ := h
            refine ⟨⟨e, _, rfl, he⟩, fun X hX => ?_⟩
            have hne' : (digitSpan (s :: r')).1.isEmpty = false := by simpa using hne
            obtain ⟨d, t, hdt, hd, hds⟩ := digitSpan_head hne'
            simp only [List.cons.injEq] at hdt
            obtain ⟨rfl, rfl⟩ := hdt
            rw [List.cons_append, exponentPart_nosign e _ he
              (by intro s' t' h'; rw [hds] at h'; simp at h'; rw [← h'.1]; exact hs),
              digitSpan_cut _ X hX]
            simp only [hne']
            simp
    · rw [exponentPart_not_e e r he] at h
      cases h

theorem intPart_cut {sg r1 ip r : List Cp} (h : intPart sg r1 = some (ip, r)) :
    ∃ body, ip = sg ++ body ∧ (∃ d tl, body = d :: tl ∧ isDigitC d = true) ∧
      ∀ sg' X, NoDig X → intPart sg' (body ++ X) = some (sg' ++ body, X) := by
  cases r1 with
  | nil => cases h
  | cons d t =>
    by_cases h48 : d = 48
    · subst h48
      have e : intPart sg (48 :: t) = some (sg ++ [48], t) := rfl
      rw [e] at h
      simp only [Option.some.injEq, Prod.mk.injEq] at h
      obtain ⟨rfl, rfl⟩ := h
      exact ⟨[48], rfl, ⟨48, [], rfl, by decide⟩, fun sg' X _ => rfl⟩
    · rw [intPart_cons sg d t h48] at h
      split at h
      · rename_i hd
        simp only [Option.some.injEq, Prod.mk.injEq] at h
        obtain ⟨rfl, rfl⟩ := h
        refine ⟨d :: (spanP isDigitC t).1, rfl, ⟨d, _, rfl, hd⟩, fun sg' X hX => ?_⟩
        rw [List.cons_append, intPart_cons sg' d _ h48, spanP_cut isDigitC t X hX]
        simp [hd]
      · cases h

theorem stripSign_minus (t : Bytes) : stripSign (45 :: t) = (1, t) := rfl

theorem stripSign_other (d : Nat) (t : Bytes) (h : d ≠ 45) : stripSign (d :: t) = (0, d :: t) := by
  rw [stripSign.eq_def]; split
  · rename_i h'; simp at h'; exact absurd h'.1 h
  · rfl

theorem isDigitC_ne45 {d : Nat} (h : isDigitC d = true) : d ≠ 45 := by
  intro e; subst e; revert h; decide

theorem integerPart_cut {cs ip r : List Cp} (h : integerPart cs = some (ip, r)) :
    ∀ X, NoDig X → integerPart (ip ++ X) = some (ip, X) := by
  intro X hX
  rw [integerPart_eq] at h
  cases cs with
  | nil => cases h
  | cons c t =>
    by_cases hc : c = 45
    · subst hc
      rw [stripSign_minus] at h
      obtain ⟨body, rfl, _, hb⟩ := intPart_cut h
      rw [integerPart_eq]
      have e : List.replicate (1, t).1 45 = [45] := rfl
      rw [e, List.append_assoc, List.singleton_append, stripSign_minus]
      exact hb _ X hX
    · rw [stripSign_other c t hc] at h
      obtain ⟨body, rfl, ⟨d, tl, rfl, hd⟩, hb⟩ := intPart_cut h
      rw [integerPart_eq, List.cons_append, stripSign_other d _ (isDigitC_ne45 hd)]
      exact hb [] X hX

theorem finS_some {k k' : Kind} {lex lex' r r' : List Cp} (h : finS k lex r = some (k', lex', r')) :
    k' = k ∧ lex' = lex := by
  unfold finS at h
  split at h
  · simp only [Option.some.injEq, Prod.mk.injEq] at h
    exact ⟨h.1.symm, h.2.1.symm⟩
  · cases h

theorem finS_nil (k : Kind) (lex : List Cp) : finS k lex [] = some (k, lex, []) := rfl

theorem fractionalPart_nil : fractionalPart [] = none := rfl

theorem fractionalPart_e {e : Nat} (t : List Cp) (he : e = 101 ∨ e = 69) : fractionalPart (e :: t) = none :=
  fractionalPart_nodot (e :: t) (by intro t' h; simp at h; omega)

theorem NoDig_e {e : Nat} (t : List Cp) (he : e = 101 ∨ e = 69) : NoDig (e :: t) :=
  NoDig_cons t (by rcases he with rfl | rfl <;> decide)

/-- The lexeme `numberToken` cuts out of a text is, on its own, exactly that number token; and
    number tokens have kind Int or Float. -/
theorem numberToken_standalone (cs : List Nat) (k : Kind) (lex r : List Nat)
    (h : numberToken cs = some (k, lex, r)) :
    numberToken lex = some (k, lex, []) ∧ (k = .int ∨ k = .float) := by
  rw [numberToken_eq] at h
  cases hi : integerPart cs with
  | none => rw [hi] at h; cases h
  | some p =>
    obtain ⟨ip, r0⟩ := p
    rw [hi] at h
    simp only [] at h
    have hI := integerPart_cut hi
    unfold numTail at h
    cases hf : fractionalPart r0 with
    | none =>
      rw [hf] at h
      simp only [] at h
      cases he : exponentPart r0 with
      | none =>
        rw [he] at h
        simp only [] at h
        obtain ⟨rfl, rfl⟩ := finS_some h
        refine ⟨?_, .inl rfl⟩
        have h1 := hI [] NoDig_nil
        rw [List.append_nil] at h1
        rw [numberToken_eq, h1]
        simp only [numTail, fractionalPart_nil, exponentPart_nil, finS_nil]
      | some q =>
        obtain ⟨ep, r2⟩ := q
        rw [he] at h
        simp only [] at h
        obtain ⟨rfl, rfl⟩ := finS_some h
        refine ⟨?_, .inr rfl⟩
        obtain ⟨⟨e, t, rfl, hee⟩, hE⟩ := exponentPart_cut he
        have h1 := hI (e :: t) (NoDig_e t hee)
        have h2 := hE [] NoDig_nil
        rw [List.append_nil] at h2
        rw [numberToken_eq, h1]
        simp only [numTail, fractionalPart_e t hee, h2, finS_nil]
    | some q =>
      obtain ⟨fp, r1⟩ := q
      rw [hf] at h
      simp only [] at h
      obtain ⟨⟨ds, rfl⟩, hF⟩ := fractionalPart_cut hf
      have hfpD : ∀ Y, NoDig (46 :: ds ++ Y) := fun Y => NoDig_cons _ (by decide)
      cases he : exponentPart r1 with
      | none =>
        rw [he] at h
        simp only [] at h
        obtain ⟨rfl, rfl⟩ := finS_some h
        refine ⟨?_, .inr rfl⟩
        have h1 := hI (46 :: ds) (by simpa using hfpD [])
        have h2 := hF [] NoDig_nil
        rw [List.append_nil] at h2
        rw [numberToken_eq, h1]
        simp only [numTail, h2, exponentPart_nil, finS_nil]
      | some q =>
        obtain ⟨ep, r2⟩ := q
        rw [he] at h
        simp only [] at h
        obtain ⟨rfl, rfl⟩ := finS_some h
        refine ⟨?_, .inr rfl⟩
        obtain ⟨⟨e, t, rfl, hee⟩, hE⟩ := exponentPart_cut he
        have h1 := hI (46 :: ds ++ e :: t) (hfpD _)
        have h2 := hF (e :: t) (NoDig_e t hee)
        have h3 := hE [] NoDig_nil
        rw [List.append_nil] at h3
        rw [List.append_assoc, numberToken_eq, h1]
        simp only [numTail, h2, h3, finS_nil, List.append_assoc]

/-! ### the tokens of `readToken` -/

theorem tokLex_of_kind {t : Token} (h1 : t.kind ≠ .name) (h2 : t.kind ≠ .int) (h3 : t.kind ≠ .float) :
    TokLex t :=
  ⟨fun h => absurd h h1, fun h => absurd h h2, fun h => absurd h h3⟩

/-- the token of a step, if any, satisfies `TokLex` -/
def StepLex (st : Step) : Prop :=
  match st with
  | .tok t _ _ => TokLex t
  | .err _ => True

/-- the token of a step, if any, is a String / BlockString token -/
def StepStr (st : Step) : Prop :=
  match st with
  | .tok t _ _ => t.kind = .string ∨ t.kind = .blockString
  | .err _ => True

theorem mkErr_stepStr (c : Cur) (msg : Bytes) : StepStr (mkErr c msg) := trivial
theorem mkErr_stepLex (c : Cur) (msg : Bytes) : StepLex (mkErr c msg) := trivial

theorem unexpectedChar_stepLex (c : Cur) (b : Nat) : StepLex (unexpectedChar c b) := by
  unfold unexpectedChar; split <;> (try split) <;> exact mkErr_stepLex _ _

theorem readStringLoop_stepStr (q : Cur) (l : Bytes) (c : Cur) (acc : Bytes) (buf : Bool) :
    StepStr (readStringLoop q l c acc buf) := by
  fun_induction readStringLoop q l c acc buf
  all_goals first
    | exact mkErr_stepStr _ _
    | (simp [StepStr]; done)
    | assumption

theorem readBlockLoop_stepStr (q : Cur) (l : Bytes) (c : Cur) (acc : Bytes) :
    StepStr (readBlockLoop q l c acc) := by
  fun_induction readBlockLoop q l c acc
  all_goals first
    | exact mkErr_stepStr _ _
    | (simp [StepStr]; done)
    | assumption

theorem StepLex_of_stepStr {st : Step} (h : StepStr st) : StepLex st := by
  cases st with
  | err e => trivial
  | tok t r c =>
    rcases h with h | h <;> exact tokLex_of_kind (by rw [h]; decide) (by rw [h]; decide) (by rw [h]; decide)

theorem simpleTok_stepLex (k : Kind) (v : Bytes) (c : Cur) (nb nr : Nat) (rest : Bytes)
    (h1 : k ≠ .name) (h2 : k ≠ .int) (h3 : k ≠ .float) : StepLex (simpleTok k v c nb nr rest) := by
  unfold simpleTok
  exact tokLex_of_kind h1 h2 h3

/-- the bytes of a name span are name characters -/
theorem nameSpan_all_cont (l : Bytes) : (nameSpan l).1.all isNameCont = true := by
  induction l with
  | nil => rfl
  | cons b tl ih =>
    cases hb : isNameCont b
    · simp [nameSpan, hb]
    · simp only [nameSpan, hb, if_true, List.all_cons, Bool.true_and]
      exact ih

theorem readNumber_stepLex (start : Cur) (rest0 : Bytes) : StepLex (readNumber start rest0) := by
  have h := readNumber_spec start rest0
  cases hn : numberToken rest0 with
  | none =>
    rw [hn] at h
    obtain ⟨e, he⟩ := h
    rw [he]; trivial
  | some p =>
    obtain ⟨k, lex, r⟩ := p
    rw [hn] at h
    obtain ⟨h1, _⟩ := h
    obtain ⟨hs, hk⟩ := numberToken_standalone rest0 k lex r hn
    rw [h1]
    show TokLex _
    unfold TokLex
    refine And.intro (fun hkn => ?_) (And.intro (fun hki => ?_) (fun hkf => ?_))
    · simp only at hkn
      rcases hk with rfl | rfl <;> cases hkn
    · simp only at hki
      subst hki
      simp only [numRaw, hs, decide_true]
    · simp only at hkf
      subst hkf
      simp only [numRaw, hs, decide_true]

theorem readTokenBody_stepLex (rest1 : Bytes) (c1 : Cur) : StepLex (readTokenBody rest1 c1) := by
  unfold readTokenBody
  cases rest1 with
  | nil => exact simpleTok_stepLex _ _ _ _ _ _ (by decide) (by decide) (by decide)
  | cons b tl =>
    simp only []
    split
    · rename_i k hk
      obtain ⟨h1, _, _⟩ := punct_valued hk
      exact simpleTok_stepLex _ _ _ _ _ _ (by intro e; rw [e] at h1; cases h1)
        (by intro e; rw [e] at h1; cases h1) (by intro e; rw [e] at h1; cases h1)
    · split
      · split
        · exact simpleTok_stepLex _ _ _ _ _ _ (by decide) (by decide) (by decide)
        · exact unexpectedChar_stepLex _ _
      · split
        · exact simpleTok_stepLex _ _ _ _ _ _ (by decide) (by decide) (by decide)
        · split
          · rename_i hb
            unfold simpleTok
            show TokLex _
            unfold TokLex
            refine And.intro (fun _ => ?_) (And.intro (fun h => by cases h) (fun h => by cases h))
            show isNameB (b :: (nameSpan tl).1) = true
            simp only [isNameB, hb, Bool.true_and]
            exact nameSpan_all_cont tl
          · split
            · exact readNumber_stepLex c1 (b :: tl)
            · split
              · split
                · exact StepLex_of_stepStr (readBlockLoop_stepStr c1 _ _ _)
                · exact StepLex_of_stepStr (readStringLoop_stepStr c1 _ _ _ _)
              · exact unexpectedChar_stepLex _ _

/-- EVERY token `readToken` returns, on arbitrary input bytes: the text of a Name token is a lexer
    Name, the text of an Int / Float token is on its own exactly one number lexeme of that kind. -/
theorem readToken_tokLex (rest : Bytes) (c : Cur) {t : Token} {r : Bytes} {c' : Cur}
    (h : readToken rest c = .tok t r c') : TokLex t := by
  have := readTokenBody_stepLex (ws rest c).1 (ws rest c).2
  unfold readToken at h
  rw [h] at this
  exact this

/-! ### the token streams -/

open Gql.Parser in
/-- every token of the raw stream (comments included), its terminator and its head -/
theorem rawS_tokLex_all (rest : Bytes) (c : Cur) :
    (∀ t ∈ (rawS rest c).toks, TokLex t) ∧ (∀ t, (rawS rest c).term = .eof t → TokLex t) := by
  induction hn : rest.length using Nat.strongRecOn generalizing rest c with
  | _ n ih =>
    cases h : readToken rest c with
    | err e =>
      rw [rawS_err h]
      refine ⟨by simp [Stream.toks], fun t ht => ?_⟩
      simp [Stream.term] at ht
    | tok t rest' c' =>
      rw [rawS_tok h]
      have hl := readToken_tokLex rest c h
      by_cases hk : t.kind = .eof
      · rw [if_pos hk]
        refine ⟨by simp [Stream.toks], fun u hu => ?_⟩
        simp only [Stream.term, Stream.eof.injEq] at hu
        rw [← hu]; exact hl
      · rw [if_neg hk]
        have hp := readToken_progress rest c
        rw [h] at hp
        obtain ⟨i1, i2⟩ := ih _ (by have := hp.2 hk; omega) rest' c' rfl
        refine ⟨fun u hu => ?_, fun u hu => i2 u hu⟩
        simp only [Stream.toks, List.mem_cons] at hu
        rcases hu with rfl | hu
        · exact hl
        · exact i1 u hu

theorem rawS_tokLex (rest : Bytes) (c : Cur) : ∀ t ∈ (Gql.Parser.rawS rest c).toks, TokLex t :=
  (rawS_tokLex_all rest c).1

/-- the EOF token that ends a stream -/
theorem rawS_term_tokLex (rest : Bytes) (c : Cur) (t : Token)
    (h : (Gql.Parser.rawS rest c).term = .eof t) : TokLex t :=
  (rawS_tokLex_all rest c).2 t h

theorem sig_toks_tokLex (rest : Bytes) (c : Cur) : ∀ t ∈ (Gql.Parser.rawS rest c).sig.toks, TokLex t := by
  intro t ht
  rw [Gql.Parser.Stream.sig_toks] at ht
  exact rawS_tokLex rest c t (List.mem_filter.mp ht).1

theorem sig_term_tokLex (rest : Bytes) (c : Cur) (t : Token)
    (h : (Gql.Parser.rawS rest c).sig.term = .eof t) : TokLex t := by
  rw [Gql.Parser.Stream.sig_term] at h
  exact rawS_term_tokLex rest c t h

/-- the head of the significant stream (the token `peek` shows) -/
theorem sig_head_tokLex (rest : Bytes) (c : Cur) : TokLex (Gql.Parser.rawS rest c).sig.head := by
  have e := Gql.Parser.Stream.eq_app_toks (Gql.Parser.rawS rest c).sig
  have h1 := sig_toks_tokLex rest c
  have h2 := sig_term_tokLex rest c
  generalize (Gql.Parser.rawS rest c).sig = σ at e h1 h2
  cases σ with
  | eof t => exact h2 t rfl
  | err e' =>
    exact tokLex_of_kind (t := Gql.Parser.invalidTok e') (by simp [Gql.Parser.invalidTok])
      (by simp [Gql.Parser.invalidTok]) (by simp [Gql.Parser.invalidTok])
  | cons t σ => exact h1 t (by simp [Gql.Parser.Stream.toks])

/-- the significant tokens start at strictly increasing rune offsets -/
theorem sig_toks_sorted (rest : Bytes) (c : Cur) :
    ((Gql.Parser.rawS rest c).sig.toks.map (·.start)).Pairwise (· < ·) := by
  rw [Gql.Parser.Stream.sig_toks, List.pairwise_map]
  exact (Gql.Parser.rawS_sorted rest c).2.filter _

theorem sig_toks_start_nodup (rest : Bytes) (c : Cur) :
    ((Gql.Parser.rawS rest c).sig.toks.map (·.start)).Nodup :=
  (sig_toks_sorted rest c).imp (fun h => Nat.ne_of_lt h)

theorem sig_toks_nodup (rest : Bytes) (c : Cur) : (Gql.Parser.rawS rest c).sig.toks.Nodup :=
  List.Pairwise.of_map (·.start) (fun a b h e => h (by rw [e])) (sig_toks_start_nodup rest c)

end Gql.EndToEnd

#print axioms Gql.EndToEnd.numberToken_standalone
#print axioms Gql.EndToEnd.readToken_tokLex
#print axioms Gql.EndToEnd.rawS_tokLex
#print axioms Gql.EndToEnd.sig_toks_tokLex
#print axioms Gql.EndToEnd.sig_toks_sorted
#print axioms Gql.EndToEnd.sig_toks_nodup
