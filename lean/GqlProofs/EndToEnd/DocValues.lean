import GqlProofs.EndToEnd.ParsedTop
import GqlProofs.EndToEnd.FloatLexeme
import GqlProofs.Props.C05
import GqlProofs.ValSpec.InputFields
import GqlProofs.ValSpec.VarRules
import GqlProofs.ValSpec.VarPosition
import GqlProofs.ValSpec.ValuesCorrectFinal
set_option linter.unusedSimpArgs false
set_option linter.unusedVariables false
/-
  END TO END, part 4: from the two structural invariants of parser output — `Formattable d`
  (`parsed_formattable`: lexical well-formedness) and `PrintableQuery d` (`C05_parse_printable`: the
  shape of the tree) — to the conditions on VALUES that the C08 theorems carry as hypotheses:
  `valuesShaped`, `leavesWellFormed`, `numLiteralsOK`.

  The specification enumerates the values of a document through its typing (`Spec.allValues`,
  `Spec.typedValueSites`: argument sites of `Spec.docSels` …); `docValues` enumerates them
  structurally, and `mem_docValues_of_allValues` connects the two.
-/
namespace Gql.EndToEnd
open Gql Gql.Parser Gql.Format Gql.Validate

/-! ### one value -/

/-- what the parser guarantees of one value -/
def GoodV (v : Value) : Prop := Format.valueOk v = true ∧ ValueOK v

mutual
  theorem shaped_of_ValueOK : ∀ v : Value, ValueOK v → shapedValue v = true
    | .mk k raw ch p, h => by
      cases k <;> simp only [ValueOK] at h <;> simp only [shapedValue]
      case list => exact shaped_of_ItemsOK ch h.2
      case object => exact shaped_of_FieldsOK ch h.2
      all_goals (first | (rw [h]) | (rw [h.1]))
  theorem shaped_of_ItemsOK : ∀ ch : Children, ItemsOK ch → shapedChildren ch = true
    | .nil, _ => by simp [shapedChildren]
    | .cons n v p rest, h => by
      simp only [ItemsOK] at h
      simp only [shapedChildren, Bool.and_eq_true]
      exact ⟨shaped_of_ValueOK v h.2.1, shaped_of_ItemsOK rest h.2.2⟩
  theorem shaped_of_FieldsOK : ∀ ch : Children, FieldsOK ch → shapedChildren ch = true
    | .nil, _ => by simp [shapedChildren]
    | .cons n v p rest, h => by
      simp only [FieldsOK] at h
      simp only [shapedChildren, Bool.and_eq_true]
      exact ⟨shaped_of_ValueOK v h.1, shaped_of_FieldsOK rest h.2⟩
end

theorem boolean_text {raw : Bytes} (h : ValueKind.boolean = nameValueKind raw) : raw = kwTrue ∨ raw = kwFalse := by
  unfold nameValueKind at h
  split at h
  · assumption
  · split at h <;> cases h

mutual
  theorem constErr_of_good : ∀ v : Value, Format.valueOk v = true → ValueOK v → constErr v = false
    | .mk k raw ch p, h1, h2 => by
      cases k <;> simp only [Format.valueOk] at h1 <;> simp only [ValueOK] at h2
      case int => exact constErr_of_numRaw_int raw h1 ch p
      case float => exact constErr_of_numRaw_float raw h1 ch p
      case boolean =>
        simp only [constErr]
        rcases boolean_text h2.2 with rfl | rfl <;> decide
      case list => simp only [constErr]; exact constErrs_of_items ch h1 h2.2
      case object => simp only [constErr]; exact constErrs_of_fields ch h1 h2.2
      all_goals simp only [constErr]
  theorem constErrs_of_items : ∀ ch : Children, itemsOk ch = true → ItemsOK ch → constErrs ch = false
    | .nil, _, _ => by simp [constErrs]
    | .cons n v p rest, h1, h2 => by
      simp only [itemsOk, Bool.and_eq_true] at h1
      simp only [ItemsOK] at h2
      simp only [constErrs, Bool.or_eq_false_iff]
      exact ⟨constErr_of_good v h1.1 h2.2.1, constErrs_of_items rest h1.2 h2.2.2⟩
  theorem constErrs_of_fields : ∀ ch : Children, fieldsOk ch = true → FieldsOK ch → constErrs ch = false
    | .nil, _, _ => by simp [constErrs]
    | .cons n v p rest, h1, h2 => by
      simp only [fieldsOk, Bool.and_eq_true] at h1
      simp only [FieldsOK] at h2
      simp only [constErrs, Bool.or_eq_false_iff]
      exact ⟨constErr_of_good v h1.1.2 h2.1, constErrs_of_fields rest h1.2 h2.2⟩
end

/-- the test `numLiteralsLexemes` makes on every sub-value -/
def numLexB (w : Value) : Bool :=
  match w.kind with
  | .int => intText w.raw
  | .float => floatErr w.raw == !Spec.floatLitFinite w.raw
  | _ => true

mutual
  theorem numLex_sub : ∀ v : Value, Format.valueOk v = true → ValueOK v → ∀ w ∈ subValues v, numLexB w = true
    | .mk k raw ch p, h1, h2, w, hw => by
      cases k <;> simp only [Format.valueOk] at h1 <;> simp only [ValueOK] at h2 <;>
        simp only [subValues, List.nil_append, List.mem_singleton, List.mem_append] at hw
      case int => subst hw; simp only [numLexB, Value.kind, Value.raw]; exact intText_of_numRaw raw h1
      case float =>
        subst hw; simp only [numLexB, Value.kind, Value.raw]
        rw [float_lexeme_agree raw (floatText_of_numRaw raw h1)]; simp
      case list =>
        rcases hw with hw | hw
        · exact numLex_items ch h1 h2.2 w hw
        · subst hw; simp [numLexB, Value.kind]
      case object =>
        rcases hw with hw | hw
        · exact numLex_fields ch h1 h2.2 w hw
        · subst hw; simp [numLexB, Value.kind]
      all_goals (subst hw; simp [numLexB, Value.kind])
  theorem numLex_items : ∀ ch : Children, itemsOk ch = true → ItemsOK ch → ∀ w ∈ childValues ch, numLexB w = true
    | .nil, _, _, w, hw => by simp [childValues] at hw
    | .cons n v p rest, h1, h2, w, hw => by
      simp only [itemsOk, Bool.and_eq_true] at h1
      simp only [ItemsOK] at h2
      simp only [childValues, List.mem_append] at hw
      rcases hw with hw | hw
      · exact numLex_sub v h1.1 h2.2.1 w hw
      · exact numLex_items rest h1.2 h2.2.2 w hw
  theorem numLex_fields : ∀ ch : Children, fieldsOk ch = true → FieldsOK ch → ∀ w ∈ childValues ch, numLexB w = true
    | .nil, _, _, w, hw => by simp [childValues] at hw
    | .cons n v p rest, h1, h2, w, hw => by
      simp only [fieldsOk, Bool.and_eq_true] at h1
      simp only [FieldsOK] at h2
      simp only [childValues, List.mem_append] at hw
      rcases hw with hw | hw
      · exact numLex_sub v h1.1.2 h2.1 w hw
      · exact numLex_fields rest h1.2 h2.2 w hw
end

/-! ### the values of a document, structurally -/

def argsValues (as : List Argument) : List Value := as.map (·.value)
def dirsValues (ds : List Directive) : List Value := ds.flatMap fun d => argsValues d.args

mutual
  def selValues : Selection → List Value
    | .field _ _ args ds sub _ => argsValues args ++ dirsValues ds ++ selsValues sub
    | .spread _ ds _ => dirsValues ds
    | .inline _ ds sub _ => dirsValues ds ++ selsValues sub
  def selsValues : Selections → List Value
    | .nil => []
    | .cons s rest => selValues s ++ selsValues rest
end

def varDefValues (v : VarDef) : List Value := v.default.toList ++ dirsValues v.dirs
def opValues (o : OperationDef) : List Value := o.vars.flatMap varDefValues ++ dirsValues o.dirs ++ selsValues o.sel
def fragValues (f : FragmentDef) : List Value := f.vars.flatMap varDefValues ++ dirsValues f.dirs ++ selsValues f.sel
def docValues (d : QueryDoc) : List Value := d.ops.flatMap opValues ++ d.frags.flatMap fragValues

/-- the values written at one selection node (not below it) -/
def nodeValues : Selection → List Value
  | .field _ _ args ds _ _ => argsValues args ++ dirsValues ds
  | .spread _ ds _ => dirsValues ds
  | .inline _ ds _ _ => dirsValues ds

mutual
  theorem nodeValues_sub_sel (s : Schema) : ∀ (x : Selection) (p : Option Definition), ∀ t ∈ Spec.typedSel s p x,
      ∀ v ∈ nodeValues t.sel, v ∈ selValues x
    | .field al nm args dirs sub pos, p, t, ht, v, hv => by
      rw [Spec.typedSel] at ht
      rw [selValues]
      rcases List.mem_cons.1 ht with rfl | ht
      · exact List.mem_append_left _ hv
      · exact List.mem_append_right _ (nodeValues_sub_sels s sub _ t ht v hv)
    | .spread nm dirs pos, p, t, ht, v, hv => by
      rw [Spec.typedSel] at ht
      rw [List.mem_singleton.1 ht] at hv
      exact hv
    | .inline tc dirs sub pos, p, t, ht, v, hv => by
      rw [Spec.typedSel] at ht
      rw [selValues]
      rcases List.mem_cons.1 ht with rfl | ht
      · exact List.mem_append_left _ hv
      · exact List.mem_append_right _ (nodeValues_sub_sels s sub _ t ht v hv)
  theorem nodeValues_sub_sels (s : Schema) : ∀ (xs : Selections) (p : Option Definition), ∀ t ∈ Spec.typedSels s p xs,
      ∀ v ∈ nodeValues t.sel, v ∈ selsValues xs
    | .nil, p, t, ht, _, _ => by simp [Spec.typedSels] at ht
    | .cons x rest, p, t, ht, v, hv => by
      rw [Spec.typedSels] at ht
      rw [selsValues]
      rcases List.mem_append.1 ht with ht | ht
      · exact List.mem_append_left _ (nodeValues_sub_sel s x p t ht v hv)
      · exact List.mem_append_right _ (nodeValues_sub_sels s rest p t ht v hv)
end

/-- the values written at a typed node of the document are values of the document -/
theorem nodeValues_sub_doc (s : Schema) (d : QueryDoc) (t : Spec.TSel) (ht : t ∈ Spec.docSels s d)
    (v : Value) (hv : v ∈ nodeValues t.sel) : v ∈ docValues d := by
  unfold Spec.docSels at ht
  unfold docValues
  rcases List.mem_append.1 ht with ht | ht
  · obtain ⟨op, hop, ht⟩ := List.mem_flatMap.1 ht
    exact List.mem_append_left _ (List.mem_flatMap.2 ⟨op, hop,
      List.mem_append_right _ (nodeValues_sub_sels s op.sel _ t ht v hv)⟩)
  · obtain ⟨f, hf, ht⟩ := List.mem_flatMap.1 ht
    exact List.mem_append_right _ (List.mem_flatMap.2 ⟨f, hf,
      List.mem_append_right _ (nodeValues_sub_sels s f.sel _ t ht v hv)⟩)

theorem mem_dirsValues {ds : List Directive} {dir : Directive} (hd : dir ∈ ds) {a : Argument} (ha : a ∈ dir.args) :
    a.value ∈ dirsValues ds :=
  List.mem_flatMap.2 ⟨dir, hd, List.mem_map_of_mem ha⟩

theorem selDirs_sub_nodeValues (y : Selection) {dir : Directive} (hd : dir ∈ Spec.selDirs y) {a : Argument}
    (ha : a ∈ dir.args) : a.value ∈ nodeValues y := by
  cases y with
  | field al nm args ds sub p => exact List.mem_append_right _ (mem_dirsValues hd ha)
  | spread nm ds p => exact mem_dirsValues hd ha
  | inline tc ds sub p => exact mem_dirsValues hd ha

/-- every argument value of a directive written anywhere in the document is a value of the document -/
theorem directive_values_sub_doc (s : Schema) (d : QueryDoc) (dir : Directive) (hdir : dir ∈ Spec.allDirectives s d)
    (a : Argument) (ha : a ∈ dir.args) : a.value ∈ docValues d := by
  unfold Spec.allDirectives at hdir
  obtain ⟨site, hsite, hd⟩ := List.mem_flatMap.1 hdir
  unfold Spec.directiveSites at hsite
  rcases List.mem_append.1 hsite with hsite | hsite
  · rcases List.mem_append.1 hsite with hsite | hsite
    · obtain ⟨op, hop, hs⟩ := List.mem_flatMap.1 hsite
      refine List.mem_append_left _ (List.mem_flatMap.2 ⟨op, hop, ?_⟩)
      rcases List.mem_cons.1 hs with rfl | hs
      · exact List.mem_append_left _ (List.mem_append_right _ (mem_dirsValues hd ha))
      · obtain ⟨vd, hvd, rfl⟩ := List.mem_map.1 hs
        exact List.mem_append_left _ (List.mem_append_left _ (List.mem_flatMap.2 ⟨vd, hvd,
          List.mem_append_right _ (mem_dirsValues hd ha)⟩))
    · obtain ⟨f, hf, rfl⟩ := List.mem_map.1 hsite
      exact List.mem_append_right _ (List.mem_flatMap.2 ⟨f, hf,
        List.mem_append_left _ (List.mem_append_right _ (mem_dirsValues hd ha))⟩)
  · obtain ⟨t, ht, rfl⟩ := List.mem_map.1 hsite
    exact nodeValues_sub_doc s d t ht _ (selDirs_sub_nodeValues t.sel hd ha)

/-- **typed enumeration ⊆ structural enumeration** -/
theorem mem_docValues_of_allValues (s : Schema) (d : QueryDoc) (v : Value) (hv : v ∈ Spec.allValues s d) :
    v ∈ docValues d := by
  rcases (mem_allValues_iff s d v).1 hv with ⟨site, hsite, a, ha, rfl⟩ | ⟨site, hsite, a, ha, rfl⟩ |
    ⟨op, hop, vd, hvd, hdv⟩
  · simp only [Spec.fieldArgSites, List.mem_filterMap] at hsite
    obtain ⟨t, ht, hs⟩ := hsite
    refine nodeValues_sub_doc s d t ht _ ?_
    cases hsel : t.sel with
    | field al nm args ds sub p =>
      rw [hsel] at hs
      simp only [Option.some.injEq] at hs
      subst hs
      exact List.mem_append_left _ (List.mem_map_of_mem ha)
    | spread nm ds p => rw [hsel] at hs; cases hs
    | inline tc ds sub p => rw [hsel] at hs; cases hs
  · simp only [Spec.directiveArgSites, List.mem_map] at hsite
    obtain ⟨dir, hdir, rfl⟩ := hsite
    exact directive_values_sub_doc s d dir hdir a ha
  · refine List.mem_append_left _ (List.mem_flatMap.2 ⟨op, hop, ?_⟩)
    refine List.mem_append_left _ (List.mem_append_left _ (List.mem_flatMap.2 ⟨vd, hvd, ?_⟩))
    exact List.mem_append_left _ (by rw [hdv]; simp)

/-- the value of every typed value site is a value of the document -/
theorem typedValueSites_sub_allValues (s : Schema) (d : QueryDoc) (tv : GType × Value)
    (h : tv ∈ Spec.typedValueSites s d) : tv.2 ∈ Spec.allValues s d := by
  unfold Spec.typedValueSites at h
  unfold Spec.allValues
  rcases List.mem_append.1 h with h | h
  · obtain ⟨site, hsite, h⟩ := List.mem_flatMap.1 h
    refine List.mem_append_left _ (List.mem_flatMap.2 ⟨site, hsite, ?_⟩)
    cases hd : site.defs with
    | none => rw [hd] at h; cases h
    | some defs =>
      rw [hd] at h
      simp only [List.mem_filterMap, Option.map_eq_some_iff] at h
      obtain ⟨a, ha, ad, _, rfl⟩ := h
      exact List.mem_map_of_mem ha
  · obtain ⟨op, hop, h⟩ := List.mem_flatMap.1 h
    refine List.mem_append_right _ (List.mem_flatMap.2 ⟨op, hop, ?_⟩)
    simp only [List.mem_filterMap, Option.map_eq_some_iff] at h ⊢
    obtain ⟨vd, hvd, dv, hdv, rfl⟩ := h
    exact ⟨vd, hvd, hdv⟩

/-! ### the two structural invariants give `GoodV` of every value of the document -/

theorem good_args {as : List Argument} (h1 : as.all argOk = true) (h2 : ArgsOK as) : ∀ v ∈ argsValues as, GoodV v := by
  intro v hv
  obtain ⟨a, ha, rfl⟩ := List.mem_map.1 hv
  have := List.all_eq_true.1 h1 a ha
  simp only [argOk, Bool.and_eq_true] at this
  exact ⟨this.2, h2 a ha⟩

theorem good_dirs {ds : List Directive} (h1 : ds.all dirOk = true) (h2 : DirsOK ds) : ∀ v ∈ dirsValues ds, GoodV v := by
  intro v hv
  obtain ⟨dir, hd, hv⟩ := List.mem_flatMap.1 hv
  have := List.all_eq_true.1 h1 dir hd
  simp only [dirOk, Bool.and_eq_true] at this
  exact good_args this.2 (h2 dir hd) v hv

mutual
  theorem good_sel : ∀ x : Selection, selOk x = true → SelOK x → ∀ v ∈ selValues x, GoodV v
    | .field al nm args ds sub p, h1, h2, v, hv => by
      simp only [selOk, Bool.and_eq_true] at h1
      simp only [SelOK] at h2
      rw [selValues] at hv
      rcases List.mem_append.1 hv with hv | hv
      · rcases List.mem_append.1 hv with hv | hv
        · exact good_args h1.1.1.2 h2.1 v hv
        · exact good_dirs h1.1.2 h2.2.1 v hv
      · exact good_sels sub h1.2 h2.2.2 v hv
    | .spread nm ds p, h1, h2, v, hv => by
      simp only [selOk, Bool.and_eq_true] at h1
      simp only [SelOK] at h2
      rw [selValues] at hv
      exact good_dirs h1.2 h2 v hv
    | .inline tc ds sub p, h1, h2, v, hv => by
      simp only [selOk, Bool.and_eq_true] at h1
      simp only [SelOK] at h2
      rw [selValues] at hv
      rcases List.mem_append.1 hv with hv | hv
      · exact good_dirs h1.1.1.2 h2.1 v hv
      · exact good_sels sub h1.2 h2.2 v hv
  theorem good_sels : ∀ xs : Selections, selsOk xs = true → SelsOK xs → ∀ v ∈ selsValues xs, GoodV v
    | .nil, _, _, v, hv => by simp [selsValues] at hv
    | .cons x rest, h1, h2, v, hv => by
      simp only [selsOk, Bool.and_eq_true] at h1
      simp only [SelsOK] at h2
      rw [selsValues] at hv
      rcases List.mem_append.1 hv with hv | hv
      · exact good_sel x h1.1 h2.1 v hv
      · exact good_sels rest h1.2 h2.2 v hv
end

theorem good_varDefs {vs : List VarDef} (h1 : vs.all varDefOk = true) (h2 : ∀ v ∈ vs, VarDefOK v) :
    ∀ v ∈ vs.flatMap varDefValues, GoodV v := by
  intro v hv
  obtain ⟨vd, hvd, hv⟩ := List.mem_flatMap.1 hv
  have h1' := List.all_eq_true.1 h1 vd hvd
  simp only [varDefOk, Bool.and_eq_true] at h1'
  have h2' := h2 vd hvd
  unfold varDefValues at hv
  rcases List.mem_append.1 hv with hv | hv
  · cases hdv : vd.default with
    | none => rw [hdv] at hv; simp at hv
    | some dv =>
      rw [hdv] at hv
      simp only [Option.toList, List.mem_singleton] at hv
      subst hv
      have := h1'.1.2
      rw [hdv] at this
      exact ⟨this, h2'.1 _ hdv⟩
  · exact good_dirs h1'.2 h2'.2 v hv

/-- every value of a document that is `Formattable` and `PrintableQuery` (every parsed document) is good -/
theorem good_docValues (d : QueryDoc) (hf : Formattable d) (hp : PrintableQuery d) : ∀ v ∈ docValues d, GoodV v := by
  intro v hv
  unfold Formattable docOk at hf
  rw [Bool.and_eq_true] at hf
  unfold docValues at hv
  rcases List.mem_append.1 hv with hv | hv
  · obtain ⟨o, ho, hv⟩ := List.mem_flatMap.1 hv
    have h1 := List.all_eq_true.1 hf.1 o ho
    simp only [opOk, Bool.and_eq_true] at h1
    obtain ⟨_, k1, k2, k3⟩ := hp.1 o ho
    unfold opValues at hv
    rcases List.mem_append.1 hv with hv | hv
    · rcases List.mem_append.1 hv with hv | hv
      · exact good_varDefs h1.1.1.1.2 k1 v hv
      · exact good_dirs h1.1.1.2 k2 v hv
    · exact good_sels o.sel h1.2 k3 v hv
  · obtain ⟨f, hf', hv⟩ := List.mem_flatMap.1 hv
    have h1 := List.all_eq_true.1 hf.2 f hf'
    simp only [fragOk, Bool.and_eq_true] at h1
    obtain ⟨_, k1, k2, k3⟩ := hp.2.1 f hf'
    unfold fragValues at hv
    rcases List.mem_append.1 hv with hv | hv
    · rcases List.mem_append.1 hv with hv | hv
      · exact good_varDefs h1.1.1.1.1.2 k1 v hv
      · exact good_dirs h1.1.1.2 k2 v hv
    · exact good_sels f.sel h1.2 k3 v hv

/-! ### the conditions of C08 on values -/

section
variable (s : Schema) (d : QueryDoc) (hf : Formattable d) (hp : PrintableQuery d)
include hf hp

theorem good_allValues : ∀ v ∈ Spec.allValues s d, GoodV v := fun v hv =>
  good_docValues d hf hp v (mem_docValues_of_allValues s d v hv)

/-- only list and object literals have children -/
theorem valuesShaped_of_good : valuesShaped s d = true := by
  unfold valuesShaped
  rw [List.all_eq_true]
  intro v hv
  exact shaped_of_ValueOK v (good_allValues s d hf hp v hv).2

/-- Int / Float / Boolean leaves are well-formed texts -/
theorem leavesWellFormed_of_good : leavesWellFormed s d = true := by
  unfold leavesWellFormed
  rw [List.all_eq_true]
  intro v hv
  obtain ⟨h1, h2⟩ := good_allValues s d hf hp v hv
  simp [constErr_of_good v h1 h2]

/-- numeric literals are lexemes: IntValues `-?[0-9]+`, FloatValues texts on which `strconv.ParseFloat`
    and the specification's finiteness test agree -/
theorem numLiteralsLexemes_of_good : numLiteralsLexemes s d = true := by
  unfold numLiteralsLexemes
  rw [List.all_eq_true]
  intro tv htv
  obtain ⟨h1, h2⟩ := good_allValues s d hf hp tv.2 (typedValueSites_sub_allValues s d tv htv)
  rw [List.all_eq_true]
  intro w hw
  exact numLex_sub tv.2 h1 h2 w hw

theorem numLiteralsOK_of_good : numLiteralsOK s d = true :=
  numLiteralsOK_of_lexemes s d (numLiteralsLexemes_of_good s d hf hp)

end

end Gql.EndToEnd
