import GqlProofs.EndToEnd.DocPositions
set_option linter.unusedSimpArgs false
set_option linter.unusedVariables false
/-
  END TO END, part 6: every parser-shape hypothesis of the C08 / C09 / C12 theorems as a theorem
  `parsed_<condition> : parseQuery L inp = .ok d → <condition> d` (any token limit `L`, any source
  bytes `inp`; the schema `s`, where a condition mentions one, is arbitrary).
-/
namespace Gql.EndToEnd
open Gql Gql.Parser Gql.Format Gql.Validate

section
variable {L : Nat} {inp : Bytes} {d : QueryDoc} (h : parseQuery L inp = .ok d)
include h

theorem parsed_zero : parseQuery 0 inp = .ok d := ofRun_mono (stricter_zero L) _ _ d h

/-- the shape of the tree (C05) under any limit -/
theorem parsed_printable : PrintableQuery d := parseQuery_printable inp d (parsed_zero h)

/-- operation kinds are `query`, `mutation`, `subscription` -/
theorem parsed_kinds : ∀ op ∈ d.ops, op.op ∈ parserOpKinds := by
  intro op hop
  have := ((parsed_printable h).1 op hop).1.1
  unfold parserOpKinds opQuery opMutation opSubscription
  rcases this with e | e | e <;> simp [e]

/-- only list and object literals have children -/
theorem parsed_valuesShaped (s : Schema) : valuesShaped s d = true :=
  valuesShaped_of_good s d (parsed_formattable L inp d h) (parsed_printable h)

/-- Int / Float / Boolean leaves are well-formed texts of their kind -/
theorem parsed_leavesWellFormed (s : Schema) : leavesWellFormed s d = true :=
  leavesWellFormed_of_good s d (parsed_formattable L inp d h) (parsed_printable h)

/-- numeric literals are lexemes (IntValue: `-?[0-9]+`; FloatValue: a text on which the model of
    `strconv.ParseFloat` and the specification's finiteness test agree) -/
theorem parsed_numLiteralsLexemes (s : Schema) : numLiteralsLexemes s d = true :=
  numLiteralsLexemes_of_good s d (parsed_formattable L inp d h) (parsed_printable h)

/-- both halves of `numLiteralsOK` (the Float half included) -/
theorem parsed_numLiteralsOK (s : Schema) : numLiteralsOK s d = true :=
  numLiteralsOK_of_good s d (parsed_formattable L inp d h) (parsed_printable h)

/-- two variable usages that start at the same offset are the same usage -/
theorem parsed_usePosDistinct (s : Schema) : usePosDistinct s d = true :=
  usePosDistinct_of_nodup s d (parsed_posDoc_nodup L inp d h)

/-- fragment definitions with the same position are the same definition -/
theorem parsed_fragPosDistinct : FragPosDistinct d :=
  fragPosDistinct_of_nodup d (parsed_posDoc_nodup L inp d h)

end

mutual
  theorem varNames_of_const : ∀ v : Value, Print.ConstValue v → varNamesV v = []
    | .mk k raw ch p, hc => by
      simp only [Print.ConstValue] at hc
      unfold varNamesV
      cases k <;> simp only []
      · exact absurd rfl hc.1
      · exact varNamesCh_of_const ch hc.2
      · exact varNamesCh_of_const ch hc.2
  theorem varNamesCh_of_const : ∀ ch : Children, Print.ConstChildren ch → varNamesCh ch = []
    | .nil, _ => by simp [varNamesCh]
    | .cons n v p rest, hc => by
      simp only [Print.ConstChildren] at hc
      simp only [varNamesCh, varNames_of_const v hc.1, varNamesCh_of_const rest hc.2, List.append_nil]
end

theorem isNameB_ne_nil {n : Bytes} (h : isNameB n = true) : n ≠ [] := by
  intro e; subst e; simp [isNameB] at h

theorem typeOk_name_ne_nil : ∀ ty : GType, typeOk ty = true → ty.name ≠ []
  | .named n _ _, h => by simp only [typeOk] at h; exact isNameB_ne_nil h
  | .list e _ _, h => by simp only [typeOk] at h; exact typeOk_name_ne_nil e h

section
variable {L : Nat} {inp : Bytes} {d : QueryDoc} (h : parseQuery L inp = .ok d)
include h

/-- default values are constant -/
theorem parsed_constDefaults : constDefaults d = true := by
  unfold constDefaults
  rw [List.all_eq_true]
  intro op hop
  rw [List.all_eq_true]
  intro v hv
  have hwf := ((parsed_printable h).1 op hop).1.2.1 v hv
  cases hd : v.default with
  | none => rfl
  | some dv => simp [varNames_of_const dv (hwf.1 dv hd)]

/-- no variable is declared with the empty type name -/
theorem parsed_variableTypesNamed : variableTypesNamed d = true := by
  unfold variableTypesNamed
  rw [List.all_eq_true]
  intro op hop
  rw [List.all_eq_true]
  intro v hv
  have hf := parsed_formattable L inp d h
  unfold Formattable docOk at hf
  rw [Bool.and_eq_true] at hf
  have h1 := List.all_eq_true.1 hf.1 op hop
  simp only [opOk, Bool.and_eq_true] at h1
  have h2 := List.all_eq_true.1 h1.1.1.1.2 v hv
  simp only [varDefOk, Bool.and_eq_true] at h2
  simpa using typeOk_name_ne_nil v.type h2.1.1.2

/-- fragment definitions have a type condition -/
theorem parsed_typeConds : ∀ f ∈ d.frags, f.typeCond ≠ [] := by
  intro f hf'
  have hf := parsed_formattable L inp d h
  unfold Formattable docOk at hf
  rw [Bool.and_eq_true] at hf
  have h1 := List.all_eq_true.1 hf.2 f hf'
  simp only [fragOk, Bool.and_eq_true] at h1
  exact isNameB_ne_nil h1.1.1.1.2

end

#print axioms parsed_kinds
#print axioms parsed_valuesShaped
#print axioms parsed_leavesWellFormed
#print axioms parsed_numLiteralsOK
#print axioms parsed_usePosDistinct
#print axioms parsed_fragPosDistinct
#print axioms parsed_constDefaults
#print axioms parsed_variableTypesNamed
#print axioms parsed_typeConds

end Gql.EndToEnd
