import GqlProofs.Props.C07
import GqlProofs.ValSpec.Local
import GqlProofs.ValSpec.Stateful
import GqlProofs.ValSpec.Spreads
import GqlProofs.ValSpec.KnownDirs
import GqlProofs.ValSpec.LeafFrag
import GqlProofs.ValSpec.TypeRules
import GqlProofs.ValSpec.Cycles
import GqlProofs.ValSpec.InputFields
import GqlProofs.ValSpec.SingleRootFinal
import GqlProofs.ValSpec.SingleRootEx
import GqlProofs.ValSpec.IntrospectionLinks
import GqlProofs.ValSpec.PossibleSpreads
import GqlProofs.ValSpec.UnusedFragments
import GqlProofs.ValSpec.VarRules
import GqlProofs.ValSpec.VarPosition
import GqlProofs.ValSpec.ValuesCorrectFinal
import GqlProofs.Validate.OverlapSound
import GqlProofs.Props.C18
import GqlProofs.Validate.OverlapWitness
set_option linter.unusedSimpArgs false
set_option linter.unusedVariables false
/-
  END TO END, part 2: the schema-side hypotheses of the capstones are invariants of loader output.

  `C08_default_rules_iff_spec_partial` carries `C08Hyps s d`, `C09_links_correct` carries
  `Gql.Spec.Closed s` and `(s.type? (str "String")).isSome`.  Every hypothesis of these that speaks
  about the schema only is proved here from `Gql.Load.load sd = .ok s`, each as its own theorem
  `loaded_<condition>`; `loaded_hyps` bundles them (`LoadedHyps s`); `C08Hyps_of_loaded` (at the end of
  `Props/C08.lean`) assembles `C08Hyps s d` from the bundle and the remaining, document-side
  hypotheses (`C08DocHyps s d`).

  What is NOT an invariant of `load` on arbitrary `SchemaDoc` trees is kept as an explicit, named
  hypothesis — nothing is weakened silently.  The hypotheses are of three kinds:

  (P) the prelude is part of the document
        `PreludeDeclared sd`              (⇒ `IntrospectionTypesDeclared sd`, `preludeDeclared_introspection`)
      the loader appends `__schema: __Schema!` / `__type(name: String!): __Type` AFTER validation, so
      without the prelude these names need not resolve (`C07_closed_fieldTypes`, `C07_closed_argTypes`).

  (R) root operation types are object types.  Since the repair "a root operation type must be an object
      type" this is an INVARIANT of `load` (`Gql.Load.loaded_rootTypesAreObjects`, the loader's last check)
      and no longer a hypothesis:
        `QueryRootNotKind k s`            the query root is not of kind `k ≠ object` (`loaded_queryRootNotKind`)
                                          (`QueryRootNotInput s` of C07 is `QueryRootNotKind .inputObject s`)
        `SubscriptionRootIsObject s`      the subscription root, if any, is an object type
                                          (`loaded_subscriptionRootIsObject`)
      The former witnesses that (R) could not be dropped are now rejected documents:
        `loaded_subscriptionRoot_interface_rejected`    `interface Subscription { a: Int }`
        `loaded_scalar_query_rejected`                  `scalar Query`
        `loaded_enum_query_rejected`                    `enum Query { A }`
        (`C07_input_query_root_rejected`                `input Query { foo: String }`, in Props/C07.lean)

  (T) shape of the `SchemaDoc` tree that the parser guarantees but the tree type does not:
        `KindFieldless k sd`              definitions and extensions of kind `k` carry no fields
                                          (needed for k = scalar, enum: the grammar has no field syntax there;
                                           it is a clause of the parser's `Gql.Parser.DefOK`)
        `NamesNonEmpty sd`                no definition or extension has the empty name (a Name token is
                                          never empty)
      `load` does not look at either: a tree `scalar S` with a field list, or a definition named `[]`,
      loads (`loaded_noEmptyTypeName_counterexample`, `loaded_kindFieldless_counterexample`).
-/
namespace Gql.EndToEnd
open Gql Gql.Load Gql.Validate

/-! ### the named hypotheses -/

/-- (R) the query root of the loaded schema is not of kind `k` (an invariant of `load` for `k ≠ object`).
    `QueryRootNotInput s` (C07) is `QueryRootNotKind .inputObject s`. -/
def QueryRootNotKind (k : DefKind) (s : Schema) : Prop :=
  ∀ q d, s.query = some q → (q, d) ∈ s.types → d.kind ≠ k

theorem queryRootNotInput_iff (s : Schema) : QueryRootNotInput s ↔ QueryRootNotKind .inputObject s := Iff.rfl

/-- (R) the subscription root, if there is one, is an object type -/
def SubscriptionRootIsObject (s : Schema) : Prop :=
  ∀ n, s.subscription = some n → Gql.Spec.typeIs s n (· == .object) = true

/-- (T) definitions and extensions of kind `k` carry no fields -/
def KindFieldless (k : DefKind) (sd : SchemaDoc) : Prop :=
  ∀ d ∈ sd.definitions ++ sd.extensions, d.kind = k → d.fields = []

/-- (T) no definition or extension has the empty name -/
def NamesNonEmpty (sd : SchemaDoc) : Prop :=
  ∀ d ∈ sd.definitions ++ sd.extensions, d.name ≠ []

/-- Boolean form of `KindFieldless` (for kernel-checked witnesses) -/
theorem kindFieldless_of_all {k : DefKind} {sd : SchemaDoc}
    (h : (sd.definitions ++ sd.extensions).all (fun d => !(d.kind == k) || d.fields.isEmpty) = true) :
    KindFieldless k sd := by
  intro d hd hk
  have := List.all_eq_true.1 h d hd
  simpa [hk] using this

/-- the prelude declares the three types the introspection fields refer to -/
theorem preludeDeclared_introspection {sd : SchemaDoc} (hp : PreludeDeclared sd) : IntrospectionTypesDeclared sd :=
  { schema := hp.types (str "__Schema", .object) (by decide),
    type := hp.types (str "__Type", .object) (by decide),
    string := hp.scalars (str "String") (by decide) }

/-! ### one-liners from C07 -/

/-- **Closed**.  `C07_loaded_closed` needs: the introspection types are declared (the prelude is part of
    the document). -/
theorem loaded_closed {sd : SchemaDoc} {s : Schema} (h : load sd = .ok s)
    (hp : IntrospectionTypesDeclared sd) : Gql.Spec.Closed s :=
  C07_loaded_closed h hp

/-- **KeysConsistent**: no hypothesis -/
theorem loaded_keysConsistent {sd : SchemaDoc} {s : Schema} (h : load sd = .ok s) : Gql.Spec.KeysConsistent s :=
  C07_closed_keys h

/-- **RelationsExact**: no hypothesis -/
theorem loaded_relationsExact {sd : SchemaDoc} {s : Schema} (h : load sd = .ok s) : Gql.Spec.RelationsExact s :=
  C07_relations_exact h

/-- **possibleOK**: no hypothesis -/
theorem loaded_possibleOK {sd : SchemaDoc} {s : Schema} (h : load sd = .ok s) : possibleOK s = true :=
  possibleOK_of_relationsExact s (C07_relations_exact h) (C07_closed_keys h)

/-- **ClosedArgTypes** (field `argTypes` of `C08Hyps`): the introspection types are declared (the
    argument `name: String!` of the appended `__type` field must resolve) -/
theorem loaded_closedArgTypes {sd : SchemaDoc} {s : Schema} (h : load sd = .ok s)
    (hp : IntrospectionTypesDeclared sd) : Gql.Spec.ClosedArgTypes s :=
  C07_closed_argTypes h hp

/-- **ClosedDirectiveArgTypes** (field `directiveArgTypes` of `C08Hyps`): no hypothesis -/
theorem loaded_closedDirectiveArgTypes {sd : SchemaDoc} {s : Schema} (h : load sd = .ok s) :
    Gql.Spec.ClosedDirectiveArgTypes s :=
  C07_closed_directiveArgTypes h

/-- **HasBuiltins**: the prelude is part of the document -/
theorem loaded_hasBuiltins {sd : SchemaDoc} {s : Schema} (h : load sd = .ok s) (hp : PreludeDeclared sd) :
    Gql.Spec.HasBuiltins s :=
  C07_prelude_present h hp

/-- a type the document declares is in the loaded schema with the declared kind -/
theorem loaded_declares {sd : SchemaDoc} {s : Schema} (h : load sd = .ok s) {n : Name} {k : DefKind}
    (hd : DeclaresKind sd n k) : ∃ d, s.type? n = some d ∧ d.kind = k := by
  obtain ⟨st, r1, d1, F⟩ := loaded_facts h
  obtain ⟨d, hl, hk⟩ := buildState_declares F.built hd
  obtain ⟨d', h1, h2⟩ := lookup_mkSchema (sd := sd) (r1 := r1) (d1 := d1) hl
  rw [F.eq]
  exact ⟨d', h1, h2.trans hk⟩

/-- **`String` is present** (hypothesis of `C09_links_correct`): the document declares the scalar
    `String` (part of `PreludeDeclared sd` and of `IntrospectionTypesDeclared sd`) -/
theorem loaded_hasString {sd : SchemaDoc} {s : Schema} (h : load sd = .ok s)
    (hs : DeclaresKind sd (str "String") .scalar) : (s.type? (str "String")).isSome := by
  obtain ⟨d, hd, _⟩ := loaded_declares h hs
  rw [hd]; rfl

/-- the same from the prelude hypothesis of `C07_prelude_present` -/
theorem loaded_hasString_of_prelude {sd : SchemaDoc} {s : Schema} (h : load sd = .ok s) (hp : PreludeDeclared sd) :
    (s.type? (str "String")).isSome :=
  loaded_hasString h (preludeDeclared_introspection hp).string

/-! ### what `rootTypesAreObjects` gives -/

theorem lookup_of_mem_loaded {sd : SchemaDoc} {s : Schema} (h : load sd = .ok s) {n : Name} {d : Definition}
    (hm : (n, d) ∈ s.types) : s.types.lookup n = some d := by
  obtain ⟨_, _, hdist, _⟩ := C07_closed_keys h
  exact lookup_of_mem_nodup (Gql.Validate.nodup_of_pairwiseDistinct hdist) hm

/-- object roots: the query root is of no other kind -/
theorem queryRootNotKind_of_rootsObjects {sd : SchemaDoc} {s : Schema} (h : load sd = .ok s)
    (hroots : Gql.Spec.rootTypesAreObjects s = true) {k : DefKind} (hk : k ≠ .object) : QueryRootNotKind k s := by
  intro q d hq hm hkd
  unfold Gql.Spec.rootTypesAreObjects at hroots
  have := List.all_eq_true.1 hroots s.query (by simp)
  rw [hq] at this
  simp only [Gql.Spec.typeIs, lookup_of_mem_loaded h hm, beq_iff_eq] at this
  exact hk (hkd.symm.trans this)

theorem subscriptionRootIsObject_of_rootsObjects {s : Schema} (hroots : Gql.Spec.rootTypesAreObjects s = true) :
    SubscriptionRootIsObject s := by
  intro n hn
  unfold Gql.Spec.rootTypesAreObjects at hroots
  have := List.all_eq_true.1 hroots s.subscription (by simp)
  rw [hn] at this
  exact this

/-- (R) is an invariant of `load`: the query root is an object type -/
theorem loaded_queryRootNotKind {sd : SchemaDoc} {s : Schema} (h : load sd = .ok s) {k : DefKind} (hk : k ≠ .object) :
    QueryRootNotKind k s :=
  queryRootNotKind_of_rootsObjects h (loaded_rootTypesAreObjects h) hk

/-- (R) is an invariant of `load`: the subscription root, if any, is an object type -/
theorem loaded_subscriptionRootIsObject {sd : SchemaDoc} {s : Schema} (h : load sd = .ok s) :
    SubscriptionRootIsObject s :=
  subscriptionRootIsObject_of_rootsObjects (loaded_rootTypesAreObjects h)

/-! ### the type map is built from the definitions and extensions of the document -/

/-- an entry of a modified list is an old entry, or the image of the entry `lookup` finds at `q` -/
theorem mem_modifyKV_lookup {α} {q : Name} {f : α → α} {l : List (Name × α)} {k : Name} {v : α}
    (h : (k, v) ∈ modifyKV q f l) : (k, v) ∈ l ∨ (k = q ∧ ∃ v0, l.lookup q = some v0 ∧ v = f v0) := by
  induction l with
  | nil => simp [modifyKV] at h
  | cons p rest ih =>
    obtain ⟨k', v'⟩ := p
    simp only [modifyKV] at h
    split at h
    · rename_i hq
      have hq' : k' = q := by simpa using hq
      simp only [List.mem_cons, Prod.mk.injEq] at h
      rcases h with ⟨h1, h2⟩ | h
      · right
        refine ⟨h1.trans hq', v', ?_, h2⟩
        subst hq'
        simp [List.lookup]
      · left; simp [h]
    · rename_i hq
      have hq' : (q == k') = false := by
        cases hqq : (q == k') with
        | false => rfl
        | true =>
          have : q = k' := by simpa using hqq
          subst this
          simp at hq
      simp only [List.mem_cons, Prod.mk.injEq] at h
      rcases h with ⟨h1, h2⟩ | h
      · left; simp [h1, h2]
      · rcases ih h with h | ⟨h1, v0, h2, h3⟩
        · left; simp [h]
        · right
          refine ⟨h1, v0, ?_, h3⟩
          simp only [List.lookup, hq']
          exact h2

/-- entries after the first loop: old entries, or `(d.name, d)` for a definition of the document -/
theorem declareTypes_mem {l : List Definition} {acc r : List (Name × Definition)} (h : declareTypes l acc = .ok r) :
    ∀ p ∈ r, p ∈ acc ∨ ∃ d ∈ l, p = (d.name, d) := by
  induction l generalizing acc with
  | nil =>
    simp [declareTypes] at h; subst h
    exact fun p hp => Or.inl hp
  | cons d rest ih =>
    simp only [declareTypes] at h
    split at h
    · simp at h
    · intro p hp
      rcases ih h p hp with hp | ⟨d', hd', e⟩
      · rcases List.mem_append.1 hp with hp | hp
        · exact Or.inl hp
        · exact Or.inr ⟨d, List.mem_cons_self, List.mem_singleton.1 hp⟩
      · exact Or.inr ⟨d', List.mem_cons_of_mem _ hd', e⟩

/-- a property of entries that stubs have and that folding an extension of the SAME kind preserves
    holds of every entry after the second loop -/
theorem foldExtensions_all {Q : Name × Definition → Prop} {l : List Definition} {types r : List (Name × Definition)}
    (hstub : ∀ ext ∈ l, Q (ext.name, extStub ext))
    (happ : ∀ ext ∈ l, ∀ d, Q (ext.name, d) → d.kind = ext.kind → Q (ext.name, applyExt ext d))
    (ht : ∀ p ∈ types, Q p) (h : foldExtensions l types = .ok r) : ∀ p ∈ r, Q p := by
  induction l generalizing types with
  | nil => simp [foldExtensions] at h; subst h; exact ht
  | cons ext rest ih =>
    simp only [foldExtensions] at h
    have h1 : ∀ p ∈ ensureBase ext types, Q p := by
      intro p hp
      unfold ensureBase at hp
      split at hp
      · exact ht p hp
      · rcases List.mem_append.1 hp with hp | hp
        · exact ht p hp
        · rw [List.mem_singleton.1 hp]; exact hstub ext List.mem_cons_self
    split at h
    · simp at h; subst h; exact h1
    · rename_i d hd
      split at h
      · simp at h
      · rename_i hk
        have hk' : d.kind = ext.kind := by simpa using hk
        refine ih (fun e he => hstub e (List.mem_cons_of_mem _ he)) (fun e he => happ e (List.mem_cons_of_mem _ he)) ?_ h
        rintro ⟨k, v⟩ hp
        rcases mem_modifyKV_lookup hp with hp | ⟨hkq, v0, hv0, hv⟩
        · exact h1 _ hp
        · rw [hd] at hv0
          injection hv0 with hv0
          subst hv0; subst hv; subst hkq
          exact happ ext List.mem_cons_self d (h1 _ (mem_of_lookup hd)) hk'

/-- … hence of every entry of the type map every validator runs on -/
theorem buildState_types_all {Q : Name × Definition → Prop} {sd : SchemaDoc} {st : LState}
    (hdef : ∀ d ∈ sd.definitions, Q (d.name, d))
    (hstub : ∀ ext ∈ sd.extensions, Q (ext.name, extStub ext))
    (happ : ∀ ext ∈ sd.extensions, ∀ d, Q (ext.name, d) → d.kind = ext.kind → Q (ext.name, applyExt ext d))
    (h : buildState sd = .ok st) : ∀ p ∈ st.types, Q p := by
  unfold buildState at h
  split at h
  · simp at h
  · rename_i t0 h0
    split at h
    · simp at h
    · rename_i t1 h1
      split at h
      split at h
      · simp at h
      · simp only [Except.ok.injEq] at h
        subst h
        refine foldExtensions_all hstub happ ?_ h1
        intro p hp
        rcases declareTypes_mem h0 p hp with hp | ⟨d, hd, e⟩
        · simp at hp
        · rw [e]; exact hdef d hd

/-! ### definitions of a kind that has no field syntax declare no fields -/

/-- in a loaded schema the definitions of kind `k` declare no fields, when the document's definitions
    and extensions of kind `k` carry none (T); `k ≠ object`: the query root, to which the loader appends
    `__schema` / `__type`, is an object type -/
theorem loaded_kind_no_fields {sd : SchemaDoc} {s : Schema} (h : load sd = .ok s) {k : DefKind}
    (hk : KindFieldless k sd) (hko : k ≠ .object) : ∀ p ∈ s.types, p.2.kind = k → p.2.fields = [] := by
  have hq : QueryRootNotKind k s := loaded_queryRootNotKind h hko
  obtain ⟨st, r1, d1, F⟩ := loaded_facts h
  have hst : ∀ p ∈ st.types, p.2.kind = k → p.2.fields = [] := by
    refine buildState_types_all (Q := fun p => p.2.kind = k → p.2.fields = []) ?_ ?_ ?_ F.built
    · intro d hd
      exact hk d (List.mem_append_left _ hd)
    · intro ext _ _
      rfl
    · intro ext hext d hd hkind hkk
      have hdk : d.kind = k := hkk
      have h1 : d.fields = [] := hd hdk
      have h2 : ext.fields = [] := hk ext (List.mem_append_right _ hext) (hkind.symm.trans hdk)
      show d.fields ++ ext.fields = []
      rw [h1, h2]; rfl
  intro p hp hpk
  have hq' := hq
  rw [F.eq] at hp hq'
  obtain ⟨d, hd, hcase⟩ := mem_mkSchema_types hp
  rcases hcase with e | ⟨e, hroot⟩
  · rw [e] at hpk ⊢
    exact hst (p.1, d) hd hpk
  · exact absurd hpk (hq' p.1 p.2 hroot hp)

/-- **scalars declare no fields** -/
theorem loaded_scalars_no_fields {sd : SchemaDoc} {s : Schema} (h : load sd = .ok s)
    (hk : KindFieldless .scalar sd) :
    ∀ p ∈ s.types, p.2.kind = .scalar → p.2.fields = [] :=
  loaded_kind_no_fields h hk (by decide)

/-- scalars and enums declare no fields (the form `inputPositionsPlain_of_closed` asks for) -/
theorem loaded_leaves_no_fields {sd : SchemaDoc} {s : Schema} (h : load sd = .ok s)
    (hks : KindFieldless .scalar sd) (hke : KindFieldless .enum sd) :
    ∀ p ∈ s.types, p.2.kind = .scalar ∨ p.2.kind = .enum → p.2.fields = [] := by
  intro p hp hkind
  rcases hkind with hkind | hkind
  · exact loaded_kind_no_fields h hks (by decide) p hp hkind
  · exact loaded_kind_no_fields h hke (by decide) p hp hkind

/-- a union declares no fields of its own either (the side remark of `Spec.wellParented`) -/
theorem loaded_unions_no_fields {sd : SchemaDoc} {s : Schema} (h : load sd = .ok s)
    (hk : KindFieldless .union sd) :
    ∀ p ∈ s.types, p.2.kind = .union → p.2.fields = [] :=
  loaded_kind_no_fields h hk (by decide)

/-! ### no type has the empty name -/

/-- **`s.type? [] = none`**.  NOT an invariant of `load` on arbitrary trees (the tree type allows a
    definition named `[]` and the loader never inspects the spelling of a type name that does not start
    with `__`: `loaded_noEmptyTypeName_counterexample`); it holds as soon as no definition or extension
    of the document has the empty name (T), which the parser guarantees (names are Name tokens). -/
theorem loaded_noEmptyTypeName {sd : SchemaDoc} {s : Schema} (h : load sd = .ok s) (hn : NamesNonEmpty sd) :
    s.type? [] = none := by
  obtain ⟨st, r1, d1, F⟩ := loaded_facts h
  have hst : ∀ p ∈ st.types, p.1 ≠ [] := by
    refine buildState_types_all (Q := fun p => p.1 ≠ []) ?_ ?_ ?_ F.built
    · intro d hd
      exact hn d (List.mem_append_left _ hd)
    · intro ext hext
      exact hn ext (List.mem_append_right _ hext)
    · intro ext hext d _ _
      exact hn ext (List.mem_append_right _ hext)
  cases hl : s.type? [] with
  | none => rfl
  | some d =>
    have hm : (([] : Name), d) ∈ s.types := mem_of_lookup hl
    rw [F.eq] at hm
    obtain ⟨d', hd', _⟩ := mem_mkSchema_types hm
    exact absurd rfl (hst _ hd')

/-! ### `schemaOK`, `inputPositionsPlain`, `subscriptionRootExact` -/

/-- **schemaOK** (ValuesOfCorrectType): the prelude is part of the document (P: a definition named like
    a built-in scalar is that scalar); scalar definitions and extensions carry no fields (T).
    (Formerly also (R): the query root is neither an input object nor a scalar.) -/
theorem loaded_schemaOK {sd : SchemaDoc} {s : Schema} (h : load sd = .ok s) (hp : PreludeDeclared sd)
    (hk : KindFieldless .scalar sd) : schemaOK s = true :=
  schemaOK_of_closed s (C07_closed_keys h) (C07_closed_fieldTypes h (preludeDeclared_introspection hp))
    (C07_prelude_present h hp) (loaded_scalars_no_fields h hk)

/-- **inputPositionsPlain** (VariablesInAllowedPosition): the introspection types are declared (P),
    scalar and enum definitions and extensions carry no fields (T) -/
theorem loaded_inputPositionsPlain {sd : SchemaDoc} {s : Schema} (h : load sd = .ok s)
    (hp : IntrospectionTypesDeclared sd) (hks : KindFieldless .scalar sd) (hke : KindFieldless .enum sd) :
    inputPositionsPlain s = true :=
  inputPositionsPlain_of_closed s (C07_loaded_closed h hp) (loaded_leaves_no_fields h hks hke)

/-- **subscriptionRootExact** (SingleFieldSubscriptions), no hypothesis: the subscription root, if any,
    is an object type (`loaded_subscriptionRootIsObject`).  (Only the SUBSCRIPTION root matters: the bridge lemma
    `subscriptionRootExact_of_loaded` is applied to the schema with the two other roots erased, which
    `subscriptionRootExact`, `KeysConsistent` and `possibleAbstractExact` do not read.) -/
theorem loaded_subscriptionRootExact {sd : SchemaDoc} {s : Schema} (h : load sd = .ok s) :
    subscriptionRootExact s = true := by
  have hsub : SubscriptionRootIsObject s := loaded_subscriptionRootIsObject h
  have hk : Gql.Spec.KeysConsistent s := C07_closed_keys h
  have hp : Gql.Spec.possibleAbstractExact s = true := (C07_relations_exact h).possibleAbstractExact
  have key := subscriptionRootExact_of_loaded { s with query := none, mutation := none } hk hp (by
      unfold Gql.Spec.rootTypesAreObjects
      simp only [List.all_cons, List.all_nil, Bool.true_and, Bool.and_true]
      cases hs : s.subscription with
      | none => rfl
      | some n => exact hsub n hs)
  exact key

/-! ### field types are output types -/

/-- `Spec.fieldTypesAreOutputTypes s d` depends on the document only through the field definitions of
    the schema the document's field nodes resolve to; it follows, for EVERY document, from
    `ClosedFieldTypes` and "the type of `__typename`, `String`, is not an input object" -/
theorem fieldTypesAreOutputTypes_of_closed (s : Schema) (d : QueryDoc) (hft : Gql.Spec.ClosedFieldTypes s)
    (hstr : ∀ dd, s.type? (str "String") = some dd → dd.kind ≠ .inputObject) :
    Gql.Validate.Spec.fieldTypesAreOutputTypes s d = true := by
  unfold Gql.Validate.Spec.fieldTypesAreOutputTypes
  rw [List.all_eq_true]
  intro t ht
  have hin := docSels_inSch s d t ht
  obtain ⟨par, sel⟩ := t
  cases sel with
  | spread nm dirs p => rfl
  | inline tc dirs sub p => rfl
  | field al nm args dirs sub p =>
    simp only [Gql.Validate.Spec.fieldNodeType]
    cases par with
    | none => rfl
    | some q =>
      obtain ⟨n, hn⟩ := hin q rfl
      have hmem : (n, q) ∈ s.types := mem_of_lookup hn
      cases hfd : Gql.Validate.Spec.fieldDefOn q nm with
      | none => simp [hfd]
      | some fd =>
        cases hty : s.type? fd.type.name with
        | none => simp [hfd, hty]
        | some ft =>
          simp only [Option.bind_some, hfd, hty]
          have hne : ft.kind ≠ .inputObject := by
            unfold Gql.Validate.Spec.fieldDefOn at hfd
            split at hfd
            · split at hfd
              · injection hfd with hfd
                subst hfd
                exact hstr ft hty
              · cases hfd
            · split at hfd
              · rename_i hkind
                have hf : fd ∈ q.fields := List.mem_of_find?_eq_some hfd
                have hc := hft (n, q) hmem fd hf
                have hty' : s.types.lookup fd.type.name = some ft := hty
                simp only [Gql.Spec.typeIs, hty'] at hc
                intro hio
                rw [hio] at hc
                simp only [Bool.or_eq_true, beq_iff_eq] at hkind
                rcases hkind with hkind | hkind <;> rw [hkind] at hc <;> cases hc
              · cases hfd
          cases hkk : ft.kind <;> simp_all [Gql.Validate.Spec.isLeaf, Gql.Validate.Spec.isComposite]

/-- **fieldTypesAreOutputTypes** (field `outputTypes` of `C08Hyps`), for every document: the
    introspection types are declared (P) -/
theorem loaded_fieldTypesAreOutputTypes {sd : SchemaDoc} {s : Schema} (h : load sd = .ok s)
    (hp : IntrospectionTypesDeclared sd) (d : QueryDoc) :
    Gql.Validate.Spec.fieldTypesAreOutputTypes s d = true := by
  refine fieldTypesAreOutputTypes_of_closed s d (C07_closed_fieldTypes h hp) ?_
  intro dd hdd hio
  obtain ⟨d', hd', hk⟩ := loaded_declares h hp.string
  rw [hdd] at hd'
  injection hd' with hd'
  subst hd'
  rw [hio] at hk
  cases hk

/-! ### the bundle -/

/-- every schema-side hypothesis of `C08_default_rules_iff_spec_partial` (`C08Hyps`) and of
    `C09_links_correct` -/
structure LoadedHyps (s : Schema) : Prop where
  closed : Gql.Spec.Closed s
  keys : Gql.Spec.KeysConsistent s
  relations : Gql.Spec.RelationsExact s
  hasBuiltins : Gql.Spec.HasBuiltins s
  possibleOK : possibleOK s = true
  schemaOK : schemaOK s = true
  scalarsNoFields : ∀ p ∈ s.types, p.2.kind = .scalar → p.2.fields = []
  leavesNoFields : ∀ p ∈ s.types, p.2.kind = .scalar ∨ p.2.kind = .enum → p.2.fields = []
  subscriptionRoot : subscriptionRootExact s = true
  inputPositions : inputPositionsPlain s = true
  noEmptyTypeName : s.type? [] = none
  hasString : (s.type? (str "String")).isSome
  argTypes : Gql.Spec.ClosedArgTypes s
  directiveArgTypes : Gql.Spec.ClosedDirectiveArgTypes s
  outputTypes : ∀ d : QueryDoc, Gql.Validate.Spec.fieldTypesAreOutputTypes s d = true

/-- **all schema-side hypotheses at once**, from: the prelude is part of the document (P), scalar and
    enum definitions/extensions carry no fields and no definition/extension has the empty name (T: both
    hold of parser output).  (Formerly also (R), root operation types are object types: now an invariant
    of `load`.) -/
theorem loaded_hyps {sd : SchemaDoc} {s : Schema} (h : load sd = .ok s) (hp : PreludeDeclared sd)
    (hks : KindFieldless .scalar sd) (hke : KindFieldless .enum sd) (hn : NamesNonEmpty sd) : LoadedHyps s :=
  have hi := preludeDeclared_introspection hp
  { closed := loaded_closed h hi
    keys := loaded_keysConsistent h
    relations := loaded_relationsExact h
    hasBuiltins := loaded_hasBuiltins h hp
    possibleOK := loaded_possibleOK h
    schemaOK := loaded_schemaOK h hp hks
    scalarsNoFields := loaded_scalars_no_fields h hks
    leavesNoFields := loaded_leaves_no_fields h hks hke
    subscriptionRoot := loaded_subscriptionRootExact h
    inputPositions := loaded_inputPositionsPlain h hi hks hke
    noEmptyTypeName := loaded_noEmptyTypeName h hn
    hasString := loaded_hasString h hi.string
    argTypes := loaded_closedArgTypes h hi
    directiveArgTypes := loaded_closedDirectiveArgTypes h
    outputTypes := loaded_fieldTypesAreOutputTypes h hi }

/-! ### kernel-checked witnesses: the former witnesses of (R) are rejected; the hypotheses (T) cannot be dropped -/

namespace Witness
open Gql.Examples

/-- run a Boolean test on the schema a document loads to (`false` when it does not load) -/
def onLoaded (sd : SchemaDoc) (p : Schema → Bool) : Bool :=
  match load sd with
  | .ok s => p s
  | _ => false

/-- run a Boolean test on the error a document is rejected with (`false` when it loads) -/
def onRejected (sd : SchemaDoc) (p : LoadError → Bool) : Bool :=
  match load sd with
  | .err e => p e
  | _ => false

theorem onRejected_elim {sd : SchemaDoc} {p : LoadError → Bool} (h : onRejected sd p = true) :
    ∃ e, load sd = .err e ∧ p e = true := by
  unfold onRejected at h
  split at h
  · rename_i e he; exact ⟨e, he, h⟩
  · cases h

theorem onLoaded_elim {sd : SchemaDoc} {p : Schema → Bool} (h : onLoaded sd p = true) : ∃ s, load sd = .ok s ∧ p s = true := by
  unfold onLoaded at h
  split at h
  · rename_i s hs; exact ⟨s, hs, h⟩
  · cases h

def queryA : Definition := defn .object "Query" 1 [fld "a" (ty "Int")]

/-- `type Query { a: Int }  interface Subscription { a: Int }`: the interface becomes the subscription root -/
def interfaceSubscriptionDoc : SchemaDoc :=
  doc (miniPrelude ++ [queryA, defn .interface "Subscription" 2 [fld "a" (ty "Int")]])

/-- `scalar Query`: the scalar becomes the query root and receives `__schema` / `__type` -/
def scalarQueryDoc : SchemaDoc := doc (miniPrelude ++ [defn .scalar "Query" 1])

/-- `enum Query { A }  type T { f(x: Query): Int }`: the enum is the query root, receives the two
    fields, and is the type of an argument -/
def enumQueryDoc : SchemaDoc :=
  doc (miniPrelude ++ [defn .enum "Query" 1 (values := ["A"]), defn .object "T" 2 [fld "f" (ty "Int") [arg "x" (ty "Query")]]])

/-- a TREE (no source text parses to it) whose scalar `S` carries a field list -/
def scalarWithFieldsDoc : SchemaDoc := doc (miniPrelude ++ [queryA, defn .scalar "S" 2 [fld "a" (ty "Int")]])

/-- a TREE (no source text parses to it) with a definition whose name is empty -/
def emptyNameDoc : SchemaDoc := doc (miniPrelude ++ [queryA, { queryA with name := [], pos := pos 2 }])

end Witness

open Witness in
/-- the former witness of the "non-object root" finding, `type Query { a: Int }  interface Subscription
    { a: Int }`, is rejected: "Schema root subscription must be an object type, Subscription is a
    INTERFACE." at the definition of `Subscription` (before the repair the interface became the
    subscription root and `subscriptionRootExact` was false) -/
theorem loaded_subscriptionRoot_interface_rejected :
    ∃ e, load interfaceSubscriptionDoc = .err e ∧
      e.msg = Msg.rootNotObject Load.opSubscription (str "Subscription") .interface ∧ e.line = 2 := by
  obtain ⟨e, he, hp⟩ := onRejected_elim (sd := interfaceSubscriptionDoc)
    (p := fun e => decide (e.msg = Msg.rootNotObject Load.opSubscription (str "Subscription") .interface ∧ e.line = 2)) (by decide)
  exact ⟨e, he, of_decide_eq_true hp⟩

open Witness in
/-- `scalar Query` is rejected: "Schema root query must be an object type, Query is a SCALAR." (before the
    repair the scalar became the query root, received `__schema` / `__type`, and `schemaOK` was false) -/
theorem loaded_scalar_query_rejected :
    ∃ e, load scalarQueryDoc = .err e ∧ e.msg = Msg.rootNotObject Load.opQuery (str "Query") .scalar ∧
      KindFieldless .scalar scalarQueryDoc := by
  obtain ⟨e, he, hp⟩ := onRejected_elim (sd := scalarQueryDoc)
    (p := fun e => decide (e.msg = Msg.rootNotObject Load.opQuery (str "Query") .scalar)) (by decide)
  exact ⟨e, he, of_decide_eq_true hp, kindFieldless_of_all (by decide)⟩

open Witness in
/-- `enum Query { A }  type T { f(x: Query): Int }` is rejected: "Schema root query must be an object type,
    Query is a ENUM." (before the repair the enum was the query root WITH fields and the type of an
    argument: `inputPositionsPlain` was false) -/
theorem loaded_enum_query_rejected :
    ∃ e, load enumQueryDoc = .err e ∧ e.msg = Msg.rootNotObject Load.opQuery (str "Query") .enum := by
  obtain ⟨e, he, hp⟩ := onRejected_elim (sd := enumQueryDoc)
    (p := fun e => decide (e.msg = Msg.rootNotObject Load.opQuery (str "Query") .enum)) (by decide)
  exact ⟨e, he, of_decide_eq_true hp⟩

open Witness in
/-- the loader does not look at the field list of a scalar definition: a tree whose scalar `S` carries a
    field loads, all roots are objects, and `schemaOK` is false — `loaded_schemaOK` cannot lose
    `KindFieldless .scalar` (a hypothesis about TREES; no source text parses to this tree) -/
theorem loaded_kindFieldless_counterexample :
    ∃ sd s, load sd = .ok s ∧ Gql.Spec.rootTypesAreObjects s = true ∧ schemaOK s = false := by
  obtain ⟨s, hs, hp⟩ := onLoaded_elim (sd := scalarWithFieldsDoc)
    (p := fun s => Gql.Spec.rootTypesAreObjects s && !schemaOK s) (by decide)
  simp only [Bool.and_eq_true, Bool.not_eq_true'] at hp
  exact ⟨_, s, hs, hp.1, hp.2⟩

open Witness in
/-- the loader does not look at the spelling of a type name: a tree with a definition named `[]` loads
    and `s.type? []` is that definition — `loaded_noEmptyTypeName` cannot lose `NamesNonEmpty`
    (a hypothesis about TREES; no source text parses to this tree) -/
theorem loaded_noEmptyTypeName_counterexample :
    ∃ sd s, load sd = .ok s ∧ Gql.Spec.rootTypesAreObjects s = true ∧ (s.type? []).isSome = true := by
  obtain ⟨s, hs, hp⟩ := onLoaded_elim (sd := emptyNameDoc)
    (p := fun s => Gql.Spec.rootTypesAreObjects s && (s.type? []).isSome) (by decide)
  simp only [Bool.and_eq_true] at hp
  exact ⟨_, s, hs, hp.1, hp.2⟩

/-- non-vacuity: a document that loads and satisfies (R) and (T) (`Examples.okDoc`, `type Query { a: Int }`
    with the three-type stand-in for the prelude) -/
example : ∃ s, load Examples.okDoc = .ok s ∧ Gql.Spec.rootTypesAreObjects s = true ∧
    subscriptionRootExact s = true ∧ possibleOK s = true ∧ inputPositionsPlain s = true ∧ s.type? [] = none := by
  obtain ⟨s, hs, hp⟩ := Witness.onLoaded_elim (sd := Examples.okDoc)
    (p := fun s => Gql.Spec.rootTypesAreObjects s && subscriptionRootExact s && possibleOK s && inputPositionsPlain s &&
      (s.type? []).isNone) (by decide)
  simp only [Bool.and_eq_true, Option.isNone_iff_eq_none] at hp
  exact ⟨s, hs, hp.1.1.1.1, hp.1.1.1.2, hp.1.1.2, hp.1.2, hp.2⟩

end Gql.EndToEnd

#print axioms Gql.EndToEnd.preludeDeclared_introspection
#print axioms Gql.EndToEnd.loaded_closed
#print axioms Gql.EndToEnd.loaded_keysConsistent
#print axioms Gql.EndToEnd.loaded_relationsExact
#print axioms Gql.EndToEnd.loaded_possibleOK
#print axioms Gql.EndToEnd.loaded_closedArgTypes
#print axioms Gql.EndToEnd.loaded_closedDirectiveArgTypes
#print axioms Gql.EndToEnd.loaded_hasBuiltins
#print axioms Gql.EndToEnd.loaded_declares
#print axioms Gql.EndToEnd.loaded_hasString
#print axioms Gql.EndToEnd.loaded_hasString_of_prelude
#print axioms Gql.EndToEnd.queryRootNotKind_of_rootsObjects
#print axioms Gql.EndToEnd.subscriptionRootIsObject_of_rootsObjects
#print axioms Gql.EndToEnd.buildState_types_all
#print axioms Gql.EndToEnd.loaded_kind_no_fields
#print axioms Gql.EndToEnd.loaded_scalars_no_fields
#print axioms Gql.EndToEnd.loaded_leaves_no_fields
#print axioms Gql.EndToEnd.loaded_unions_no_fields
#print axioms Gql.EndToEnd.loaded_noEmptyTypeName
#print axioms Gql.EndToEnd.loaded_schemaOK
#print axioms Gql.EndToEnd.loaded_inputPositionsPlain
#print axioms Gql.EndToEnd.loaded_subscriptionRootExact
#print axioms Gql.EndToEnd.fieldTypesAreOutputTypes_of_closed
#print axioms Gql.EndToEnd.loaded_fieldTypesAreOutputTypes
#print axioms Gql.EndToEnd.loaded_hyps
#print axioms Gql.EndToEnd.loaded_subscriptionRoot_interface_rejected
#print axioms Gql.EndToEnd.loaded_scalar_query_rejected
#print axioms Gql.EndToEnd.loaded_enum_query_rejected
#print axioms Gql.EndToEnd.loaded_kindFieldless_counterexample
#print axioms Gql.EndToEnd.loaded_noEmptyTypeName_counterexample
