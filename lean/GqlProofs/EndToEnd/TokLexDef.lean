import GqlProofs.Format.TokText
import GqlProofs.Parser.Stream
/-
  END TO END: what the lexer model guarantees about the TEXT of the tokens it hands out
  (definition only; proved for every token of `rawS` in `TokLex.lean`, used by the parser
  traversal in `ParsedShape.lean`).
-/
namespace Gql.EndToEnd
open Gql Gql.Lexer Gql.Format

/-- the text of a Name token is a lexer Name, the text of an Int / Float token is on its own exactly
    one number lexeme of that kind -/
def TokLex (t : Token) : Prop :=
  (t.kind = .name → isNameB t.value = true) ∧
  (t.kind = .int → numRaw .int t.value = true) ∧
  (t.kind = .float → numRaw .float t.value = true)

end Gql.EndToEnd
