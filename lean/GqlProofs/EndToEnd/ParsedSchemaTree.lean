import GqlProofs.EndToEnd.ParsedSchemaShape
import GqlProofs.EndToEnd.Loaded
import GqlProofs.Grammar.ParserFacts
set_option linter.unusedSimpArgs false
set_option linter.unusedVariables false
/-
  END TO END, part 7: the tree-shape hypotheses (T) of `Loaded.lean` — `KindFieldless .scalar`,
  `KindFieldless .enum`, `NamesNonEmpty` — hold of every schema document that the schema parser model
  returns, and of every merge of such documents (`parseSchemas`: what `LoadSchema` hands to the
  validator).
-/
namespace Gql.EndToEnd
open Gql Gql.Lexer Gql.Parser Gql.Format Gql.Load

theorem defOk_of_formattable {d : SchemaDoc} (h : FormattableSchema d) :
    ∀ x ∈ d.definitions ++ d.extensions, defOk x = true := by
  unfold FormattableSchema schemaDocOk at h
  simp only [Bool.and_eq_true] at h
  intro x hx
  rcases List.mem_append.1 hx with hx | hx
  · exact List.all_eq_true.1 h.1.2 x hx
  · have := List.all_eq_true.1 h.2 x hx
    simp only [extOk, Bool.and_eq_true] at this
    exact this.1

theorem kindFieldless_scalar_of_formattable {d : SchemaDoc} (h : FormattableSchema d) : KindFieldless .scalar d := by
  intro x hx hk
  have := defOk_of_formattable h x hx
  simp only [defOk, Bool.and_eq_true, shapeOk, hk, List.isEmpty_iff] at this
  exact this.2.1.2

theorem kindFieldless_enum_of_formattable {d : SchemaDoc} (h : FormattableSchema d) : KindFieldless .enum d := by
  intro x hx hk
  have := defOk_of_formattable h x hx
  simp only [defOk, Bool.and_eq_true, shapeOk, hk, List.isEmpty_iff] at this
  exact this.2.2

theorem kindFieldless_union_of_formattable {d : SchemaDoc} (h : FormattableSchema d) : KindFieldless .union d := by
  intro x hx hk
  have := defOk_of_formattable h x hx
  simp only [defOk, Bool.and_eq_true, shapeOk, hk, List.isEmpty_iff] at this
  exact this.2.1.2

theorem namesNonEmpty_of_formattable {d : SchemaDoc} (h : FormattableSchema d) : NamesNonEmpty d := by
  intro x hx hn
  have := defOk_of_formattable h x hx
  simp only [defOk, Bool.and_eq_true] at this
  rw [hn] at this
  simp [isNameB] at this

/-- the three tree-shape hypotheses together -/
structure TreeHyps (sd : SchemaDoc) : Prop where
  scalars : KindFieldless .scalar sd
  enums : KindFieldless .enum sd
  unions : KindFieldless .union sd
  names : NamesNonEmpty sd

theorem treeHyps_of_formattable {d : SchemaDoc} (h : FormattableSchema d) : TreeHyps d :=
  ⟨kindFieldless_scalar_of_formattable h, kindFieldless_enum_of_formattable h, kindFieldless_union_of_formattable h,
   namesNonEmpty_of_formattable h⟩

/-- one parsed source -/
theorem parsedSchema_treeHyps {L src : Nat} {b : Bool} {inp : Bytes} {d : SchemaDoc} (hv : Utf8.valid inp)
    (hp : parseSchemaSrc L src b inp = .ok d) : TreeHyps d :=
  treeHyps_of_formattable (parsedSchema_formattable L src b inp d hv hp)

theorem treeHyps_empty : TreeHyps SchemaDoc.empty :=
  ⟨fun x hx => by simp [SchemaDoc.empty] at hx, fun x hx => by simp [SchemaDoc.empty] at hx,
   fun x hx => by simp [SchemaDoc.empty] at hx, fun x hx => by simp [SchemaDoc.empty] at hx⟩

theorem mem_merge {a b : SchemaDoc} {x : Definition} (hx : x ∈ (a.merge b).definitions ++ (a.merge b).extensions) :
    x ∈ a.definitions ++ a.extensions ∨ x ∈ b.definitions ++ b.extensions := by
  simp only [SchemaDoc.merge, List.mem_append] at hx ⊢
  rcases hx with (h | h) | (h | h)
  · exact .inl (.inl h)
  · exact .inr (.inl h)
  · exact .inl (.inr h)
  · exact .inr (.inr h)

theorem treeHyps_merge {a b : SchemaDoc} (ha : TreeHyps a) (hb : TreeHyps b) : TreeHyps (a.merge b) :=
  ⟨fun x hx => (mem_merge hx).elim (ha.scalars x) (hb.scalars x),
   fun x hx => (mem_merge hx).elim (ha.enums x) (hb.enums x),
   fun x hx => (mem_merge hx).elim (ha.unions x) (hb.unions x),
   fun x hx => (mem_merge hx).elim (ha.names x) (hb.names x)⟩

theorem treeHyps_foldl (ds : List SchemaDoc) : ∀ acc : SchemaDoc, TreeHyps acc → (∀ d ∈ ds, TreeHyps d) →
    TreeHyps (ds.foldl SchemaDoc.merge acc) := by
  induction ds with
  | nil => intro acc h _; exact h
  | cons d ds ih =>
    intro acc h hd
    exact ih _ (treeHyps_merge h (hd d (by simp))) (fun x hx => hd x (by simp [hx]))

theorem parsedFrom_treeHyps (L : Nat) : ∀ (srcs : List (Bool × Bytes)) (i : Nat) (ds : List SchemaDoc),
    (∀ src ∈ srcs, Utf8.valid src.2) → ParsedFrom L i srcs ds → ∀ d ∈ ds, TreeHyps d
  | [], _, [], _, _ => fun d hd => by cases hd
  | [], _, _ :: _, _, h => by simp [ParsedFrom] at h
  | _ :: _, _, [], _, h => by simp [ParsedFrom] at h
  | (bi, inp) :: rest, i, d :: ds, hv, h => by
    simp only [ParsedFrom] at h
    intro x hx
    rcases List.mem_cons.1 hx with rfl | hx
    · exact parsedSchema_treeHyps (hv (bi, inp) (by simp)) h.1
    · exact parsedFrom_treeHyps L rest (i + 1) ds (fun s hs => hv s (by simp [hs])) h.2 x hx

/-- **every document that `ParseSchemas` returns from well-formed UTF-8 sources** (the prelude and the
    user's sources, merged — what `LoadSchema` validates) has the tree shape the loader theorems need -/
theorem parseSchemas_treeHyps {L : Nat} {srcs : List (Bool × Bytes)} {sd : SchemaDoc}
    (hv : ∀ src ∈ srcs, Utf8.valid src.2) (hp : parseSchemas L srcs = .ok sd) : TreeHyps sd := by
  unfold parseSchemas at hp
  obtain ⟨ds, hpf, rfl⟩ := parseSchemasFrom_ok L srcs 0 SchemaDoc.empty sd hp
  exact treeHyps_foldl ds _ treeHyps_empty (parsedFrom_treeHyps L srcs 0 ds hv hpf)

#print axioms parsedSchema_treeHyps
#print axioms parseSchemas_treeHyps

end Gql.EndToEnd
