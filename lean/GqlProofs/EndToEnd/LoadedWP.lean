import GqlProofs.EndToEnd.Loaded
import GqlProofs.EndToEnd.WellParented
/-
  END TO END: the schema-side hypotheses of `wellParented_of_spec` / `wellParented_of_rules`
  (`WPSchema s`) are invariants of loader output.
-/
namespace Gql.EndToEnd
open Gql Gql.Load

/-- `WPSchema` of a loaded schema: the prelude is part of the document, union definitions carry no
    fields (parser), root types are objects (the recorded non-object-root finding) -/
theorem loaded_wpSchema {sd : SchemaDoc} {s : Schema} (h : load sd = .ok s) (hp : PreludeDeclared sd)
    (hku : KindFieldless .union sd) (hroots : Gql.Spec.rootTypesAreObjects s = true) : WPSchema s :=
  { fieldTypes := (loaded_closed h (preludeDeclared_introspection hp)
      (queryRootNotKind_of_rootsObjects h hroots (by decide))).fieldTypes
    string := loaded_declares h (preludeDeclared_introspection hp).string
    unions := loaded_unions_no_fields h hku (queryRootNotKind_of_rootsObjects h hroots (by decide))
    roots := hroots }

#print axioms loaded_wpSchema

end Gql.EndToEnd
