import GqlProofs.EndToEnd.Loaded
import GqlProofs.EndToEnd.WellParented
/-
  END TO END: the schema-side hypotheses of `wellParented_of_spec` / `wellParented_of_rules`
  (`WPSchema s`) are invariants of loader output.
-/
namespace Gql.EndToEnd
open Gql Gql.Load

/-- `WPSchema` of a loaded schema: the prelude is part of the document, union definitions carry no
    fields (parser).  (Root types are objects: an invariant of `load` since the repair of the root kinds.) -/
theorem loaded_wpSchema {sd : SchemaDoc} {s : Schema} (h : load sd = .ok s) (hp : PreludeDeclared sd)
    (hku : KindFieldless .union sd) : WPSchema s :=
  { fieldTypes := (loaded_closed h (preludeDeclared_introspection hp)).fieldTypes
    string := loaded_declares h (preludeDeclared_introspection hp).string
    unions := loaded_unions_no_fields h hku
    roots := loaded_rootTypesAreObjects h }

#print axioms loaded_wpSchema

end Gql.EndToEnd
