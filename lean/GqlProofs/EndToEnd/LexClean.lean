import GqlProofs.Props.C03
import GqlProofs.Json.ParsedClean
import GqlProofs.Parser.Stream
set_option linter.unusedSimpArgs false
set_option linter.unusedVariables false
/-
  END TO END, part 1: the lexer model on well-formed UTF-8 text only hands out token values that are
  well-formed UTF-8 (they are `utf8Encode` of code-point lists, by the lexer = specification
  theorems), hence `sourceCleanB inp = true` / `LexClean inp Cur.init` — the hypothesis that
  `C19_parsed_roundtrip` (and the formatter theorems) still carried — follows from `Utf8.valid inp`.
-/
namespace Gql.EndToEnd
open Gql Gql.Lexer Gql.Lexer.Spec Gql.Json Gql.Parser

/-! ### `utf8Encode` always produces well-formed UTF-8 -/

/-- what `encodeRune` does to a code point that has no encoding -/
def normCp (c : Nat) : Nat := if IsScalar c then c else 0xFFFD

theorem normCp_scalar (c : Nat) : IsScalar (normCp c) := by
  unfold normCp
  split
  · assumption
  · unfold IsScalar; omega

theorem encodeRune_normCp (c : Nat) : encodeRune (normCp c) = encodeRune c := by
  unfold normCp
  split
  · rfl
  · rename_i h
    unfold IsScalar at h
    have h1 : ¬ c < 0x80 := by omega
    have h2 : ¬ c < 0x800 := by omega
    have h3 : ((decide (0xD800 ≤ c) && decide (c ≤ 0xDFFF)) || decide (0x10FFFF < c)) = true := by
      simp only [Bool.or_eq_true, Bool.and_eq_true, decide_eq_true_eq]; omega
    rw [show encodeRune c = [0xEF, 0xBF, 0xBD] by simp only [encodeRune, h1, h2, h3, if_false, if_true]]
    decide

/-- every `utf8Encode v` is the encoding of a list of scalars (surrogates and values beyond
    U+10FFFF are written as U+FFFD) -/
theorem utf8Encode_scalars (v : List Nat) : ∃ cps, AllScalar cps ∧ utf8Encode v = utf8Encode cps := by
  refine ⟨v.map normCp, ?_, ?_⟩
  · intro c hc
    obtain ⟨x, _, rfl⟩ := List.mem_map.mp hc
    exact normCp_scalar x
  · induction v with
    | nil => rfl
    | cons c t ih => rw [List.map_cons, utf8Encode_cons, utf8Encode_cons, ih, encodeRune_normCp]

theorem sanitizeFuel_enc (cps : List Nat) (hs : AllScalar cps) :
    ∀ f, (utf8Encode cps).length ≤ f → sanitizeFuel f (utf8Encode cps) = utf8Encode cps := by
  induction cps with
  | nil => intro f _; cases f <;> rfl
  | cons c t ih =>
    intro f hf
    have hc := AllScalar_head hs
    have ht := AllScalar_tail hs
    by_cases h128 : c < 128
    · rw [utf8Encode_cons_ascii h128] at hf ⊢
      cases f with
      | zero => simp at hf
      | succ f =>
        simp only [List.length_cons] at hf
        have hne : ¬ (c = runeError ∧ 1 ≤ 1) := by unfold runeError; omega
        simp only [sanitizeFuel, decodeRune_ascii c _ h128, hne, if_false, List.take_succ_cons, List.take_zero,
          List.drop_succ_cons, List.drop_zero, List.cons_append, List.nil_append]
        rw [ih ht f (by omega)]
    · have h128' : 128 ≤ c := by omega
      obtain ⟨b0, b1, bt, e, _, _⟩ := encodeRune_high_shape hc h128'
      have hE : utf8Encode (c :: t) = b0 :: (b1 :: bt ++ utf8Encode t) := by
        rw [utf8Encode_cons, e]; rfl
      have hst := high_step hc h128' (utf8Encode t) (b := b0) (tl := b1 :: bt ++ utf8Encode t)
        (by rw [e]; rfl)
      obtain ⟨hb, hd, hdrop, htake, hlen⟩ := hst
      have hlenE : (utf8Encode (c :: t)).length = (encodeRune c).length + (utf8Encode t).length := by
        rw [utf8Encode_cons, List.length_append]
      rw [hE] at hf ⊢
      cases f with
      | zero => simp at hf
      | succ f =>
        have hne : ¬ (c = runeError ∧ (encodeRune c).length ≤ 1) := by omega
        have hdrop' : (b0 :: (b1 :: bt ++ utf8Encode t)).drop (encodeRune c).length = utf8Encode t := by
          have : (encodeRune c).length = ((encodeRune c).length - 1) + 1 := by omega
          rw [this, List.drop_succ_cons, hdrop]
        simp only [sanitizeFuel, hd, hne, if_false]
        rw [htake, hdrop', ih ht f (by rw [← hE, hlenE] at hf; omega), ← hE, utf8Encode_cons]

/-- the UTF-8 coercion of `json.Marshal` fixes every encoded list of scalars -/
theorem sanitize_enc_scalars (cps : List Nat) (hs : AllScalar cps) : sanitize (utf8Encode cps) = utf8Encode cps :=
  sanitizeFuel_enc cps hs _ (Nat.le_refl _)

/-- … hence every `utf8Encode v` -/
theorem sanitize_utf8Encode (v : List Nat) : sanitize (utf8Encode v) = utf8Encode v := by
  obtain ⟨cps, hs, e⟩ := utf8Encode_scalars v
  rw [e]; exact sanitize_enc_scalars cps hs

/-! ### one `ReadToken` step on the encoding of a list of scalars -/

/-- One step of the lexer model on well-formed UTF-8: the token value is `utf8Encode` of a list of
    code points (the specification's token value), the rest is again the encoding of a list of
    scalars, and an EOF token leaves nothing. -/
theorem readToken_enc_step (cps : List Nat) (cur : Cur) (hs : AllScalar cps) {t : Token} {r : Bytes} {c' : Cur}
    (h : readToken (utf8Encode cps) cur = .tok t r c') :
    (∃ v, t.value = utf8Encode v) ∧ (∃ cps', AllScalar cps' ∧ r = utf8Encode cps') ∧ (t.kind = .eof → r = []) := by
  obtain ⟨ign, cps1, e0, hws, _, hH, _⟩ := C03_ws_utf8 cps cur hs
  have hs1 : AllScalar cps1 := by rw [e0] at hs; exact AllScalar_append_right hs
  unfold readToken at h
  rw [hws] at h
  generalize (ws (utf8Encode cps) cur).2 = c1 at h
  have core := step_core_u cps1 c1 hs1 hH
  cases hit : item cps1 with
  | eof =>
    rw [hit] at core
    have core' : cps1 = [] := core
    subst core'
    simp only [utf8Encode_nil, readTokenBody, simpleTok] at h
    injection h with h1 h2 _
    subst h1; subst h2
    exact ⟨⟨[], rfl⟩, ⟨[], AllScalar_nil, rfl⟩, fun _ => rfl⟩
  | ignored n => rw [hit] at core; exact core.elim
  | error =>
    rw [hit] at core
    obtain ⟨e, he⟩ := core
    rw [he] at h; cases h
  | token k v n =>
    rw [hit] at core
    by_cases hk : k = .blockString
    · subst hk
      simp only [CoreOKU, if_true] at core
      obtain ⟨body, raw, nb, rr, rfl, hbb, _, _⟩ := core
      have hsb : AllScalar body := AllScalar_tail (AllScalar_tail (AllScalar_tail hs1))
      have hm := step_block_u body c1 ⟨c1.line, c1.ls, c1.endR + 3, false⟩ hsb ⟨⟨rfl, rfl, rfl⟩, by simp⟩
      rw [hbb] at hm
      obtain ⟨c'', x, e1, _, _, _, e5⟩ := hm
      rw [e5] at h
      injection h with h1 h2 _
      subst h1; subst h2
      have hsr : AllScalar (rr.drop (quoteRun rr)) := by
        rw [e1] at hsb; exact AllScalar_append_right hsb
      refine ⟨?_, ⟨_, hsr, rfl⟩, fun hk => by cases hk⟩
      have hq : utf8Encode (List.replicate (quoteRun rr) 34) = (List.replicate (quoteRun rr) 34 : Bytes) := by
        have hA : Ascii (List.replicate (quoteRun rr) 34) := by
          intro b hb; rw [(List.mem_replicate.mp hb).2]; decide
        have := utf8Encode_ascii_append hA []
        simpa [utf8Encode_nil] using this
      have hsx : AllScalar (normCR raw ++ List.replicate (quoteRun rr) 34) :=
        AllScalar_append (blockBody_scalar hbb hsb)
          (fun b hb => by rw [(List.mem_replicate.mp hb).2]; exact IsScalar_of_lt (by decide))
      refine ⟨Lexer.blockStringValue (normCR raw ++ List.replicate (quoteRun rr) 34), ?_⟩
      show Lexer.blockStringValue ([].reverse ++ utf8Encode (normCR raw) ++ List.replicate (quoteRun rr) 34) = _
      rw [← blockStringValue_enc _ hsx, utf8Encode_append, hq, List.reverse_nil, List.nil_append]
    · simp only [CoreOKU, hk, if_false] at core
      obtain ⟨⟨t', c'', e1, e2, e3, _, _, _, hne⟩, _⟩ := core
      rw [e1] at h
      injection h with h1 h2 _
      subst h1; subst h2
      exact ⟨⟨v, e3⟩, ⟨_, AllScalar_drop n hs1, rfl⟩, fun hk => absurd (e2 ▸ hk) hne⟩

/-! ### the whole source -/

/-- every token the lexer model will ever hand out from the encoding of a list of scalars has a
    well-formed UTF-8 value -/
theorem lexClean_enc (cps : List Nat) (hs : AllScalar cps) (cur : Cur) : LexClean (utf8Encode cps) cur := by
  intro k
  induction k generalizing cps cur with
  | zero => trivial
  | succ k ih =>
    simp only [LexCleanK]
    split
    · rename_i t r c hr
      obtain ⟨⟨v, hv⟩, ⟨cps', hs', rfl⟩, _⟩ := readToken_enc_step cps cur hs hr
      refine ⟨?_, ih cps' hs' c⟩
      unfold TokClean
      rw [hv]; exact sanitize_utf8Encode v
    · trivial

theorem lexCleanB_enc : ∀ (n : Nat) (cps : List Nat) (cur : Cur), AllScalar cps →
    (utf8Encode cps).length + 2 ≤ n → lexCleanB n (utf8Encode cps) cur = true
  | 0, _, _, _, h => by omega
  | n + 1, cps, cur, hs, hn => by
    unfold lexCleanB
    split
    · rfl
    · rename_i t r c hr
      obtain ⟨⟨v, hv⟩, ⟨cps', hs', hr'⟩, heof⟩ := readToken_enc_step cps cur hs hr
      have hclean : sanitize t.value = t.value := by rw [hv]; exact sanitize_utf8Encode v
      simp only [hclean, decide_true, Bool.true_and]
      split
      · rfl
      · rename_i hfix
        have hp := readToken_progress (utf8Encode cps) cur
        rw [hr] at hp
        simp only [Step.progress] at hp
        by_cases hk : t.kind = .eof
        · -- nothing is left: the next step is the EOF fixpoint
          have hr0 := heof hk
          subst hr0
          cases n with
          | zero => omega
          | succ n =>
            unfold lexCleanB
            have : readToken [] c = .tok (Token.mk .eof [] c.endR c.endR c.line (colOf c.endR c.ls)) [] c := by
              simp [readToken, ws, readTokenBody, simpleTok, Cur.adv]
            rw [this]
            simp [sanitize_nil]
        · subst hr'
          exact lexCleanB_enc n cps' c hs' (by have := hp.2 hk; omega)

/-- the lexer model produces only well-formed UTF-8 token values from a well-formed UTF-8 source:
    the executable hypothesis of `C19_parsed_roundtrip` holds -/
theorem valid_source_clean (inp : Bytes) (h : Utf8.valid inp) : sourceCleanB inp = true := by
  unfold Utf8.valid at h
  cases hd : Utf8.decode inp with
  | none => rw [hd] at h; cases h
  | some cps =>
    obtain ⟨h1, h2⟩ := Utf8.decode_sound inp cps hd
    subst h1
    exact lexCleanB_enc _ cps _ h2 (Nat.le_refl _)

/-- the same as a proposition about all tokens ever read, from any cursor -/
theorem valid_source_lexClean (inp : Bytes) (h : Utf8.valid inp) (cur : Cur) : LexClean inp cur := by
  unfold Utf8.valid at h
  cases hd : Utf8.decode inp with
  | none => rw [hd] at h; cases h
  | some cps =>
    obtain ⟨h1, h2⟩ := Utf8.decode_sound inp cps hd
    subst h1
    exact lexClean_enc cps h2 cur

/-! ### the token stream of a well-formed UTF-8 source -/

/-- `utf8Encode v` is well-formed UTF-8 for the strict decoder of C03 -/
theorem utf8Encode_valid (v : List Nat) : Utf8.valid (utf8Encode v) := by
  obtain ⟨cps, hs, e⟩ := utf8Encode_scalars v
  unfold Utf8.valid
  rw [e, Utf8.decode_encode cps hs]; rfl

/-- every token ahead of a lexer state whose remaining input is the encoding of scalars has a value
    that is `utf8Encode` of a list of code points -/
theorem rawS_values_enc (cps : List Nat) (hs : AllScalar cps) (cur : Cur) :
    ∀ t ∈ (rawS (utf8Encode cps) cur).toks, ∃ v, t.value = utf8Encode v := by
  induction hn : (utf8Encode cps).length using Nat.strongRecOn generalizing cps cur with
  | _ n ih =>
    cases h : readToken (utf8Encode cps) cur with
    | err e => rw [rawS_err h]; intro t ht; simp [Stream.toks] at ht
    | tok t rest' c' =>
      rw [rawS_tok h]
      by_cases hk : t.kind = .eof
      · rw [if_pos hk]; intro t ht; simp [Stream.toks] at ht
      · rw [if_neg hk]
        obtain ⟨hv, ⟨cps', hs', rfl⟩, _⟩ := readToken_enc_step cps cur hs h
        have hp := readToken_progress (utf8Encode cps) cur
        rw [h] at hp
        intro u hu
        simp only [Stream.toks, List.mem_cons] at hu
        rcases hu with rfl | hu
        · exact hv
        · exact ih _ (by have := hp.2 hk; omega) cps' hs' c' rfl u hu

/-- every token of a well-formed UTF-8 source has a well-formed UTF-8 value -/
theorem valid_source_token_values (inp : Bytes) (h : Utf8.valid inp) (cur : Cur) :
    ∀ t ∈ (rawS inp cur).toks, Utf8.valid t.value := by
  unfold Utf8.valid at h
  cases hd : Utf8.decode inp with
  | none => rw [hd] at h; cases h
  | some cps =>
    obtain ⟨h1, h2⟩ := Utf8.decode_sound inp cps hd
    subst h1
    intro t ht
    obtain ⟨v, hv⟩ := rawS_values_enc cps h2 cur t ht
    rw [hv]; exact utf8Encode_valid v

end Gql.EndToEnd
