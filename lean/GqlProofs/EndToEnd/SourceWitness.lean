import GqlProofs.EndToEnd.Loaded
import GqlProofs.EndToEnd.Parsed
import GqlProofs.ValSpec.SingleRoot3
import GqlProofs.ValSpec.VarPosition
set_option linter.unusedSimpArgs false
set_option linter.unusedVariables false
/-
  END TO END, part 10: a kernel-checked witness over SOURCE TEXTS.  A (minimal) prelude source and a
  schema source are lexed, parsed, merged and loaded, five request sources are lexed and parsed, and
  the verdicts of the specification and of the validator are computed — all by ONE evaluation in the
  kernel (`check_true`).  `C08.lean` uses it to show that the hypotheses of the final statement of C08
  are satisfiable together (with both sides true and with both sides false) and that each of the two
  residual hypotheses is needed.
-/
namespace Gql.EndToEnd.SourceWitness
open Gql Gql.Lexer Gql.Parser Gql.Load Gql.Validate Gql.Validate.Rules

/-- a minimal prelude: the five built-in scalars, the four built-in directives, the eight introspection types -/
def preludeText : String :=
  "scalar Int scalar Float scalar String scalar Boolean scalar ID directive @include(if: Boolean!) on FIELD directive @skip(if: Boolean!) on FIELD directive @deprecated(reason: String) on ENUM_VALUE directive @specifiedBy(url: String!) on SCALAR type __Schema { types: [__Type!]! } type __Type { kind: __TypeKind! name: String } type __Field { name: String! } type __InputValue { name: String! } type __EnumValue { name: String! } type __Directive { name: String! locations: [__DirectiveLocation!]! } enum __TypeKind { SCALAR } enum __DirectiveLocation { QUERY }"

def schemaText : String :=
  "schema { query: Q subscription: S } interface I { a: Int } type S implements I { a: Int } type O implements I { a: Int } type Q { a: Int f(x: Int): Int g(r: Int! = 5): Int }"

/-- the prelude (`BuiltIn`) and the user's schema source -/
def srcs : List (Bool × Bytes) := [(true, str preludeText), (false, str schemaText)]

/-- valid on both sides -/
def qGood : Bytes := str "query($v: Int) { f(x: $v) ...F } fragment F on Q { a }"
/-- invalid on both sides (`$w` is not defined, `$v` is not used) -/
def qBad : Bytes := str "query($v: Int) { f(x: $w) ...F } fragment F on Q { a }"
/-- a subscription with one root field: valid on both sides -/
def qSubOne : Bytes := str "subscription { ... on I { a } }"
/-- a subscription that collects NO root field (`O` does not apply to the root type `S`): the 27 rules
    report nothing, §5.2.3.1 demands exactly one entry -/
def qSubZero : Bytes := str "subscription { ... on I { ... on O { a } } }"
/-- the recorded finding about VariablesInAllowedPosition: a nullable variable at a non-null location
    WITH a default value — the specification allows it, the rule reports it -/
def qLocDefault : Bytes := str "query($v: Int) { g(r: $v) }"

instance (sd : SchemaDoc) (n : Name) (k : DefKind) : Decidable (DeclaresKind sd n k) := by
  unfold DeclaresKind; infer_instance

def preludeDeclaredB (sd : SchemaDoc) : Bool :=
  decide (∀ n ∈ Gql.Spec.builtinScalars, DeclaresKind sd n .scalar) &&
  decide (∀ p ∈ Gql.Spec.introspectionTypes, DeclaresKind sd p.1 p.2) &&
  decide (∀ n ∈ Gql.Spec.builtinDirectives, ∃ dd ∈ sd.directives, dd.name = n)

theorem preludeDeclared_of_B {sd : SchemaDoc} (h : preludeDeclaredB sd = true) : PreludeDeclared sd := by
  unfold preludeDeclaredB at h
  simp only [Bool.and_eq_true, decide_eq_true_eq] at h
  exact ⟨h.1.1, h.1.2, h.2⟩

/-- every default rule, run alone, reports nothing -/
def silent (s : Schema) (d : QueryDoc) : Bool := defaultRules.all fun r => decide (validate [r] s d = .ok [])

/-- what is computed about one request: `subscriptionsSelectRoot`, `defaultedLocationsHarmless`,
    `Spec.specValid`, VariablesInAllowedPosition silent -/
def verdict (s : Schema) (q : Bytes) : Option (Bool × Bool × Bool × Bool) :=
  match parseQuery 0 q with
  | .ok d => some (subscriptionsSelectRoot s d, defaultedLocationsHarmless s d, Spec.specValid s d,
      decide (validate [variablesInAllowedPosition] s d = .ok []))
  | _ => none

theorem verdict_elim {s : Schema} {q : Bytes} {a b c f : Bool} (h : verdict s q = some (a, b, c, f)) :
    ∃ d, parseQuery 0 q = .ok d ∧ subscriptionsSelectRoot s d = a ∧ defaultedLocationsHarmless s d = b ∧
      Spec.specValid s d = c ∧ decide (validate [variablesInAllowedPosition] s d = .ok []) = f := by
  unfold verdict at h
  split at h
  · rename_i d hd
    injection h with h
    simp only [Prod.mk.injEq] at h
    exact ⟨d, hd, h.1, h.2.1, h.2.2.1, h.2.2.2⟩
  · cases h

/-- all 27 rules, each run alone, report nothing on the request -/
def silentOn (s : Schema) (q : Bytes) : Bool :=
  match parseQuery 0 q with
  | .ok d => silent s d
  | _ => false

/-- the whole computation -/
def check : Bool :=
  (srcs.all fun src => (Utf8.decode src.2).isSome) &&
  match parseSchemas 0 srcs with
  | .ok sd =>
    preludeDeclaredB sd &&
    match load sd with
    | .ok s =>
      verdict s qGood == some (true, true, true, true) &&
      verdict s qBad == some (true, true, false, true) &&
      verdict s qSubOne == some (true, true, true, true) &&
      verdict s qSubZero == some (false, true, false, true) && silentOn s qSubZero &&
      verdict s qLocDefault == some (true, false, true, false)
    | _ => false
  | _ => false


set_option maxRecDepth 100000 in
theorem check_true : check = true := by decide +kernel

#print axioms check_true


end Gql.EndToEnd.SourceWitness
