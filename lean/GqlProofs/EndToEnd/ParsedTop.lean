import GqlProofs.EndToEnd.ParsedShape
import GqlProofs.EndToEnd.TokLex
set_option linter.unusedSimpArgs false
set_option linter.unusedVariables false
/-
  END TO END, part 3: from the program logic to `parseQuery`.  Every document the parser model
  returns is `Formattable` (names are lexer Names, numbers are number lexemes, required selection
  sets are not empty) and the offsets it records for variable usages and fragment definitions are
  pairwise different.
-/
namespace Gql.EndToEnd
open Gql Gql.Lexer Gql.Parser Gql.Format

theorem mem_opsOf {o : OperationDef} : ∀ {defs : List Def}, o ∈ opsOf defs → (.inl o : Def) ∈ defs
  | [], h => by simp [opsOf] at h
  | .inl o' :: r, h => by
    simp only [opsOf, List.mem_cons] at h
    rcases h with rfl | h
    · simp
    · exact List.mem_cons_of_mem _ (mem_opsOf h)
  | .inr f :: r, h => by
    simp only [opsOf] at h
    exact List.mem_cons_of_mem _ (mem_opsOf h)

theorem mem_fragsOf {f : FragmentDef} : ∀ {defs : List Def}, f ∈ fragsOf defs → (.inr f : Def) ∈ defs
  | [], h => by simp [fragsOf] at h
  | .inr f' :: r, h => by
    simp only [fragsOf, List.mem_cons] at h
    rcases h with rfl | h
    · simp
    · exact List.mem_cons_of_mem _ (mem_fragsOf h)
  | .inl o :: r, h => by
    simp only [fragsOf] at h
    exact List.mem_cons_of_mem _ (mem_fragsOf h)

/-- the recorded offsets, operations first, are a permutation of the recorded offsets in source order -/
theorem posDef_perm (defs : List Def) :
    ((opsOf defs).flatMap usesOp ++ (fragsOf defs).flatMap posFrag).Perm (defs.flatMap posDef) := by
  induction defs with
  | nil => simp [opsOf, fragsOf]
  | cons d r ih =>
    cases d with
    | inl o =>
      simp only [opsOf, fragsOf, posDef, List.flatMap_cons, List.append_assoc]
      exact List.Perm.append_left _ ih
    | inr f =>
      simp only [opsOf, fragsOf, posDef, List.flatMap_cons]
      refine List.Perm.trans ?_ (List.Perm.append_left _ ih)
      rw [← List.append_assoc, ← List.append_assoc]
      exact List.Perm.append_right _ List.perm_append_comm

/-- **what the parser model guarantees about every document it returns** (no token limit) -/
theorem parsed_shape0 (inp : Bytes) (doc : QueryDoc) (h : parseQuery 0 inp = .ok doc) :
    Formattable doc ∧ (posDoc doc).Nodup := by
  obtain ⟨hoof, herr, hdoc⟩ := ofRun_ok.1 h
  have hlive : dead (runQuery 0 inp).2 = false := by simp [dead, hoof, herr]
  obtain ⟨raw, eof, hlex, heof, hraw, hsorted, hcount, r, huniq⟩ :=
    run_to_eof (e_parseQueryDocument (fuelFor inp)) 0 inp hlive
      (fun _ _ _ ⟨_, used, h1, h2, h3, _⟩ => ⟨used, h1, h2, h3⟩)
  obtain ⟨defs, used, hate, hpk, hk, hops, hfrags, hm⟩ := r
  -- the consumed tokens are the significant tokens of the source
  have hne0 : (abs (PState.init 0 inp)).σ.NoEof := abs_noEof (WF.init 0 inp)
  obtain ⟨t, ht⟩ := (hate.noEof hne0).eof_of_head hk
  have hσ := hate.σ
  rw [abs_init, ht] at hσ
  simp only at hσ
  have hused : (rawS inp Cur.init).sig.toks = used := by
    rw [hσ, Stream.toks_app]; simp [Stream.toks]
  have hlexAll : ∀ t ∈ used, TokLex t := by rw [← hused]; exact sig_toks_tokLex inp Cur.init
  have hnodup : (starts used).Nodup := by
    unfold starts; rw [← hused]; exact sig_toks_start_nodup inp Cur.init
  have hops' : doc.ops = opsOf defs := by rw [← hdoc]; simpa [runQuery] using hops
  have hfrags' : doc.frags = fragsOf defs := by rw [← hdoc]; simpa [runQuery] using hfrags
  have o := many_out hm
  have hok := o.lex hlexAll
  constructor
  · unfold Formattable docOk
    rw [Bool.and_eq_true, List.all_eq_true, List.all_eq_true, hops', hfrags']
    exact ⟨fun o ho => hok _ (mem_opsOf ho), fun f hf => hok _ (mem_fragsOf hf)⟩
  · unfold posDoc
    rw [hops', hfrags', (posDef_perm defs).nodup_iff]
    exact hnodup.sublist o.pos

/-- … under any token limit (a parse that succeeds under a limit is the unlimited parse) -/
theorem parsed_shape (L : Nat) (inp : Bytes) (doc : QueryDoc) (h : parseQuery L inp = .ok doc) :
    Formattable doc ∧ (posDoc doc).Nodup :=
  parsed_shape0 inp doc (ofRun_mono (stricter_zero L) _ _ doc h)

theorem parsed_formattable (L : Nat) (inp : Bytes) (doc : QueryDoc) (h : parseQuery L inp = .ok doc) :
    Formattable doc := (parsed_shape L inp doc h).1

theorem parsed_posDoc_nodup (L : Nat) (inp : Bytes) (doc : QueryDoc) (h : parseQuery L inp = .ok doc) :
    (posDoc doc).Nodup := (parsed_shape L inp doc h).2

#print axioms parsed_shape

end Gql.EndToEnd
