import GqlProofs.EndToEnd.DocPositions
import GqlProofs.Validate.OverlapIds
set_option linter.unusedSimpArgs false
set_option linter.unusedVariables false
/-
  END TO END, part 9: node identity of SELECTION nodes.  A second traversal of the query parser model
  in the program logic of `GqlProofs/Parser/Spec.lean`: the start offsets a parsed subtree records for
  its selection nodes (`nodeStarts`: a field records the offset of its first name token, a fragment
  spread that of the fragment name, an inline fragment that of the token after `...`) form a SUBLIST of
  the start offsets of the consumed tokens, in order.  The significant tokens of a source start at
  strictly increasing offsets, hence the selection nodes of a parsed document start at pairwise
  different offsets (`parsed_nodeStarts_nodup`), and in particular so do the first nodes of its
  selection sets: `parsed_setStartsNodup`, the node identity assumption `SetStartsNodup` of the
  OverlappingFieldsCanBeMerged model, for every parser output.
-/
namespace Gql.EndToEnd
open Gql Gql.Lexer Gql.Parser Gql.Format Gql.Validate

mutual
  /-- the start offsets of all selection nodes of a selection, in source order -/
  def nodeStartsSel : Selection → List Nat
    | .field _ _ _ _ sub p => p.start :: nodeStarts sub
    | .spread _ _ p => [p.start]
    | .inline _ _ sub p => p.start :: nodeStarts sub
  def nodeStarts : Selections → List Nat
    | .nil => []
    | .cons x rest => nodeStartsSel x ++ nodeStarts rest
end

/-- all selection nodes of a document -/
def nodeStartsDoc (d : QueryDoc) : List Nat :=
  d.ops.flatMap (fun op => nodeStarts op.sel) ++ d.frags.flatMap (fun f => nodeStarts f.sel)

/-! ### the first nodes of the selection sets are among the selection nodes -/

mutual
  theorem setStarts_sub : ∀ sels : Selections, (setStarts sels).Sublist (nodeStarts sels)
    | .nil => by simp [setStarts, nodeStarts]
    | .cons x rest => by
      cases x with
      | field al nm args ds sub p =>
        simp only [setStarts, nodeStarts, nodeStartsSel, innerStartsSel, List.cons_append]
        exact List.Sublist.cons_cons _ (List.Sublist.append (setStarts_sub sub) (innerStarts_sub rest))
      | spread nm ds p =>
        simp only [setStarts, nodeStarts, nodeStartsSel, innerStartsSel, List.cons_append, List.nil_append]
        exact List.Sublist.cons_cons _ (innerStarts_sub rest)
      | inline tc ds sub p =>
        simp only [setStarts, nodeStarts, nodeStartsSel, innerStartsSel, List.cons_append]
        exact List.Sublist.cons_cons _ (List.Sublist.append (setStarts_sub sub) (innerStarts_sub rest))
  theorem innerStarts_sub : ∀ sels : Selections, (innerStarts sels).Sublist (nodeStarts sels)
    | .nil => by simp [innerStarts, nodeStarts]
    | .cons x rest => by
      cases x with
      | field al nm args ds sub p =>
        simp only [innerStarts, nodeStarts, nodeStartsSel, innerStartsSel, List.cons_append]
        exact List.Sublist.cons _ (List.Sublist.append (setStarts_sub sub) (innerStarts_sub rest))
      | spread nm ds p =>
        simp only [innerStarts, nodeStarts, nodeStartsSel, innerStartsSel, List.cons_append, List.nil_append]
        exact List.Sublist.cons _ (innerStarts_sub rest)
      | inline tc ds sub p =>
        simp only [innerStarts, nodeStarts, nodeStartsSel, innerStartsSel, List.cons_append]
        exact List.Sublist.cons _ (List.Sublist.append (setStarts_sub sub) (innerStarts_sub rest))
end

theorem setStartsNodup_of_nodeStarts {d : QueryDoc} (h : (nodeStartsDoc d).Nodup) : SetStartsNodup d := by
  unfold SetStartsNodup
  refine h.sublist ?_
  unfold nodeStartsDoc
  exact List.Sublist.append (flatMap_sublist (fun op => setStarts_sub op.sel) d.ops)
    (flatMap_sublist (fun f => setStarts_sub f.sel) d.frags)

/-! ### list helpers -/

theorem starts_append (u v : List Token) : starts (u ++ v) = starts u ++ starts v := by
  unfold starts; rw [List.map_append]

theorem sub_tail {ps : List Nat} {u : List Token} (h : ps.Sublist (starts u.tail)) : ps.Sublist (starts u) := by
  cases u with
  | nil => exact h
  | cons t r => exact List.Sublist.cons _ h

theorem sub_right {ps : List Nat} {v : List Token} (u : List Token) (h : ps.Sublist (starts v)) :
    ps.Sublist (starts (u ++ v)) := by
  rw [starts_append]; exact h.trans (List.sublist_append_right _ _)

theorem sub_left {ps : List Nat} {u : List Token} (v : List Token) (h : ps.Sublist (starts u)) :
    ps.Sublist (starts (u ++ v)) := by
  rw [starts_append]; exact h.trans (List.sublist_append_left _ _)

/-- the start of the first consumed token in front of offsets recorded behind the first token of the
    second part -/
theorem head_cons_sub {ps : List Nat} {u2 : List Token} (h : ps.Sublist (starts u2.tail)) (hne : u2 ≠ []) :
    ∀ u1 : List Token, ∃ hd r, u1 ++ u2 = hd :: r ∧ (hd.start :: ps).Sublist (starts (u1 ++ u2))
  | [] => by
    cases u2 with
    | nil => exact absurd rfl hne
    | cons t r => exact ⟨t, r, rfl, List.Sublist.cons_cons _ h⟩
  | t :: r1 => ⟨t, r1 ++ u2, rfl, List.Sublist.cons_cons _ (sub_right r1 (sub_tail h))⟩

theorem many_sub {α : Type} {P : α → List Token → Prop} {ps : α → List Nat}
    (hP : ∀ x u, P x u → (ps x).Sublist (starts u)) {xs : List α} {mid : List Token}
    (h : Many P xs mid) : (xs.flatMap ps).Sublist (starts mid) := by
  induction h with
  | nil => simp
  | @cons x xs u us hx _ ih =>
    rw [List.flatMap_cons, starts_append]
    exact List.Sublist.append (hP _ _ hx) ih

theorem bracketed_sub {α : Type} {P : α → List Token → Prop} {ps : α → List Nat}
    (hP : ∀ x u, P x u → (ps x).Sublist (starts u)) {start stop : Kind} {xs : List α} {a a' : AS}
    (hb : Bracketed P start stop xs a a') :
    ∃ u, Ate a a' u ∧ (xs.flatMap ps).Sublist (starts u.tail) ∧ (a.σ.head.kind = start → u ≠ []) := by
  rcases hb with ⟨rfl, hk, rfl⟩ | ⟨_, u, hu, t1, mid, t2, rfl, _, _, _, _, hm⟩
  · exact ⟨[], Ate.peeked a, by simp, fun h => absurd h hk⟩
  · refine ⟨_, hu, ?_, fun _ => by simp⟩
    show (xs.flatMap ps).Sublist (starts (mid ++ [t2]))
    exact sub_left [t2] (many_sub hP hm)

/-! ### selections -/

def QSel (x : Selection) (u : List Token) : Prop := (nodeStartsSel x).Sublist (starts u)

/-- a bracketed selection set: the recorded offsets lie behind the opening brace -/
def QSelSet (ss : Selections) (u : List Token) : Prop := u ≠ [] ∧ (nodeStarts ss).Sublist (starts u.tail)

theorem nodeStarts_ofList : ∀ xs : List Selection, nodeStarts (Selections.ofList xs) = xs.flatMap nodeStartsSel
  | [] => by simp [Selections.ofList, nodeStarts]
  | s :: rest => by simp [Selections.ofList, nodeStarts, nodeStarts_ofList rest]

theorem qselSet_of_bracket {xs : List Selection} {a a' : AS} (hb : Bracketed QSel .braceL .braceR xs a a')
    (hk : a.σ.head.kind = .braceL) : Eats QSelSet (Selections.ofList xs) a a' := by
  obtain ⟨u, hu, hs, hne⟩ := bracketed_sub (ps := nodeStartsSel) (fun _ _ h => h) hb
  exact ⟨u, hu, hne hk, by rw [nodeStarts_ofList]; exact hs⟩

theorem f_optSelSet {sel : Prog Selection} (hsel : Spec sel (Eats QSel)) (n : Nat) :
    Spec (parseOptionalSelectionSetWith sel n) (fun ss a a' => a.σ.head.kind = .braceL → Eats QSelSet ss a a') := by
  unfold parseOptionalSelectionSetWith
  refine (Spec.bind (spec_pSome .braceL .braceR (by decide) (by decide) (by decide) (by decide) n hsel)
    fun xs => Spec.pure (Selections.ofList xs)).mono ?_
  rintro ss a a'' _ ⟨xs, a1, ⟨hb, hne⟩, rfl, rfl⟩ hk
  exact qselSet_of_bracket hb hk

theorem f_reqSelSet {sel : Prog Selection} (hsel : Spec sel (Eats QSel)) (n : Nat) :
    Spec (parseRequiredSelectionSetWith sel n) (Eats QSelSet) := by
  unfold parseRequiredSelectionSetWith
  refine (Spec.bind spec_peek fun t => Spec.ite
    (fun _ => Spec.bind spec_peek fun _ => Spec.bind spec_peek fun _ =>
        Spec.of_dead_bind (R := fun _ _ _ => False) (failAt_dead _ _))
    (fun _ => Spec.bind (spec_pSome .braceL .braceR (by decide) (by decide) (by decide) (by decide) n hsel)
      fun xs => Spec.pure (Selections.ofList xs))).mono ?_
  rintro ss a a'' _ ⟨t, a1, ⟨rfl, rfl⟩, ⟨_, _, _, _, _, _, _, hf⟩ | ⟨hk, xs, a2, ⟨hb, hne⟩, rfl, rfl⟩⟩
  · exact hf.elim
  · simp only [ne_eq, Decidable.not_not] at hk
    obtain ⟨u, hu, p⟩ := qselSet_of_bracket hb hk
    exact ⟨u, (Ate.peeked a).trans hu, p⟩

theorem f_fieldTail {sel : Prog Selection} (hsel : Spec sel (Eats QSel)) (n : Nat) (pos : Pos) (al nm : Name) :
    Spec (fieldTail sel n pos al nm) (Eats fun s u => ∃ args ds ss, s = .field al nm args ds ss pos ∧
      (nodeStarts ss).Sublist (starts u)) := by
  unfold fieldTail
  refine (Spec.bind (e_parseArguments n false) fun args => Spec.bind (e_parseDirectives n false) fun dirs =>
    Spec.bind spec_peek fun t => Spec.ite
      (fun _ => Spec.bind (f_optSelSet hsel n) fun ss => Spec.pure _)
      (fun _ => Spec.bind (Spec.pure Selections.nil) fun ss => Spec.pure _)).mono ?_
  rintro s a a'' _ ⟨args, a1, ⟨u1, h1, p1⟩, dirs, a2, ⟨u2, h2, p2⟩, t, a3, ⟨rfl, rfl⟩,
    ⟨hk, ss, a4, hss, rfl, rfl⟩ | ⟨hk, ss, a4, ⟨rfl, rfl⟩, rfl, rfl⟩⟩
  · obtain ⟨u3, h3, _, q2⟩ := hss hk
    exact ⟨_, h1.trans (h2.trans ((Ate.peeked a2).trans h3)), args, dirs, ss, rfl,
      sub_right u1 (sub_right u2 (sub_right [] (sub_tail q2)))⟩
  · exact ⟨_, h1.trans (h2.trans (Ate.peeked a2)), args, dirs, .nil, rfl, by simp [nodeStarts]⟩

theorem f_parseFieldWith {sel : Prog Selection} (hsel : Spec sel (Eats QSel)) (n : Nat) :
    Spec (parseFieldWith sel n) (Eats QSel) := by
  rw [parseFieldWith_eq]
  refine (Spec.bind spec_peekPos fun pos => Spec.bind spec_parseName' fun al =>
    Spec.bind (spec_skipP .colon (by decide) (by decide) rfl) fun b => Spec.ite
      (fun _ => Spec.bind spec_parseName' fun nm => f_fieldTail hsel n pos al nm)
      (fun _ => f_fieldTail hsel n pos al al)).mono ?_
  rintro s a a'' _ ⟨pos, a1, ⟨rfl, hpos⟩, al, a2, ⟨u1, h1, t1, rfl, k1, rfl, _⟩, b, a3, hs,
    ⟨hb, nm, a4, ⟨u2, h2, t2, rfl, k2, rfl, _⟩, u3, h3, args, ds, ss, rfl, q⟩ |
    ⟨hb, u3, h3, args, ds, ss, rfl, q⟩⟩
  · have hstart : pos.start = t1.start := by rw [hpos]; exact congrArg Token.start h1.head
    rcases hs with ⟨_, _, u0, h0, _⟩ | ⟨rfl, _⟩
    · refine ⟨_, (Ate.peeked a).trans (h1.trans (h0.trans (h2.trans h3))), ?_⟩
      unfold QSel
      simp only [nodeStartsSel, hstart, List.nil_append, List.cons_append]
      exact List.Sublist.cons_cons _ (sub_right u0 (sub_right [t2] q))
    · simp at hb
  · have hstart : pos.start = t1.start := by rw [hpos]; exact congrArg Token.start h1.head
    rcases hs with ⟨rfl, _⟩ | ⟨_, _, rfl⟩
    · simp at hb
    · refine ⟨_, (Ate.peeked a).trans (h1.trans ((Ate.peeked a2).trans h3)), ?_⟩
      unfold QSel
      simp only [nodeStartsSel, hstart, List.nil_append, List.cons_append]
      exact List.Sublist.cons_cons _ q

theorem f_inlineTail {sel : Prog Selection} (hsel : Spec sel (Eats QSel)) (n : Nat) (pos : Pos) (tc : Name) :
    Spec (inlineTail sel n pos tc) (Eats fun s u => ∃ ds ss, s = .inline tc ds ss pos ∧
      ∃ hd r, u = hd :: r ∧ (hd.start :: nodeStarts ss).Sublist (starts u)) := by
  unfold inlineTail
  refine (Spec.bind (e_parseDirectives n false) fun dirs =>
    Spec.bind (f_reqSelSet hsel n) fun ss => Spec.pure _).mono ?_
  rintro s a a'' _ ⟨dirs, a1, ⟨u1, h1, p1⟩, ss, a2, ⟨u2, h2, p2⟩, rfl, rfl⟩
  exact ⟨_, h1.trans h2, dirs, ss, rfl, head_cons_sub p2.2 p2.1 u1⟩

theorem f_parseFragmentWith {sel : Prog Selection} (hsel : Spec sel (Eats QSel)) (n : Nat) :
    Spec (parseFragmentWith sel n) (Eats QSel) := by
  rw [parseFragmentWith_eq]
  refine (Spec.bind (spec_expect .spread (by decide) (by decide)) fun _ => Spec.bind spec_peek fun pk => Spec.ite
    (fun _ => Spec.bind spec_peekPos fun pos => Spec.bind e_parseFragmentName fun name =>
      Spec.bind (e_parseDirectives n false) fun dirs => Spec.pure _)
    (fun _ => Spec.bind spec_peekPos fun pos => Spec.bind spec_peek fun t => Spec.ite
      (fun _ => Spec.bind spec_next fun _ => Spec.bind spec_parseName' fun tc => f_inlineTail hsel n pos tc)
      (fun _ => f_inlineTail hsel n pos []))).mono ?_
  rintro s a a'' hne ⟨_, a1, ⟨u1, h1, _⟩, pk, a2, ⟨rfl, rfl⟩,
    ⟨_, pos, a3, ⟨rfl, hpos⟩, name, a4, ⟨u2, h2, t2, rfl, k2, rfl⟩, dirs, a5, ⟨u3, h3, p3⟩, rfl, rfl⟩ |
    ⟨_, pos, a3, ⟨rfl, hpos⟩, t, a4, ⟨rfl, rfl⟩,
      ⟨hk, tn, a5, hn, tc, a6, ⟨u2, h2, t2, rfl, k2, rfl, _⟩, u3, h3, ds, ss, rfl, hd, r, hu, q⟩ |
      ⟨hk, u3, h3, ds, ss, rfl, hd, r, hu, q⟩⟩⟩
  · have hstart : pos.start = t2.start := by rw [hpos]; exact congrArg Token.start h2.head
    refine ⟨_, h1.trans ((Ate.peeked a1).trans ((Ate.peeked _).trans (h2.trans h3))), ?_⟩
    unfold QSel
    simp only [nodeStartsSel, hstart]
    exact sub_right u1 (sub_right [] (sub_right [] (sub_left u3 (by simp [starts]))))
  · have hne1 : a1.σ.NoEof := h1.noEof hne
    obtain ⟨e1, e2, e3⟩ := next_eats (a := { a1 with pk := true }) (k := .name) hne1 rfl hk.1 (by decide) (by decide) hn
    have hstart : pos.start = tn.start := by rw [hpos, e1]
    refine ⟨_, h1.trans ((Ate.peeked a1).trans (e2.trans (h2.trans h3))), ?_⟩
    unfold QSel
    simp only [nodeStartsSel, hstart]
    refine sub_right u1 (sub_right [] ?_)
    have q' : (nodeStarts ss).Sublist (starts u3) := (List.sublist_cons_self _ _).trans q
    simp only [List.cons_append, List.nil_append]
    exact List.Sublist.cons_cons _ (sub_right [t2] q')
  · subst hu
    have hstart : pos.start = hd.start := by rw [hpos]; exact congrArg Token.start h3.head
    refine ⟨_, h1.trans ((Ate.peeked a1).trans h3), ?_⟩
    unfold QSel
    simp only [nodeStartsSel, hstart]
    exact sub_right u1 (sub_right [] q)

theorem f_parseSelection : ∀ n, Spec (parseSelection n) (Eats QSel)
  | 0 => Spec.of_dead (outOfFuel_dead _)
  | n + 1 => by
    have ih := f_parseSelection n
    unfold parseSelection
    refine (Spec.bind spec_peek fun t => Spec.ite (fun _ => f_parseFragmentWith ih (n + 1))
      (fun _ => f_parseFieldWith ih (n + 1))).mono ?_
    rintro s a a'' _ ⟨t, a1, ⟨rfl, rfl⟩, ⟨_, u, h, p⟩ | ⟨_, u, h, p⟩⟩
    · exact ⟨u, (Ate.peeked a).trans h, p⟩
    · exact ⟨u, (Ate.peeked a).trans h, p⟩

theorem f_parseRequiredSelectionSet (n : Nat) : Spec (parseRequiredSelectionSet n) (Eats QSelSet) :=
  f_reqSelSet (f_parseSelection n) n

/-! ### definitions -/

def QOp (o : OperationDef) (u : List Token) : Prop := (nodeStarts o.sel).Sublist (starts u)

theorem f_opTail (n : Nat) (pos : Pos) (op : Operation) (name : Name) :
    Spec (opTail n pos op name) (Eats fun o u => ∃ vars dirs ss,
      o = { op := op, name := name, vars := vars, dirs := dirs, sel := ss, pos := pos } ∧
      (nodeStarts ss).Sublist (starts u)) := by
  unfold opTail
  refine (Spec.bind (e_parseVariableDefinitions n) fun vars => Spec.bind (e_parseDirectives n false) fun dirs =>
    Spec.bind (f_parseRequiredSelectionSet n) fun ss => Spec.pure _).mono ?_
  rintro o a a'' _ ⟨vars, a1, ⟨u1, h1, p1⟩, dirs, a2, ⟨u2, h2, p2⟩, ss, a3, ⟨u3, h3, p3⟩, rfl, rfl⟩
  exact ⟨_, h1.trans (h2.trans h3), vars, dirs, ss, rfl, sub_right u1 (sub_right u2 (sub_tail p3.2))⟩

theorem f_parseOperationDefinition (n : Nat) : Spec (parseOperationDefinition n) (Eats QOp) := by
  rw [parseOperationDefinition_eq]
  refine (Spec.bind spec_peek fun t => Spec.ite
    (fun _ => Spec.bind spec_peekPos fun pos => Spec.bind (f_parseRequiredSelectionSet n) fun ss => Spec.pure _)
    (fun _ => Spec.bind spec_peekPos fun pos => Spec.bind spec_parseOperationType fun op => Spec.bind spec_peek fun t2 =>
      Spec.ite (fun _ => Spec.bind spec_next fun tn => f_opTail n pos op tn.value)
        (fun _ => f_opTail n pos op []))).mono ?_
  rintro o a a'' hne ⟨t, a1, ⟨rfl, rfl⟩,
    ⟨hk, pos, a2, ⟨rfl, hpos⟩, ss, a3, ⟨u1, h1, p1⟩, rfl, rfl⟩ |
    ⟨hk, pos, a2, ⟨rfl, hpos⟩, op, a3, hop, t2, a4, ⟨rfl, rfl⟩,
      ⟨hk2, tn, a5, hn, u3, h3, vars, dirs, ss, rfl, q⟩ |
      ⟨hk2, u3, h3, vars, dirs, ss, rfl, q⟩⟩⟩
  · exact ⟨_, (Ate.peeked a).trans ((Ate.peeked _).trans h1), sub_right [] (sub_right [] (sub_tail p1.2))⟩
  · obtain ⟨t1, e1, e2, e3⟩ := hop rfl
    have hne3 : a3.σ.NoEof := e1.noEof hne
    obtain ⟨f1, f2, f3⟩ := next_eats (a := { a3 with pk := true }) (k := .name) hne3 rfl hk2 (by decide) (by decide) hn
    exact ⟨_, (Ate.peeked a).trans ((Ate.peeked _).trans (e1.trans ((Ate.peeked a3).trans (f2.trans h3)))),
      sub_right [] (sub_right [] (sub_right [t1] (sub_right [] (sub_right [tn] q))))⟩
  · obtain ⟨t1, e1, e2, e3⟩ := hop rfl
    exact ⟨_, (Ate.peeked a).trans ((Ate.peeked _).trans (e1.trans ((Ate.peeked a3).trans h3))),
      sub_right [] (sub_right [] (sub_right [t1] (sub_right [] q)))⟩

def QFrag (f : FragmentDef) (u : List Token) : Prop := (nodeStarts f.sel).Sublist (starts u)

theorem f_parseFragmentDefinition (n : Nat) : Spec (parseFragmentDefinition n) (Eats QFrag) := by
  unfold parseFragmentDefinition
  refine (Spec.bind spec_peekPos fun pos => Spec.bind (spec_expectKeyword kwFragment) fun _ =>
    Spec.bind e_parseFragmentName fun name => Spec.bind (e_parseVariableDefinitions n) fun vars =>
    Spec.bind (spec_expectKeyword kwOn) fun _ => Spec.bind spec_parseName' fun tc =>
    Spec.bind (e_parseDirectives n false) fun dirs => Spec.bind (f_parseRequiredSelectionSet n) fun ss =>
    Spec.pure _).mono ?_
  rintro f a a'' _ ⟨pos, a1, ⟨rfl, hpos⟩, tf, a2, ⟨u1, h1, rfl, k1, v1⟩, name, a3, ⟨u2, h2, t2, rfl, k2, rfl⟩, vars, a4,
    ⟨u3, h3, p3⟩, ton, a5, ⟨u4, h4, rfl, k4, v4⟩, tc, a6, ⟨u5, h5, t5, rfl, k5, rfl, _⟩, dirs, a7, ⟨u6, h6, p6⟩, ss, a8,
    ⟨u7, h7, p7⟩, rfl, rfl⟩
  exact ⟨_, (Ate.peeked a).trans (h1.trans (h2.trans (h3.trans (h4.trans (h5.trans (h6.trans h7)))))),
    sub_right [] (sub_right [tf] (sub_right [t2] (sub_right u3 (sub_right [ton] (sub_right [t5] (sub_right u6 (sub_tail p7.2)))))))⟩

/-! ### the document -/

def nodeStartsDef : Def → List Nat
  | .inl o => nodeStarts o.sel
  | .inr f => nodeStarts f.sel

def QDef (d : Def) (u : List Token) : Prop := (nodeStartsDef d).Sublist (starts u)

def DocRelQ (doc : QueryDoc) : QueryDoc → AS → AS → Prop := fun d a a' =>
  ∃ defs used, Ate a a' used ∧ a'.pk = true ∧ a'.σ.head.kind = .eof ∧
    d.ops = doc.ops ++ opsOf defs ∧ d.frags = doc.frags ++ fragsOf defs ∧ Many QDef defs used

theorem DocRelQ.cons_op {doc d : QueryDoc} {od : OperationDef} {a a1 a' : AS}
    (h1 : Eats QOp od a a1) (h2 : DocRelQ { doc with ops := doc.ops ++ [od] } d a1 a') : DocRelQ doc d a a' := by
  obtain ⟨u, hu, p⟩ := h1
  obtain ⟨defs, used, g1, g2, g3, g4, g5, g6⟩ := h2
  exact ⟨.inl od :: defs, u ++ used, hu.trans g1, g2, g3, by simpa [opsOf] using g4, by simpa [fragsOf] using g5,
    .cons (x := (.inl od : Def)) p g6⟩

theorem DocRelQ.cons_frag {doc d : QueryDoc} {fd : FragmentDef} {a a1 a' : AS}
    (h1 : Eats QFrag fd a a1) (h2 : DocRelQ { doc with frags := doc.frags ++ [fd] } d a1 a') : DocRelQ doc d a a' := by
  obtain ⟨u, hu, p⟩ := h1
  obtain ⟨defs, used, g1, g2, g3, g4, g5, g6⟩ := h2
  exact ⟨.inr fd :: defs, u ++ used, hu.trans g1, g2, g3, by simpa [opsOf] using g4, by simpa [fragsOf] using g5,
    .cons (x := (.inr fd : Def)) p g6⟩

theorem DocRelQ.peeked {doc d : QueryDoc} {a a' : AS} (h : DocRelQ doc d { a with pk := true } a') : DocRelQ doc d a a' := by
  obtain ⟨defs, used, g1, g⟩ := h
  exact ⟨defs, used, by simpa using (Ate.peeked a).trans g1, g⟩

theorem f_queryDocLoop (m : Nat) : ∀ (n : Nat) (doc : QueryDoc), Spec (queryDocLoop m n doc) (DocRelQ doc)
  | 0, doc => Spec.of_dead (outOfFuel_dead _)
  | n + 1, doc => by
    have ih := f_queryDocLoop m n
    unfold queryDocLoop
    refine (Spec.bind spec_peek fun t => Spec.ite
      (fun _ => Spec.bind spec_hasErr fun e => Spec.ite (fun _ => Spec.pure doc)
        (fun _ => Spec.bind spec_peekPos fun _ => Spec.bind spec_peek fun t1 =>
          (?_ : Spec _ (fun d a a' => a.σ.head = t1 → DocRelQ doc d a a'))))
      (fun _ => Spec.pure doc)).mono ?_
    · split
      · rename_i hk
        refine (Spec.bind spec_peek fun t2 => Spec.ite
          (fun _ => Spec.bind (f_parseOperationDefinition m) fun od => ih _)
          (fun _ => Spec.ite (fun _ => Spec.bind (f_parseFragmentDefinition m) fun fd => ih _)
            (fun _ => Spec.of_dead_bind (R := fun _ _ _ => False) unexpectedError_dead))).mono ?_
        rintro d a a'' _ ⟨t2, a1, ⟨rfl, rfl⟩, ⟨_, od, a2, hod, hrest⟩ | ⟨_, ⟨_, fd, a2, hfd, hrest⟩ | ⟨_, hf⟩⟩⟩ hh
        · exact DocRelQ.peeked (DocRelQ.cons_op hod hrest)
        · exact DocRelQ.peeked (DocRelQ.cons_frag hfd hrest)
        · exact hf.elim
      · rename_i hk
        refine (Spec.bind (f_parseOperationDefinition m) fun od => ih _).mono ?_
        rintro d a a'' _ ⟨od, a2, hod, hrest⟩ hh
        exact DocRelQ.cons_op hod hrest
      · exact Spec.of_dead_bind unexpectedError_dead
    · rintro d a a'' _ ⟨t, a1, ⟨rfl, rfl⟩, ⟨_, e, a2, ⟨rfl, rfl⟩, ⟨he, _⟩ | ⟨_, _, a3, ⟨rfl, _⟩, t1, a4, ⟨rfl, rfl⟩, h⟩⟩ |
        ⟨hk, rfl, rfl⟩⟩
      · cases he
      · exact DocRelQ.peeked (DocRelQ.peeked (DocRelQ.peeked (h rfl)))
      · simp only [ne_eq, Decidable.not_not] at hk
        exact ⟨[], [], Ate.peeked a, rfl, hk, by simp [opsOf], by simp [fragsOf], .nil⟩

theorem f_parseQueryDocument (n : Nat) : Spec (parseQueryDocument n) (DocRelQ { ops := [], frags := [] }) :=
  f_queryDocLoop n n _

/-- the recorded offsets, operations first, are a permutation of the recorded offsets in source order -/
theorem nodeStartsDef_perm (defs : List Def) :
    ((opsOf defs).flatMap (fun op => nodeStarts op.sel) ++ (fragsOf defs).flatMap (fun f => nodeStarts f.sel)).Perm
      (defs.flatMap nodeStartsDef) := by
  induction defs with
  | nil => simp [opsOf, fragsOf]
  | cons d r ih =>
    cases d with
    | inl o =>
      simp only [opsOf, fragsOf, nodeStartsDef, List.flatMap_cons, List.append_assoc]
      exact List.Perm.append_left _ ih
    | inr f =>
      simp only [opsOf, fragsOf, nodeStartsDef, List.flatMap_cons]
      refine List.Perm.trans ?_ (List.Perm.append_left _ ih)
      rw [← List.append_assoc, ← List.append_assoc]
      exact List.Perm.append_right _ List.perm_append_comm

/-- **the selection nodes of a parsed document start at pairwise different offsets** (no token limit) -/
theorem parsed_nodeStarts_nodup0 (inp : Bytes) (doc : QueryDoc) (h : parseQuery 0 inp = .ok doc) :
    (nodeStartsDoc doc).Nodup := by
  obtain ⟨hoof, herr, hdoc⟩ := ofRun_ok.1 h
  have hlive : dead (runQuery 0 inp).2 = false := by simp [dead, hoof, herr]
  obtain ⟨raw, eof, hlex, heof, hraw, hsorted, hcount, r, huniq⟩ :=
    run_to_eof (f_parseQueryDocument (fuelFor inp)) 0 inp hlive
      (fun _ _ _ ⟨_, used, h1, h2, h3, _⟩ => ⟨used, h1, h2, h3⟩)
  obtain ⟨defs, used, hate, hpk, hk, hops, hfrags, hm⟩ := r
  have hne0 : (abs (PState.init 0 inp)).σ.NoEof := abs_noEof (WF.init 0 inp)
  obtain ⟨t, ht⟩ := (hate.noEof hne0).eof_of_head hk
  have hσ := hate.σ
  rw [abs_init, ht] at hσ
  simp only at hσ
  have hused : (rawS inp Cur.init).sig.toks = used := by
    rw [hσ, Stream.toks_app]; simp [Stream.toks]
  have hnodup : (starts used).Nodup := by
    unfold starts; rw [← hused]; exact sig_toks_start_nodup inp Cur.init
  have hops' : doc.ops = opsOf defs := by rw [← hdoc]; simpa [runQuery] using hops
  have hfrags' : doc.frags = fragsOf defs := by rw [← hdoc]; simpa [runQuery] using hfrags
  unfold nodeStartsDoc
  rw [hops', hfrags', (nodeStartsDef_perm defs).nodup_iff]
  exact hnodup.sublist (many_sub (fun _ _ h => h) hm)

/-- … under any token limit -/
theorem parsed_nodeStarts_nodup {L : Nat} {inp : Bytes} {d : QueryDoc} (h : parseQuery L inp = .ok d) :
    (nodeStartsDoc d).Nodup :=
  parsed_nodeStarts_nodup0 inp d (ofRun_mono (stricter_zero L) _ _ d h)

/-- **the node identity assumption of the OverlappingFieldsCanBeMerged model holds for every parsed
    document**: the first nodes of its non-empty selection sets start at pairwise different offsets -/
theorem parsed_setStartsNodup {L : Nat} {inp : Bytes} {d : QueryDoc} (h : parseQuery L inp = .ok d) :
    SetStartsNodup d :=
  setStartsNodup_of_nodeStarts (parsed_nodeStarts_nodup h)

#print axioms parsed_setStartsNodup

end Gql.EndToEnd
