import GqlProofs.Validate.OverlapFlatList
import GqlProofs.ValSpec.SingleRoot3
set_option linter.unusedSimpArgs false
set_option linter.unusedVariables false
/-
  END TO END, part 8: `rootKeysConsistent` (hazard 4 of SingleFieldSubscriptions: root fields collected
  under one response key have one field name) is a consequence of §5.3.2 Field Selection Merging.

  The root fields `CollectFields` gathers for a subscription (`Spec.collectRootFields`: fragments are
  entered only if their type condition applies to the root object type) are among the fields §5.3.2
  collects for the selection set of the operation (`Spec.collectSet`: every fragment is entered), and
  each of them is written in a selection set whose type in scope is either not an object type or is the
  root object type — so any two of them "may overlap" and §5.3.2 demands equal field names for equal
  response keys.
-/
namespace Gql.EndToEnd
open Gql Gql.Validate Gql.Validate.Rules

/-- a type in scope under which a collected root field can be written: if it is an object type, it is
    the root object type -/
def GoodP (obj : Definition) (p : Option Definition) : Prop :=
  ∀ pd, p = some pd → Spec.isObject pd = true → pd.name = obj.name

theorem goodP_self (obj : Definition) : GoodP obj (some obj) := by
  intro pd h _
  injection h with h
  rw [h]

theorem goodP_applies {s : Schema} {obj : Definition} {tc : Name} (h : Spec.fragmentTypeApplies s obj tc = true) :
    GoodP obj (s.type? tc) := by
  intro pd hpd hobj
  unfold Spec.fragmentTypeApplies at h
  rw [hpd] at h
  simp only [Spec.isObject, beq_iff_eq] at hobj
  simp only [hobj, beq_iff_eq] at h
  exact h

/-- what a collected root field stands for: a field node reachable from the selection set, with that
    response key and name, written under a `GoodP` type -/
def RootWitness (s : Schema) (d : QueryDoc) (l : Links) (obj : Definition) (own : List FInfo) (sps : List SpreadNode)
    (rf : Spec.RootField) : Prop :=
  ∃ f : FInfo, RFldL s.view l d own sps f ∧ responseName f.node = rf.1 ∧ f.node.name = rf.2 ∧ GoodP obj f.sparent

def RJSound (s : Schema) (d : QueryDoc) (l : Links) (obj : Definition) (jump : Spec.RootJump) : Prop :=
  ∀ sels vis rf, rf ∈ (jump sels vis).1 → ∀ p, GoodP obj p →
    RootWitness s d l obj (collectFields s.view l p sels) (collectSpreads sels) rf

theorem RootWitness.mono {s : Schema} {d : QueryDoc} {l : Links} {obj : Definition} {own own' : List FInfo}
    {sps sps' : List SpreadNode} {rf : Spec.RootField} (h : RootWitness s d l obj own sps rf)
    (h1 : ∀ x ∈ own, x ∈ own') (h2 : ∀ x ∈ sps, x ∈ sps') : RootWitness s d l obj own' sps' rf := by
  obtain ⟨f, hf, r⟩ := h
  exact ⟨f, hf.mono h1 h2, r⟩

mutual
  theorem rootSel_sound (s : Schema) (d : QueryDoc) (l : Links) (obj : Definition) {jump : Spec.RootJump}
      (hj : RJSound s d l obj jump) :
      ∀ (x : Selection) (vis : List Name) (rf : Spec.RootField), rf ∈ (Spec.collectRootSel s d obj jump x vis).1 →
        ∀ p, GoodP obj p → RootWitness s d l obj (collectFieldsSel s.view l p x) (collectSpreadsSel x) rf
    | .field al nm args dirs sub pos, vis, rf, h, p, hp => by
      simp only [Spec.collectRootSel, List.mem_singleton] at h
      subst h
      refine ⟨{ node := ⟨al, nm, args, dirs, sub, pos⟩, sparent := p, sdfn := staticFieldDef p nm,
                linked := l.linked pos.start }, Or.inl (by simp [collectFieldsSel]), ?_, rfl, hp⟩
      unfold responseName
      by_cases ha : al = [] <;> simp [ha]
    | .spread nm dirs pos, vis, rf, h, p, hp => by
      simp only [Spec.collectRootSel, fragByName_eq] at h
      split at h
      · cases h
      · cases hF : fragForName d nm with
        | none => rw [hF] at h; cases h
        | some F =>
          rw [hF] at h
          simp only at h
          split at h
          · rename_i happ
            have hb : SReachL d (collectSpreadsSel (.spread nm dirs pos)) nm :=
              SReachL.base (sp := ⟨nm, dirs, pos⟩) (by simp [collectSpreadsSel])
            obtain ⟨f, hf, r⟩ := hj _ _ rf h (s.type? F.typeCond) (goodP_applies happ)
            refine ⟨f, ?_, r⟩
            rcases hf with hf | ⟨n, G, hr, hG, hf⟩
            · exact Or.inr ⟨nm, F, hb, hF, hf⟩
            · exact Or.inr ⟨n, G, hb.trans hF hr, hG, hf⟩
          · cases h
    | .inline tc dirs sub pos, vis, rf, h, p, hp => by
      simp only [Spec.collectRootSel] at h
      split at h
      · cases h
      · rename_i hc
        simp only [collectFieldsSel, collectSpreadsSel]
        refine rootSels_sound s d l obj hj sub vis rf h _ ?_
        unfold inlineNext
        by_cases htc : tc = []
        · simpa [htc] using hp
        · have happ : Spec.fragmentTypeApplies s obj tc = true := by
            cases ha : Spec.fragmentTypeApplies s obj tc with
            | true => rfl
            | false => exact absurd (by simp [htc, ha]) hc
          have hg : GoodP obj (s.view.type? tc) := goodP_applies happ
          simpa [htc] using hg
  theorem rootSels_sound (s : Schema) (d : QueryDoc) (l : Links) (obj : Definition) {jump : Spec.RootJump}
      (hj : RJSound s d l obj jump) :
      ∀ (sels : Selections) (vis : List Name) (rf : Spec.RootField), rf ∈ (Spec.collectRootSels s d obj jump sels vis).1 →
        ∀ p, GoodP obj p → RootWitness s d l obj (collectFields s.view l p sels) (collectSpreads sels) rf
    | .nil, _, _, h, _, _ => by simp [Spec.collectRootSels] at h
    | .cons x rest, vis, rf, h, p, hp => by
      simp only [Spec.collectRootSels, List.mem_append] at h
      simp only [collectFields, collectSpreads]
      rcases h with h | h
      · exact (rootSel_sound s d l obj hj x vis rf h p hp).mono (fun _ hx => List.mem_append_left _ hx)
          (fun _ hx => List.mem_append_left _ hx)
      · exact (rootSels_sound s d l obj hj rest _ rf h p hp).mono (fun _ hx => List.mem_append_right _ hx)
          (fun _ hx => List.mem_append_right _ hx)
end

theorem rootLevel_sound (s : Schema) (d : QueryDoc) (l : Links) (obj : Definition) :
    ∀ n, RJSound s d l obj (Spec.collectRootLevel s d obj n)
  | 0 => fun _ _ _ h => by simp [Spec.collectRootLevel] at h
  | n + 1 => fun sels vis rf h p hp => by
    simp only [Spec.collectRootLevel] at h
    exact rootSels_sound s d l obj (rootLevel_sound s d l obj n) sels vis rf h p hp

/-- every collected root field is a member of the set §5.3.2 collects for the selection set -/
theorem rootField_in_collectSet (s : Schema) (d : QueryDoc) (obj : Definition) (sels : Selections)
    (rf : Spec.RootField) (h : rf ∈ Spec.collectRootFields s d obj sels) :
    ∃ m ∈ Spec.collectSet s d (some obj) sels, m.key = rf.1 ∧ m.name = rf.2 ∧ GoodP obj m.parent := by
  obtain ⟨f, hf, h1, h2, h3⟩ := rootLevel_sound s d Links.empty obj _ sels [] rf h (some obj) (goodP_self obj)
  refine ⟨toM f, ?_, ?_, h2, h3⟩
  · rw [collectSet_mirror s d Links.empty]
    exact List.mem_map_of_mem (flatSet_complete s d Links.empty (some obj) sels hf)
  · rw [toM_key]; exact h1

theorem allPairs_mem {α : Type} {p : α → α → Bool} : ∀ {l : List α}, Spec.allPairs p l = true →
    ∀ {a b : α}, a ∈ l → b ∈ l → a = b ∨ p a b = true ∨ p b a = true
  | [], _, _, _, ha, _ => by cases ha
  | x :: xs, h, a, b, ha, hb => by
    simp only [Spec.allPairs, Bool.and_eq_true, List.all_eq_true] at h
    rcases List.mem_cons.1 ha with rfl | ha' <;> rcases List.mem_cons.1 hb with rfl | hb'
    · exact Or.inl rfl
    · exact Or.inr (Or.inl (h.1 b hb'))
    · exact Or.inr (Or.inr (h.1 a ha'))
    · exact allPairs_mem h.2 ha' hb'

theorem mayOverlap_of_goodP {obj : Definition} {a b : Spec.MField} (ha : GoodP obj a.parent) (hb : GoodP obj b.parent) :
    mayOverlap a b = true := by
  unfold mayOverlap
  cases hpa : a.parent with
  | none => rfl
  | some pa =>
    cases hpb : b.parent with
    | none => rfl
    | some pb =>
      simp only [Bool.or_eq_true, beq_iff_eq, Bool.not_eq_true']
      cases hoa : Spec.isObject pa with
      | false => exact Or.inl (Or.inr rfl)
      | true =>
        cases hob : Spec.isObject pb with
        | false => exact Or.inr rfl
        | true => exact Or.inl (Or.inl ((ha pa hpa hoa).trans (hb pb hpb hob).symm))

/-- in a set that can be merged, two fields with one response key written under `GoodP` types have
    one field name -/
theorem names_of_canMerge {s : Schema} {d : QueryDoc} {n : Nat} {L : List Spec.MField} {obj : Definition}
    (h : Spec.fieldsInSetCanMerge s d (n + 1) L = true) {a b : Spec.MField} (ha : a ∈ L) (hb : b ∈ L)
    (hk : a.key = b.key) (ga : GoodP obj a.parent) (gb : GoodP obj b.parent) : a.name = b.name := by
  rw [fieldsInSetCanMerge_succ] at h
  have key : ∀ x y : Spec.MField, x.key = y.key → GoodP obj x.parent → GoodP obj y.parent → pairOK s d n x y = true →
      x.name = y.name := by
    intro x y hxy gx gy hp
    unfold pairOK mergePart at hp
    rw [mayOverlap_of_goodP gx gy] at hp
    simp only [hxy, bne_self_eq_false, Bool.false_or, if_true, Bool.and_eq_true, beq_iff_eq] at hp
    exact hp.2.1.1
  rcases allPairs_mem h ha hb with e | e | e
  · rw [e]
  · exact key a b hk ga gb e
  · exact (key b a hk.symm gb ga e).symm

/-- **hazard 4 is excluded by §5.3.2** (when §5.3.2 is judged) -/
theorem rootKeysConsistent_of_merging (s : Schema) (d : QueryDoc) (hj : Spec.mergingJudged s d = true)
    (hm : Spec.fieldSelectionMerging s d = true) : rootKeysConsistent s d = true := by
  unfold Spec.fieldSelectionMerging at hm
  rw [hj] at hm
  simp only [Bool.not_true, Bool.false_or, List.all_eq_true] at hm
  unfold rootKeysConsistent
  rw [List.all_eq_true]
  intro op hop
  by_cases hk : op.op = Spec.kwSubscription
  · cases hobj : Spec.rootDef s op.op with
    | none => simp
    | some obj =>
      have hset : (⟨Spec.rootDef s op.op, op.sel⟩ : Spec.TSet) ∈ Spec.docSets s d := by
        unfold Spec.docSets
        exact List.mem_append_left _ (List.mem_append_left _ (List.mem_map.2 ⟨op, hop, rfl⟩))
      have hcm := hm _ hset
      simp only [hobj] at hcm
      have hfuel : Spec.mergeFuel d = (Spec.mergeFuel d - 1) + 1 := by unfold Spec.mergeFuel; omega
      rw [hfuel] at hcm
      simp only [Bool.or_eq_true, bne_iff_ne, ne_eq, List.all_eq_true, beq_iff_eq]
      refine Or.inr fun f hf g hg => ?_
      by_cases hfg : f.1 = g.1
      · obtain ⟨mf, hmf, k1, n1, g1⟩ := rootField_in_collectSet s d obj op.sel f hf
        obtain ⟨mg, hmg, k2, n2, g2⟩ := rootField_in_collectSet s d obj op.sel g hg
        have := names_of_canMerge hcm hmf hmg (by rw [k1, k2, hfg]) g1 g2
        exact Or.inr (by rw [← n1, ← n2, this])
      · exact Or.inl hfg
  · simp [hk]

#print axioms rootKeysConsistent_of_merging

end Gql.EndToEnd
