import GqlProofs.EndToEnd.TokLexDef
import GqlProofs.Parser.SoundTop
import GqlProofs.Format.Formattable
set_option linter.unusedSimpArgs false
set_option linter.unusedVariables false
/-
  END TO END, part 2: one traversal of the query parser model in the program logic `Spec` of
  `GqlProofs/Parser/Spec.lean`, with postconditions of the shape `Out ok ps used`:

    * `ok`  — the lexical well-formedness of the subtree (`Format.valueOk`, `selOk`, `opOk`, … : names
              are lexer Names, Int / Float raw texts are number lexemes, required selection sets are
              not empty) holds PROVIDED every consumed token satisfies `TokLex` (what the lexer
              guarantees about token texts, `TokLex.lean`);
    * `ps`  — the start offsets the subtree records for its variable usages (and, for a fragment
              definition, its own position) form a SUBLIST of the start offsets of the consumed
              tokens, in order.

  At the top (`parsed_shape`): the consumed tokens are the significant tokens of the source, whose
  starts strictly increase (`rawS_sorted`), so the recorded offsets of one document are pairwise
  different.
-/
namespace Gql.EndToEnd
open Gql Gql.Lexer Gql.Parser Gql.Format

/-! ### recorded offsets -/

mutual
  /-- start offsets of the variable usages inside a value (the walk of `Spec.usesInValue`) -/
  def usesV : Value → List Nat
    | .mk k _ ch p =>
      match k with
      | .variable => [p.start]
      | .list => usesCh ch
      | .object => usesCh ch
      | _ => []
  def usesCh : Children → List Nat
    | .nil => []
    | .cons _ v _ rest => usesV v ++ usesCh rest
end

def usesArgs (as : List Argument) : List Nat := as.flatMap fun a => usesV a.value
def usesDirs (ds : List Directive) : List Nat := ds.flatMap fun d => usesArgs d.args

mutual
  def usesSel : Selection → List Nat
    | .field _ _ args ds sub _ => usesArgs args ++ usesDirs ds ++ usesSels sub
    | .spread _ ds _ => usesDirs ds
    | .inline _ ds sub _ => usesDirs ds ++ usesSels sub
  def usesSels : Selections → List Nat
    | .nil => []
    | .cons s rest => usesSel s ++ usesSels rest
end

def usesDefault : Option Value → List Nat
  | some d => usesV d
  | none => []

def usesVarDef (v : VarDef) : List Nat := usesDefault v.default ++ usesDirs v.dirs

def usesOp (o : OperationDef) : List Nat := o.vars.flatMap usesVarDef ++ usesDirs o.dirs ++ usesSels o.sel

def usesFrag (f : FragmentDef) : List Nat := f.vars.flatMap usesVarDef ++ usesDirs f.dirs ++ usesSels f.sel

/-- a fragment definition records its own position first -/
def posFrag (f : FragmentDef) : List Nat := f.pos.start :: usesFrag f

/-- all recorded offsets of a document -/
def posDoc (d : QueryDoc) : List Nat := d.ops.flatMap usesOp ++ d.frags.flatMap posFrag

/-! ### the shape of the postconditions -/

def starts (u : List Token) : List Nat := u.map (·.start)

structure Out (ok : Prop) (ps : List Nat) (u : List Token) : Prop where
  lex : (∀ t ∈ u, TokLex t) → ok
  pos : ps.Sublist (starts u)

theorem Out.triv (u : List Token) : Out True [] u := ⟨fun _ => trivial, List.nil_sublist _⟩

theorem Out.and {o1 o2 : Prop} {p1 p2 : List Nat} {u1 u2 : List Token} (h1 : Out o1 p1 u1) (h2 : Out o2 p2 u2) :
    Out (o1 ∧ o2) (p1 ++ p2) (u1 ++ u2) :=
  ⟨fun g => ⟨h1.lex fun t ht => g t (List.mem_append_left _ ht), h2.lex fun t ht => g t (List.mem_append_right _ ht)⟩,
   by unfold starts; rw [List.map_append]; exact List.Sublist.append h1.pos h2.pos⟩

theorem Out.cast {o o' : Prop} {p p' : List Nat} {u : List Token} (h : Out o p u) (ho : o → o') (hp : p' = p) :
    Out o' p' u := ⟨fun g => ho (h.lex g), hp ▸ h.pos⟩

theorem Out.tok (t : Token) : Out (TokLex t) [] [t] := ⟨fun g => g t (by simp), List.nil_sublist _⟩

theorem Out.tokPos (t : Token) : Out (TokLex t) [t.start] [t] := ⟨fun g => g t (by simp), by simp [starts]⟩

theorem nameOut {t : Token} (hk : t.kind = .name) : Out (isNameB t.value = true) [] [t] :=
  (Out.tok t).cast (fun h => h.1 hk) rfl

theorem many_out {α : Type} {ok : α → Prop} {ps : α → List Nat} {xs : List α} {mid : List Token}
    (h : Many (fun x u => Out (ok x) (ps x) u) xs mid) : Out (∀ x ∈ xs, ok x) (xs.flatMap ps) mid := by
  induction h with
  | nil => exact ⟨fun _ _ h => (by cases h), by simp⟩
  | @cons x xs u us hx _ ih =>
    refine (hx.and ih).cast (fun ⟨h1, h2⟩ y hy => ?_) (by simp)
    rcases List.mem_cons.1 hy with rfl | hy
    · exact h1
    · exact h2 y hy

theorem bracketed_out {α : Type} {ok : α → Prop} {ps : α → List Nat} {start stop : Kind} {xs : List α} {a a' : AS}
    (hb : Bracketed (fun x u => Out (ok x) (ps x) u) start stop xs a a') :
    ∃ u, Ate a a' u ∧ Out (∀ x ∈ xs, ok x) (xs.flatMap ps) u := by
  rcases hb with ⟨rfl, _, rfl⟩ | ⟨_, u, hu, t1, mid, t2, rfl, _, _, _, _, hm⟩
  · exact ⟨[], Ate.peeked a, ⟨fun _ _ h => (by cases h), by simp⟩⟩
  · refine ⟨_, hu, ?_⟩
    have := ((Out.triv [t1]).and ((many_out hm).and (Out.triv [t2]))).cast (fun h => h.2.1)
      (p' := xs.flatMap ps) (by simp)
    simpa using this

/-! ### values -/

def PV (v : Value) (u : List Token) : Prop := Out (valueOk v = true) (usesV v) u

theorem itemsOk_ofList : ∀ (xs : List (Name × Value × Pos)), (∀ x ∈ xs, valueOk x.2.1 = true) →
    itemsOk (Children.ofList xs) = true
  | [], _ => by simp [Children.ofList, itemsOk]
  | (n, v, p) :: rest, h => by
    simp only [Children.ofList, itemsOk, Bool.and_eq_true]
    exact ⟨h (n, v, p) (by simp), itemsOk_ofList rest fun x hx => h x (by simp [hx])⟩

theorem fieldsOk_ofList : ∀ (xs : List (Name × Value × Pos)),
    (∀ x ∈ xs, isNameB x.1 = true ∧ valueOk x.2.1 = true) → fieldsOk (Children.ofList xs) = true
  | [], _ => by simp [Children.ofList, fieldsOk]
  | (n, v, p) :: rest, h => by
    simp only [Children.ofList, fieldsOk, Bool.and_eq_true]
    exact ⟨h (n, v, p) (by simp), fieldsOk_ofList rest fun x hx => h x (by simp [hx])⟩

theorem usesCh_ofList : ∀ (xs : List (Name × Value × Pos)),
    usesCh (Children.ofList xs) = xs.flatMap fun x => usesV x.2.1
  | [] => by simp [Children.ofList, usesCh]
  | (n, v, p) :: rest => by simp [Children.ofList, usesCh, usesCh_ofList rest]

theorem e_parseListWith {pv : Prog Value} (hpv : Spec pv (Eats PV)) (n : Nat) :
    Spec (parseListWith pv n) (Eats PV) := by
  unfold parseListWith
  refine (Spec.bind spec_peekPos fun pos => Spec.bind
    (spec_pMany (P := fun (x : Name × Value × Pos) u => Out (valueOk x.2.1 = true) (usesV x.2.1) u)
      .bracketL .bracketR (by decide) (by decide) (by decide) (by decide) n
      ((Spec.bind hpv fun v => Spec.pure (([] : Name), v, Pos.zero)).mono
        (by rintro x a a' _ ⟨v, a1, h, rfl, rfl⟩; exact h)))
    fun vs => Spec.pure (Value.mk .list [] (Children.ofList vs) pos)).mono ?_
  rintro v a a'' _ ⟨pos, a1, ⟨rfl, _⟩, vs, a2, hb, rfl, rfl⟩
  obtain ⟨u, hu, o⟩ := bracketed_out hb
  refine ⟨_, (Ate.peeked a).trans hu, o.cast (fun h => ?_) ?_⟩
  · simp only [valueOk]; exact itemsOk_ofList vs h
  · simp only [usesV]; exact usesCh_ofList vs

theorem e_parseObjectFieldWith {pv : Prog Value} (hpv : Spec pv (Eats PV)) :
    Spec (parseObjectFieldWith pv)
      (Eats fun (x : Name × Value × Pos) u =>
        Out (isNameB x.1 = true ∧ valueOk x.2.1 = true) (usesV x.2.1) u) := by
  unfold parseObjectFieldWith
  refine (Spec.bind spec_peekPos fun pos => Spec.bind spec_parseName' fun name =>
    Spec.bind (spec_expect .colon (by decide) (by decide)) fun _ => Spec.bind hpv fun v =>
      Spec.pure (name, v, pos)).mono ?_
  rintro x a a'' _ ⟨pos, a1, ⟨rfl, _⟩, name, a2, ⟨u1, h1, t, rfl, k1, rfl, _⟩, _, a3, ⟨u2, h2, _⟩, v, a4,
    ⟨u3, h3, p3⟩, rfl, rfl⟩
  exact ⟨_, (Ate.peeked a).trans (h1.trans (h2.trans h3)),
    ((nameOut k1).and ((Out.triv u2).and p3)).cast (fun h => ⟨h.1, h.2.2⟩) (by simp)⟩

theorem e_parseObjectWith {pv : Prog Value} (hpv : Spec pv (Eats PV)) (n : Nat) :
    Spec (parseObjectWith pv n) (Eats PV) := by
  unfold parseObjectWith
  refine (Spec.bind spec_peekPos fun pos => Spec.bind
    (spec_pMany .braceL .braceR (by decide) (by decide) (by decide) (by decide) n (e_parseObjectFieldWith hpv))
    fun fs => Spec.pure (Value.mk .object [] (Children.ofList fs) pos)).mono ?_
  rintro v a a'' _ ⟨pos, a1, ⟨rfl, _⟩, vs, a2, hb, rfl, rfl⟩
  obtain ⟨u, hu, o⟩ := bracketed_out hb
  refine ⟨_, (Ate.peeked a).trans hu, o.cast (fun h => ?_) ?_⟩
  · simp only [valueOk]; exact fieldsOk_ofList vs h
  · simp only [usesV]; exact usesCh_ofList vs

theorem e_parseVariable :
    Spec parseVariable (Eats fun n u => ∃ t1 t2, u = [t1, t2] ∧ t2.kind = .name ∧ t2.value = n) := by
  unfold parseVariable
  refine (Spec.bind (spec_expect .dollar (by decide) (by decide)) fun _ => spec_parseName').mono ?_
  rintro n a a'' _ ⟨t1, a', ⟨u1, h1, rfl, _, _⟩, u2, h2, t2, rfl, k2, rfl, _⟩
  exact ⟨_, h1.trans h2, t1, t2, rfl, k2, rfl⟩

theorem valueOk_name (v : Bytes) (p : Pos) : valueOk (.mk (nameValueKind v) v .nil p) = isNameB v := by
  unfold nameValueKind
  split
  · simp [valueOk]
  · split <;> simp [valueOk]

theorem usesV_name (v : Bytes) (p : Pos) : usesV (.mk (nameValueKind v) v .nil p) = [] := by
  unfold nameValueKind
  split
  · simp [usesV]
  · split <;> simp [usesV]

theorem e_parseValueLiteral (c : Bool) : ∀ n, Spec (parseValueLiteral n c) (Eats PV)
  | 0 => Spec.of_dead (outOfFuel_dead _)
  | n + 1 => by
    have ih := e_parseValueLiteral c n
    unfold parseValueLiteral
    refine (Spec.bind spec_peek fun token => Spec.bind spec_getSrc fun src =>
      (?_ : Spec _ (fun v a a' => a.pk = true → a.σ.head = token → Eats PV v a a'))).mono ?_
    · have lit : ∀ (k : ValueKind) (tkk : Kind), token.kind = tkk → tkk ≠ .eof → tkk ≠ .invalid →
          (TokLex token → ∀ p, valueOk (.mk k token.value .nil p) = true) →
          (∀ p, usesV (.mk k token.value .nil p) = []) →
          Spec (litValue src token k) (fun v a a' => a.pk = true → a.σ.head = token → Eats PV v a a') := by
        intro k tkk hk h1 h2 hok hu
        refine (spec_litValue src token k).mono fun v a a' _ h hpk hh => ?_
        obtain ⟨q, rfl⟩ := h hpk hh (by rw [hk]; exact h1) (by rw [hk]; exact h2)
        exact ⟨[token], q, (Out.tok token).cast (fun h => hok h _) (hu _)⟩
      split
      · exact (e_parseListWith ih (n + 1)).mono fun v a a' _ h _ _ => h
      · exact (e_parseObjectWith ih (n + 1)).mono fun v a a' _ h _ _ => h
      · split
        · exact Spec.of_dead_bind unexpectedError_dead
        · refine (Spec.bind e_parseVariable fun raw => Spec.pure _).mono ?_
          rintro v a a' _ ⟨raw, a1, ⟨u, h1, t1, t2, rfl, k2, rfl⟩, rfl, rfl⟩ _ hh
          have ht : token = t1 := hh.symm.trans h1.head
          refine ⟨_, h1, ((Out.tokPos t1).and (nameOut k2)).cast (fun h => ?_) ?_⟩
          · simp only [valueOk]; exact h.2
          · simp [usesV, posOf, ht]
      · rename_i hk
        exact lit .int .int hk (by decide) (by decide) (fun h _ => by simp only [valueOk]; exact h.2.1 hk)
          (fun _ => by simp [usesV])
      · rename_i hk
        exact lit .float .float hk (by decide) (by decide) (fun h _ => by simp only [valueOk]; exact h.2.2 hk)
          (fun _ => by simp [usesV])
      · rename_i hk
        exact lit .string .string hk (by decide) (by decide) (fun _ _ => by simp [valueOk]) (fun _ => by simp [usesV])
      · rename_i hk
        exact lit .block .blockString hk (by decide) (by decide) (fun _ _ => by simp [valueOk])
          (fun _ => by simp [usesV])
      · rename_i hk
        exact lit _ .name hk (by decide) (by decide) (fun h p => by rw [valueOk_name]; exact h.1 hk)
          (fun p => usesV_name _ p)
      · exact Spec.of_dead_bind unexpectedError_dead
    · rintro v a a'' _ ⟨token, a1, ⟨rfl, rfl⟩, src, a2, rfl, h⟩
      obtain ⟨u, hu, p⟩ := h rfl rfl
      exact ⟨u, (Ate.peeked a).trans hu, p⟩

/-! ### arguments and directives -/

def PArg (x : Argument) (u : List Token) : Prop := Out (argOk x = true) (usesV x.value) u

theorem e_parseArgument (n : Nat) (c : Bool) : Spec (parseArgument n c) (Eats PArg) := by
  unfold parseArgument
  refine (Spec.bind spec_peekPos fun pos => Spec.bind spec_parseName' fun name =>
    Spec.bind (spec_expect .colon (by decide) (by decide)) fun _ =>
    Spec.bind (e_parseValueLiteral c n) fun v => Spec.pure _).mono ?_
  rintro x a a'' _ ⟨pos, a1, ⟨rfl, _⟩, name, a2, ⟨u1, h1, t, rfl, k1, rfl, _⟩, _, a3, ⟨u2, h2, _⟩, v, a4,
    ⟨u3, h3, p3⟩, rfl, rfl⟩
  refine ⟨_, (Ate.peeked a).trans (h1.trans (h2.trans h3)),
    ((nameOut k1).and ((Out.triv u2).and p3)).cast (fun h => ?_) (by simp)⟩
  simp only [argOk, Bool.and_eq_true]
  exact ⟨h.1, h.2.2⟩

def PArgs (as : List Argument) (u : List Token) : Prop := Out (as.all argOk = true) (usesArgs as) u

theorem e_parseArguments (n : Nat) (c : Bool) : Spec (parseArguments n c) (Eats PArgs) := by
  unfold parseArguments
  refine (spec_pSome .parenL .parenR (by decide) (by decide) (by decide) (by decide) n (e_parseArgument n c)).mono ?_
  rintro as a a' _ ⟨hb, _⟩
  obtain ⟨u, h1, o⟩ := bracketed_out hb
  exact ⟨u, h1, o.cast (fun h => List.all_eq_true.2 h) rfl⟩

def PDir (d : Directive) (u : List Token) : Prop := Out (dirOk d = true) (usesArgs d.args) u

theorem e_parseDirective (n : Nat) (c : Bool) : Spec (parseDirective n c) (Eats PDir) := by
  unfold parseDirective
  refine (Spec.bind (spec_expect .at (by decide) (by decide)) fun _ => Spec.bind spec_peekPos fun pos =>
    Spec.bind spec_parseName' fun name => Spec.bind (e_parseArguments n c) fun args => Spec.pure _).mono ?_
  rintro x a a'' _ ⟨_, a1, ⟨u1, h1, _⟩, pos, a2, ⟨rfl, _⟩, name, a3, ⟨u2, h2, t, rfl, k2, rfl, _⟩, args, a4,
    ⟨u3, h3, p3⟩, rfl, rfl⟩
  refine ⟨_, h1.trans ((Ate.peeked a1).trans (h2.trans h3)),
    ((Out.triv u1).and ((nameOut k2).and p3)).cast (fun h => ?_) (by simp)⟩
  simp only [dirOk, Bool.and_eq_true]
  exact ⟨h.2.1, h.2.2⟩

theorem e_directivesLoop {pd : Prog Directive} (hpd : Spec pd (Eats PDir)) (n : Nat) (acc : List Directive) :
    Spec (directivesLoop pd n acc) (fun ds a a' => ∃ items used, ds = items.reverse ++ acc ∧
      Ate a a' used ∧ Many PDir items used) := by
  induction n generalizing acc with
  | zero => exact Spec.of_dead (outOfFuel_dead _)
  | succ n ih =>
    unfold directivesLoop
    refine (Spec.bind spec_peek fun t => Spec.ite
      (fun _ => Spec.bind spec_hasErr fun e => Spec.ite (fun _ => Spec.pure acc)
        (fun _ => Spec.bind hpd fun d => ih (d :: acc))) (fun _ => Spec.pure acc)).mono ?_
    rintro ds a a'' _ ⟨t, a1, ⟨rfl, rfl⟩, ⟨_, e, a2, ⟨rfl, rfl⟩, ⟨he, _⟩ |
      ⟨_, d, a3, ⟨u, h1, h3⟩, items, used, rfl, h4, h6⟩⟩ | ⟨_, rfl, rfl⟩⟩
    · cases he
    · exact ⟨d :: items, u ++ used, by simp, (Ate.peeked a).trans (h1.trans h4), .cons h3 h6⟩
    · exact ⟨[], [], rfl, Ate.peeked a, .nil⟩

def PDirs (ds : List Directive) (u : List Token) : Prop := Out (ds.all dirOk = true) (usesDirs ds) u

theorem e_parseDirectives (n : Nat) (c : Bool) : Spec (parseDirectives n c) (Eats PDirs) := by
  unfold parseDirectives
  refine (Spec.bind (e_directivesLoop (e_parseDirective n c) n []) fun ds => Spec.pure ds.reverse).mono ?_
  rintro ds a a'' _ ⟨_, a1, ⟨items, used, rfl, h1, hm⟩, rfl, rfl⟩
  refine ⟨used, h1, (many_out hm).cast (fun h => ?_) ?_⟩
  · simp only [List.append_nil, List.reverse_reverse]
    exact List.all_eq_true.2 h
  · simp [usesDirs]

/-! ### types and variable definitions -/

def PType (ty : GType) (u : List Token) : Prop := Out (typeOk ty = true) [] u

theorem e_parseTypeReference : ∀ n, Spec (parseTypeReference n) (Eats PType)
  | 0 => Spec.of_dead (outOfFuel_dead _)
  | n + 1 => by
    have ih := e_parseTypeReference n
    unfold parseTypeReference
    refine (Spec.bind (spec_skipP .bracketL (by decide) (by decide) rfl) fun b => Spec.ite
      (fun _ => Spec.bind spec_peekPos fun pos => Spec.bind ih fun elem =>
        Spec.bind (spec_expect .bracketR (by decide) (by decide)) fun _ =>
        Spec.bind (spec_skipP .bang (by decide) (by decide) rfl) fun nn => Spec.pure (GType.list elem nn pos))
      (fun _ => Spec.bind spec_peekPos fun pos => Spec.bind spec_parseName' fun name =>
        Spec.bind (spec_skipP .bang (by decide) (by decide) rfl) fun nn => Spec.pure (GType.named name nn pos))).mono ?_
    rintro ty a a'' _ ⟨b, a1, hs, ⟨hb, pos, a2, ⟨rfl, _⟩, elem, a3, ⟨u2, h2, p2⟩, _, a4, ⟨u3, h3, _⟩, nn, a5, hs2, rfl, rfl⟩ |
      ⟨hb, pos, a2, ⟨rfl, _⟩, name, a3, ⟨u2, h2, t, rfl, k2, rfl, _⟩, nn, a4, hs2, rfl, rfl⟩⟩
    · rcases hs with ⟨_, _, u1, h1, _⟩ | ⟨rfl, _⟩
      · rcases hs2 with ⟨rfl, _, u4, h4, _⟩ | ⟨rfl, _, rfl⟩
        · exact ⟨_, h1.trans ((Ate.peeked a1).trans (h2.trans (h3.trans h4))),
            ((Out.triv u1).and (p2.and (Out.triv (u3 ++ u4)))).cast (fun h => by simpa [typeOk] using h.2.1) (by simp)⟩
        · exact ⟨_, h1.trans ((Ate.peeked a1).trans (h2.trans (h3.trans (Ate.peeked a4)))),
            ((Out.triv u1).and (p2.and (Out.triv (u3 ++ [])))).cast (fun h => by simpa [typeOk] using h.2.1) (by simp)⟩
      · simp at hb
    · rcases hs with ⟨rfl, _⟩ | ⟨_, _, rfl⟩
      · simp at hb
      · rcases hs2 with ⟨rfl, _, u4, h4, _⟩ | ⟨rfl, _, rfl⟩
        · exact ⟨_, (Ate.peeked a).trans ((Ate.peeked _).trans (h2.trans h4)),
            ((nameOut k2).and (Out.triv u4)).cast (fun h => by simpa [typeOk] using h.1) (by simp)⟩
        · exact ⟨_, (Ate.peeked a).trans ((Ate.peeked _).trans (h2.trans (Ate.peeked a3))),
            ((nameOut k2).and (Out.triv [])).cast (fun h => by simpa [typeOk] using h.1) (by simp)⟩

def PVarDef (v : VarDef) (u : List Token) : Prop := Out (varDefOk v = true) (usesVarDef v) u

theorem e_parseVariableDefinition (n : Nat) : Spec (parseVariableDefinition n) (Eats PVarDef) := by
  unfold parseVariableDefinition
  refine (Spec.bind spec_peekPos fun pos => Spec.bind e_parseVariable fun var =>
    Spec.bind (spec_expect .colon (by decide) (by decide)) fun _ =>
    Spec.bind (e_parseTypeReference n) fun ty =>
    Spec.bind (spec_skipP .equals (by decide) (by decide) rfl) fun b => Spec.ite
      (fun _ => Spec.bind (e_parseValueLiteral true n) fun v => Spec.bind (Spec.pure (Option.some v)) fun dv =>
        Spec.bind (e_parseDirectives n true) fun dirs => Spec.pure _)
      (fun _ => Spec.bind (Spec.pure none) fun dv =>
        Spec.bind (e_parseDirectives n true) fun dirs => Spec.pure _)).mono ?_
  rintro x a a'' _ ⟨pos, a1, ⟨rfl, _⟩, var, a2, ⟨u1, h1, t1, t2, rfl, k2, rfl⟩, _, a3, ⟨u2, h2, _⟩, ty, a4,
    ⟨u3, h3, p3⟩, b, a5, hs,
    ⟨hb, v, a6, ⟨u4, h4, p4⟩, dv, a7, ⟨rfl, rfl⟩, dirs, a8, ⟨u5, h5, p5⟩, rfl, rfl⟩ |
    ⟨hb, dv, a7, ⟨rfl, rfl⟩, dirs, a8, ⟨u5, h5, p5⟩, rfl, rfl⟩⟩
  · rcases hs with ⟨_, _, u0, h0, _⟩ | ⟨rfl, _⟩
    · refine ⟨_, (Ate.peeked a).trans (h1.trans (h2.trans (h3.trans (h0.trans (h4.trans h5))))),
        (((Out.triv [t1]).and (nameOut k2)).and ((Out.triv u2).and (p3.and ((Out.triv u0).and (p4.and p5))))).cast
          (fun h => ?_) (by simp [usesVarDef, usesDefault])⟩
      simp only [varDefOk, Bool.and_eq_true]
      exact ⟨⟨⟨h.1.2, h.2.2.1⟩, h.2.2.2.2.1⟩, h.2.2.2.2.2⟩
    · simp at hb
  · rcases hs with ⟨rfl, _⟩ | ⟨_, _, rfl⟩
    · simp at hb
    · refine ⟨_, (Ate.peeked a).trans (h1.trans (h2.trans (h3.trans ((Ate.peeked a4).trans h5)))),
        (((Out.triv [t1]).and (nameOut k2)).and ((Out.triv u2).and (p3.and p5))).cast
          (fun h => ?_) (by simp [usesVarDef, usesDefault])⟩
      simp only [varDefOk, Bool.and_eq_true]
      exact ⟨⟨⟨h.1.2, h.2.2.1⟩, trivial⟩, h.2.2.2⟩

def PVarDefs (vs : List VarDef) (u : List Token) : Prop := Out (vs.all varDefOk = true) (vs.flatMap usesVarDef) u

theorem e_parseVariableDefinitions (n : Nat) : Spec (parseVariableDefinitions n) (Eats PVarDefs) := by
  unfold parseVariableDefinitions
  refine (spec_pSome .parenL .parenR (by decide) (by decide) (by decide) (by decide) n
    (e_parseVariableDefinition n)).mono ?_
  rintro vs a a' _ ⟨hb, _⟩
  obtain ⟨u, h1, o⟩ := bracketed_out hb
  exact ⟨u, h1, o.cast (fun h => List.all_eq_true.2 h) rfl⟩

/-! ### selections -/

def PSel (s : Selection) (u : List Token) : Prop := Out (selOk s = true) (usesSel s) u

/-- a (non-empty) selection set -/
def PSelSet (ss : Selections) (u : List Token) : Prop := ss ≠ .nil ∧ Out (selsOk ss = true) (usesSels ss) u

theorem selsOk_ofList : ∀ (xs : List Selection), (∀ x ∈ xs, selOk x = true) → selsOk (Selections.ofList xs) = true
  | [], _ => by simp [Selections.ofList, selsOk]
  | s :: rest, h => by
    simp only [Selections.ofList, selsOk, Bool.and_eq_true]
    exact ⟨h s (by simp), selsOk_ofList rest fun x hx => h x (by simp [hx])⟩

theorem usesSels_ofList : ∀ (xs : List Selection), usesSels (Selections.ofList xs) = xs.flatMap usesSel
  | [] => by simp [Selections.ofList, usesSels]
  | s :: rest => by simp [Selections.ofList, usesSels, usesSels_ofList rest]

theorem selSet_of_bracket {xs : List Selection} {a a' : AS} (hb : Bracketed PSel .braceL .braceR xs a a')
    (hne : a.σ.head.kind = .braceL → xs ≠ []) (hk : a.σ.head.kind = .braceL) :
    Eats PSelSet (Selections.ofList xs) a a' := by
  obtain ⟨u, hu, o⟩ := bracketed_out hb
  refine ⟨u, hu, ?_, o.cast (fun h => selsOk_ofList xs h) (usesSels_ofList xs)⟩
  have := hne hk
  cases xs with
  | nil => exact absurd rfl this
  | cons x xs => simp [Selections.ofList]

theorem e_parseOptionalSelectionSetWith {sel : Prog Selection} (hsel : Spec sel (Eats PSel)) (n : Nat) :
    Spec (parseOptionalSelectionSetWith sel n) (fun ss a a' => a.σ.head.kind = .braceL → Eats PSelSet ss a a') := by
  unfold parseOptionalSelectionSetWith
  refine (Spec.bind (spec_pSome .braceL .braceR (by decide) (by decide) (by decide) (by decide) n hsel)
    fun xs => Spec.pure (Selections.ofList xs)).mono ?_
  rintro ss a a'' _ ⟨xs, a1, ⟨hb, hne⟩, rfl, rfl⟩ hk
  exact selSet_of_bracket hb hne hk

theorem e_parseRequiredSelectionSetWith {sel : Prog Selection} (hsel : Spec sel (Eats PSel)) (n : Nat) :
    Spec (parseRequiredSelectionSetWith sel n) (Eats PSelSet) := by
  unfold parseRequiredSelectionSetWith
  refine (Spec.bind spec_peek fun t => Spec.ite
    (fun _ => Spec.bind spec_peek fun _ => Spec.bind spec_peek fun _ =>
        Spec.of_dead_bind (R := fun _ _ _ => False) (failAt_dead _ _))
    (fun _ => Spec.bind (spec_pSome .braceL .braceR (by decide) (by decide) (by decide) (by decide) n hsel)
      fun xs => Spec.pure (Selections.ofList xs))).mono ?_
  rintro ss a a'' _ ⟨t, a1, ⟨rfl, rfl⟩, ⟨_, _, _, _, _, _, _, hf⟩ | ⟨hk, xs, a2, ⟨hb, hne⟩, rfl, rfl⟩⟩
  · exact hf.elim
  · simp only [ne_eq, Decidable.not_not] at hk
    obtain ⟨u, hu, p⟩ := selSet_of_bracket hb hne hk
    exact ⟨u, (Ate.peeked a).trans hu, p⟩

theorem e_fieldTail {sel : Prog Selection} (hsel : Spec sel (Eats PSel)) (n : Nat) (pos : Pos) (al nm : Name) :
    Spec (fieldTail sel n pos al nm) (Eats fun s u => ∃ args ds ss, s = .field al nm args ds ss pos ∧
      Out (args.all argOk = true ∧ ds.all dirOk = true ∧ selsOk ss = true)
        (usesArgs args ++ usesDirs ds ++ usesSels ss) u) := by
  unfold fieldTail
  refine (Spec.bind (e_parseArguments n false) fun args => Spec.bind (e_parseDirectives n false) fun dirs =>
    Spec.bind spec_peek fun t => Spec.ite
      (fun _ => Spec.bind (e_parseOptionalSelectionSetWith hsel n) fun ss => Spec.pure _)
      (fun _ => Spec.bind (Spec.pure Selections.nil) fun ss => Spec.pure _)).mono ?_
  rintro s a a'' _ ⟨args, a1, ⟨u1, h1, p1⟩, dirs, a2, ⟨u2, h2, p2⟩, t, a3, ⟨rfl, rfl⟩,
    ⟨hk, ss, a4, hss, rfl, rfl⟩ | ⟨hk, ss, a4, ⟨rfl, rfl⟩, rfl, rfl⟩⟩
  · obtain ⟨u3, h3, _, q2⟩ := hss hk
    exact ⟨_, h1.trans (h2.trans ((Ate.peeked a2).trans h3)), args, dirs, ss, rfl,
      (p1.and (p2.and q2)).cast (fun h => ⟨h.1, h.2.1, h.2.2⟩) (by simp)⟩
  · exact ⟨_, h1.trans (h2.trans (Ate.peeked a2)), args, dirs, .nil, rfl,
      (p1.and (p2.and (Out.triv []))).cast (fun h => ⟨h.1, h.2.1, by simp [selsOk]⟩) (by simp [usesSels])⟩

theorem e_parseFieldWith {sel : Prog Selection} (hsel : Spec sel (Eats PSel)) (n : Nat) :
    Spec (parseFieldWith sel n) (Eats PSel) := by
  rw [parseFieldWith_eq]
  refine (Spec.bind spec_peekPos fun pos => Spec.bind spec_parseName' fun al =>
    Spec.bind (spec_skipP .colon (by decide) (by decide) rfl) fun b => Spec.ite
      (fun _ => Spec.bind spec_parseName' fun nm => e_fieldTail hsel n pos al nm)
      (fun _ => e_fieldTail hsel n pos al al)).mono ?_
  rintro s a a'' _ ⟨pos, a1, ⟨rfl, _⟩, al, a2, ⟨u1, h1, t1, rfl, k1, rfl, _⟩, b, a3, hs,
    ⟨hb, nm, a4, ⟨u2, h2, t2, rfl, k2, rfl, _⟩, u3, h3, args, ds, ss, rfl, q⟩ |
    ⟨hb, u3, h3, args, ds, ss, rfl, q⟩⟩
  · rcases hs with ⟨_, _, u0, h0, _⟩ | ⟨rfl, _⟩
    · refine ⟨_, (Ate.peeked a).trans (h1.trans (h0.trans (h2.trans h3))),
        ((nameOut k1).and ((Out.triv u0).and ((nameOut k2).and q))).cast (fun h => ?_) (by simp [usesSel])⟩
      simp only [selOk, Bool.and_eq_true]
      exact ⟨⟨⟨⟨h.1, h.2.2.1⟩, h.2.2.2.1⟩, h.2.2.2.2.1⟩, h.2.2.2.2.2⟩
    · simp at hb
  · rcases hs with ⟨rfl, _⟩ | ⟨_, _, rfl⟩
    · simp at hb
    · refine ⟨_, (Ate.peeked a).trans (h1.trans ((Ate.peeked a2).trans h3)),
        ((nameOut k1).and q).cast (fun h => ?_) (by simp [usesSel])⟩
      simp only [selOk, Bool.and_eq_true]
      exact ⟨⟨⟨⟨h.1, h.1⟩, h.2.1⟩, h.2.2.1⟩, h.2.2.2⟩

theorem e_parseFragmentName :
    Spec parseFragmentName (Eats fun n u => ∃ t, u = [t] ∧ t.kind = .name ∧ t.value = n) := by
  unfold parseFragmentName
  refine (Spec.bind spec_peek fun t => Spec.ite
    (fun _ => Spec.of_dead_bind (R := fun _ _ _ => False) unexpectedError_dead)
    (fun _ => spec_parseName')).mono ?_
  rintro n a a'' _ ⟨t, a1, ⟨rfl, rfl⟩, ⟨_, hf⟩ | ⟨hv, u, h1, t', rfl, k1, rfl, _⟩⟩
  · exact hf.elim
  · exact ⟨_, (Ate.peeked a).trans h1, t', rfl, k1, rfl⟩

theorem e_inlineTail {sel : Prog Selection} (hsel : Spec sel (Eats PSel)) (n : Nat) (pos : Pos) (tc : Name) :
    Spec (inlineTail sel n pos tc) (Eats fun s u => ∃ ds ss, s = .inline tc ds ss pos ∧ ss ≠ .nil ∧
      Out (ds.all dirOk = true ∧ selsOk ss = true) (usesDirs ds ++ usesSels ss) u) := by
  unfold inlineTail
  refine (Spec.bind (e_parseDirectives n false) fun dirs =>
    Spec.bind (e_parseRequiredSelectionSetWith hsel n) fun ss => Spec.pure _).mono ?_
  rintro s a a'' _ ⟨dirs, a1, ⟨u1, h1, p1⟩, ss, a2, ⟨u2, h2, p2⟩, rfl, rfl⟩
  exact ⟨_, h1.trans h2, dirs, ss, rfl, p2.1, p1.and p2.2⟩

theorem selOk_inline {tc : Name} {ds : List Directive} {ss : Selections} {pos : Pos}
    (htc : tc = [] ∨ isNameB tc = true) (hds : ds.all dirOk = true) (hne : ss ≠ .nil) (hss : selsOk ss = true) :
    selOk (.inline tc ds ss pos) = true := by
  simp only [selOk, Bool.and_eq_true, Bool.or_eq_true, List.isEmpty_iff]
  cases ss with
  | nil => exact absurd rfl hne
  | cons _ _ => exact ⟨⟨⟨htc, hds⟩, trivial⟩, hss⟩

theorem e_parseFragmentWith {sel : Prog Selection} (hsel : Spec sel (Eats PSel)) (n : Nat) :
    Spec (parseFragmentWith sel n) (Eats PSel) := by
  rw [parseFragmentWith_eq]
  refine (Spec.bind (spec_expect .spread (by decide) (by decide)) fun _ => Spec.bind spec_peek fun pk => Spec.ite
    (fun _ => Spec.bind spec_peekPos fun pos => Spec.bind e_parseFragmentName fun name =>
      Spec.bind (e_parseDirectives n false) fun dirs => Spec.pure _)
    (fun _ => Spec.bind spec_peekPos fun pos => Spec.bind spec_peek fun t => Spec.ite
      (fun _ => Spec.bind spec_next fun _ => Spec.bind spec_parseName' fun tc => e_inlineTail hsel n pos tc)
      (fun _ => e_inlineTail hsel n pos []))).mono ?_
  rintro s a a'' hne ⟨_, a1, ⟨u1, h1, _⟩, pk, a2, ⟨rfl, rfl⟩,
    ⟨_, pos, a3, ⟨rfl, _⟩, name, a4, ⟨u2, h2, t2, rfl, k2, rfl⟩, dirs, a5, ⟨u3, h3, p3⟩, rfl, rfl⟩ |
    ⟨_, pos, a3, ⟨rfl, _⟩, t, a4, ⟨rfl, rfl⟩,
      ⟨hk, tn, a5, hn, tc, a6, ⟨u2, h2, t2, rfl, k2, rfl, _⟩, u3, h3, ds, ss, rfl, q1, q2⟩ |
      ⟨hk, u3, h3, ds, ss, rfl, q1, q2⟩⟩⟩
  · refine ⟨_, h1.trans ((Ate.peeked a1).trans ((Ate.peeked _).trans (h2.trans h3))),
      ((Out.triv u1).and ((nameOut k2).and p3)).cast (fun h => ?_) (by simp [usesSel])⟩
    simp only [selOk, Bool.and_eq_true]
    exact ⟨h.2.1, h.2.2⟩
  · have hne1 : a1.σ.NoEof := h1.noEof hne
    obtain ⟨e1, e2, e3⟩ := next_eats (a := { a1 with pk := true }) (k := .name) hne1 rfl hk.1 (by decide) (by decide) hn
    exact ⟨_, h1.trans ((Ate.peeked a1).trans (e2.trans (h2.trans h3))),
      ((Out.triv u1).and ((Out.triv [tn]).and ((nameOut k2).and q2))).cast
        (fun h => selOk_inline (.inr h.2.2.1) h.2.2.2.1 q1 h.2.2.2.2) (by simp [usesSel])⟩
  · exact ⟨_, h1.trans ((Ate.peeked a1).trans h3),
      ((Out.triv u1).and q2).cast (fun h => selOk_inline (.inl rfl) h.2.1 q1 h.2.2) (by simp [usesSel])⟩

theorem e_parseSelection : ∀ n, Spec (parseSelection n) (Eats PSel)
  | 0 => Spec.of_dead (outOfFuel_dead _)
  | n + 1 => by
    have ih := e_parseSelection n
    unfold parseSelection
    refine (Spec.bind spec_peek fun t => Spec.ite (fun _ => e_parseFragmentWith ih (n + 1))
      (fun _ => e_parseFieldWith ih (n + 1))).mono ?_
    rintro s a a'' _ ⟨t, a1, ⟨rfl, rfl⟩, ⟨_, u, h, p⟩ | ⟨_, u, h, p⟩⟩
    · exact ⟨u, (Ate.peeked a).trans h, p⟩
    · exact ⟨u, (Ate.peeked a).trans h, p⟩

theorem e_parseRequiredSelectionSet (n : Nat) : Spec (parseRequiredSelectionSet n) (Eats PSelSet) :=
  e_parseRequiredSelectionSetWith (e_parseSelection n) n

/-! ### definitions -/

def POp (o : OperationDef) (u : List Token) : Prop := Out (opOk o = true) (usesOp o) u


theorem e_opTail (n : Nat) (pos : Pos) (op : Operation) (name : Name) :
    Spec (opTail n pos op name) (Eats fun o u => ∃ vars dirs ss,
      o = { op := op, name := name, vars := vars, dirs := dirs, sel := ss, pos := pos } ∧ ss ≠ .nil ∧
      Out (vars.all varDefOk = true ∧ dirs.all dirOk = true ∧ selsOk ss = true)
        (vars.flatMap usesVarDef ++ usesDirs dirs ++ usesSels ss) u) := by
  unfold opTail
  refine (Spec.bind (e_parseVariableDefinitions n) fun vars => Spec.bind (e_parseDirectives n false) fun dirs =>
    Spec.bind (e_parseRequiredSelectionSet n) fun ss => Spec.pure _).mono ?_
  rintro o a a'' _ ⟨vars, a1, ⟨u1, h1, p1⟩, dirs, a2, ⟨u2, h2, p2⟩, ss, a3, ⟨u3, h3, p3⟩, rfl, rfl⟩
  exact ⟨_, h1.trans (h2.trans h3), vars, dirs, ss, rfl, p3.1,
    (p1.and (p2.and p3.2)).cast (fun h => ⟨h.1, h.2.1, h.2.2⟩) (by simp)⟩

theorem isNameB_opKind {op : Operation} (h : op = str "query" ∨ op = str "mutation" ∨ op = str "subscription") :
    isNameB op = true := by
  rcases h with rfl | rfl | rfl <;> decide

theorem opOk_mk {op : Operation} {name : Name} {vars : List VarDef} {dirs : List Directive} {ss : Selections} {pos : Pos}
    (hop : isNameB op = true) (hname : name = [] ∨ isNameB name = true) (hv : vars.all varDefOk = true)
    (hd : dirs.all dirOk = true) (hne : ss ≠ .nil) (hss : selsOk ss = true) :
    opOk { op := op, name := name, vars := vars, dirs := dirs, sel := ss, pos := pos } = true := by
  cases ss with
  | nil => exact absurd rfl hne
  | cons _ _ =>
    simp only [opOk, Bool.and_eq_true, Bool.or_eq_true, List.isEmpty_iff]
    exact ⟨⟨⟨⟨⟨hop, hname⟩, hv⟩, hd⟩, trivial⟩, hss⟩

theorem e_parseOperationDefinition (n : Nat) : Spec (parseOperationDefinition n) (Eats POp) := by
  rw [parseOperationDefinition_eq]
  refine (Spec.bind spec_peek fun t => Spec.ite
    (fun _ => Spec.bind spec_peekPos fun pos => Spec.bind (e_parseRequiredSelectionSet n) fun ss => Spec.pure _)
    (fun _ => Spec.bind spec_peekPos fun pos => Spec.bind spec_parseOperationType fun op => Spec.bind spec_peek fun t2 =>
      Spec.ite (fun _ => Spec.bind spec_next fun tn => e_opTail n pos op tn.value)
        (fun _ => e_opTail n pos op []))).mono ?_
  rintro o a a'' hne ⟨t, a1, ⟨rfl, rfl⟩,
    ⟨hk, pos, a2, ⟨rfl, hpos⟩, ss, a3, ⟨u1, h1, p1⟩, rfl, rfl⟩ |
    ⟨hk, pos, a2, ⟨rfl, hpos⟩, op, a3, hop, t2, a4, ⟨rfl, rfl⟩,
      ⟨hk2, tn, a5, hn, u3, h3, vars, dirs, ss, rfl, q1, q2⟩ |
      ⟨hk2, u3, h3, vars, dirs, ss, rfl, q1, q2⟩⟩⟩
  · refine ⟨_, (Ate.peeked a).trans ((Ate.peeked _).trans h1), p1.2.cast (fun h => ?_) (by simp [usesOp, usesDirs])⟩
    exact opOk_mk (by decide) (.inl rfl) (by simp) (by simp) p1.1 h
  · obtain ⟨t1, e1, e2, e3⟩ := hop rfl
    have hne3 : a3.σ.NoEof := e1.noEof hne
    obtain ⟨f1, f2, f3⟩ := next_eats (a := { a3 with pk := true }) (k := .name) hne3 rfl hk2 (by decide) (by decide) hn
    have hkn : tn.kind = .name := f1 ▸ hk2
    refine ⟨_, (Ate.peeked a).trans ((Ate.peeked _).trans (e1.trans ((Ate.peeked a3).trans (f2.trans h3)))),
      ((Out.triv [t1]).and ((nameOut hkn).and q2)).cast (fun h => ?_) (by simp [usesOp])⟩
    exact opOk_mk (isNameB_opKind e3) (.inr h.2.1) h.2.2.1 h.2.2.2.1 q1 h.2.2.2.2
  · obtain ⟨t1, e1, e2, e3⟩ := hop rfl
    refine ⟨_, (Ate.peeked a).trans ((Ate.peeked _).trans (e1.trans ((Ate.peeked a3).trans h3))),
      ((Out.triv [t1]).and q2).cast (fun h => ?_) (by simp [usesOp])⟩
    exact opOk_mk (isNameB_opKind e3) (.inl rfl) h.2.1 h.2.2.1 q1 h.2.2.2

def PFrag (f : FragmentDef) (u : List Token) : Prop := Out (fragOk f = true) (posFrag f) u

theorem e_parseFragmentDefinition (n : Nat) : Spec (parseFragmentDefinition n) (Eats PFrag) := by
  unfold parseFragmentDefinition
  refine (Spec.bind spec_peekPos fun pos => Spec.bind (spec_expectKeyword kwFragment) fun _ =>
    Spec.bind e_parseFragmentName fun name => Spec.bind (e_parseVariableDefinitions n) fun vars =>
    Spec.bind (spec_expectKeyword kwOn) fun _ => Spec.bind spec_parseName' fun tc =>
    Spec.bind (e_parseDirectives n false) fun dirs => Spec.bind (e_parseRequiredSelectionSet n) fun ss =>
    Spec.pure _).mono ?_
  rintro f a a'' _ ⟨pos, a1, ⟨rfl, hpos⟩, tf, a2, ⟨u1, h1, rfl, k1, v1⟩, name, a3, ⟨u2, h2, t2, rfl, k2, rfl⟩, vars, a4,
    ⟨u3, h3, p3⟩, ton, a5, ⟨u4, h4, rfl, k4, v4⟩, tc, a6, ⟨u5, h5, t5, rfl, k5, rfl, _⟩, dirs, a7, ⟨u6, h6, p6⟩, ss, a8,
    ⟨u7, h7, p7⟩, rfl, rfl⟩
  have hstart : pos.start = tf.start := by rw [hpos]; exact congrArg Token.start h1.head
  refine ⟨_, (Ate.peeked a).trans (h1.trans (h2.trans (h3.trans (h4.trans (h5.trans (h6.trans h7)))))),
    ((Out.tokPos tf).and ((nameOut k2).and (p3.and ((Out.triv [ton]).and ((nameOut k5).and (p6.and p7.2)))))).cast
      (fun h => ?_) (by simp [posFrag, usesFrag, hstart])⟩
  obtain ⟨hne7, _⟩ := p7
  cases ss with
  | nil => exact absurd rfl hne7
  | cons _ _ =>
    simp only [fragOk, Bool.and_eq_true]
    exact ⟨⟨⟨⟨⟨h.2.1, h.2.2.1⟩, h.2.2.2.2.1⟩, h.2.2.2.2.2.1⟩, trivial⟩, h.2.2.2.2.2.2⟩

/-! ### the document -/

def okDef : Def → Prop
  | .inl o => opOk o = true
  | .inr f => fragOk f = true

def posDef : Def → List Nat
  | .inl o => usesOp o
  | .inr f => posFrag f

def PDef (d : Def) (u : List Token) : Prop := Out (okDef d) (posDef d) u

def DocRel (doc : QueryDoc) : QueryDoc → AS → AS → Prop := fun d a a' =>
  ∃ defs used, Ate a a' used ∧ a'.pk = true ∧ a'.σ.head.kind = .eof ∧
    d.ops = doc.ops ++ opsOf defs ∧ d.frags = doc.frags ++ fragsOf defs ∧ Many PDef defs used

theorem DocRel.cons_op {doc d : QueryDoc} {od : OperationDef} {a a1 a' : AS}
    (h1 : Eats POp od a a1) (h2 : DocRel { doc with ops := doc.ops ++ [od] } d a1 a') : DocRel doc d a a' := by
  obtain ⟨u, hu, p⟩ := h1
  obtain ⟨defs, used, g1, g2, g3, g4, g5, g6⟩ := h2
  exact ⟨.inl od :: defs, u ++ used, hu.trans g1, g2, g3, by simpa [opsOf] using g4, by simpa [fragsOf] using g5,
    .cons (x := (.inl od : Def)) p g6⟩

theorem DocRel.cons_frag {doc d : QueryDoc} {fd : FragmentDef} {a a1 a' : AS}
    (h1 : Eats PFrag fd a a1) (h2 : DocRel { doc with frags := doc.frags ++ [fd] } d a1 a') : DocRel doc d a a' := by
  obtain ⟨u, hu, p⟩ := h1
  obtain ⟨defs, used, g1, g2, g3, g4, g5, g6⟩ := h2
  exact ⟨.inr fd :: defs, u ++ used, hu.trans g1, g2, g3, by simpa [opsOf] using g4, by simpa [fragsOf] using g5,
    .cons (x := (.inr fd : Def)) p g6⟩

theorem DocRel.peeked {doc d : QueryDoc} {a a' : AS} (h : DocRel doc d { a with pk := true } a') : DocRel doc d a a' := by
  obtain ⟨defs, used, g1, g⟩ := h
  exact ⟨defs, used, by simpa using (Ate.peeked a).trans g1, g⟩

theorem e_queryDocLoop (m : Nat) : ∀ (n : Nat) (doc : QueryDoc), Spec (queryDocLoop m n doc) (DocRel doc)
  | 0, doc => Spec.of_dead (outOfFuel_dead _)
  | n + 1, doc => by
    have ih := e_queryDocLoop m n
    unfold queryDocLoop
    refine (Spec.bind spec_peek fun t => Spec.ite
      (fun _ => Spec.bind spec_hasErr fun e => Spec.ite (fun _ => Spec.pure doc)
        (fun _ => Spec.bind spec_peekPos fun _ => Spec.bind spec_peek fun t1 =>
          (?_ : Spec _ (fun d a a' => a.σ.head = t1 → DocRel doc d a a'))))
      (fun _ => Spec.pure doc)).mono ?_
    · split
      · rename_i hk
        refine (Spec.bind spec_peek fun t2 => Spec.ite
          (fun _ => Spec.bind (e_parseOperationDefinition m) fun od => ih _)
          (fun _ => Spec.ite (fun _ => Spec.bind (e_parseFragmentDefinition m) fun fd => ih _)
            (fun _ => Spec.of_dead_bind (R := fun _ _ _ => False) unexpectedError_dead))).mono ?_
        rintro d a a'' _ ⟨t2, a1, ⟨rfl, rfl⟩, ⟨_, od, a2, hod, hrest⟩ | ⟨_, ⟨_, fd, a2, hfd, hrest⟩ | ⟨_, hf⟩⟩⟩ hh
        · exact DocRel.peeked (DocRel.cons_op hod hrest)
        · exact DocRel.peeked (DocRel.cons_frag hfd hrest)
        · exact hf.elim
      · rename_i hk
        refine (Spec.bind (e_parseOperationDefinition m) fun od => ih _).mono ?_
        rintro d a a'' _ ⟨od, a2, hod, hrest⟩ hh
        exact DocRel.cons_op hod hrest
      · exact Spec.of_dead_bind unexpectedError_dead
    · rintro d a a'' _ ⟨t, a1, ⟨rfl, rfl⟩, ⟨_, e, a2, ⟨rfl, rfl⟩, ⟨he, _⟩ | ⟨_, _, a3, ⟨rfl, _⟩, t1, a4, ⟨rfl, rfl⟩, h⟩⟩ |
        ⟨hk, rfl, rfl⟩⟩
      · cases he
      · exact DocRel.peeked (DocRel.peeked (DocRel.peeked (h rfl)))
      · simp only [ne_eq, Decidable.not_not] at hk
        exact ⟨[], [], Ate.peeked a, rfl, hk, by simp [opsOf], by simp [fragsOf], .nil⟩

theorem e_parseQueryDocument (n : Nat) : Spec (parseQueryDocument n) (DocRel { ops := [], frags := [] }) :=
  e_queryDocLoop n n _

end Gql.EndToEnd
