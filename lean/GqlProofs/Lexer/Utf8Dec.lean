import GqlProofs.Lexer.SpecSpans
/-
  The decoding bridge between the lexer model (a cursor over BYTES that counts runes) and the
  specification (a list of CODE POINTS): facts about `utf8Encode cps` for lists of Unicode scalar
  values.  A well-formed UTF-8 source is `utf8Encode cps` for a unique list of scalars `cps`
  (`Utf8.decode`, `Utf8.decode_sound`, `Utf8.decode_encode` in `Utf8Valid.lean`).

   * a scalar below 128 is encoded as itself; every byte of the encoding of a scalar ≥ 128 is ≥ 128
     (`encodeRune_high`), so the head byte tells whether the head code point is ASCII
     (`enc_ascii_head`, `enc_high_head`);
   * advancing over one encoded scalar = advancing one code point: `high_step` gives what the
     model's `decodeRune` / `drop (w - 1)` / `take w` logic computes on `encodeRune c ++ Y`;
   * the BOM: `EF BB BF` is the encoding of U+FEFF and of nothing else (`enc_bom`).
-/
namespace Gql.Lexer
open Gql.Lexer.Spec

/-- every element is a Unicode scalar value -/
def AllScalar (l : List Nat) : Prop := ∀ c ∈ l, IsScalar c

theorem AllScalar_nil : AllScalar [] := fun _ h => by simp at h
theorem AllScalar_tail {c : Nat} {l : List Nat} (h : AllScalar (c :: l)) : AllScalar l :=
  fun x hx => h x (by simp [hx])
theorem AllScalar_head {c : Nat} {l : List Nat} (h : AllScalar (c :: l)) : IsScalar c := h c (by simp)
theorem AllScalar_cons {c : Nat} {l : List Nat} (hc : IsScalar c) (hl : AllScalar l) : AllScalar (c :: l) := by
  intro x hx; simp at hx; rcases hx with rfl | hx
  · exact hc
  · exact hl x hx
theorem AllScalar_append {a b : List Nat} (ha : AllScalar a) (hb : AllScalar b) : AllScalar (a ++ b) := by
  intro c hc; simp at hc; rcases hc with hc | hc
  · exact ha c hc
  · exact hb c hc
theorem AllScalar_append_left {a b : List Nat} (h : AllScalar (a ++ b)) : AllScalar a :=
  fun c hc => h c (by simp [hc])
theorem AllScalar_append_right {a b : List Nat} (h : AllScalar (a ++ b)) : AllScalar b :=
  fun c hc => h c (by simp [hc])
theorem AllScalar_drop {l : List Nat} (n : Nat) (h : AllScalar l) : AllScalar (l.drop n) :=
  fun c hc => h c (List.mem_of_mem_drop hc)
theorem AllScalar_take {l : List Nat} (n : Nat) (h : AllScalar l) : AllScalar (l.take n) :=
  fun c hc => h c (List.mem_of_mem_take hc)

theorem IsScalar_of_lt {c : Nat} (h : c < 128) : IsScalar c := by unfold IsScalar; omega
theorem AllScalar_of_ascii {l : List Nat} (h : Ascii l) : AllScalar l := fun c hc => IsScalar_of_lt (h c hc)

theorem utf8Encode_nil : utf8Encode [] = [] := rfl
theorem utf8Encode_append (a b : List Nat) : utf8Encode (a ++ b) = utf8Encode a ++ utf8Encode b := by
  simp [utf8Encode]

theorem utf8Encode_cons_ascii {c : Nat} (h : c < 128) (t : List Nat) :
    utf8Encode (c :: t) = c :: utf8Encode t := by
  rw [utf8Encode_cons, encodeRune_ascii h]; rfl

theorem utf8Encode_ascii_append {a : List Nat} (h : Ascii a) (b : List Nat) :
    utf8Encode (a ++ b) = a ++ utf8Encode b := by
  rw [utf8Encode_append, utf8Encode_ascii a h]

/-- shape of the encoding of a non-ASCII scalar: a lead byte and at least one more byte, all ≥ 128 -/
theorem encodeRune_high_shape {c : Nat} (hc : IsScalar c) (h : 128 ≤ c) :
    ∃ b0 b1 bt, encodeRune c = b0 :: b1 :: bt ∧ 128 ≤ b0 ∧ ∀ b ∈ b1 :: bt, 128 ≤ b := by
  have hc' := hc
  unfold IsScalar at hc'
  have n1 : ¬ c < 0x80 := by omega
  by_cases h2 : c < 0x800
  · rw [encodeRune_two n1 h2]; exact ⟨_, _, _, rfl, by omega, by intro b hb; simp at hb; omega⟩
  · by_cases h3 : c < 0x10000
    · rw [encodeRune_three hc h2 h3]; exact ⟨_, _, _, rfl, by omega, by intro b hb; simp at hb; omega⟩
    · rw [encodeRune_four hc h3]; exact ⟨_, _, _, rfl, by omega, by intro b hb; simp at hb; omega⟩

theorem utf8Encode_eq_nil {l : List Nat} (h : utf8Encode l = []) : l = [] := by
  cases l with
  | nil => rfl
  | cons c t =>
    rw [utf8Encode_cons] at h
    have := encodeRune_length_pos c
    have h' := congrArg List.length h
    simp only [List.length_append, List.length_nil] at h'; omega

/-- head byte below 128: the head code point is that byte -/
theorem enc_ascii_head {l : List Nat} (hs : AllScalar l) {b : Nat} {r : Bytes}
    (h : utf8Encode l = b :: r) (hb : b < 128) : ∃ t, l = b :: t ∧ r = utf8Encode t ∧ AllScalar t := by
  cases l with
  | nil => simp [utf8Encode] at h
  | cons c t =>
    by_cases hc : c < 128
    · rw [utf8Encode_cons_ascii hc] at h
      simp at h
      exact ⟨t, by rw [h.1], h.2.symm, AllScalar_tail hs⟩
    · obtain ⟨b0, b1, bt, e, h0, _⟩ := encodeRune_high_shape (AllScalar_head hs) (by omega)
      rw [utf8Encode_cons, e] at h
      simp at h
      omega

/-- head byte ≥ 128: the head code point is a non-ASCII scalar and the text starts with its encoding -/
theorem enc_high_head {l : List Nat} (hs : AllScalar l) {b : Nat} {r : Bytes}
    (h : utf8Encode l = b :: r) (hb : 128 ≤ b) :
    ∃ c t, l = c :: t ∧ IsScalar c ∧ 128 ≤ c ∧ AllScalar t ∧ b :: r = encodeRune c ++ utf8Encode t := by
  cases l with
  | nil => simp [utf8Encode] at h
  | cons c t =>
    by_cases hc : c < 128
    · rw [utf8Encode_cons_ascii hc] at h
      simp at h
      omega
    · exact ⟨c, t, rfl, AllScalar_head hs, by omega, AllScalar_tail hs, by rw [← h, utf8Encode_cons]⟩

/-- the encoding of a text whose head code point is ≥ 128 starts with a byte ≥ 128 -/
theorem enc_head_high {c : Nat} (hc : IsScalar c) (h : 128 ≤ c) (t : List Nat) :
    ∃ b r, utf8Encode (c :: t) = b :: r ∧ 128 ≤ b := by
  obtain ⟨b0, b1, bt, e, h0, _⟩ := encodeRune_high_shape hc h
  exact ⟨b0, b1 :: bt ++ utf8Encode t, by rw [utf8Encode_cons, e]; rfl, h0⟩

/-- what the model's rune logic computes at an encoded non-ASCII scalar `c` followed by `Y`:
    `decodeRune` returns `c` and its width `w`; `drop (w - 1)` of the tail is `Y`; `take w` is the
    encoding -/
theorem high_step {c : Nat} (hc : IsScalar c) (h128 : 128 ≤ c) (Y : Bytes) {b : Nat} {tl : Bytes}
    (h : b :: tl = encodeRune c ++ Y) :
    128 ≤ b ∧ decodeRune (b :: tl) = (c, (encodeRune c).length) ∧
      tl.drop ((encodeRune c).length - 1) = Y ∧ (b :: tl).take (encodeRune c).length = encodeRune c ∧
      2 ≤ (encodeRune c).length := by
  obtain ⟨b0, b1, bt, e, h0, _⟩ := encodeRune_high_shape hc h128
  have hd := decodeRune_encodeRune hc Y
  rw [← h] at hd
  refine ⟨?_, hd, ?_, ?_, ?_⟩
  · rw [e] at h; simp at h; omega
  · rw [e] at h ⊢; simp at h; rw [h.2]; simp
  · rw [h]; simp
  · rw [e]; simp

theorem encodeRune_bom : encodeRune 0xFEFF = [0xEF, 0xBB, 0xBF] := by decide

/-- `EF BB BF` is the encoding of U+FEFF only -/
theorem enc_bom {c : Nat} (hc : IsScalar c) {Y r' : Bytes}
    (h : encodeRune c ++ Y = 0xEF :: 0xBB :: 0xBF :: r') : c = 0xFEFF ∧ Y = r' := by
  have hd := decodeRune_encodeRune hc Y
  rw [h, decodeRune_three 0xEF 0xBB 0xBF r' (by decide) (by decide) (by decide) (by decide) (by decide) (by decide)] at hd
  have hc' : c = 0xFEFF := by
    have := congrArg Prod.fst hd
    simpa using this.symm
  subst hc'
  rw [encodeRune_bom] at h
  simpa using h

/-- a code point list whose encoding starts with the ASCII byte 10 starts with 10 (used for CRLF) -/
theorem enc_head_eq {l : List Nat} (hs : AllScalar l) {b : Nat} (hb : b < 128) {r : Bytes}
    (h : utf8Encode l = b :: r) : ∃ t, l = b :: t := by
  obtain ⟨t, e, _, _⟩ := enc_ascii_head hs h hb
  exact ⟨t, e⟩

/-- the text is empty or starts with a code point / byte ≥ 128: for every ASCII-only scanner
    (names, numbers, punctuators) this is as good as the end of the text -/
def Opaque (X : List Nat) : Prop := ∀ c t, X = c :: t → 128 ≤ c

theorem Opaque_nil : Opaque [] := fun _ _ h => by simp at h
theorem Opaque_cons {c : Nat} (h : 128 ≤ c) (t : List Nat) : Opaque (c :: t) := by
  intro c' t' e; simp at e; omega

/-- every text splits into its longest ASCII prefix and an opaque rest -/
theorem ascii_split (l : List Nat) : ∃ pre X, l = pre ++ X ∧ Ascii pre ∧ Opaque X := by
  induction l with
  | nil => exact ⟨[], [], rfl, Ascii_nil, Opaque_nil⟩
  | cons c t ih =>
    by_cases hc : c < 128
    · obtain ⟨pre, X, e, h1, h2⟩ := ih
      exact ⟨c :: pre, X, by simp [e], Ascii_cons hc h1, h2⟩
    · exact ⟨[], c :: t, rfl, Ascii_nil, Opaque_cons (by omega) t⟩

/-- the encoding of an opaque text of scalars is opaque -/
theorem Opaque_enc {X : List Nat} (hs : AllScalar X) (h : Opaque X) : Opaque (utf8Encode X) := by
  cases X with
  | nil => exact Opaque_nil
  | cons c t =>
    obtain ⟨b, r, e, hb⟩ := enc_head_high (AllScalar_head hs) (h c t rfl) t
    rw [e]; exact Opaque_cons hb r

theorem NoNL_take {l : List Nat} (n : Nat) (h : NoNL l) : NoNL (l.take n) :=
  fun c hc => h c (List.mem_of_mem_take hc)

end Gql.Lexer
