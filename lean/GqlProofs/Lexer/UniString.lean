import GqlProofs.Lexer.Utf8Dec
import GqlProofs.Lexer.SpecString
/-
  `readStringLoop` (model, on the BYTES `utf8Encode l`) against `Spec.stringBody l` (specification,
  on the CODE POINTS `l`) for every list of Unicode scalar values `l`: same success / failure, same
  extent in code points, value = UTF-8 of the specification's value, the rest is the encoding of the
  specification's rest, the rune counter advances by the number of code points, and the consumed
  characters contain no line terminator.
-/
namespace Gql.Lexer
open Gql.Lexer.Spec

/-- an ASCII prefix of the encoding is a prefix of the code points -/
theorem enc_ascii_prefix (p : Bytes) : ∀ {l : List Nat} {r : Bytes}, AllScalar l → utf8Encode l = p ++ r →
    Ascii p → ∃ t, l = p ++ t ∧ r = utf8Encode t ∧ AllScalar t := by
  induction p with
  | nil => intro l r hs h _; exact ⟨l, rfl, by simpa using h.symm, hs⟩
  | cons b p ih =>
    intro l r hs h hA
    obtain ⟨t, rfl, e, hst⟩ := enc_ascii_head hs (by simpa using h) (Ascii_head hA)
    obtain ⟨t', rfl, e', hst'⟩ := ih hst e.symm (Ascii_tail hA)
    exact ⟨t', rfl, e', hst'⟩

theorem hexValue_ascii {b v : Nat} (h : hexValue b = some v) : b < 128 := by
  unfold hexValue at h
  split at h
  · omega
  · split at h
    · omega
    · split at h
      · omega
      · simp at h

theorem unhex4_ascii {a b c d v : Nat} (h : unhex4 a b c d = some v) : Ascii [a, b, c, d] := by
  unfold unhex4 at h
  cases ha : hexValue a <;> cases hb : hexValue b <;> cases hc : hexValue c <;> cases hd : hexValue d <;>
    simp_all [bind, Option.bind]
  exact Ascii_cons (hexValue_ascii ha) (Ascii_cons (hexValue_ascii hb) (Ascii_cons (hexValue_ascii hc)
    (Ascii_cons (hexValue_ascii hd) Ascii_nil)))

theorem escapeOut_ascii {e v : Nat} (h : escapeOut e = some v) : e < 128 ∧ v < 128 ∧ e ≠ 10 ∧ e ≠ 13 := by
  unfold escapeOut at h
  repeat (split at h; (simp at h; omega))
  simp at h

theorem escapeOut_high {e : Nat} (h : 128 ≤ e) : escapeOut e = none := by
  cases he : escapeOut e with
  | none => rfl
  | some v => have := escapeOut_ascii he; omega

theorem len_le4_or (t : List Nat) : t.length ≤ 4 ∨ ∃ a b c d rest, t = a :: b :: c :: d :: rest := by
  match t with
  | [] => simp
  | [_] => simp
  | [_, _] => simp
  | [_, _, _] => simp
  | a :: b :: c :: d :: rest => exact Or.inr ⟨a, b, c, d, rest, rfl⟩

/-- the model step agrees with the optional (value, length, rest) of the specification -/
def StrMatchesU (q c : Cur) (acc : Bytes) (l : List Cp) (st : Step) (o : Option (List Cp × Nat × List Cp)) : Prop :=
  match o with
  | none => ∃ e, st = .err e
  | some (val, n, r) => ∃ x nb, l = x ++ r ∧ x.length = n ∧ NoNL x ∧
      st = .tok { kind := .string, value := acc.reverse ++ utf8Encode val, start := q.endR,
                  stop := c.endR + n, line := c.line, col := colOf (q.endR + 1) c.ls }
            (utf8Encode r) (c.adv nb n)

theorem StrMatchesU_cons (q c : Cur) (acc : Bytes) (st : Step) (v : Cp) (chunk l' : List Cp) (kb : Nat)
    (o : Option (List Cp × Nat × List Cp)) (hnl : NoNL chunk)
    (h : StrMatchesU q (c.adv kb chunk.length) ((encodeRune v).reverse ++ acc) l' st o) :
    StrMatchesU q c acc (chunk ++ l') st (consVal v chunk.length o) := by
  cases o with
  | none => exact h
  | some p =>
    obtain ⟨val, n, r⟩ := p
    obtain ⟨x, nb, e1, e2, e3, e4⟩ := h
    refine ⟨chunk ++ x, kb + nb, by simp [e1], by simp [e2]; omega, NoNL_append hnl e3, ?_⟩
    rw [e4]
    simp [Cur.adv, utf8Encode_cons, Nat.add_assoc, Nat.add_comm chunk.length n]

theorem readStringLoop_u (q : Cur) (bs : Bytes) (c : Cur) (acc : Bytes) (buf : Bool) :
    ∀ (l : List Cp), AllScalar l → bs = utf8Encode l →
      StrMatchesU q c acc l (readStringLoop q bs c acc buf) (stringBody l) := by
  fun_induction readStringLoop q bs c acc buf
  case case1 =>
    intro l hs hbs
    have := utf8Encode_eq_nil hbs.symm
    subst this
    simp [stringBody_nil, StrMatchesU, mkErr]
  case case2 b tl c acc buf h =>
    intro l hs hbs
    obtain ⟨t, rfl, _, _⟩ := enc_ascii_head hs hbs.symm (by omega)
    rw [stringBody_plain b t (by omega) (by omega)]
    have : isLineTerminatorStart b = true := (isLineTerminatorStart_iff b).2 h
    simp [this, StrMatchesU, mkErr]
  case case3 b tl c acc buf h1 h2 =>
    intro l hs hbs
    obtain ⟨t, rfl, _, _⟩ := enc_ascii_head hs hbs.symm (by omega)
    rw [stringBody_plain b t (by omega) (by omega)]
    have : isSourceChar b = false := by
      cases hsc : isSourceChar b with
      | false => rfl
      | true => have := (isSourceChar_iff b).1 hsc; omega
    simp [this, StrMatchesU, mkErr]
  case case4 tl c acc buf h1 h2 =>
    intro l hs hbs
    obtain ⟨t, rfl, rfl, _⟩ := enc_ascii_head hs hbs.symm (by omega)
    rw [stringBody_quote]
    exact ⟨[34], 1, rfl, rfl, NoNL_cons (by omega) NoNL_nil, by simp [utf8Encode]⟩
  case case5 c acc buf h1 h2 h3 =>
    intro l hs hbs
    obtain ⟨t, rfl, e, _⟩ := enc_ascii_head hs hbs.symm (by omega)
    have := utf8Encode_eq_nil e.symm
    subst this
    simp [stringBody_bs_end, StrMatchesU, mkErr]
  case case6 c acc buf h1 h2 h3 h4 x tl r hr _ _ _ ih =>
    intro l hs hbs
    have hA4 := unhex4_ascii hr
    have hA : Ascii [92, 117, h1, h2, h3, h4] := Ascii_cons (by omega) (Ascii_cons (by omega) hA4)
    obtain ⟨t, rfl, e, hst⟩ := enc_ascii_prefix [92, 117, h1, h2, h3, h4] hs (by simpa using hbs.symm) hA
    have hnl : NoNL [92, 117, h1, h2, h3, h4] := NoNL_cons (by omega) (NoNL_cons (by omega) (unhex4_noNL hr))
    have := StrMatchesU_cons q c acc _ r [92, 117, h1, h2, h3, h4] t 6 (stringBody t) hnl (ih t hst e)
    simpa [stringBody_u4, hr] using this
  case case7 c acc buf h1 h2 h3 h4 x tl hr _ _ _ =>
    intro l hs hbs
    obtain ⟨t, rfl, e, hst⟩ := enc_ascii_prefix [92, 117] hs (by simpa using hbs.symm)
      (Ascii_cons (by omega) (Ascii_cons (by omega) Ascii_nil))
    have hnone : stringBody ([92, 117] ++ t) = none := by
      rcases len_le4_or t with hlen | ⟨a, b, c', d, rest, rfl⟩
      · exact stringBody_u_short t hlen
      · show stringBody (92 :: 117 :: a :: b :: c' :: d :: rest) = none
        rw [stringBody_u4]
        cases hu : unhex4 a b c' d with
        | none => rfl
        | some v =>
          rw [show a :: b :: c' :: d :: rest = [a, b, c', d] ++ rest from rfl,
            utf8Encode_ascii_append (unhex4_ascii hu)] at e
          simp at e
          obtain ⟨rfl, rfl, rfl, rfl, _⟩ := e
          rw [hu] at hr; cases hr
    rw [hnone]
    simp [StrMatchesU, mkErr]
  case case8 c acc buf tl' hn _ _ _ =>
    intro l hs hbs
    obtain ⟨t, rfl, e, hst⟩ := enc_ascii_prefix [92, 117] hs (by simpa using hbs.symm)
      (Ascii_cons (by omega) (Ascii_cons (by omega) Ascii_nil))
    have hnone : stringBody ([92, 117] ++ t) = none := by
      rcases len_le4_or t with hlen | ⟨a, b, c', d, rest, rfl⟩
      · exact stringBody_u_short t hlen
      · show stringBody (92 :: 117 :: a :: b :: c' :: d :: rest) = none
        rw [stringBody_u4]
        cases hu : unhex4 a b c' d with
        | none => rfl
        | some v =>
          rw [show a :: b :: c' :: d :: rest = [a, b, c', d] ++ rest from rfl,
            utf8Encode_ascii_append (unhex4_ascii hu)] at e
          cases rest with
          | nil => simp [stringBody_nil, consVal]
          | cons y ys =>
            cases hy : utf8Encode (y :: ys) with
            | nil => have := utf8Encode_eq_nil hy; simp at this
            | cons z zs =>
              rw [hy] at e
              exact (hn a b c' d z zs (by simpa using e)).elim
    rw [hnone]
    simp [StrMatchesU, mkErr]
  case case9 c acc buf e tl he r hr _ _ _ ih =>
    intro l hs hbs
    have hea := escapeOut_ascii hr
    obtain ⟨t, rfl, e', hst⟩ := enc_ascii_prefix [92, e] hs (by simpa using hbs.symm)
      (Ascii_cons (by omega) (Ascii_cons hea.1 Ascii_nil))
    have hnl : NoNL [92, e] := NoNL_cons (by omega) (NoNL_cons ⟨hea.2.2.1, hea.2.2.2⟩ NoNL_nil)
    have := StrMatchesU_cons q c acc _ r [92, e] t 2 (stringBody t) hnl (by
      rw [encodeRune_ascii hea.2.1]
      exact ih t hst e')
    show StrMatchesU q c acc (92 :: e :: t) _ (stringBody (92 :: e :: t))
    rw [stringBody_esc e t he, hr]
    simpa using this
  case case10 c acc buf e tl he hr _ _ _ =>
    intro l hs hbs
    obtain ⟨t, rfl, e', hst⟩ := enc_ascii_head hs hbs.symm (by omega)
    have hnone : stringBody (92 :: t) = none := by
      cases t with
      | nil => simp [utf8Encode] at e'
      | cons d t' =>
        by_cases hd : d < 128
        · rw [utf8Encode_cons_ascii hd] at e'
          simp at e'
          obtain ⟨rfl, _⟩ := e'
          rw [stringBody_esc e t' he, hr]
        · rw [stringBody_esc d t' (by omega), escapeOut_high (by omega)]
    rw [hnone]
    simp [StrMatchesU, mkErr]
  case case11 b tl c acc buf hb1 hb2 hb3 hb4 r w hd taken ih =>
    intro l hs hbs
    by_cases hb : b < 128
    · obtain ⟨t, rfl, e, hst⟩ := enc_ascii_head hs hbs.symm hb
      have hrw : r = b ∧ w = 1 := by
        split at hd
        · rw [decodeRune_ascii b tl hb] at hd; simp at hd; omega
        · simp at hd; omega
      obtain ⟨rfl, rfl⟩ := hrw
      have ht : taken = [r] := by
        simp [taken]
      rw [stringBody_plain r t hb3 hb4]
      have h1 : isLineTerminatorStart r = false := by
        cases hsc : isLineTerminatorStart r with
        | false => rfl
        | true => have := (isLineTerminatorStart_iff r).1 hsc; omega
      have h2 : isSourceChar r = true := (isSourceChar_iff r).2 (by omega)
      simp only [h1, h2]
      rw [ht]
      rw [ht] at ih
      simp only [Nat.sub_self, List.drop_zero] at ih
      have := StrMatchesU_cons q c acc _ r [r] t 1 (stringBody t) (NoNL_cons (by omega) NoNL_nil) (by
        rw [encodeRune_ascii hb]; exact ih t hst e)
      simpa using this
    · obtain ⟨cp, t, rfl, hcs, hc128, hst, e⟩ := enc_high_head hs hbs.symm (by omega)
      obtain ⟨_, g2, g3, g4, g5⟩ := high_step hcs hc128 (utf8Encode t) e
      have hrw : r = cp ∧ w = (encodeRune cp).length := by
        have h127 : b ≥ 127 := by omega
        simp only [h127, if_true, g2] at hd
        simp at hd; omega
      obtain ⟨rfl, rfl⟩ := hrw
      have ht : taken = encodeRune r := g4
      rw [stringBody_plain r t (by omega) (by omega)]
      have h1 : isLineTerminatorStart r = false := by
        cases hsc : isLineTerminatorStart r with
        | false => rfl
        | true => have := (isLineTerminatorStart_iff r).1 hsc; omega
      have h2 : isSourceChar r = true := (isSourceChar_iff r).2 (by omega)
      simp only [h1, h2]
      rw [ht]
      rw [ht] at ih
      have := StrMatchesU_cons q c acc _ r [r] t (encodeRune r).length (stringBody t)
        (NoNL_cons (by omega) NoNL_nil) (ih t hst g3)
      simpa using this

end Gql.Lexer
