import GqlModel.Lexer.Spec
/-
  `Lexer.blockStringValue` (the model of lexer/blockstring.go) computes the specification's
  BlockStringValue() (`Spec.blockStringValue`, transcribed from §2.9.4) on every raw value that
  contains no CR — which is every raw value the lexer passes: it turns CR and CRLF into LF while
  scanning the block string.
-/
namespace Gql.Lexer
open Gql.Lexer.Spec

theorem splitLines_eq_spec (raw : Bytes) (h : 13 ∉ raw) : splitLinesC raw = splitLines raw := by
  induction raw with
  | nil => rfl
  | cons b t ih =>
    have hb : b ≠ 13 := by intro e; subst e; simp at h
    have ht : 13 ∉ t := by intro e; exact h (List.mem_cons_of_mem _ e)
    have iht := ih ht
    have e : splitLinesC (b :: t) =
        if b = 10 ∨ b = 13 then [] :: splitLinesC t
        else match splitLinesC t with
          | [] => [[b]]
          | l :: ls => (b :: l) :: ls := by
      rw [splitLinesC.eq_def]
      split
      · rename_i heq; simp at heq
      · rename_i heq; simp at heq; exact absurd heq.1 hb
      · rename_i c rest hne heq
        simp at heq
        obtain ⟨rfl, rfl⟩ := heq
        rfl
    rw [e, iht]
    by_cases h10 : b = 10
    · subst h10; simp [splitLines]
    · have hne : ¬ (b = 10 ∨ b = 13) := by omega
      rw [if_neg hne]
      conv => rhs; unfold splitLines
      simp only [h10, if_false]
      cases splitLines t <;> rfl

theorem isBlank_eq (b : Nat) : isBlank b = isWhiteSpace b := by
  simp [isBlank, isWhiteSpace, Bool.or_comm]

theorem leadingWs_spec (l : Bytes) :
    (leadingWs l = none ∧ ¬ leadingWsCount l < l.length ∧ isBlankLine l = true) ∨
    (leadingWs l = some (leadingWsCount l) ∧ leadingWsCount l < l.length ∧ isBlankLine l = false) := by
  induction l with
  | nil => left; simp [leadingWs, leadingWsCount, isBlankLine]
  | cons b t ih =>
    by_cases hb : isBlank b = true
    · have hw : isWhiteSpace b = true := by rw [← isBlank_eq]; exact hb
      rcases ih with ⟨h1, h2, h3⟩ | ⟨h1, h2, h3⟩
      · left
        refine ⟨by simp [leadingWs, hb, h1], by simp [leadingWsCount, hw]; omega, ?_⟩
        simp [isBlankLine] at h3 ⊢
        exact ⟨hw, h3⟩
      · right
        refine ⟨by simp [leadingWs, hb, h1, leadingWsCount, hw], by simp [leadingWsCount, hw]; omega, ?_⟩
        simp only [isBlankLine, List.all_cons, hw, Bool.true_and]
        exact h3
    · have hw : isWhiteSpace b = false := by rw [← isBlank_eq]; simpa using hb
      right
      refine ⟨by simp [leadingWs, hb, leadingWsCount, hw], by simp [leadingWsCount, hw], ?_⟩
      simp [isBlankLine, hw]

theorem commonIndent_eq_spec (ls : List Bytes) : commonIndent ls = commonIndentOf ls := by
  induction ls with
  | nil => rfl
  | cons l t ih =>
    unfold commonIndent commonIndentOf
    rw [ih]
    rcases leadingWs_spec l with ⟨h1, h2, _⟩ | ⟨h1, h2, _⟩
    · simp [h1, h2]
    · simp only [h1, h2, if_true]
      cases commonIndentOf t <;> rfl

theorem dropBlankFront_eq_spec (ls : List Bytes) : dropBlankFront ls = dropWhileBlank ls := by
  induction ls with
  | nil => rfl
  | cons l t ih =>
    unfold dropBlankFront dropWhileBlank
    rcases leadingWs_spec l with ⟨h1, _, h3⟩ | ⟨h1, _, h3⟩
    · simp [h1, h3, ih]
    · simp [h1, h3]

theorem joinLines_eq_spec (ls : List Bytes) : joinLines ls = joinLF ls := by
  induction ls with
  | nil => rfl
  | cons l t ih =>
    cases t with
    | nil => rfl
    | cons l2 t2 => simp only [joinLines, joinLF, ih]

theorem blockStringValue_eq_spec (raw : Bytes) (h : 13 ∉ raw) :
    blockStringValue raw = Spec.blockStringValue raw := by
  unfold blockStringValue Spec.blockStringValue
  rw [splitLines_eq_spec raw h]
  simp only [dropBlankBack, dropBlankFront_eq_spec, joinLines_eq_spec]
  cases splitLines raw with
  | nil => rfl
  | cons first others =>
    simp only [commonIndent_eq_spec]
    cases commonIndentOf others with
    | none => rfl
    | some n => rfl

end Gql.Lexer
