import GqlProofs.Lexer.SpecStep
/-
  Whole inputs: `lexAll` (model) against `Spec.lex` (specification) on ASCII sources, by induction
  over the fuel, using `ws` = a maximal run of `Ignored` items and `step_core` for the token.
-/
namespace Gql.Lexer
open Gql.Lexer.Spec

/-- Every block string the specification's lexer meets (at an item boundary) satisfies
    `NoLongQuoteRun`; `fuel` bounds the number of items walked. -/
def BlocksOK : Nat → List Cp → Bool
  | 0, _ => true
  | fuel + 1, cs =>
    (match cs with
     | 34 :: 34 :: 34 :: body => NoLongQuoteRun body
     | _ => true) &&
    (match item cs with
     | .ignored n => BlocksOK fuel (cs.drop n)
     | .token _ _ n => BlocksOK fuel (cs.drop n)
     | _ => true)

/-- what is compared of a model token -/
def obsT (t : Token) : Kind × Bytes × Nat × Nat := (t.kind, t.value, t.start, t.stop)
/-- what the specification prescribes for it -/
def obsS (s : STok) : Kind × Bytes × Nat × Nat := (s.kind, utf8Encode s.value, s.start, s.stop)

/-- agreement of a model run with a run of the specification -/
def LexAgree (m : LexOut) (s : Out) : Prop :=
  match s with
  | .ok toks => ∃ ts eof, m = .done (ts ++ [eof]) ∧ eof.kind = .eof ∧ eof.value = [] ∧
      ts.map obsT = toks.map obsS
  | .error toks => ∃ ts e, m = .fail ts e ∧ ts.map obsT = toks.map obsS

theorem item_ws (b : Nat) (r : Bytes) (h : b = 9 ∨ b = 32 ∨ b = 44 ∨ b = 10) : item (b :: r) = .ignored 1 := by
  have h1 : (b = 0xFEFF ∨ isWhiteSpace b = true ∨ b = 44 ∨ b = 10) := by
    rw [isWhiteSpace_iff]; omega
  unfold item
  simp only [h1, if_true]

theorem item_crlf (r : Bytes) : item (13 :: 10 :: r) = .ignored 2 := by
  unfold item
  have h1 : ¬ ((13 : Nat) = 0xFEFF ∨ isWhiteSpace 13 = true ∨ (13 : Nat) = 44 ∨ (13 : Nat) = 10) := by decide
  simp only [h1, if_false, if_true]

theorem item_cr (r : Bytes) (h : ∀ r', r = 10 :: r' → False) : item (13 :: r) = .ignored 1 := by
  unfold item
  have h1 : ¬ ((13 : Nat) = 0xFEFF ∨ isWhiteSpace 13 = true ∨ (13 : Nat) = 44 ∨ (13 : Nat) = 10) := by decide
  simp only [h1, if_false, if_true]

theorem lexGo_ignored (g : Nat) (cs : List Cp) (off : Nat) (acc : List STok) (n : Nat)
    (h : item cs = .ignored n) : lexGo (g + 1) cs off acc = lexGo g (cs.drop n) (off + n) acc := by
  simp only [lexGo, h]

theorem BlocksOK_ignored (g : Nat) (cs : List Cp) (n : Nat) (h : item cs = .ignored n)
    (hb : BlocksOK (g + 1) cs = true) : BlocksOK g (cs.drop n) = true := by
  simp only [BlocksOK, h, Bool.and_eq_true] at hb
  exact hb.2

/-- `ws` skips exactly a run of `Ignored` items of the specification -/
theorem lexGo_ws (rest : Bytes) (c : Cur) (hA : Ascii rest) :
    ∀ (off : Nat) (sacc : List STok) (g : Nat), g ≥ rest.length + 1 →
    ∃ g' k, g' ≥ (ws rest c).1.length + 1 ∧ rest.length = k + (ws rest c).1.length ∧
      (ws rest c).2.endR = c.endR + k ∧
      lexGo g rest off sacc = lexGo g' (ws rest c).1 (off + k) sacc ∧
      (BlocksOK g rest = true → BlocksOK g' (ws rest c).1 = true) := by
  fun_induction ws rest c with
  | case1 c => intro off sacc g hg; exact ⟨g, 0, hg, by simp, by simp, by simp, id⟩
  | case2 b r c hb ih =>
    intro off sacc g hg
    obtain ⟨g0, rfl⟩ : ∃ g0, g = g0 + 1 := ⟨g - 1, by simp at hg; omega⟩
    have hit := item_ws b r (by omega)
    obtain ⟨g', k, h1, h2, h3, h4, h5⟩ := ih (Ascii_tail hA) (off + 1) sacc g0 (by simp at hg; omega)
    refine ⟨g', k + 1, h1, by simp [h2]; omega, by rw [h3]; simp [Cur.adv]; omega, ?_, ?_⟩
    · rw [lexGo_ignored g0 _ off sacc 1 hit]
      simpa [Nat.add_assoc, Nat.add_comm 1 k] using h4
    · intro hbk
      exact h5 (by simpa using BlocksOK_ignored g0 _ 1 hit hbk)
  | case3 r c hb1 ih =>
    intro off sacc g hg
    obtain ⟨g0, rfl⟩ : ∃ g0, g = g0 + 1 := ⟨g - 1, by simp at hg; omega⟩
    have hit := item_ws 10 r (by omega)
    obtain ⟨g', k, h1, h2, h3, h4, h5⟩ := ih (Ascii_tail hA) (off + 1) sacc g0 (by simp at hg; omega)
    refine ⟨g', k + 1, h1, by simp [h2]; omega, by rw [h3]; simp [Cur.adv, Cur.newline]; omega, ?_, ?_⟩
    · rw [lexGo_ignored g0 _ off sacc 1 hit]
      simpa [Nat.add_assoc, Nat.add_comm 1 k] using h4
    · intro hbk
      exact h5 (by simpa using BlocksOK_ignored g0 _ 1 hit hbk)
  | case4 c r' hb1 hb2 ih =>
    intro off sacc g hg
    obtain ⟨g0, rfl⟩ : ∃ g0, g = g0 + 1 := ⟨g - 1, by simp at hg; omega⟩
    have hit := item_crlf r'
    obtain ⟨g', k, h1, h2, h3, h4, h5⟩ := ih (Ascii_tail (Ascii_tail hA)) (off + 2) sacc g0 (by simp at hg; omega)
    refine ⟨g', k + 2, h1, by simp [h2]; omega, by rw [h3]; simp [Cur.adv, Cur.newline]; omega, ?_, ?_⟩
    · rw [lexGo_ignored g0 _ off sacc 2 hit]
      simpa [Nat.add_assoc, Nat.add_comm 2 k] using h4
    · intro hbk
      exact h5 (by simpa using BlocksOK_ignored g0 _ 2 hit hbk)
  | case5 c r hr' hb1 hb2 ih =>
    intro off sacc g hg
    obtain ⟨g0, rfl⟩ : ∃ g0, g = g0 + 1 := ⟨g - 1, by simp at hg; omega⟩
    have hit := item_cr r (fun r' e => hr' r' e)
    obtain ⟨g', k, h1, h2, h3, h4, h5⟩ := ih (Ascii_tail hA) (off + 1) sacc g0 (by simp at hg; omega)
    refine ⟨g', k + 1, h1, by simp [h2]; omega, by rw [h3]; simp [Cur.adv, Cur.newline]; omega, ?_, ?_⟩
    · rw [lexGo_ignored g0 _ off sacc 1 hit]
      simpa [Nat.add_assoc, Nat.add_comm 1 k] using h4
    · intro hbk
      exact h5 (by simpa using BlocksOK_ignored g0 _ 1 hit hbk)
  | case6 => exact absurd (Ascii_head hA) (by omega)
  | case7 => exact absurd (Ascii_head hA) (by omega)
  | case8 b r c hb1 hb2 hb3 hb4 =>
    intro off sacc g hg; exact ⟨g, 0, hg, by simp, by simp, by simp, id⟩

/-- the token step under the block-string hypothesis, for every kind -/
theorem stepIs_of_item (rest1 : Bytes) (c1 : Cur) (hA : Ascii rest1) (hH : NotIgnoredHead rest1)
    (k : Kind) (v : List Cp) (n g : Nat) (hit : item rest1 = .token k v n)
    (hb : BlocksOK (g + 1) rest1 = true) : StepIs (readTokenBody rest1 c1) c1 rest1 k v n := by
  have core := step_core rest1 c1 hA hH
  rw [hit] at core
  by_cases hk : k = .blockString
  · subst hk
    simp only [CoreOK, if_true] at core
    obtain ⟨body, raw, nb, r, rfl, hbb, rfl, rfl⟩ := core
    have hq : NoLongQuoteRun body = true := by
      simp only [BlocksOK, Bool.and_eq_true] at hb
      exact hb.1
    exact step_block_ok body c1 (Ascii_tail (Ascii_tail (Ascii_tail hA))) raw nb r hbb hq
  · simpa only [CoreOK, hk, if_false] using core

theorem ws_leaves (rest : Bytes) (c : Cur) (hA : Ascii rest) :
    Ascii (ws rest c).1 ∧ NotIgnoredHead (ws rest c).1 := by
  fun_induction ws rest c with
  | case1 c => exact ⟨hA, trivial⟩
  | case2 b r c hb ih => exact ih (Ascii_tail hA)
  | case3 r c hb1 ih => exact ih (Ascii_tail hA)
  | case4 c r' hb1 hb2 ih => exact ih (Ascii_tail (Ascii_tail hA))
  | case5 c r hr' hb1 hb2 ih => exact ih (Ascii_tail hA)
  | case6 => exact absurd (Ascii_head hA) (by omega)
  | case7 => exact absurd (Ascii_head hA) (by omega)
  | case8 b r c hb1 hb2 hb3 hb4 => exact ⟨hA, by simp only [NotIgnoredHead]; omega⟩

theorem lexGo_succ (g : Nat) (cs : List Cp) (off : Nat) (acc : List STok) :
    lexGo (g + 1) cs off acc =
      match item cs with
      | .eof => .ok acc.reverse
      | .error => .error acc.reverse
      | .ignored n => lexGo g (cs.drop n) (off + n) acc
      | .token k v n => lexGo g (cs.drop n) (off + n)
          ({ kind := k, value := v, start := off, stop := off + n } :: acc) := rfl

theorem lexFuel_succ (f : Nat) (rest : Bytes) (c : Cur) (acc : List Token) :
    lexFuel (f + 1) rest c acc =
      match readTokenBody (ws rest c).1 (ws rest c).2 with
      | .err e => .fail acc.reverse e
      | .tok t rest' c' =>
        if t.kind = .eof then .done (t :: acc).reverse
        else lexFuel f rest' c' (t :: acc) := rfl

theorem lexFuel_lexGo (f : Nat) : ∀ (rest : Bytes) (c : Cur) (off : Nat) (acc : List Token)
    (sacc : List STok) (g : Nat), Ascii rest → f ≥ rest.length + 1 → g ≥ rest.length + 1 →
    c.endR = off → BlocksOK g rest = true → acc.map obsT = sacc.map obsS →
    LexAgree (lexFuel f rest c acc) (lexGo g rest off sacc) := by
  induction f with
  | zero => intro rest c off acc sacc g _ hf; omega
  | succ f0 ih =>
    intro rest c off acc sacc g hA hf hg hc hb hacc
    obtain ⟨g', k, h1, h2, h3, h4, h5⟩ := lexGo_ws rest c hA off sacc g hg
    obtain ⟨hA1, hH1⟩ := ws_leaves rest c hA
    have hb1 := h5 hb
    rw [h4, lexFuel_succ]
    generalize (ws rest c).1 = rest1 at *
    generalize (ws rest c).2 = c1 at *
    obtain ⟨g0, rfl⟩ : ∃ g0, g' = g0 + 1 := ⟨g' - 1, by omega⟩
    rw [lexGo_succ]
    have core := step_core rest1 c1 hA1 hH1
    cases hit : item rest1 with
    | eof =>
      rw [hit] at core
      subst core
      simp only [readTokenBody, simpleTok, if_true, LexAgree]
      refine ⟨acc.reverse, Token.mk .eof [] c1.endR c1.endR c1.line (colOf c1.endR c1.ls),
        by simp, rfl, rfl, ?_⟩
      simp [List.map_reverse, hacc]
    | ignored n => rw [hit] at core; exact core.elim
    | error =>
      rw [hit] at core
      obtain ⟨e, he⟩ := core
      simp only [he, LexAgree]
      exact ⟨acc.reverse, e, rfl, by simp [List.map_reverse, hacc]⟩
    | token kd v n =>
      obtain ⟨t, c', e1, e2, e3, e4, e5, e6, e7⟩ := stepIs_of_item rest1 c1 hA1 hH1 kd v n g0 hit hb1
      have hprog := readTokenBody_progress rest1 c1 rest1.length (Nat.le_refl _)
      rw [e1] at hprog
      have hlt : (rest1.drop n).length < rest1.length := hprog.2 (by rw [e2]; exact e7)
      have hkeof : ¬ t.kind = .eof := by rw [e2]; exact e7
      simp only [e1, hkeof, if_false]
      apply ih
      · exact Ascii_drop n hA1
      · omega
      · omega
      · rw [e6, h3, hc]
      · simp only [BlocksOK, hit, Bool.and_eq_true] at hb1
        exact hb1.2
      · simp only [List.map_cons, hacc, obsT, obsS, e2, e3, e4, e5, h3, hc]

/-- Whole-input agreement of the model with the specification on ASCII sources in which every
    block string satisfies `NoLongQuoteRun`. -/
theorem lexAll_lex (inp : Bytes) (hA : Ascii inp) (hb : BlocksOK (inp.length + 1) inp = true) :
    LexAgree (lexAll inp) (Spec.lex inp) :=
  lexFuel_lexGo _ inp Cur.init 0 [] [] _ hA (Nat.le_refl _) (Nat.le_refl _) rfl hb rfl

/-- the text contains no three consecutive quotes (so no block string at all) -/
def NoTripleQuote : Bytes → Bool
  | [] => true
  | b :: t => (match b :: t with
      | 34 :: 34 :: 34 :: _ => false
      | _ => true) && NoTripleQuote t

theorem NoTripleQuote_drop (n : Nat) : ∀ l : Bytes, NoTripleQuote l = true → NoTripleQuote (l.drop n) = true := by
  induction n with
  | zero => intro l h; simpa using h
  | succ n ih =>
    intro l h
    cases l with
    | nil => simpa using h
    | cons b t =>
      simp only [NoTripleQuote, Bool.and_eq_true] at h
      simpa using ih t h.2

theorem BlocksOK_of_noTriple (g : Nat) : ∀ l : Bytes, NoTripleQuote l = true → BlocksOK g l = true := by
  induction g with
  | zero => intro l _; rfl
  | succ g ih =>
    intro l h
    simp only [BlocksOK, Bool.and_eq_true]
    constructor
    · split
      · simp [NoTripleQuote] at h
      · rfl
    · split
      · exact ih _ (NoTripleQuote_drop _ l h)
      · exact ih _ (NoTripleQuote_drop _ l h)
      · rfl

end Gql.Lexer
