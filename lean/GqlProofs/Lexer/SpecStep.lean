import GqlProofs.Lexer.SpecNumber
import GqlProofs.Lexer.SpecString
import GqlProofs.Lexer.SpecBlock
/-
  One step of the lexer model (`readTokenBody`, i.e. `ReadToken` after `ws`) against one lexical
  item of the specification (`Spec.item`), on ASCII input whose head is not an Ignored character.
-/
namespace Gql.Lexer
open Gql.Lexer.Spec

/-- the head of the text is not an Ignored character (what `ws` leaves, see `C03_ignored_only_ws`) -/
def NotIgnoredHead (l : Bytes) : Prop :=
  match l with
  | [] => True
  | b :: _ => ¬ (b = 9 ∨ b = 32 ∨ b = 44 ∨ b = 10 ∨ b = 13)

theorem item_nil : item [] = .eof := rfl

theorem isWhiteSpace_iff (b : Nat) : isWhiteSpace b = true ↔ (b = 9 ∨ b = 32) := by simp [isWhiteSpace]

/-- `Spec.item` on a head that is neither Ignored nor `#` nor a punctuator -/
theorem item_other (b : Nat) (tl : Bytes) (hb : b < 128) (hi : ¬ (b = 9 ∨ b = 32 ∨ b = 44 ∨ b = 10 ∨ b = 13))
    (h35 : b ≠ 35) (hp : punctOf b = none) :
    item (b :: tl) =
      if b = 46 then (match tl with | 46 :: 46 :: _ => .token .spread [] 3 | _ => .error)
      else if isNameStartC b then
        .token .name (b :: (spanP isNameContinueC tl).1) ((spanP isNameContinueC tl).1.length + 1)
      else if b = 45 ∨ isDigitC b then
        match numberToken (b :: tl) with
        | some (k, lex, _) => .token k lex lex.length
        | none => .error
      else if b = 34 then
        match tl with
        | 34 :: 34 :: body =>
          (match blockBody body with
           | some (raw, n, _) => .token .blockString (Spec.blockStringValue raw) (n + 3)
           | none => .error)
        | body =>
          (match stringBody body with
           | some (val, n, _) => .token .string val (n + 1)
           | none => .error)
      else .error := by
  have h1 : ¬ (b = 0xFEFF ∨ isWhiteSpace b = true ∨ b = 44 ∨ b = 10) := by
    rw [isWhiteSpace_iff]; omega
  have h13 : ¬ b = 13 := by omega
  unfold item
  simp only [h1, h13, h35, hp, if_false]
  rfl

theorem item_comment (tl : Bytes) :
    item (35 :: tl) = .token .comment (35 :: (spanP isCommentChar tl).1) ((spanP isCommentChar tl).1.length + 1) := by
  unfold item
  have h1 : ¬ ((35 : Nat) = 0xFEFF ∨ isWhiteSpace 35 = true ∨ (35 : Nat) = 44 ∨ (35 : Nat) = 10) := by decide
  simp only [h1, if_false]
  rfl

theorem item_punct (b : Nat) (tl : Bytes) (hb : b < 128) (hi : ¬ (b = 9 ∨ b = 32 ∨ b = 44 ∨ b = 10 ∨ b = 13))
    (h35 : b ≠ 35) (k : Kind) (hp : punctOf b = some k) : item (b :: tl) = .token k [] 1 := by
  have h1 : ¬ (b = 0xFEFF ∨ isWhiteSpace b = true ∨ b = 44 ∨ b = 10) := by
    rw [isWhiteSpace_iff]; omega
  have h13 : ¬ b = 13 := by omega
  unfold item
  simp only [h1, h13, h35, hp, if_false]

/-- the model step is the token (kind `k`, value `v`, `n` characters) of the specification -/
def StepIs (st : Step) (c1 : Cur) (rest1 : Bytes) (k : Kind) (v : List Cp) (n : Nat) : Prop :=
  ∃ t c', st = .tok t (rest1.drop n) c' ∧ t.kind = k ∧ t.value = utf8Encode v ∧
    t.start = c1.endR ∧ t.stop = c1.endR + n ∧ c'.endR = c1.endR + n ∧ k ≠ .eof

theorem readTokenBody_punct (b : Nat) (tl : Bytes) (c : Cur) (k : Kind) (h : punct b = some k) :
    readTokenBody (b :: tl) c = simpleTok k [] c 1 1 tl := by
  simp only [readTokenBody, h]

theorem readTokenBody_other (b : Nat) (tl : Bytes) (c : Cur) (h : punct b = none) :
    readTokenBody (b :: tl) c =
      if b = 46 then
        match tl with
        | 46 :: 46 :: tl' => simpleTok .spread [] c 3 3 tl'
        | _ => unexpectedChar c b
      else if b = 35 then
        simpleTok .comment ((b :: tl).take ((commentSpan tl).1 + 1)) c ((commentSpan tl).1 + 1)
          ((commentSpan tl).2.1 + 1) (commentSpan tl).2.2
      else if isNameStart b then
        simpleTok .name (b :: (nameSpan tl).1) c ((nameSpan tl).1.length + 1) ((nameSpan tl).1.length + 1)
          (nameSpan tl).2
      else if b = 45 ∨ isDigit b then readNumber c (b :: tl)
      else if b = 34 then
        match tl with
        | 34 :: 34 :: tl' => readBlockLoop c tl' (c.adv 3 3) []
        | _ => readStringLoop c tl (c.adv 1 1) [] false
      else unexpectedChar c b := by
  simp only [readTokenBody, h]
  rfl

theorem unexpectedChar_err (c : Cur) (b : Nat) : ∃ e, unexpectedChar c b = .err e := by
  unfold unexpectedChar; split <;> (try split) <;> simp [mkErr]

theorem punct_ne_eof {b : Nat} {k : Kind} (h : punct b = some k) : k ≠ .eof := by
  have hm := lookup_mem punctTable b k h
  have hall : ∀ p ∈ punctTable, p.2 ≠ Kind.eof := by decide
  exact hall (b, k) hm

theorem punct_eq_punctOf (b : Nat) (hb : b < 128) : punct b = punctOf b := by
  have : ∀ b < 128, punct b = punctOf b := by decide
  exact this b hb

theorem take_append_len {α} (x r : List α) : (x ++ r).take x.length = x := by simp
theorem drop_append_len {α} (x r : List α) : (x ++ r).drop x.length = r := by simp

theorem step_comment (tl : Bytes) (c1 : Cur) (hA : Ascii (35 :: tl)) :
    StepIs (simpleTok .comment ((35 :: tl).take ((commentSpan tl).1 + 1)) c1 ((commentSpan tl).1 + 1)
          ((commentSpan tl).2.1 + 1) (commentSpan tl).2.2) c1 (35 :: tl) .comment
      (35 :: (spanP isCommentChar tl).1) ((spanP isCommentChar tl).1.length + 1) := by
  have hs := spanP_append isCommentChar tl
  rw [commentSpan_eq_spanP tl (Ascii_tail hA)]
  generalize (spanP isCommentChar tl).1 = x at hs ⊢
  generalize (spanP isCommentChar tl).2 = r at hs ⊢
  subst hs
  have hx : Ascii (35 :: x) := Ascii_cons (by omega) (Ascii_append_left (Ascii_tail hA))
  have hd : (35 :: (x ++ r)).drop (x.length + 1) = r := by simp
  unfold StepIs simpleTok
  rw [hd]
  refine ⟨_, _, rfl, rfl, ?_, rfl, rfl, by simp [Cur.adv], by simp⟩
  rw [utf8Encode_ascii _ hx]
  simp

theorem step_name (b : Nat) (tl : Bytes) (c1 : Cur) (hA : Ascii (b :: tl)) :
    StepIs (simpleTok .name (b :: (nameSpan tl).1) c1 ((nameSpan tl).1.length + 1)
        ((nameSpan tl).1.length + 1) (nameSpan tl).2) c1 (b :: tl) .name
      (b :: (spanP isNameContinueC tl).1) ((spanP isNameContinueC tl).1.length + 1) := by
  have hs := spanP_append isNameContinueC tl
  rw [nameSpan_eq_spanP]
  generalize (spanP isNameContinueC tl).1 = x at hs ⊢
  generalize (spanP isNameContinueC tl).2 = r at hs ⊢
  subst hs
  have hx : Ascii (b :: x) := Ascii_cons (Ascii_head hA) (Ascii_append_left (Ascii_tail hA))
  have hd : (b :: (x ++ r)).drop (x.length + 1) = r := by simp
  unfold StepIs simpleTok
  rw [hd]
  refine ⟨_, _, rfl, rfl, ?_, rfl, rfl, by simp [Cur.adv], by simp⟩
  rw [utf8Encode_ascii _ hx]

theorem finS_kind {k k' : Kind} {x r lex r' : List Cp} (h : finS k x r = some (k', lex, r')) : k' = k := by
  unfold finS at h; split at h <;> simp at h; exact h.1.symm

theorem numTail_kind {x r : List Cp} {k : Kind} {lex r' : List Cp} (h : numTail x r = some (k, lex, r')) :
    k = .int ∨ k = .float := by
  unfold numTail at h
  split at h <;> split at h <;> simp [finS_kind h]

theorem numberToken_kind {cs : List Cp} {k : Kind} {lex r : List Cp} (h : numberToken cs = some (k, lex, r)) :
    k = .int ∨ k = .float := by
  rw [numberToken_eq] at h
  split at h
  · simp at h
  · exact numTail_kind h

theorem step_number (rest0 : Bytes) (c1 : Cur) (hA : Ascii rest0) (k : Kind) (lex r : List Cp)
    (h : numberToken rest0 = some (k, lex, r)) :
    StepIs (readNumber c1 rest0) c1 rest0 k lex lex.length := by
  have hm := readNumber_spec c1 rest0
  rw [h] at hm
  obtain ⟨h1, h2⟩ := hm
  have hk : k ≠ .eof := by
    rcases numberToken_kind h with rfl | rfl <;> simp
  have hx : Ascii lex := by rw [h2] at hA; exact Ascii_append_left hA
  have hd : rest0.drop lex.length = r := by rw [h2]; simp
  unfold StepIs
  rw [h1, hd]
  exact ⟨_, _, rfl, rfl, (utf8Encode_ascii _ hx).symm, rfl, rfl, by simp [Cur.adv], hk⟩

theorem step_string (tl : Bytes) (c1 : Cur) (hA : Ascii tl) (val : List Cp) (n : Nat) (r : List Cp)
    (h : stringBody tl = some (val, n, r)) :
    StepIs (readStringLoop c1 tl (c1.adv 1 1) [] false) c1 (34 :: tl) .string val (n + 1) := by
  have hm := readStringLoop_spec c1 tl (c1.adv 1 1) [] false hA
  have hok := readStringLoop_ok c1 tl (c1.adv 1 1) [] false hA
  rw [h] at hm
  simp only [StrMatches] at hm
  rw [hm] at hok
  obtain ⟨x, e1, _, _, e4, _⟩ := hok
  have hxn : x.length = n := by
    have := congrArg Cur.endR e4
    simp [Cur.adv] at this
    omega
  have hd : (34 :: tl).drop (n + 1) = r := by
    rw [e1, ← hxn]; simp
  unfold StepIs
  rw [hm, hd]
  exact ⟨_, _, rfl, rfl, by simp, rfl, by simp [Cur.adv]; omega, by simp [Cur.adv]; omega, by simp⟩

/-! per-class forms of `Spec.item` and `readTokenBody` -/

theorem item_spread (tl' : Bytes) : item (46 :: 46 :: 46 :: tl') = .token .spread [] 3 := by
  rw [item_other 46 _ (by decide) (by decide) (by decide) (by decide)]
  rfl

theorem item_dot_err (tl : Bytes) (h : ∀ tl', tl = 46 :: 46 :: tl' → False) : item (46 :: tl) = .error := by
  rw [item_other 46 _ (by decide) (by decide) (by decide) (by decide)]
  simp only [if_true]

theorem item_name (b : Nat) (tl : Bytes) (hb : b < 128) (hi : ¬ (b = 9 ∨ b = 32 ∨ b = 44 ∨ b = 10 ∨ b = 13))
    (h35 : b ≠ 35) (hp : punctOf b = none) (h46 : b ≠ 46) (hns : isNameStartC b = true) :
    item (b :: tl) =
      .token .name (b :: (spanP isNameContinueC tl).1) ((spanP isNameContinueC tl).1.length + 1) := by
  rw [item_other b tl hb hi h35 hp]
  simp only [h46, hns, if_false, if_true]

theorem item_number (b : Nat) (tl : Bytes) (hb : b < 128) (hi : ¬ (b = 9 ∨ b = 32 ∨ b = 44 ∨ b = 10 ∨ b = 13))
    (h35 : b ≠ 35) (hp : punctOf b = none) (h46 : b ≠ 46) (hns : ¬ isNameStartC b = true)
    (hnum : b = 45 ∨ isDigitC b = true) :
    item (b :: tl) = match numberToken (b :: tl) with
      | some (k, lex, _) => .token k lex lex.length
      | none => .error := by
  rw [item_other b tl hb hi h35 hp]
  simp only [h46, hns, hnum, Bool.false_eq_true, if_false, if_true]

theorem item_block (body : Bytes) :
    item (34 :: 34 :: 34 :: body) = match blockBody body with
      | some (raw, n, _) => .token .blockString (Spec.blockStringValue raw) (n + 3)
      | none => .error := by
  rw [item_other 34 _ (by decide) (by decide) (by decide) (by decide)]
  rfl

theorem item_string (tl : Bytes) (h : ∀ body, tl = 34 :: 34 :: body → False) :
    item (34 :: tl) = match stringBody tl with
      | some (val, n, _) => .token .string val (n + 1)
      | none => .error := by
  rw [item_other 34 _ (by decide) (by decide) (by decide) (by decide)]
  have h1 : ¬ ((34 : Nat) = 46) := by decide
  have h2 : ¬ (isNameStartC 34 = true) := by decide
  have h3 : ¬ ((34 : Nat) = 45 ∨ isDigitC 34 = true) := by decide
  simp only [h1, h2, h3, Bool.false_eq_true, if_false, if_true]

theorem item_bad (b : Nat) (tl : Bytes) (hb : b < 128) (hi : ¬ (b = 9 ∨ b = 32 ∨ b = 44 ∨ b = 10 ∨ b = 13))
    (h35 : b ≠ 35) (hp : punctOf b = none) (h46 : b ≠ 46) (hns : ¬ isNameStartC b = true)
    (hnum : ¬ (b = 45 ∨ isDigitC b = true)) (h34 : b ≠ 34) : item (b :: tl) = .error := by
  rw [item_other b tl hb hi h35 hp]
  simp only [h46, hns, hnum, h34, Bool.false_eq_true, if_false]

theorem readTokenBody_spread (tl' : Bytes) (c : Cur) :
    readTokenBody (46 :: 46 :: 46 :: tl') c = simpleTok .spread [] c 3 3 tl' := by
  rw [readTokenBody_other 46 _ c (by decide)]
  rfl

theorem readTokenBody_dot_err (tl : Bytes) (c : Cur) (h : ∀ tl', tl = 46 :: 46 :: tl' → False) :
    readTokenBody (46 :: tl) c = unexpectedChar c 46 := by
  rw [readTokenBody_other 46 _ c (by decide)]
  simp only [if_true]

theorem readTokenBody_comment (tl : Bytes) (c : Cur) :
    readTokenBody (35 :: tl) c =
      simpleTok .comment ((35 :: tl).take ((commentSpan tl).1 + 1)) c ((commentSpan tl).1 + 1)
          ((commentSpan tl).2.1 + 1) (commentSpan tl).2.2 := by
  rw [readTokenBody_other 35 _ c (by decide)]
  rfl

theorem readTokenBody_name (b : Nat) (tl : Bytes) (c : Cur) (hp : punct b = none) (h46 : b ≠ 46)
    (h35 : b ≠ 35) (hns : isNameStart b = true) :
    readTokenBody (b :: tl) c =
      simpleTok .name (b :: (nameSpan tl).1) c ((nameSpan tl).1.length + 1) ((nameSpan tl).1.length + 1)
          (nameSpan tl).2 := by
  rw [readTokenBody_other b tl c hp]
  simp only [h46, h35, hns, if_false, if_true]

theorem readTokenBody_number (b : Nat) (tl : Bytes) (c : Cur) (hp : punct b = none) (h46 : b ≠ 46)
    (h35 : b ≠ 35) (hns : ¬ isNameStart b = true) (hnum : b = 45 ∨ isDigit b = true) :
    readTokenBody (b :: tl) c = readNumber c (b :: tl) := by
  rw [readTokenBody_other b tl c hp]
  simp only [h46, h35, hns, hnum, Bool.false_eq_true, if_false, if_true]

theorem readTokenBody_block (body : Bytes) (c : Cur) :
    readTokenBody (34 :: 34 :: 34 :: body) c = readBlockLoop c body (c.adv 3 3) [] := by
  rw [readTokenBody_other 34 _ c (by decide)]
  rfl

theorem readTokenBody_string (tl : Bytes) (c : Cur) (h : ∀ body, tl = 34 :: 34 :: body → False) :
    readTokenBody (34 :: tl) c = readStringLoop c tl (c.adv 1 1) [] false := by
  rw [readTokenBody_other 34 _ c (by decide)]
  have h1 : ¬ ((34 : Nat) = 46) := by decide
  have h2 : ¬ ((34 : Nat) = 35) := by decide
  have h3 : ¬ (isNameStart 34 = true) := by decide
  have h4 : ¬ ((34 : Nat) = 45 ∨ isDigit 34 = true) := by decide
  simp only [h1, h2, h3, h4, Bool.false_eq_true, if_false, if_true]

theorem readTokenBody_bad (b : Nat) (tl : Bytes) (c : Cur) (hp : punct b = none) (h46 : b ≠ 46)
    (h35 : b ≠ 35) (hns : ¬ isNameStart b = true) (hnum : ¬ (b = 45 ∨ isDigit b = true)) (h34 : b ≠ 34) :
    readTokenBody (b :: tl) c = unexpectedChar c b := by
  rw [readTokenBody_other b tl c hp]
  simp only [h46, h35, hns, hnum, h34, Bool.false_eq_true, if_false]

/-- what `step_core` says about an item of the specification -/
def CoreOK (it : Item) (rest1 : Bytes) (c1 : Cur) : Prop :=
  match it with
  | .eof => rest1 = []
  | .ignored _ => False
  | .error => ∃ e, readTokenBody rest1 c1 = .err e
  | .token k v n =>
    if k = .blockString then
      ∃ body raw nb r, rest1 = 34 :: 34 :: 34 :: body ∧ blockBody body = some (raw, nb, r) ∧
        v = Spec.blockStringValue raw ∧ n = nb + 3
    else StepIs (readTokenBody rest1 c1) c1 rest1 k v n

theorem CoreOK_token (k : Kind) (v : List Cp) (n : Nat) (rest1 : Bytes) (c1 : Cur) (hk : k ≠ .blockString)
    (h : StepIs (readTokenBody rest1 c1) c1 rest1 k v n) : CoreOK (.token k v n) rest1 c1 := by
  simp only [CoreOK, hk, if_false]; exact h

/-- One step of the model against one lexical item of the specification. -/
theorem step_core (rest1 : Bytes) (c1 : Cur) (hA : Ascii rest1) (hH : NotIgnoredHead rest1) :
    CoreOK (item rest1) rest1 c1 := by
  cases rest1 with
  | nil => simp [item_nil, CoreOK]
  | cons b tl =>
    have hb := Ascii_head hA
    have hi : ¬ (b = 9 ∨ b = 32 ∨ b = 44 ∨ b = 10 ∨ b = 13) := hH
    by_cases h35 : b = 35
    · subst h35
      rw [item_comment]
      apply CoreOK_token _ _ _ _ _ (by decide)
      rw [readTokenBody_comment]
      exact step_comment tl c1 hA
    · cases hp : punctOf b with
      | some k =>
        rw [item_punct b tl hb hi h35 k hp]
        have hp' : punct b = some k := by rw [punct_eq_punctOf b hb]; exact hp
        have hkb : k ≠ .blockString := by
          have hm := lookup_mem punctTable b k hp'
          have hall : ∀ p ∈ punctTable, p.2 ≠ Kind.blockString := by decide
          exact hall (b, k) hm
        apply CoreOK_token _ _ _ _ _ hkb
        rw [readTokenBody_punct b tl c1 k hp']
        exact ⟨_, _, rfl, rfl, rfl, rfl, rfl, by simp [Cur.adv], punct_ne_eof hp'⟩
      | none =>
        have hp' : punct b = none := by rw [punct_eq_punctOf b hb]; exact hp
        by_cases h46 : b = 46
        · subst h46
          by_cases hsp : ∃ tl', tl = 46 :: 46 :: tl'
          · obtain ⟨tl', rfl⟩ := hsp
            rw [item_spread]
            apply CoreOK_token _ _ _ _ _ (by decide)
            rw [readTokenBody_spread]
            exact ⟨_, _, rfl, rfl, rfl, rfl, rfl, by simp [Cur.adv], by simp⟩
          · have hsp' : ∀ tl', tl = 46 :: 46 :: tl' → False := fun tl' e => hsp ⟨tl', e⟩
            rw [item_dot_err tl hsp']
            simp only [CoreOK]
            rw [readTokenBody_dot_err tl c1 hsp']
            exact unexpectedChar_err _ _
        · by_cases hns : isNameStart b = true
          · rw [item_name b tl hb hi h35 hp h46 hns]
            apply CoreOK_token _ _ _ _ _ (by decide)
            rw [readTokenBody_name b tl c1 hp' h46 h35 hns]
            exact step_name b tl c1 hA
          · by_cases hnum : b = 45 ∨ isDigit b = true
            · rw [item_number b tl hb hi h35 hp h46 hns hnum]
              cases hnt : numberToken (b :: tl) with
              | none =>
                have hm := readNumber_spec c1 (b :: tl)
                rw [hnt] at hm
                simp only [CoreOK]
                rw [readTokenBody_number b tl c1 hp' h46 h35 hns hnum]
                exact hm
              | some p =>
                obtain ⟨k, lex, r⟩ := p
                have hk : k ≠ .blockString := by
                  rcases numberToken_kind hnt with rfl | rfl <;> simp
                apply CoreOK_token _ _ _ _ _ hk
                rw [readTokenBody_number b tl c1 hp' h46 h35 hns hnum]
                exact step_number (b :: tl) c1 hA k lex r hnt
            · by_cases h34 : b = 34
              · subst h34
                by_cases hbl : ∃ body, tl = 34 :: 34 :: body
                · obtain ⟨body, rfl⟩ := hbl
                  rw [item_block]
                  have hm := readBlockLoop_spec c1 body (c1.adv 3 3) []
                    (Ascii_tail (Ascii_tail (Ascii_tail hA)))
                  cases hbb : blockBody body with
                  | none =>
                    rw [hbb] at hm
                    simp only [CoreOK]
                    rw [readTokenBody_block]
                    exact hm
                  | some p =>
                    obtain ⟨raw, nb, r⟩ := p
                    simp only [CoreOK, if_true]
                    exact ⟨body, raw, nb, r, rfl, hbb, rfl, rfl⟩
                · have hbl' : ∀ body, tl = 34 :: 34 :: body → False := fun body e => hbl ⟨body, e⟩
                  rw [item_string tl hbl']
                  cases hsb : stringBody tl with
                  | none =>
                    have hm := readStringLoop_spec c1 tl (c1.adv 1 1) [] false (Ascii_tail hA)
                    rw [hsb] at hm
                    simp only [CoreOK]
                    rw [readTokenBody_string tl c1 hbl']
                    exact hm
                  | some p =>
                    obtain ⟨val, n, r⟩ := p
                    apply CoreOK_token _ _ _ _ _ (by decide)
                    rw [readTokenBody_string tl c1 hbl']
                    exact step_string tl c1 (Ascii_tail hA) val n r hsb
              · rw [item_bad b tl hb hi h35 hp h46 hns hnum h34]
                simp only [CoreOK]
                rw [readTokenBody_bad b tl c1 hp' h46 h35 hns hnum h34]
                exact unexpectedChar_err _ _

/-- the block-string step of the model, exactly, in terms of the specification's `blockBody`: the
    model additionally takes the `quoteRun r` quotes that follow the specification's closing `"""`
    into the value and the extent of what it consumes -/
theorem step_block (body : Bytes) (c1 : Cur) (hA : Ascii body) (raw : List Cp) (nb : Nat) (r : List Cp)
    (h : blockBody body = some (raw, nb, r)) :
    ∃ t c', readTokenBody (34 :: 34 :: 34 :: body) c1 = .tok t (r.drop (quoteRun r)) c' ∧
      t.kind = .blockString ∧ t.start = c1.endR ∧ t.stop = c1.endR + (nb + 3) ∧
      c'.endR = c1.endR + (nb + 3) + quoteRun r ∧
      t.value = blockStringValue (normCR raw ++ List.replicate (quoteRun r) 34) ∧
      r = (34 :: 34 :: 34 :: body).drop (nb + 3) := by
  have hm := readBlockLoop_spec c1 body (c1.adv 3 3) [] hA
  rw [h] at hm
  obtain ⟨c', h1, h2⟩ := hm
  rw [readTokenBody_block, h1]
  refine ⟨_, c', rfl, rfl, rfl, by simp [Cur.adv]; omega, by rw [h2]; simp [Cur.adv]; omega, by simp, ?_⟩
  have := blockBody_drop h
  simpa using this.symm

/-- under `NoLongQuoteRun` the block-string step is the specification's token -/
theorem step_block_ok (body : Bytes) (c1 : Cur) (hA : Ascii body) (raw : List Cp) (nb : Nat) (r : List Cp)
    (h : blockBody body = some (raw, nb, r)) (hq : NoLongQuoteRun body = true) :
    StepIs (readTokenBody (34 :: 34 :: 34 :: body) c1) c1 (34 :: 34 :: 34 :: body) .blockString
      (Spec.blockStringValue raw) (nb + 3) := by
  obtain ⟨t, c', e1, e2, e3, e4, e5, e6, e7⟩ := step_block body c1 hA raw nb r h
  have hq0 : quoteRun r = 0 := by
    unfold NoLongQuoteRun at hq
    rw [h] at hq
    simpa using hq
  rw [hq0] at e1 e5 e6
  simp only [List.drop_zero, List.replicate_zero, List.append_nil, Nat.add_zero] at e1 e5 e6
  refine ⟨t, c', by rw [e1, e7], e2, ?_, e3, e4, e5, by simp⟩
  rw [e6, model_value_eq_spec,
    utf8Encode_ascii _ (specBlockStringValue_ascii raw (blockBody_ascii h hA))]

end Gql.Lexer
