import GqlProofs.Lexer.SpecSpans
import GqlProofs.Lexer.BlockSpec
/-
  `readBlockLoop` (model) against `Spec.blockBody` (specification) on ASCII input.

  The model closes a block string with the LAST three quotes of a run of three or more quotes, the
  specification with the FIRST three (recorded known finding).  `readBlockLoop_spec` characterises
  the model exactly in terms of the specification: same success/failure, and on success the model's
  raw value is the specification's raw value (CR / CRLF normalised to LF) followed by the
  `quoteRun r` extra quotes that directly follow the specification's closing `"""`.  When no quote
  follows (`NoLongQuoteRun`), the two coincide.
-/
namespace Gql.Lexer
open Gql.Lexer.Spec

/-- CRLF and CR replaced by LF: what `readBlockLoop` does to the raw value while scanning -/
def normCR : List Nat → List Nat
  | [] => []
  | 13 :: 10 :: rest => 10 :: normCR rest
  | c :: rest => if c = 13 then 10 :: normCR rest else c :: normCR rest

theorem normCR_nil : normCR [] = [] := by simp [normCR]
theorem normCR_crlf (rest : List Nat) : normCR (13 :: 10 :: rest) = 10 :: normCR rest := by simp [normCR]
theorem normCR_cr (rest : List Nat) (h : ∀ t, rest = 10 :: t → False) : normCR (13 :: rest) = 10 :: normCR rest := by
  rw [normCR.eq_def]
  split
  · rename_i h'; simp at h'
  · rename_i h'; simp at h'; exact (h _ h').elim
  · rename_i h'; simp at h'; obtain ⟨rfl, rfl⟩ := h'; simp
theorem normCR_plain (c : Nat) (rest : List Nat) (hc : c ≠ 13) : normCR (c :: rest) = c :: normCR rest := by
  rw [normCR.eq_def]
  split
  · rename_i h'; simp at h'
  · rename_i h'; simp at h'; exact absurd h'.1 hc
  · rename_i h'; simp at h'; obtain ⟨rfl, rfl⟩ := h'; simp [hc]

theorem normCR_noCR (raw : List Nat) : 13 ∉ normCR raw := by
  fun_induction normCR raw with
  | case1 => simp
  | case2 rest ih => simp [ih]
  | case3 rest h ih => simp [ih]
  | case4 c rest h hc ih => simp [ih]; exact fun h => hc h.symm

theorem splitLinesC_cons (b : Nat) (t : List Nat) (h : b = 13 → ∀ t', t = 10 :: t' → False) :
    splitLinesC (b :: t) =
      if b = 10 ∨ b = 13 then [] :: splitLinesC t
      else match splitLinesC t with
        | [] => [[b]]
        | l :: ls => (b :: l) :: ls := by
  rw [splitLinesC.eq_def]
  split
  · rename_i heq; simp at heq
  · rename_i heq; simp at heq; exact (h heq.1 _ heq.2).elim
  · rename_i c rest hne heq
    simp at heq
    obtain ⟨rfl, rfl⟩ := heq
    rfl

theorem splitLinesC_crlf (t : List Nat) : splitLinesC (13 :: 10 :: t) = [] :: splitLinesC t := by
  simp [splitLinesC]

theorem splitLinesC_normCR (raw : List Nat) : splitLinesC (normCR raw) = splitLinesC raw := by
  fun_induction normCR raw with
  | case1 => rfl
  | case2 rest ih =>
    rw [splitLinesC_crlf, splitLinesC_cons 10 _ (by omega), ih]; simp
  | case3 rest h ih =>
    rw [splitLinesC_cons 10 _ (by omega), splitLinesC_cons 13 rest (fun _ t' ht => h t' rfl ht), ih]; simp
  | case4 c rest h hc ih =>
    rw [splitLinesC_cons c _ (fun h13 => absurd h13 hc), splitLinesC_cons c rest (fun h13 => absurd h13 hc), ih]

theorem blockStringValue_normCR (raw : List Nat) :
    Spec.blockStringValue (normCR raw) = Spec.blockStringValue raw := by
  unfold Spec.blockStringValue
  rw [splitLinesC_normCR]

/-- the model's value algorithm applied to the normalised raw value is the specification's
    BlockStringValue of the raw value -/
theorem model_value_eq_spec (raw : List Nat) :
    blockStringValue (normCR raw) = Spec.blockStringValue raw := by
  rw [blockStringValue_eq_spec _ (normCR_noCR raw), blockStringValue_normCR]

/-- prepend the raw characters `cs` that took `k` source characters -/
def consB (cs : List Cp) (k : Nat) (o : Option (List Cp × Nat × List Cp)) : Option (List Cp × Nat × List Cp) :=
  match o with
  | some (raw, n, r) => some (cs ++ raw, n + k, r)
  | none => none

theorem blockBody_nil : blockBody [] = none := by simp [blockBody]
theorem blockBody_close (rest : List Cp) : blockBody (34 :: 34 :: 34 :: rest) = some ([], 3, rest) := by
  simp [blockBody]
theorem blockBody_esc (rest : List Cp) :
    blockBody (92 :: 34 :: 34 :: 34 :: rest) = consB [34, 34, 34] 4 (blockBody rest) := by
  rw [blockBody]
  cases blockBody rest <;> rfl
theorem blockBody_plain (c : Nat) (rest : List Cp) (h1 : ∀ r, c :: rest = 34 :: 34 :: 34 :: r → False)
    (h2 : ∀ r, c :: rest = 92 :: 34 :: 34 :: 34 :: r → False) :
    blockBody (c :: rest) = if !isSourceChar c then none else consB [c] 1 (blockBody rest) := by
  rw [blockBody.eq_def]
  split
  · rename_i h; simp at h
  · rename_i h; exact (h1 _ h).elim
  · rename_i h; exact (h2 _ h).elim
  · rename_i h
    simp at h
    obtain ⟨rfl, rfl⟩ := h
    split
    · rfl
    · cases blockBody rest <;> rfl

/-- the raw value starts with LF only if the body does -/
theorem blockBody_head_lf (l raw' : List Cp) (n : Nat) (r : List Cp)
    (h : blockBody l = some (10 :: raw', n, r)) : ∃ t, l = 10 :: t := by
  cases l with
  | nil => simp [blockBody_nil] at h
  | cons c rest =>
    by_cases h1 : ∃ r, c :: rest = 34 :: 34 :: 34 :: r
    · obtain ⟨r1, e⟩ := h1
      rw [e, blockBody_close] at h; simp at h
    · by_cases h2 : ∃ r, c :: rest = 92 :: 34 :: 34 :: 34 :: r
      · obtain ⟨r1, e⟩ := h2
        rw [e, blockBody_esc] at h
        cases hb : blockBody r1 with
        | none => simp [hb, consB] at h
        | some p => obtain ⟨a, b, d⟩ := p; simp [hb, consB] at h
      · rw [blockBody_plain c rest (fun r e => h1 ⟨r, e⟩) (fun r e => h2 ⟨r, e⟩)] at h
        split at h
        · simp at h
        · cases hb : blockBody rest with
          | none => simp [hb, consB] at h
          | some p =>
            obtain ⟨a, b, d⟩ := p
            simp [hb, consB] at h
            exact ⟨rest, by rw [h.1.1]⟩

theorem quoteRun_nil : quoteRun [] = 0 := by simp [quoteRun]
theorem quoteRun_ne (a : Nat) (t : Bytes) (h : a ≠ 34) : quoteRun (a :: t) = 0 := by
  unfold quoteRun; split <;> simp_all
theorem quoteRun_q (t : Bytes) : quoteRun (34 :: t) = quoteRun t + 1 := by simp [quoteRun]
theorem quoteRun_pos (l : Bytes) (h : quoteRun l ≥ 1) : ∃ t, l = 34 :: t := by
  cases l with
  | nil => simp [quoteRun_nil] at h
  | cons a t =>
    by_cases ha : a = 34
    · exact ⟨t, by rw [ha]⟩
    · rw [quoteRun_ne a t ha] at h; omega

theorem quoteRun_ge3 (l : Bytes) (h : quoteRun l ≥ 3) :
    ∃ rest, l = 34 :: 34 :: 34 :: rest ∧ quoteRun l = quoteRun rest + 3 := by
  obtain ⟨t1, rfl⟩ := quoteRun_pos l (by omega)
  rw [quoteRun_q] at h ⊢
  obtain ⟨t2, rfl⟩ := quoteRun_pos t1 (by omega)
  rw [quoteRun_q] at h ⊢
  obtain ⟨t3, rfl⟩ := quoteRun_pos t2 (by omega)
  rw [quoteRun_q]
  exact ⟨t3, rfl, rfl⟩

/-- the model step agrees with the optional (raw value, length, rest) of the specification; the
    model additionally swallows the `quoteRun r` quotes that follow the closing `"""` -/
def BlkMatches (q c : Cur) (acc : Bytes) (st : Step) (o : Option (List Cp × Nat × List Cp)) : Prop :=
  match o with
  | none => ∃ e, st = .err e
  | some (raw, n, r) => ∃ c', st = .tok
      { kind := .blockString,
        value := blockStringValue (acc.reverse ++ normCR raw ++ List.replicate (quoteRun r) 34),
        start := q.endR, stop := c.endR + n, line := q.line, col := colOf q.endR q.ls }
      (r.drop (quoteRun r)) c' ∧ c'.endR = c.endR + n + quoteRun r

theorem BlkMatches_cons (q c c2 : Cur) (acc : Bytes) (st : Step) (cs enc : List Nat) (k : Nat)
    (o : Option (List Cp × Nat × List Cp)) (hc : c2.endR = c.endR + k)
    (hn : ∀ raw n r, o = some (raw, n, r) → normCR (cs ++ raw) = enc ++ normCR raw)
    (h : BlkMatches q c2 (enc.reverse ++ acc) st o) : BlkMatches q c acc st (consB cs k o) := by
  cases o with
  | none => exact h
  | some p =>
    obtain ⟨raw, n, r⟩ := p
    obtain ⟨c', h1, h2⟩ := h
    refine ⟨c', ?_, by rw [h2, hc]; omega⟩
    rw [h1, hn raw n r rfl, hc]
    simp [Nat.add_assoc, Nat.add_comm k n]

theorem readBlockLoop_spec (q : Cur) (l : Bytes) (c : Cur) (acc : Bytes) (hA : Ascii l) :
    BlkMatches q c acc (readBlockLoop q l c acc) (blockBody l) := by
  fun_induction readBlockLoop q l c acc
  case case1 => simp [blockBody_nil, BlkMatches, mkErr]
  case case2 b tl c acc n hn =>
    obtain ⟨rest, e, hq⟩ := quoteRun_ge3 (b :: tl) hn.2
    have hn' : n = quoteRun rest + 3 := hq
    clear_value n
    subst hn'
    rw [e, blockBody_close]
    refine ⟨c.adv (quoteRun rest + 3) (quoteRun rest + 3), ?_, by simp [Cur.adv]; omega⟩
    simp [normCR_nil, List.drop_drop]
  case case3 b tl c acc n h1 h2 =>
    have hs : isSourceChar b = false := by
      cases hs : isSourceChar b with
      | false => rfl
      | true => have := (isSourceChar_iff b).1 hs; omega
    rw [blockBody_plain b tl (by intro r e; simp at e; omega) (by intro r e; simp at e; omega)]
    simp [hs, BlkMatches, mkErr]
  case case4 c acc tl' _ n _ ih =>
    rw [blockBody_esc]
    have hA' : Ascii tl' := Ascii_tail (Ascii_tail (Ascii_tail (Ascii_tail hA)))
    exact BlkMatches_cons q c (c.adv 4 4) acc _ [34, 34, 34] [34, 34, 34] 4 _ (by simp [Cur.adv])
      (by intro raw n r _; simp [normCR_plain]) (by simpa using ih hA')
  case case5 c acc tl' hx _ n _ ih =>
    rw [blockBody_plain 92 tl' (by intro r e; simp at e) (by intro r e; simp at e; exact hx _ e)]
    have hs : isSourceChar 92 = true := by decide
    simp only [hs]
    exact BlkMatches_cons q c (c.adv 1 1) acc _ [92] [92] 1 _ (by simp [Cur.adv])
      (by intro raw n r _; simp [normCR_plain]) (by simpa using ih (Ascii_tail hA))
  case case6 c acc r' _ _ n _ ih =>
    rw [blockBody_plain 13 _ (by intro r e; simp at e) (by intro r e; simp at e),
      blockBody_plain 10 r' (by intro r e; simp at e) (by intro r e; simp at e)]
    have hs : isSourceChar 13 = true := by decide
    have hs' : isSourceChar 10 = true := by decide
    simp only [hs, hs']
    have := BlkMatches_cons q c (c.adv 2 2).newline acc _ [13, 10] [10] 2 (blockBody r')
      (by simp [Cur.adv, Cur.newline]) (by intro raw n r _; simp [normCR_crlf])
      (by simpa using ih (Ascii_tail (Ascii_tail hA)))
    cases hb : blockBody r' with
    | none => simpa [hb, consB] using this
    | some p => obtain ⟨a, b, d⟩ := p; simpa [hb, consB, Nat.add_assoc] using this
  case case7 c acc r' hx _ _ n _ ih =>
    rw [blockBody_plain 13 _ (by intro r e; simp at e) (by intro r e; simp at e)]
    have hs : isSourceChar 13 = true := by decide
    simp only [hs]
    exact BlkMatches_cons q c (c.adv 1 1).newline acc _ [13] [10] 1 (blockBody r')
      (by simp [Cur.adv, Cur.newline])
      (by
        intro raw n r hb
        refine normCR_cr raw ?_
        intro t ht
        subst ht
        obtain ⟨t', e⟩ := blockBody_head_lf r' t n r hb
        exact hx t' e)
      (by simpa using ih (Ascii_tail hA))
  case case8 b tl c acc n h1 h2 h3 h4 r w hd c' ih =>
    have hb := Ascii_head hA
    have hrw : r = b ∧ w = 1 := by
      split at hd
      · rw [decodeRune_ascii b tl hb] at hd; simp at hd; omega
      · simp at hd; omega
    obtain ⟨rfl, rfl⟩ := hrw
    have hq : ∀ rr, r :: tl = 34 :: 34 :: 34 :: rr → False := by
      intro rr e
      apply h1
      simp at e
      refine ⟨e.1, ?_⟩
      simp only [n]
      rw [e.1, e.2]; simp [quoteRun]
    rw [blockBody_plain r tl hq (by intro rr e; simp at e; exact h3 e.1)]
    have hs : isSourceChar r = true := (isSourceChar_iff r).2 (by omega)
    simp only [hs]
    simp only [Nat.sub_self, List.drop_zero, encodeRune_ascii hb] at ih ⊢
    refine BlkMatches_cons q c _ acc _ [r] [r] 1 (blockBody tl) ?_
      (by intro raw n r _; simp [normCR_plain _ _ h4]) (by simpa using ih (Ascii_tail hA))
    simp only [c']
    split <;> simp [Cur.adv, Cur.newline]

/-- the first unescaped `"""` of the body is not directly followed by another quote (then the
    model's and the specification's closing quotes coincide); vacuous for unterminated bodies -/
def NoLongQuoteRun (body : List Cp) : Bool :=
  match blockBody body with
  | some (_, _, r) => quoteRun r == 0
  | none => true

/-- extent and provenance of the specification's raw value -/
theorem blockBody_drop_mem (m : Nat) : ∀ (l raw : List Cp) (n : Nat) (r : List Cp), l.length ≤ m →
    blockBody l = some (raw, n, r) → l.drop n = r ∧ ∀ x ∈ raw, x ∈ l := by
  induction m with
  | zero =>
    intro l raw n r hl h
    cases l with
    | nil => simp [blockBody_nil] at h
    | cons c rest => simp at hl
  | succ m ih =>
    intro l raw n r hl h
    cases l with
    | nil => simp [blockBody_nil] at h
    | cons c rest =>
      by_cases h1 : ∃ r1, c :: rest = 34 :: 34 :: 34 :: r1
      · obtain ⟨r1, e⟩ := h1
        rw [e, blockBody_close] at h
        simp at h
        obtain ⟨rfl, rfl, rfl⟩ := h
        rw [e]; simp
      · by_cases h2 : ∃ r1, c :: rest = 92 :: 34 :: 34 :: 34 :: r1
        · obtain ⟨r1, e⟩ := h2
          rw [e, blockBody_esc] at h
          cases hb : blockBody r1 with
          | none => simp [hb, consB] at h
          | some p =>
            obtain ⟨raw', n', r'⟩ := p
            simp [hb, consB] at h
            obtain ⟨rfl, rfl, rfl⟩ := h
            have hl' : r1.length ≤ m := by
              have := congrArg List.length e
              simp at this hl; omega
            obtain ⟨i1, i2⟩ := ih r1 raw' n' r' hl' hb
            rw [e]
            refine ⟨by simpa using i1, ?_⟩
            intro x hx
            simp at hx ⊢
            rcases hx with hx | hx
            · simp [hx]
            · simp [i2 x hx]
        · rw [blockBody_plain c rest (fun r e => h1 ⟨r, e⟩) (fun r e => h2 ⟨r, e⟩)] at h
          split at h
          · simp at h
          · cases hb : blockBody rest with
            | none => simp [hb, consB] at h
            | some p =>
              obtain ⟨raw', n', r'⟩ := p
              simp [hb, consB] at h
              obtain ⟨rfl, rfl, rfl⟩ := h
              obtain ⟨i1, i2⟩ := ih rest raw' n' r' (by simp at hl; omega) hb
              refine ⟨by simpa using i1, ?_⟩
              intro x hx
              simp at hx ⊢
              rcases hx with rfl | hx
              · simp
              · right; exact i2 x hx

theorem blockBody_drop {l raw : List Cp} {n : Nat} {r : List Cp} (h : blockBody l = some (raw, n, r)) :
    l.drop n = r := (blockBody_drop_mem l.length l raw n r (Nat.le_refl _) h).1

theorem blockBody_ascii {l raw : List Cp} {n : Nat} {r : List Cp} (h : blockBody l = some (raw, n, r))
    (hA : Ascii l) : Ascii raw :=
  fun x hx => hA x ((blockBody_drop_mem l.length l raw n r (Nat.le_refl _) h).2 x hx)

/-! the specification's BlockStringValue keeps ASCII -/

def AllAscii (ls : List (List Nat)) : Prop := ∀ l ∈ ls, Ascii l

theorem splitLinesC_ascii (raw : List Nat) (h : Ascii raw) : AllAscii (splitLinesC raw) := by
  fun_induction splitLinesC raw with
  | case1 => intro l hl; simp at hl; subst hl; exact Ascii_nil
  | case2 rest ih =>
    intro l hl; simp at hl
    rcases hl with rfl | hl
    · exact Ascii_nil
    · exact ih (Ascii_tail (Ascii_tail h)) l hl
  | case3 c rest hn hc ih =>
    intro l hl; simp at hl
    rcases hl with rfl | hl
    · exact Ascii_nil
    · exact ih (Ascii_tail h) l hl
  | case4 c rest hn hc hs ih =>
    intro l hl; simp at hl; subst hl
    exact Ascii_cons (Ascii_head h) Ascii_nil
  | case5 c rest hn hc l0 ls hs ih =>
    have ih' := ih (Ascii_tail h)
    rw [hs] at ih'
    intro l hl; simp at hl
    rcases hl with rfl | hl
    · exact Ascii_cons (Ascii_head h) (ih' l0 (by simp))
    · exact ih' l (by simp [hl])

theorem dropWhileBlank_sub (ls : List (List Cp)) : ∀ l ∈ dropWhileBlank ls, l ∈ ls := by
  induction ls with
  | nil => simp [dropWhileBlank]
  | cons a t ih =>
    intro l hl
    unfold dropWhileBlank at hl
    split at hl
    · exact List.mem_cons_of_mem _ (ih l hl)
    · exact hl

theorem joinLF_ascii (ls : List (List Cp)) (h : AllAscii ls) : Ascii (joinLF ls) := by
  induction ls with
  | nil => exact Ascii_nil
  | cons a t ih =>
    cases t with
    | nil => simpa [joinLF] using h a (by simp)
    | cons b t' =>
      simp only [joinLF]
      exact Ascii_append (h a (by simp)) (Ascii_cons (by omega)
        (ih (fun l hl => h l (List.mem_cons_of_mem _ hl))))

theorem specBlockStringValue_ascii (raw : List Nat) (h : Ascii raw) : Ascii (Spec.blockStringValue raw) := by
  unfold Spec.blockStringValue
  have hs := splitLinesC_ascii raw h
  apply joinLF_ascii
  intro l hl
  simp only [List.mem_reverse] at hl
  have hl := dropWhileBlank_sub _ l hl
  simp only [List.mem_reverse] at hl
  have hl := dropWhileBlank_sub _ l hl
  revert hl
  generalize splitLinesC raw = lines at hs
  cases lines with
  | nil => simp
  | cons first others =>
    simp only []
    cases commonIndentOf others with
    | none => intro hl; exact hs l hl
    | some n =>
      intro hl
      simp only [List.mem_cons, List.mem_map] at hl
      rcases hl with rfl | ⟨a, ha, rfl⟩
      · exact hs _ (by simp)
      · exact Ascii_drop n (hs a (by simp [ha]))

end Gql.Lexer
