import GqlProofs.Lexer.SpecNumber
import GqlProofs.Lexer.Utf8Dec
/-
  The number scanners of the specification only ever test for ASCII characters, so a rest that is
  empty or starts with a code point ≥ 128 (`Opaque X`) behaves exactly like the end of the text.
  The prefix `pre` is arbitrary (no ASCII hypothesis).
-/
namespace Gql.Lexer
open Gql.Lexer.Spec

/-- `omega` after exposing `Cp = Nat` (literals from the specification are typed `Cp`) -/
local macro "cpomega" : tactic => `(tactic| ((try simp only [Cp] at *); omega))

theorem isDigitC_high {c : Nat} (h : 128 ≤ c) : isDigitC c = false := by
  simp [isDigitC]; omega

theorem isNameStartC_high {c : Nat} (h : 128 ≤ c) : isNameStartC c = false := by
  have h1 : ¬ c ≤ 90 := by omega
  have h2 : ¬ c ≤ 122 := by omega
  have h3 : ¬ c = 95 := by omega
  simp [isNameStartC, isLetter, h1, h2, h3]

theorem isNameCont_high {c : Nat} (h : 128 ≤ c) : isNameCont c = false := by
  simp [isNameCont, isNameStart, isDigit]; omega

theorem spanP_opaque (p : Cp → Bool) (hp : ∀ c, 128 ≤ c → p c = false) (pre X : List Cp) (hX : Opaque X) :
    spanP p (pre ++ X) = ((spanP p pre).1, (spanP p pre).2 ++ X) := by
  induction pre with
  | nil =>
    cases X with
    | nil => simp [spanP]
    | cons c t => simp [spanP, hp c (hX c t rfl)]
  | cons a pre ih =>
    simp only [List.cons_append, spanP]
    cases h : p a
    · simp
    · simp [ih]

theorem digits1_opaque (pre X : List Cp) (hX : Opaque X) :
    digits1 (pre ++ X) = (digits1 pre).map (fun p => (p.1, p.2 ++ X)) := by
  simp only [digits1, spanP_opaque isDigitC (fun c h => isDigitC_high h) pre X hX]
  cases (spanP isDigitC pre).1.isEmpty <;> simp

theorem intPart_cons (sg : List Cp) (d : Cp) (r : List Cp) (hd : d ≠ 48) :
    intPart sg (d :: r) =
      if isDigitC d then some (sg ++ d :: (spanP isDigitC r).1, (spanP isDigitC r).2) else none := by
  unfold intPart
  split
  · rename_i h; simp at h; exact absurd h.1 hd
  · rename_i h; simp at h; obtain ⟨rfl, rfl⟩ := h; rfl
  · rename_i h; simp at h

/-- the integer part after the sign -/
theorem intPart_opaque (sg pre X : List Cp) (hX : Opaque X) :
    intPart sg (pre ++ X) = (intPart sg pre).map (fun p => (p.1, p.2 ++ X)) := by
  cases pre with
  | nil =>
    cases X with
    | nil => simp [intPart]
    | cons c t =>
      have hc := hX c t rfl
      have h48 : c ≠ 48 := by cpomega
      rw [List.nil_append, intPart_cons sg c t h48]
      simp [isDigitC_high hc, intPart]
  | cons d r =>
    simp only [List.cons_append]
    by_cases h48 : d = 48
    · subst h48; simp [intPart]
    · rw [intPart_cons sg d _ h48, intPart_cons sg d _ h48,
        spanP_opaque isDigitC (fun c h => isDigitC_high h) r X hX]
      cases isDigitC d <;> simp

theorem stripSign_opaque_cons (d : Nat) (r X : List Cp) :
    stripSign (d :: r ++ X) = ((stripSign (d :: r)).1, (stripSign (d :: r)).2 ++ X) := by
  by_cases h : d = 45
  · subst h; simp [stripSign]
  · have e1 : stripSign (d :: r ++ X) = (0, d :: r ++ X) := by
      rw [stripSign.eq_def]; split
      · rename_i h'; simp at h'; omega
      · rfl
    have e2 : stripSign (d :: r) = (0, d :: r) := by
      rw [stripSign.eq_def]; split
      · rename_i h'; simp at h'; omega
      · rfl
    rw [e1, e2]

theorem stripSign_opaque_nil (X : List Cp) (hX : Opaque X) : stripSign X = (0, X) := by
  rw [stripSign.eq_def]; split
  · rename_i t; have := hX 45 t rfl; omega
  · rfl

theorem integerPart_opaque (pre X : List Cp) (hX : Opaque X) :
    integerPart (pre ++ X) = (integerPart pre).map (fun p => (p.1, p.2 ++ X)) := by
  rw [integerPart_eq, integerPart_eq]
  cases pre with
  | nil =>
    have e : stripSign ([] : List Cp) = (0, []) := rfl
    simp only [List.nil_append, stripSign_opaque_nil X hX, e]
    simpa using intPart_opaque (List.replicate 0 45) [] X hX
  | cons d r =>
    rw [stripSign_opaque_cons]
    exact intPart_opaque _ _ X hX

theorem fractionalPart_opaque (pre X : List Cp) (hX : Opaque X) :
    fractionalPart (pre ++ X) = (fractionalPart pre).map (fun p => (p.1, p.2 ++ X)) := by
  cases pre with
  | nil =>
    have e : fractionalPart ([] : List Cp) = none := rfl
    rw [e, List.nil_append]
    exact fractionalPart_nodot X (by intro t ht; have := hX 46 t ht; omega)
  | cons d r =>
    by_cases h : d = 46
    · subst h
      simp only [List.cons_append, fractionalPart, digits1_opaque r X hX]
      cases digits1 r <;> simp
    · rw [fractionalPart_nodot (d :: r) (by intro t ht; simp at ht; cpomega),
        fractionalPart_nodot (d :: r ++ X) (by intro t ht; simp at ht; cpomega)]
      rfl

theorem exponentPart_opaque (pre X : List Cp) (hX : Opaque X) :
    exponentPart (pre ++ X) = (exponentPart pre).map (fun p => (p.1, p.2 ++ X)) := by
  cases pre with
  | nil =>
    rw [exponentPart_nil, List.nil_append]
    cases X with
    | nil => rfl
    | cons c t =>
      have := hX c t rfl
      exact exponentPart_not_e c t (by omega)
  | cons e r =>
    simp only [List.cons_append]
    by_cases he : e = 101 ∨ e = 69
    · cases r with
      | nil =>
        simp only [List.nil_append]
        rw [exponentPart_nosign e [] he (by simp),
          exponentPart_nosign e X he (by intro s t' h; have := hX s t' h; omega)]
        have e1 : digitSpan X = ([], X) := by
          cases X with
          | nil => rfl
          | cons c t =>
            have hd : isDigit c = false := isDigitC_high (hX c t rfl)
            simp [digitSpan, hd]
        simp [e1, digitSpan]
      | cons s r' =>
        simp only [List.cons_append]
        have hsp : digitSpan (r' ++ X) = ((digitSpan r').1, (digitSpan r').2 ++ X) := by
          rw [digitSpan_eq_spanP, digitSpan_eq_spanP]
          exact spanP_opaque isDigitC (fun c h => isDigitC_high h) r' X hX
        have hsp2 : digitSpan (s :: r' ++ X) = ((digitSpan (s :: r')).1, (digitSpan (s :: r')).2 ++ X) := by
          rw [digitSpan_eq_spanP, digitSpan_eq_spanP]
          exact spanP_opaque isDigitC (fun c h => isDigitC_high h) (s :: r') X hX
        by_cases hs : s = 45 ∨ s = 43
        · rw [exponentPart_sign e s _ he hs, exponentPart_sign e s _ he hs, hsp]
          cases (digitSpan r').1.isEmpty <;> simp
        · rw [exponentPart_nosign e (s :: r') he (by intro s' t' h; simp at h; cpomega),
            exponentPart_nosign e (s :: (r' ++ X)) he (by intro s' t' h; simp at h; cpomega)]
          rw [← List.cons_append, hsp2]
          cases (digitSpan (s :: r')).1.isEmpty <;> simp
    · rw [exponentPart_not_e e r he, exponentPart_not_e e (r ++ X) he]
      rfl

theorem numberFollowOk_opaque (r X : List Cp) (hX : Opaque X) :
    numberFollowOk (r ++ X) = numberFollowOk r := by
  cases r with
  | nil =>
    cases X with
    | nil => rfl
    | cons c t =>
      have hc := hX c t rfl
      have h46 : (c == 46) = false := by simp; cpomega
      simp [numberFollowOk, isDigitC_high hc, isNameStartC_high hc, h46]
  | cons c t => rfl

theorem finS_opaque (k : Kind) (lex r X : List Cp) (hX : Opaque X) :
    finS k lex (r ++ X) = (finS k lex r).map (fun p => (p.1, p.2.1, p.2.2 ++ X)) := by
  unfold finS
  rw [numberFollowOk_opaque r X hX]
  cases numberFollowOk r <;> simp

theorem numTail_opaque (x r X : List Cp) (hX : Opaque X) :
    numTail x (r ++ X) = (numTail x r).map (fun p => (p.1, p.2.1, p.2.2 ++ X)) := by
  unfold numTail
  rw [fractionalPart_opaque r X hX]
  cases fractionalPart r with
  | none =>
    simp only [Option.map_none]
    rw [exponentPart_opaque r X hX]
    cases exponentPart r with
    | none => simp only [Option.map_none]; exact finS_opaque _ _ _ X hX
    | some q => simp only [Option.map_some]; exact finS_opaque _ _ _ X hX
  | some q =>
    simp only [Option.map_some]
    rw [exponentPart_opaque q.2 X hX]
    cases exponentPart q.2 with
    | none => simp only [Option.map_none]; exact finS_opaque _ _ _ X hX
    | some q' => simp only [Option.map_some]; exact finS_opaque _ _ _ X hX

/-- main: an opaque rest is as good as the end of the text for IntValue / FloatValue -/
theorem numberToken_opaque (pre X : List Cp) (hX : Opaque X) :
    numberToken (pre ++ X) = (numberToken pre).map (fun p => (p.1, p.2.1, p.2.2 ++ X)) := by
  rw [numberToken_eq, numberToken_eq, integerPart_opaque pre X hX]
  cases integerPart pre with
  | none => rfl
  | some q => simp only [Option.map_some]; exact numTail_opaque _ _ X hX

/- ---------- byte-level companions (model scanners) ---------- -/

theorem nameSpan_opaque (pre X : Bytes) (hX : Opaque X) :
    nameSpan (pre ++ X) = ((nameSpan pre).1, (nameSpan pre).2 ++ X) := by
  induction pre with
  | nil =>
    cases X with
    | nil => simp [nameSpan]
    | cons c t => simp [nameSpan, isNameCont_high (hX c t rfl)]
  | cons a pre ih =>
    simp only [List.cons_append, nameSpan]
    cases h : isNameCont a
    · simp
    · simp [ih]

theorem quoteRun_opaque (pre X : Bytes) (hX : Opaque X) : quoteRun (pre ++ X) = quoteRun pre := by
  induction pre with
  | nil =>
    have e : quoteRun ([] : Bytes) = 0 := by simp [quoteRun]
    rw [e, List.nil_append, quoteRun.eq_def]
    split
    · rename_i t; have := hX 34 t rfl; omega
    · rfl
  | cons a pre ih =>
    by_cases h : a = 34
    · subst h; simp [quoteRun, ih]
    · have e1 : quoteRun (a :: pre ++ X) = 0 := by
        rw [quoteRun.eq_def]; split
        · rename_i h'; simp at h'; omega
        · rfl
      have e2 : quoteRun (a :: pre) = 0 := by
        rw [quoteRun.eq_def]; split
        · rename_i h'; simp at h'; omega
        · rfl
      rw [e1, e2]

end Gql.Lexer
