import GqlModel.Lexer.Model
namespace Gql.Lexer

def Step.followOK (st : Step) : Prop :=
  match st with
  | .tok _ r _ => numFollowBad r = false
  | .err _ => True

theorem numExp_followOK (start : Cur) (rest0 : Bytes) (n : Nat) (r : Bytes) (f : Bool) :
    (numExp start rest0 n r f).followOK := by
  unfold numExp
  repeat' split
  all_goals (try dsimp only)
  all_goals (repeat' split)
  all_goals first
    | (simp only [Step.followOK, mkErr]; done)
    | (simp only [Step.followOK]; simp_all; done)
    | (simp_all [Step.followOK, mkErr]; done)
    | skip

end Gql.Lexer
