import GqlModel.Lexer.Spec
import GqlProofs.Lexer.Progress
/-
  Position invariant of the lexer model against the position specification (`Spec.posAt`):
  while lexing an ASCII source, the cursor's `line` / `lineStartRunes` / `endRunes` always equal
  the specification's count over the consumed prefix.
-/
namespace Gql.Lexer
open Gql.Lexer.Spec

def Ascii (l : Bytes) : Prop := ∀ b ∈ l, b < 128
def NoNL (l : Bytes) : Prop := ∀ b ∈ l, b ≠ 10 ∧ b ≠ 13

def foldPos (s : PState) (l : List Nat) : PState := l.foldl posStep s

@[simp] theorem foldPos_nil (s : PState) : foldPos s [] = s := rfl
@[simp] theorem foldPos_cons (s : PState) (b : Nat) (l : List Nat) :
    foldPos s (b :: l) = foldPos (posStep s b) l := rfl
theorem foldPos_append (s : PState) (a b : List Nat) : foldPos s (a ++ b) = foldPos (foldPos s a) b := by
  simp [foldPos, List.foldl_append]

/-- the cursor agrees with a position state -/
def Agree (s : PState) (c : Cur) : Prop :=
  s.line = c.line ∧ s.ls = c.ls ∧ s.off = c.endR ∧ s.off = c.endB

/-- invariant: cursor agrees with the state, and a pending CR is not followed by LF -/
def Inv (s : PState) (c : Cur) (rest : Bytes) : Prop :=
  Agree s c ∧ (s.cr = true → rest.head? ≠ some 10)

theorem posStep_plain (s : PState) (b : Nat) (h1 : b ≠ 10) (h2 : b ≠ 13) :
    posStep s b = { s with off := s.off + 1, cr := false } := by
  simp [posStep, h1, h2]

theorem foldPos_noNL (s : PState) (x : List Nat) (h : NoNL x) :
    (foldPos s x).line = s.line ∧ (foldPos s x).ls = s.ls ∧ (foldPos s x).off = s.off + x.length ∧
      (x ≠ [] → (foldPos s x).cr = false) := by
  induction x generalizing s with
  | nil => simp
  | cons b t ih =>
    have hb := h b (by simp)
    have ht : NoNL t := fun c hc => h c (by simp [hc])
    have := ih (posStep s b) ht
    rw [posStep_plain s b hb.1 hb.2] at this
    simp only [foldPos_cons, posStep_plain s b hb.1 hb.2]
    refine ⟨this.1, this.2.1, ?_, ?_⟩
    · simp at this ⊢; omega
    · intro _
      cases t with
      | nil => simp
      | cons c t' => exact this.2.2.2 (by simp)

/-- consuming a chunk without line terminators keeps the invariant -/
theorem Inv_noNL (s : PState) (c : Cur) (x rest : Bytes) (h : Agree s c) (hx : NoNL x) (hne : x ≠ []) :
    Inv (foldPos s x) (c.adv x.length x.length) rest := by
  have := foldPos_noNL s x hx
  obtain ⟨a1, a2, a3, a4⟩ := h
  refine ⟨⟨?_, ?_, ?_, ?_⟩, ?_⟩ <;> simp_all [Cur.adv] <;> omega

theorem Ascii_tail {b : Nat} {l : Bytes} (h : Ascii (b :: l)) : Ascii l := fun c hc => h c (by simp [hc])
theorem Ascii_head {b : Nat} {l : Bytes} (h : Ascii (b :: l)) : b < 128 := h b (by simp)
theorem Ascii_append_right {a b : Bytes} (h : Ascii (a ++ b)) : Ascii b := fun c hc => h c (by simp [hc])

/-- `ws` consumes a run `ign` and re-establishes the invariant -/
theorem ws_inv (rest : Bytes) (c : Cur) (s : PState) (hA : Ascii rest) (h : Inv s c rest) :
    ∃ ign, rest = ign ++ (ws rest c).1 ∧ Inv (foldPos s ign) (ws rest c).2 (ws rest c).1 := by
  fun_induction ws rest c generalizing s with
  | case1 c => exact ⟨[], by simp, by simpa using h⟩
  | case2 b r c hb ih =>
    have hne : b ≠ 10 ∧ b ≠ 13 := by omega
    obtain ⟨ign, h1, h2⟩ := ih (posStep s b) (Ascii_tail hA) (by
      rw [posStep_plain s b hne.1 hne.2]
      obtain ⟨⟨a1, a2, a3, a4⟩, _⟩ := h
      exact ⟨⟨by simp [Cur.adv, a1], by simp [Cur.adv, a2], by simp [Cur.adv, a3], by simp [Cur.adv, a3, a4]; omega⟩, by simp⟩)
    exact ⟨b :: ign, by simp [← h1], by simpa using h2⟩
  | case3 r c hb1 ih =>
    obtain ⟨⟨a1, a2, a3, a4⟩, hcr⟩ := h
    have hcr' : s.cr = false := by
      cases hs : s.cr with
      | false => rfl
      | true => exact absurd rfl (hcr hs)
    obtain ⟨ign, h1, h2⟩ := ih (posStep s 10) (Ascii_tail hA) (by
      refine ⟨⟨?_, ?_, ?_, ?_⟩, ?_⟩ <;> simp [posStep, hcr', Cur.adv, Cur.newline, a1, a2, a3] <;> omega)
    exact ⟨10 :: ign, by simp [← h1], by simpa using h2⟩
  | case4 c r' hb1 hb2 ih =>
    obtain ⟨⟨a1, a2, a3, a4⟩, hcr⟩ := h
    obtain ⟨ign, h1, h2⟩ := ih (posStep (posStep s 13) 10) (Ascii_tail (Ascii_tail hA)) (by
      refine ⟨⟨?_, ?_, ?_, ?_⟩, ?_⟩ <;> simp [posStep, Cur.adv, Cur.newline, a1, a2, a3] <;> omega)
    exact ⟨13 :: 10 :: ign, by simp [← h1], by simpa using h2⟩
  | case5 c r hr' hb1 hb2 ih =>
    obtain ⟨⟨a1, a2, a3, a4⟩, hcr⟩ := h
    obtain ⟨ign, h1, h2⟩ := ih (posStep s 13) (Ascii_tail hA) (by
      refine ⟨⟨?_, ?_, ?_, ?_⟩, ?_⟩ <;> simp [posStep, Cur.adv, Cur.newline, a1, a2, a3] <;> try omega
      intro h10
      cases r with
      | nil => simp at h10
      | cons x t => simp at h10; subst h10; exact hr' t rfl)
    exact ⟨13 :: ign, by simp [← h1], by simpa using h2⟩
  | case6 =>
    exact absurd (Ascii_head hA) (by omega)
  | case7 =>
    exact ⟨[], by simp, by simpa using h⟩
  | case8 =>
    exact ⟨[], by simp, by simpa using h⟩

theorem NoNL_nil : NoNL [] := fun _ h => by simp at h
theorem NoNL_cons {b : Nat} {l : Bytes} (hb : b ≠ 10 ∧ b ≠ 13) (hl : NoNL l) : NoNL (b :: l) := by
  intro c hc
  simp at hc
  rcases hc with rfl | hc
  · exact hb
  · exact hl c hc
theorem NoNL_append {a b : Bytes} (ha : NoNL a) (hb : NoNL b) : NoNL (a ++ b) := by
  intro c hc
  simp at hc
  rcases hc with hc | hc
  · exact ha c hc
  · exact hb c hc

theorem isNameCont_noNL {b : Nat} (h : isNameCont b = true) : b ≠ 10 ∧ b ≠ 13 := by
  simp [isNameCont, isNameStart, isDigit] at h; omega
theorem isDigit_noNL {b : Nat} (h : isDigit b = true) : b ≠ 10 ∧ b ≠ 13 := by
  simp [isDigit] at h; omega

theorem nameSpan_split (l : Bytes) : l = (nameSpan l).1 ++ (nameSpan l).2 ∧ NoNL (nameSpan l).1 := by
  fun_induction nameSpan l with
  | case1 => exact ⟨rfl, NoNL_nil⟩
  | case2 b tl hb n r heq ih =>
    simp only [heq] at ih
    exact ⟨by simp [← ih.1], NoNL_cons (isNameCont_noNL hb) ih.2⟩
  | case3 b tl hb => exact ⟨rfl, NoNL_nil⟩

theorem digitSpan_split (l : Bytes) : l = (digitSpan l).1 ++ (digitSpan l).2 ∧ NoNL (digitSpan l).1 := by
  fun_induction digitSpan l with
  | case1 => exact ⟨rfl, NoNL_nil⟩
  | case2 b tl hb n r heq ih =>
    simp only [heq] at ih
    exact ⟨by simp [← ih.1], NoNL_cons (isDigit_noNL hb) ih.2⟩
  | case3 b tl hb => exact ⟨rfl, NoNL_nil⟩

theorem decodeRune_ascii (b : Nat) (tl : Bytes) (h : b < 128) : decodeRune (b :: tl) = (b, 1) := by
  simp [decodeRune, h]

/-- on ASCII input the comment loop consumes `nb = nr` bytes, none of them a line terminator -/
theorem commentSpan_split (l : Bytes) (hA : Ascii l) :
    ∃ x, l = x ++ (commentSpan l).2.2 ∧ NoNL x ∧ (commentSpan l).1 = x.length ∧ (commentSpan l).2.1 = x.length := by
  fun_induction commentSpan l with
  | case1 => exact ⟨[], rfl, NoNL_nil, rfl, rfl⟩
  | case2 b tl r w hd hr nb nr rest heq ih =>
    rw [decodeRune_ascii b tl (Ascii_head hA)] at hd
    simp at hd
    obtain ⟨rfl, rfl⟩ := hd
    simp at ih heq
    obtain ⟨x, h1, h2, h3, h4⟩ := ih (Ascii_tail hA)
    rw [heq] at h1 h3 h4
    simp at h1 h3 h4
    refine ⟨b :: x, by simp [← h1], NoNL_cons (by omega) h2, by simp [h3], by simp [h4]⟩
  | case3 b tl r w hd hr => exact ⟨[], rfl, NoNL_nil, rfl, rfl⟩

/-- a token step that consumed a non-empty, terminator-free chunk of `rest0` starting at `start` -/
def Step.plainTok (st : Step) (start : Cur) (rest0 : Bytes) (δ : Int) : Prop :=
  match st with
  | .err _ => True
  | .tok t r c' => ∃ x, rest0 = x ++ r ∧ x ≠ [] ∧ NoNL x ∧ c' = start.adv x.length x.length ∧
      t.start = start.endR ∧ t.stop = start.endR + x.length ∧ t.line = start.line ∧
      t.col = colOf start.endR start.ls + δ ∧ t.kind ≠ .string

theorem numFin_plain (start : Cur) (rest0 : Bytes) (n : Nat) (r : Bytes) (f : Bool) (x : Bytes)
    (hx : rest0 = x ++ r) (hn : x.length = n) (hnl : NoNL x) (hne : x ≠ []) :
    (if numFollowBad r then mkErr (start.adv n n) (msgExpectedDigit r) else
      Step.tok { kind := if f then .float else .int, value := rest0.take n,
                 start := start.endR, stop := start.endR + n, line := start.line,
                 col := colOf start.endR start.ls } r (start.adv n n)).plainTok start rest0 0 := by
  split
  · simp [Step.plainTok, mkErr]
  · exact ⟨x, hx, hne, hnl, by simp [hn], rfl, by simp [hn], rfl, by simp, by cases f <;> simp⟩

theorem numExp_plain (start : Cur) (rest0 : Bytes) (n : Nat) (r : Bytes) (f : Bool) (x : Bytes)
    (hx : rest0 = x ++ r) (hn : x.length = n) (hnl : NoNL x) (hne : x ≠ []) :
    (numExp start rest0 n r f).plainTok start rest0 0 := by
  unfold numExp
  cases r with
  | nil => exact numFin_plain start rest0 n [] f x hx hn hnl hne
  | cons b t =>
    simp only []
    split
    · rename_i hb
      have hbnl : b ≠ 10 ∧ b ≠ 13 := by omega
      cases t with
      | nil => simp [digitSpan, Step.plainTok, mkErr]
      | cons sg t' =>
        simp only []
        split
        · rename_i hs
          have hsnl : sg ≠ 10 ∧ sg ≠ 13 := by omega
          have hd := digitSpan_split t'
          split
          · simp [Step.plainTok, mkErr]
          · have := numFin_plain start rest0 (n + 2 + (digitSpan t').1.length) (digitSpan t').2 true
              (x ++ b :: sg :: (digitSpan t').1)
              (by rw [hx]; simp; exact hd.1)
              (by simp [hn]; omega)
              (NoNL_append hnl (NoNL_cons hbnl (NoNL_cons hsnl hd.2))) (by simp)
            simpa using this
        · have hd := digitSpan_split (sg :: t')
          split
          · simp [Step.plainTok, mkErr]
          · have := numFin_plain start rest0 (n + 1 + (digitSpan (sg :: t')).1.length) (digitSpan (sg :: t')).2 true
              (x ++ b :: (digitSpan (sg :: t')).1)
              (by rw [hx]; simp; exact hd.1)
              (by simp [hn]; omega)
              (NoNL_append hnl (NoNL_cons hbnl hd.2)) (by simp)
            simpa using this
    · exact numFin_plain start rest0 n (b :: t) f x hx hn hnl hne

theorem numFrac_plain (start : Cur) (rest0 : Bytes) (n : Nat) (r : Bytes) (x : Bytes)
    (hx : rest0 = x ++ r) (hn : x.length = n) (hnl : NoNL x) (hne : x ≠ []) :
    (numFrac start rest0 n r).plainTok start rest0 0 := by
  unfold numFrac
  split
  · rename_i t
    have hd := digitSpan_split t
    simp only []
    split
    · simp [Step.plainTok, mkErr]
    · exact numExp_plain start rest0 _ _ true (x ++ 46 :: (digitSpan t).1)
        (by rw [hx]; simp; exact hd.1) (by simp [hn]; omega)
        (NoNL_append hnl (NoNL_cons (by omega) hd.2)) (by simp)
  · exact numExp_plain start rest0 n r false x hx hn hnl hne

theorem readNumberCore_plain (start : Cur) (rest0 : Bytes) (n1 : Nat) (r1 : Bytes) (x : Bytes)
    (hx : rest0 = x ++ r1) (hn : x.length = n1) (hnl : NoNL x) :
    (readNumberCore start rest0 n1 r1).plainTok start rest0 0 := by
  unfold readNumberCore
  split
  · rename_i t
    split
    · simp [Step.plainTok, mkErr]
    · exact numFrac_plain start rest0 _ t (x ++ [48]) (by rw [hx]; simp) (by simp [hn])
        (NoNL_append hnl (NoNL_cons (by omega) NoNL_nil)) (by simp)
  · have hd := digitSpan_split r1
    split
    · simp [Step.plainTok, mkErr]
    · rename_i hne
      refine numFrac_plain start rest0 _ _ (x ++ (digitSpan r1).1) (by rw [hx]; simp; exact hd.1)
        (by simp [hn]) (NoNL_append hnl hd.2) ?_
      intro h0
      have h1 := (List.append_eq_nil_iff.mp h0).2
      rw [h1] at hne
      exact hne rfl

theorem readNumber_plain (start : Cur) (rest0 : Bytes) : (readNumber start rest0).plainTok start rest0 0 := by
  unfold readNumber
  cases rest0 with
  | nil => exact readNumberCore_plain start [] 0 [] [] rfl rfl NoNL_nil
  | cons b t =>
    by_cases hb : b = 45
    · subst hb
      exact readNumberCore_plain start (45 :: t) 1 t [45] rfl rfl (NoNL_cons (by omega) NoNL_nil)
    · have : stripSign (b :: t) = (0, b :: t) := by
        unfold stripSign; split <;> simp_all
      rw [this]
      exact readNumberCore_plain start (b :: t) 0 (b :: t) [] rfl rfl NoNL_nil

/-- outcome of the string body loop started with cursor `c` on text `l` (opening quote at `q`) -/
def StrOK (q c : Cur) (l : Bytes) (st : Step) : Prop :=
  match st with
  | .err _ => True
  | .tok t r c' => ∃ x, l = x ++ r ∧ x ≠ [] ∧ NoNL x ∧ c' = c.adv x.length x.length ∧
      t.start = q.endR ∧ t.stop = c.endR + x.length ∧ t.line = c.line ∧
      t.col = colOf (q.endR + 1) c.ls ∧ t.kind = .string

theorem StrOK_extend (q c : Cur) (chunk l' : Bytes) (st : Step) (k : Nat) (hk : chunk.length = k)
    (hnl : NoNL chunk) (h : StrOK q (c.adv k k) l' st) : StrOK q c (chunk ++ l') st := by
  cases st with
  | err e => trivial
  | tok t r c' =>
    obtain ⟨x, h1, h2, h3, h4, h5, h6, h7, h8, h9⟩ := h
    refine ⟨chunk ++ x, by simp [h1], by simp [h2], NoNL_append hnl h3, ?_, h5, ?_, ?_, ?_, h9⟩
    · simp [h4, Cur.adv, hk]; omega
    · simp [h6, Cur.adv, hk]; omega
    · simpa [Cur.adv] using h7
    · simpa [Cur.adv] using h8

theorem hexValue_noNL {b v : Nat} (h : hexValue b = some v) : b ≠ 10 ∧ b ≠ 13 := by
  unfold hexValue at h
  split at h
  · omega
  · split at h
    · omega
    · split at h
      · omega
      · simp at h

theorem unhex4_noNL {a b c d v : Nat} (h : unhex4 a b c d = some v) :
    NoNL [a, b, c, d] := by
  unfold unhex4 at h
  cases ha : hexValue a <;> cases hb : hexValue b <;> cases hc : hexValue c <;> cases hd : hexValue d <;>
    simp_all [bind, Option.bind]
  exact NoNL_cons (hexValue_noNL ha) (NoNL_cons (hexValue_noNL hb) (NoNL_cons (hexValue_noNL hc)
    (NoNL_cons (hexValue_noNL hd) NoNL_nil)))

theorem readStringLoop_ok (q : Cur) (l : Bytes) (c : Cur) (acc : Bytes) (buf : Bool) (hA : Ascii l) :
    StrOK q c l (readStringLoop q l c acc buf) := by
  fun_induction readStringLoop q l c acc buf
  all_goals (try (simp only [StrOK, mkErr]; done))
  case case4 tl c acc buf h1 h2 =>
    exact ⟨[34], by simp, by simp, NoNL_cons (by omega) NoNL_nil, by simp, rfl, by simp, rfl, rfl, rfl⟩
  case case6 c acc buf h1 h2 h3 h4 x tl r hr _ _ _ ih =>
    have hA' : Ascii (x :: tl) := fun y hy => hA y (by simp at hy ⊢; rcases hy with rfl | hy <;> simp_all)
    have := StrOK_extend q c [92, 117, h1, h2, h3, h4] (x :: tl) _ 6 rfl
      (NoNL_cons (by omega) (NoNL_cons (by omega) (unhex4_noNL hr))) (ih hA')
    simpa using this
  case case9 c acc buf e tl he r hr _ _ _ ih =>
    have hA' : Ascii tl := Ascii_tail (Ascii_tail hA)
    have he' : e ≠ 10 ∧ e ≠ 13 := by
      unfold escapeOut at hr
      split at hr
      · omega
      · split at hr
        · omega
        · split at hr
          · omega
          · split at hr
            · omega
            · split at hr
              · omega
              · split at hr
                · omega
                · simp at hr
    have := StrOK_extend q c [92, e] tl _ 2 rfl (NoNL_cons (by omega) (NoNL_cons he' NoNL_nil)) (ih hA')
    simpa using this
  case case11 b tl c acc buf hb1 hb2 hb3 hb4 r w hd taken ih =>
    have hb := Ascii_head hA
    have hw : w = 1 := by
      split at hd
      · rw [decodeRune_ascii b tl hb] at hd; simp at hd; omega
      · simp at hd; omega
    subst hw
    simp at ih
    have := StrOK_extend q c [b] tl _ 1 rfl (NoNL_cons (by omega) NoNL_nil) (ih (Ascii_tail hA))
    simpa using this

/-- outcome of the block-string body loop started in position state `s` with cursor `c` on `l` -/
def BlkOK (q : Cur) (s : PState) (c : Cur) (l : Bytes) (st : Step) : Prop :=
  match st with
  | .err _ => True
  | .tok t r c' => ∃ x, l = x ++ r ∧ Inv (foldPos s x) c' r ∧ t.start = q.endR ∧ t.line = q.line ∧
      t.col = colOf q.endR q.ls ∧ t.stop ≤ c.endR + x.length ∧ c.endR ≤ t.stop ∧ t.kind = .blockString

theorem BlkOK_extend (q : Cur) (s : PState) (c c2 : Cur) (chunk l' : Bytes) (st : Step)
    (h1 : c.endR ≤ c2.endR) (h2 : c2.endR ≤ c.endR + chunk.length)
    (h : BlkOK q (foldPos s chunk) c2 l' st) : BlkOK q s c (chunk ++ l') st := by
  cases st with
  | err e => trivial
  | tok t r c' =>
    obtain ⟨x, e1, e2, e3, e4, e5, e6, e7, e8⟩ := h
    refine ⟨chunk ++ x, by simp [e1], by rw [foldPos_append]; exact e2, e3, e4, e5, ?_, ?_, e8⟩
    · simp; omega
    · omega

theorem quoteRun_take (l : Bytes) : (l.take (quoteRun l)).length = quoteRun l ∧ NoNL (l.take (quoteRun l)) := by
  fun_induction quoteRun l with
  | case1 t ih => exact ⟨by simp [ih.1], by simpa using NoNL_cons (by omega) ih.2⟩
  | case2 l h => exact ⟨by simp, by simpa using NoNL_nil⟩

theorem Agree_adv_plain (s : PState) (c : Cur) (b : Nat) (h : Agree s c) (h1 : b ≠ 10) (h2 : b ≠ 13) :
    Agree (posStep s b) (c.adv 1 1) := by
  rw [posStep_plain s b h1 h2]
  obtain ⟨a1, a2, a3, a4⟩ := h
  exact ⟨by simp [Cur.adv, a1], by simp [Cur.adv, a2], by simp [Cur.adv, a3], by simp [Cur.adv, a3, a4]; omega⟩

theorem readBlockLoop_ok (q : Cur) (l : Bytes) (c : Cur) (acc : Bytes) (s : PState)
    (hA : Ascii l) (h : Inv s c l) : BlkOK q s c l (readBlockLoop q l c acc) := by
  fun_induction readBlockLoop q l c acc generalizing s
  all_goals (try (simp only [BlkOK, mkErr]; done))
  case case2 b tl c acc n hn =>
    obtain ⟨hb, hn3⟩ := hn
    have hq := quoteRun_take (b :: tl)
    have hne : (b :: tl).take n ≠ [] := by
      intro h0
      have : ((b :: tl).take n).length = 0 := by simp [h0]
      simp only [n] at this hn3
      omega
    refine ⟨(b :: tl).take n, by simp, ?_, rfl, rfl, rfl, ?_, by simp, rfl⟩
    · have := Inv_noNL s c ((b :: tl).take n) ((b :: tl).drop n) h.1 hq.2 hne
      simp only [n] at this ⊢
      rwa [hq.1] at this
    · simp only [n] at hn3 ⊢
      rw [hq.1]; simp; omega
  case case4 c acc tl' _ n _ ih =>
    have hA' : Ascii tl' := Ascii_tail (Ascii_tail (Ascii_tail (Ascii_tail hA)))
    have hnl : NoNL [92, 34, 34, 34] := NoNL_cons (by omega) (NoNL_cons (by omega) (NoNL_cons (by omega) (NoNL_cons (by omega) NoNL_nil)))
    have hinv := Inv_noNL s c [92, 34, 34, 34] tl' h.1 hnl (by simp)
    have := BlkOK_extend q s c (c.adv 4 4) [92, 34, 34, 34] tl' _ (by simp [Cur.adv]) (by simp [Cur.adv])
      (ih _ hA' hinv)
    simpa using this
  case case5 c acc tl' _ _ n _ ih =>
    have hinv := Inv_noNL s c [92] tl' h.1 (NoNL_cons (by omega) NoNL_nil) (by simp)
    have := BlkOK_extend q s c (c.adv 1 1) [92] tl' _ (by simp [Cur.adv]) (by simp [Cur.adv])
      (ih _ (Ascii_tail hA) hinv)
    simpa using this
  case case6 c acc r' _ _ n _ ih =>
    obtain ⟨⟨a1, a2, a3, a4⟩, hcr⟩ := h
    have hinv : Inv (foldPos s [13, 10]) (c.adv 2 2).newline r' := by
      refine ⟨⟨?_, ?_, ?_, ?_⟩, ?_⟩ <;> simp [posStep, Cur.adv, Cur.newline, a1, a3] <;> omega
    have := BlkOK_extend q s c (c.adv 2 2).newline [13, 10] r' _ (by simp [Cur.adv, Cur.newline])
      (by simp [Cur.adv, Cur.newline]) (ih _ (Ascii_tail (Ascii_tail hA)) hinv)
    simpa using this
  case case7 c acc r' hr' _ _ n _ ih =>
    obtain ⟨⟨a1, a2, a3, a4⟩, hcr⟩ := h
    have hinv : Inv (foldPos s [13]) (c.adv 1 1).newline r' := by
      refine ⟨⟨?_, ?_, ?_, ?_⟩, ?_⟩ <;> simp [posStep, Cur.adv, Cur.newline, a1, a3] <;> try omega
      intro h10
      cases r' with
      | nil => simp at h10
      | cons x t => simp at h10; subst h10; exact hr' t rfl
    have := BlkOK_extend q s c (c.adv 1 1).newline [13] r' _ (by simp [Cur.adv, Cur.newline])
      (by simp [Cur.adv, Cur.newline]) (ih _ (Ascii_tail hA) hinv)
    simpa using this
  case case8 b tl c acc n _ hb2 hb3 hb4 r w hd c' ih =>
    have hb := Ascii_head hA
    have hw : w = 1 := by
      split at hd
      · rw [decodeRune_ascii b tl hb] at hd; simp at hd; omega
      · simp at hd; omega
    subst hw
    simp only [Nat.sub_self, List.drop_zero] at ih ⊢
    obtain ⟨⟨a1, a2, a3, a4⟩, hcr⟩ := h
    by_cases h10 : b = 10
    · subst h10
      have hcr' : s.cr = false := by
        cases hs : s.cr with
        | false => rfl
        | true => exact absurd rfl (hcr hs)
      have hinv : Inv (foldPos s [10]) (c.adv 1 1).newline tl := by
        refine ⟨⟨?_, ?_, ?_, ?_⟩, ?_⟩ <;> simp [posStep, hcr', Cur.adv, Cur.newline, a1, a3] <;> omega
      have := BlkOK_extend q s c (c.adv 1 1).newline [10] tl _ (by simp [Cur.adv, Cur.newline])
        (by simp [Cur.adv, Cur.newline]) (by simpa [c'] using ih _ (Ascii_tail hA) (by simpa [c'] using hinv))
      simpa [c'] using this
    · have hinv := Inv_noNL s c [b] tl ⟨a1, a2, a3, a4⟩ (NoNL_cons ⟨h10, hb4⟩ NoNL_nil) (by simp)
      have := BlkOK_extend q s c (c.adv 1 1) [b] tl _ (by simp [Cur.adv]) (by simp [Cur.adv])
        (by simpa [c', h10] using ih _ (Ascii_tail hA) (by simpa [c', h10] using hinv))
      simpa [c', h10] using this

/-- a token produced at the (post-`ws`) state `s1` / cursor on text `rest1` -/
def TokAt (s1 : PState) (rest1 : Bytes) (st : Step) : Prop :=
  match st with
  | .err _ => True
  | .tok t rest' c' => ∃ x, rest1 = x ++ rest' ∧ Inv (foldPos s1 x) c' rest' ∧
      t.start = s1.off ∧ t.line = s1.line ∧
      t.col = colOf s1.off s1.ls + (if t.kind = .string then 1 else 0) ∧
      t.start ≤ t.stop ∧ t.stop ≤ s1.off + x.length

theorem simpleTok_at (s1 : PState) (c1 : Cur) (k : Kind) (v x rest' : Bytes) (hk : k ≠ .string)
    (h : Agree s1 c1) (hx : NoNL x) (hne : x ≠ []) :
    TokAt s1 (x ++ rest') (simpleTok k v c1 x.length x.length rest') := by
  obtain ⟨a1, a2, a3, a4⟩ := h
  refine ⟨x, rfl, Inv_noNL s1 c1 x rest' ⟨a1, a2, a3, a4⟩ hx hne, a3.symm, a1.symm, ?_, ?_, ?_⟩
  · simp [hk, a2, a3]
  · simp
  · simp [a3]

theorem plainTok_at (s1 : PState) (c1 : Cur) (rest1 : Bytes) (st : Step) (h : Agree s1 c1)
    (hp : st.plainTok c1 rest1 0) : TokAt s1 rest1 st := by
  cases st with
  | err e => trivial
  | tok t r c' =>
    obtain ⟨x, e1, e2, e3, e4, e5, e6, e7, e8, hk⟩ := hp
    obtain ⟨a1, a2, a3, a4⟩ := h
    refine ⟨x, e1, ?_, by rw [e5, a3], by rw [e7, a1], ?_, by omega, by omega⟩
    · rw [e4]; exact Inv_noNL s1 c1 x r ⟨a1, a2, a3, a4⟩ e3 e2
    · simp [e8, hk, a2, a3]

theorem unexpectedChar_at (s1 : PState) (rest1 : Bytes) (c : Cur) (b : Nat) : TokAt s1 rest1 (unexpectedChar c b) := by
  unfold unexpectedChar; split <;> (try split) <;> simp [TokAt, mkErr]

theorem strOK_at (s1 : PState) (c1 : Cur) (tl : Bytes) (st : Step) (h : Agree s1 c1)
    (hs : StrOK c1 (c1.adv 1 1) tl st) : TokAt s1 (34 :: tl) st := by
  cases st with
  | err e => trivial
  | tok t r c' =>
    obtain ⟨x, e1, e2, e3, e4, e5, e6, e7, e8, e9⟩ := hs
    obtain ⟨a1, a2, a3, a4⟩ := h
    have hinv := Inv_noNL s1 c1 (34 :: x) r ⟨a1, a2, a3, a4⟩ (NoNL_cons (by omega) e3) (by simp)
    refine ⟨34 :: x, by simp [e1], ?_, by rw [e5, a3], by rw [e7]; simp [Cur.adv, a1], ?_, ?_, ?_⟩
    · rw [e4]
      have hc : (c1.adv 1 1).adv x.length x.length = c1.adv (34 :: x).length (34 :: x).length := by
        simp [Cur.adv]; omega
      rw [hc]; exact hinv
    · simp [e8, e9, Cur.adv, a2, a3, colOf]; omega
    · rw [e5, e6]; simp [Cur.adv]; omega
    · rw [e6]; simp [Cur.adv, a3]; omega

theorem blkOK_at (s1 : PState) (c1 : Cur) (tl : Bytes) (st : Step) (h : Agree s1 c1)
    (hs : BlkOK c1 (foldPos s1 [34, 34, 34]) (c1.adv 3 3) tl st) : TokAt s1 (34 :: 34 :: 34 :: tl) st := by
  cases st with
  | err e => trivial
  | tok t r c' =>
    obtain ⟨x, e1, e2, e3, e4, e5, e6, e7, e8⟩ := hs
    obtain ⟨a1, a2, a3, a4⟩ := h
    refine ⟨34 :: 34 :: 34 :: x, by simp [e1], ?_, by rw [e3, a3], by rw [e4, a1], ?_, ?_, ?_⟩
    · have : foldPos s1 (34 :: 34 :: 34 :: x) = foldPos (foldPos s1 [34, 34, 34]) x := by
        rw [← foldPos_append]; rfl
      rw [this]; exact e2
    · simp [e5, e8, a2, a3]
    · simp [Cur.adv] at e7; omega
    · simp [Cur.adv] at e6 ⊢; omega

theorem lookup_mem {α} (l : List (Nat × α)) (b : Nat) (k : α) (h : l.lookup b = some k) : (b, k) ∈ l := by
  induction l with
  | nil => simp at h
  | cons p t ih =>
    obtain ⟨x, y⟩ := p
    simp only [List.lookup_cons] at h
    by_cases hx : b = x
    · subst hx; simp at h; subst h; simp
    · have : (b == x) = false := by simpa using hx
      rw [this] at h
      exact List.mem_cons_of_mem _ (ih h)

theorem punct_noNL {b : Nat} {k : Kind} (h : punct b = some k) : b ≠ 10 ∧ b ≠ 13 ∧ k ≠ .string := by
  have hm := lookup_mem punctTable b k h
  have hall : ∀ p ∈ punctTable, p.1 ≠ 10 ∧ p.1 ≠ 13 ∧ p.2 ≠ Kind.string := by decide
  exact hall (b, k) hm

/-- the token produced after `ws` (state `s1`, cursor `c1`, text `rest1`) -/
theorem readTokenBody_at (s1 : PState) (c1 : Cur) (rest1 : Bytes) (hA : Ascii rest1) (h : Inv s1 c1 rest1) :
    TokAt s1 rest1 (readTokenBody rest1 c1) := by
  obtain ⟨hag, hcr⟩ := h
  unfold readTokenBody
  cases rest1 with
  | nil =>
    obtain ⟨a1, a2, a3, a4⟩ := hag
    exact ⟨[], rfl, ⟨⟨a1, a2, a3, a4⟩, by simp⟩, a3.symm, a1.symm, by simp [simpleTok, a2, a3], by simp [simpleTok], by simp [simpleTok, a3]⟩
  | cons b tl =>
    simp only []
    split
    · rename_i k hk
      have := punct_noNL hk
      exact simpleTok_at s1 c1 k [] [b] tl this.2.2 hag (NoNL_cons ⟨this.1, this.2.1⟩ NoNL_nil) (by simp)
    · split
      · rename_i hb
        subst hb
        split
        · rename_i tl'
          exact simpleTok_at s1 c1 .spread [] [46, 46, 46] tl' (by simp) hag
            (NoNL_cons (by omega) (NoNL_cons (by omega) (NoNL_cons (by omega) NoNL_nil))) (by simp)
        · exact unexpectedChar_at _ _ _ _
      · split
        · rename_i hb
          subst hb
          obtain ⟨x, h1, h2, h3, h4⟩ := commentSpan_split tl (Ascii_tail hA)
          rw [h3, h4]
          generalize ((35 :: tl).take (x.length + 1)) = v
          have := simpleTok_at s1 c1 .comment v (35 :: x) (commentSpan tl).2.2 (by simp) hag
            (NoNL_cons (by omega) h2) (by simp)
          have e : (35 :: tl) = (35 :: x) ++ (commentSpan tl).2.2 := by simp [← h1]
          rw [e]
          simpa using this
        · split
          · rename_i hb
            have hs := nameSpan_split tl
            have hbn : b ≠ 10 ∧ b ≠ 13 := isNameCont_noNL (by simp [isNameCont, hb])
            have := simpleTok_at s1 c1 .name (b :: (nameSpan tl).1) (b :: (nameSpan tl).1) (nameSpan tl).2 (by simp) hag
              (NoNL_cons hbn hs.2) (by simp)
            have e : (b :: tl) = (b :: (nameSpan tl).1) ++ (nameSpan tl).2 := by simp [← hs.1]
            rw [e]
            simpa using this
          · split
            · exact plainTok_at s1 c1 (b :: tl) _ hag (readNumber_plain c1 (b :: tl))
            · split
              · rename_i hb
                subst hb
                split
                · rename_i tl'
                  have hA' : Ascii tl' := Ascii_tail (Ascii_tail (Ascii_tail hA))
                  have hnl : NoNL [34, 34, 34] := NoNL_cons (by omega) (NoNL_cons (by omega) (NoNL_cons (by omega) NoNL_nil))
                  have hinv := Inv_noNL s1 c1 [34, 34, 34] tl' hag hnl (by simp)
                  exact blkOK_at s1 c1 tl' _ hag (readBlockLoop_ok c1 tl' (c1.adv 3 3) [] _ hA' hinv)
                · exact strOK_at s1 c1 tl _ hag (readStringLoop_ok c1 tl (c1.adv 1 1) [] false (Ascii_tail hA))
              · exact unexpectedChar_at _ _ _ _

/-- one `readToken` call: ignored run `ign`, then the token chunk `x` -/
def TokPos (s : PState) (rest : Bytes) (st : Step) : Prop :=
  match st with
  | .err _ => True
  | .tok t rest' c' => ∃ ign x, rest = ign ++ x ++ rest' ∧ Inv (foldPos s (ign ++ x)) c' rest' ∧
      t.start = (foldPos s ign).off ∧ t.line = (foldPos s ign).line ∧
      t.col = colOf (foldPos s ign).off (foldPos s ign).ls + (if t.kind = .string then 1 else 0) ∧
      t.start ≤ t.stop ∧ t.stop ≤ (foldPos s ign).off + x.length

theorem readToken_pos (rest : Bytes) (c : Cur) (s : PState) (hA : Ascii rest) (h : Inv s c rest) :
    TokPos s rest (readToken rest c) := by
  obtain ⟨ign, h1, h2⟩ := ws_inv rest c s hA h
  have hA1 : Ascii (ws rest c).1 := by
    have : Ascii (ign ++ (ws rest c).1) := by rw [← h1]; exact hA
    exact Ascii_append_right this
  have hb := readTokenBody_at (foldPos s ign) (ws rest c).2 (ws rest c).1 hA1 h2
  unfold readToken
  generalize readTokenBody (ws rest c).1 (ws rest c).2 = st at hb ⊢
  cases st with
  | err e => trivial
  | tok t rest' c' =>
    obtain ⟨x, e1, e2, e3, e4, e5, e6, e7⟩ := hb
    refine ⟨ign, x, ?_, by rw [foldPos_append]; exact e2, e3, e4, e5, e6, e7⟩
    rw [List.append_assoc, ← e1]; exact h1

end Gql.Lexer
