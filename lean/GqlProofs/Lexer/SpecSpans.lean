import GqlModel.Lexer.Spec
import GqlProofs.Lexer.Pos
import GqlProofs.Format.Utf8
/-
  The scanning loops of the lexer model against the span functions of the specification
  (`Spec.spanP`), on ASCII input, plus small facts shared by the per-class equivalence proofs.
-/
namespace Gql.Lexer
open Gql.Lexer.Spec

theorem utf8Encode_ascii (v : Bytes) (h : Ascii v) : utf8Encode v = v := by
  induction v with
  | nil => rfl
  | cons b t ih =>
    have hb : b < 0x80 := Ascii_head h
    simp only [utf8Encode, List.flatMap_cons] at ih ⊢
    rw [ih (Ascii_tail h), encodeRune_ascii hb]; rfl

theorem utf8Encode_cons (b : Nat) (v : List Nat) : utf8Encode (b :: v) = encodeRune b ++ utf8Encode v := by
  simp [utf8Encode]

theorem Ascii_append {a b : Bytes} (ha : Ascii a) (hb : Ascii b) : Ascii (a ++ b) := by
  intro c hc; simp at hc; rcases hc with hc | hc
  · exact ha c hc
  · exact hb c hc
theorem Ascii_append_left {a b : Bytes} (h : Ascii (a ++ b)) : Ascii a := fun c hc => h c (by simp [hc])
theorem Ascii_nil : Ascii [] := fun _ h => by simp at h
theorem Ascii_cons {b : Nat} {l : Bytes} (hb : b < 128) (hl : Ascii l) : Ascii (b :: l) := by
  intro c hc; simp at hc; rcases hc with rfl | hc
  · exact hb
  · exact hl c hc
theorem Ascii_drop {l : Bytes} (n : Nat) (h : Ascii l) : Ascii (l.drop n) := fun c hc => h c (List.mem_of_mem_drop hc)
theorem Ascii_take {l : Bytes} (n : Nat) (h : Ascii l) : Ascii (l.take n) := fun c hc => h c (List.mem_of_mem_take hc)

theorem isSourceChar_iff (b : Nat) : isSourceChar b = true ↔ (b = 9 ∨ b = 10 ∨ b = 13 ∨ 32 ≤ b) := by
  simp [isSourceChar, or_assoc]
theorem isLineTerminatorStart_iff (b : Nat) : isLineTerminatorStart b = true ↔ (b = 10 ∨ b = 13) := by
  simp [isLineTerminatorStart]

theorem spanP_append (p : Cp → Bool) (l : List Cp) : l = (spanP p l).1 ++ (spanP p l).2 := by
  fun_induction spanP p l with
  | case1 => rfl
  | case2 c rest hc a b heq ih => simp only [heq] at ih; simp [← ih]
  | case3 c rest hc => rfl

theorem isDigit_eq (b : Nat) : isDigit b = isDigitC b := rfl

theorem digitSpan_eq_spanP (l : Bytes) : digitSpan l = spanP isDigitC l := by
  induction l with
  | nil => rfl
  | cons b t ih => simp only [digitSpan, spanP, ih, isDigit_eq]

theorem isNameCont_eq (b : Nat) : isNameCont b = isNameContinueC b := by
  simp only [isNameCont, isNameStart, isDigit, isNameContinueC, isLetter, isDigitC]
  cases (decide (65 ≤ b) && decide (b ≤ 90) || decide (97 ≤ b) && decide (b ≤ 122)) <;>
    cases (b == 95) <;> cases (decide (48 ≤ b) && decide (b ≤ 57)) <;> rfl

theorem isNameStart_eq (b : Nat) : isNameStart b = isNameStartC b := rfl

theorem nameSpan_eq_spanP (l : Bytes) : nameSpan l = spanP isNameContinueC l := by
  induction l with
  | nil => rfl
  | cons b t ih => simp only [nameSpan, spanP, ih, isNameCont_eq]

/-- on ASCII input the comment loop takes exactly the longest run of comment characters -/
theorem commentSpan_eq_spanP (l : Bytes) (hA : Ascii l) :
    commentSpan l = ((spanP isCommentChar l).1.length, (spanP isCommentChar l).1.length, (spanP isCommentChar l).2) := by
  induction l with
  | nil => simp [commentSpan, spanP]
  | cons b t ih =>
    have hb := Ascii_head hA
    have iht := ih (Ascii_tail hA)
    rw [commentSpan, decodeRune_ascii b t hb]
    simp only [Nat.sub_self, List.drop_zero, iht, spanP]
    have hc : isCommentChar b = decide (b > 0x1f ∨ b = 9) := by
      have : ∀ b < 128, isCommentChar b = decide (b > 0x1f ∨ b = 9) := by decide
      exact this b hb
    by_cases h : b > 0x1f ∨ b = 9
    · simp [hc, h]
    · simp [hc, h]

end Gql.Lexer
