import GqlProofs.Lexer.Utf8Dec
/-
  The model's block-string value algorithm works on BYTES; the specification's works on CODE POINTS.
  This file shows that `Lexer.blockStringValue` commutes with UTF-8 encoding
  (`blockStringValue_enc`): the line terminator 10 and the blanks 32 and 9 are ASCII, every byte of
  the encoding of a non-ASCII scalar is ≥ 128, so splitting into lines, measuring indentation,
  stripping the common indent (only blanks are dropped), dropping blank lines and joining with 10
  all act on the encoding the way they act on the code points.
-/
namespace Gql.Lexer

/-! ### splitting into lines -/

theorem splitLines_ne_nil (x : Bytes) : splitLines x ≠ [] := by
  induction x with
  | nil => simp [splitLines]
  | cons b t ih =>
    unfold splitLines
    by_cases h : b = 10
    · simp [h]
    · simp only [h, if_false]
      cases e : splitLines t with
      | nil => exact absurd e ih
      | cons l ls => simp

theorem splitLines_cons_nl (rest : Bytes) : splitLines (10 :: rest) = [] :: splitLines rest := by
  rw [splitLines.eq_def]; simp

theorem splitLines_cons_other {b : Nat} (h : b ≠ 10) {rest l : Bytes} {ls : List Bytes}
    (e : splitLines rest = l :: ls) : splitLines (b :: rest) = (b :: l) :: ls := by
  rw [splitLines.eq_def]
  simp only [h, if_false, e]

/-- a prefix of bytes ≥ 128 stays in front of the first line -/
theorem splitLines_high_prefix (p : Bytes) (hp : ∀ b ∈ p, 128 ≤ b) (rest : Bytes) :
    splitLines (p ++ rest) = match splitLines rest with
      | l :: ls => (p ++ l) :: ls
      | [] => [p] := by
  induction p with
  | nil =>
    cases e : splitLines rest with
    | nil => exact absurd e (splitLines_ne_nil rest)
    | cons l ls => simpa using e
  | cons b t ih =>
    have hb : 128 ≤ b := hp b (by simp)
    have ht : ∀ c ∈ t, 128 ≤ c := fun c hc => hp c (by simp [hc])
    have iht := ih ht
    cases e : splitLines rest with
    | nil => exact absurd e (splitLines_ne_nil rest)
    | cons l ls =>
      rw [e] at iht
      simp only at iht ⊢
      rw [List.cons_append, splitLines_cons_other (by omega) iht]
      rfl

/-- every element of a line is an element of the text -/
theorem splitLines_mem (x : Bytes) : ∀ l ∈ splitLines x, ∀ c ∈ l, c ∈ x := by
  induction x with
  | nil => intro l hl c hc; simp [splitLines] at hl; subst hl; simp at hc
  | cons b t ih =>
    by_cases h : b = 10
    · subst h
      rw [splitLines_cons_nl]
      intro l hl c hc
      simp at hl
      rcases hl with rfl | hl
      · simp at hc
      · exact List.mem_cons_of_mem _ (ih l hl c hc)
    · cases e : splitLines t with
      | nil => exact absurd e (splitLines_ne_nil t)
      | cons l0 ls =>
        rw [splitLines_cons_other h e]
        rw [e] at ih
        intro l hl c hc
        simp at hl
        rcases hl with rfl | hl
        · simp at hc
          rcases hc with rfl | hc
          · simp
          · exact List.mem_cons_of_mem _ (ih l0 (by simp) c hc)
        · exact List.mem_cons_of_mem _ (ih l (by simp [hl]) c hc)

theorem splitLines_allScalar {x : List Nat} (hs : AllScalar x) : ∀ l ∈ splitLines x, AllScalar l :=
  fun l hl c hc => hs c (splitLines_mem x l hl c hc)

theorem splitLines_enc (x : List Nat) (hs : AllScalar x) :
    splitLines (utf8Encode x) = (splitLines x).map utf8Encode := by
  induction x with
  | nil => simp [utf8Encode, splitLines]
  | cons c t ih =>
    have iht := ih (AllScalar_tail hs)
    by_cases hc : c < 128
    · rw [utf8Encode_cons_ascii hc]
      by_cases h10 : c = 10
      · subst h10
        rw [splitLines_cons_nl, splitLines_cons_nl, iht]
        simp [utf8Encode]
      · cases e : splitLines t with
        | nil => exact absurd e (splitLines_ne_nil t)
        | cons l ls =>
          rw [e] at iht
          simp only [List.map_cons] at iht
          rw [splitLines_cons_other h10 iht, splitLines_cons_other h10 e]
          simp only [List.map_cons]
          rw [utf8Encode_cons_ascii hc]
    · have hsc := AllScalar_head hs
      have hp : ∀ b ∈ encodeRune c, 128 ≤ b := fun b hb => (encodeRune_high hsc (by omega) b hb).1
      rw [utf8Encode_cons, splitLines_high_prefix _ hp]
      cases e : splitLines t with
      | nil => exact absurd e (splitLines_ne_nil t)
      | cons l ls =>
        rw [e] at iht
        simp only [List.map_cons] at iht
        rw [iht, splitLines_cons_other (by omega) e]
        simp only [List.map_cons]
        rw [utf8Encode_cons]

/-! ### indentation -/

theorem isBlank_lt {b : Nat} (h : isBlank b = true) : b < 128 := by
  simp [isBlank] at h; omega

theorem isBlank_high {b : Nat} (h : 128 ≤ b) : isBlank b = false := by
  cases e : isBlank b with
  | false => rfl
  | true => have := isBlank_lt e; omega

theorem leadingWs_cons (b : Nat) (rest : Bytes) :
    leadingWs (b :: rest) = if isBlank b then (leadingWs rest).map (· + 1) else some 0 := by
  rw [leadingWs.eq_def]

theorem leadingWs_enc (l : List Nat) (hs : AllScalar l) : leadingWs (utf8Encode l) = leadingWs l := by
  induction l with
  | nil => rfl
  | cons c t ih =>
    have iht := ih (AllScalar_tail hs)
    by_cases hc : c < 128
    · rw [utf8Encode_cons_ascii hc, leadingWs_cons, leadingWs_cons, iht]
    · obtain ⟨b0, b1, bt, e, h0, _⟩ := encodeRune_high_shape (AllScalar_head hs) (by omega)
      rw [utf8Encode_cons, e, List.cons_append, leadingWs_cons, leadingWs_cons,
        isBlank_high h0, isBlank_high (by omega : 128 ≤ c)]
      simp

theorem commonIndent_enc (ls : List (List Nat)) (hs : ∀ l ∈ ls, AllScalar l) :
    commonIndent (ls.map utf8Encode) = commonIndent ls := by
  induction ls with
  | nil => rfl
  | cons l t ih =>
    have iht := ih (fun l' hl' => hs l' (by simp [hl']))
    rw [List.map_cons, commonIndent.eq_def]
    conv => rhs; rw [commonIndent.eq_def]
    simp only
    rw [iht, leadingWs_enc l (hs l (by simp))]

/-- the line is blank or its indentation is at least `n` -/
def IndentGe (n : Nat) (l : Bytes) : Prop := leadingWs l = none ∨ ∃ i, leadingWs l = some i ∧ n ≤ i

theorem IndentGe_tail {n b : Nat} {t : Bytes} (h : IndentGe (n + 1) (b :: t)) :
    isBlank b = true ∧ IndentGe n t := by
  unfold IndentGe at h
  rw [leadingWs_cons] at h
  by_cases hb : isBlank b = true
  · refine ⟨hb, ?_⟩
    simp only [hb, if_true] at h
    unfold IndentGe
    cases e : leadingWs t with
    | none => left; rfl
    | some j =>
      right
      rw [e] at h
      simp at h
      exact ⟨j, rfl, by omega⟩
  · simp [hb] at h

/-- dropping no more than the indentation (only blanks, which are ASCII) commutes with encoding -/
theorem drop_enc_of_blank_prefix (n : Nat) (l : List Nat) (h : IndentGe n l) :
    (utf8Encode l).drop n = utf8Encode (l.drop n) := by
  induction l generalizing n with
  | nil => simp [utf8Encode]
  | cons c t ih =>
    cases n with
    | zero => simp
    | succ n =>
      obtain ⟨hb, ht⟩ := IndentGe_tail h
      rw [utf8Encode_cons_ascii (isBlank_lt hb)]
      simp only [List.drop_succ_cons]
      exact ih n ht

theorem stripIndent_enc (n : Nat) (l : List Nat) (h : IndentGe n l) :
    stripIndent n (utf8Encode l) = utf8Encode (stripIndent n l) := by
  unfold stripIndent; exact drop_enc_of_blank_prefix n l h

theorem commonIndent_ge (ls : List Bytes) (n : Nat) (h : commonIndent ls = some n) :
    ∀ l ∈ ls, IndentGe n l := by
  induction ls generalizing n with
  | nil => intro l hl; simp at hl
  | cons l0 t ih =>
    rw [commonIndent.eq_def] at h
    simp only at h
    intro l hl
    simp at hl
    cases e1 : leadingWs l0 with
    | none =>
      rw [e1] at h
      simp only at h
      rcases hl with rfl | hl
      · left; exact e1
      · exact ih n h l hl
    | some i =>
      cases e2 : commonIndent t with
      | none =>
        rw [e1, e2] at h
        simp only [Option.some.injEq] at h
        rcases hl with rfl | hl
        · right; exact ⟨i, e1, by omega⟩
        · -- every line of `t` is blank
          have : ∀ l' ∈ t, leadingWs l' = none := by
            clear ih h hl e1
            induction t with
            | nil => intro l' hl'; simp at hl'
            | cons a t' ih' =>
              rw [commonIndent.eq_def] at e2
              simp only at e2
              intro l' hl'
              simp at hl'
              cases ea : leadingWs a with
              | none =>
                rw [ea] at e2
                simp only at e2
                rcases hl' with rfl | hl'
                · exact ea
                · exact ih' e2 l' hl'
              | some k =>
                rw [ea] at e2
                cases e3 : commonIndent t' <;> rw [e3] at e2 <;> simp at e2
          left; exact this l hl
      | some j =>
        rw [e1, e2] at h
        simp only [Option.some.injEq] at h
        rcases hl with rfl | hl
        · right; exact ⟨i, e1, by omega⟩
        · rcases ih j e2 l hl with hn | ⟨k, hk, hjk⟩
          · left; exact hn
          · right; exact ⟨k, hk, by omega⟩

theorem map_stripIndent_enc (n : Nat) (ls : List (List Nat)) (h : ∀ l ∈ ls, IndentGe n l) :
    (ls.map utf8Encode).map (stripIndent n) = (ls.map (stripIndent n)).map utf8Encode := by
  induction ls with
  | nil => rfl
  | cons l t ih =>
    simp only [List.map_cons]
    rw [stripIndent_enc n l (h l (by simp)), ih (fun l' hl' => h l' (by simp [hl']))]

/-! ### dropping blank lines, joining -/

theorem dropBlankFront_enc (ls : List (List Nat)) (hs : ∀ l ∈ ls, AllScalar l) :
    dropBlankFront (ls.map utf8Encode) = (dropBlankFront ls).map utf8Encode := by
  induction ls with
  | nil => rfl
  | cons l t ih =>
    have iht := ih (fun l' hl' => hs l' (by simp [hl']))
    rw [List.map_cons, dropBlankFront.eq_def]
    conv => rhs; rw [dropBlankFront.eq_def]
    simp only
    rw [leadingWs_enc l (hs l (by simp))]
    by_cases e : leadingWs l = none
    · simp only [e, if_true]; exact iht
    · simp only [e, if_false, List.map_cons]

theorem dropBlankFront_mem (ls : List Bytes) : ∀ l ∈ dropBlankFront ls, l ∈ ls := by
  induction ls with
  | nil => intro l hl; simp [dropBlankFront] at hl
  | cons a t ih =>
    intro l hl
    rw [dropBlankFront.eq_def] at hl
    simp only at hl
    by_cases e : leadingWs a = none
    · simp only [e, if_true] at hl
      exact List.mem_cons_of_mem _ (ih l hl)
    · simp only [e, if_false] at hl
      exact hl

theorem dropBlankBack_enc (ls : List (List Nat)) (hs : ∀ l ∈ ls, AllScalar l) :
    dropBlankBack (ls.map utf8Encode) = (dropBlankBack ls).map utf8Encode := by
  unfold dropBlankBack
  rw [← List.map_reverse, dropBlankFront_enc ls.reverse (fun l hl => hs l (by simpa using hl)),
    List.map_reverse]

theorem joinLines_enc (ls : List (List Nat)) :
    joinLines (ls.map utf8Encode) = utf8Encode (joinLines ls) := by
  induction ls with
  | nil => rfl
  | cons l t ih =>
    cases t with
    | nil => simp [joinLines]
    | cons l' t' =>
      have e1 : joinLines (l :: l' :: t') = l ++ 10 :: joinLines (l' :: t') := by
        rw [joinLines.eq_def]
      have e2 : joinLines ((l :: l' :: t').map utf8Encode) =
          utf8Encode l ++ 10 :: joinLines ((l' :: t').map utf8Encode) := by
        simp only [List.map_cons]
        rw [joinLines.eq_def]
      rw [e1, e2, ih, utf8Encode_append, utf8Encode_cons_ascii (by omega : 10 < 128)]

/-- the last three steps (drop leading blank lines, drop trailing blank lines, join) -/
theorem finish_enc (ls : List (List Nat)) (hs : ∀ l ∈ ls, AllScalar l) :
    joinLines (dropBlankBack (dropBlankFront (ls.map utf8Encode))) =
      utf8Encode (joinLines (dropBlankBack (dropBlankFront ls))) := by
  rw [dropBlankFront_enc ls hs,
    dropBlankBack_enc _ (fun l hl => hs l (dropBlankFront_mem ls l hl)), joinLines_enc]

/-! ### the value -/

/-- the model's block-string value algorithm (which works on bytes) commutes with UTF-8 encoding:
    applied to the encoding of a list of scalars it yields the encoding of what it yields on the
    list itself -/
theorem blockStringValue_enc (x : List Nat) (hs : AllScalar x) :
    blockStringValue (utf8Encode x) = utf8Encode (blockStringValue x) := by
  have hl := splitLines_allScalar hs
  unfold blockStringValue
  simp only
  rw [splitLines_enc x hs]
  cases e : splitLines x with
  | nil => exact absurd e (splitLines_ne_nil x)
  | cons first others =>
    rw [e] at hl
    have ho : ∀ l ∈ others, AllScalar l := fun l h => hl l (by simp [h])
    simp only [List.map_cons]
    rw [commonIndent_enc others ho]
    cases ec : commonIndent others with
    | none =>
      simp only
      rw [← List.map_cons]
      exact finish_enc _ hl
    | some n =>
      simp only
      rw [map_stripIndent_enc n others (commonIndent_ge others n ec), ← List.map_cons]
      apply finish_enc
      intro l h
      simp at h
      rcases h with rfl | ⟨a, ha, rfl⟩
      · exact hl _ (by simp)
      · exact AllScalar_drop n (ho a ha)

end Gql.Lexer
