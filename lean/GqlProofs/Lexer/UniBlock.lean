import GqlProofs.Lexer.Utf8Dec
import GqlProofs.Lexer.UniString
import GqlProofs.Lexer.SpecBlock
import GqlProofs.Format.BlockLex
/-
  `readBlockLoop` (model, on the BYTES `utf8Encode l`) against `Spec.blockBody l` (specification, on
  the CODE POINTS `l`) for every list of Unicode scalar values, together with the position
  invariant (`InvU`: line, line start and rune offset of the cursor are the specification's count
  over the consumed code points; a pending CR is not followed by LF).

  As on ASCII input the model closes the block string with the LAST three quotes of a longer run:
  the statement characterises the model exactly (`quoteRun r` extra quotes go into value and extent).
-/
namespace Gql.Lexer
open Gql.Lexer.Spec

/-- the cursor agrees with a position state (rune offsets; the byte offset is not observable) -/
def AgreeU (s : PState) (c : Cur) : Prop := s.line = c.line ∧ s.ls = c.ls ∧ s.off = c.endR

/-- invariant: cursor agrees with the state, and a pending CR is not followed by LF -/
def InvU (s : PState) (c : Cur) (rest : List Cp) : Prop :=
  AgreeU s c ∧ (s.cr = true → rest.head? ≠ some 10)

/-- consuming a chunk of code points without line terminators (any number of bytes) keeps the invariant -/
theorem InvU_noNL (s : PState) (c : Cur) (x rest : List Cp) (nb : Nat) (h : AgreeU s c) (hx : NoNL x)
    (hne : x ≠ []) : InvU (foldPos s x) (c.adv nb x.length) rest := by
  have := foldPos_noNL s x hx
  obtain ⟨a1, a2, a3⟩ := h
  refine ⟨⟨?_, ?_, ?_⟩, ?_⟩ <;> simp_all [Cur.adv]

theorem quoteRun_enc (l : List Nat) (hs : AllScalar l) : quoteRun (utf8Encode l) = quoteRun l := by
  induction l with
  | nil => rfl
  | cons c t ih =>
    by_cases hc : c = 34
    · subst hc
      rw [utf8Encode_cons_ascii (by omega), quoteRun_q, quoteRun_q, ih (AllScalar_tail hs)]
    · rw [utf8Encode_cons, Gql.Format.quoteRun_of_ne (AllScalar_head hs) hc, quoteRun_ne c t hc]

theorem drop_quoteRun_enc (l : List Nat) :
    (utf8Encode l).drop (quoteRun l) = utf8Encode (l.drop (quoteRun l)) := by
  fun_induction quoteRun l with
  | case1 t ih => rw [utf8Encode_cons_ascii (by omega)]; simpa using ih
  | case2 l h => simp

/-- the model step agrees with the optional (raw value, length, rest) of the specification; the
    model additionally swallows the `quoteRun r` quotes that follow the closing `"""` -/
def BlkMatchesU (q : Cur) (s : PState) (c : Cur) (acc : Bytes) (l : List Cp) (st : Step)
    (o : Option (List Cp × Nat × List Cp)) : Prop :=
  match o with
  | none => ∃ e, st = .err e
  | some (raw, n, r) => ∃ c' x, l = x ++ r.drop (quoteRun r) ∧ x.length = n + quoteRun r ∧
      InvU (foldPos s x) c' (r.drop (quoteRun r)) ∧ c'.endR = c.endR + n + quoteRun r ∧
      st = .tok
        { kind := .blockString,
          value := blockStringValue (acc.reverse ++ utf8Encode (normCR raw) ++ List.replicate (quoteRun r) 34),
          start := q.endR, stop := c.endR + n, line := q.line, col := colOf q.endR q.ls }
        (utf8Encode (r.drop (quoteRun r))) c'

theorem BlkMatchesU_cons (q : Cur) (s : PState) (c c2 : Cur) (acc : Bytes) (st : Step)
    (chunk l' cs encc : List Nat) (o : Option (List Cp × Nat × List Cp))
    (hc : c2.endR = c.endR + chunk.length)
    (hn : ∀ raw n r, o = some (raw, n, r) → normCR (cs ++ raw) = encc ++ normCR raw)
    (h : BlkMatchesU q (foldPos s chunk) c2 ((utf8Encode encc).reverse ++ acc) l' st o) :
    BlkMatchesU q s c acc (chunk ++ l') st (consB cs chunk.length o) := by
  cases o with
  | none => exact h
  | some p =>
    obtain ⟨raw, n, r⟩ := p
    obtain ⟨c', x, h1, h2, h3, h4, h5⟩ := h
    refine ⟨c', chunk ++ x, by rw [h1]; simp, by simp [h2]; omega, by rw [foldPos_append]; exact h3,
      by rw [h4, hc]; omega, ?_⟩
    rw [h5, hn raw n r rfl, hc]
    simp [utf8Encode_append, Nat.add_assoc, Nat.add_comm chunk.length n]

theorem isSourceChar_false {b : Nat} (h : b < 32 ∧ b ≠ 9 ∧ b ≠ 10 ∧ b ≠ 13) : isSourceChar b = false := by
  cases hs : isSourceChar b with
  | false => rfl
  | true => have := (isSourceChar_iff b).1 hs; omega

theorem head_ne_10_of_enc {t : List Nat} {r' : Bytes} (e : r' = utf8Encode t)
    (h : ∀ x, r' = 10 :: x → False) : t.head? ≠ some 10 := by
  intro h10
  cases t with
  | nil => simp at h10
  | cons d t' =>
    simp at h10; subst h10
    rw [utf8Encode_cons_ascii (by omega)] at e
    exact h _ e

theorem readBlockLoop_u (q : Cur) (bs : Bytes) (c : Cur) (acc : Bytes) :
    ∀ (l : List Cp) (s : PState), AllScalar l → bs = utf8Encode l → InvU s c l →
      BlkMatchesU q s c acc l (readBlockLoop q bs c acc) (blockBody l) := by
  fun_induction readBlockLoop q bs c acc
  case case1 =>
    intro l s hs hbs _
    have := utf8Encode_eq_nil hbs.symm
    subst this
    simp [blockBody_nil, BlkMatchesU, mkErr]
  case case2 b tl c acc n hn =>
    intro l s hs hbs hinv
    have hnl : n = quoteRun l := by simp only [n]; rw [hbs, quoteRun_enc l hs]
    obtain ⟨rest, e, hq⟩ := quoteRun_ge3 l (by omega)
    have hn' : n = quoteRun rest + 3 := by omega
    clear_value n
    subst hn'
    have hdrop : (b :: tl).drop (quoteRun rest + 3) = utf8Encode (rest.drop (quoteRun rest)) := by
      rw [hbs, ← hq, drop_quoteRun_enc, hq, e]; simp
    have htake := quoteRun_take l
    rw [e, blockBody_close]
    refine ⟨c.adv (quoteRun rest + 3) (quoteRun rest + 3), l.take (quoteRun l), ?_, ?_, ?_, ?_, ?_⟩
    · have : l.drop (quoteRun l) = rest.drop (quoteRun rest) := by rw [hq, e]; simp
      rw [← e, ← this]; simp
    · rw [htake.1, hq]; omega
    · have hne : l.take (quoteRun l) ≠ [] := by
        intro h0
        have : (l.take (quoteRun l)).length = 0 := by simp [h0]
        rw [htake.1] at this; omega
      have := InvU_noNL s c (l.take (quoteRun l)) (rest.drop (quoteRun rest)) (quoteRun rest + 3) hinv.1 htake.2 hne
      have hlen : (l.take (quoteRun l)).length = quoteRun rest + 3 := by rw [htake.1, hq]
      rw [hlen] at this
      exact this
    · simp [Cur.adv]; omega
    · rw [hdrop]
      simp [normCR_nil, utf8Encode_nil]
  case case3 b tl c acc n h1 h2 =>
    intro l s hs hbs _
    obtain ⟨t, rfl, _, _⟩ := enc_ascii_head hs hbs.symm (by omega)
    rw [blockBody_plain b t (by intro r e; simp at e; omega) (by intro r e; simp at e; omega)]
    simp [isSourceChar_false h2, BlkMatchesU, mkErr]
  case case4 c acc tl' _ n _ ih =>
    intro l s hs hbs hinv
    obtain ⟨t, rfl, e, hst⟩ := enc_ascii_prefix [92, 34, 34, 34] hs (by simpa using hbs.symm)
      (by intro x hx; simp at hx; omega)
    have hnl : NoNL [92, 34, 34, 34] := by intro x hx; simp at hx; omega
    have hinv' := InvU_noNL s c [92, 34, 34, 34] t 4 hinv.1 hnl (by simp)
    have := BlkMatchesU_cons q s c (c.adv 4 4) acc _ [92, 34, 34, 34] t [34, 34, 34] [34, 34, 34]
      (blockBody t) (by simp [Cur.adv]) (by intro raw n r _; simp [normCR_plain])
      (by simpa [utf8Encode, encodeRune] using ih t _ hst e hinv')
    show BlkMatchesU q s c acc (92 :: 34 :: 34 :: 34 :: t) _ (blockBody (92 :: 34 :: 34 :: 34 :: t))
    rw [blockBody_esc]
    simpa using this
  case case5 c acc tl' hx _ n _ ih =>
    intro l s hs hbs hinv
    obtain ⟨t, rfl, e, hst⟩ := enc_ascii_head hs hbs.symm (by omega)
    rw [blockBody_plain 92 t (by intro r e; simp at e) (by
      intro r e'
      simp at e'
      subst e'
      rw [show (34 :: 34 :: 34 :: r : List Nat) = [34, 34, 34] ++ r from rfl,
        utf8Encode_ascii_append (by intro x hx; simp at hx; omega)] at e
      exact hx _ e)]
    have hsc : isSourceChar 92 = true := by decide
    simp only [hsc]
    have hinv' := InvU_noNL s c [92] t 1 hinv.1 (NoNL_cons (by omega) NoNL_nil) (by simp)
    have := BlkMatchesU_cons q s c (c.adv 1 1) acc _ [92] t [92] [92] (blockBody t) (by simp [Cur.adv])
      (by intro raw n r _; simp [normCR_plain])
      (by simpa [utf8Encode, encodeRune] using ih t _ hst e hinv')
    simpa using this
  case case6 c acc r' _ _ n _ ih =>
    intro l s hs hbs hinv
    obtain ⟨t, rfl, e, hst⟩ := enc_ascii_prefix [13, 10] hs (by simpa using hbs.symm)
      (by intro x hx; simp at hx; omega)
    obtain ⟨⟨a1, a2, a3⟩, hcr⟩ := hinv
    have hinv' : InvU (foldPos s [13, 10]) (c.adv 2 2).newline t := by
      refine ⟨⟨?_, ?_, ?_⟩, ?_⟩ <;> simp [posStep, Cur.adv, Cur.newline, a1, a3]
    have := BlkMatchesU_cons q s c (c.adv 2 2).newline acc _ [13, 10] t [13, 10] [10] (blockBody t)
      (by simp [Cur.adv, Cur.newline]) (by intro raw n r _; simp [normCR_crlf])
      (by simpa [utf8Encode, encodeRune] using ih t _ hst e hinv')
    show BlkMatchesU q s c acc (13 :: 10 :: t) _ (blockBody (13 :: 10 :: t))
    rw [blockBody_plain 13 _ (by intro r e; simp at e) (by intro r e; simp at e),
      blockBody_plain 10 t (by intro r e; simp at e) (by intro r e; simp at e)]
    have hs1 : isSourceChar 13 = true := by decide
    have hs2 : isSourceChar 10 = true := by decide
    simp only [hs1, hs2]
    cases hb : blockBody t with
    | none => simpa [hb, consB] using this
    | some p => obtain ⟨a, b, d⟩ := p; simpa [hb, consB, Nat.add_assoc] using this
  case case7 c acc r' hx _ _ n _ ih =>
    intro l s hs hbs hinv
    obtain ⟨t, rfl, e, hst⟩ := enc_ascii_head hs hbs.symm (by omega)
    have hh := head_ne_10_of_enc e (fun x ex => hx x ex)
    obtain ⟨⟨a1, a2, a3⟩, hcr⟩ := hinv
    have hinv' : InvU (foldPos s [13]) (c.adv 1 1).newline t := by
      refine ⟨⟨?_, ?_, ?_⟩, ?_⟩ <;> simp [posStep, Cur.adv, Cur.newline, a1, a3]
      exact hh
    rw [blockBody_plain 13 _ (by intro r e; simp at e) (by intro r e; simp at e)]
    have hs1 : isSourceChar 13 = true := by decide
    simp only [hs1]
    have := BlkMatchesU_cons q s c (c.adv 1 1).newline acc _ [13] t [13] [10] (blockBody t)
      (by simp [Cur.adv, Cur.newline])
      (by
        intro raw n r hb
        refine normCR_cr raw ?_
        intro t' ht
        subst ht
        obtain ⟨t'', e'⟩ := blockBody_head_lf t t' n r hb
        rw [e'] at hh; simp at hh)
      (by simpa [utf8Encode, encodeRune] using ih t _ hst e hinv')
    simpa using this
  case case8 b tl c acc n h1 h2 h3 h4 r w hd c' ih =>
    intro l s hs hbs hinv
    obtain ⟨⟨a1, a2, a3⟩, hcr⟩ := hinv
    by_cases hb : b < 128
    · obtain ⟨t, rfl, e, hst⟩ := enc_ascii_head hs hbs.symm hb
      have hrw : r = b ∧ w = 1 := by
        split at hd
        · rw [decodeRune_ascii b tl hb] at hd; simp at hd; omega
        · simp at hd; omega
      obtain ⟨rfl, rfl⟩ := hrw
      have hq : ∀ rr, r :: t = 34 :: 34 :: 34 :: rr → False := by
        intro rr e'
        apply h1
        simp at e'
        refine ⟨e'.1, ?_⟩
        simp only [n]
        rw [e'.1, e, e'.2, show (34 :: 34 :: rr : List Nat) = [34, 34] ++ rr from rfl,
          utf8Encode_ascii_append (by intro x hx; simp at hx; omega)]
        simp [quoteRun]
      rw [blockBody_plain r t hq (by intro rr e'; simp at e'; exact h3 e'.1)]
      have hsc : isSourceChar r = true := (isSourceChar_iff r).2 (by omega)
      simp only [hsc]
      simp only [Nat.sub_self, List.drop_zero, encodeRune_ascii hb] at ih ⊢
      by_cases h10 : r = 10
      · subst h10
        have hcr' : s.cr = false := by
          cases hsr : s.cr with
          | false => rfl
          | true => exact absurd rfl (hcr hsr)
        have hinv' : InvU (foldPos s [10]) (c.adv 1 1).newline t := by
          refine ⟨⟨?_, ?_, ?_⟩, ?_⟩ <;> simp [posStep, hcr', Cur.adv, Cur.newline, a1, a3]
        have := BlkMatchesU_cons q s c (c.adv 1 1).newline acc _ [10] t [10] [10] (blockBody t)
          (by simp [Cur.adv, Cur.newline]) (by intro raw n r _; simp [normCR_plain])
          (by simpa [utf8Encode, encodeRune, c'] using ih t _ hst e (by simpa [c'] using hinv'))
        simpa [c'] using this
      · have hinv' := InvU_noNL s c [r] t 1 ⟨a1, a2, a3⟩ (NoNL_cons ⟨h10, h4⟩ NoNL_nil) (by simp)
        have := BlkMatchesU_cons q s c (c.adv 1 1) acc _ [r] t [r] [r] (blockBody t)
          (by simp [Cur.adv]) (by intro raw n r' _; simp [normCR_plain _ _ h4])
          (by simpa [utf8Encode, encodeRune_ascii hb, c', h10] using
            ih t _ hst e (by simpa [c', h10] using hinv'))
        simpa [c', h10] using this
    · obtain ⟨cp, t, rfl, hcs, hc128, hst, e⟩ := enc_high_head hs hbs.symm (by omega)
      obtain ⟨_, g2, g3, g4, g5⟩ := high_step hcs hc128 (utf8Encode t) e
      have hrw : r = cp ∧ w = (encodeRune cp).length := by
        have h127 : b ≥ 127 := by omega
        simp only [h127, if_true, g2] at hd
        simp at hd; omega
      obtain ⟨rfl, rfl⟩ := hrw
      rw [blockBody_plain r t (by intro rr e'; simp at e'; omega) (by intro rr e'; simp at e'; omega)]
      have hsc : isSourceChar r = true := (isSourceChar_iff r).2 (by omega)
      simp only [hsc]
      have h10 : ¬ b = 10 := by omega
      have hinv' := InvU_noNL s c [r] t (encodeRune r).length ⟨a1, a2, a3⟩
        (NoNL_cons (by omega) NoNL_nil) (by simp)
      have := BlkMatchesU_cons q s c (c.adv (encodeRune r).length 1) acc _ [r] t [r] [r] (blockBody t)
        (by simp [Cur.adv]) (by intro raw n r' _; simp [normCR_plain _ _ (show r ≠ 13 by omega)])
        (by simpa [utf8Encode, c', h10] using
          ih t _ hst g3 (by simpa [c', h10] using hinv'))
      simpa [c', h10] using this

end Gql.Lexer
