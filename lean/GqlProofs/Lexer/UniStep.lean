import GqlProofs.Lexer.SpecStep
import GqlProofs.Lexer.UniString
import GqlProofs.Lexer.UniBlock
import GqlProofs.Lexer.UniBlockValue
import GqlProofs.Lexer.UniNumber
/-
  One step of the lexer model on the bytes `utf8Encode cps1` (`readTokenBody`, i.e. `ReadToken` after
  `ws`) against one lexical item of the specification on the code points `cps1` (`Spec.item`), for
  every list of Unicode scalar values whose head is not an Ignored character.
-/
namespace Gql.Lexer
open Gql.Lexer.Spec

/-- the head of the text is not an Ignored character (what `ws` leaves): blank, comma, line
    terminator or BOM -/
def NotIgnoredHeadU (l : List Nat) : Prop :=
  match l with
  | [] => True
  | c :: _ => ¬ (c = 9 ∨ c = 32 ∨ c = 44 ∨ c = 10 ∨ c = 13 ∨ c = 0xFEFF)

/-- the model step is the token (kind `k`, value `v`, `n` code points) of the specification -/
def StepIsU (st : Step) (c1 : Cur) (cps1 : List Nat) (k : Kind) (v : List Nat) (n : Nat) : Prop :=
  ∃ t c', st = .tok t (utf8Encode (cps1.drop n)) c' ∧ t.kind = k ∧ t.value = utf8Encode v ∧
    t.start = c1.endR ∧ t.stop = c1.endR + n ∧ c'.endR = c1.endR + n ∧ k ≠ .eof

/-- position facts of a token that contains no line terminator (everything but block strings):
    line and column are those of the cursor, the line counters do not move -/
def StepPlainU (st : Step) (c1 : Cur) (cps1 : List Nat) (k : Kind) (n : Nat) : Prop :=
  ∀ t r c', st = .tok t r c' →
    t.line = c1.line ∧ t.col = colOf c1.endR c1.ls + (if k = .string then 1 else 0) ∧
    c'.line = c1.line ∧ c'.ls = c1.ls ∧ NoNL (cps1.take n) ∧ 1 ≤ n ∧ n ≤ cps1.length

theorem punct_high {b : Nat} (h : 126 ≤ b) : punct b = none := by
  cases hp : punct b with
  | none => rfl
  | some k =>
    have hm := lookup_mem punctTable b k hp
    have : ∀ p ∈ punctTable, p.1 < 126 := by decide
    exact absurd (this (b, k) hm) (by simp; omega)

theorem punctOf_high {c : Nat} (h : 126 ≤ c) : punctOf c = none := by
  have n : ∀ k, k < 126 → ¬ c = k := fun k hk => by omega
  simp only [punctOf, n 33 (by decide), n 36 (by decide), n 38 (by decide), n 40 (by decide),
    n 41 (by decide), n 58 (by decide), n 61 (by decide), n 64 (by decide), n 91 (by decide),
    n 93 (by decide), n 123 (by decide), n 124 (by decide), n 125 (by decide), if_false]

theorem isNameContinueC_hi {c : Nat} (h : 128 ≤ c) : isNameContinueC c = false := by
  have h1 : ¬ c ≤ 90 := by omega
  have h2 : ¬ c ≤ 122 := by omega
  have h3 : ¬ c = 95 := by omega
  have h4 : ¬ c ≤ 57 := by omega
  simp [isNameContinueC, isLetter, isDigitC, h1, h2, h3, h4]

theorem isCommentChar_hi {c : Nat} (h : 128 ≤ c) : isCommentChar c = true := by
  have h1 : ¬ c = 10 := by omega
  have h2 : ¬ c = 13 := by omega
  have h3 : 32 ≤ c := by omega
  simp [isCommentChar, isSourceChar, isLineTerminatorStart, h1, h2, h3]

/-- a code point ≥ 128 other than the BOM starts no token and is not Ignored -/
theorem item_high (c : Nat) (tl : List Nat) (h : 128 ≤ c) (hb : c ≠ 0xFEFF) : item (c :: tl) = .error := by
  have h1 : ¬ (c = 0xFEFF ∨ isWhiteSpace c = true ∨ c = 44 ∨ c = 10) := by
    rw [isWhiteSpace_iff]; omega
  have h13 : ¬ c = 13 := by omega
  have h35 : ¬ c = 35 := by omega
  have h46 : ¬ c = 46 := by omega
  have h34 : ¬ c = 34 := by omega
  have hn : ¬ (c = 45 ∨ isDigitC c = true) := by rw [isDigitC_high h]; simp; omega
  unfold item
  simp only [h1, h13, h35, punctOf_high (show 126 ≤ c by omega), h46, isNameStartC_high h, hn, h34,
    if_false, Bool.false_eq_true]

theorem item_bom (tl : List Nat) : item (0xFEFF :: tl) = .ignored 1 := by
  unfold item
  simp

theorem spanP_all (p : Cp → Bool) (l : List Nat) : ∀ c ∈ (spanP p l).1, p c = true := by
  fun_induction spanP p l with
  | case1 => simp
  | case2 c rest hc a b heq ih =>
    simp only [heq] at ih
    intro x hx; simp at hx; rcases hx with rfl | hx
    · exact hc
    · exact ih x hx
  | case3 c rest hc => simp

theorem isCommentChar_noNL {c : Nat} (h : isCommentChar c = true) : c ≠ 10 ∧ c ≠ 13 := by
  refine ⟨?_, ?_⟩ <;> (intro e; subst e; revert h; decide)

/-- the comment loop on the encoding takes exactly the longest run of comment characters: bytes of
    its encoding, its number of code points, and leaves the encoding of the rest -/
theorem commentSpan_enc (l : List Nat) (hs : AllScalar l) :
    commentSpan (utf8Encode l) =
      ((utf8Encode (spanP isCommentChar l).1).length, (spanP isCommentChar l).1.length,
       utf8Encode (spanP isCommentChar l).2) := by
  induction l with
  | nil => simp [commentSpan, spanP, utf8Encode]
  | cons c t ih =>
    have iht := ih (AllScalar_tail hs)
    by_cases hc : c < 128
    · rw [utf8Encode_cons_ascii hc, commentSpan, decodeRune_ascii c _ hc]
      simp only [Nat.sub_self, List.drop_zero, iht, spanP]
      have hcc : isCommentChar c = decide (c > 0x1f ∨ c = 9) := by
        have : ∀ b < 128, isCommentChar b = decide (b > 0x1f ∨ b = 9) := by decide
        exact this c hc
      by_cases h : c > 0x1f ∨ c = 9
      · simp [hcc, h, utf8Encode_cons_ascii hc]
      · simp [hcc, h, utf8Encode_cons_ascii hc, utf8Encode_nil]
    · have hcs := AllScalar_head hs
      cases hb : utf8Encode (c :: t) with
      | nil => have := utf8Encode_eq_nil hb; simp at this
      | cons b tl =>
        have e : b :: tl = encodeRune c ++ utf8Encode t := by rw [← hb, utf8Encode_cons]
        obtain ⟨_, g2, g3, g4, g5⟩ := high_step hcs (by omega) (utf8Encode t) e
        rw [commentSpan, g2]
        have hr : c > 0x1f ∨ c = 9 := by omega
        simp only [hr, if_true, g3, iht, spanP, isCommentChar_hi (show 128 ≤ c by omega)]
        simp [utf8Encode_cons]
        omega

theorem nameSpan_enc (l : List Nat) (hs : AllScalar l) :
    nameSpan (utf8Encode l) = ((spanP isNameContinueC l).1, utf8Encode (spanP isNameContinueC l).2) := by
  induction l with
  | nil => simp [nameSpan, spanP, utf8Encode]
  | cons c t ih =>
    have iht := ih (AllScalar_tail hs)
    by_cases hc : c < 128
    · rw [utf8Encode_cons_ascii hc]
      simp only [nameSpan, spanP, iht, isNameCont_eq]
      split <;> simp [utf8Encode_cons_ascii hc]
    · obtain ⟨b, r, e, hb⟩ := enc_head_high (AllScalar_head hs) (by omega) t
      have h1 : isNameCont b = false := by rw [isNameCont_eq]; exact isNameContinueC_hi hb
      rw [e]
      simp only [nameSpan, spanP, h1, isNameContinueC_hi (show 128 ≤ c by omega)]
      simp [e]

theorem isNameContinueC_lt {c : Nat} (h : isNameContinueC c = true) : c < 128 ∧ c ≠ 10 ∧ c ≠ 13 := by
  by_cases hc : c < 128
  · have : ∀ c < 128, isNameContinueC c = true → c ≠ 10 ∧ c ≠ 13 := by decide
    exact ⟨hc, this c hc h⟩
  · rw [isNameContinueC_hi (by omega)] at h; cases h

theorem simpleTok_plain (k : Kind) (v : Bytes) (c1 : Cur) (nb n : Nat) (rest : Bytes) (cps1 : List Nat)
    (hk : k ≠ .string) (hnl : NoNL (cps1.take n)) (h1 : 1 ≤ n) (h2 : n ≤ cps1.length) :
    StepPlainU (simpleTok k v c1 nb n rest) c1 cps1 k n := by
  intro t r c' h
  simp only [simpleTok, Step.tok.injEq] at h
  obtain ⟨rfl, _, rfl⟩ := h
  simp [hk, Cur.adv, hnl, h1, h2]

theorem step_comment_u (tl : List Nat) (c1 : Cur) (hs : AllScalar tl) :
    StepIsU (simpleTok .comment ((35 :: utf8Encode tl).take ((commentSpan (utf8Encode tl)).1 + 1)) c1
        ((commentSpan (utf8Encode tl)).1 + 1) ((commentSpan (utf8Encode tl)).2.1 + 1)
        (commentSpan (utf8Encode tl)).2.2) c1 (35 :: tl) .comment
      (35 :: (spanP isCommentChar tl).1) ((spanP isCommentChar tl).1.length + 1) ∧
    StepPlainU (simpleTok .comment ((35 :: utf8Encode tl).take ((commentSpan (utf8Encode tl)).1 + 1)) c1
        ((commentSpan (utf8Encode tl)).1 + 1) ((commentSpan (utf8Encode tl)).2.1 + 1)
        (commentSpan (utf8Encode tl)).2.2) c1 (35 :: tl) .comment ((spanP isCommentChar tl).1.length + 1) := by
  have hsp := spanP_append isCommentChar tl
  have hall := spanP_all isCommentChar tl
  rw [commentSpan_enc tl hs]
  generalize (spanP isCommentChar tl).1 = x at hsp hall ⊢
  generalize (spanP isCommentChar tl).2 = r at hsp ⊢
  subst hsp
  have hd : (35 :: (x ++ r)).drop (x.length + 1) = r := by simp
  have hnl : NoNL (35 :: x) := NoNL_cons (by omega) (fun c hc => isCommentChar_noNL (hall c hc))
  constructor
  · unfold StepIsU simpleTok
    rw [hd]
    refine ⟨_, _, rfl, rfl, ?_, rfl, rfl, by simp [Cur.adv], by simp⟩
    simp only []
    rw [utf8Encode_append, utf8Encode_cons_ascii (show 35 < 128 by omega)]
    simp
  · apply simpleTok_plain _ _ _ _ _ _ _ (by simp)
    · have : (35 :: (x ++ r)).take (x.length + 1) = 35 :: x := by simp
      rw [this]; exact hnl
    · omega
    · simp

theorem step_name_u (b : Nat) (tl : List Nat) (c1 : Cur) (hb : b < 128) (hns : isNameStart b = true)
    (hs : AllScalar tl) :
    StepIsU (simpleTok .name (b :: (nameSpan (utf8Encode tl)).1) c1 ((nameSpan (utf8Encode tl)).1.length + 1)
        ((nameSpan (utf8Encode tl)).1.length + 1) (nameSpan (utf8Encode tl)).2) c1 (b :: tl) .name
      (b :: (spanP isNameContinueC tl).1) ((spanP isNameContinueC tl).1.length + 1) ∧
    StepPlainU (simpleTok .name (b :: (nameSpan (utf8Encode tl)).1) c1 ((nameSpan (utf8Encode tl)).1.length + 1)
        ((nameSpan (utf8Encode tl)).1.length + 1) (nameSpan (utf8Encode tl)).2) c1 (b :: tl) .name
      ((spanP isNameContinueC tl).1.length + 1) := by
  have hsp := spanP_append isNameContinueC tl
  have hall := spanP_all isNameContinueC tl
  rw [nameSpan_enc tl hs]
  generalize (spanP isNameContinueC tl).1 = x at hsp hall ⊢
  generalize (spanP isNameContinueC tl).2 = r at hsp ⊢
  subst hsp
  have hx : Ascii (b :: x) := Ascii_cons hb (fun c hc => (isNameContinueC_lt (hall c hc)).1)
  have hd : (b :: (x ++ r)).drop (x.length + 1) = r := by simp
  have hbn : b ≠ 10 ∧ b ≠ 13 := isNameCont_noNL (by simp [isNameCont, hns])
  have hnl : NoNL (b :: x) := NoNL_cons hbn (fun c hc => (isNameContinueC_lt (hall c hc)).2)
  constructor
  · unfold StepIsU simpleTok
    rw [hd]
    refine ⟨_, _, rfl, rfl, ?_, rfl, rfl, by simp [Cur.adv], by simp⟩
    rw [utf8Encode_ascii _ hx]
  · apply simpleTok_plain _ _ _ _ _ _ _ (by simp)
    · have : (b :: (x ++ r)).take (x.length + 1) = b :: x := by simp
      rw [this]; exact hnl
    · omega
    · simp

/-- numbers: the model on the encoding against `numberToken` on the code points -/
theorem step_number_u (cps1 : List Nat) (c1 : Cur) (hs : AllScalar cps1) :
    match numberToken cps1 with
    | none => ∃ e, readNumber c1 (utf8Encode cps1) = .err e
    | some (k, lex, _) =>
      StepIsU (readNumber c1 (utf8Encode cps1)) c1 cps1 k lex lex.length ∧
      StepPlainU (readNumber c1 (utf8Encode cps1)) c1 cps1 k lex.length ∧ k ≠ .blockString := by
  obtain ⟨pre, X, rfl, hA, hX⟩ := ascii_split cps1
  have hsX : AllScalar X := AllScalar_append_right hs
  have hm := readNumber_spec c1 (pre ++ utf8Encode X)
  have hp := readNumber_spec c1 pre
  have hpl := readNumber_plain c1 pre
  rw [utf8Encode_ascii_append hA, numberToken_opaque pre X hX]
  rw [numberToken_opaque pre (utf8Encode X) (Opaque_enc hsX hX)] at hm
  cases hnt : numberToken pre with
  | none =>
    rw [hnt] at hm
    exact hm
  | some p =>
    obtain ⟨k, lex, r0⟩ := p
    rw [hnt] at hm hp
    simp only [Option.map, Matches] at hm hp ⊢
    obtain ⟨m1, _⟩ := hm
    obtain ⟨p1, p2⟩ := hp
    have hA0 : Ascii r0 := by rw [p2] at hA; exact Ascii_append_right hA
    have hAl : Ascii lex := by rw [p2] at hA; exact Ascii_append_left hA
    have hk : k ≠ .eof ∧ k ≠ .blockString ∧ k ≠ .string := by
      rcases numberToken_kind hnt with rfl | rfl <;> simp
    have hd : (pre ++ X).drop lex.length = r0 ++ X := by rw [p2]; simp
    have hnl : NoNL lex := by
      rw [p1] at hpl
      obtain ⟨x, e1, _, e3, _⟩ := hpl
      rw [p2] at e1
      have := List.append_cancel_right e1
      rw [this]; exact e3
    have hlen : 1 ≤ lex.length := by
      rw [p1] at hpl
      obtain ⟨x, e1, e2, _⟩ := hpl
      rw [p2] at e1
      have := List.append_cancel_right e1
      subst this
      cases lex with
      | nil => exact absurd rfl e2
      | cons _ _ => simp
    refine ⟨?_, ?_, hk.2.1⟩
    · unfold StepIsU
      rw [m1, hd, utf8Encode_ascii_append hA0]
      exact ⟨_, _, rfl, rfl, (utf8Encode_ascii _ hAl).symm, rfl, rfl, by simp [Cur.adv], hk.1⟩
    · intro t r c' h
      rw [m1] at h
      simp only [numTok, Step.tok.injEq] at h
      obtain ⟨rfl, _, rfl⟩ := h
      have htk : (pre ++ X).take lex.length = lex := by rw [p2]; simp
      simp [hk.2.2, Cur.adv, htk, hnl, hlen]
      rw [p2]; simp; omega

theorem enc_not_prefix {tl : List Nat} (hs : AllScalar tl) (p : Bytes) (hp : Ascii p)
    (h : ∀ body, tl = p ++ body → False) : ∀ body, utf8Encode tl = p ++ body → False := by
  intro body e
  obtain ⟨t, e1, _, _⟩ := enc_ascii_prefix p hs e hp
  exact h t e1

theorem step_string_u (tl : List Nat) (c1 : Cur) (hs : AllScalar tl) :
    match stringBody tl with
    | none => ∃ e, readStringLoop c1 (utf8Encode tl) (c1.adv 1 1) [] false = .err e
    | some (val, n, _) =>
      StepIsU (readStringLoop c1 (utf8Encode tl) (c1.adv 1 1) [] false) c1 (34 :: tl) .string val (n + 1) ∧
      StepPlainU (readStringLoop c1 (utf8Encode tl) (c1.adv 1 1) [] false) c1 (34 :: tl) .string (n + 1) := by
  have hm := readStringLoop_u c1 (utf8Encode tl) (c1.adv 1 1) [] false tl hs rfl
  cases hsb : stringBody tl with
  | none => rw [hsb] at hm; exact hm
  | some p =>
    obtain ⟨val, n, r⟩ := p
    rw [hsb] at hm
    obtain ⟨x, nb, e1, e2, e3, e4⟩ := hm
    have hd : (34 :: tl).drop (n + 1) = r := by rw [e1, ← e2]; simp
    have htk : (34 :: tl).take (n + 1) = 34 :: x := by rw [e1, ← e2]; simp
    constructor
    · unfold StepIsU
      rw [e4, hd]
      exact ⟨_, _, rfl, rfl, by simp, rfl, by simp [Cur.adv]; omega, by simp [Cur.adv]; omega, by simp⟩
    · intro t r' c' h
      rw [e4] at h
      simp only [Step.tok.injEq] at h
      obtain ⟨rfl, _, rfl⟩ := h
      simp only [htk, if_true]
      refine ⟨by simp [Cur.adv], by simp [Cur.adv, colOf]; omega, by simp [Cur.adv], by simp [Cur.adv],
        NoNL_cons (by omega) e3, by omega, ?_⟩
      rw [e1]; simp; omega

/-- what `step_core_u` says about an item of the specification -/
def CoreOKU (it : Item) (cps1 : List Nat) (c1 : Cur) : Prop :=
  match it with
  | .eof => cps1 = []
  | .ignored _ => False
  | .error => ∃ e, readTokenBody (utf8Encode cps1) c1 = .err e
  | .token k v n =>
    if k = .blockString then
      ∃ body raw nb r, cps1 = 34 :: 34 :: 34 :: body ∧ blockBody body = some (raw, nb, r) ∧
        v = Spec.blockStringValue raw ∧ n = nb + 3
    else StepIsU (readTokenBody (utf8Encode cps1) c1) c1 cps1 k v n ∧
      StepPlainU (readTokenBody (utf8Encode cps1) c1) c1 cps1 k n

theorem CoreOKU_token (k : Kind) (v : List Nat) (n : Nat) (cps1 : List Nat) (c1 : Cur) (hk : k ≠ .blockString)
    (h : StepIsU (readTokenBody (utf8Encode cps1) c1) c1 cps1 k v n ∧
      StepPlainU (readTokenBody (utf8Encode cps1) c1) c1 cps1 k n) : CoreOKU (.token k v n) cps1 c1 := by
  simp only [CoreOKU, hk, if_false]; exact h

theorem noNL_one {b : Nat} (h : b ≠ 10 ∧ b ≠ 13) : NoNL [b] := NoNL_cons h NoNL_nil

/-- One step of the model against one lexical item of the specification, for every text of scalars. -/
theorem step_core_u (cps1 : List Nat) (c1 : Cur) (hs : AllScalar cps1) (hH : NotIgnoredHeadU cps1) :
    CoreOKU (item cps1) cps1 c1 := by
  cases cps1 with
  | nil => simp [item_nil, CoreOKU]
  | cons b tl =>
    have hst := AllScalar_tail hs
    have hH' : ¬ (b = 9 ∨ b = 32 ∨ b = 44 ∨ b = 10 ∨ b = 13 ∨ b = 0xFEFF) := hH
    by_cases hb : b < 128
    case neg =>
      -- a non-ASCII character where a token must start
      rw [item_high b tl (by omega) (by omega)]
      obtain ⟨b0, r, e, hb0⟩ := enc_head_high (AllScalar_head hs) (by omega) tl
      simp only [CoreOKU]
      rw [e, readTokenBody_bad b0 r c1 (punct_high (by omega)) (by omega) (by omega)
        (by simp [isNameStart]; omega) (by simp [isDigit]; omega) (by omega)]
      exact unexpectedChar_err _ _
    case pos =>
    have hi : ¬ (b = 9 ∨ b = 32 ∨ b = 44 ∨ b = 10 ∨ b = 13) := by omega
    have henc : utf8Encode (b :: tl) = b :: utf8Encode tl := utf8Encode_cons_ascii hb tl
    by_cases h35 : b = 35
    · subst h35
      rw [item_comment]
      apply CoreOKU_token _ _ _ _ _ (by decide)
      rw [henc, readTokenBody_comment]
      exact step_comment_u tl c1 hst
    · cases hp : punctOf b with
      | some k =>
        rw [item_punct b tl hb hi h35 k hp]
        have hp' : punct b = some k := by rw [punct_eq_punctOf b hb]; exact hp
        have hkb : k ≠ .blockString := by
          have hm := lookup_mem punctTable b k hp'
          have hall : ∀ p ∈ punctTable, p.2 ≠ Kind.blockString := by decide
          exact hall (b, k) hm
        have hpn := punct_noNL hp'
        apply CoreOKU_token _ _ _ _ _ hkb
        rw [henc, readTokenBody_punct b _ c1 k hp']
        refine ⟨⟨_, _, rfl, rfl, rfl, rfl, rfl, by simp [Cur.adv], punct_ne_eof hp'⟩, ?_⟩
        exact simpleTok_plain _ _ _ _ _ _ _ hpn.2.2 (by simpa using noNL_one ⟨hpn.1, hpn.2.1⟩) (by omega) (by simp)
      | none =>
        have hp' : punct b = none := by rw [punct_eq_punctOf b hb]; exact hp
        by_cases h46 : b = 46
        · subst h46
          by_cases hsp : ∃ tl', tl = 46 :: 46 :: tl'
          · obtain ⟨tl', rfl⟩ := hsp
            rw [item_spread]
            apply CoreOKU_token _ _ _ _ _ (by decide)
            have : utf8Encode (46 :: 46 :: 46 :: tl') = 46 :: 46 :: 46 :: utf8Encode tl' := by
              rw [show (46 :: 46 :: 46 :: tl' : List Nat) = [46, 46, 46] ++ tl' from rfl,
                utf8Encode_ascii_append (by intro x hx; simp at hx; omega)]; rfl
            rw [this, readTokenBody_spread]
            refine ⟨⟨_, _, rfl, rfl, rfl, rfl, rfl, by simp [Cur.adv], by simp⟩, ?_⟩
            exact simpleTok_plain _ _ _ _ _ _ _ (by simp) (by intro x hx; simp at hx; omega) (by omega) (by simp)
          · have hsp' : ∀ tl', tl = 46 :: 46 :: tl' → False := fun tl' e => hsp ⟨tl', e⟩
            rw [item_dot_err tl hsp']
            simp only [CoreOKU]
            rw [henc, readTokenBody_dot_err _ c1 (fun tl' e =>
              enc_not_prefix hst [46, 46] (by intro x hx; simp at hx; omega) (fun body e' => hsp' body e') tl' e)]
            exact unexpectedChar_err _ _
        · by_cases hns : isNameStart b = true
          · rw [item_name b tl hb hi h35 hp h46 hns]
            apply CoreOKU_token _ _ _ _ _ (by decide)
            rw [henc, readTokenBody_name b _ c1 hp' h46 h35 hns]
            exact step_name_u b tl c1 hb hns hst
          · by_cases hnum : b = 45 ∨ isDigit b = true
            · rw [item_number b tl hb hi h35 hp h46 hns hnum]
              have hm := step_number_u (b :: tl) c1 hs
              rw [henc] at hm
              cases hnt : numberToken (b :: tl) with
              | none =>
                rw [hnt] at hm
                simp only [CoreOKU]
                rw [henc, readTokenBody_number b _ c1 hp' h46 h35 hns hnum]
                exact hm
              | some p =>
                obtain ⟨k, lex, r⟩ := p
                rw [hnt] at hm
                apply CoreOKU_token _ _ _ _ _ hm.2.2
                rw [henc, readTokenBody_number b _ c1 hp' h46 h35 hns hnum]
                exact ⟨hm.1, hm.2.1⟩
            · by_cases h34 : b = 34
              · subst h34
                by_cases hbl : ∃ body, tl = 34 :: 34 :: body
                · obtain ⟨body, rfl⟩ := hbl
                  rw [item_block]
                  have hsb : AllScalar body := AllScalar_tail (AllScalar_tail hst)
                  have henc3 : utf8Encode (34 :: 34 :: 34 :: body) = 34 :: 34 :: 34 :: utf8Encode body := by
                    rw [show (34 :: 34 :: 34 :: body : List Nat) = [34, 34, 34] ++ body from rfl,
                      utf8Encode_ascii_append (by intro x hx; simp at hx; omega)]; rfl
                  cases hbb : blockBody body with
                  | none =>
                    have hm := readBlockLoop_u c1 (utf8Encode body) (c1.adv 3 3) [] body
                      ⟨c1.line, c1.ls, c1.endR + 3, false⟩ hsb rfl ⟨⟨rfl, rfl, rfl⟩, by simp⟩
                    rw [hbb] at hm
                    simp only [CoreOKU]
                    rw [henc3, readTokenBody_block]
                    exact hm
                  | some p =>
                    obtain ⟨raw, nb, r⟩ := p
                    simp only [CoreOKU, if_true]
                    exact ⟨body, raw, nb, r, rfl, hbb, rfl, rfl⟩
                · have hbl' : ∀ body, tl = 34 :: 34 :: body → False := fun body e => hbl ⟨body, e⟩
                  rw [item_string tl hbl']
                  have hm := step_string_u tl c1 hst
                  have hrb := readTokenBody_string (utf8Encode tl) c1 (fun body e =>
                    enc_not_prefix hst [34, 34] (by intro x hx; simp at hx; omega) (fun b' e' => hbl' b' e') body e)
                  cases hsb : stringBody tl with
                  | none =>
                    rw [hsb] at hm
                    simp only [CoreOKU]
                    rw [henc, hrb]
                    exact hm
                  | some p =>
                    obtain ⟨val, n, r⟩ := p
                    rw [hsb] at hm
                    apply CoreOKU_token _ _ _ _ _ (by decide)
                    rw [henc, hrb]
                    exact hm
              · rw [item_bad b tl hb hi h35 hp h46 hns hnum h34]
                simp only [CoreOKU]
                rw [henc, readTokenBody_bad b _ c1 hp' h46 h35 hns hnum h34]
                exact unexpectedChar_err _ _

theorem normCR_mem (raw : List Nat) : ∀ x ∈ normCR raw, x ∈ raw ∨ x = 10 := by
  fun_induction normCR raw with
  | case1 => simp
  | case2 rest ih =>
    intro x hx; simp at hx; rcases hx with rfl | hx
    · exact Or.inr rfl
    · rcases ih x hx with h | h
      · left; simp [h]
      · exact Or.inr h
  | case3 rest h ih =>
    intro x hx; simp at hx; rcases hx with rfl | hx
    · exact Or.inr rfl
    · rcases ih x hx with h | h
      · left; simp [h]
      · exact Or.inr h
  | case4 c rest h hc ih =>
    intro x hx; simp at hx; rcases hx with rfl | hx
    · left; simp
    · rcases ih x hx with h | h
      · left; simp [h]
      · exact Or.inr h

theorem blockBody_scalar {l raw : List Nat} {n : Nat} {r : List Nat} (h : blockBody l = some (raw, n, r))
    (hs : AllScalar l) : AllScalar (normCR raw) := by
  intro x hx
  rcases normCR_mem raw x hx with h1 | rfl
  · exact hs x ((blockBody_drop_mem l.length l raw n r (Nat.le_refl _) h).2 x h1)
  · exact IsScalar_of_lt (by omega)

theorem enc3 (body : List Nat) : utf8Encode (34 :: 34 :: 34 :: body) = 34 :: 34 :: 34 :: utf8Encode body := by
  rw [show (34 :: 34 :: 34 :: body : List Nat) = [34, 34, 34] ++ body from rfl,
    utf8Encode_ascii_append (by intro x hx; simp at hx; omega)]; rfl

/-- the block-string step of the model, exactly, in terms of the specification's `blockBody`,
    with the position invariant after the token -/
theorem step_block_u (body : List Nat) (c1 : Cur) (s : PState) (hs : AllScalar body)
    (hinv : InvU s (c1.adv 3 3) body) :
    BlkMatchesU c1 s (c1.adv 3 3) [] body (readTokenBody (utf8Encode (34 :: 34 :: 34 :: body)) c1)
      (blockBody body) := by
  rw [enc3, readTokenBody_block]
  exact readBlockLoop_u c1 (utf8Encode body) (c1.adv 3 3) [] body s hs rfl hinv

/-- under `NoLongQuoteRun` the block-string step is the specification's token -/
theorem step_block_ok_u (body : List Nat) (c1 : Cur) (hs : AllScalar body) (raw : List Nat) (nb : Nat)
    (r : List Nat) (h : blockBody body = some (raw, nb, r)) (hq : NoLongQuoteRun body = true) :
    StepIsU (readTokenBody (utf8Encode (34 :: 34 :: 34 :: body)) c1) c1 (34 :: 34 :: 34 :: body) .blockString
      (Spec.blockStringValue raw) (nb + 3) := by
  have hm := step_block_u body c1 ⟨c1.line, c1.ls, c1.endR + 3, false⟩ hs ⟨⟨rfl, rfl, rfl⟩, by simp⟩
  rw [h] at hm
  obtain ⟨c', x, e1, e2, e3, e4, e5⟩ := hm
  have hq0 : quoteRun r = 0 := by
    unfold NoLongQuoteRun at hq
    rw [h] at hq
    simpa using hq
  rw [hq0] at e4 e5
  simp only [List.drop_zero, List.replicate_zero, List.append_nil, Nat.add_zero, List.reverse_nil,
    List.nil_append] at e4 e5
  have hd : (34 :: 34 :: 34 :: body).drop (nb + 3) = r := by
    have := blockBody_drop h
    simpa using this
  unfold StepIsU
  rw [e5, hd]
  refine ⟨_, c', rfl, rfl, ?_, rfl, by simp [Cur.adv]; omega, by rw [e4]; simp [Cur.adv]; omega, by simp⟩
  simp only []
  rw [blockStringValue_enc _ (blockBody_scalar h hs), model_value_eq_spec]

end Gql.Lexer
