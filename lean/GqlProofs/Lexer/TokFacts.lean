import GqlProofs.Lexer.Progress
/-
  Facts about the tokens `readToken` returns that the parser-soundness proofs need:

  * a token whose kind carries no text (punctuators, `...`, EOF) has the empty value;
  * no token has kind `Invalid`;
  * the rune offsets move forward: a token starts at or after the cursor it was read from, and a
    non-EOF token ends the read at a cursor strictly after its start.
-/
namespace Gql.Lexer

/-- kinds whose tokens carry their text -/
def Kind.valued : Kind → Bool
  | .name | .int | .float | .string | .blockString | .comment => true
  | _ => false

/-- the token of a step read from a cursor at rune offset ≥ `lo` -/
def Step.okAt (st : Step) (lo : Nat) : Prop :=
  match st with
  | .tok t _ c' => lo ≤ t.start ∧ (t.kind = .eof ∨ t.start < c'.endR) ∧ (t.kind.valued = false → t.value = []) ∧
      t.kind ≠ .invalid ∧ (t.kind = .name → t.value ≠ [])
  | .err _ => True

theorem Step.okAt_mono {st : Step} {a b : Nat} (h : st.okAt a) (hab : b ≤ a) : st.okAt b := by
  cases st <;> simp_all [Step.okAt]; omega

theorem ws_endR (rest : Bytes) (c : Cur) : c.endR ≤ (ws rest c).2.endR := by
  fun_induction ws rest c <;> simp_all [Cur.adv, Cur.newline] <;> omega

theorem mkErr_okAt (c : Cur) (msg : Bytes) (lo : Nat) : (mkErr c msg).okAt lo := by simp [mkErr, Step.okAt]

theorem unexpectedChar_okAt (c : Cur) (b lo : Nat) : (unexpectedChar c b).okAt lo := by
  unfold unexpectedChar; split <;> (try split) <;> exact mkErr_okAt _ _ _

theorem numExp_okAt (start : Cur) (rest0 : Bytes) (n : Nat) (r : Bytes) (f : Bool) (hn : 1 ≤ n) :
    (numExp start rest0 n r f).okAt start.endR := by
  unfold numExp
  cases r with
  | nil => simp only []; split <;> simp_all [Step.okAt, mkErr, Cur.adv, Kind.valued] <;> (try split) <;> simp_all [Kind.valued] <;> omega
  | cons b t =>
    simp only []
    split
    · cases t with
      | nil => simp [digitSpan, Step.okAt, mkErr]
      | cons s t' =>
        simp only []
        split <;> split <;> (try split) <;> simp_all [Step.okAt, mkErr, Cur.adv, Kind.valued] <;> omega
    · split <;> simp_all [Step.okAt, mkErr, Cur.adv, Kind.valued] <;> (try split) <;> simp_all [Kind.valued] <;> omega

theorem numFrac_okAt (start : Cur) (rest0 : Bytes) (n : Nat) (r : Bytes) (hn : 1 ≤ n) :
    (numFrac start rest0 n r).okAt start.endR := by
  unfold numFrac
  split
  · simp only []
    split
    · exact mkErr_okAt _ _ _
    · exact numExp_okAt _ _ _ _ _ (by omega)
  · exact numExp_okAt _ _ _ _ _ hn

theorem readNumberCore_okAt (start : Cur) (rest0 : Bytes) (n1 : Nat) (r1 : Bytes) :
    (readNumberCore start rest0 n1 r1).okAt start.endR := by
  unfold readNumberCore
  split
  · split
    · exact mkErr_okAt _ _ _
    · exact numFrac_okAt _ _ _ _ (by omega)
  · split
    · exact mkErr_okAt _ _ _
    · rename_i hne
      apply numFrac_okAt
      cases hd : (digitSpan r1).1 <;> simp_all <;> omega

theorem readNumber_okAt (start : Cur) (rest0 : Bytes) : (readNumber start rest0).okAt start.endR :=
  readNumberCore_okAt _ _ _ _

/-- a string token starts at the opening quote `q`, and the loop cursor only moves forward -/
def Step.strAt (st : Step) (q lo : Nat) : Prop :=
  match st with
  | .tok t _ c' => t.start = q ∧ lo < c'.endR ∧ t.kind.valued = true ∧ t.kind ≠ .eof ∧ t.kind ≠ .name
  | .err _ => True

theorem Step.strAt_mono {st : Step} {q a b : Nat} (h : st.strAt q a) (hab : b ≤ a) : st.strAt q b := by
  cases st <;> simp_all [Step.strAt]; omega

theorem mkErr_strAt (c : Cur) (msg : Bytes) (q lo : Nat) : (mkErr c msg).strAt q lo := by simp [mkErr, Step.strAt]

theorem readStringLoop_strAt (q : Cur) (l : Bytes) (c : Cur) (acc : Bytes) (buf : Bool) :
    (readStringLoop q l c acc buf).strAt q.endR c.endR := by
  fun_induction readStringLoop q l c acc buf
  all_goals first
    | exact mkErr_strAt _ _ _ _
    | (simp [Step.strAt, Cur.adv, Kind.valued]; done)
    | (refine Step.strAt_mono (by assumption) ?_; simp [Cur.adv]; done)

theorem readBlockLoop_strAt (q : Cur) (l : Bytes) (c : Cur) (acc : Bytes) :
    (readBlockLoop q l c acc).strAt q.endR c.endR := by
  fun_induction readBlockLoop q l c acc
  all_goals first
    | exact mkErr_strAt _ _ _ _
    | (simp [Step.strAt, Cur.adv, Kind.valued]; omega)
    | (refine Step.strAt_mono (by assumption) ?_; simp [Cur.adv, Cur.newline]; done)
    | (rename_i c' _; refine Step.strAt_mono (by assumption) ?_; split <;> simp [c', Cur.adv, Cur.newline])

theorem Step.okAt_of_strAt {st : Step} {q lo : Nat} (h : st.strAt q lo) (hq : q ≤ lo) : st.okAt q := by
  cases st with
  | err e => trivial
  | tok t r c =>
    obtain ⟨h1, h2, h3, h4, h5⟩ := h
    refine ⟨by omega, .inr (by omega), fun hv => ?_, fun hk => ?_, fun hk => absurd hk h5⟩
    · rw [h3] at hv; cases hv
    · rw [hk] at h3; cases h3

theorem punct_valued {b : Nat} {k : Kind} (h : punct b = some k) : k.valued = false ∧ k ≠ .eof ∧ k ≠ .invalid := by
  unfold punct punctTable at h
  simp only [List.lookup] at h
  repeat (split at h; (first | (cases h; decide) | skip))
  all_goals cases h

theorem readTokenBody_okAt (rest1 : Bytes) (c1 : Cur) : (readTokenBody rest1 c1).okAt c1.endR := by
  unfold readTokenBody
  cases rest1 with
  | nil => simp [Step.okAt, simpleTok]
  | cons b tl =>
    simp only []
    split
    · rename_i k hk
      obtain ⟨h1, _, h3⟩ := punct_valued hk
      have h4 : k ≠ .name := by intro e; rw [e] at h1; cases h1
      simp [Step.okAt, simpleTok, Cur.adv, h3, h4]
    · split
      · split
        · simp [Step.okAt, simpleTok, Cur.adv]
        · exact unexpectedChar_okAt _ _ _
      · split
        · simp [Step.okAt, simpleTok, Cur.adv, Kind.valued]
        · split
          · simp [Step.okAt, simpleTok, Cur.adv, Kind.valued]
          · split
            · exact readNumber_okAt c1 (b :: tl)
            · split
              · split
                · exact Step.okAt_of_strAt (readBlockLoop_strAt c1 _ _ _) (by simp [Cur.adv])
                · exact Step.okAt_of_strAt (readStringLoop_strAt c1 _ _ _ _) (by simp [Cur.adv])
              · exact unexpectedChar_okAt _ _ _

theorem readToken_okAt (rest : Bytes) (c : Cur) : (readToken rest c).okAt c.endR :=
  Step.okAt_mono (readTokenBody_okAt _ _) (ws_endR rest c)

end Gql.Lexer
