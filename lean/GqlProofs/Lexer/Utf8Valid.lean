import GqlProofs.Lexer.Utf8Dec
/-
  An independent strict UTF-8 decoder and its round trip with `utf8Encode`: the well-formed UTF-8
  texts are exactly the encodings of lists of Unicode scalar values, and the list is unique
  (`Utf8.decode_encode`, `Utf8.decode_sound`, `Utf8.valid_iff`).
-/
namespace Gql.Lexer

/-- strict decoding with fuel: `none` as soon as a byte does not start a well-formed encoded scalar
    (a byte ≥ 128 for which Go's DecodeRune reports width 1 is an encoding error; bytes must be < 256) -/
def Utf8.decodeFuel : Nat → Bytes → Option (List Nat)
  | _, [] => some []
  | 0, _ :: _ => none
  | f + 1, b :: tl =>
    if b < 128 then (Utf8.decodeFuel f tl).map (b :: ·)
    else if 1 < (decodeRune (b :: tl)).2 then
      (Utf8.decodeFuel f (tl.drop ((decodeRune (b :: tl)).2 - 1))).map ((decodeRune (b :: tl)).1 :: ·)
    else none

/-- the code points of a well-formed UTF-8 text, `none` if the text is not well-formed UTF-8 -/
def Utf8.decode (inp : Bytes) : Option (List Nat) := Utf8.decodeFuel inp.length inp

/-- well-formed UTF-8 -/
def Utf8.valid (inp : Bytes) : Prop := (Utf8.decode inp).isSome = true

theorem Utf8.decodeFuel_nil (f : Nat) : Utf8.decodeFuel f [] = some [] := by
  cases f <;> rfl

theorem Utf8.decodeFuel_succ_cons (f b : Nat) (tl : Bytes) :
    Utf8.decodeFuel (f + 1) (b :: tl) =
      if b < 128 then (Utf8.decodeFuel f tl).map (b :: ·)
      else if 1 < (decodeRune (b :: tl)).2 then
        (Utf8.decodeFuel f (tl.drop ((decodeRune (b :: tl)).2 - 1))).map ((decodeRune (b :: tl)).1 :: ·)
      else none := rfl

/-! ### completeness: the encoding of scalars decodes to them -/

theorem Utf8.decodeFuel_encode (cps : List Nat) (hs : AllScalar cps) :
    ∀ f, (utf8Encode cps).length ≤ f → Utf8.decodeFuel f (utf8Encode cps) = some cps := by
  induction cps with
  | nil => intro f _; exact Utf8.decodeFuel_nil f
  | cons c t ih =>
    intro f hf
    have hc := AllScalar_head hs
    have ht := AllScalar_tail hs
    by_cases h128 : c < 128
    · rw [utf8Encode_cons_ascii h128] at hf ⊢
      cases f with
      | zero => simp at hf
      | succ f =>
        simp only [List.length_cons] at hf
        rw [Utf8.decodeFuel_succ_cons, if_pos h128, ih ht f (by omega)]
        rfl
    · have h128' : 128 ≤ c := by omega
      obtain ⟨b0, b1, bt, e, _, _⟩ := encodeRune_high_shape hc h128'
      have hE : utf8Encode (c :: t) = b0 :: (b1 :: bt ++ utf8Encode t) := by
        rw [utf8Encode_cons, e]; rfl
      have hst := high_step hc h128' (utf8Encode t) (b := b0) (tl := b1 :: bt ++ utf8Encode t)
        (by rw [e]; rfl)
      obtain ⟨hb, hd, hdrop, _, hlen⟩ := hst
      have hlenE : (utf8Encode (c :: t)).length = (encodeRune c).length + (utf8Encode t).length := by
        rw [utf8Encode_cons, List.length_append]
      rw [hE] at hf ⊢
      cases f with
      | zero => simp at hf
      | succ f =>
        rw [Utf8.decodeFuel_succ_cons, if_neg (by omega), hd]
        simp only
        rw [if_pos (by omega), hdrop, ih ht f (by rw [← hE, hlenE] at hf; omega)]
        rfl

/-- decoding the encoding of a list of scalars gives the list back -/
theorem Utf8.decode_encode (cps : List Nat) (hs : AllScalar cps) :
    Utf8.decode (utf8Encode cps) = some cps :=
  Utf8.decodeFuel_encode cps hs _ (Nat.le_refl _)

/-! ### soundness: what `decodeRune` accepts with width > 1 is the encoding of a scalar ≥ 128 -/

theorem Utf8.sound_two (b0 b1 : Nat) (h0 : 0xC2 ≤ b0) (h0' : b0 < 0xE0)
    (h1 : 0x80 ≤ b1) (h1' : b1 ≤ 0xBF) :
    IsScalar (b0 % 32 * 64 + b1 % 64) ∧ 128 ≤ b0 % 32 * 64 + b1 % 64 ∧
      encodeRune (b0 % 32 * 64 + b1 % 64) = [b0, b1] := by
  have hr1 : 128 ≤ b0 % 32 * 64 + b1 % 64 := by omega
  have hr2 : b0 % 32 * 64 + b1 % 64 < 0x800 := by omega
  refine ⟨?_, hr1, ?_⟩
  · unfold IsScalar; omega
  · rw [encodeRune_two (by omega) hr2]
    have e1 : 0xC0 + (b0 % 32 * 64 + b1 % 64) / 64 = b0 := by omega
    have e2 : 0x80 + (b0 % 32 * 64 + b1 % 64) % 64 = b1 := by omega
    rw [e1, e2]

theorem Utf8.sound_three (b0 b1 b2 : Nat) (h0 : 0xE0 ≤ b0) (h0' : b0 < 0xF0)
    (h1 : (if b0 = 0xE0 then 0xA0 else 0x80) ≤ b1) (h1' : b1 ≤ (if b0 = 0xED then 0x9F else 0xBF))
    (h2 : 0x80 ≤ b2) (h2' : b2 ≤ 0xBF) :
    IsScalar (b0 % 16 * 4096 + b1 % 64 * 64 + b2 % 64) ∧
      128 ≤ b0 % 16 * 4096 + b1 % 64 * 64 + b2 % 64 ∧
      encodeRune (b0 % 16 * 4096 + b1 % 64 * 64 + b2 % 64) = [b0, b1, b2] := by
  have g1 : 0x80 ≤ b1 := by split at h1 <;> omega
  have g1' : b1 ≤ 0xBF := by split at h1' <;> omega
  have gE0 : b0 = 0xE0 → 0xA0 ≤ b1 := by intro e; rw [if_pos e] at h1; exact h1
  have gED : b0 = 0xED → b1 ≤ 0x9F := by intro e; rw [if_pos e] at h1'; exact h1'
  generalize hr : b0 % 16 * 4096 + b1 % 64 * 64 + b2 % 64 = r
  have hr1 : ¬ r < 0x800 := by omega
  have hr2 : r < 0x10000 := by omega
  have hsc : IsScalar r := by unfold IsScalar; omega
  refine ⟨hsc, by omega, ?_⟩
  rw [encodeRune_three hsc hr1 hr2]
  have e1 : 0xE0 + r / 4096 = b0 := by omega
  have e2 : 0x80 + r / 64 % 64 = b1 := by omega
  have e3 : 0x80 + r % 64 = b2 := by omega
  rw [e1, e2, e3]

theorem Utf8.sound_four (b0 b1 b2 b3 : Nat) (h0 : 0xF0 ≤ b0) (h0' : b0 < 0xF5)
    (h1 : (if b0 = 0xF0 then 0x90 else 0x80) ≤ b1) (h1' : b1 ≤ (if b0 = 0xF4 then 0x8F else 0xBF))
    (h2 : 0x80 ≤ b2) (h2' : b2 ≤ 0xBF) (h3 : 0x80 ≤ b3) (h3' : b3 ≤ 0xBF) :
    IsScalar (b0 % 8 * 262144 + b1 % 64 * 4096 + b2 % 64 * 64 + b3 % 64) ∧
      128 ≤ b0 % 8 * 262144 + b1 % 64 * 4096 + b2 % 64 * 64 + b3 % 64 ∧
      encodeRune (b0 % 8 * 262144 + b1 % 64 * 4096 + b2 % 64 * 64 + b3 % 64) = [b0, b1, b2, b3] := by
  have g1 : 0x80 ≤ b1 := by split at h1 <;> omega
  have g1' : b1 ≤ 0xBF := by split at h1' <;> omega
  have gF0 : b0 = 0xF0 → 0x90 ≤ b1 := by intro e; rw [if_pos e] at h1; exact h1
  have gF4 : b0 = 0xF4 → b1 ≤ 0x8F := by intro e; rw [if_pos e] at h1'; exact h1'
  generalize hr : b0 % 8 * 262144 + b1 % 64 * 4096 + b2 % 64 * 64 + b3 % 64 = r
  have hr1 : ¬ r < 0x10000 := by omega
  have hr2 : r < 0x110000 := by omega
  have hsc : IsScalar r := by unfold IsScalar; omega
  refine ⟨hsc, by omega, ?_⟩
  rw [encodeRune_four hsc hr1]
  have e1 : 0xF0 + r / 262144 = b0 := by omega
  have e2 : 0x80 + r / 4096 % 64 = b1 := by omega
  have e3 : 0x80 + r / 64 % 64 = b2 := by omega
  have e4 : 0x80 + r % 64 = b3 := by omega
  rw [e1, e2, e3, e4]

/-- the statement of `decodeRune_sound` for one input -/
def Utf8.StepSound (b : Nat) (tl : Bytes) : Prop :=
  IsScalar (decodeRune (b :: tl)).1 ∧ 128 ≤ (decodeRune (b :: tl)).1 ∧
    encodeRune (decodeRune (b :: tl)).1 ++ tl.drop ((decodeRune (b :: tl)).2 - 1) = b :: tl

theorem Utf8.width_one_absurd {b : Nat} {tl : Bytes} {P : Prop} {r : Nat}
    (e : decodeRune (b :: tl) = (r, 1)) (hw : 1 < (decodeRune (b :: tl)).2) : P := by
  rw [e] at hw; exact absurd hw (Nat.lt_irrefl 1)

theorem Utf8.decodeRune_sound_two (b : Nat) (tl : Bytes) (a2 : ¬ b < 0xC2) (a3 : b < 0xE0)
    (hw : 1 < (decodeRune (b :: tl)).2) : Utf8.StepSound b tl := by
  have a1 : ¬ b < 0x80 := by omega
  cases tl with
  | nil =>
    exact Utf8.width_one_absurd (r := runeError) (by simp [decodeRune, a1, a2, a3]) hw
  | cons b1 t =>
    by_cases hc : 0x80 ≤ b1 ∧ b1 ≤ 0xBF
    · have e := decodeRune_two b b1 t (by omega) a3 hc.1 hc.2
      obtain ⟨s1, s2, s3⟩ := Utf8.sound_two b b1 (by omega) a3 hc.1 hc.2
      unfold Utf8.StepSound
      rw [e]
      refine ⟨s1, s2, ?_⟩
      simp only
      rw [s3]; rfl
    · have hc' : isCont b1 = false := by
        simp only [isCont, Bool.and_eq_false_iff, decide_eq_false_iff_not]; omega
      exact Utf8.width_one_absurd (r := runeError) (by simp [decodeRune, a1, a2, a3, hc']) hw

theorem Utf8.decodeRune_sound_three (b : Nat) (tl : Bytes) (a3 : ¬ b < 0xE0) (a4 : b < 0xF0)
    (hw : 1 < (decodeRune (b :: tl)).2) : Utf8.StepSound b tl := by
  have a1 : ¬ b < 0x80 := by omega
  have a2 : ¬ b < 0xC2 := by omega
  match tl, hw with
  | [], hw =>
    exact Utf8.width_one_absurd (r := runeError) (by simp [decodeRune, a1, a2, a3, a4]) hw
  | [_], hw =>
    exact Utf8.width_one_absurd (r := runeError) (by simp [decodeRune, a1, a2, a3, a4]) hw
  | b1 :: b2 :: t, hw =>
    by_cases hc : ((if b = 0xE0 then 0xA0 else 0x80) ≤ b1 ∧ b1 ≤ (if b = 0xED then 0x9F else 0xBF))
        ∧ (0x80 ≤ b2 ∧ b2 ≤ 0xBF)
    · have e := decodeRune_three b b1 b2 t (by omega) a4 hc.1.1 hc.1.2 hc.2.1 hc.2.2
      obtain ⟨s1, s2, s3⟩ := Utf8.sound_three b b1 b2 (by omega) a4 hc.1.1 hc.1.2 hc.2.1 hc.2.2
      unfold Utf8.StepSound
      rw [e]
      refine ⟨s1, s2, ?_⟩
      simp only
      rw [s3]; rfl
    · have hc' : (decide ((if b = 0xE0 then 0xA0 else 0x80) ≤ b1) &&
          decide (b1 ≤ (if b = 0xED then 0x9F else 0xBF)) && isCont b2) = false := by
        cases hx : (decide ((if b = 0xE0 then 0xA0 else 0x80) ≤ b1) &&
          decide (b1 ≤ (if b = 0xED then 0x9F else 0xBF)) && isCont b2) with
        | false => rfl
        | true =>
          exfalso; apply hc
          simp only [isCont, Bool.and_eq_true, decide_eq_true_eq] at hx
          exact hx
      exact Utf8.width_one_absurd (r := runeError) (by simp [decodeRune, a1, a2, a3, a4, hc']) hw

theorem Utf8.decodeRune_sound_four (b : Nat) (tl : Bytes) (a4 : ¬ b < 0xF0) (a5 : b < 0xF5)
    (hw : 1 < (decodeRune (b :: tl)).2) : Utf8.StepSound b tl := by
  have a1 : ¬ b < 0x80 := by omega
  have a2 : ¬ b < 0xC2 := by omega
  have a3 : ¬ b < 0xE0 := by omega
  match tl, hw with
  | [], hw =>
    exact Utf8.width_one_absurd (r := runeError) (by simp [decodeRune, a1, a2, a3, a4, a5]) hw
  | [_], hw =>
    exact Utf8.width_one_absurd (r := runeError) (by simp [decodeRune, a1, a2, a3, a4, a5]) hw
  | [_, _], hw =>
    exact Utf8.width_one_absurd (r := runeError) (by simp [decodeRune, a1, a2, a3, a4, a5]) hw
  | b1 :: b2 :: b3 :: t, hw =>
    by_cases hc : (((if b = 0xF0 then 0x90 else 0x80) ≤ b1 ∧ b1 ≤ (if b = 0xF4 then 0x8F else 0xBF))
        ∧ (0x80 ≤ b2 ∧ b2 ≤ 0xBF)) ∧ (0x80 ≤ b3 ∧ b3 ≤ 0xBF)
    · have e := decodeRune_four b b1 b2 b3 t (by omega) a5 hc.1.1.1 hc.1.1.2 hc.1.2.1 hc.1.2.2 hc.2.1 hc.2.2
      obtain ⟨s1, s2, s3⟩ :=
        Utf8.sound_four b b1 b2 b3 (by omega) a5 hc.1.1.1 hc.1.1.2 hc.1.2.1 hc.1.2.2 hc.2.1 hc.2.2
      unfold Utf8.StepSound
      rw [e]
      refine ⟨s1, s2, ?_⟩
      simp only
      rw [s3]; rfl
    · have hc' : (decide ((if b = 0xF0 then 0x90 else 0x80) ≤ b1) &&
          decide (b1 ≤ (if b = 0xF4 then 0x8F else 0xBF)) && isCont b2 && isCont b3) = false := by
        cases hx : (decide ((if b = 0xF0 then 0x90 else 0x80) ≤ b1) &&
          decide (b1 ≤ (if b = 0xF4 then 0x8F else 0xBF)) && isCont b2 && isCont b3) with
        | false => rfl
        | true =>
          exfalso; apply hc
          simp only [isCont, Bool.and_eq_true, decide_eq_true_eq] at hx
          exact hx
      exact Utf8.width_one_absurd (r := runeError) (by simp [decodeRune, a1, a2, a3, a4, a5, hc']) hw

/-- a lead byte ≥ 128 that `decodeRune` accepts (width > 1) starts the encoding of the scalar it returns -/
theorem Utf8.decodeRune_sound (b : Nat) (tl : Bytes) (hb : 128 ≤ b)
    (hw : 1 < (decodeRune (b :: tl)).2) :
    IsScalar (decodeRune (b :: tl)).1 ∧ 128 ≤ (decodeRune (b :: tl)).1 ∧
      encodeRune (decodeRune (b :: tl)).1 ++ tl.drop ((decodeRune (b :: tl)).2 - 1) = b :: tl := by
  have a1 : ¬ b < 0x80 := by omega
  by_cases a2 : b < 0xC2
  · exact Utf8.width_one_absurd (r := runeError) (by simp [decodeRune, a1, a2]) hw
  · by_cases a3 : b < 0xE0
    · exact Utf8.decodeRune_sound_two b tl a2 a3 hw
    · by_cases a4 : b < 0xF0
      · exact Utf8.decodeRune_sound_three b tl a3 a4 hw
      · by_cases a5 : b < 0xF5
        · exact Utf8.decodeRune_sound_four b tl a4 a5 hw
        · exact Utf8.width_one_absurd (r := runeError) (by simp [decodeRune, a1, a2, a3, a4, a5]) hw

theorem Utf8.decodeFuel_sound (f : Nat) :
    ∀ (inp : Bytes) (cps : List Nat), Utf8.decodeFuel f inp = some cps →
      utf8Encode cps = inp ∧ AllScalar cps := by
  induction f with
  | zero =>
    intro inp cps h
    cases inp with
    | nil =>
      rw [Utf8.decodeFuel_nil] at h
      cases h; exact ⟨rfl, AllScalar_nil⟩
    | cons b tl => exact absurd h (by simp [Utf8.decodeFuel])
  | succ f ih =>
    intro inp cps h
    cases inp with
    | nil =>
      rw [Utf8.decodeFuel_nil] at h
      cases h; exact ⟨rfl, AllScalar_nil⟩
    | cons b tl =>
      rw [Utf8.decodeFuel_succ_cons] at h
      by_cases hb : b < 128
      · rw [if_pos hb] at h
        cases hr : Utf8.decodeFuel f tl with
        | none => rw [hr] at h; exact absurd h (by simp)
        | some t =>
          rw [hr] at h
          simp only [Option.map_some, Option.some.injEq] at h
          obtain ⟨e, hs⟩ := ih tl t hr
          subst h
          exact ⟨by rw [utf8Encode_cons_ascii hb, e], AllScalar_cons (IsScalar_of_lt hb) hs⟩
      · rw [if_neg hb] at h
        by_cases hw : 1 < (decodeRune (b :: tl)).2
        · rw [if_pos hw] at h
          obtain ⟨s1, _, s3⟩ := Utf8.decodeRune_sound b tl (by omega) hw
          cases hr : Utf8.decodeFuel f (tl.drop ((decodeRune (b :: tl)).2 - 1)) with
          | none => rw [hr] at h; exact absurd h (by simp)
          | some t =>
            rw [hr] at h
            simp only [Option.map_some, Option.some.injEq] at h
            obtain ⟨e, hs⟩ := ih _ t hr
            subst h
            exact ⟨by rw [utf8Encode_cons, e, s3], AllScalar_cons s1 hs⟩
        · rw [if_neg hw] at h
          exact absurd h (by simp)

/-- what the strict decoder accepts is the encoding of the scalars it returns -/
theorem Utf8.decode_sound (inp : Bytes) (cps : List Nat) (h : Utf8.decode inp = some cps) :
    utf8Encode cps = inp ∧ AllScalar cps :=
  Utf8.decodeFuel_sound inp.length inp cps h

theorem Utf8.valid_iff (inp : Bytes) :
    Utf8.valid inp ↔ ∃ cps, AllScalar cps ∧ utf8Encode cps = inp := by
  unfold Utf8.valid
  constructor
  · intro h
    cases hd : Utf8.decode inp with
    | none => rw [hd] at h; exact absurd h (by simp)
    | some cps =>
      obtain ⟨e, hs⟩ := Utf8.decode_sound inp cps hd
      exact ⟨cps, hs, e⟩
  · rintro ⟨cps, hs, e⟩
    rw [← e, Utf8.decode_encode cps hs]; rfl

/-- ASCII text is valid and decodes to itself -/
theorem Utf8.decode_ascii (inp : Bytes) (h : ∀ b ∈ inp, b < 128) : Utf8.decode inp = some inp := by
  have hs : AllScalar inp := AllScalar_of_ascii h
  have e : utf8Encode inp = inp := utf8Encode_ascii inp h
  have := Utf8.decode_encode inp hs
  rw [e] at this
  exact this

end Gql.Lexer
