import GqlProofs.Lexer.SpecSpans
/-
  `readNumber` (model) against `Spec.numberToken` (specification): two independent formulations
  of IntValue / FloatValue with the look-ahead restriction.  No ASCII hypothesis is needed: both
  sides only ever test for ASCII characters.
-/
namespace Gql.Lexer
open Gql.Lexer.Spec

/-- the token `readNumber` returns for lexeme `lex` of kind `k`, leaving `r` -/
def numTok (start : Cur) (k : Kind) (lex r : Bytes) : Step :=
  .tok { kind := k, value := lex, start := start.endR, stop := start.endR + lex.length,
         line := start.line, col := colOf start.endR start.ls } r (start.adv lex.length lex.length)

/-- a model step agrees with an optional (kind, lexeme, rest) of the specification -/
def Matches (st : Step) (start : Cur) (rest0 : Bytes) (o : Option (Kind × List Cp × List Cp)) : Prop :=
  match o with
  | some (k, lex, r) => st = numTok start k lex r ∧ rest0 = lex ++ r
  | none => ∃ e, st = .err e

/-- the look-ahead restriction applied to a candidate lexeme -/
def finS (k : Kind) (lex r : List Cp) : Option (Kind × List Cp × List Cp) :=
  if numberFollowOk r then some (k, lex, r) else none

theorem numFollowBad_eq (r : Bytes) : numFollowBad r = !numberFollowOk r := by
  cases r with
  | nil => rfl
  | cons b t =>
    simp only [numFollowBad, numberFollowOk, isNameCont, isNameStart, isDigit, isNameStartC, isLetter, isDigitC]
    cases (decide (65 ≤ b) && decide (b ≤ 90) || decide (97 ≤ b) && decide (b ≤ 122)) <;>
      cases (b == 95) <;> cases (decide (48 ≤ b) && decide (b ≤ 57)) <;> cases (b == 46) <;> rfl

theorem numFin_spec (start : Cur) (rest0 : Bytes) (n : Nat) (r : Bytes) (f : Bool) (x : Bytes)
    (hx : rest0 = x ++ r) (hn : x.length = n) :
    Matches (if numFollowBad r then mkErr (start.adv n n) (msgExpectedDigit r) else
      Step.tok { kind := if f then .float else .int, value := rest0.take n,
                 start := start.endR, stop := start.endR + n, line := start.line,
                 col := colOf start.endR start.ls } r (start.adv n n)) start rest0
      (finS (if f then .float else .int) x r) := by
  rw [numFollowBad_eq]
  unfold finS
  cases h : numberFollowOk r
  · simp [Matches, mkErr]
  · subst hn; subst hx
    simp [Matches, numTok]

theorem exponentPart_nil : exponentPart [] = none := rfl

theorem exponentPart_not_e (b : Nat) (t : Bytes) (h : ¬ (b = 101 ∨ b = 69)) : exponentPart (b :: t) = none := by
  simp [exponentPart, h]

theorem digits1_eq (l : Bytes) :
    digits1 l = if (digitSpan l).1.isEmpty then none else some ((digitSpan l).1, (digitSpan l).2) := by
  simp [digits1, digitSpan_eq_spanP]

theorem exponentPart_sign (b s : Nat) (t : Bytes) (hb : b = 101 ∨ b = 69) (hs : s = 45 ∨ s = 43) :
    exponentPart (b :: s :: t) =
      if (digitSpan t).1.isEmpty then none else some (b :: s :: (digitSpan t).1, (digitSpan t).2) := by
  have hs' : s = 43 ∨ s = 45 := by omega
  simp only [exponentPart, hb, hs', if_true, digits1_eq]
  split <;> simp

theorem exponentPart_nosign (b : Nat) (t : Bytes) (hb : b = 101 ∨ b = 69)
    (hs : ∀ s t', t = s :: t' → ¬ (s = 45 ∨ s = 43)) :
    exponentPart (b :: t) =
      if (digitSpan t).1.isEmpty then none else some (b :: (digitSpan t).1, (digitSpan t).2) := by
  cases t with
  | nil => simp [exponentPart, hb, digits1_eq, digitSpan]
  | cons s t' =>
    have hs' : ¬ (s = 43 ∨ s = 45) := by have := hs s t' rfl; omega
    simp only [exponentPart, hb, hs', if_true, if_false, digits1_eq]
    split <;> simp

theorem followOk_e (b : Nat) (t : Bytes) (hb : b = 101 ∨ b = 69) : numberFollowOk (b :: t) = false := by
  rcases hb with rfl | rfl <;> rfl

theorem numExp_spec (start : Cur) (rest0 : Bytes) (n : Nat) (r : Bytes) (f : Bool) (x : Bytes)
    (hx : rest0 = x ++ r) (hn : x.length = n) :
    Matches (numExp start rest0 n r f) start rest0
      (match exponentPart r with
       | some (ep, r2) => finS .float (x ++ ep) r2
       | none => finS (if f then .float else .int) x r) := by
  unfold numExp
  cases r with
  | nil => simpa [exponentPart_nil] using numFin_spec start rest0 n [] f x hx hn
  | cons b t =>
    simp only []
    split
    · rename_i hb
      cases t with
      | nil =>
        rw [exponentPart_nosign b [] hb (by simp)]
        simp [digitSpan, finS, followOk_e b [] hb, Matches, mkErr]
      | cons sg t' =>
        simp only []
        split
        · rename_i hs
          rw [exponentPart_sign b sg t' hb hs]
          have hd := (digitSpan_split t').1
          split
          · rename_i he
            simp [he, finS, followOk_e b _ hb, Matches, mkErr]
          · rename_i he
            simp only [he]
            have := numFin_spec start rest0 (n + 2 + (digitSpan t').1.length) (digitSpan t').2 true
              (x ++ b :: sg :: (digitSpan t').1)
              (by rw [hx]; simp; exact hd) (by simp [hn]; omega)
            simpa using this
        · rename_i hs
          rw [exponentPart_nosign b (sg :: t') hb (by intro s t'' h; simp at h; rw [← h.1]; exact hs)]
          have hd := (digitSpan_split (sg :: t')).1
          split
          · rename_i he
            simp [he, finS, followOk_e b _ hb, Matches, mkErr]
          · rename_i he
            simp only [he]
            have := numFin_spec start rest0 (n + 1 + (digitSpan (sg :: t')).1.length) (digitSpan (sg :: t')).2 true
              (x ++ b :: (digitSpan (sg :: t')).1)
              (by rw [hx]; simp; exact hd) (by simp [hn]; omega)
            simpa using this
    · rename_i hb
      rw [exponentPart_not_e b t hb]
      exact numFin_spec start rest0 n (b :: t) f x hx hn

/-- what follows the integer part `x`: optional fraction, optional exponent, look-ahead check -/
def numTail (x r : List Cp) : Option (Kind × List Cp × List Cp) :=
  match fractionalPart r with
  | some (fp, r1) =>
    (match exponentPart r1 with
     | some (ep, r2) => finS .float (x ++ fp ++ ep) r2
     | none => finS .float (x ++ fp) r1)
  | none =>
    (match exponentPart r with
     | some (ep, r2) => finS .float (x ++ ep) r2
     | none => finS .int x r)

theorem numberToken_eq (cs : List Cp) :
    numberToken cs = match integerPart cs with
      | none => none
      | some (ip, r) => numTail ip r := by
  unfold numberToken numTail finS
  cases integerPart cs with
  | none => rfl
  | some p =>
    obtain ⟨ip, r⟩ := p
    simp only []
    cases fractionalPart r with
    | none => cases exponentPart r with
      | none => rfl
      | some q => rfl
    | some q =>
      obtain ⟨fp, r1⟩ := q
      simp only []
      cases exponentPart r1 with
      | none => rfl
      | some q => rfl

theorem fractionalPart_dot (t : Bytes) :
    fractionalPart (46 :: t) =
      if (digitSpan t).1.isEmpty then none else some (46 :: (digitSpan t).1, (digitSpan t).2) := by
  simp only [fractionalPart, digits1_eq]
  split <;> simp

theorem fractionalPart_nodot (r : Bytes) (h : ∀ t, r = 46 :: t → False) : fractionalPart r = none := by
  unfold fractionalPart
  split
  · exact absurd rfl (h _)
  · rfl

theorem numFrac_spec (start : Cur) (rest0 : Bytes) (n : Nat) (r : Bytes) (x : Bytes)
    (hx : rest0 = x ++ r) (hn : x.length = n) :
    Matches (numFrac start rest0 n r) start rest0 (numTail x r) := by
  unfold numFrac numTail
  split
  · rename_i t
    rw [fractionalPart_dot]
    have hd := (digitSpan_split t).1
    simp only []
    split
    · rename_i he
      simp only [he, if_true, exponentPart_not_e 46 t (by omega)]
      simp [finS, numberFollowOk, Matches, mkErr]
    · rename_i he
      simp only [he]
      have := numExp_spec start rest0 (n + 1 + (digitSpan t).1.length) (digitSpan t).2 true
        (x ++ 46 :: (digitSpan t).1) (by rw [hx]; simp; exact hd) (by simp [hn]; omega)
      simpa using this
  · rename_i h
    rw [fractionalPart_nodot r (by intro t ht; exact h t ht)]
    simpa using numExp_spec start rest0 n r false x hx hn

/-- a digit directly after the integer part: no continuation is a number -/
theorem numTail_digit (x : List Cp) (t : Bytes) (h : (digitSpan t).1.isEmpty = false) : numTail x t = none := by
  cases t with
  | nil => simp [digitSpan] at h
  | cons d t' =>
    have hd : isDigit d = true := by
      by_cases hd : isDigit d = true
      · exact hd
      · simp [digitSpan, hd] at h
    have h1 : 48 ≤ d ∧ d ≤ 57 := by simpa [isDigit] using hd
    unfold numTail
    rw [fractionalPart_nodot (d :: t') (by intro t ht; simp at ht; omega),
      exponentPart_not_e d t' (by omega)]
    have : numberFollowOk (d :: t') = false := by
      simp [numberFollowOk, isDigitC, h1]
    simp [finS, this]

/-- the integer part of the specification after the optional sign `sg` -/
def intTail (sg : List Cp) (r1 : List Cp) : Option (Kind × List Cp × List Cp) :=
  match r1 with
  | 48 :: r => numTail (sg ++ [48]) r
  | d :: r => if isDigitC d then numTail (sg ++ d :: (spanP isDigitC r).1) (spanP isDigitC r).2 else none
  | [] => none

theorem intTail_zero (sg r : List Cp) : intTail sg (48 :: r) = numTail (sg ++ [48]) r := rfl
theorem intTail_nil (sg : List Cp) : intTail sg [] = none := rfl
theorem intTail_cons (sg : List Cp) (d : Nat) (r : List Cp) (hd : d ≠ 48) :
    intTail sg (d :: r) =
      if isDigitC d then numTail (sg ++ d :: (spanP isDigitC r).1) (spanP isDigitC r).2 else none := by
  unfold intTail
  split
  · rename_i h; simp at h; exact absurd h.1 hd
  · rename_i h; simp at h; obtain ⟨rfl, rfl⟩ := h; rfl
  · rename_i h; simp at h

theorem readNumberCore_spec (start : Cur) (rest0 : Bytes) (n1 : Nat) (r1 : Bytes) (x : Bytes)
    (hx : rest0 = x ++ r1) (hn : x.length = n1) :
    Matches (readNumberCore start rest0 n1 r1) start rest0 (intTail x r1) := by
  unfold readNumberCore
  split
  · rename_i t
    rw [intTail_zero]
    split
    · rename_i he
      rw [numTail_digit _ t (by simpa using he)]
      simp [Matches, mkErr]
    · exact numFrac_spec start rest0 (n1 + 1) t (x ++ [48]) (by rw [hx]; simp) (by simp [hn])
  · rename_i hz
    cases r1 with
    | nil => simp [digitSpan, Matches, mkErr, intTail_nil]
    | cons d r =>
      have hd48 : d ≠ 48 := by intro h; subst h; exact hz r rfl
      rw [intTail_cons x d r hd48]
      by_cases hd : isDigit d = true
      · have e : digitSpan (d :: r) = (d :: (digitSpan r).1, (digitSpan r).2) := by simp [digitSpan, hd]
        have hsp := (digitSpan_split r).1
        simp only [e, List.isEmpty_cons, Bool.false_eq_true, if_false]
        have hdc : isDigitC d = true := hd
        simp only [hdc, if_true, ← digitSpan_eq_spanP]
        exact numFrac_spec start rest0 _ _ (x ++ d :: (digitSpan r).1) (by rw [hx]; simp; exact hsp)
          (by simp [hn])
      · have e : digitSpan (d :: r) = ([], d :: r) := by simp [digitSpan, hd]
        have hdc : isDigitC d = false := by
          show isDigit d = false
          simpa using hd
        simp [e, hdc, Matches, mkErr]

/-- the specification's IntegerPart after the optional sign `sg` -/
def intPart (sg r1 : List Cp) : Option (List Cp × List Cp) :=
  match r1 with
  | 48 :: r => some (sg ++ [48], r)
  | d :: r => if isDigitC d then some (sg ++ d :: (spanP isDigitC r).1, (spanP isDigitC r).2) else none
  | [] => none

theorem integerPart_eq (cs : List Cp) :
    integerPart cs = intPart (List.replicate (stripSign cs).1 45) (stripSign cs).2 := by
  have key : ∀ sg r1, (match r1 with
        | 48 :: r => some (sg ++ [48], r)
        | d :: r => if isDigitC d then
            (match spanP isDigitC r with | (ds, r') => some (sg ++ d :: ds, r')) else none
        | [] => none : Option (List Cp × List Cp)) = intPart sg r1 := by
    intro sg r1
    unfold intPart
    split
    · rfl
    · rfl
    · rfl
  unfold integerPart
  split
  rename_i sign cs1 heq
  refine Eq.trans (key sign cs1) ?_
  unfold stripSign
  split at heq
  · simp at heq; obtain ⟨rfl, rfl⟩ := heq; rfl
  · rename_i h
    simp at heq; obtain ⟨rfl, rfl⟩ := heq
    split
    · exact absurd rfl (h _)
    · rfl

theorem intTail_eq (sg r1 : List Cp) :
    intTail sg r1 = match intPart sg r1 with
      | none => none
      | some (ip, r) => numTail ip r := by
  unfold intTail intPart
  split
  · rfl
  · split <;> rfl
  · rfl

theorem numberToken_intTail (cs : List Cp) :
    numberToken cs = intTail (List.replicate (stripSign cs).1 45) (stripSign cs).2 := by
  rw [numberToken_eq, integerPart_eq, intTail_eq]

/-- `readNumber` produces exactly the Int/Float token of the specification (kind, lexeme, rest)
    and fails exactly when the specification admits no number at this place. -/
theorem readNumber_spec (start : Cur) (rest0 : Bytes) :
    Matches (readNumber start rest0) start rest0 (numberToken rest0) := by
  rw [numberToken_intTail]
  unfold readNumber
  apply readNumberCore_spec
  · unfold stripSign; split <;> simp [List.replicate]
  · simp

end Gql.Lexer
