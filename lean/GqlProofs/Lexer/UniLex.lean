import GqlProofs.Lexer.UniStep
import GqlProofs.Lexer.SpecLex
import GqlProofs.Lexer.Utf8Valid
/-
  Whole inputs: `lexAll (utf8Encode cps)` (model, bytes) against `Spec.lex cps` (specification, code
  points) for every list of Unicode scalar values, i.e. for every well-formed UTF-8 source
  (`Utf8.decode`), and the truthfulness of every reported position (`Spec.posAt` on the decoded
  text).  `ws` = a maximal run of `Ignored` items (blank, comma, LF / CR / CRLF, BOM).
-/
namespace Gql.Lexer
open Gql.Lexer.Spec

/-- what `ws` (result `res`) does on the encoding of `cps` from cursor `c`: it skips the code
    points `ign`, every one an `Ignored` item of the specification, and stops in front of `cps1` -/
def WsOK (c : Cur) (cps : List Nat) (res : Bytes × Cur) : Prop :=
  ∃ ign cps1, cps = ign ++ cps1 ∧ res.1 = utf8Encode cps1 ∧ AllScalar cps1 ∧ NotIgnoredHeadU cps1 ∧
    res.2.endR = c.endR + ign.length ∧
    (∀ (off : Nat) (sacc : List STok) (g : Nat), g ≥ cps.length + 1 →
      ∃ g', g' ≥ cps1.length + 1 ∧ lexGo g cps off sacc = lexGo g' cps1 (off + ign.length) sacc ∧
        (BlocksOK g cps = true → BlocksOK g' cps1 = true)) ∧
    (∀ s, InvU s c cps → InvU (foldPos s ign) res.2 cps1)

theorem WsOK_stop (c : Cur) (cps : List Nat) (bs : Bytes) (h1 : bs = utf8Encode cps) (hs : AllScalar cps)
    (hH : NotIgnoredHeadU cps) : WsOK c cps (bs, c) :=
  ⟨[], cps, rfl, h1, hs, hH, by simp, fun off sacc g hg => ⟨g, hg, by simp, id⟩, fun s h => by simpa using h⟩

theorem WsOK_step (c c2 : Cur) (chunk t : List Nat) (res : Bytes × Cur)
    (hit : item (chunk ++ t) = .ignored chunk.length) (hne : 1 ≤ chunk.length)
    (hc : c2.endR = c.endR + chunk.length)
    (hpos : ∀ s, InvU s c (chunk ++ t) → InvU (foldPos s chunk) c2 t)
    (h : WsOK c2 t res) : WsOK c (chunk ++ t) res := by
  obtain ⟨ign, cps1, e, h1, h2, h3, h4, h5, h6⟩ := h
  refine ⟨chunk ++ ign, cps1, by simp [e], h1, h2, h3, by rw [h4, hc]; simp only [List.length_append]; omega, ?_, ?_⟩
  · intro off sacc g hg
    obtain ⟨g0, rfl⟩ : ∃ g0, g = g0 + 1 := ⟨g - 1, by omega⟩
    have hd : (chunk ++ t).drop chunk.length = t := by simp
    obtain ⟨g', a1, a2, a3⟩ := h5 (off + chunk.length) sacc g0 (by simp at hg; omega)
    refine ⟨g', a1, ?_, ?_⟩
    · rw [lexGo_ignored g0 _ off sacc _ hit, hd, a2]
      simp [Nat.add_assoc]
    · intro hbk
      have := BlocksOK_ignored g0 _ _ hit hbk
      rw [hd] at this
      exact a3 this
  · intro s hinv
    rw [foldPos_append]
    exact h6 _ (hpos s hinv)

theorem InvU_plain1 (s : PState) (c : Cur) (b nb : Nat) (t : List Nat) (h : InvU s c (b :: t))
    (h1 : b ≠ 10) (h2 : b ≠ 13) : InvU (foldPos s [b]) (c.adv nb 1) t := by
  have := InvU_noNL s c [b] t nb h.1 (NoNL_cons ⟨h1, h2⟩ NoNL_nil) (by simp)
  simpa using this

/-- `ws` on the encoding of a text of scalars skips exactly a run of `Ignored` items of the
    specification (one code point each, CRLF two; the BOM `EF BB BF` is the one code point U+FEFF)
    and keeps the position invariant -/
theorem ws_u (bs : Bytes) (c : Cur) : ∀ (cps : List Nat), AllScalar cps → bs = utf8Encode cps →
    WsOK c cps (ws bs c) := by
  fun_induction ws bs c
  case case1 c =>
    intro cps hs hbs
    have := utf8Encode_eq_nil hbs.symm
    subst this
    exact WsOK_stop c [] [] rfl hs trivial
  case case2 b r c hb ih =>
    intro cps hs hbs
    obtain ⟨t, rfl, e, hst⟩ := enc_ascii_head hs hbs.symm (by omega)
    exact WsOK_step c (c.adv 1 1) [b] t _ (item_ws b t (by omega)) (by simp) (by simp [Cur.adv])
      (fun s h => InvU_plain1 s c b 1 t h (by omega) (by omega)) (ih t hst e)
  case case3 r c hb1 ih =>
    intro cps hs hbs
    obtain ⟨t, rfl, e, hst⟩ := enc_ascii_head hs hbs.symm (by omega)
    refine WsOK_step c (c.adv 1 1).newline [10] t _ (item_ws 10 t (by omega)) (by simp) (by simp [Cur.adv, Cur.newline])
      ?_ (ih t hst e)
    intro s h
    obtain ⟨⟨a1, a2, a3⟩, hcr⟩ := h
    have hcr' : s.cr = false := by
      cases hsr : s.cr with
      | false => rfl
      | true => exact absurd rfl (hcr hsr)
    refine ⟨⟨?_, ?_, ?_⟩, ?_⟩ <;> simp [posStep, hcr', Cur.adv, Cur.newline, a1, a3]
  case case4 c r' hb1 hb2 ih =>
    intro cps hs hbs
    obtain ⟨t, rfl, e, hst⟩ := enc_ascii_prefix [13, 10] hs (by simpa using hbs.symm)
      (by intro x hx; simp at hx; omega)
    refine WsOK_step c (c.adv 2 2).newline [13, 10] t _ (item_crlf t) (by simp) (by simp [Cur.adv, Cur.newline])
      ?_ (ih t hst e)
    intro s h
    obtain ⟨⟨a1, a2, a3⟩, hcr⟩ := h
    refine ⟨⟨?_, ?_, ?_⟩, ?_⟩ <;> simp [posStep, Cur.adv, Cur.newline, a1, a3]
  case case5 c r hr' hb1 hb2 ih =>
    intro cps hs hbs
    obtain ⟨t, rfl, e, hst⟩ := enc_ascii_head hs hbs.symm (by omega)
    have hh := head_ne_10_of_enc e (fun x ex => hr' x ex)
    have hit : item ([13] ++ t) = .ignored 1 := by
      refine item_cr t ?_
      intro r'' e''; rw [e''] at hh; simp at hh
    refine WsOK_step c (c.adv 1 1).newline [13] t _ hit (by simp) (by simp [Cur.adv, Cur.newline]) ?_ (ih t hst e)
    intro s h
    obtain ⟨⟨a1, a2, a3⟩, hcr⟩ := h
    refine ⟨⟨?_, ?_, ?_⟩, ?_⟩ <;> simp [posStep, Cur.adv, Cur.newline, a1, a3]
    exact hh
  case case6 c r' _ _ _ ih =>
    intro cps hs hbs
    obtain ⟨cp, t, rfl, hcs, hc128, hst, e⟩ := enc_high_head hs hbs.symm (by omega)
    obtain ⟨rfl, e'⟩ := enc_bom hcs e.symm
    exact WsOK_step c (c.adv 3 1) [0xFEFF] t _ (item_bom t) (by simp) (by simp [Cur.adv])
      (fun s h => InvU_plain1 s c 0xFEFF 3 t h (by omega) (by omega)) (ih t hst e'.symm)
  case case7 c r' hx _ _ _ =>
    intro cps hs hbs
    obtain ⟨cp, t, rfl, hcs, hc128, hst, e⟩ := enc_high_head hs hbs.symm (by omega)
    refine WsOK_stop c _ _ hbs hs ?_
    show ¬ (cp = 9 ∨ cp = 32 ∨ cp = 44 ∨ cp = 10 ∨ cp = 13 ∨ cp = 0xFEFF)
    intro h
    have hcp : cp = 0xFEFF := by omega
    subst hcp
    rw [encodeRune_bom] at e
    simp at e
    exact hx _ e
  case case8 b r c hb1 hb2 hb3 hb4 =>
    intro cps hs hbs
    refine WsOK_stop c _ _ hbs hs ?_
    by_cases hb : b < 128
    · obtain ⟨t, rfl, _, _⟩ := enc_ascii_head hs hbs.symm hb
      show ¬ (b = 9 ∨ b = 32 ∨ b = 44 ∨ b = 10 ∨ b = 13 ∨ b = 0xFEFF)
      omega
    · obtain ⟨cp, t, rfl, hcs, hc128, hst, e⟩ := enc_high_head hs hbs.symm (by omega)
      show ¬ (cp = 9 ∨ cp = 32 ∨ cp = 44 ∨ cp = 10 ∨ cp = 13 ∨ cp = 0xFEFF)
      intro h
      have hcp : cp = 0xFEFF := by omega
      subst hcp
      rw [encodeRune_bom] at e
      simp at e
      omega

/-- the token step under the block-string hypothesis, for every kind -/
theorem stepIsU_of_item (cps1 : List Nat) (c1 : Cur) (hs : AllScalar cps1) (hH : NotIgnoredHeadU cps1)
    (k : Kind) (v : List Cp) (n g : Nat) (hit : item cps1 = .token k v n)
    (hb : BlocksOK (g + 1) cps1 = true) : StepIsU (readTokenBody (utf8Encode cps1) c1) c1 cps1 k v n := by
  have core := step_core_u cps1 c1 hs hH
  rw [hit] at core
  by_cases hk : k = .blockString
  · subst hk
    simp only [CoreOKU, if_true] at core
    obtain ⟨body, raw, nb, r, rfl, hbb, rfl, rfl⟩ := core
    have hq : NoLongQuoteRun body = true := by
      simp only [BlocksOK, Bool.and_eq_true] at hb
      exact hb.1
    exact step_block_ok_u body c1 (AllScalar_tail (AllScalar_tail (AllScalar_tail hs))) raw nb r hbb hq
  · simp only [CoreOKU, hk, if_false] at core
    exact core.1

theorem lexFuel_lexGo_u (f : Nat) : ∀ (cps : List Nat) (c : Cur) (off : Nat) (acc : List Token)
    (sacc : List STok) (g : Nat), AllScalar cps → f ≥ (utf8Encode cps).length + 1 → g ≥ cps.length + 1 →
    c.endR = off → BlocksOK g cps = true → acc.map obsT = sacc.map obsS →
    LexAgree (lexFuel f (utf8Encode cps) c acc) (lexGo g cps off sacc) := by
  induction f with
  | zero => intro cps c off acc sacc g _ hf; omega
  | succ f0 ih =>
    intro cps c off acc sacc g hs hf hg hc hb hacc
    obtain ⟨ign, cps1, e0, h1, hs1, hH1, h3, h4, _⟩ := ws_u (utf8Encode cps) c cps hs rfl
    obtain ⟨g', hg', h4', h5⟩ := h4 off sacc g hg
    have hb1 := h5 hb
    have hwl := ws_len (utf8Encode cps) c
    rw [h4', lexFuel_succ, h1]
    rw [h1] at hwl
    generalize (ws (utf8Encode cps) c).2 = c1 at *
    obtain ⟨g0, rfl⟩ : ∃ g0, g' = g0 + 1 := ⟨g' - 1, by omega⟩
    rw [lexGo_succ]
    have core := step_core_u cps1 c1 hs1 hH1
    cases hit : item cps1 with
    | eof =>
      rw [hit] at core
      subst core
      simp only [utf8Encode_nil, readTokenBody, simpleTok, if_true, LexAgree]
      refine ⟨acc.reverse, Token.mk .eof [] c1.endR c1.endR c1.line (colOf c1.endR c1.ls),
        by simp, rfl, rfl, ?_⟩
      simp [List.map_reverse, hacc]
    | ignored n => rw [hit] at core; exact core.elim
    | error =>
      rw [hit] at core
      obtain ⟨e, he⟩ := core
      simp only [he, LexAgree]
      exact ⟨acc.reverse, e, rfl, by simp [List.map_reverse, hacc]⟩
    | token kd v n =>
      obtain ⟨t, c', e1, e2, e3, e4, e5, e6, e7⟩ := stepIsU_of_item cps1 c1 hs1 hH1 kd v n g0 hit hb1
      have hprog := readTokenBody_progress (utf8Encode cps1) c1 (utf8Encode cps1).length (Nat.le_refl _)
      rw [e1] at hprog
      have hlt : (utf8Encode (cps1.drop n)).length < (utf8Encode cps1).length :=
        hprog.2 (by rw [e2]; exact e7)
      have hkeof : ¬ t.kind = .eof := by rw [e2]; exact e7
      have hn0 : n ≠ 0 := by intro h0; subst h0; simp at hlt
      have hne1 : 1 ≤ cps1.length := by
        cases cps1 with
        | nil => simp [item_nil] at hit
        | cons _ _ => simp
      simp only [e1, hkeof, if_false]
      apply ih
      · exact AllScalar_drop n hs1
      · omega
      · simp only [List.length_drop]; omega
      · rw [e6, h3, hc]
      · simp only [BlocksOK, hit, Bool.and_eq_true] at hb1
        exact hb1.2
      · simp only [List.map_cons, hacc, obsT, obsS, e2, e3, e4, e5, h3, hc]

/-- Whole-input agreement of the model (on the encoding) with the specification (on the code
    points) for every text of Unicode scalar values in which every block string satisfies
    `NoLongQuoteRun`. -/
theorem lexAll_lex_u (cps : List Nat) (hs : AllScalar cps) (hb : BlocksOK (cps.length + 1) cps = true) :
    LexAgree (lexAll (utf8Encode cps)) (Spec.lex cps) :=
  lexFuel_lexGo_u _ cps Cur.init 0 [] [] _ hs (Nat.le_refl _) (Nat.le_refl _) rfl hb rfl

/-! ### positions -/

/-- a token produced at the (post-`ws`) state `s1` on the code points `cps1` -/
def TokAtU (s1 : PState) (cps1 : List Nat) (st : Step) : Prop :=
  match st with
  | .err _ => True
  | .tok t rest' c' => ∃ x r, cps1 = x ++ r ∧ rest' = utf8Encode r ∧ InvU (foldPos s1 x) c' r ∧
      t.start = s1.off ∧ t.line = s1.line ∧
      t.col = colOf s1.off s1.ls + (if t.kind = .string then 1 else 0) ∧
      t.start ≤ t.stop ∧ t.stop ≤ s1.off + x.length

theorem foldPos_off_u (s : PState) (l : List Nat) : (foldPos s l).off = s.off + l.length := by
  induction l generalizing s with
  | nil => simp
  | cons b t ih =>
    simp only [foldPos_cons, ih, List.length_cons]
    unfold posStep
    split
    · split <;> simp <;> omega
    · split <;> simp <;> omega

/-- the token produced after `ws` (state `s1`, cursor `c1`, code points `cps1`) -/
theorem readTokenBody_at_u (s1 : PState) (c1 : Cur) (cps1 : List Nat) (hs : AllScalar cps1)
    (hH : NotIgnoredHeadU cps1) (h : InvU s1 c1 cps1) :
    TokAtU s1 cps1 (readTokenBody (utf8Encode cps1) c1) := by
  have core := step_core_u cps1 c1 hs hH
  obtain ⟨⟨a1, a2, a3⟩, hcr⟩ := h
  cases hit : item cps1 with
  | eof =>
    rw [hit] at core
    subst core
    simp only [utf8Encode_nil, readTokenBody, simpleTok, TokAtU]
    exact ⟨[], [], rfl, rfl, ⟨⟨a1, a2, by simp [Cur.adv, a3]⟩, by simp⟩, a3.symm, a1.symm,
      by simp [a2, a3], by simp, by simp [a3]⟩
  | ignored n => rw [hit] at core; exact core.elim
  | error =>
    rw [hit] at core
    obtain ⟨e, he⟩ := core
    rw [he]; trivial
  | token k v n =>
    rw [hit] at core
    by_cases hk : k = .blockString
    · subst hk
      simp only [CoreOKU, if_true] at core
      obtain ⟨body, raw, nb, r, rfl, hbb, rfl, rfl⟩ := core
      have hsb : AllScalar body := AllScalar_tail (AllScalar_tail (AllScalar_tail hs))
      have hnl : NoNL [34, 34, 34] := by intro x hx; simp at hx; omega
      have hinv := InvU_noNL s1 c1 [34, 34, 34] body 3 ⟨a1, a2, a3⟩ hnl (by simp)
      have hm := step_block_u body c1 (foldPos s1 [34, 34, 34]) hsb hinv
      rw [hbb] at hm
      obtain ⟨c', x, e1, e2, e3, e4, e5⟩ := hm
      rw [e5]
      refine ⟨34 :: 34 :: 34 :: x, r.drop (quoteRun r), by simp [e1], rfl, ?_, a3.symm, a1.symm, ?_, ?_, ?_⟩
      · have : foldPos s1 (34 :: 34 :: 34 :: x) = foldPos (foldPos s1 [34, 34, 34]) x := by
          rw [← foldPos_append]; rfl
        rw [this]; exact e3
      · simp [a2, a3]
      · simp [Cur.adv]; omega
      · simp [Cur.adv, a3, e2]; omega
    · simp only [CoreOKU, hk, if_false] at core
      obtain ⟨⟨t, c', e1, e2, e3, e4, e5, e6, e7⟩, hpl⟩ := core
      obtain ⟨p1, p2, p3, p4, p5, p6, p7⟩ := hpl t _ c' e1
      rw [e1]
      have hlen : (cps1.take n).length = n := by rw [List.length_take]; omega
      have hne : cps1.take n ≠ [] := by
        intro h0
        rw [h0] at hlen
        simp at hlen; omega
      refine ⟨cps1.take n, cps1.drop n, by simp, rfl, ?_, by rw [e4, a3], by rw [p1, a1], ?_, by omega, ?_⟩
      · have := foldPos_noNL s1 (cps1.take n) p5
        refine ⟨⟨?_, ?_, ?_⟩, ?_⟩
        · rw [this.1, p3, a1]
        · rw [this.2.1, p4, a2]
        · rw [this.2.2.1, e6, hlen, a3]
        · intro hcr'; rw [this.2.2.2 hne] at hcr'; cases hcr'
      · rw [p2, e2, a2, a3]
      · rw [e5, hlen, a3]; omega

/-- one `readToken` call: ignored run `ign`, then the token chunk `x` -/
def TokPosU (s : PState) (cps : List Nat) (st : Step) : Prop :=
  match st with
  | .err _ => True
  | .tok t rest' c' => ∃ ign x r, cps = ign ++ x ++ r ∧ rest' = utf8Encode r ∧ AllScalar r ∧
      InvU (foldPos s (ign ++ x)) c' r ∧
      t.start = (foldPos s ign).off ∧ t.line = (foldPos s ign).line ∧
      t.col = colOf (foldPos s ign).off (foldPos s ign).ls + (if t.kind = .string then 1 else 0) ∧
      t.start ≤ t.stop ∧ t.stop ≤ (foldPos s ign).off + x.length

theorem readToken_pos_u (cps : List Nat) (c : Cur) (s : PState) (hs : AllScalar cps) (h : InvU s c cps) :
    TokPosU s cps (readToken (utf8Encode cps) c) := by
  obtain ⟨ign, cps1, e0, h1, hs1, hH1, _, _, h6⟩ := ws_u (utf8Encode cps) c cps hs rfl
  have hb := readTokenBody_at_u (foldPos s ign) (ws (utf8Encode cps) c).2 cps1 hs1 hH1 (h6 s h)
  unfold readToken
  rw [h1]
  generalize readTokenBody (utf8Encode cps1) (ws (utf8Encode cps) c).2 = st at hb ⊢
  cases st with
  | err e => trivial
  | tok t rest' c' =>
    obtain ⟨x, r, e1, e2, e3, e4, e5, e6, e7, e8⟩ := hb
    refine ⟨ign, x, r, by rw [e0, e1]; simp, e2, ?_, by rw [foldPos_append]; exact e3, e4, e5, e6, e7, e8⟩
    rw [e1] at hs1
    exact AllScalar_append_right hs1

/-- what C04 requires of a token of the (decoded) source `cps`: extent inside the source, line and
    column those of the position specification at the start offset (String tokens: column + 1, the
    recorded known finding) -/
def TokenTruthfulU (cps : List Nat) (t : Token) : Prop :=
  t.start ≤ t.stop ∧ t.stop ≤ cps.length ∧ t.line = lineOf cps t.start ∧
    t.col = colOfOffset cps t.start + (if t.kind = .string then 1 else 0)

theorem posAt_prefix_u (pre rest : List Nat) : posAt (pre ++ rest) pre.length = foldPos PState.init pre := by
  simp [posAt, foldPos]

theorem lexFuel_truthful_u (cps0 : List Nat) (fuel : Nat) (pre cps : List Nat) (c : Cur)
    (acc : List Token) (hs : AllScalar cps) (hsplit : cps0 = pre ++ cps)
    (hinv : InvU (foldPos PState.init pre) c cps) (hacc : ∀ t ∈ acc, TokenTruthfulU cps0 t) :
    ∀ t ∈ (lexFuel fuel (utf8Encode cps) c acc).tokens, TokenTruthfulU cps0 t := by
  induction fuel generalizing pre cps c acc with
  | zero => simpa [lexFuel, LexOut.tokens] using hacc
  | succ n ih =>
    have hp := readToken_pos_u cps c _ hs hinv
    unfold lexFuel
    split
    · simpa [LexOut.tokens] using hacc
    · rename_i t rest' c' heq
      rw [heq] at hp
      obtain ⟨ign, x, r, e1, er, hsr, e2, e3, e4, e5, e6, e7⟩ := hp
      have hoff : (foldPos (foldPos PState.init pre) ign).off = (pre ++ ign).length := by
        rw [← foldPos_append, foldPos_off_u]; simp [PState.init]
      have hpos : posAt cps0 (pre ++ ign).length = foldPos (foldPos PState.init pre) ign := by
        have : cps0 = (pre ++ ign) ++ (x ++ r) := by rw [hsplit, e1]; simp
        rw [this, posAt_prefix_u, foldPos_append]
      have ht : TokenTruthfulU cps0 t := by
        refine ⟨e6, ?_, ?_, ?_⟩
        · have : cps0.length = pre.length + ign.length + x.length + r.length := by
            rw [hsplit, e1]; simp; omega
          rw [hoff] at e7; simp at e7; omega
        · rw [e4, e3, hoff, lineOf, hpos]
        · rw [e5, e3, hoff, colOfOffset, lineStartOf, hpos, colOf]
      have hacc' : ∀ u ∈ t :: acc, TokenTruthfulU cps0 u := by
        intro u hu
        simp at hu
        rcases hu with rfl | hu
        · exact ht
        · exact hacc u hu
      split
      · intro u hu
        simp [LexOut.tokens] at hu
        exact hacc' u (by simp; rcases hu with hu | hu <;> simp [hu])
      · rw [er]
        exact ih (pre ++ ign ++ x) r c' (t :: acc) hsr (by rw [hsplit, e1]; simp)
          (by rw [List.append_assoc, foldPos_append]; exact e2) hacc'

/-- every token of a text of scalars carries the line and column of the position specification -/
theorem lexAll_truthful_u (cps : List Nat) (hs : AllScalar cps) :
    ∀ t ∈ (lexAll (utf8Encode cps)).tokens, TokenTruthfulU cps t := by
  have hinit : InvU (foldPos PState.init []) Cur.init cps := by
    refine ⟨⟨rfl, rfl, rfl⟩, ?_⟩
    simp [PState.init]
  exact lexFuel_truthful_u cps _ [] cps Cur.init [] hs rfl hinit (by simp)

end Gql.Lexer
