import GqlModel.Lexer.Model
/-
  Progress lemmas for the lexer model: every scanner returns a suffix of what it was given, and
  a non-EOF token consumes at least one byte.  Basis of `C01_lexAll_fuel` / `C01_lexAll_len`.
-/
namespace Gql.Lexer

theorem ws_len (rest : Bytes) (c : Cur) : (ws rest c).1.length ≤ rest.length := by
  fun_induction ws rest c <;> simp_all <;> omega

theorem commentSpan_len (l : Bytes) : (commentSpan l).2.2.length ≤ l.length := by
  fun_induction commentSpan l <;> simp_all [List.length_drop] <;> omega

theorem nameSpan_len (l : Bytes) : (nameSpan l).2.length ≤ l.length := by
  fun_induction nameSpan l <;> simp_all <;> omega

theorem digitSpan_len (l : Bytes) : (digitSpan l).2.length ≤ l.length := by
  fun_induction digitSpan l <;> simp_all <;> omega

theorem digitSpan_total (l : Bytes) : (digitSpan l).1.length + (digitSpan l).2.length = l.length := by
  fun_induction digitSpan l <;> simp_all <;> omega

end Gql.Lexer

namespace Gql.Lexer

/-- the rest carried by a token step is shorter than `n` (errors are vacuous) -/
def Step.restLt (s : Step) (n : Nat) : Prop :=
  match s with
  | .tok _ r _ => r.length < n
  | .err _ => True

def Step.restLe (s : Step) (n : Nat) : Prop :=
  match s with
  | .tok _ r _ => r.length ≤ n
  | .err _ => True

theorem numExp_lt (start : Cur) (rest0 : Bytes) (n : Nat) (r : Bytes) (f : Bool)
    (h : r.length + n = rest0.length) (hn : 1 ≤ n) : (numExp start rest0 n r f).restLt rest0.length := by
  unfold numExp
  cases r with
  | nil => simp only []; split <;> simp_all [Step.restLt, mkErr]; omega
  | cons b t =>
    simp only []
    split
    · -- exponent
      cases t with
      | nil => simp [digitSpan, Step.restLt, mkErr]
      | cons s t' =>
        simp only []
        have h1 := digitSpan_len t'
        have h2 := digitSpan_len (s :: t')
        split <;> split <;> (try split) <;> simp_all [Step.restLt, mkErr] <;> omega
    · split <;> simp_all [Step.restLt, mkErr]; omega

theorem numFrac_lt (start : Cur) (rest0 : Bytes) (n : Nat) (r : Bytes)
    (h : r.length + n = rest0.length) (hn : 1 ≤ n) : (numFrac start rest0 n r).restLt rest0.length := by
  unfold numFrac
  split
  · rename_i t
    have h1 := digitSpan_total t
    simp only []
    split
    · simp [Step.restLt, mkErr]
    · apply numExp_lt <;> simp_all <;> omega
  · exact numExp_lt _ _ _ _ _ h hn

theorem stripSign_len (r : Bytes) : (stripSign r).2.length + (stripSign r).1 = r.length := by
  unfold stripSign; split <;> simp

theorem readNumberCore_lt (start : Cur) (rest0 : Bytes) (n1 : Nat) (r1 : Bytes)
    (h : r1.length + n1 = rest0.length) : (readNumberCore start rest0 n1 r1).restLt rest0.length := by
  unfold readNumberCore
  split
  · split
    · simp [Step.restLt, mkErr]
    · apply numFrac_lt <;> simp_all <;> omega
  · have h1 := digitSpan_total r1
    split
    · simp [Step.restLt, mkErr]
    · rename_i hne
      apply numFrac_lt
      · omega
      · cases hd : (digitSpan r1).1 <;> simp_all <;> omega

theorem readNumber_lt (start : Cur) (rest0 : Bytes) : (readNumber start rest0).restLt rest0.length :=
  readNumberCore_lt _ _ _ _ (stripSign_len rest0)

theorem readStringLoop_le (q : Cur) (l : Bytes) (c : Cur) (acc : Bytes) (buf : Bool) :
    (readStringLoop q l c acc buf).restLe l.length := by
  fun_induction readStringLoop q l c acc buf <;>
    simp_all [Step.restLe, mkErr, List.length_drop] <;> (try split) <;> simp_all <;> omega

/-- since the repair of `readString` the `buf` flag (has an escape sequence been seen) does not
    influence the loop: the value keeps the source bytes of every unescaped character either way -/
theorem readStringLoop_buf_false (q : Cur) (l : Bytes) (c : Cur) (acc : Bytes) (b : Bool) :
    readStringLoop q l c acc b = readStringLoop q l c acc false := by
  fun_induction readStringLoop q l c acc b
  all_goals (conv => rhs; rw [readStringLoop.eq_def])
  all_goals simp_all
  split
  · exfalso; simp_all
  · rfl

theorem readStringLoop_buf_irrelevant (q : Cur) (l : Bytes) (c : Cur) (acc : Bytes) (b1 b2 : Bool) :
    readStringLoop q l c acc b1 = readStringLoop q l c acc b2 := by
  rw [readStringLoop_buf_false q l c acc b1, readStringLoop_buf_false q l c acc b2]

theorem quoteRun_le (l : Bytes) : quoteRun l ≤ l.length := by
  fun_induction quoteRun l <;> simp_all <;> omega

theorem readBlockLoop_le (q : Cur) (l : Bytes) (c : Cur) (acc : Bytes) :
    (readBlockLoop q l c acc).restLe l.length := by
  fun_induction readBlockLoop q l c acc <;>
    simp_all [Step.restLe, mkErr, List.length_drop] <;> (try split) <;> simp_all <;> omega

theorem Step.restLe_mono {s : Step} {a b : Nat} (h : s.restLe a) (hab : a ≤ b) : s.restLe b := by
  cases s <;> simp_all [Step.restLe]; omega

theorem Step.restLt_mono {s : Step} {a b : Nat} (h : s.restLt a) (hab : a ≤ b) : s.restLt b := by
  cases s <;> simp_all [Step.restLt]; omega

theorem Step.restLt_of_le {s : Step} {a b : Nat} (h : s.restLe a) (hab : a < b) : s.restLt b := by
  cases s <;> simp_all [Step.restLe, Step.restLt]; omega

/-- what a token step leaves: never longer, and strictly shorter unless the token is EOF -/
def Step.progress (s : Step) (n : Nat) : Prop :=
  match s with
  | .tok t r _ => r.length ≤ n ∧ (t.kind ≠ .eof → r.length < n)
  | .err _ => True

theorem Step.progress_of_lt {s : Step} {n : Nat} (h : s.restLt n) : s.progress n := by
  cases s <;> simp_all [Step.restLt, Step.progress]; omega

theorem unexpectedChar_progress (c : Cur) (b n : Nat) : (unexpectedChar c b).progress n := by
  unfold unexpectedChar; split <;> (try split) <;> simp [Step.progress, mkErr]

theorem readTokenBody_progress (rest1 : Bytes) (c1 : Cur) (n : Nat) (hws : rest1.length ≤ n) :
    (readTokenBody rest1 c1).progress n := by
  unfold readTokenBody
  cases rest1 with
  | nil => simp [Step.progress, simpleTok]
  | cons b tl =>
    simp only []
    split
    · simp_all [Step.progress, simpleTok]; omega
    · split
      · split
        · simp_all [Step.progress, simpleTok]; omega
        · exact unexpectedChar_progress _ _ _
      · split
        · have hc := commentSpan_len tl
          simp [Step.progress, simpleTok]; simp at hws; omega
        · split
          · have hc := nameSpan_len tl
            simp [Step.progress, simpleTok]; simp at hws; omega
          · split
            · exact Step.progress_of_lt (Step.restLt_mono (readNumber_lt c1 (b :: tl)) hws)
            · split
              · split
                · next tl' =>
                  exact Step.progress_of_lt (Step.restLt_of_le (a := tl'.length) (readBlockLoop_le _ tl' _ _) (by simp at hws; omega))
                · exact Step.progress_of_lt (Step.restLt_of_le (a := tl.length) (readStringLoop_le _ tl _ _ _) (by simp at hws; omega))
              · exact unexpectedChar_progress _ _ _

theorem readToken_progress (rest : Bytes) (c : Cur) : (readToken rest c).progress rest.length :=
  readTokenBody_progress _ _ _ (ws_len rest c)

end Gql.Lexer

namespace Gql.Lexer
@[simp] theorem punct_quote : punct 34 = none := by decide
@[simp] theorem punct_backslash : punct 92 = none := by decide
@[simp] theorem punct_newline : punct 10 = none := by decide
end Gql.Lexer
