import GqlProofs.Lexer.SpecSpans
/-
  `readStringLoop` (model) against `Spec.stringBody` (specification) on ASCII input: same extent,
  value = the decoded characters (`\uXXXX` gives `encodeRune r` in the model and the code point `r`
  in the specification), and both fail on the same inputs (unterminated, bad escape, control
  character or line terminator inside the string).
-/
namespace Gql.Lexer
open Gql.Lexer.Spec

theorem hexValue_eq (b : Nat) : hexValue b = hexC b := by
  unfold hexValue hexC
  by_cases h1 : 48 ≤ b ∧ b ≤ 57
  · simp [h1]
  · by_cases h2 : 97 ≤ b ∧ b ≤ 102
    · have h3 : ¬ (65 ≤ b ∧ b ≤ 70) := by omega
      simp [h1, h2, h3]
    · simp [h1, h2]

theorem escapeOut_eq (e : Nat) : escapeOut e = escapedChar e := by
  unfold escapeOut escapedChar
  by_cases h1 : e = 34
  · simp [h1]
  · by_cases h2 : e = 92
    · simp [h2]
    · by_cases h3 : e = 47
      · simp [h3]
      · have : ¬ (e = 34 ∨ e = 47 ∨ e = 92) := by omega
        simp [h1, h2, h3, this]

/-- prepend one decoded character that took `k` source characters -/
def consVal (v : Cp) (k : Nat) (o : Option (List Cp × Nat × List Cp)) : Option (List Cp × Nat × List Cp) :=
  match o with
  | some (val, n, r) => some (v :: val, n + k, r)
  | none => none

theorem stringBody_nil : stringBody [] = none := by simp [stringBody]
theorem stringBody_quote (r : List Cp) : stringBody (34 :: r) = some ([], 1, r) := by simp [stringBody]

theorem stringBody_u4 (a b c d : Nat) (rest : List Cp) :
    stringBody (92 :: 117 :: a :: b :: c :: d :: rest) =
      match unhex4 a b c d with
      | some v => consVal v 6 (stringBody rest)
      | none => none := by
  rw [stringBody]
  simp only [unhex4, hexValue_eq]
  cases hexC a <;> cases hexC b <;> cases hexC c <;> cases hexC d <;>
    simp [bind, Option.bind, consVal] <;> cases stringBody rest <;> rfl

theorem escapedChar_u : escapedChar 117 = none := by decide

theorem stringBody_esc (e : Nat) (rest : List Cp) (he : e ≠ 117) :
    stringBody (92 :: e :: rest) =
      match escapeOut e with
      | some v => consVal v 2 (stringBody rest)
      | none => none := by
  rw [stringBody.eq_def]
  split
  · rename_i h; simp at h
  · rename_i h; simp at h
  · rename_i h; simp at h; exact absurd h.1 he
  · rename_i h; simp at h
    obtain ⟨rfl, rfl⟩ := h
    rw [escapeOut_eq]
    cases escapedChar e <;> simp [bind, Option.bind, consVal] <;> cases stringBody rest <;> rfl
  · rename_i h1 h2 h
    simp at h
    exact (h2 e rest h.1.symm h.2.symm).elim

theorem stringBody_u_short (tl : List Cp) (h : tl.length ≤ 4) : stringBody (92 :: 117 :: tl) = none := by
  match tl, h with
  | [], _ => simp [stringBody, escapedChar_u]
  | [_], _ => simp [stringBody, escapedChar_u]
  | [_, _], _ => simp [stringBody, escapedChar_u]
  | [_, _, _], _ => simp [stringBody, escapedChar_u]
  | [a, b, c, d], _ =>
    rw [stringBody_u4, stringBody_nil]
    cases unhex4 a b c d <;> rfl
  | _ :: _ :: _ :: _ :: _ :: _, h => simp at h

theorem stringBody_bs_end : stringBody [92] = none := by simp [stringBody, isLineTerminatorStart, isSourceChar]

theorem stringBody_plain (c : Nat) (rest : List Cp) (h34 : c ≠ 34) (h92 : c ≠ 92) :
    stringBody (c :: rest) =
      if isLineTerminatorStart c ∨ !isSourceChar c then none else consVal c 1 (stringBody rest) := by
  rw [stringBody.eq_def]
  split
  · rename_i h; simp at h
  · rename_i h; simp at h; exact absurd h.1 h34
  · rename_i h; simp at h; exact absurd h.1 h92
  · rename_i h; simp at h; exact absurd h.1 h92
  · rename_i h
    simp at h
    obtain ⟨rfl, rfl⟩ := h
    simp only [h92, false_or]
    split
    · rfl
    · cases stringBody rest <;> rfl

/-- a model step agrees with the optional (value, length, rest) of the specification -/
def StrMatches (q c : Cur) (acc : Bytes) (st : Step) (o : Option (List Cp × Nat × List Cp)) : Prop :=
  match o with
  | none => ∃ e, st = .err e
  | some (val, n, r) =>
    st = .tok { kind := .string, value := acc.reverse ++ utf8Encode val, start := q.endR,
                stop := c.endR + n, line := c.line, col := colOf (q.endR + 1) c.ls } r (c.adv n n)

theorem StrMatches_cons (q c : Cur) (acc : Bytes) (st : Step) (v : Cp) (k : Nat)
    (o : Option (List Cp × Nat × List Cp))
    (h : StrMatches q (c.adv k k) ((encodeRune v).reverse ++ acc) st o) :
    StrMatches q c acc st (consVal v k o) := by
  cases o with
  | none => exact h
  | some p =>
    obtain ⟨val, n, r⟩ := p
    simp only [StrMatches, consVal] at h ⊢
    rw [h]
    simp [Cur.adv, utf8Encode_cons, Nat.add_assoc, Nat.add_comm k n]

theorem readStringLoop_spec (q : Cur) (l : Bytes) (c : Cur) (acc : Bytes) (buf : Bool) (hA : Ascii l) :
    StrMatches q c acc (readStringLoop q l c acc buf) (stringBody l) := by
  fun_induction readStringLoop q l c acc buf
  case case1 => simp [stringBody_nil, StrMatches, mkErr]
  case case2 b tl c acc buf h =>
    rw [stringBody_plain b tl (by omega) (by omega)]
    have : isLineTerminatorStart b = true := (isLineTerminatorStart_iff b).2 h
    simp [this, StrMatches, mkErr]
  case case3 b tl c acc buf h1 h2 =>
    rw [stringBody_plain b tl (by omega) (by omega)]
    have : isSourceChar b = false := by
      cases hs : isSourceChar b with
      | false => rfl
      | true => have := (isSourceChar_iff b).1 hs; omega
    simp [this, StrMatches, mkErr]
  case case4 tl c acc buf h1 h2 =>
    simp [stringBody_quote, StrMatches, utf8Encode]
  case case5 c acc buf h1 h2 h3 =>
    simp [stringBody_bs_end, StrMatches, mkErr]
  case case6 c acc buf h1 h2 h3 h4 x tl r hr _ _ _ ih =>
    have hA' : Ascii (x :: tl) := fun y hy => hA y (by simp at hy ⊢; rcases hy with rfl | hy <;> simp_all)
    rw [stringBody_u4, hr]
    exact StrMatches_cons q c acc _ r 6 _ (ih hA')
  case case7 c acc buf h1 h2 h3 h4 x tl hr _ _ _ =>
    rw [stringBody_u4, hr]
    simp [StrMatches, mkErr]
  case case8 c acc buf tl' hn _ _ _ =>
    rw [stringBody_u_short tl' (by
      match tl', hn with
      | [], _ => simp
      | [_], _ => simp
      | [_, _], _ => simp
      | [_, _, _], _ => simp
      | [_, _, _, _], _ => simp
      | a :: b :: c :: d :: x :: t, hn => exact absurd rfl (hn a b c d x t))]
    simp [StrMatches, mkErr]
  case case9 c acc buf e tl he r hr _ _ _ ih =>
    rw [stringBody_esc e tl he, hr]
    have := StrMatches_cons q c acc _ r 2 _ (by
      have hr8 : r < 128 := by
        unfold escapeOut at hr
        have := Ascii_head (Ascii_tail hA)
        repeat (split at hr; (simp at hr; omega))
        simp at hr
      rw [encodeRune_ascii hr8]
      exact ih (Ascii_tail (Ascii_tail hA)))
    exact this
  case case10 c acc buf e tl he hr _ _ _ =>
    rw [stringBody_esc e tl he, hr]
    simp [StrMatches, mkErr]
  case case11 b tl c acc buf hb1 hb2 hb3 hb4 r w hd taken ih =>
    have hb := Ascii_head hA
    have hrw : r = b ∧ w = 1 := by
      split at hd
      · rw [decodeRune_ascii b tl hb] at hd; simp at hd; omega
      · simp at hd; omega
    obtain ⟨rfl, rfl⟩ := hrw
    have ht : taken = [r] := by
      simp [taken]
    rw [stringBody_plain r tl hb3 hb4]
    have h1 : isLineTerminatorStart r = false := by
      cases hs : isLineTerminatorStart r with
      | false => rfl
      | true => have := (isLineTerminatorStart_iff r).1 hs; omega
    have h2 : isSourceChar r = true := (isSourceChar_iff r).2 (by omega)
    simp only [h1, h2]
    rw [ht]
    rw [ht] at ih
    simp only [Nat.sub_self, List.drop_zero] at ih
    have := StrMatches_cons q c acc _ r 1 (stringBody tl) (by
      rw [encodeRune_ascii hb]; exact ih (Ascii_tail hA))
    simpa using this

end Gql.Lexer
