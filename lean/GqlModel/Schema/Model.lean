import GqlModel.Schema.Types
/-
  Model of validator/schema.go (`ValidateSchemaDocument` and every `validate*` helper) and of the
  pieces of package `ast` it uses (`AddPossibleType`, `AddImplements`, `ForName`, `Type.Name`,
  `Type.String`, `Type.IsCompatible`, `Definition.IsInputType`).

  Input: the MERGED `SchemaDoc` (what `parser.ParseSchemas` builds: every source parsed and
  `Merge`d in order; the prelude is the first source).  Output: `LoadResult`.

  Conventions
  * Go pointers into the schema are names.  `schema.Types` is an association list in insertion
    order; `defs` (the Go slice of all definitions incl. the ones created by extensions) is exactly
    the value list of that association list, because both are extended at the same moments.
  * `PossibleTypes` / `Implements` hold `Option Name` while loading: `none` is the nil pointer that
    `schema.Types[t]` yields for an undeclared name.  `isCovariant` dereferences the entries
    (`pt.Name`): a nil entry would be the `panic` outcome.  Since the repair of the loader no nil
    entry is stored (`pushPtr`), and `C07_load_no_panic` proves the outcome unreachable.
  * Map iterations: schema.go:198 and :213 collect the keys and `sort.Strings` them — reproduced
    with `sortNames` (bytewise order).  There is no other `range` over a map in schema.go.
  * Errors carry the rendered message bytes and (line, column, source index) of the position given
    to `gqlerror.ErrorPosf`.
  * Domain: documents as the parser builds them — every node has a position, every named type has a
    non-empty name (`Type.Name()` on a type with neither name nor element would be a nil
    dereference; `GType.named []` is treated like any other name here), names are GraphQL names
    (`strconv.Quote` is modelled for printable ASCII).
-/
namespace Gql.Load
open Gql

structure LoadError where
  msg : Bytes
  line : Nat
  col : Int
  src : Nat
  deriving DecidableEq, Repr, Inhabited

/-- result of a `validate*` function: `*gqlerror.Error` (nil = `pass`) or a Go panic -/
inductive Chk
  | pass
  | fail (e : LoadError)
  | panic
  deriving DecidableEq, Repr, Inhabited

inductive LoadResult
  | ok (s : Schema)
  | err (e : LoadError)
  | panic
  deriving Inhabited

def LoadResult.isOk : LoadResult → Bool
  | .ok _ => true
  | _ => false

def LoadResult.isPanic : LoadResult → Bool
  | .panic => true
  | _ => false

/-- `if err := a; err != nil { return err }; b` -/
@[inline] def Chk.andThen (a : Chk) (b : Unit → Chk) : Chk :=
  match a with
  | .pass => b ()
  | r => r

notation:60 a:61 " ⊳ " b:60 => Chk.andThen a (fun _ => b)

/-- `for _, x := range xs { if err := f(x); err != nil { return err } }; return nil` -/
def each {α} (xs : List α) (f : α → Chk) : Chk :=
  match xs with
  | [] => .pass
  | x :: rest => f x ⊳ each rest f

/-- `gqlerror.ErrorPosf(pos, …)` -/
def errorPosf (p : Pos) (msg : Bytes) : LoadError := { msg := msg, line := p.line, col := p.col, src := p.src }

def failAt (p : Pos) (msg : Bytes) : Chk := .fail (errorPosf p msg)

/- ---------------- messages (hoisted so that proofs never unfold string literals) ---------------- -/
namespace Msg

/-- `strconv.Quote` for printable ASCII (the only input the parser can supply: GraphQL names) -/
def quote (s : Bytes) : Bytes :=
  34 :: s.flatMap (fun c => if c = 34 then [92, 34] else if c = 92 then [92, 92] else [c]) ++ [34]

def join (sep : Bytes) : List Bytes → Bytes
  | [] => []
  | [x] => x
  | x :: rest => x ++ sep ++ join sep rest

/-- `kindList(kinds...)` -/
def kindList (ks : List DefKind) : Bytes := join (str ", ") (ks.map DefKind.render)

def redeclareType (n : Name) : Bytes := str "Cannot redeclare type " ++ n ++ str "."
def extendKind (n : Name) (base ext : DefKind) : Bytes :=
  str "Cannot extend type " ++ n ++ str " because the base type is a " ++ base.render ++ str ", not " ++ ext.render ++ str "."
def redeclareDirective (n : Name) : Bytes := str "Cannot redeclare directive " ++ n ++ str "."
def multipleSchema : Bytes := str "Cannot have multiple schema entry points, consider schema extensions instead."
def rootMissing (op : Bytes) (ty : Name) : Bytes :=
  str "Schema root " ++ op ++ str " refers to a type " ++ ty ++ str " that does not exist."
def rootTwice (op : Bytes) : Bytes := str "Schema root " ++ op ++ str " is defined more than once."
def rootNotObject (op : Bytes) (n : Name) (k : DefKind) : Bytes :=
  str "Schema root " ++ op ++ str " must be an object type, " ++ n ++ str " is a " ++ k.render ++ str "."
def undefinedType (n : Bytes) : Bytes := str "Undefined type " ++ n ++ str "."
def memberKind (k : DefKind) (m : Name) : Bytes :=
  k.render ++ str " type " ++ quote m ++ str " must be " ++ kindList [.object] ++ str "."
def noFields (k : DefKind) (n : Name) : Bytes := k.render ++ str " " ++ n ++ str ": must define one or more fields."
def fieldKind (k : Bytes) (n : Name) (ks : List DefKind) : Bytes :=
  k ++ str " " ++ n ++ str ": field must be one of " ++ kindList ks ++ str "."
def noEnumValues (k : DefKind) (n : Name) : Bytes :=
  k.render ++ str " " ++ n ++ str ": must define one or more unique enum values."
def nonEnumValue (k : DefKind) (n v : Name) : Bytes :=
  k.render ++ str " " ++ n ++ str ": non-enum value " ++ v ++ str "."
def noInputFields (k : DefKind) (n : Name) : Bytes :=
  k.render ++ str " " ++ n ++ str ": must define one or more input fields."
def fieldTwice (d f : Name) : Bytes := str "Field " ++ d ++ str "." ++ f ++ str " can only be defined once."
def notInputType (ty : Bytes) (arg : Name) (k : DefKind) : Bytes :=
  str "cannot use " ++ ty ++ str " as argument " ++ arg ++ str " because " ++ k.render ++ str " is not a valid input type"
def selfRef (d : Name) : Bytes := str "Directive " ++ d ++ str " cannot refer to itself."
def undefinedDirective (d : Name) : Bytes := str "Undefined directive " ++ d ++ str "."
def notApplicable (d : Name) (loc : Bytes) : Bytes := str "Directive " ++ d ++ str " is not applicable on " ++ loc ++ str "."
def undefinedArg (a d : Name) : Bytes := str "Undefined argument " ++ a ++ str " for directive " ++ d ++ str "."
def argNull (a d : Name) : Bytes := str "Argument " ++ a ++ str " for directive " ++ d ++ str " cannot be null."
def nonInterface (i : Name) (k : DefKind) : Bytes := quote i ++ str " is a non interface type " ++ k.render ++ str "."
def implPrefix (d i : Name) : Bytes := str "For " ++ d ++ str " to implement " ++ i
def missingField (d i f : Name) : Bytes := implPrefix d i ++ str " it must have a field called " ++ f ++ str "."
def fieldType (d i f : Name) (ty : Bytes) : Bytes :=
  implPrefix d i ++ str " the field " ++ f ++ str " must have type " ++ ty ++ str "."
def missingArg (d i f a : Name) : Bytes :=
  implPrefix d i ++ str " the field " ++ f ++ str " must have the same arguments but it is missing " ++ a ++ str "."
def argType (d i f a : Name) : Bytes :=
  implPrefix d i ++ str " the field " ++ f ++ str " must have the same arguments but " ++ a ++ str " has the wrong type."
def extraArg (d i f a : Name) : Bytes :=
  implPrefix d i ++ str " any additional arguments on " ++ f ++
    str " must be optional or have a default value but " ++ a ++ str " is required."
def circular (d i : Name) : Bytes :=
  str "Type " ++ d ++ str " cannot implement " ++ i ++ str " because it would create a circular reference."
def mustImplement (d t i : Name) : Bytes :=
  str "Type " ++ d ++ str " must implement " ++ t ++ str " because it is implemented by " ++ i ++ str "."
def reservedName (n : Name) : Bytes :=
  str "Name \"" ++ n ++ str "\" must not begin with \"__\", which is reserved by GraphQL introspection."

end Msg

/- ---------------- association lists (Go maps) ---------------- -/

/-- `m[k] = v` : replace in place, or append a new key -/
def insertKV {α} (k : Name) (v : α) : List (Name × α) → List (Name × α)
  | [] => [(k, v)]
  | (k', v') :: rest => if k' == k then (k', v) :: rest else (k', v') :: insertKV k v rest

/-- `*m[k] = f(*m[k])` for a present key (mutation through the stored pointer) -/
def modifyKV {α} (k : Name) (f : α → α) : List (Name × α) → List (Name × α)
  | [] => []
  | (k', v') :: rest => if k' == k then (k', f v') :: rest else (k', v') :: modifyKV k f rest

/-- `m[k] = append(m[k], v)` -/
def pushKV {β} (k : Name) (v : β) : List (Name × List β) → List (Name × List β)
  | [] => [(k, [v])]
  | (k', vs) :: rest => if k' == k then (k', vs ++ [v]) :: rest else (k', vs) :: pushKV k v rest

/-- Go string order (bytewise lexicographic) -/
def bytesLe : Bytes → Bytes → Bool
  | [], _ => true
  | _ :: _, [] => false
  | a :: as, b :: bs => if a < b then true else if b < a then false else bytesLe as bs

def insertName (x : Name) : List Name → List Name
  | [] => [x]
  | y :: ys => if bytesLe x y then x :: y :: ys else y :: insertName x ys

/-- `sort.Strings` (the result of sorting is unique, so the algorithm does not matter; a structural
    insertion sort keeps the model reducible by the kernel) -/
def sortNames : List Name → List Name
  | [] => []
  | x :: xs => insertName x (sortNames xs)

/- ---------------- package ast helpers ---------------- -/

def fieldForName (fs : List FieldDef) (n : Name) : Option FieldDef := fs.find? (fun f => f.name == n)
def argDefForName (as : List ArgDef) (n : Name) : Option ArgDef := as.find? (fun a => a.name == n)
def argForName (as : List Argument) (n : Name) : Option Argument := as.find? (fun a => a.name == n)

/-- the `NamedType` field of `ast.Type` (empty for list types) -/
def namedOf : GType → Name
  | .named n _ _ => n
  | .list _ _ _ => []

/-- `Type.IsCompatible` -/
def isCompatible : GType → GType → Bool
  | .named a ann _, .named b bnn _ => if a != b then false else if bnn then ann else true
  | .named a ann _, .list _ bnn _ => if a != [] then false else if bnn then ann else true
  | .list _ _ _, .named _ _ _ => false     -- names differ, or `t.Elem != nil && other.Elem == nil`
  | .list ae ann _, .list be bnn _ => if !isCompatible ae be then false else if bnn then ann else true

/-- `Definition.IsInputType` -/
def isInputKind : DefKind → Bool
  | .scalar | .enum | .inputObject => true
  | _ => false

/-- `isValidKind(k, Scalar, Object, Interface, Union, Enum)` -/
def isOutputKind : DefKind → Bool
  | .inputObject => false
  | _ => true

def outputKinds : List DefKind := [.scalar, .object, .interface, .union, .enum]
def inputKinds : List DefKind := [.scalar, .enum, .inputObject]

/-- `strings.HasPrefix(name, "__")` -/
def hasDunder : Name → Bool
  | 95 :: 95 :: _ => true
  | _ => false

/- ---------------- loader state ---------------- -/

/-- the part of `ast.Schema` the validators read -/
structure LState where
  types : List (Name × Definition)
  directives : List (Name × DirectiveDef)
  possible : List (Name × List (Option Name))
  implements : List (Name × List (Option Name))
  deriving Inhabited

def LState.type? (s : LState) (n : Name) : Option Definition := s.types.lookup n

/-- `validateName` -/
def validateName (p : Pos) (n : Name) : Chk :=
  if hasDunder n then failAt p (Msg.reservedName n) else .pass

/-- `validateTypeRef` -/
def validateTypeRef (s : LState) (t : GType) : Chk :=
  match s.type? t.name with
  | none => failAt t.pos (Msg.undefinedType t.name)
  | some _ => .pass

def locSchema : Bytes := str "SCHEMA"
def locFieldDefinition : Bytes := str "FIELD_DEFINITION"
def locInputFieldDefinition : Bytes := str "INPUT_FIELD_DEFINITION"
def locArgumentDefinition : Bytes := str "ARGUMENT_DEFINITION"
def locEnumValue : Bytes := str "ENUM_VALUE"

/-- body of the loop of `validateDirectives` for one applied directive -/
def validateDirectiveUse (s : LState) (location : Bytes) (current : Option Name) (dir : Directive) : Chk :=
  validateName dir.pos dir.name ⊳
  (match current with
   | some c => if dir.name == c then failAt dir.pos (Msg.selfRef c) else .pass
   | none => .pass) ⊳
  match s.directives.lookup dir.name with
  | none => failAt dir.pos (Msg.undefinedDirective dir.name)
  | some dd =>
    (if dd.locations.contains location then .pass else failAt dir.pos (Msg.notApplicable dir.name location)) ⊳
    each dir.args (fun arg =>
      match argDefForName dd.args arg.name with
      | none => failAt arg.pos (Msg.undefinedArg arg.name dir.name)
      | some _ => .pass) ⊳
    each dd.args (fun sa =>
      if sa.type.nonNull && sa.default.isNone then
        match argForName dir.args sa.name with
        | none => failAt dir.pos (Msg.argNull sa.name dir.name)
        | some a => if a.value.kind = ValueKind.null then failAt dir.pos (Msg.argNull sa.name dir.name) else .pass
      else .pass)

/-- `validateDirectives` -/
def validateDirectives (s : LState) (dirs : List Directive) (location : Bytes) (current : Option Name) : Chk :=
  each dirs (validateDirectiveUse s location current)

/-- `validateArgs` -/
def validateArgs (s : LState) (args : List ArgDef) (current : Option Name) : Chk :=
  each args fun arg =>
    validateName arg.pos arg.name ⊳
    validateTypeRef s arg.type ⊳
    (match s.type? arg.type.name with
     | none => .panic                        -- `def.IsInputType()` on nil; excluded by validateTypeRef
     | some d =>
       if isInputKind d.kind then .pass
       else failAt arg.pos (Msg.notInputType arg.type.render arg.name d.kind)) ⊳
    validateDirectives s arg.dirs locArgumentDefinition current

/-- the loop `for _, pt := range schema.PossibleTypes[name] { if pt.Name == actual { return true } }; return false`;
    `none` is a nil entry: `pt.Name` panics -/
def possibleHas : List (Option Name) → Name → Option Bool
  | [], _ => some false
  | none :: _, _ => none
  | some n :: rest, a => if n == a then some true else possibleHas rest a

/-- `isCovariant`; `none` = nil-pointer panic -/
def isCovariant (s : LState) : GType → GType → Option Bool
  | .named rn rnn _, actual =>
    if rnn && !actual.nonNull then some false
    else if rn == namedOf actual then some true
    else possibleHas ((s.possible.lookup rn).getD []) (namedOf actual)
  | .list _ _ _, .named _ _ _ => some false     -- NonNull mismatch, or `required.Elem != nil && actual.Elem == nil`
  | .list re rnn _, .list ae ann _ =>
    if rnn && !ann then some false else isCovariant s re ae

/-- `validateTypeImplementsAncestors` -/
def validateTypeImplementsAncestors (s : LState) (d : Definition) (intfName : Name) : Chk :=
  match s.type? intfName with
  | none => failAt d.pos (Msg.undefinedType (Msg.quote intfName))
  | some intf =>
    each intf.interfaces fun transitive =>
      if d.interfaces.contains transitive then .pass
      else if transitive == d.name then failAt d.pos (Msg.circular d.name intfName)
      else failAt d.pos (Msg.mustImplement d.name transitive intfName)

/-- per required field of the interface, inside `validateImplements` -/
def validateImplementsField (s : LState) (d intf : Definition) (required : FieldDef) : Chk :=
  match fieldForName d.fields required.name with
  | none => failAt d.pos (Msg.missingField d.name intf.name required.name)
  | some found =>
    (match isCovariant s required.type found.type with
     | none => .panic
     | some true => .pass
     | some false => failAt found.pos (Msg.fieldType d.name intf.name required.name required.type.render)) ⊳
    each required.args (fun ra =>
      match argDefForName found.args ra.name with
      | none => failAt found.pos (Msg.missingArg d.name intf.name required.name ra.name)
      | some fa =>
        if ra.type.render == fa.type.render then .pass        -- identical type (repair of R7a)
        else failAt fa.pos (Msg.argType d.name intf.name required.name ra.name)) ⊳
    each found.args (fun fa =>
      if (argDefForName required.args fa.name).isNone && fa.type.nonNull && fa.default.isNone then
        failAt fa.pos (Msg.extraArg d.name intf.name found.name fa.name)
      else .pass)

/-- `validateImplements` -/
def validateImplements (s : LState) (d : Definition) (intfName : Name) : Chk :=
  match s.type? intfName with
  | none => failAt d.pos (Msg.undefinedType (Msg.quote intfName))
  | some intf =>
    if intf.kind != .interface then failAt d.pos (Msg.nonInterface intfName intf.kind)
    else
      each intf.fields (validateImplementsField s d intf) ⊳
      validateTypeImplementsAncestors s d intfName

/-- the nested loop reporting the first `(i, j)`, `i < j`, with equal field names -/
def checkUniqueFields (dn : Name) : List FieldDef → Chk
  | [] => .pass
  | f1 :: rest =>
    each rest (fun f2 => if f1.name == f2.name then failAt f2.pos (Msg.fieldTwice dn f2.name) else .pass) ⊳
    checkUniqueFields dn rest

def nonEnumNames : List Name := [str "true", str "false", str "null"]

/-- the `switch def.Kind` of `validateDefinition` -/
def validateKindSpecific (s : LState) (d : Definition) : Chk :=
  match d.kind with
  | .object | .interface =>
    if d.fields.isEmpty then failAt d.pos (Msg.noFields d.kind d.name)
    else each d.fields fun f =>
      match s.type? f.type.name with
      | some t => if isOutputKind t.kind then .pass
                  else failAt f.pos (Msg.fieldKind d.kind.render d.name outputKinds)
      | none => .pass
  | .enum =>
    if d.enumValues.isEmpty then failAt d.pos (Msg.noEnumValues d.kind d.name)
    else each d.enumValues fun v =>
      (if nonEnumNames.contains v.name then failAt d.pos (Msg.nonEnumValue d.kind d.name v.name) else .pass) ⊳
      validateName v.pos v.name ⊳
      validateDirectives s v.dirs locEnumValue none
  | .inputObject =>
    if d.fields.isEmpty then failAt d.pos (Msg.noInputFields d.kind d.name)
    else each d.fields fun f =>
      match s.type? f.type.name with
      | some t => if isInputKind t.kind then .pass
                  else failAt f.pos (Msg.fieldKind t.kind.render f.name inputKinds)
      | none => .pass
  | .scalar | .union => .pass

/-- `validateDefinition` -/
def validateDefinition (s : LState) (d : Definition) : Chk :=
  each d.fields (fun f =>
    validateName f.pos f.name ⊳
    validateTypeRef s f.type ⊳
    validateArgs s f.args none ⊳
    validateDirectives s f.dirs
      (if d.kind = .inputObject then locInputFieldDefinition else locFieldDefinition) none) ⊳
  each d.types (fun m =>
    match s.type? m with
    | none => failAt d.pos (Msg.undefinedType (Msg.quote m))
    | some t => if t.kind = .object then .pass else failAt d.pos (Msg.memberKind d.kind m)) ⊳
  each d.interfaces (validateImplements s d) ⊳
  validateKindSpecific s d ⊳
  checkUniqueFields d.name d.fields ⊳
  (if !d.builtIn then validateName d.pos d.name else .pass) ⊳
  validateDirectives s d.dirs d.kind.render none

/-- `validateDirective` (a directive *definition*) -/
def validateDirectiveDef (s : LState) (dd : DirectiveDef) : Chk :=
  validateName dd.pos dd.name ⊳ validateArgs s dd.args (some dd.name)

/-- `validateTypeDefinitions`: keys sorted with `sort.Strings` -/
def validateTypeDefinitions (s : LState) : Chk :=
  each (sortNames (s.types.map Prod.fst)) fun k =>
    match s.type? k with
    | some d => validateDefinition s d
    | none => .panic                 -- unreachable: k is a key

/-- `validateDirectiveDefinitions` -/
def validateDirectiveDefinitions (s : LState) : Chk :=
  each (sortNames (s.directives.map Prod.fst)) fun k =>
    match s.directives.lookup k with
    | some dd => validateDirectiveDef s dd
    | none => .panic

/- ---------------- ValidateSchemaDocument ---------------- -/

/-- first loop: `schema.Types[def.Name] = def` unless already declared -/
def declareTypes : List Definition → List (Name × Definition) → Except LoadError (List (Name × Definition))
  | [], acc => .ok acc
  | d :: rest, acc =>
    match acc.lookup d.name with
    | some _ => .error (errorPosf d.pos (Msg.redeclareType d.name))
    | none => declareTypes rest (acc ++ [(d.name, d)])

/-- the definition an extension without base creates -/
def extStub (ext : Definition) : Definition :=
  { kind := ext.kind, desc := [], name := ext.name, dirs := [], interfaces := [], fields := [], types := [],
    enumValues := [], pos := ext.pos, builtIn := false }

def applyExt (ext : Definition) (d : Definition) : Definition :=
  { d with dirs := d.dirs ++ ext.dirs, interfaces := d.interfaces ++ ext.interfaces, fields := d.fields ++ ext.fields,
           types := d.types ++ ext.types, enumValues := d.enumValues ++ ext.enumValues }

/-- `if def == nil { schema.Types[ext.Name] = &Definition{Kind, Name, Position}; … }` -/
def ensureBase (ext : Definition) (types : List (Name × Definition)) : List (Name × Definition) :=
  match types.lookup ext.name with
  | some _ => types
  | none => types ++ [(ext.name, extStub ext)]

/-- second loop: fold the extensions into their base definitions -/
def foldExtensions : List Definition → List (Name × Definition) → Except LoadError (List (Name × Definition))
  | [], types => .ok types
  | ext :: rest, types =>
    match (ensureBase ext types).lookup ext.name with
    | none => .ok (ensureBase ext types)              -- unreachable
    | some d =>
      if d.kind != ext.kind then .error (errorPosf ext.pos (Msg.extendKind ext.name d.kind ext.kind))
      else foldExtensions rest (modifyKV ext.name (applyExt ext) (ensureBase ext types))

abbrev Rel := List (Name × List (Option Name))

/-- the pointer `schema.Types[n]` seen through its `.Name` -/
def ptrOf (types : List (Name × Definition)) (n : Name) : Option Name := (types.lookup n).map (·.name)

/-- `if x := schema.Types[n]; x != nil { Add…(key, x) }`: an undeclared name is never entered
    (repair of the loader panic: no nil entries in the relations) -/
def pushPtr (k : Name) (v : Option Name) (r : Rel) : Rel :=
  match v with
  | some n => pushKV k (some n) r
  | none => r

/-- third loop body for one definition: (PossibleTypes, Implements) -/
def relateDef (types : List (Name × Definition)) (d : Definition) (pi : Rel × Rel) : Rel × Rel :=
  match d.kind with
  | .union =>
    d.types.foldl (fun (p, i) t => (pushPtr d.name (ptrOf types t) p, pushKV t (some d.name) i)) pi
  | .object =>
    let (p, i) := d.interfaces.foldl
      (fun (p, i) intf => (pushKV intf (some d.name) p, pushPtr d.name (ptrOf types intf) i)) pi
    (pushKV d.name (some d.name) p, i)
  | .interface =>
    d.interfaces.foldl (fun (p, i) intf => (pushKV intf (some d.name) p, pushPtr d.name (ptrOf types intf) i)) pi
  | .scalar | .enum | .inputObject => pi     -- `case Object:` only: an input object contributes nothing

def buildRelations (types : List (Name × Definition)) : Rel × Rel :=
  (types.map Prod.snd).foldl (fun pi d => relateDef types d pi) ([], [])

def builtinDirectiveNames : List Name :=
  [str "include", str "skip", str "deprecated", str "specifiedBy", str "defer", str "oneOf"]

/-- fourth loop: directive definitions (a redeclared builtin silently REPLACES the earlier one) -/
def declareDirectives : List DirectiveDef → List (Name × DirectiveDef) → Except LoadError (List (Name × DirectiveDef))
  | [], acc => .ok acc
  | dd :: rest, acc =>
    if (acc.lookup dd.name).isSome && !builtinDirectiveNames.contains dd.name then
      .error (errorPosf dd.pos (Msg.redeclareDirective dd.name))
    else declareDirectives rest (insertKV dd.name dd acc)

structure Roots where
  query : Option Name
  mutation : Option Name
  subscription : Option Name
  deriving Inhabited, DecidableEq, Repr

def opQuery : Bytes := str "query"
def opMutation : Bytes := str "mutation"
def opSubscription : Bytes := str "subscription"

/-- the `for _, entrypoint := range …OperationTypes` loops -/
def setRoots (types : List (Name × Definition)) : List OpTypeDef → Roots → Except LoadError Roots
  | [], r => .ok r
  | e :: rest, r =>
    match types.lookup e.type with
    | none => .error (errorPosf e.pos (Msg.rootMissing e.op e.type))
    | some d =>
      -- `setRootOperationType`: each operation can be given a root type only once (repair of R17a)
      if e.op == opQuery then
        if r.query.isSome then .error (errorPosf e.pos (Msg.rootTwice e.op))
        else setRoots types rest { r with query := some d.name }
      else if e.op == opMutation then
        if r.mutation.isSome then .error (errorPosf e.pos (Msg.rootTwice e.op))
        else setRoots types rest { r with mutation := some d.name }
      else if e.op == opSubscription then
        if r.subscription.isSome then .error (errorPosf e.pos (Msg.rootTwice e.op))
        else setRoots types rest { r with subscription := some d.name }
      else setRoots types rest r

/-- result of the schema-definition / schema-extension part -/
inductive RootsResult
  | ok (r : Roots) (schemaDirs : List Directive)
  | err (e : LoadError)
  | panic

/-- one `schema`/`extend schema` block: entry points, then its directives -/
def applySchemaDef (s : LState) (sdef : SchemaDef) (r : Roots) (acc : List Directive) : RootsResult :=
  match setRoots s.types sdef.opTypes r with
  | .error e => .err e
  | .ok r' =>
    match validateDirectives s sdef.dirs locSchema none with
    | .fail e => .err e
    | .panic => .panic
    | .pass => .ok r' (acc ++ sdef.dirs)

def applySchemaDefs (s : LState) : List SchemaDef → Roots → List Directive → RootsResult
  | [], r, acc => .ok r acc
  | sdef :: rest, r, acc =>
    match applySchemaDef s sdef r acc with
    | .ok r' acc' => applySchemaDefs s rest r' acc'
    | other => other

def nameQuery : Name := str "Query"
def nameMutation : Name := str "Mutation"
def nameSubscription : Name := str "Subscription"

/-- `if schema.X == nil && schema.Types["X"] != nil { schema.X = schema.Types["X"] }` -/
def inferRoot (types : List (Name × Definition)) (cur : Option Name) (n : Name) : Option Name :=
  match cur with
  | some c => some c
  | none => ptrOf types n

def inferRoots (types : List (Name × Definition)) (r : Roots) : Roots :=
  { query := inferRoot types r.query nameQuery, mutation := inferRoot types r.mutation nameMutation,
    subscription := inferRoot types r.subscription nameSubscription }

/-- the roots after the default-name inference (performed only without a `schema` definition) -/
def finalRoots (sd : SchemaDoc) (s : LState) (r1 : Roots) : Roots :=
  if sd.schema.isEmpty then inferRoots s.types r1 else r1

/-- `if root.def != nil && root.def.Kind != Object { return ErrorPosf(root.def.Position, …) }`;
    the root pointer is the name of a declared type (`RootsOK`), so the `none` lookup is unreachable -/
def checkRootKind (s : LState) (op : Bytes) (root : Option Name) : Chk :=
  match root with
  | none => .pass
  | some n =>
    match s.type? n with
    | none => .pass
    | some d => if d.kind != .object then failAt d.pos (Msg.rootNotObject op d.name d.kind) else .pass

/-- a root operation type is an object type: Query, Mutation, Subscription, in that order -/
def checkRootKinds (s : LState) (r : Roots) : Chk :=
  checkRootKind s opQuery r.query ⊳ checkRootKind s opMutation r.mutation ⊳
  checkRootKind s opSubscription r.subscription

/-- `__schema: __Schema!` and `__type(name: String!): __Type` (no positions) -/
def introspectionFields : List FieldDef :=
  [ { desc := [], name := str "__schema", args := [], default := none,
      type := .named (str "__Schema") true Pos.zero, dirs := [], pos := Pos.zero },
    { desc := [], name := str "__type",
      args := [{ desc := [], name := str "name", default := none, type := .named (str "String") true Pos.zero,
                 dirs := [], pos := Pos.zero }],
      default := none, type := .named (str "__Type") false Pos.zero, dirs := [], pos := Pos.zero } ]

def addIntrospection (d : Definition) : Definition := { d with fields := d.fields ++ introspectionFields }

/-- a nil entry left in a relation prints as the name `<nil>` (as the Go observer does) -/
def nilName : Name := str "<nil>"
def relOut (r : Rel) : List (Name × List Name) := r.map fun (k, vs) => (k, vs.map (·.getD nilName))

/-- the returned `ast.Schema`: inferred roots (only without a `schema` definition), introspection
    fields appended to the query root, relations with pointers rendered as names -/
def mkSchema (sd : SchemaDoc) (s : LState) (r1 : Roots) (dirs1 : List Directive) : Schema :=
  let r := if sd.schema.isEmpty then inferRoots s.types r1 else r1
  { query := r.query, mutation := r.mutation, subscription := r.subscription,
    schemaDirectives := dirs1,
    types := (match r.query with
      | some q => modifyKV q addIntrospection s.types
      | none => s.types),
    directives := s.directives,
    possibleTypes := relOut s.possible, implements := relOut s.implements,
    description := match sd.schema with | [d] => d.desc | _ => [] }

def noRoots : Roots := { query := none, mutation := none, subscription := none }

/-- everything after the relations are built, on the state whose maps are final -/
def finish (sd : SchemaDoc) (s : LState) : LoadResult :=
  match sd.schema with
  | _ :: second :: _ => .err (errorPosf second.pos Msg.multipleSchema)
  | schemaDefs =>
    match applySchemaDefs s schemaDefs noRoots [] with
    | .err e => .err e
    | .panic => .panic
    | .ok r0 dirs0 =>
      match applySchemaDefs s sd.schemaExt r0 dirs0 with
      | .err e => .err e
      | .panic => .panic
      | .ok r1 dirs1 =>
        match validateTypeDefinitions s with
        | .fail e => .err e
        | .panic => .panic
        | .pass =>
          match validateDirectiveDefinitions s with
          | .fail e => .err e
          | .panic => .panic
          | .pass =>
            -- the LAST check: kinds of the (declared or inferred) root operation types
            match checkRootKinds s (finalRoots sd s r1) with
            | .fail e => .err e
            | .panic => .panic
            | .pass => .ok (mkSchema sd s r1 dirs1)

/-- the state in which every validator runs: all four maps are final before the first check -/
def buildState (sd : SchemaDoc) : Except LoadError LState :=
  match declareTypes sd.definitions [] with
  | .error e => .error e
  | .ok types0 =>
    match foldExtensions sd.extensions types0 with
    | .error e => .error e
    | .ok types =>
      let (p, i) := buildRelations types
      match declareDirectives sd.directives [] with
      | .error e => .error e
      | .ok dirs => .ok { types := types, directives := dirs, possible := p, implements := i }

/-- `ValidateSchemaDocument` -/
def load (sd : SchemaDoc) : LoadResult :=
  match buildState sd with
  | .error e => .err e
  | .ok s => finish sd s

end Gql.Load
