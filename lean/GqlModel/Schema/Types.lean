import GqlModel.Syntax.Ast
import GqlModel.Syntax.Wire
/-
  `ast.Schema`: the loaded, name-indexed type system.  Go maps are association lists with
  unique keys (in insertion order; every canonical dump sorts by key, and every place where the
  Go code *iterates* a map takes an explicit order oracle in the model).  Pointers into the
  schema are names: the loader theorem `C07_loaded_closed` is what makes that faithful.
-/
namespace Gql

structure Schema where
  query : Option Name
  mutation : Option Name
  subscription : Option Name
  schemaDirectives : List Directive
  types : List (Name × Definition)
  directives : List (Name × DirectiveDef)
  possibleTypes : List (Name × List Name)
  implements : List (Name × List Name)
  description : Bytes
  deriving Inhabited

def Schema.empty : Schema :=
  { query := none, mutation := none, subscription := none, schemaDirectives := [], types := [],
    directives := [], possibleTypes := [], implements := [], description := [] }

def Schema.type? (s : Schema) (n : Name) : Option Definition := s.types.lookup n
def Schema.directive? (s : Schema) (n : Name) : Option DirectiveDef := s.directives.lookup n
/-- `GetPossibleTypes` (names; `[]` when absent, like a nil slice) -/
def Schema.possible (s : Schema) (n : Name) : List Name := (s.possibleTypes.lookup n).getD []
/-- `GetImplements` -/
def Schema.implementsOf (s : Schema) (n : Name) : List Name := (s.implements.lookup n).getD []

namespace Wire

def optName : Option Name → Sexp
  | none => l []
  | some nm => l [.bytes nm]

def nameLists (xs : List (Name × List Name)) : Sexp :=
  l (xs.map fun (k, v) => l [.bytes k, l (v.map .bytes)])

/-- wire form of a loaded schema (Go side: impl.SexpLoadedSchema; maps sorted by key there) -/
def schema (s : Schema) : Sexp :=
  l [t "SCHEMA", optName s.query, optName s.mutation, optName s.subscription, dirs s.schemaDirectives,
     l (s.types.map fun (_, d) => definition d), l (s.directives.map fun (_, d) => directiveDef d),
     nameLists s.possibleTypes, nameLists s.implements, .bytes s.description]

def dOptName : Sexp → Option (Option Name)
  | .list [] => some none
  | .list [.bytes nm] => some (some nm)
  | _ => none

def dNameLists : Sexp → Option (List (Name × List Name))
  | .list xs => xs.mapM fun
    | .list [.bytes k, v] => do pure (k, ← dList dBytes v)
    | _ => none
  | _ => none

def dSchema : Sexp → Option Schema
  | .list [.tag "SCHEMA", q, m, sub, sd, ts, ds, pt, im, desc] => do
    let tys ← dList dDefinition ts
    let dds ← dList dDirectiveDef ds
    pure { query := ← dOptName q, mutation := ← dOptName m, subscription := ← dOptName sub,
           schemaDirectives := ← dList dDirective sd, types := tys.map fun d => (d.name, d),
           directives := dds.map fun d => (d.name, d), possibleTypes := ← dNameLists pt,
           implements := ← dNameLists im, description := ← dBytes desc }
  | _ => none

end Wire
end Gql
