import GqlModel.Schema.Model
import GqlModel.Schema.Spec
/-
  The shape of a MERGED document: what `parser.ParseSchemas(prelude, inputs...)` guarantees about
  provenance and order, independently of the type system the document describes.  It is the
  hypothesis of the completeness theorem `C07_load_complete`; the driver evaluates it (op `merged`) on
  every document the harness builds with the real parser.

  Convention (as in Spec.lean): source index 0 is the prelude.
-/
namespace Gql.Spec
open Gql

/-- source-0 (prelude) directive definitions come before every user-written one (`Merge` appends and the
    prelude is the first source) -/
def preludeFirstB : List DirectiveDef → Bool
  | [] => true
  | d :: rest => (!userWritten d.pos || rest.all (fun x => userWritten x.pos)) && preludeFirstB rest

/-- name and verdict of every condition -/
def mergedClauses (sd : SchemaDoc) : List (String × Bool) :=
  [ -- no extension is marked built in (the prelude has no `extend`)
    ("M.extNotBuiltin", sd.extensions.all fun e => !e.builtIn),
    -- the directive definitions of source 0 are among the six the loader treats as built in
    ("M.preludeDirsBuiltin", sd.directives.all fun d => userWritten d.pos || Load.builtinDirectiveNames.contains d.name),
    ("M.preludeFirst", preludeFirstB sd.directives) ]

def mergedB (sd : SchemaDoc) : Bool := (mergedClauses sd).all (·.2)

end Gql.Spec
