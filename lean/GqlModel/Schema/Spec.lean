import GqlModel.Schema.Types
/-
  Specification side of C07 / C17, written from the property statement and the GraphQL
  specification (October 2021, §3 "Type System"), NOT from validator/schema.go.

  * `TypeSystem.ofDoc sd`  — "merge sd": one definition per distinct type name with its extensions
    folded in (fields / interfaces / members / values / directives appended in document order).
  * `WellFormed sd`        — conjunction of named clauses.  **S**-clauses formalise the items of the
    property statement.  **E**-clauses are further rejections the loader makes which the statement
    does not list; they follow the library and a disagreement on an E-clause alone is a
    correspondence matter, never a property violation.
  * `Closed s`, `RelationsExact s`, `HasBuiltins s`, `IntrospectionFields s` — predicates on a
    LOADED schema; the harness evaluates them on the real loader's output.

  Convention: source index 0 is the prelude ("built in"); every other source is user-written.
  Everything is decidable; clauses are Boolean functions so that the driver can print a verdict per
  clause.
-/
namespace Gql.Spec
open Gql

/- ------------------------------------------------------------------ basic vocabulary -/

def isInputKind : DefKind → Bool
  | .scalar | .enum | .inputObject => true
  | _ => false

def isOutputKind : DefKind → Bool
  | .scalar | .object | .interface | .union | .enum => true
  | .inputObject => false

def anyKind : DefKind → Bool := fun _ => true

/-- what a field of a definition of kind `k` may hold: output types on objects and interfaces, input
    types on input objects (other kinds have no fields in any parsed document; only resolution is asked) -/
def fieldPosition : DefKind → DefKind → Bool
  | .object | .interface => isOutputKind
  | .inputObject => isInputKind
  | _ => anyKind

def reserved : Name → Bool
  | 95 :: 95 :: _ => true
  | _ => false

/-- same type expression (positions are not part of a type) -/
def sameType : GType → GType → Bool
  | .named a an _, .named b bn _ => a == b && an == bn
  | .list a an _, .list b bn _ => sameType a b && an == bn
  | _, _ => false

def userWritten (p : Pos) : Bool := p.src != 0

def pairwiseDistinct : List Name → Bool
  | [] => true
  | x :: rest => !rest.contains x && pairwiseDistinct rest

/-- directive location of a type definition of the given kind (spec §3.13 TypeSystemDirectiveLocation) -/
def kindLocation : DefKind → Bytes
  | .scalar => str "SCALAR" | .object => str "OBJECT" | .interface => str "INTERFACE"
  | .union => str "UNION" | .enum => str "ENUM" | .inputObject => str "INPUT_OBJECT"

/- ------------------------------------------------------------------ merge sd -/

def foldExt (d e : Definition) : Definition :=
  { d with dirs := d.dirs ++ e.dirs, interfaces := d.interfaces ++ e.interfaces, fields := d.fields ++ e.fields,
           types := d.types ++ e.types, enumValues := d.enumValues ++ e.enumValues }

def dedup : List Name → List Name → List Name
  | [], _ => []
  | x :: rest, seen => if seen.contains x then dedup rest seen else x :: dedup rest (x :: seen)

/-- the merged definition of name `n`: its (first) definition, or — for a type that only has
    extensions — an empty definition of the first extension's kind, with all extensions appended -/
def mergedType (sd : SchemaDoc) (n : Name) : Option Definition :=
  let exts := sd.extensions.filter (·.name == n)
  match sd.definitions.find? (·.name == n) with
  | some d => some (exts.foldl foldExt d)
  | none =>
    match exts with
    | [] => none
    | e :: _ =>
      some (exts.foldl foldExt
        { kind := e.kind, desc := [], name := e.name, dirs := [], interfaces := [], fields := [], types := [],
          enumValues := [], pos := e.pos, builtIn := e.builtIn })

structure TypeSystem where
  types : List Definition
  directives : List DirectiveDef
  schemaDefs : List SchemaDef           -- `schema` definitions followed by `extend schema` blocks

def TypeSystem.ofDoc (sd : SchemaDoc) : TypeSystem :=
  { types := (dedup ((sd.definitions ++ sd.extensions).map (·.name)) []).filterMap (mergedType sd),
    directives := sd.directives, schemaDefs := sd.schema ++ sd.schemaExt }

def TypeSystem.type? (ts : TypeSystem) (n : Name) : Option Definition := ts.types.find? (·.name == n)
/-- the directive definition in force for a name: a user declaration takes the place of the prelude's -/
def TypeSystem.directive? (ts : TypeSystem) (n : Name) : Option DirectiveDef :=
  match ts.directives.find? (fun d => d.name == n && userWritten d.pos) with
  | some d => some d
  | none => ts.directives.find? (·.name == n)

def TypeSystem.typeIs (ts : TypeSystem) (n : Name) (p : DefKind → Bool) : Bool :=
  match ts.type? n with
  | some d => p d.kind
  | none => false

/-- every applied directive with its location and, inside a directive definition, that directive's name -/
def TypeSystem.directiveUses (ts : TypeSystem) : List (Directive × Bytes × Option Name) :=
  ts.types.flatMap (fun d =>
    d.dirs.map (·, kindLocation d.kind, none) ++
    d.fields.flatMap (fun f =>
      f.dirs.map (·, (if d.kind = .inputObject then str "INPUT_FIELD_DEFINITION" else str "FIELD_DEFINITION"), none) ++
      f.args.flatMap (fun a => a.dirs.map (·, str "ARGUMENT_DEFINITION", none))) ++
    (if d.kind = .enum then d.enumValues else []).flatMap (fun v => v.dirs.map (·, str "ENUM_VALUE", none))) ++
  ts.schemaDefs.flatMap (fun s => s.dirs.map (·, str "SCHEMA", none)) ++
  ts.directives.flatMap (fun dd => dd.args.flatMap (fun a => a.dirs.map (·, str "ARGUMENT_DEFINITION", some dd.name)))

/-- every argument definition (of fields and of directive definitions) -/
def TypeSystem.argDefs (ts : TypeSystem) : List ArgDef :=
  ts.types.flatMap (fun d => d.fields.flatMap (·.args)) ++ ts.directives.flatMap (·.args)

/- ------------------------------------------------------------------ S-clauses (from the statement) -/

/-- S: unique type names -/
def uniqueTypeNames (sd : SchemaDoc) : Bool := pairwiseDistinct (sd.definitions.map (·.name))

/-- S: unique directive names; the user may declare a prelude directive once more -/
def uniqueDirectiveNames (sd : SchemaDoc) : Bool :=
  pairwiseDistinct ((sd.directives.filter (userWritten ·.pos)).map (·.name)) &&
  pairwiseDistinct ((sd.directives.filter (!userWritten ·.pos)).map (·.name))

/-- S: unique field names per (merged) type -/
def uniqueFieldNames (ts : TypeSystem) : Bool := ts.types.all fun d => pairwiseDistinct (d.fields.map (·.name))

/-- S: every field type exists; output positions hold output types, input fields hold input types -/
def fieldTypesOK (ts : TypeSystem) : Bool :=
  ts.types.all fun d => d.fields.all fun f => ts.typeIs f.type.name (fieldPosition d.kind)

/-- S: every argument (of a field or of a directive definition) has an existing input type -/
def argTypesOK (ts : TypeSystem) : Bool := ts.argDefs.all fun a => ts.typeIs a.type.name isInputKind

/-- S: implemented names are interfaces -/
def interfacesOK (ts : TypeSystem) : Bool :=
  ts.types.all fun d => d.interfaces.all fun i => ts.typeIs i (· == .interface)

/-- S: union members are object types -/
def unionMembersOK (ts : TypeSystem) : Bool :=
  ts.types.all fun d => d.types.all fun m => ts.typeIs m (· == .object)

/-- S: every declared root operation type exists -/
def rootsExist (ts : TypeSystem) : Bool :=
  ts.schemaDefs.all fun s => s.opTypes.all fun o => (ts.type? o.type).isSome

/-- S: every applied directive is declared … -/
def directivesDeclared (ts : TypeSystem) : Bool :=
  ts.directiveUses.all fun (d, _, _) => (ts.directive? d.name).isSome

/-- S: … for that location … -/
def directiveLocationsOK (ts : TypeSystem) : Bool :=
  ts.directiveUses.all fun (d, loc, _) =>
    match ts.directive? d.name with
    | some dd => dd.locations.contains loc
    | none => true

/-- S: … and supplies every required argument (non-null type without default: present and not `null`) -/
def requiredArgsSupplied (ts : TypeSystem) : Bool :=
  ts.directiveUses.all fun (d, _, _) =>
    match ts.directive? d.name with
    | some dd => dd.args.all fun a =>
        !(a.type.nonNull && a.default.isNone) ||
        (match d.args.find? (·.name == a.name) with
         | some x => x.value.kind != .null
         | none => false)
    | none => true

/-- spec IsValidImplementationFieldType(fieldType := act, implementedFieldType := req) -/
def covariant (ts : TypeSystem) : GType → GType → Bool
  | .named r rn _, .named a an _ =>
    (!rn || an) &&
    (r == a ||
      (match ts.type? a, ts.type? r with
       | some ad, some rd =>
         (ad.kind == .object || ad.kind == .interface) &&
         ((rd.kind == .union && rd.types.contains a) || (rd.kind == .interface && ad.interfaces.contains r))
       | _, _ => false))
  | .list r rn _, .list a an _ => (!rn || an) && covariant ts r a
  | _, _ => false

/-- S: implementers provide every interface field covariantly, every interface argument at the
    identical type, no additional required argument -/
def implementsFieldsOK (ts : TypeSystem) : Bool :=
  ts.types.all fun d => d.interfaces.all fun i =>
    match ts.type? i with
    | none => true
    | some intf =>
      intf.kind != .interface ||
      intf.fields.all fun rf =>
        match d.fields.find? (·.name == rf.name) with
        | none => false
        | some f =>
          covariant ts rf.type f.type &&
          (rf.args.all fun ra =>
            match f.args.find? (·.name == ra.name) with
            | none => false
            | some fa => sameType ra.type fa.type) &&
          (f.args.all fun fa =>
            (rf.args.find? (·.name == fa.name)).isSome || !(fa.type.nonNull && fa.default.isNone))

/-- S: implementers also implement the interfaces their interfaces implement -/
def implementsAncestorsOK (ts : TypeSystem) : Bool :=
  ts.types.all fun d => d.interfaces.all fun i =>
    match ts.type? i with
    | none => true
    | some intf => intf.kind != .interface || intf.interfaces.all fun j => d.interfaces.contains j

/-- S: no empty object / interface / input object / enum -/
def nonEmpty (ts : TypeSystem) : Bool :=
  ts.types.all fun d =>
    match d.kind with
    | .object | .interface | .inputObject => !d.fields.isEmpty
    | .enum => !d.enumValues.isEmpty
    | .scalar | .union => true

/-- S: no user-defined type name starts with `__` -/
def typeNamesNotReserved (ts : TypeSystem) : Bool := ts.types.all fun d => d.builtIn || !reserved d.name
/-- S: … nor a field / input field name -/
def fieldNamesNotReserved (ts : TypeSystem) : Bool := ts.types.all fun d => d.fields.all fun f => !reserved f.name
/-- S: … nor an argument name -/
def argNamesNotReserved (ts : TypeSystem) : Bool := ts.argDefs.all fun a => !reserved a.name
/-- S: … nor a directive name -/
def directiveNamesNotReserved (ts : TypeSystem) : Bool := ts.directives.all fun d => !reserved d.name
/-- S: … nor an enum value name (enum values exist on enum types only, cf. `directiveUses`) -/
def enumValueNamesNotReserved (ts : TypeSystem) : Bool :=
  ts.types.all fun d => d.kind != .enum || d.enumValues.all fun v => !reserved v.name

/-- the root operation type of `op` is an object type — for EVERY `op: T` entry of the schema definition
    and its extensions, and, without a schema definition, for the type with the default name `dflt` when
    no entry names the operation (an undeclared type is `rootsExist`'s business, not this clause's) -/
def rootIsObject (sd : SchemaDoc) (ts : TypeSystem) (op : Bytes) (dflt : Name) : Bool :=
  let isObj := fun (n : Name) => match ts.type? n with | some d => d.kind == .object | none => true
  let entries := (ts.schemaDefs.flatMap (·.opTypes)).filter (·.op == op)
  entries.all (fun o => isObj o.type) && (!(entries.isEmpty && sd.schema.isEmpty) || isObj dflt)

/-- S: root operation types are object types (GraphQL §3.3.1), declared and inferred ones alike -/
def rootTypesAreObjectsDoc (sd : SchemaDoc) : Bool :=
  let ts := TypeSystem.ofDoc sd
  rootIsObject sd ts (str "query") (str "Query") && rootIsObject sd ts (str "mutation") (str "Mutation") &&
  rootIsObject sd ts (str "subscription") (str "Subscription")

/- ------------------------------------------------------------------ E-clauses (loader-specific) -/

/-- E: at most one `schema` definition -/
def singleSchemaDef (sd : SchemaDoc) : Bool := sd.schema.length ≤ 1

/-- E: every root operation type is defined at most once over the schema definition and its
    extensions (the specification forbids a second definition; the loader rejects it) -/
def rootOperationTypesOnce (sd : SchemaDoc) : Bool :=
  let ops := ((sd.schema ++ sd.schemaExt).flatMap (·.opTypes)).map (·.op)
  [str "query", str "mutation", str "subscription"].all fun o => (ops.filter (· == o)).length ≤ 1

/-- E: an extension has the kind of its base (of the first extension when there is no base) -/
def extensionKindsMatch (sd : SchemaDoc) : Bool :=
  sd.extensions.all fun e =>
    match sd.definitions.find? (·.name == e.name) with
    | some d => d.kind == e.kind
    | none =>
      match sd.extensions.find? (·.name == e.name) with
      | some e0 => e0.kind == e.kind
      | none => true

/-- E: enum values are not `true`, `false`, `null` -/
def enumValuesNotLiterals (ts : TypeSystem) : Bool :=
  ts.types.all fun d => d.kind != .enum || d.enumValues.all fun v => ![str "true", str "false", str "null"].contains v.name

/-- E: an applied directive only uses declared arguments -/
def directiveArgsDeclared (ts : TypeSystem) : Bool :=
  ts.directiveUses.all fun (d, _, _) =>
    match ts.directive? d.name with
    | some dd => d.args.all fun x => (dd.args.find? (·.name == x.name)).isSome
    | none => true

/-- E: a directive is not applied inside its own definition -/
def noSelfReference (ts : TypeSystem) : Bool :=
  ts.directiveUses.all fun (d, _, self) => self != some d.name

/-- E: an applied directive's own name does not start with `__` (follows from S for declared ones) -/
def appliedNamesNotReserved (ts : TypeSystem) : Bool := ts.directiveUses.all fun (d, _, _) => !reserved d.name

/- ------------------------------------------------------------------ WellFormed -/

/-- name, provenance (`S`/`E`) and verdict of every clause -/
def clauses (sd : SchemaDoc) : List (String × Bool) :=
  let ts := TypeSystem.ofDoc sd
  [ ("S.uniqueTypeNames", uniqueTypeNames sd), ("S.uniqueDirectiveNames", uniqueDirectiveNames sd),
    ("S.uniqueFieldNames", uniqueFieldNames ts), ("S.fieldTypesOK", fieldTypesOK ts), ("S.argTypesOK", argTypesOK ts),
    ("S.interfacesOK", interfacesOK ts), ("S.unionMembersOK", unionMembersOK ts), ("S.rootsExist", rootsExist ts),
    ("S.directivesDeclared", directivesDeclared ts), ("S.directiveLocationsOK", directiveLocationsOK ts),
    ("S.requiredArgsSupplied", requiredArgsSupplied ts), ("S.implementsFieldsOK", implementsFieldsOK ts),
    ("S.implementsAncestorsOK", implementsAncestorsOK ts), ("S.nonEmpty", nonEmpty ts),
    ("S.typeNamesNotReserved", typeNamesNotReserved ts), ("S.fieldNamesNotReserved", fieldNamesNotReserved ts),
    ("S.argNamesNotReserved", argNamesNotReserved ts), ("S.directiveNamesNotReserved", directiveNamesNotReserved ts),
    ("S.enumValueNamesNotReserved", enumValueNamesNotReserved ts),
    ("E.singleSchemaDef", singleSchemaDef sd), ("E.extensionKindsMatch", extensionKindsMatch sd),
    ("E.enumValuesNotLiterals", enumValuesNotLiterals ts), ("E.directiveArgsDeclared", directiveArgsDeclared ts),
    ("E.noSelfReference", noSelfReference ts), ("E.appliedNamesNotReserved", appliedNamesNotReserved ts),
    ("E.rootOperationTypesOnce", rootOperationTypesOnce sd), ("S.rootTypesAreObjects", rootTypesAreObjectsDoc sd) ]

def wfB (sd : SchemaDoc) : Bool := (clauses sd).all (·.2)

/-- the merged type system satisfies every clause -/
structure WellFormed (sd : SchemaDoc) : Prop where
  uniqueTypeNames : uniqueTypeNames sd = true
  uniqueDirectiveNames : uniqueDirectiveNames sd = true
  uniqueFieldNames : uniqueFieldNames (.ofDoc sd) = true
  fieldTypesOK : fieldTypesOK (.ofDoc sd) = true
  argTypesOK : argTypesOK (.ofDoc sd) = true
  interfacesOK : interfacesOK (.ofDoc sd) = true
  unionMembersOK : unionMembersOK (.ofDoc sd) = true
  rootsExist : rootsExist (.ofDoc sd) = true
  directivesDeclared : directivesDeclared (.ofDoc sd) = true
  directiveLocationsOK : directiveLocationsOK (.ofDoc sd) = true
  requiredArgsSupplied : requiredArgsSupplied (.ofDoc sd) = true
  implementsFieldsOK : implementsFieldsOK (.ofDoc sd) = true
  implementsAncestorsOK : implementsAncestorsOK (.ofDoc sd) = true
  nonEmpty : nonEmpty (.ofDoc sd) = true
  typeNamesNotReserved : typeNamesNotReserved (.ofDoc sd) = true
  fieldNamesNotReserved : fieldNamesNotReserved (.ofDoc sd) = true
  argNamesNotReserved : argNamesNotReserved (.ofDoc sd) = true
  directiveNamesNotReserved : directiveNamesNotReserved (.ofDoc sd) = true
  enumValueNamesNotReserved : enumValueNamesNotReserved (.ofDoc sd) = true
  singleSchemaDef : singleSchemaDef sd = true
  extensionKindsMatch : extensionKindsMatch sd = true
  enumValuesNotLiterals : enumValuesNotLiterals (.ofDoc sd) = true
  directiveArgsDeclared : directiveArgsDeclared (.ofDoc sd) = true
  noSelfReference : noSelfReference (.ofDoc sd) = true
  appliedNamesNotReserved : appliedNamesNotReserved (.ofDoc sd) = true
  rootOperationTypesOnce : rootOperationTypesOnce sd = true
  rootTypesAreObjects : rootTypesAreObjectsDoc sd = true

theorem wfB_iff (sd : SchemaDoc) : wfB sd = true ↔ WellFormed sd := by
  constructor
  · intro h
    simp only [wfB, clauses, List.all_cons, List.all_nil, Bool.and_true, Bool.and_eq_true] at h
    obtain ⟨h1, h2, h3, h4, h5, h6, h7, h8, h9, h10, h11, h12, h13, h14, h15, h16, h17, h18, h19, h20, h21, h22, h23, h24, h25, h26, h27⟩ := h
    exact ⟨h1, h2, h3, h4, h5, h6, h7, h8, h9, h10, h11, h12, h13, h14, h15, h16, h17, h18, h19, h20, h21, h22, h23, h24, h25, h26, h27⟩
  · intro ⟨h1, h2, h3, h4, h5, h6, h7, h8, h9, h10, h11, h12, h13, h14, h15, h16, h17, h18, h19, h20, h21, h22, h23, h24, h25, h26, h27⟩
    simp only [wfB, clauses, List.all_cons, List.all_nil, Bool.and_true, Bool.and_eq_true]
    exact ⟨h1, h2, h3, h4, h5, h6, h7, h8, h9, h10, h11, h12, h13, h14, h15, h16, h17, h18, h19, h20, h21, h22, h23, h24, h25, h26, h27⟩

instance (sd : SchemaDoc) : Decidable (WellFormed sd) := decidable_of_iff _ (wfB_iff sd)

/- ------------------------------------------------------------------ predicates on a loaded schema -/

/-- `n` resolves in `s.types` to a definition whose kind satisfies `p` -/
def typeIs (s : Schema) (n : Name) (p : DefKind → Bool) : Bool :=
  match s.types.lookup n with
  | some d => p d.kind
  | none => false

def directiveIs (s : Schema) (d : Directive) (loc : Bytes) : Bool :=
  match s.directives.lookup d.name with
  | some dd => dd.locations.contains loc
  | none => false

/-- field types resolve; output types on objects and interfaces, input types on input objects -/
def ClosedFieldTypes (s : Schema) : Prop :=
  ∀ p ∈ s.types, ∀ f ∈ p.2.fields, typeIs s f.type.name (fieldPosition p.2.kind) = true

/-- argument types of fields resolve to input types -/
def ClosedArgTypes (s : Schema) : Prop :=
  ∀ p ∈ s.types, ∀ f ∈ p.2.fields, ∀ a ∈ f.args, typeIs s a.type.name isInputKind = true

/-- argument types of directive definitions resolve to input types -/
def ClosedDirectiveArgTypes (s : Schema) : Prop :=
  ∀ p ∈ s.directives, ∀ a ∈ p.2.args, typeIs s a.type.name isInputKind = true

/-- interface lists resolve to interfaces -/
def ClosedInterfaces (s : Schema) : Prop :=
  ∀ p ∈ s.types, ∀ i ∈ p.2.interfaces, typeIs s i (· == .interface) = true

/-- union member lists resolve to object types -/
def ClosedUnionMembers (s : Schema) : Prop :=
  ∀ p ∈ s.types, ∀ m ∈ p.2.types, typeIs s m (· == .object) = true

/-- keys and entries of `PossibleTypes` resolve (in particular no nil entry) -/
def ClosedPossibleTypes (s : Schema) : Prop :=
  ∀ p ∈ s.possibleTypes, typeIs s p.1 anyKind = true ∧ ∀ n ∈ p.2, typeIs s n anyKind = true

/-- keys and entries of `Implements` resolve -/
def ClosedImplements (s : Schema) : Prop :=
  ∀ p ∈ s.implements, typeIs s p.1 anyKind = true ∧ ∀ n ∈ p.2, typeIs s n anyKind = true

/-- the root operation types resolve -/
def ClosedRoots (s : Schema) : Prop :=
  (∀ n, s.query = some n → typeIs s n anyKind = true) ∧
  (∀ n, s.mutation = some n → typeIs s n anyKind = true) ∧
  (∀ n, s.subscription = some n → typeIs s n anyKind = true)

/-- every directive applied anywhere in the schema resolves to a definition that lists the location -/
def ClosedDirectiveUses (s : Schema) : Prop :=
  (∀ p ∈ s.types,
    (∀ d ∈ p.2.dirs, directiveIs s d (kindLocation p.2.kind) = true) ∧
    (∀ f ∈ p.2.fields,
      (∀ d ∈ f.dirs, directiveIs s d
        (if p.2.kind = .inputObject then str "INPUT_FIELD_DEFINITION" else str "FIELD_DEFINITION") = true) ∧
      (∀ a ∈ f.args, ∀ d ∈ a.dirs, directiveIs s d (str "ARGUMENT_DEFINITION") = true)) ∧
    (p.2.kind = .enum → ∀ v ∈ p.2.enumValues, ∀ d ∈ v.dirs, directiveIs s d (str "ENUM_VALUE") = true)) ∧
  (∀ d ∈ s.schemaDirectives, directiveIs s d (str "SCHEMA") = true) ∧
  (∀ p ∈ s.directives, ∀ a ∈ p.2.args, ∀ d ∈ a.dirs, directiveIs s d (str "ARGUMENT_DEFINITION") = true)

/-- map keys are the names of the stored definitions, and occur once -/
def KeysConsistent (s : Schema) : Prop :=
  (∀ p ∈ s.types, p.2.name = p.1) ∧ (∀ p ∈ s.directives, p.2.name = p.1) ∧
  pairwiseDistinct (s.types.map (·.1)) = true ∧ pairwiseDistinct (s.directives.map (·.1)) = true

structure Closed (s : Schema) : Prop where
  fieldTypes : ClosedFieldTypes s
  argTypes : ClosedArgTypes s
  directiveArgTypes : ClosedDirectiveArgTypes s
  interfaces : ClosedInterfaces s
  unionMembers : ClosedUnionMembers s
  possibleTypes : ClosedPossibleTypes s
  implements : ClosedImplements s
  roots : ClosedRoots s
  directiveUses : ClosedDirectiveUses s
  keys : KeysConsistent s

instance (s : Schema) : Decidable (ClosedFieldTypes s) := by unfold ClosedFieldTypes; infer_instance
instance (s : Schema) : Decidable (ClosedArgTypes s) := by unfold ClosedArgTypes; infer_instance
instance (s : Schema) : Decidable (ClosedDirectiveArgTypes s) := by unfold ClosedDirectiveArgTypes; infer_instance
instance (s : Schema) : Decidable (ClosedInterfaces s) := by unfold ClosedInterfaces; infer_instance
instance (s : Schema) : Decidable (ClosedUnionMembers s) := by unfold ClosedUnionMembers; infer_instance
instance (s : Schema) : Decidable (ClosedPossibleTypes s) := by unfold ClosedPossibleTypes; infer_instance
instance (s : Schema) : Decidable (ClosedImplements s) := by unfold ClosedImplements; infer_instance
instance (s : Schema) : Decidable (ClosedRoots s) := by
  unfold ClosedRoots
  cases s.query <;> cases s.mutation <;> cases s.subscription <;> simp <;> infer_instance
instance (s : Schema) : Decidable (ClosedDirectiveUses s) := by unfold ClosedDirectiveUses; infer_instance
instance (s : Schema) : Decidable (KeysConsistent s) := by unfold KeysConsistent; infer_instance

def closedClauses (s : Schema) : List (String × Bool) :=
  [ ("fieldTypes", decide (ClosedFieldTypes s)), ("argTypes", decide (ClosedArgTypes s)),
    ("directiveArgTypes", decide (ClosedDirectiveArgTypes s)), ("interfaces", decide (ClosedInterfaces s)),
    ("unionMembers", decide (ClosedUnionMembers s)), ("possibleTypes", decide (ClosedPossibleTypes s)),
    ("implements", decide (ClosedImplements s)), ("roots", decide (ClosedRoots s)),
    ("directiveUses", decide (ClosedDirectiveUses s)), ("keys", decide (KeysConsistent s)) ]

def closedB (s : Schema) : Bool := (closedClauses s).all (·.2)

theorem closedB_iff (s : Schema) : closedB s = true ↔ Closed s := by
  simp only [closedB, closedClauses, List.all_cons, List.all_nil, Bool.and_true, Bool.and_eq_true, decide_eq_true_eq]
  constructor
  · intro ⟨h1, h2, h3, h4, h5, h6, h7, h8, h9, h10⟩; exact ⟨h1, h2, h3, h4, h5, h6, h7, h8, h9, h10⟩
  · intro ⟨h1, h2, h3, h4, h5, h6, h7, h8, h9, h10⟩; exact ⟨h1, h2, h3, h4, h5, h6, h7, h8, h9, h10⟩

instance (s : Schema) : Decidable (Closed s) := decidable_of_iff _ (closedB_iff s)

/- ---------- relations ---------- -/

def sameSet (a b : List Name) : Bool := a.all b.contains && b.all a.contains

def kindOf (s : Schema) (n : Name) : Option DefKind := (s.types.lookup n).map (·.kind)

/-- possible types implied by the definitions: members of a union; the object and interface types
    that declare an interface; an object type itself -/
def impliedPossible (s : Schema) (k : Name) : List Name :=
  match s.types.lookup k with
  | some d =>
    match d.kind with
    | .union => d.types
    | .interface =>
      (s.types.filter fun p => (p.2.kind == .object || p.2.kind == .interface) && p.2.interfaces.contains k).map (·.1)
    | .object => [k]
    | _ => []
  | none => []

/-- abstract types a type belongs to: the interfaces it declares and the unions listing it -/
def impliedImplements (s : Schema) (k : Name) : List Name :=
  match s.types.lookup k with
  | some d =>
    (if d.kind == .object || d.kind == .interface then d.interfaces else []) ++
    (s.types.filter fun p => p.2.kind == .union && p.2.types.contains k).map (·.1)
  | none => []

/-- `PossibleTypes` is exact on interfaces and unions -/
def possibleAbstractExact (s : Schema) : Bool :=
  s.types.all fun p => !(p.2.kind == .interface || p.2.kind == .union) || sameSet (s.possible p.1) (impliedPossible s p.1)
/-- an object type is its own (only) possible type -/
def possibleObjectSelf (s : Schema) : Bool :=
  s.types.all fun p => p.2.kind != .object || sameSet (s.possible p.1) [p.1]
/-- nothing else has possible types -/
def possibleNoOtherKeys (s : Schema) : Bool :=
  s.possibleTypes.all fun p =>
    p.2.isEmpty || (match kindOf s p.1 with | some .object | some .interface | some .union => true | _ => false)
/-- `Implements` is exact -/
def implementsExact (s : Schema) : Bool :=
  s.types.all (fun p => sameSet (s.implementsOf p.1) (impliedImplements s p.1)) &&
  s.implements.all (fun p => p.2.isEmpty || (s.types.lookup p.1).isSome)

def relationClauses (s : Schema) : List (String × Bool) :=
  [ ("possibleAbstractExact", possibleAbstractExact s), ("possibleObjectSelf", possibleObjectSelf s),
    ("possibleNoOtherKeys", possibleNoOtherKeys s), ("implementsExact", implementsExact s) ]

structure RelationsExact (s : Schema) : Prop where
  possibleAbstractExact : possibleAbstractExact s = true
  possibleObjectSelf : possibleObjectSelf s = true
  possibleNoOtherKeys : possibleNoOtherKeys s = true
  implementsExact : implementsExact s = true

/- ---------- built-ins and introspection ---------- -/

def builtinScalars : List Name := [str "Int", str "Float", str "String", str "Boolean", str "ID"]
def builtinDirectives : List Name := [str "skip", str "include", str "deprecated", str "specifiedBy"]
def introspectionTypes : List (Name × DefKind) :=
  [ (str "__Schema", .object), (str "__Type", .object), (str "__Field", .object), (str "__InputValue", .object),
    (str "__EnumValue", .object), (str "__Directive", .object), (str "__TypeKind", .enum),
    (str "__DirectiveLocation", .enum) ]

def hasBuiltinsB (s : Schema) : Bool :=
  builtinScalars.all (fun n => typeIs s n (· == .scalar)) &&
  builtinDirectives.all (fun n => (s.directives.lookup n).isSome) &&
  introspectionTypes.all (fun (n, k) => typeIs s n (· == k))

def HasBuiltins (s : Schema) : Prop := hasBuiltinsB s = true

/-- `__schema: __Schema!` and `__type(name: String!): __Type` on the query root -/
def introspectionFieldsB (s : Schema) : Bool :=
  match s.query with
  | none => true
  | some q =>
    match s.types.lookup q with
    | none => false
    | some d =>
      (match d.fields.filter (·.name == str "__schema") with
       | [f] => sameType f.type (.named (str "__Schema") true Pos.zero) && f.args.isEmpty
       | _ => false) &&
      (match d.fields.filter (·.name == str "__type") with
       | [f] => sameType f.type (.named (str "__Type") false Pos.zero) &&
                (match f.args with
                 | [a] => a.name == str "name" && sameType a.type (.named (str "String") true Pos.zero)
                 | _ => false)
       | _ => false)

def IntrospectionFields (s : Schema) : Prop := introspectionFieldsB s = true

/-- the root operation types of a LOADED schema are object types (GraphQL §3.3.1).  Enforced by the loader
    since the repair "a root operation type must be an object type" (`loaded_rootTypesAreObjects`); still
    judged directly on the real loader's output.  The clause of `WellFormed` is `rootTypesAreObjectsDoc`. -/
def rootTypesAreObjects (s : Schema) : Bool :=
  [s.query, s.mutation, s.subscription].all fun r =>
    match r with
    | none => true
    | some n => typeIs s n (· == .object)

def loadedClauses (s : Schema) : List (String × Bool) :=
  closedClauses s ++ relationClauses s ++
    [("hasBuiltins", hasBuiltinsB s), ("introspectionFields", introspectionFieldsB s),
     ("rootTypesAreObjects", rootTypesAreObjects s)]

end Gql.Spec
