import GqlModel.Gen.ErrSites
/-
  Hand-written expectations over the REGENERATED table `Gen.errSites` / `Gen.addErrorSites`
  (fact family F7, harness/internal/extract/errsites.go).  Sites are keyed by file + enclosing
  declaration + text, never by line number.
-/
namespace Gql.ErrTemplates
open Gql.Gen

/-- after a `%`: drop flags, width, precision; the next byte is the verb -/
def dropVerb : List Nat → List Nat
  | [] => []
  | c :: rest =>
    -- '-' '+' '#' ' ' '.' and digits
    if c = 45 ∨ c = 43 ∨ c = 35 ∨ c = 32 ∨ c = 46 ∨ (48 ≤ c ∧ c ≤ 57) then dropVerb rest else rest

/-- does the format contain a byte that `fmt.Sprintf` copies to the output whatever the arguments
    are (anything outside a verb, or `%%`)?  Such a format never renders to "". -/
def hasLiteralFuel : Nat → List Nat → Bool
  | 0, _ => false
  | _, [] => false
  | fuel + 1, c :: rest =>
    if c = 37 then
      match rest with
      | 37 :: _ => true
      | rest' => hasLiteralFuel fuel (dropVerb rest')
    else true

def hasLiteral (bs : List Nat) : Bool := hasLiteralFuel (bs.length + 1) bs

/-- sites whose format is not a literal: the three forwarders that pass their own `format`
    parameter on (their callers are in the table with literal formats) -/
def forwarders : List (String × String × String) :=
  [("gqlerror/error.go", "ErrorPosf", "message"),
   ("lexer/lexer.go", "Lexer.makeError", "format"),
   ("parser/parser.go", "parser.error", "format")]

/-- `Message("%s", message)` sites: the text is rendered by a `message := fmt.Sprintf(<literal>, …)`
    in the same declaration (ctor `Sprintf(message)` of the table) -/
def pureVerbSites : List (String × String) :=
  [("validator/rules/fields_on_correct_type.go", "ruleFuncFieldsOnCorrectType"),
   ("validator/rules/fragments_on_composite_types.go", "FragmentsOnCompositeTypesRule")]

/-- `addError(…)` calls without a direct `Message(…)` option: the message option is computed by
    `unexpectedTypeMessageOnly(v)`, all of whose branches are `Message(<literal>, …)` (in the table) -/
def indirectMessageSites : List (String × String) :=
  [("validator/rules/values_of_correct_type.go", "ruleFuncValuesOfCorrectType"),
   ("validator/rules/values_of_correct_type.go", "unexpectedTypeMessage")]

def siteOK (s : ErrSite) : Bool :=
  if s.literal then
    s.format != "" && s.fmt != [] &&
    (hasLiteral s.fmt ||
      (pureVerbSites.contains (s.file, s.fn) &&
        errSites.any fun t => t.file == s.file && t.fn == s.fn && t.ctor == "Sprintf(message)" && t.literal && hasLiteral t.fmt))
  else forwarders.contains (s.file, s.fn, s.format)

def addErrorOK (a : AddErrorSite) : Bool :=
  a.hasAt && (a.hasMessage || indirectMessageSites.contains (a.file, a.fn))

end Gql.ErrTemplates
