import GqlModel.Syntax.Ast
import GqlModel.Vars.Value
import GqlModel.Vars.Strconv
/-
  ast/value.go `(*Value).Value(vars)` and ast/argmap.go `arg2map`, crash-explicit.

  * Literal conversion can fail on a SYNTAX error of `strconv.ParseInt/ParseFloat/ParseBool` only
    (no lexer-produced leaf has one; range errors no longer fail since the repair of R15: the
    float64 of the text is handed on): `Value.Value` returns the error, `arg2map` turns it into
    `panic(err)`.
  * `Value.VariableDefinition` (a link stored on the node by validation) is resolved BY NAME in
    the list `vdefs` that the caller supplies: the harness sends, for every variable name that
    occurs in the arguments, the definition the Go node is actually linked to.
  * A variable's default is converted by a recursive `Value.Value` call on the default; a default
    that (transitively) mentions a variable whose default mentions … is followed like Go does, up
    to `level` steps, after which the outcome is `diverge` (Go: unbounded recursion).  Parsed
    documents have constant defaults, so level 1 is never exceeded there.
-/
namespace Gql
open Gql.Strconv

/-- the `error` a literal conversion returns -/
structure ConvErr where
  fn : String            -- "ParseInt" | "ParseFloat" | "ParseBool"
  raw : Bytes
  kind : NumErr
  deriving DecidableEq, Repr, Inhabited

def ConvErr.msg (e : ConvErr) : Bytes := numErrorMsg e.fn e.raw e.kind

inductive ConvRes (α : Type)
  | ok (v : α)
  | err (e : ConvErr)
  | diverge
  deriving Inhabited

abbrev VarMap := GoFields

def findVarDef (vdefs : List VarDef) (n : Name) : Option VarDef := vdefs.find? fun d => d.var = n

/-- `ArgumentList.ForName` -/
def findArg (args : List Argument) (n : Name) : Option Argument := args.find? fun a => a.name = n

mutual
  /-- `Value.Value(vars)`; `dflt n` is what following the link of variable `n` to its definition's
      default yields (`none`: no link or no default ⇒ `nil, nil`) -/
  def valueValueWith (dflt : Name → Option (ConvRes GoVal)) (vars : VarMap) : Value → ConvRes GoVal
    | .mk kind raw children _ =>
      match kind with
      | .variable =>
        match vars.lookup raw with
        | some v => .ok v
        | none =>
          match dflt raw with
          | some r => r
          | none => .ok .nil
      | .int =>
        match parseInt raw with
        | .ok n => .ok (.int .int64 n)
        | .syntax => .err ⟨"ParseInt", raw, .syntax⟩
        | .range _ => .ok (.float false raw)     -- beyond int64: handed on as the float64 of the text (repair of R15)
      | .float =>
        match parseFloat raw with
        | .ok => .ok (.float false raw)
        | .syntax => .err ⟨"ParseFloat", raw, .syntax⟩
        | .range _ => .ok (.float false raw)     -- beyond float64: ±Inf, the float64 of the text (repair of R15)
      | .string | .block | .enum => .ok (.str raw)
      | .boolean =>
        match parseBool raw with
        | some b => .ok (.bool b)
        | none => .err ⟨"ParseBool", raw, .syntax⟩
      | .null => .ok .nil
      | .list =>
        match listValueWith dflt vars children with
        | .ok xs => .ok (.slice .iface xs)
        | .err e => .err e
        | .diverge => .diverge
      | .object =>
        match objectValueWith dflt vars children .nil with
        | .ok kvs => .ok (.map .iface kvs)
        | .err e => .err e
        | .diverge => .diverge
  /-- the `for _, elem := range v.Children { …; val = append(val, elemVal) }` loop -/
  def listValueWith (dflt : Name → Option (ConvRes GoVal)) (vars : VarMap) : Children → ConvRes GoVals
    | .nil => .ok .nil
    | .cons _ v _ rest =>
      match valueValueWith dflt vars v with
      | .ok x =>
        match listValueWith dflt vars rest with
        | .ok xs => .ok (.cons x xs)
        | .err e => .err e
        | .diverge => .diverge
      | .err e => .err e
      | .diverge => .diverge
  /-- the `val[elem.Name] = elemVal` loop (a repeated name overwrites) -/
  def objectValueWith (dflt : Name → Option (ConvRes GoVal)) (vars : VarMap) : Children → GoFields → ConvRes GoFields
    | .nil, acc => .ok acc
    | .cons n v _ rest, acc =>
      match valueValueWith dflt vars v with
      | .ok x => objectValueWith dflt vars rest (acc.set n x)
      | .err e => .err e
      | .diverge => .diverge
end

/-- following `v.VariableDefinition.DefaultValue.Value(vars)` at most `level` times -/
def valueValueLvl (vdefs : List VarDef) (vars : VarMap) : Nat → Value → ConvRes GoVal
  | 0 => valueValueWith (fun n =>
      match findVarDef vdefs n with
      | some d => match d.default with
        | some _ => some .diverge
        | none => none
      | none => none) vars
  | level + 1 => valueValueWith (fun n =>
      match findVarDef vdefs n with
      | some d => match d.default with
        | some dv => some (valueValueLvl vdefs vars level dv)
        | none => none
      | none => none) vars

/-- `Value.Value(vars)` on a node of a validated document whose variable links are `vdefs` -/
def valueValue (vdefs : List VarDef) (vars : VarMap) (v : Value) : ConvRes GoVal :=
  valueValueLvl vdefs vars (vdefs.length + 1) v

/-- `Value.Value(nil)` for constant values (defaults in the schema and in variable definitions) -/
def valueValueConst (v : Value) : ConvRes GoVal := valueValue [] .nil v

inductive ArgRes
  | ok (m : GoFields)
  | panic (msg : Bytes)
  | diverge
  deriving Inhabited

def nilDerefMsg : Bytes := str "runtime error: invalid memory address or nil pointer dereference"

/-- the `if !hasValue && argDef.DefaultValue != nil { … }` block followed by `if hasValue { result[…] = val }`,
    entered without a value -/
def argDefaultRes (vdefs : List VarDef) (vars : VarMap) (argDef : ArgDef) (result : GoFields) : ArgRes :=
  match argDef.default with
  | some d =>
    match valueValue vdefs vars d with
    | .ok x => .ok (result.set argDef.name x)
    | .err e => .panic e.msg
    | .diverge => .diverge
  | none => .ok result

/-- one iteration of the loop of `arg2map` -/
def arg2mapStep (vdefs : List VarDef) (args : List Argument) (vars : VarMap) (argDef : ArgDef)
    (result : GoFields) : ArgRes :=
  -- `val, hasValue` after the `if argValue := args.ForName(argDef.Name); argValue != nil` block
  let fromArg : ConvRes (Option GoVal) :=
    match findArg args argDef.name with
    | some a =>
      if a.value.kind = .variable then .ok (vars.lookup a.value.raw)
      else match valueValue vdefs vars a.value with
        | .ok x => .ok (some x)
        | .err e => .err e
        | .diverge => .diverge
    | none => .ok none
  match fromArg with
  | .err e => .panic e.msg
  | .diverge => .diverge
  | .ok (some x) => .ok (result.set argDef.name x)
  | .ok none => argDefaultRes vdefs vars argDef result

def arg2mapLoop (vdefs : List VarDef) (args : List Argument) (vars : VarMap) : List ArgDef → GoFields → ArgRes
  | [], result => .ok result
  | d :: rest, result =>
    match arg2mapStep vdefs args vars d result with
    | .ok r => arg2mapLoop vdefs args vars rest r
    | .panic m => .panic m
    | .diverge => .diverge

/-- `arg2map(defs, args, vars)` -/
def arg2map (vdefs : List VarDef) (defs : List ArgDef) (args : List Argument) (vars : VarMap) : ArgRes :=
  arg2mapLoop vdefs args vars defs .nil

/-- `Field.ArgumentMap` / `Directive.ArgumentMap`: `defs = none` is a nil `Definition` link
    (`f.Definition.Arguments` dereferences it) -/
def argumentMap (vdefs : List VarDef) (defs : Option (List ArgDef)) (args : List Argument) (vars : VarMap) : ArgRes :=
  match defs with
  | none => .panic nilDerefMsg
  | some ds => arg2map vdefs ds args vars

end Gql
