import GqlModel.Validate.Annot
import GqlModel.Format.Quote
import GqlModel.Validate.Suggest
/-
  Library functions the rule bodies call: `strconv.Quote`, `strconv.ParseInt` (error class
  only), `strconv.ParseFloat` (error class only), `Value.String()`, and the error result of
  `Value.Value(nil)` (since the repair of R15: SYNTAX errors of leaves only — number literals of
  any magnitude convert).

  Trusted-base notes (each is exercised by the correspondence run, none is proved):
  * `isPrint` is `strconv.IsPrint` exactly on ASCII and an APPROXIMATION beyond (a short list of
    non-printable ranges instead of the Unicode tables).
  * `floatStatus` decides "|x| rounds beyond MaxFloat64" by exact integer arithmetic on the
    decimal text; Go's parser agrees except possibly for mantissas of more than 800 digits.  It
    knows decimal texts only (`[+-]?digits(.digits)?([eE][+-]?digits)?`): the other texts
    `ParseFloat` accepts (hex floats, `inf`, `nan`, `_`) are classed `.syntax`; no lexer produces them.
-/
namespace Gql.Validate
open Gql

def hexLower (n : Nat) : Nat := if n < 10 then 48 + n else 87 + n

def hexN : Nat → Nat → Bytes
  | 0, _ => []
  | k + 1, n => hexN k (n / 16) ++ [hexLower (n % 16)]

def isPrint (r : Nat) : Bool :=
  if r < 0x80 then decide (0x20 ≤ r) && decide (r < 0x7f)
  else if r ≤ 0xA0 then false
  else if r = 0xAD then false
  else if decide (0x2000 ≤ r) && decide (r ≤ 0x200F) then false
  else if decide (0x2028 ≤ r) && decide (r ≤ 0x202F) then false
  else if decide (0x205F ≤ r) && decide (r ≤ 0x206F) then false
  else if r = 0x3000 then false
  else if decide (0xD800 ≤ r) && decide (r ≤ 0xF8FF) then false
  else if r = 0xFEFF then false
  else if decide (0xFFF0 ≤ r) && decide (r ≤ 0xFFFB) then false
  else if r = 0xFFFE || r = 0xFFFF then false
  else true

/-- `appendEscapedRune` for the quote `"` without ASCIIonly/graphicOnly -/
def quoteRune (r : Nat) (raw : Bytes) : Bytes :=
  if r = 34 || r = 92 then [92, r]
  else if isPrint r then raw
  else if r = 7 then str "\\a" else if r = 8 then str "\\b" else if r = 12 then str "\\f"
  else if r = 10 then str "\\n" else if r = 13 then str "\\r" else if r = 9 then str "\\t"
  else if r = 11 then str "\\v"
  else if r < 32 || r = 0x7f then str "\\x" ++ hexN 2 r
  else if r < 0x10000 then str "\\u" ++ hexN 4 r
  else str "\\U" ++ hexN 8 r

def quoteGo : Nat → Bytes → Bytes
  | 0, _ => []
  | _, [] => []
  | fuel + 1, b0 :: rest =>
    let (r, w) := decodeRune (b0 :: rest)
    if w ≤ 1 && r = runeError && b0 ≥ 0x80 then str "\\x" ++ hexN 2 b0 ++ quoteGo fuel rest
    else quoteRune r ((b0 :: rest).take w) ++ quoteGo fuel ((b0 :: rest).drop w)

/-- `strconv.Quote` -/
def quote (b : Bytes) : Bytes := 34 :: quoteGo b.length b ++ [34]

def isDigit (c : Nat) : Bool := decide (48 ≤ c) && decide (c ≤ 57)

inductive NumErr | none | syntax | range
  deriving DecidableEq, Repr

def parseUintGo (maxVal : Nat) : List Nat → Nat → Option Nat → NumErr × Nat
  | [], acc, _ => (.none, acc)
  | c :: rest, acc, x =>
    if !isDigit c then (.syntax, 0)
    else
      let acc' := acc * 10 + (c - 48)
      if acc' > maxVal then (.range, maxVal) else parseUintGo maxVal rest acc' x

/-- error class of `strconv.ParseInt(raw, 10, bits)` -/
def parseIntErr (bits : Nat) (raw : Bytes) : NumErr :=
  match raw with
  | [] => .syntax
  | c :: rest =>
    let neg := c = 45
    let digits := if c = 43 || c = 45 then rest else raw
    if digits.isEmpty then .syntax
    else
      match parseUintGo (2 ^ bits - 1) digits 0 none with
      | (.syntax, _) => .syntax
      | (_, un) =>
        let cutoff := 2 ^ (bits - 1)
        if !neg && un ≥ cutoff then .range
        else if neg && un > cutoff then .range
        else .none

def natOfDigits (ds : List Nat) : Nat := ds.foldl (fun a c => a * 10 + (c - 48)) 0

/-- error class of `strconv.ParseFloat(raw, 64)` -/
def floatStatus (raw : Bytes) : NumErr :=
  let body := match raw with
    | 45 :: r => r
    | 43 :: r => r
    | r => r
  let intPart := body.takeWhile isDigit
  let r1 := body.dropWhile isDigit
  let (frac, r2, hasDot) : Bytes × Bytes × Bool := match r1 with
    | 46 :: r => (r.takeWhile isDigit, r.dropWhile isDigit, true)
    | r => ([], r, false)
  if intPart.isEmpty && frac.isEmpty then .syntax
  else
    let expInfo : Option (Bool × Bytes) := match r2 with
      | [] => some (false, [])
      | e :: r =>
        if e = 101 || e = 69 then
          let (eneg, ds) : Bool × Bytes := match r with
            | 45 :: ds => (true, ds)
            | 43 :: ds => (false, ds)
            | ds => (false, ds)
          if ds.isEmpty || !ds.all isDigit then none else some (eneg, ds)
        else none
    let _ := hasDot
    match expInfo with
    | none => .syntax
    | some (eneg, eds) =>
      let mant := (intPart ++ frac).dropWhile (· = 48)
      if mant.isEmpty then .none
      else
        -- value = mant × 10^(e − frac.length); position of the decimal point after the first digit
        let e : Int := if eneg then -(natOfDigits eds : Int) else natOfDigits eds
        let p : Int := (mant.length : Int) + e - frac.length
        if p > 310 then .range
        else if p < 300 then .none
        else
          -- exact: mant·10^(e−fl) ≥ 2^1024 − 2^970  (halfway to 2^1024 rounds to even = overflow)
          let thr : Nat := 2 ^ 1024 - 2 ^ 970
          let sh : Int := e - frac.length
          let m := natOfDigits mant
          let over : Bool := if sh ≥ 0 then decide (m * 10 ^ sh.toNat ≥ thr) else decide (m ≥ thr * 10 ^ (-sh).toNat)
          if over then .range else .none

/-- `f, err := strconv.ParseFloat(raw, 64); err != nil || math.IsInf(f, 0)` (for the decimal texts
    `floatStatus` knows, `f` is infinite exactly when `err` is the range error) -/
def floatErr (raw : Bytes) : Bool := floatStatus raw != .none

mutual
  /-- `Value.String()` -/
  def valueString : Value → Bytes
    | .mk k raw ch _ =>
      match k with
      | .variable => 36 :: raw
      | .int | .float | .enum | .boolean | .null => raw
      | .string | .block => Gql.Format.gqlQuote raw
      | .list => 91 :: joinList ch ++ [93]
      | .object => 123 :: joinObj ch ++ [125]
  def joinList : Children → Bytes
    | .nil => []
    | .cons _ v _ .nil => valueString v
    | .cons _ v _ rest => valueString v ++ 44 :: joinList rest
  def joinObj : Children → Bytes
    | .nil => []
    | .cons n v _ .nil => n ++ 58 :: valueString v
    | .cons n v _ rest => n ++ 58 :: valueString v ++ 44 :: joinObj rest
end

mutual
  /-- `Value.Value(nil)` of a constant (variable default values are parsed as constants; a variable
      inside one has a nil `VariableDefinition`-less meaning here: no error) -/
  def constErr : Value → Bool
    | .mk k raw ch _ =>
      match k with
      -- beyond int64 / float64 is no error any more (the float64 of the text; ±Inf)
      | .int => parseIntErr 64 raw == .syntax
      | .float => floatStatus raw == .syntax
      | .boolean => !(raw == str "true" || raw == str "false" || raw == str "1" || raw == str "0" || raw == str "t"
          || raw == str "f" || raw == str "T" || raw == str "F" || raw == str "TRUE" || raw == str "FALSE"
          || raw == str "True" || raw == str "False")
      | .list | .object => constErrs ch
      | _ => false
  def constErrs : Children → Bool
    | .nil => false
    | .cons _ v _ rest => constErr v || constErrs rest
end

mutual
  /-- `_, err := value.Value(nil); err != nil` — a variable evaluates its definition's default
      value, found through the `VariableDefinition` link of the node (side table) -/
  def evalErr (l : Links) : Value → Bool
    | .mk k raw ch p =>
      match k with
      | .variable =>
        match l.varDef p.start with
        | some vd => match vd.default with
          | some dv => constErr dv
          | none => false
        | none => false
      | .list | .object => evalErrs l ch
      | _ => constErr (.mk k raw .nil p)
  def evalErrs (l : Links) : Children → Bool
    | .nil => false
    | .cons _ v _ rest => evalErr l v || evalErrs l rest
end

end Gql.Validate
