import GqlModel.Schema.Types
/-
  What the validator reads of a loaded schema.  `ast.Schema` holds Go maps (`Types`,
  `Directives`, `PossibleTypes`, `Implements`); the walker and the rules only ever *index* them —
  with one exception: `known_type_names.go` RANGES over `Schema.Types` to build the suggestion
  options.  The model therefore never sees the association lists themselves but this view, in
  which the one ranged map is consumed through a sort (`typeNames`, bytewise — DESIGN §7 R10).
  `C10_validate_deterministic` is then the statement that the view (hence `validate`) does not
  depend on the order of the association lists.
-/
namespace Gql.Validate
open Gql

structure SV where
  query : Option Name
  mutation : Option Name
  subscription : Option Name
  /-- `Schema.Types[name]` -/
  type? : Name → Option Definition
  /-- `Schema.Directives[name]` -/
  directive? : Name → Option DirectiveDef
  /-- `Schema.GetPossibleTypes(def)` by name (`[]` = nil slice) -/
  possible : Name → List Name
  /-- the names of all types, sorted bytewise -/
  typeNames : List Name

/-- insertion into a sorted list, before the first element that is not smaller -/
def insertSorted {α : Type} (le : α → α → Bool) (x : α) : List α → List α
  | [] => [x]
  | y :: ys => if le x y then x :: y :: ys else y :: insertSorted le x ys

/-- stable insertion sort (structurally recursive, so that closed instances reduce in the kernel;
    Go's `sort.Slice` IS an insertion sort below 12 elements, `sort.SliceStable`/`sort.Strings`
    agree with any stable sort / any sort by a total order) -/
def stableSort {α : Type} (le : α → α → Bool) (l : List α) : List α := l.foldr (insertSorted le) []

/-- byte-wise `a ≤ b` -/
def bytesLe (a b : Bytes) : Bool := !decide (b < a)

def sortNames (ns : List Name) : List Name := stableSort bytesLe ns

end Gql.Validate

namespace Gql
def Schema.view (s : Schema) : Validate.SV :=
  { query := s.query, mutation := s.mutation, subscription := s.subscription,
    type? := s.type?, directive? := s.directive?, possible := s.possible,
    typeNames := Validate.sortNames (s.types.map (·.2.name)) }
end Gql
