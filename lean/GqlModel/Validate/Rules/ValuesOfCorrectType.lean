import GqlModel.Validate.Engine
/-
  rules/values_of_correct_type.go

  No crash site is left in the repaired rule body:
  * `fieldValue.VariableDefinition.Variable` in the `@oneOf` branch is guarded by
    `VariableDefinition != nil` (repair of R2a / R2b);
  * the `@oneOf` null message names `value.Children[0].Name` (there is exactly one child at that
    point), no longer `value.Definition.Fields[0].Name` (index out of range for a definition
    without fields);
  * the explicit `panic(fmt.Errorf("unhandled %T", value))` is the `default` of a switch over the
    ten value kinds, all of which have a case: unreachable (the model's `ValueKind` has exactly
    these ten constructors).
  So the step function is total (`Rule.stateless`).
-/
namespace Gql.Validate.Rules
open Gql Gql.Validate

def builtinScalars : List Bytes := [str "Int", str "Float", str "String", str "Boolean", str "ID"]

/-- `unexpectedTypeMessageOnly` -/
def unexpectedTypeMessageOnly (v : Value) (expected : GType) (dfn : Definition) : Bytes :=
  let ts := expected.render
  let vs := valueString v
  if ts == str "Int" || ts == str "Int!" then
    if parseIntErr 32 v.raw == .range then str "Int cannot represent non 32-bit signed integer value: " ++ vs
    else str "Int cannot represent non-integer value: " ++ vs
  else if ts == str "String" || ts == str "String!" || ts == str "[String]" then
    str "String cannot represent a non string value: " ++ vs
  else if ts == str "Boolean" || ts == str "Boolean!" then str "Boolean cannot represent a non boolean value: " ++ vs
  else if ts == str "Float" || ts == str "Float!" then str "Float cannot represent non numeric value: " ++ vs
  else if ts == str "ID" || ts == str "ID!" then str "ID cannot represent a non-string and non-integer value: " ++ vs
  else if dfn.kind == .enum then str "Enum " ++ dq ts ++ str " cannot represent non-enum value: " ++ vs ++ str "."
  else str "Expected value of type " ++ dq ts ++ str ", found " ++ vs ++ str "."

/-- `unexpectedTypeMessage` -/
def unexpectedType (v : Value) (expected : GType) (dfn : Definition) : RErr :=
  errAt (unexpectedTypeMessageOnly v expected dfn) v.pos

/-- `ChildValueList.ForName(name) != nil` -/
def childPresent (n : Name) : Children → Bool
  | .nil => false
  | .cons k _ _ rest => k == n || childPresent n rest

def missingRequired (dfn : Definition) (v : Value) : List FieldDef → List RErr
  | [] => []
  | f :: rest =>
    if f.type.nonNull && !childPresent f.name v.children && f.default.isNone then
      errAt (str "Field \"" ++ dfn.name ++ str "." ++ f.name ++ str "\" of required type " ++ dq f.type.render
        ++ str " was not provided.") v.pos :: missingRequired dfn v rest
    else missingRequired dfn v rest

/-- the closure run for one `@oneOf` directive of the definition -/
def oneOfCheck (l : Links) (dfn : Definition) (v : Value) : List RErr :=
  match v.children with
  | .cons n fv _ .nil =>
    if fv.kind == .null then
      [errAt (str "Field \"" ++ dfn.name ++ str "." ++ n ++ str "\" must be non-null.") fv.pos]
    else if fv.kind == .variable then
      match l.varDef fv.pos.start with
      | none => []        -- `isVariable` requires `VariableDefinition != nil` (repair of R2a/R2b)
      | some vd =>
        if !vd.type.nonNull then
          [errAt (str "Variable " ++ dq vd.var ++ str " must be non-nullable to be used for OneOf Input Object "
            ++ dq dfn.name ++ str ".") fv.pos]
        else []
    else []
  | _ => [errAt (str "OneOf Input Object " ++ dq dfn.name ++ str " must specify exactly one key.") v.pos]

def oneOfChecks (l : Links) (dfn : Definition) (v : Value) : List Directive → List RErr
  | [] => []
  | dir :: rest =>
    if dir.name == str "oneOf" then oneOfCheck l dfn v ++ oneOfChecks l dfn v rest
    else oneOfChecks l dfn v rest

def unknownInputFields (dfn : Definition) : Children → List RErr
  | .nil => []
  | .cons n _ p rest =>
    if (fieldForName dfn.fields n).isNone then
      errAtS (str "Field " ++ dq n ++ str " is not defined by type " ++ dq dfn.name ++ str ".")
        (suggestListQuoted (str "Did you mean") n (dfn.fields.map (·.name))) p :: unknownInputFields dfn rest
    else unknownInputFields dfn rest

def enumPfx : Bytes := str "Did you mean the enum value"

def valuesOfCorrectTypeStep (_ : SV) (_ : QueryDoc) (e : Event) : List RErr :=
  match e.p with
  | .value v (some expected) (some dfn) =>
    let e0 : List RErr :=
      if v.kind == .null && expected.nonNull then
        [errAt (str "Expected value of type " ++ dq expected.render ++ str ", found " ++ valueString v ++ str ".") v.pos]
      else []
    if dfn.kind == .scalar && !defOneOf dfn builtinScalars then e0
    else
      let possibleEnums : List Bytes := if dfn.kind == .enum then dfn.enumValues.map (·.name) else []
      -- `_, err := value.Value(nil)`: only a malformed leaf is an error (never in a parsed document)
      let e1 : List RErr := if evalErr e.links v then [unexpectedType v expected dfn] else []
      let unexpectedIf (c : Bool) : List RErr :=
        e0 ++ e1 ++ (if c then [unexpectedType v expected dfn] else [])
      match v.kind with
      | .null => e0 ++ e1
      | .list =>
        match expected with
        | .named _ _ _ => unexpectedIf true
        | .list _ _ _ => unexpectedIf false
      | .int =>
        if !defOneOf dfn [str "Int", str "Float", str "ID"] then unexpectedIf true
        else if defOneOf dfn [str "Int"] then unexpectedIf (parseIntErr 32 v.raw != .none)   -- Int is 32 bits
        else if defOneOf dfn [str "Float"] then unexpectedIf (floatErr v.raw)                -- an integer literal for a Float is a finite double too
        else unexpectedIf false
      | .float =>
        if !defOneOf dfn [str "Float"] then unexpectedIf true
        else unexpectedIf (floatErr v.raw)                                                   -- Float is a finite double
      | .string | .block =>
        if dfn.kind == .enum then
          e0 ++ e1 ++ [errAtS (str "Enum " ++ dq expected.render ++ str " cannot represent non-enum value: "
            ++ valueString v ++ str ".") (suggestListQuoted enumPfx v.raw possibleEnums) v.pos]
        else unexpectedIf (!defOneOf dfn [str "String", str "ID"])
      | .enum =>
        if dfn.kind != .enum then
          e0 ++ e1 ++ [errAtS (unexpectedTypeMessageOnly v expected dfn)
            (suggestListUnquoted enumPfx v.raw possibleEnums) v.pos]
        else if !(dfn.enumValues.any (·.name == v.raw)) then
          e0 ++ e1 ++ [errAtS (str "Value " ++ dq (valueString v) ++ str " does not exist in " ++ dq expected.render
            ++ str " enum.") (suggestListQuoted enumPfx v.raw possibleEnums) v.pos]
        else e0 ++ e1
      | .boolean => unexpectedIf (!defOneOf dfn [str "Boolean"])
      | .object =>
        if dfn.kind != .inputObject then unexpectedIf true     -- an object literal where a scalar or an enum is expected
        else e0 ++ e1 ++ missingRequired dfn v dfn.fields ++ oneOfChecks e.links dfn v dfn.dirs ++ unknownInputFields dfn v.children
      | .variable => e0 ++ e1
  | _ => []

def valuesOfCorrectType : Rule := Rule.stateless (str "ValuesOfCorrectType") valuesOfCorrectTypeStep
def valuesOfCorrectTypeWithoutSuggestions : Rule :=
  Rule.withoutSuggestions (str "ValuesOfCorrectTypeWithoutSuggestions") valuesOfCorrectType

end Gql.Validate.Rules
