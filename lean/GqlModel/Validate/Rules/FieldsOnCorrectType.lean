import GqlModel.Validate.Engine
/- rules/fields_on_correct_type.go -/
namespace Gql.Validate.Rules
open Gql Gql.Validate

def bumpCount (n : Name) : List (Name × Nat) → List (Name × Nat)
  | [] => [(n, 1)]
  | (k, c) :: rest => if k == n then (k, c + 1) :: rest else (k, c) :: bumpCount n rest

def countOf (m : List (Name × Nat)) (n : Name) : Nat := (m.lookup n).getD 0

/-- inner loop over `possibleType.Interfaces` -/
def sugIfaces (s : SV) (name : Name) : List Name → List Name × List (Name × Nat) → List Name × List (Name × Nat)
  | [], acc => acc
  | i :: rest, (ifs, cnt) =>
    match s.type? i with
    | some idef =>
      if (fieldForName idef.fields name).isSome then
        sugIfaces s name rest (if countOf cnt i = 0 then ifs ++ [i] else ifs, bumpCount i cnt)
      else sugIfaces s name rest (ifs, cnt)
    | none => sugIfaces s name rest (ifs, cnt)

/-- outer loop over `GetPossibleTypes(parent)`: (object types, interface types, usage count) -/
def sugTypes (s : SV) (name : Name) :
    List Name → List Name × List Name × List (Name × Nat) → List Name × List Name × List (Name × Nat)
  | [], acc => acc
  | t :: rest, (objs, ifs, cnt) =>
    match s.type? t with
    | some pt =>
      if (fieldForName pt.fields name).isSome then
        let r := sugIfaces s name pt.interfaces (ifs, cnt)
        sugTypes s name rest (objs ++ [pt.name], r.1, r.2)
      else sugTypes s name rest (objs, ifs, cnt)
    | none => sugTypes s name rest (objs, ifs, cnt)

/-- comparator of the `sort.SliceStable` call -/
def sugLess (cnt : List (Name × Nat)) (a b : Name) : Bool :=
  if countOf cnt b ≠ countOf cnt a then countOf cnt b < countOf cnt a else bytesLt a b

/-- `getSuggestedTypeNames` (`[]` stands for the nil result as well) -/
def getSuggestedTypeNames (s : SV) (parent : Definition) (name : Name) : List Name :=
  if !isAbstractType parent then []
  else
    let r := sugTypes s name (s.possible parent.name) ([], [], [])
    stableSort (fun a b => !sugLess r.2.2 b a) (r.2.1 ++ r.1)

/-- `getSuggestedFieldNames` -/
def getSuggestedFieldNames (parent : Definition) (name : Name) : List Name :=
  if parent.kind != .object && parent.kind != .interface then []
  else suggestionList name (parent.fields.map (·.name))

def fieldsOnCorrectTypeStep (s : SV) (_ : QueryDoc) (e : Event) : List RErr :=
  match e.p with
  | .field f (some parent) none =>
    let msg := str "Cannot query field " ++ dq f.name ++ str " on type " ++ dq parent.name ++ str "."
    let types := getSuggestedTypeNames s parent f.name
    let sugg :=
      if !types.isEmpty then str " Did you mean to use an inline fragment on " ++ quotedOrList types ++ str "?"
      else
        let fields := getSuggestedFieldNames parent f.name
        if !fields.isEmpty then str " Did you mean " ++ quotedOrList fields ++ str "?" else []
    [errAtS msg sugg f.pos]
  | _ => []

def fieldsOnCorrectType : Rule := Rule.stateless (str "FieldsOnCorrectType") fieldsOnCorrectTypeStep
def fieldsOnCorrectTypeWithoutSuggestions : Rule :=
  Rule.withoutSuggestions (str "FieldsOnCorrectTypeWithoutSuggestions") fieldsOnCorrectType

end Gql.Validate.Rules
