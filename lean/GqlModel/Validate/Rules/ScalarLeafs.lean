import GqlModel.Validate.Engine
/- rules/scalar_leafs.go -/
namespace Gql.Validate.Rules
open Gql Gql.Validate

def selEmpty : Selections → Bool
  | .nil => true
  | .cons _ _ => false

def scalarLeafsStep (s : SV) (_ : QueryDoc) (e : Event) : List RErr :=
  match e.p with
  | .field f _ (some fd) =>
    match s.type? fd.type.name with
    | none => []
    | some ft =>
      (if isLeafType ft && !selEmpty f.sel then
        [errAt (str "Field " ++ dq f.name ++ str " must not have a selection since type " ++ dq ft.name
          ++ str " has no subfields.") f.pos] else []) ++
      (if !isLeafType ft && selEmpty f.sel then
        [errAt (str "Field " ++ dq f.name ++ str " of type " ++ dq fd.type.render
          ++ str " must have a selection of subfields." ++ str " Did you mean \"" ++ f.name ++ str " { ... }\"?") f.pos]
       else [])
  | _ => []

def scalarLeafs : Rule := Rule.stateless (str "ScalarLeafs") scalarLeafsStep

end Gql.Validate.Rules
