import GqlModel.Validate.Engine
/- rules/known_type_names.go -/
namespace Gql.Validate.Rules
open Gql Gql.Validate

/-- Go ranges over the map `Schema.Types` (random order) to build the options; the model passes
    the type names sorted bytewise (DESIGN §7 R10) -/
def sortedTypeNames (s : Schema) : List Name := (s.types.map (·.2.name)).mergeSort fun a b => !bytesLt b a

def unknownType (n : Name) : Bytes := str "Unknown type " ++ dq n ++ str "."

def knownTypeNamesStep (s : Schema) (_ : QueryDoc) (e : Event) : List RErr :=
  match e.p with
  | .variable v _ =>
    match s.type? v.type.name with
    | some _ => []
    | none => [errAt (unknownType v.type.name) v.pos]
  | .inlineFragment f _ =>
    if f.typeCond == [] then []
    else match s.type? f.typeCond with
      | some _ => []
      | none => [errAt (unknownType f.typeCond) f.pos]
  | .fragment f _ =>
    match s.type? f.typeCond with
    | some _ => []
    | none =>
      [errAtS (unknownType f.typeCond) (suggestListQuoted (str "Did you mean") f.typeCond (sortedTypeNames s)) f.pos]
  | _ => []

def knownTypeNames : Rule := Rule.stateless (str "KnownTypeNames") knownTypeNamesStep
def knownTypeNamesWithoutSuggestions : Rule :=
  Rule.withoutSuggestions (str "KnownTypeNamesWithoutSuggestions") knownTypeNames

end Gql.Validate.Rules
