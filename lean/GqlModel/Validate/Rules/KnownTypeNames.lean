import GqlModel.Validate.Engine
/- rules/known_type_names.go -/
namespace Gql.Validate.Rules
open Gql Gql.Validate

/- Go ranges over the map `Schema.Types` (random order) to build the options; the model passes
   the type names sorted bytewise (`SV.typeNames`, DESIGN §7 R10) -/

def unknownType (n : Name) : Bytes := str "Unknown type " ++ dq n ++ str "."

def knownTypeNamesStep (s : SV) (_ : QueryDoc) (e : Event) : List RErr :=
  match e.p with
  | .variable v _ =>
    match s.type? v.type.name with
    | some _ => []
    | none => [errAt (unknownType v.type.name) v.pos]
  | .inlineFragment f _ =>
    if f.typeCond == [] then []
    else match s.type? f.typeCond with
      | some _ => []
      | none => [errAt (unknownType f.typeCond) f.pos]
  | .fragment f _ =>
    match s.type? f.typeCond with
    | some _ => []
    | none =>
      [errAtS (unknownType f.typeCond) (suggestListQuoted (str "Did you mean") f.typeCond s.typeNames) f.pos]
  | _ => []

def knownTypeNames : Rule := Rule.stateless (str "KnownTypeNames") knownTypeNamesStep
def knownTypeNamesWithoutSuggestions : Rule :=
  Rule.withoutSuggestions (str "KnownTypeNamesWithoutSuggestions") knownTypeNames

end Gql.Validate.Rules
