import GqlModel.Validate.Engine
/- rules/unique_directives_per_location.go — the exemption is `dir.Definition.IsRepeatable`
   (`dir.Definition = Schema.Directives[dir.Name]`, set by walkDirectives before the observers run) -/
namespace Gql.Validate.Rules
open Gql Gql.Validate

def dupDirectives (s : SV) : List Directive → List Name → List RErr
  | [], _ => []
  | d :: rest, seen =>
    (if !((s.directive? d.name).map (·.repeatable)).getD false && seen.contains d.name then
      [errAt (str "The directive \"@" ++ d.name ++ str "\" can only be used once at this location.") d.pos] else [])
      ++ dupDirectives s rest (d.name :: seen)

def uniqueDirectivesPerLocationStep (s : SV) (_ : QueryDoc) (e : Event) : List RErr :=
  match e.p with
  | .directiveList ds => dupDirectives s ds []
  | _ => []

def uniqueDirectivesPerLocation : Rule := Rule.stateless (str "UniqueDirectivesPerLocation") uniqueDirectivesPerLocationStep

end Gql.Validate.Rules
