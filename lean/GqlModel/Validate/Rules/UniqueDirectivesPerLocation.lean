import GqlModel.Validate.Engine
/- rules/unique_directives_per_location.go — note: the exemption tests the directive NAME
   `repeatable`, not `Definition.IsRepeatable` (DESIGN §7 R8a) -/
namespace Gql.Validate.Rules
open Gql Gql.Validate

def dupDirectives : List Directive → List Name → List RErr
  | [], _ => []
  | d :: rest, seen =>
    (if d.name != str "repeatable" && seen.contains d.name then
      [errAt (str "The directive \"@" ++ d.name ++ str "\" can only be used once at this location.") d.pos] else [])
      ++ dupDirectives rest (d.name :: seen)

def uniqueDirectivesPerLocationStep (_ : SV) (_ : QueryDoc) (e : Event) : List RErr :=
  match e.p with
  | .directiveList ds => dupDirectives ds []
  | _ => []

def uniqueDirectivesPerLocation : Rule := Rule.stateless (str "UniqueDirectivesPerLocation") uniqueDirectivesPerLocationStep

end Gql.Validate.Rules
