import GqlModel.Validate.Engine
/- rules/no_unused_variables.go -/
namespace Gql.Validate.Rules
open Gql Gql.Validate

def unusedVars (opName : Name) : List VarDef → List Bool → List RErr
  | v :: vs, u :: us =>
    if u then unusedVars opName vs us
    else if opName != [] then
      errAt (str "Variable \"$" ++ v.var ++ str "\" is never used in operation " ++ dq opName ++ str ".") v.pos
        :: unusedVars opName vs us
    else errAt (str "Variable \"$" ++ v.var ++ str "\" is never used.") v.pos :: unusedVars opName vs us
  | _, _ => []

def noUnusedVariablesStep (_ : SV) (_ : QueryDoc) (e : Event) : List RErr :=
  match e.p with
  | .operation op used => unusedVars op.name op.vars used
  | _ => []

def noUnusedVariables : Rule := Rule.stateless (str "NoUnusedVariables") noUnusedVariablesStep

end Gql.Validate.Rules
