import GqlModel.Validate.Engine
/-
  rules/max_introspection_depth.go

  `checkDepthFragmentSpread` adds the fragment name to `visitedFragments` for the duration of the
  visit only (`defer delete`), so the set is exactly the chain of fragments being visited: it is
  passed down functionally.  The `cleared` memo (repair of DESIGN §7 R2c: a fragment explored
  completely from some depth without reaching the limit is skipped at that depth or a smaller
  one) persists across siblings, so it is threaded through the results.  The jump into a fragment definition is again the parameter of the structural
  functions; `depthLevel n` allows `n - 1` nested jumps (the chain has pairwise distinct names).
-/
namespace Gql.Validate.Rules
open Gql Gql.Validate

def maxListsDepth : Nat := 3

def isListField (nm : Name) : Bool :=
  nm == str "fields" || nm == str "interfaces" || nm == str "possibleTypes" || nm == str "inputFields"

/-- `introspectionDepthState.cleared`: for fragments explored completely, the deepest starting
    depth from which the limit was not reached (first entry for a name wins) -/
abbrev Cleared := List (Name × Nat)

/-- visited chain → depth → cleared → fragment body → result (`none` = out of fuel) -/
abbrev DJump := List Name → Nat → Cleared → Selections → Option (Bool × Cleared)

/-- already explored from at least this depth without reaching the limit -/
def clearedSkip (cl : Cleared) (nm : Name) (depth : Nat) : Bool :=
  match cl.lookup nm with
  | some at_ => decide (depth ≤ at_)
  | none => false

/-- remember a completed exploration (keeps the deepest starting depth) -/
def clearedUpdate (cl : Cleared) (nm : Name) (depth : Nat) : Cleared :=
  match cl.lookup nm with
  | some at_ => if depth > at_ then (nm, depth) :: cl else cl
  | none => (nm, depth) :: cl

mutual
  def checkDepthSelection (l : Links) (d : QueryDoc) (jump : DJump) (visited : List Name) (depth : Nat)
      (cl : Cleared) : Selection → Option (Bool × Cleared)
    | .field _ nm _ _ sub _ =>
      -- checkDepthField
      if isListField nm then
        if depth + 1 ≥ maxListsDepth then some (true, cl)
        else checkDepthSelections l d jump visited (depth + 1) cl sub
      else checkDepthSelections l d jump visited depth cl sub
    | .spread nm _ p =>
      -- checkDepthFragmentSpread
      if visited.contains nm then some (false, cl)
      else if clearedSkip cl nm depth then some (false, cl)
      else match l.spreadDef d nm p with
        | none => some (false, cl)
        | some f =>
          match jump (nm :: visited) depth cl f.sel with
          | none => none
          | some (true, cl') => some (true, cl')
          | some (false, cl') =>
            some (false, clearedUpdate cl' nm depth)
    | .inline _ _ sub _ => checkDepthSelections l d jump visited depth cl sub
  def checkDepthSelections (l : Links) (d : QueryDoc) (jump : DJump) (visited : List Name) (depth : Nat)
      (cl : Cleared) : Selections → Option (Bool × Cleared)
    | .nil => some (false, cl)
    | .cons x rest =>
      match checkDepthSelection l d jump visited depth cl x with
      | none => none
      | some (true, cl') => some (true, cl')
      | some (false, cl') => checkDepthSelections l d jump visited depth cl' rest
end

def depthLevel (l : Links) (d : QueryDoc) : Nat → DJump
  | 0 => fun _ _ _ _ => none
  | n + 1 => fun visited depth cl sels => checkDepthSelections l d (depthLevel l d n) visited depth cl sels

def outOfFuelMsg : Bytes := str "model: out of fuel"

def maxIntrospectionDepthStep (_ : SV) (d : QueryDoc) (e : Event) : Except Bytes (List RErr) :=
  match e.p with
  | .field f _ _ =>
    if f.name == str "__schema" || f.name == str "__type" then
      match checkDepthSelection e.links d (depthLevel e.links d (d.frags.length + 1)) [] 0 []
          (.field f.alias f.name f.args f.dirs f.sel f.pos) with
      | none => .error outOfFuelMsg
      | some (true, _) => .ok [errAt (str "Maximum introspection depth exceeded") f.pos]
      | some (false, _) => .ok []
    else .ok []
  | _ => .ok []

def maxIntrospectionDepth : Rule := Rule.statelessP (str "MaxIntrospectionDepth") maxIntrospectionDepthStep

end Gql.Validate.Rules
