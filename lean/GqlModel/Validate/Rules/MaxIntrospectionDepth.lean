import GqlModel.Validate.Engine
/-
  rules/max_introspection_depth.go

  `checkDepthFragmentSpread` adds the fragment name to `visitedFragments` for the duration of the
  visit only (`defer delete`), so the set is exactly the chain of fragments being visited: it is
  passed down functionally.  A fragment is re-explored every time it is reached on a different
  path — the running time is exponential in the document size (DESIGN §7 R2c), and so is the
  model's.  The jump into a fragment definition is again the parameter of the structural
  functions; `depthLevel n` allows `n - 1` nested jumps (the chain has pairwise distinct names).
-/
namespace Gql.Validate.Rules
open Gql Gql.Validate

def maxListsDepth : Nat := 3

def isListField (nm : Name) : Bool :=
  nm == str "fields" || nm == str "interfaces" || nm == str "possibleTypes" || nm == str "inputFields"

/-- visited chain → depth → fragment body → result (`none` = out of fuel) -/
abbrev DJump := List Name → Nat → Selections → Option Bool

mutual
  def checkDepthSelection (l : Links) (d : QueryDoc) (jump : DJump) (visited : List Name) (depth : Nat) :
      Selection → Option Bool
    | .field _ nm _ _ sub _ =>
      -- checkDepthField
      if isListField nm then
        if depth + 1 ≥ maxListsDepth then some true
        else checkDepthSelections l d jump visited (depth + 1) sub
      else checkDepthSelections l d jump visited depth sub
    | .spread nm _ p =>
      -- checkDepthFragmentSpread
      if visited.contains nm then some false
      else match l.spreadDef d nm p with
        | none => some false
        | some f => jump (nm :: visited) depth f.sel
    | .inline _ _ sub _ => checkDepthSelections l d jump visited depth sub
  def checkDepthSelections (l : Links) (d : QueryDoc) (jump : DJump) (visited : List Name) (depth : Nat) :
      Selections → Option Bool
    | .nil => some false
    | .cons x rest =>
      match checkDepthSelection l d jump visited depth x with
      | none => none
      | some true => some true
      | some false => checkDepthSelections l d jump visited depth rest
end

def depthLevel (l : Links) (d : QueryDoc) : Nat → DJump
  | 0 => fun _ _ _ => none
  | n + 1 => fun visited depth sels => checkDepthSelections l d (depthLevel l d n) visited depth sels

def outOfFuelMsg : Bytes := str "model: out of fuel"

def maxIntrospectionDepthStep (_ : SV) (d : QueryDoc) (e : Event) : Except Bytes (List RErr) :=
  match e.p with
  | .field f _ _ =>
    if f.name == str "__schema" || f.name == str "__type" then
      match checkDepthSelection e.links d (depthLevel e.links d (d.frags.length + 1)) [] 0
          (.field f.alias f.name f.args f.dirs f.sel f.pos) with
      | none => .error outOfFuelMsg
      | some true => .ok [errAt (str "Maximum introspection depth exceeded") f.pos]
      | some false => .ok []
    else .ok []
  | _ => .ok []

def maxIntrospectionDepth : Rule := Rule.statelessP (str "MaxIntrospectionDepth") maxIntrospectionDepthStep

end Gql.Validate.Rules
