import GqlModel.Validate.Engine
/- rules/unique_variable_names.go -/
namespace Gql.Validate.Rules
open Gql Gql.Validate

def dupVars : List VarDef → List Name → List RErr
  | [], _ => []
  | v :: rest, seen =>
    (if seen.count v.var = 1 then [errAt (str "There can be only one variable named \"$" ++ v.var ++ str "\".") v.pos] else [])
      ++ dupVars rest (v.var :: seen)

def uniqueVariableNamesStep (_ : SV) (_ : QueryDoc) (e : Event) : List RErr :=
  match e.p with
  | .operation op _ => dupVars op.vars []
  | _ => []

def uniqueVariableNames : Rule := Rule.stateless (str "UniqueVariableNames") uniqueVariableNamesStep

end Gql.Validate.Rules
