import GqlModel.Validate.Engine
/- rules/fragments_on_composite_types.go -/
namespace Gql.Validate.Rules
open Gql Gql.Validate

def fragmentsOnCompositeTypesStep (s : SV) (_ : QueryDoc) (e : Event) : List RErr :=
  match e.p with
  | .inlineFragment f _ =>
    match s.type? f.typeCond with
    | none => []
    | some t =>
      if isCompositeType t then []
      else [errAt (str "Fragment cannot condition on non composite type " ++ dq f.typeCond ++ str ".") f.pos]
  | .fragment f (some t) =>
    if f.typeCond == [] || isCompositeType t then []
    else [errAt (str "Fragment " ++ dq f.name ++ str " cannot condition on non composite type " ++ dq f.typeCond ++ str ".") f.pos]
  | _ => []

def fragmentsOnCompositeTypes : Rule := Rule.stateless (str "FragmentsOnCompositeTypes") fragmentsOnCompositeTypesStep

end Gql.Validate.Rules
