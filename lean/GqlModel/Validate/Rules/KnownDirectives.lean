import GqlModel.Validate.Engine
/- rules/known_directives.go -/
namespace Gql.Validate.Rules
open Gql Gql.Validate

/-- the `seen` map of `mayNotBeUsedDirective{Name, Line, Column}` keys -/
abbrev KDState := List (Name × Nat × Int)

def knownDirectivesStep (_ : SV) (_ : QueryDoc) (seen : KDState) (e : Event) : StepOut KDState :=
  match e.p with
  | .directive d none _ _ => .ok seen [errAt (str "Unknown directive \"@" ++ d.name ++ str "\".") d.pos]
  | .directive d (some dd) _ loc =>
    if dd.locations.contains loc then .ok seen []
    else
      let key := (d.name, d.pos.line, d.pos.col)
      if seen.contains key then .ok seen []
      else .ok (key :: seen)
        [errAt (str "Directive \"@" ++ d.name ++ str "\" may not be used on " ++ loc ++ str ".") d.pos]
  | _ => .ok seen []

def knownDirectives : Rule :=
  { name := str "KnownDirectives", σ := KDState, init := [], step := knownDirectivesStep }

end Gql.Validate.Rules
