import GqlModel.Validate.Engine
/- rules/known_argument_names.go -/
namespace Gql.Validate.Rules
open Gql Gql.Validate

def unknownArgs (defs : List ArgDef) (mk : Name → Bytes) (p : Pos) : List Argument → List RErr
  | [] => []
  | a :: rest =>
    match argDefForName defs a.name with
    | some _ => unknownArgs defs mk p rest
    | none =>
      errAtS (mk a.name) (suggestListQuoted (str "Did you mean") a.name (defs.map (·.name))) p :: unknownArgs defs mk p rest

def knownArgumentNamesStep (_ : SV) (_ : QueryDoc) (e : Event) : List RErr :=
  match e.p with
  | .field f (some parent) (some fd) =>
    unknownArgs fd.args
      (fun a => str "Unknown argument " ++ dq a ++ str " on field \"" ++ parent.name ++ str "." ++ f.name ++ str "\".") f.pos f.args
  | .directive d (some dd) _ _ =>
    unknownArgs dd.args
      (fun a => str "Unknown argument " ++ dq a ++ str " on directive \"@" ++ d.name ++ str "\".") d.pos d.args
  | _ => []

def knownArgumentNames : Rule := Rule.stateless (str "KnownArgumentNames") knownArgumentNamesStep
def knownArgumentNamesWithoutSuggestions : Rule :=
  Rule.withoutSuggestions (str "KnownArgumentNamesWithoutSuggestions") knownArgumentNames

end Gql.Validate.Rules
