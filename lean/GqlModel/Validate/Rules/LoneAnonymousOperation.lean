import GqlModel.Validate.Engine
/- rules/lone_anonymous_operation.go -/
namespace Gql.Validate.Rules
open Gql Gql.Validate

def loneAnonymousOperationStep (_ : SV) (d : QueryDoc) (e : Event) : List RErr :=
  match e.p with
  | .operation op _ =>
    if op.name == [] && d.ops.length > 1 then
      [errAt (str "This anonymous operation must be the only defined operation.") op.pos]
    else []
  | _ => []

def loneAnonymousOperation : Rule := Rule.stateless (str "LoneAnonymousOperation") loneAnonymousOperationStep

end Gql.Validate.Rules
