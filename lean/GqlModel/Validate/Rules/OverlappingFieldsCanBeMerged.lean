import GqlModel.Validate.Engine
/-
  rules/overlapping_fields_can_be_merged.go  (the POLYNOMIAL repair: the manager keeps, besides the
  fragment-pair memo `comparedFragmentPairs`, the memo `comparedFieldsAndFragmentPairs` of the
  (selection set, fragment name, exclusive) comparisons already made or under way during the
  current `findConflictsWithinSelectionSet` call (it is made afresh for every such call);
  `collectConflictsBetweenFieldsAndFragment` consults it first thing; there is no per-call
  `comparedFragments` map and no in-progress set in `findConflict` any more; "do not compare a
  fragment's fieldMap to itself" is an identity test; `sameValue` compares `Children`;
  `doTypesConflict` tests nullability first, guards nil types and treats a leaf type as
  conflicting with every type but itself).

  Links.  The rule reads `Field.ObjectDefinition`, `Field.Definition` and
  `FragmentSpread.Definition` of nodes OTHER than the one the event is about.  The two field links
  are a function of the static context of the node (the walker assigns `parentDef` and
  `parentDef.Fields.ForName(name)` — or the synthetic `__typename` definition — and the parent of
  a node is the same on every route by which the walker reaches it: root type of the operation /
  type condition of the fragment definition, changed by inline fragments and fields on the way
  down) *once the walker has reached the node*; before that both are nil.  The model therefore
  carries the static parent down while it collects fields (`collectFields`) and reads "already
  linked" from the event's snapshot of the side table (`Links.linked`), exactly as
  `Links.spreadDef` does for spreads.

  Node identity.  Go keys `comparedFieldsAndFragmentPairs` by `sequentialFieldsMap.first`, the
  first `ast.Selection` of the selection set the fields were collected from (an interface value
  holding the node pointer; nil for an empty selection set), and compares two field maps by
  `fieldsMap.first == fieldsMapB.first`.  ASSUMPTION (checked by the harness on every document of
  X-overlap, `overlap-selection-identity`): in a parsed document (a) distinct selection nodes
  (fields, spreads, inline fragments) have distinct `Position.Start` — DESIGN §4 "Node identity",
  the assumption `Links.sels` already rests on — and (b) a node is the first element of at most one
  selection set (the document is a tree).  Under it
      first₁ == first₂  ⇔  both selection sets are empty or they are the same selection set
                        ⇔  `selId sels₁ = selId sels₂`      (`selId` = `pos.start` of the first node).

  Totality.  Three recursions are not structural:
  * `findConflict → findConflictsBetweenSubSelectionSets → … → findConflict` — the knot is tied by
    `fcLevel` (recursion on the number of nested `findConflict` calls still allowed);
  * the (E) recursion `collectConflictsBetweenFieldsAndFragment → itself` (`chain`, own fuel);
  * the (G) recursion of `collectConflictsBetweenFragments.check` (`check`, own fuel).
  `none` = out of fuel.  The state `OSt` carries the two memos and a GHOST counter `steps` (calls
  of `findConflict`, `collectConflictsBetweenFieldsAndFragment` and `check` so far) that nothing
  reads; `GqlProofs/Validate/Overlap*.lean` proves that the fuel handed out by `overlapRun` is
  never exhausted and that `steps` grows by at most `overlapStepBound` per observer call: every
  memo key is expanded at most once, an expansion costs at most `W = (N+1)²` steps (`N` = field
  and spread nodes reachable), and what `findConflict` does without a memo descends the tree on
  both sides.
-/
namespace Gql.Validate.Rules
open Gql Gql.Validate

/- ---------------- values, arguments, types ---------------- -/

/-- first child named `n` (the inner loop of `sameValue` for object values) -/
def findChild : Children → Name → Option Value
  | .nil, _ => none
  | .cons n v _ rest, k => if n == k then some v else findChild rest k

def childrenTail : Children → Children
  | .nil => .nil
  | .cons _ _ _ rest => rest

mutual
  /-- `sameValue` -/
  def sameValue : Value → Value → Bool
    | .mk k1 r1 c1 _, v2 =>
      k1 == v2.kind && r1 == v2.raw && c1.length == v2.children.length &&
        sameChildren (k1 == .object) c1 v2.children v2.children
  /-- the loop over `value1.Children`: `rest2` is `value2.Children[i:]`, `all2` is `value2.Children` -/
  def sameChildren (obj : Bool) : Children → Children → Children → Bool
    | .nil, _, _ => true
    | .cons n1 v1 _ rest1, rest2, all2 =>
      let here : Bool :=
        if obj then
          match findChild all2 n1 with
          | none => false
          | some v2 => sameValue v1 v2
        else
          match rest2 with
          | .nil => false      -- unreachable: the lengths are equal
          | .cons _ v2 _ _ => sameValue v1 v2
      here && sameChildren obj rest1 (childrenTail rest2) all2
end

/-- `sameArguments` -/
def sameArguments (args1 args2 : List Argument) : Bool :=
  args1.length == args2.length &&
    args1.all fun a1 => args2.any fun a2 => a1.name == a2.name && sameValue a1.value a2.value

/-- `doTypesConflict` -/
def doTypesConflict (s : SV) : GType → GType → Bool
  | .list e1 nn1 _, .list e2 nn2 _ => if nn1 != nn2 then true else doTypesConflict s e1 e2
  | .list _ _ _, .named _ _ _ => true
  | .named _ _ _, .list _ _ _ => true
  | .named n1 nn1 _, .named n2 nn2 _ =>
    if nn1 != nn2 then true
    else
      match s.type? n1, s.type? n2 with
      | some t1, some t2 => if isLeafType t1 || isLeafType t2 then t1.name != t2.name else false
      | _, _ => false

/- ---------------- collected fields ---------------- -/

/-- a `*ast.Field` found by `getFieldsAndFragmentNames`, with the links the walker assigns to it
    (`sparent`/`sdfn`) and whether it has assigned them yet (`linked`) -/
structure FInfo where
  node : FieldNode
  sparent : Option Definition
  sdfn : Option FieldDef
  linked : Bool
  deriving Inhabited

/-- `field.ObjectDefinition` -/
def FInfo.obj (f : FInfo) : Option Definition := if f.linked then f.sparent else none
/-- `field.Definition` -/
def FInfo.dfn (f : FInfo) : Option FieldDef := if f.linked then f.sdfn else none
/-- the parent definition of the nodes of `field.SelectionSet` -/
def FInfo.next (s : SV) (f : FInfo) : Option Definition := f.sdfn.bind fun fd => s.type? fd.type.name
/-- node identity -/
def FInfo.key (f : FInfo) : Nat := f.node.pos.start

def responseName (f : FieldNode) : Name := if f.alias != [] then f.alias else f.name

/-- the walker's choice of `Field.Definition` -/
def staticFieldDef (parent : Option Definition) (nm : Name) : Option FieldDef :=
  if nm == nameTypename then some typenameDef
  else match parent with
    | some pd => fieldForName pd.fields nm
    | none => none

/-- the walker's `nextParentDef` of an inline fragment -/
def inlineNext (s : SV) (parent : Option Definition) (tc : Name) : Option Definition :=
  if tc != [] then s.type? tc else parent

mutual
  /-- the fields of `getFieldsAndFragmentNames.walk`, in the order in which they are pushed -/
  def collectFields (s : SV) (l : Links) (parent : Option Definition) : Selections → List FInfo
    | .nil => []
    | .cons x rest => collectFieldsSel s l parent x ++ collectFields s l parent rest
  def collectFieldsSel (s : SV) (l : Links) (parent : Option Definition) : Selection → List FInfo
    | .field al nm args dirs sub p =>
      [{ node := ⟨al, nm, args, dirs, sub, p⟩, sparent := parent, sdfn := staticFieldDef parent nm,
         linked := l.linked p.start }]
    | .inline tc _ sub _ => collectFields s l (inlineNext s parent tc) sub
    | .spread _ _ _ => []
end

mutual
  /-- the fragment spreads of `getFieldsAndFragmentNames.walk`, in order -/
  def collectSpreads : Selections → List SpreadNode
    | .nil => []
    | .cons x rest => collectSpreadsSel x ++ collectSpreads rest
  def collectSpreadsSel : Selection → List SpreadNode
    | .field _ _ _ _ _ _ => []
    | .inline _ _ sub _ => collectSpreads sub
    | .spread nm dirs p => [⟨nm, dirs, p⟩]
end

/-- `sequentialFieldsMap`: response names in order of first occurrence, each with its fields in
    push order -/
abbrev FMap := List (Name × List FInfo)

/-- `sequentialFieldsMap.Push` -/
def fmPush (rn : Name) (f : FInfo) : FMap → FMap
  | [] => [(rn, [f])]
  | (k, fs) :: rest => if k == rn then (k, fs ++ [f]) :: rest else (k, fs) :: fmPush rn f rest

def fmOfList (fs : List FInfo) : FMap := fs.foldl (fun m f => fmPush (responseName f.node) f m) []

/-- `sequentialFieldsMap.Get` -/
def fmGet (m : FMap) (rn : Name) : Option (List FInfo) := m.lookup rn

/-- identity of a selection set: its first selection node (`sequentialFieldsMap.first`), `none`
    for the empty selection set -/
def selId : Selections → Option Nat
  | .nil => none
  | .cons x _ => some x.pos.start

/-- `*sequentialFieldsMap`: the fields with the identity of the selection set they come from -/
structure FM where
  first : Option Nat
  map : FMap
  deriving Inhabited

/-- `getFieldsAndFragmentNames` -/
def getFieldsAndFragmentNames (s : SV) (l : Links) (parent : Option Definition) (sels : Selections) :
    FM × List SpreadNode :=
  ({ first := selId sels, map := fmOfList (collectFields s l parent sels) }, collectSpreads sels)

/- ---------------- conflicts ---------------- -/

/-- `ConflictMessage` (`Names` is never used) -/
inductive Conflict
  | mk (responseName : Bytes) (message : Bytes) (subs : List Conflict) (pos : Pos)
  deriving Inhabited

def Conflict.responseName : Conflict → Bytes | .mk rn _ _ _ => rn
def Conflict.pos : Conflict → Pos | .mk _ _ _ p => p

def subfieldsOpen := str "subfields \""
def conflictBecause := str "\" conflict because "
def andSep := str " and "

mutual
  /-- `ConflictMessage.String` -/
  def Conflict.render : Conflict → Bytes
    | .mk _ msg [] _ => msg
    | .mk _ _ (c :: cs) _ => Conflict.renderSubs (c :: cs)
  def Conflict.renderSubs : List Conflict → Bytes
    | [] => []
    | [c] => subfieldsOpen ++ c.responseName ++ conflictBecause ++ c.render
    | c :: c' :: cs =>
      subfieldsOpen ++ c.responseName ++ conflictBecause ++ c.render ++ andSep ++ Conflict.renderSubs (c' :: cs)
end

def msgFieldsOpen := str "Fields \""
def msgUseAliases := str ". Use different aliases on the fields to fetch both if this was intentional."
def msgDifferentFields := str " are different fields"
def msgDifferingArguments := str "they have differing arguments"
def msgConflictingTypes := str "they return conflicting types "

/-- `addFieldsConflictMessage` -/
def Conflict.toErr (c : Conflict) : RErr :=
  errAt (msgFieldsOpen ++ c.responseName ++ conflictBecause ++ c.render ++ msgUseAliases) c.pos

/- ---------------- manager state ---------------- -/

/-- `pairSet` (`map[string]map[string]bool`) as an association list, most recent binding first -/
abbrev Pairs := List ((Name × Name) × Bool)

/-- `pairSet.Add` -/
def Pairs.add (p : Pairs) (a b : Name) (excl : Bool) : Pairs := ((b, a), excl) :: ((a, b), excl) :: p

/-- `pairSet.Has` -/
def Pairs.has (p : Pairs) (a b : Name) (excl : Bool) : Bool :=
  match p.lookup (a, b) with
  | none => false
  | some result => if !excl then !result else true

/-- `fieldsAndFragmentPair`: (identity of the selection set, fragment name, exclusive) -/
abbrev FragKey := Option Nat × Name × Bool

/-- the manager: `comparedFragmentPairs` (per rule instance), `comparedFieldsAndFragmentPairs` (the
    keys present; reset by every `findConflictsWithinSelectionSet`), and the ghost step counter -/
structure OSt where
  pairs : Pairs
  seen : List FragKey
  steps : Nat
  deriving Inhabited

def OSt.init : OSt := { pairs := [], seen := [], steps := 0 }

def OSt.tick (st : OSt) : OSt := { st with steps := st.steps + 1 }

/-- `findConflict` as the collectors see it: `none` = out of fuel, otherwise the new manager state
    and the conflict (if any) -/
abbrev FC := Bool → FInfo → FInfo → OSt → Option (OSt × Option Conflict)

def optToList {α : Type} : Option α → List α
  | none => []
  | some a => [a]

/-- `for _, fieldB := range fieldsB { findConflict(excl, fieldA, fieldB) }` -/
def pairRow (fc : FC) (excl : Bool) (fa : FInfo) : List FInfo → OSt → Option (OSt × List Conflict)
  | [], st => some (st, [])
  | fb :: rest, st =>
    match fc excl fa fb st with
    | none => none
    | some (st1, c) =>
      match pairRow fc excl fa rest st1 with
      | none => none
      | some (st2, cs) => some (st2, optToList c ++ cs)

/-- `for _, fieldA := range fieldsA { for _, fieldB := range fieldsB { … } }` -/
def pairGrid (fc : FC) (excl : Bool) (fsB : List FInfo) : List FInfo → OSt → Option (OSt × List Conflict)
  | [], st => some (st, [])
  | fa :: rest, st =>
    match pairRow fc excl fa fsB st with
    | none => none
    | some (st1, cs1) =>
      match pairGrid fc excl fsB rest st1 with
      | none => none
      | some (st2, cs2) => some (st2, cs1 ++ cs2)

/-- `collectConflictsBetween` -/
def collectConflictsBetween (fc : FC) (excl : Bool) (B : FMap) : FMap → OSt → Option (OSt × List Conflict)
  | [], st => some (st, [])
  | (rn, fsA) :: rest, st =>
    match fmGet B rn with
    | none => collectConflictsBetween fc excl B rest st
    | some fsB =>
      match pairGrid fc excl fsB fsA st with
      | none => none
      | some (st1, cs1) =>
        match collectConflictsBetween fc excl B rest st1 with
        | none => none
        | some (st2, cs2) => some (st2, cs1 ++ cs2)

/-- `for idx, fieldA := range fields { for _, fieldB := range fields[idx+1:] { … } }` -/
def pairTriangle (fc : FC) : List FInfo → OSt → Option (OSt × List Conflict)
  | [], st => some (st, [])
  | fa :: rest, st =>
    match pairRow fc false fa rest st with
    | none => none
    | some (st1, cs1) =>
      match pairTriangle fc rest st1 with
      | none => none
      | some (st2, cs2) => some (st2, cs1 ++ cs2)

/-- `collectConflictsWithin` -/
def collectConflictsWithin (fc : FC) : FMap → OSt → Option (OSt × List Conflict)
  | [], st => some (st, [])
  | (_, fs) :: rest, st =>
    match pairTriangle fc fs st with
    | none => none
    | some (st1, cs1) =>
      match collectConflictsWithin fc rest st1 with
      | none => none
      | some (st2, cs2) => some (st2, cs1 ++ cs2)

/-- the parameters that do not change during one `findConflictsWithinSelectionSet` call -/
structure Env where
  s : SV
  d : QueryDoc
  l : Links
  /-- frames handed to every (E) recursion -/
  chainFuel : Nat
  /-- frames handed to every `check` recursion -/
  checkFuel : Nat

/-- fields and spreads of `fragmentSpread.Definition.SelectionSet` -/
def Env.fragFields (env : Env) (f : FragmentDef) : FM × List SpreadNode :=
  getFieldsAndFragmentNames env.s env.l (env.s.type? f.typeCond) f.sel

/-- a loop `for _, x := range xs { step(x) }` threading the manager state and the conflicts -/
def stLoop {α : Type} (step : α → OSt → Option (OSt × List Conflict)) :
    List α → OSt → Option (OSt × List Conflict)
  | [], st => some (st, [])
  | x :: rest, st =>
    match step x st with
    | none => none
    | some (st1, cs1) =>
      match stLoop step rest st1 with
      | none => none
      | some (st2, cs2) => some (st2, cs1 ++ cs2)

/-- `collectConflictsBetweenFieldsAndFragment` -/
def chain (env : Env) (fc : FC) (excl : Bool) (A : FM) : Nat → SpreadNode → OSt → Option (OSt × List Conflict)
  | 0, _, _ => none
  | n + 1, sp, st0 =>
    let st := st0.tick
    let key : FragKey := (A.first, sp.name, excl)
    if st.seen.contains key then some (st, [])
    else
      let st1 : OSt := { st with seen := key :: st.seen }
      match env.l.spreadDef env.d sp.name sp.pos with
      | none => some (st1, [])
      | some f =>
        let fb := env.fragFields f
        if A.first == fb.1.first then some (st1, [])
        else
          match collectConflictsBetween fc excl fb.1.map A.map st1 with
          | none => none
          | some (st2, cs1) =>
            match stLoop (chain env fc excl A n) (fb.2.filter fun x => x.name != sp.name) st2 with
            | none => none
            | some (st3, cs2) => some (st3, cs1 ++ cs2)

/-- `collectConflictsBetweenFragments.check` -/
def check (env : Env) (fc : FC) (excl : Bool) : Nat → SpreadNode → SpreadNode → OSt → Option (OSt × List Conflict)
  | 0, _, _, _ => none
  | n + 1, a, b, st0 =>
    let st := st0.tick
    if a.name == b.name then some (st, [])
    else if st.pairs.has a.name b.name excl then some (st, [])
    else
      let st1 : OSt := { st with pairs := st.pairs.add a.name b.name excl }
      match env.l.spreadDef env.d a.name a.pos, env.l.spreadDef env.d b.name b.pos with
      | some fa, some fb =>
        let A := env.fragFields fa
        let B := env.fragFields fb
        match collectConflictsBetween fc excl B.1.map A.1.map st1 with
        | none => none
        | some (st2, cs1) =>
          match stLoop (fun x => check env fc excl n a x) B.2 st2 with
          | none => none
          | some (st3, cs2) =>
            match stLoop (fun x => check env fc excl n x b) A.2 st3 with
            | none => none
            | some (st4, cs3) => some (st4, cs1 ++ cs2 ++ cs3)
      | _, _ => some (st1, [])

/-- `collectConflictsBetweenFragments` -/
def collectConflictsBetweenFragments (env : Env) (fc : FC) (excl : Bool)
    (a b : SpreadNode) (st : OSt) : Option (OSt × List Conflict) :=
  check env fc excl env.checkFuel a b st

/-- `collectConflictsBetweenFieldsAndFragment` as the callers see it -/
def fieldsAndFragment (env : Env) (fc : FC) (excl : Bool) (A : FM) (sp : SpreadNode) (st : OSt) :
    Option (OSt × List Conflict) :=
  chain env fc excl A env.chainFuel sp st

/-- `findConflictsBetweenSubSelectionSets` (returns the conflict list, `[]` for Go's nil) -/
def findConflictsBetweenSubSelectionSets (env : Env) (fc : FC) (excl : Bool) (a b : FInfo)
    (st : OSt) : Option (OSt × List Conflict) :=
  let A := getFieldsAndFragmentNames env.s env.l (a.next env.s) a.node.sel
  let B := getFieldsAndFragmentNames env.s env.l (b.next env.s) b.node.sel
  -- (H)
  match collectConflictsBetween fc excl B.1.map A.1.map st with
  | none => none
  | some (st1, cs1) =>
    -- (I)
    match stLoop (fieldsAndFragment env fc excl A.1) B.2 st1 with
    | none => none
    | some (st2, cs2) =>
      match stLoop (fieldsAndFragment env fc excl B.1) A.2 st2 with
      | none => none
      | some (st3, cs3) =>
        -- (J)
        match stLoop (fun sa => stLoop (collectConflictsBetweenFragments env fc excl sa) B.2) A.2 st3 with
        | none => none
        | some (st4, cs4) => some (st4, cs1 ++ cs2 ++ cs3 ++ cs4)

def typesConflictMsg (ta tb : GType) : Bytes :=
  msgConflictingTypes ++ dq ta.render ++ andSep ++ dq tb.render

/-- `findConflict`, with `sub` for the call of `findConflictsBetweenSubSelectionSets` -/
def findConflictBody (s : SV)
    (sub : Bool → FInfo → FInfo → OSt → Option (OSt × List Conflict)) : FC :=
  fun parentExcl a b st0 =>
    let st := st0.tick
    match a.obj, b.obj with
    | some oa, some ob =>
      let excl := parentExcl ||
        (oa.name != ob.name && oa.kind == .object && ob.kind == .object && a.dfn.isSome && b.dfn.isSome)
      let rn := responseName a.node
      if !excl && a.node.name != b.node.name then
        some (st, some (.mk rn (dq a.node.name ++ andSep ++ dq b.node.name ++ msgDifferentFields) [] b.node.pos))
      else if !excl && !sameArguments a.node.args b.node.args then
        some (st, some (.mk rn msgDifferingArguments [] b.node.pos))
      else
        let tc : Option (GType × GType) := match a.dfn, b.dfn with
          | some da, some db => if doTypesConflict s da.type db.type then some (da.type, db.type) else none
          | _, _ => none
        match tc with
        | some (ta, tb) => some (st, some (.mk rn (typesConflictMsg ta tb) [] b.node.pos))
        | none =>
          match sub excl a b st with
          | none => none
          | some (st1, []) => some (st1, none)
          | some (st1, c :: cs) => some (st1, some (.mk rn [] (c :: cs) b.node.pos))
    | _, _ => some (st, none)

/-- `findConflict` with at most `n - 1` nested `findConflict` calls below it -/
def fcLevel (env : Env) : Nat → FC
  | 0 => fun _ _ _ _ => none
  | n + 1 => findConflictBody env.s (findConflictsBetweenSubSelectionSets env (fcLevel env n))

/-- the (B)/(C) loops of `findConflictsWithinSelectionSet` -/
def withinLoop (env : Env) (fc : FC) (A : FM) : List SpreadNode → OSt → Option (OSt × List Conflict)
  | [], st => some (st, [])
  | sa :: rest, st =>
    match fieldsAndFragment env fc false A sa st with
    | none => none
    | some (st1, cs1) =>
      match stLoop (collectConflictsBetweenFragments env fc false sa) rest st1 with
      | none => none
      | some (st2, cs2) =>
        match withinLoop env fc A rest st2 with
        | none => none
        | some (st3, cs3) => some (st3, cs1 ++ cs2 ++ cs3)

def selsEmpty : Selections → Bool
  | .nil => true
  | .cons _ _ => false

/-- `findConflictsWithinSelectionSet`: the memo of (selection set, fragment) comparisons is made
    afresh for every top-level comparison (the walker links fields as it goes, so a comparison made
    for an earlier observer call may have seen fields that were not linked yet) -/
def findConflictsWithinSelectionSet (env : Env) (fc : FC) (parent : Option Definition) (sels : Selections)
    (st0 : OSt) : Option (OSt × List Conflict) :=
  if selsEmpty sels then some (st0, [])
  else
    let st : OSt := { st0 with seen := [] }
    let A := getFieldsAndFragmentNames env.s env.l parent sels
    match collectConflictsWithin fc A.1.map st with
    | none => none
    | some (st1, cs1) =>
      match withinLoop env fc A.1 A.2 st1 with
      | none => none
      | some (st2, cs2) => some (st2, cs1 ++ cs2)

/- ---------------- fuel and cost ---------------- -/

mutual
  /-- number of field nodes of a selection set -/
  def countFields : Selections → Nat
    | .nil => 0
    | .cons x rest => countFieldsSel x + countFields rest
  def countFieldsSel : Selection → Nat
    | .field _ _ _ _ sub _ => countFields sub + 1
    | .inline _ _ sub _ => countFields sub
    | .spread _ _ _ => 0
end

mutual
  /-- number of field and fragment spread nodes of a selection set -/
  def countNodes : Selections → Nat
    | .nil => 0
    | .cons x rest => countNodesSel x + countNodes rest
  def countNodesSel : Selection → Nat
    | .field _ _ _ _ sub _ => countNodes sub + 1
    | .inline _ _ sub _ => countNodes sub
    | .spread _ _ _ => 1
end

def sumNat (l : List Nat) : Nat := l.foldr (· + ·) 0

/-- field nodes inside the fragment definitions of the document -/
def fragFieldCount (d : QueryDoc) : Nat := sumNat (d.frags.map fun f => countFields f.sel)

/-- field and spread nodes inside the fragment definitions of the document -/
def fragNodeCount (d : QueryDoc) : Nat := sumNat (d.frags.map fun f => countNodes f.sel)

/-- `F`: the field nodes that one `findConflictsWithinSelectionSet(sels)` can reach — those of
    `sels` itself and those of the fragment definitions -/
def reachableFieldCount (d : QueryDoc) (sels : Selections) : Nat := countFields sels + fragFieldCount d

/-- `N`: the field and spread nodes it can reach -/
def reachableNodeCount (d : QueryDoc) (sels : Selections) : Nat := countNodes sels + fragNodeCount d

/-- `W`: what the expansion of one memo key costs at most (in steps) -/
def expansionCost (d : QueryDoc) (sels : Selections) : Nat :=
  (reachableNodeCount d sels + 1) * (reachableNodeCount d sels + 1)

/-- the memo keys that can be expanded: `2·K²` fragment pairs and `2·(F+1)·K` (selection set,
    fragment) pairs (`K` = fragment definitions; the selection sets are `sels` and the
    sub-selections of the `F` reachable fields) -/
def memoKeyCount (d : QueryDoc) (sels : Selections) : Nat :=
  2 * d.frags.length * d.frags.length + 2 * (reachableFieldCount d sels + 1) * d.frags.length

/-- the bound on the steps of one observer call -/
def overlapStepBound (d : QueryDoc) (sels : Selections) : Nat :=
  expansionCost d sels * (memoKeyCount d sels + 1)

/-- nested `findConflict` calls allowed -/
def overlapFuel (d : QueryDoc) (sels : Selections) : Nat := overlapStepBound d sels + 2

/-- frames of one (E) recursion: one per fragment definition, plus slack -/
def overlapChainFuel (d : QueryDoc) : Nat := d.frags.length + 2

/-- frames of one `check` recursion: one per `(fragment, fragment, exclusive)` triple, plus slack -/
def overlapCheckFuel (d : QueryDoc) : Nat := 2 * d.frags.length * d.frags.length + 2

def overlapEnv (s : SV) (d : QueryDoc) (l : Links) : Env :=
  { s := s, d := d, l := l, chainFuel := overlapChainFuel d, checkFuel := overlapCheckFuel d }

/-- one top-level `m.findConflictsWithinSelectionSet(selectionSet)` of an observer -/
def overlapRun (s : SV) (d : QueryDoc) (l : Links) (parent : Option Definition) (sels : Selections)
    (st : OSt) : Option (OSt × List Conflict) :=
  let env := overlapEnv s d l
  findConflictsWithinSelectionSet env (fcLevel env (overlapFuel d sels)) parent sels st

def overlapOutOfFuel : Bytes := str "model: out of fuel"

/-- the four observers; the rule state is the manager -/
def overlappingFieldsStep (s : SV) (d : QueryDoc) (st : OSt) (e : Event) : StepOut OSt :=
  let run (parent : Option Definition) (sels : Selections) : StepOut OSt :=
    match overlapRun s d e.links parent sels st with
    | none => .panic overlapOutOfFuel
    | some (st', cs) => .ok st' (cs.map Conflict.toErr)
  match e.p with
  | .operation op _ => run (opRoot s op.op).1 op.sel
  | .field f _ dfn =>
    if e.cur.isNone then .ok st []
    else run (dfn.bind fun fd => s.type? fd.type.name) f.sel
  | .inlineFragment f parent => run (inlineNext s parent f.typeCond) f.sel
  | .fragment f dfn => run dfn f.sel
  | _ => .ok st []

def overlappingFieldsCanBeMerged : Rule :=
  { name := str "OverlappingFieldsCanBeMerged", σ := OSt, init := OSt.init, step := overlappingFieldsStep }

end Gql.Validate.Rules
