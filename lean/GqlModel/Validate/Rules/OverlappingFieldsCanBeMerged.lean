import GqlModel.Validate.Engine
/-
  rules/overlapping_fields_can_be_merged.go  (the REPAIRED algorithm: `comparedFragments` is a
  local map handed down the (E) chain, `findConflict` keeps the in-progress set `comparingFields`,
  `sameValue` compares `Children`, `doTypesConflict` guards nil types and treats a leaf type as
  conflicting with every type but itself).

  Links.  The rule reads `Field.ObjectDefinition`, `Field.Definition` and
  `FragmentSpread.Definition` of nodes OTHER than the one the event is about.  The two field links
  are a function of the static context of the node (the walker assigns `parentDef` and
  `parentDef.Fields.ForName(name)` — or the synthetic `__typename` definition — and the parent of
  a node is the same on every route by which the walker reaches it: root type of the operation /
  type condition of the fragment definition, changed by inline fragments and fields on the way
  down) *once the walker has reached the node*; before that both are nil.  The model therefore
  carries the static parent down while it collects fields (`collectFields`) and reads "already
  linked" from the event's snapshot of the side table (`Links.linked`), exactly as
  `Links.spreadDef` does for spreads.

  Node identity.  Go compares `*ast.Field` pointers in `comparingFields` and uses
  `reflect.DeepEqual(fieldsMap, fieldsMapB)` on two `*sequentialFieldsMap`.  Distinct nodes of one
  parse have distinct `Position.Start` (DESIGN §4 "Node identity"), so
  * pointer equality of two field nodes  ⇔  equality of `pos.start`, and
  * `DeepEqual` of two field maps: `seq` slices equal as strings (both nil when no field was
    pushed), `data` maps with the same keys and, per key, slices of the same length whose
    elements are pairwise DeepEqual; two pointers are DeepEqual iff they are the same pointer or
    point to DeepEqual structs, and two distinct `ast.Field` structs of one parse are never
    DeepEqual because their `Position.Start` differ.  Hence DeepEqual ⇔ same response names in
    the same order with the same node lists ⇔ `fmKey A = fmKey B` (in particular two EMPTY field
    maps are DeepEqual — the Go code then skips the fragment, and so does the model).

  Totality.  Three recursions are not structural:
  * `findConflict → findConflictsBetweenSubSelectionSets → … → findConflict` — the knot is tied by
    `fcLevel` (recursion on the number of nested `findConflict` calls still allowed);
  * the (E) chain `collectConflictsBetweenFieldsAndFragment → itself` (`chain`, own fuel);
  * the (G) recursion of `collectConflictsBetweenFragments.check` (`check`, own fuel).
  `none` = out of fuel.  `overlapFuel` hands out `2·F²+2` levels (`F` = field nodes of the
  selection set the observer was called for plus those of all fragment definitions — nothing
  else is reachable; every nested `findConflict` has a fresh `(fieldA, fieldB, exclusive)` triple
  in the in-progress set), `K+2` chain frames and `2·K²+2` check frames (`K` = fragment
  definitions; a chain frame that recurses adds the name of a fragment definition to its local
  `comparedFragments`, a check frame that recurses turns a fresh `(nameA, nameB, exclusive)`
  triple of fragment names of `comparedFragmentPairs` from "not had" to "had").
  `GqlProofs/Validate/Overlap*.lean` proves that these bounds are never exhausted.
-/
namespace Gql.Validate.Rules
open Gql Gql.Validate

/- ---------------- values, arguments, types ---------------- -/

/-- first child named `n` (the inner loop of `sameValue` for object values) -/
def findChild : Children → Name → Option Value
  | .nil, _ => none
  | .cons n v _ rest, k => if n == k then some v else findChild rest k

def childrenTail : Children → Children
  | .nil => .nil
  | .cons _ _ _ rest => rest

mutual
  /-- `sameValue` -/
  def sameValue : Value → Value → Bool
    | .mk k1 r1 c1 _, v2 =>
      k1 == v2.kind && r1 == v2.raw && c1.length == v2.children.length &&
        sameChildren (k1 == .object) c1 v2.children v2.children
  /-- the loop over `value1.Children`: `rest2` is `value2.Children[i:]`, `all2` is `value2.Children` -/
  def sameChildren (obj : Bool) : Children → Children → Children → Bool
    | .nil, _, _ => true
    | .cons n1 v1 _ rest1, rest2, all2 =>
      let here : Bool :=
        if obj then
          match findChild all2 n1 with
          | none => false
          | some v2 => sameValue v1 v2
        else
          match rest2 with
          | .nil => false      -- unreachable: the lengths are equal
          | .cons _ v2 _ _ => sameValue v1 v2
      here && sameChildren obj rest1 (childrenTail rest2) all2
end

/-- `sameArguments` -/
def sameArguments (args1 args2 : List Argument) : Bool :=
  args1.length == args2.length &&
    args1.all fun a1 => args2.any fun a2 => a1.name == a2.name && sameValue a1.value a2.value

/-- `doTypesConflict` -/
def doTypesConflict (s : SV) : GType → GType → Bool
  | .list e1 _ _, .list e2 _ _ => doTypesConflict s e1 e2
  | .list _ _ _, .named _ _ _ => true
  | .named _ _ _, .list _ _ _ => true
  | .named n1 nn1 _, .named n2 nn2 _ =>
    if nn1 != nn2 then true
    else
      match s.type? n1, s.type? n2 with
      | some t1, some t2 => if isLeafType t1 || isLeafType t2 then t1.name != t2.name else false
      | _, _ => false

/- ---------------- collected fields ---------------- -/

/-- a `*ast.Field` found by `getFieldsAndFragmentNames`, with the links the walker assigns to it
    (`sparent`/`sdfn`) and whether it has assigned them yet (`linked`) -/
structure FInfo where
  node : FieldNode
  sparent : Option Definition
  sdfn : Option FieldDef
  linked : Bool
  deriving Inhabited

/-- `field.ObjectDefinition` -/
def FInfo.obj (f : FInfo) : Option Definition := if f.linked then f.sparent else none
/-- `field.Definition` -/
def FInfo.dfn (f : FInfo) : Option FieldDef := if f.linked then f.sdfn else none
/-- the parent definition of the nodes of `field.SelectionSet` -/
def FInfo.next (s : SV) (f : FInfo) : Option Definition := f.sdfn.bind fun fd => s.type? fd.type.name
/-- node identity -/
def FInfo.key (f : FInfo) : Nat := f.node.pos.start

def responseName (f : FieldNode) : Name := if f.alias != [] then f.alias else f.name

/-- the walker's choice of `Field.Definition` -/
def staticFieldDef (parent : Option Definition) (nm : Name) : Option FieldDef :=
  if nm == nameTypename then some typenameDef
  else match parent with
    | some pd => fieldForName pd.fields nm
    | none => none

/-- the walker's `nextParentDef` of an inline fragment -/
def inlineNext (s : SV) (parent : Option Definition) (tc : Name) : Option Definition :=
  if tc != [] then s.type? tc else parent

mutual
  /-- the fields of `getFieldsAndFragmentNames.walk`, in the order in which they are pushed -/
  def collectFields (s : SV) (l : Links) (parent : Option Definition) : Selections → List FInfo
    | .nil => []
    | .cons x rest => collectFieldsSel s l parent x ++ collectFields s l parent rest
  def collectFieldsSel (s : SV) (l : Links) (parent : Option Definition) : Selection → List FInfo
    | .field al nm args dirs sub p =>
      [{ node := ⟨al, nm, args, dirs, sub, p⟩, sparent := parent, sdfn := staticFieldDef parent nm,
         linked := l.linked p.start }]
    | .inline tc _ sub _ => collectFields s l (inlineNext s parent tc) sub
    | .spread _ _ _ => []
end

mutual
  /-- the fragment spreads of `getFieldsAndFragmentNames.walk`, in order -/
  def collectSpreads : Selections → List SpreadNode
    | .nil => []
    | .cons x rest => collectSpreadsSel x ++ collectSpreads rest
  def collectSpreadsSel : Selection → List SpreadNode
    | .field _ _ _ _ _ _ => []
    | .inline _ _ sub _ => collectSpreads sub
    | .spread nm dirs p => [⟨nm, dirs, p⟩]
end

/-- `sequentialFieldsMap`: response names in order of first occurrence, each with its fields in
    push order -/
abbrev FMap := List (Name × List FInfo)

/-- `sequentialFieldsMap.Push` -/
def fmPush (rn : Name) (f : FInfo) : FMap → FMap
  | [] => [(rn, [f])]
  | (k, fs) :: rest => if k == rn then (k, fs ++ [f]) :: rest else (k, fs) :: fmPush rn f rest

def fmOfList (fs : List FInfo) : FMap := fs.foldl (fun m f => fmPush (responseName f.node) f m) []

/-- `sequentialFieldsMap.Get` -/
def fmGet (m : FMap) (rn : Name) : Option (List FInfo) := m.lookup rn

/-- what `reflect.DeepEqual` sees of a field map (see "Node identity" above) -/
def fmKey (m : FMap) : List (Name × List Nat) := m.map fun (k, fs) => (k, fs.map FInfo.key)

/-- `reflect.DeepEqual(fieldsMap, fieldsMapB)` -/
def fmEq (a b : FMap) : Bool := fmKey a == fmKey b

/-- `getFieldsAndFragmentNames` -/
def getFieldsAndFragmentNames (s : SV) (l : Links) (parent : Option Definition) (sels : Selections) :
    FMap × List SpreadNode :=
  (fmOfList (collectFields s l parent sels), collectSpreads sels)

/- ---------------- conflicts ---------------- -/

/-- `ConflictMessage` (`Names` is never used) -/
inductive Conflict
  | mk (responseName : Bytes) (message : Bytes) (subs : List Conflict) (pos : Pos)
  deriving Inhabited

def Conflict.responseName : Conflict → Bytes | .mk rn _ _ _ => rn
def Conflict.pos : Conflict → Pos | .mk _ _ _ p => p

def subfieldsOpen := str "subfields \""
def conflictBecause := str "\" conflict because "
def andSep := str " and "

mutual
  /-- `ConflictMessage.String` -/
  def Conflict.render : Conflict → Bytes
    | .mk _ msg [] _ => msg
    | .mk _ _ (c :: cs) _ => Conflict.renderSubs (c :: cs)
  def Conflict.renderSubs : List Conflict → Bytes
    | [] => []
    | [c] => subfieldsOpen ++ c.responseName ++ conflictBecause ++ c.render
    | c :: c' :: cs =>
      subfieldsOpen ++ c.responseName ++ conflictBecause ++ c.render ++ andSep ++ Conflict.renderSubs (c' :: cs)
end

def msgFieldsOpen := str "Fields \""
def msgUseAliases := str ". Use different aliases on the fields to fetch both if this was intentional."
def msgDifferentFields := str " are different fields"
def msgDifferingArguments := str "they have differing arguments"
def msgConflictingTypes := str "they return conflicting types "

/-- `addFieldsConflictMessage` -/
def Conflict.toErr (c : Conflict) : RErr :=
  errAt (msgFieldsOpen ++ c.responseName ++ conflictBecause ++ c.render ++ msgUseAliases) c.pos

/- ---------------- manager state ---------------- -/

/-- `pairSet` (`map[string]map[string]bool`) as an association list, most recent binding first -/
abbrev Pairs := List ((Name × Name) × Bool)

/-- `pairSet.Add` -/
def Pairs.add (p : Pairs) (a b : Name) (excl : Bool) : Pairs := ((b, a), excl) :: ((a, b), excl) :: p

/-- `pairSet.Has` -/
def Pairs.has (p : Pairs) (a b : Name) (excl : Bool) : Bool :=
  match p.lookup (a, b) with
  | none => false
  | some result => if !excl then !result else true

/-- `comparingFields`: the `(fieldA, fieldB, areMutuallyExclusive)` triples whose sub-selections
    are being compared further up the call stack -/
abbrev Comparing := List (Nat × Nat × Bool)

/-- `findConflict` as the collectors see it: `none` = out of fuel, otherwise the new
    `comparedFragmentPairs` and the conflict (if any) -/
abbrev FC := Bool → FInfo → FInfo → Comparing → Pairs → Option (Pairs × Option Conflict)

def optToList {α : Type} : Option α → List α
  | none => []
  | some a => [a]

/-- `for _, fieldB := range fieldsB { findConflict(excl, fieldA, fieldB) }` -/
def pairRow (fc : FC) (excl : Bool) (C : Comparing) (fa : FInfo) : List FInfo → Pairs → Option (Pairs × List Conflict)
  | [], P => some (P, [])
  | fb :: rest, P =>
    match fc excl fa fb C P with
    | none => none
    | some (P1, c) =>
      match pairRow fc excl C fa rest P1 with
      | none => none
      | some (P2, cs) => some (P2, optToList c ++ cs)

/-- `for _, fieldA := range fieldsA { for _, fieldB := range fieldsB { … } }` -/
def pairGrid (fc : FC) (excl : Bool) (C : Comparing) (fsB : List FInfo) : List FInfo → Pairs → Option (Pairs × List Conflict)
  | [], P => some (P, [])
  | fa :: rest, P =>
    match pairRow fc excl C fa fsB P with
    | none => none
    | some (P1, cs1) =>
      match pairGrid fc excl C fsB rest P1 with
      | none => none
      | some (P2, cs2) => some (P2, cs1 ++ cs2)

/-- `collectConflictsBetween` -/
def collectConflictsBetween (fc : FC) (excl : Bool) (C : Comparing) (B : FMap) : FMap → Pairs → Option (Pairs × List Conflict)
  | [], P => some (P, [])
  | (rn, fsA) :: rest, P =>
    match fmGet B rn with
    | none => collectConflictsBetween fc excl C B rest P
    | some fsB =>
      match pairGrid fc excl C fsB fsA P with
      | none => none
      | some (P1, cs1) =>
        match collectConflictsBetween fc excl C B rest P1 with
        | none => none
        | some (P2, cs2) => some (P2, cs1 ++ cs2)

/-- `for idx, fieldA := range fields { for _, fieldB := range fields[idx+1:] { … } }` -/
def pairTriangle (fc : FC) (C : Comparing) : List FInfo → Pairs → Option (Pairs × List Conflict)
  | [], P => some (P, [])
  | fa :: rest, P =>
    match pairRow fc false C fa rest P with
    | none => none
    | some (P1, cs1) =>
      match pairTriangle fc C rest P1 with
      | none => none
      | some (P2, cs2) => some (P2, cs1 ++ cs2)

/-- `collectConflictsWithin` -/
def collectConflictsWithin (fc : FC) (C : Comparing) : FMap → Pairs → Option (Pairs × List Conflict)
  | [], P => some (P, [])
  | (_, fs) :: rest, P =>
    match pairTriangle fc C fs P with
    | none => none
    | some (P1, cs1) =>
      match collectConflictsWithin fc C rest P1 with
      | none => none
      | some (P2, cs2) => some (P2, cs1 ++ cs2)

/-- the parameters that do not change during one `findConflictsWithinSelectionSet` call -/
structure Env where
  s : SV
  d : QueryDoc
  l : Links
  /-- frames handed to every (E) chain -/
  chainFuel : Nat
  /-- frames handed to every `check` recursion -/
  checkFuel : Nat

/-- fields and spreads of `fragmentSpread.Definition.SelectionSet` -/
def Env.fragFields (env : Env) (f : FragmentDef) : FMap × List SpreadNode :=
  getFieldsAndFragmentNames env.s env.l (env.s.type? f.typeCond) f.sel

/-- state of one (E) chain: the local `comparedFragments`, `comparedFragmentPairs`, conflicts found -/
abbrev ChainSt := List Name × Pairs × List Conflict

/-- a loop `for _, x := range xs { step(x) }` threading a chain state -/
def chainLoop (step : SpreadNode → List Name → Pairs → Option ChainSt) :
    List SpreadNode → List Name → Pairs → Option ChainSt
  | [], M, P => some (M, P, [])
  | sp :: rest, M, P =>
    match step sp M P with
    | none => none
    | some (M1, P1, cs1) =>
      match chainLoop step rest M1 P1 with
      | none => none
      | some (M2, P2, cs2) => some (M2, P2, cs1 ++ cs2)

/-- `collectConflictsBetweenFieldsAndFragment` (`M` = `comparedFragments`) -/
def chain (env : Env) (fc : FC) (excl : Bool) (C : Comparing) (A : FMap) :
    Nat → SpreadNode → List Name → Pairs → Option ChainSt
  | 0, _, _, _ => none
  | n + 1, sp, M, P =>
    if M.contains sp.name then some (M, P, [])
    else
      let M1 := sp.name :: M
      match env.l.spreadDef env.d sp.name sp.pos with
      | none => some (M1, P, [])
      | some f =>
        let fb := env.fragFields f
        if fmEq A fb.1 then some (M1, P, [])
        else
          match collectConflictsBetween fc excl C fb.1 A P with
          | none => none
          | some (P1, cs1) =>
            match chainLoop (chain env fc excl C A n) (fb.2.filter fun x => x.name != sp.name) M1 P1 with
            | none => none
            | some (M2, P2, cs2) => some (M2, P2, cs1 ++ cs2)

/-- a loop threading `comparedFragmentPairs` and the conflicts -/
def pairsLoop {α : Type} (step : α → Pairs → Option (Pairs × List Conflict)) :
    List α → Pairs → Option (Pairs × List Conflict)
  | [], P => some (P, [])
  | x :: rest, P =>
    match step x P with
    | none => none
    | some (P1, cs1) =>
      match pairsLoop step rest P1 with
      | none => none
      | some (P2, cs2) => some (P2, cs1 ++ cs2)

/-- `collectConflictsBetweenFragments.check` -/
def check (env : Env) (fc : FC) (excl : Bool) (C : Comparing) :
    Nat → SpreadNode → SpreadNode → Pairs → Option (Pairs × List Conflict)
  | 0, _, _, _ => none
  | n + 1, a, b, P =>
    if a.name == b.name then some (P, [])
    else if P.has a.name b.name excl then some (P, [])
    else
      let P0 := P.add a.name b.name excl
      match env.l.spreadDef env.d a.name a.pos, env.l.spreadDef env.d b.name b.pos with
      | some fa, some fb =>
        let A := env.fragFields fa
        let B := env.fragFields fb
        match collectConflictsBetween fc excl C B.1 A.1 P0 with
        | none => none
        | some (P1, cs1) =>
          match pairsLoop (fun x => check env fc excl C n a x) B.2 P1 with
          | none => none
          | some (P2, cs2) =>
            match pairsLoop (fun x => check env fc excl C n x b) A.2 P2 with
            | none => none
            | some (P3, cs3) => some (P3, cs1 ++ cs2 ++ cs3)
      | _, _ => some (P0, [])

/-- `collectConflictsBetweenFragments` -/
def collectConflictsBetweenFragments (env : Env) (fc : FC) (excl : Bool) (C : Comparing)
    (a b : SpreadNode) (P : Pairs) : Option (Pairs × List Conflict) :=
  check env fc excl C env.checkFuel a b P

/-- one iteration of the two (I) loops: a chain with a fresh `comparedFragments` -/
def chainFresh (env : Env) (fc : FC) (excl : Bool) (C : Comparing) (A : FMap) (sp : SpreadNode) (P : Pairs) :
    Option (Pairs × List Conflict) :=
  match chain env fc excl C A env.chainFuel sp [] P with
  | none => none
  | some (_, P1, cs) => some (P1, cs)

/-- `findConflictsBetweenSubSelectionSets` (returns the conflict list, `[]` for Go's nil) -/
def findConflictsBetweenSubSelectionSets (env : Env) (fc : FC) (excl : Bool) (a b : FInfo)
    (C : Comparing) (P : Pairs) : Option (Pairs × List Conflict) :=
  let A := getFieldsAndFragmentNames env.s env.l (a.next env.s) a.node.sel
  let B := getFieldsAndFragmentNames env.s env.l (b.next env.s) b.node.sel
  -- (H)
  match collectConflictsBetween fc excl C B.1 A.1 P with
  | none => none
  | some (P1, cs1) =>
    -- (I)
    match pairsLoop (chainFresh env fc excl C A.1) B.2 P1 with
    | none => none
    | some (P2, cs2) =>
      match pairsLoop (chainFresh env fc excl C B.1) A.2 P2 with
      | none => none
      | some (P3, cs3) =>
        -- (J)
        match pairsLoop (fun sa => pairsLoop (collectConflictsBetweenFragments env fc excl C sa) B.2) A.2 P3 with
        | none => none
        | some (P4, cs4) => some (P4, cs1 ++ cs2 ++ cs3 ++ cs4)

def typesConflictMsg (ta tb : GType) : Bytes :=
  msgConflictingTypes ++ dq ta.render ++ andSep ++ dq tb.render

/-- `findConflict`, with `sub` for the call of `findConflictsBetweenSubSelectionSets` -/
def findConflictBody (s : SV)
    (sub : Bool → FInfo → FInfo → Comparing → Pairs → Option (Pairs × List Conflict)) : FC :=
  fun parentExcl a b C P =>
    match a.obj, b.obj with
    | some oa, some ob =>
      let excl := parentExcl ||
        (oa.name != ob.name && oa.kind == .object && ob.kind == .object && a.dfn.isSome && b.dfn.isSome)
      let rn := responseName a.node
      if !excl && a.node.name != b.node.name then
        some (P, some (.mk rn (dq a.node.name ++ andSep ++ dq b.node.name ++ msgDifferentFields) [] b.node.pos))
      else if !excl && !sameArguments a.node.args b.node.args then
        some (P, some (.mk rn msgDifferingArguments [] b.node.pos))
      else
        let tc : Option (GType × GType) := match a.dfn, b.dfn with
          | some da, some db => if doTypesConflict s da.type db.type then some (da.type, db.type) else none
          | _, _ => none
        match tc with
        | some (ta, tb) => some (P, some (.mk rn (typesConflictMsg ta tb) [] b.node.pos))
        | none =>
          let pair := (a.key, b.key, excl)
          if C.contains pair then some (P, none)
          else
            match sub excl a b (pair :: C) P with
            | none => none
            | some (P1, []) => some (P1, none)
            | some (P1, c :: cs) => some (P1, some (.mk rn [] (c :: cs) b.node.pos))
    | _, _ => some (P, none)

/-- `findConflict` with at most `n - 1` nested `findConflict` calls below it -/
def fcLevel (env : Env) : Nat → FC
  | 0 => fun _ _ _ _ _ => none
  | n + 1 => findConflictBody env.s (findConflictsBetweenSubSelectionSets env (fcLevel env n))

/-- the (B)/(C) loops of `findConflictsWithinSelectionSet` -/
def withinLoop (env : Env) (fc : FC) (A : FMap) : List SpreadNode → List Name → Pairs → Option ChainSt
  | [], M, P => some (M, P, [])
  | sa :: rest, M, P =>
    match chain env fc false [] A env.chainFuel sa M P with
    | none => none
    | some (M1, P1, cs1) =>
      match pairsLoop (collectConflictsBetweenFragments env fc false [] sa) rest P1 with
      | none => none
      | some (P2, cs2) =>
        match withinLoop env fc A rest M1 P2 with
        | none => none
        | some (M3, P3, cs3) => some (M3, P3, cs1 ++ cs2 ++ cs3)

def selsEmpty : Selections → Bool
  | .nil => true
  | .cons _ _ => false

/-- `findConflictsWithinSelectionSet` (`comparingFields` is empty between top-level calls) -/
def findConflictsWithinSelectionSet (env : Env) (fc : FC) (parent : Option Definition) (sels : Selections)
    (P : Pairs) : Option (Pairs × List Conflict) :=
  if selsEmpty sels then some (P, [])
  else
    let A := getFieldsAndFragmentNames env.s env.l parent sels
    match collectConflictsWithin fc [] A.1 P with
    | none => none
    | some (P1, cs1) =>
      match withinLoop env fc A.1 A.2 [] P1 with
      | none => none
      | some (_, P2, cs2) => some (P2, cs1 ++ cs2)

/- ---------------- fuel ---------------- -/

mutual
  /-- number of field nodes of a selection set -/
  def countFields : Selections → Nat
    | .nil => 0
    | .cons x rest => countFieldsSel x + countFields rest
  def countFieldsSel : Selection → Nat
    | .field _ _ _ _ sub _ => countFields sub + 1
    | .inline _ _ sub _ => countFields sub
    | .spread _ _ _ => 0
end

def sumNat (l : List Nat) : Nat := l.foldr (· + ·) 0

/-- field nodes inside the fragment definitions of the document -/
def fragFieldCount (d : QueryDoc) : Nat := sumNat (d.frags.map fun f => countFields f.sel)

/-- `F`: the field nodes that one `findConflictsWithinSelectionSet(sels)` can reach — those of
    `sels` itself and those of the fragment definitions -/
def reachableFieldCount (d : QueryDoc) (sels : Selections) : Nat := countFields sels + fragFieldCount d

/-- nested `findConflict` calls allowed: one per `(fieldA, fieldB, exclusive)` triple, plus slack -/
def overlapFuel (d : QueryDoc) (sels : Selections) : Nat :=
  2 * reachableFieldCount d sels * reachableFieldCount d sels + 2

/-- frames of one (E) chain: one per fragment definition, plus slack -/
def overlapChainFuel (d : QueryDoc) : Nat := d.frags.length + 2

/-- frames of one `check` recursion: one per `(fragment, fragment, exclusive)` triple, plus slack -/
def overlapCheckFuel (d : QueryDoc) : Nat := 2 * d.frags.length * d.frags.length + 2

def overlapEnv (s : SV) (d : QueryDoc) (l : Links) : Env :=
  { s := s, d := d, l := l, chainFuel := overlapChainFuel d, checkFuel := overlapCheckFuel d }

/-- one top-level `m.findConflictsWithinSelectionSet(selectionSet)` of an observer -/
def overlapRun (s : SV) (d : QueryDoc) (l : Links) (parent : Option Definition) (sels : Selections)
    (P : Pairs) : Option (Pairs × List Conflict) :=
  let env := overlapEnv s d l
  findConflictsWithinSelectionSet env (fcLevel env (overlapFuel d sels)) parent sels P

def overlapOutOfFuel : Bytes := str "model: out of fuel"

/-- the four observers; the rule state is `comparedFragmentPairs` -/
def overlappingFieldsStep (s : SV) (d : QueryDoc) (P : Pairs) (e : Event) : StepOut Pairs :=
  let run (parent : Option Definition) (sels : Selections) : StepOut Pairs :=
    match overlapRun s d e.links parent sels P with
    | none => .panic overlapOutOfFuel
    | some (P', cs) => .ok P' (cs.map Conflict.toErr)
  match e.p with
  | .operation op _ => run (opRoot s op.op).1 op.sel
  | .field f _ dfn =>
    if e.cur.isNone then .ok P []
    else run (dfn.bind fun fd => s.type? fd.type.name) f.sel
  | .inlineFragment f parent => run (inlineNext s parent f.typeCond) f.sel
  | .fragment f dfn => run dfn f.sel
  | _ => .ok P []

def overlappingFieldsCanBeMerged : Rule :=
  { name := str "OverlappingFieldsCanBeMerged", σ := Pairs, init := [], step := overlappingFieldsStep }

end Gql.Validate.Rules
