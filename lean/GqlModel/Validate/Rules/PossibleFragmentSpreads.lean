import GqlModel.Validate.Engine
/- rules/possible_fragment_spreads.go -/
namespace Gql.Validate.Rules
open Gql Gql.Validate

/-- the shared `validate` closure: `true` = `emitError()` is called -/
def spreadImpossible (s : SV) (parent : Option Definition) (fragType : Name) : Bool :=
  match parent with
  | none => false
  | some pd =>
    let parentDefs : Option (List Name) :=
      if pd.kind == .object then some [pd.name]
      else if pd.kind == .interface || pd.kind == .union then some (s.possible pd.name)
      else none
    match parentDefs with
    | none => false
    | some pds =>
      match s.type? fragType with
      | none => false
      | some ft =>
        if !isCompositeType ft then false
        else !((s.possible ft.name).any fun f => pds.contains f)

def possibleFragmentSpreadsStep (s : SV) (_ : QueryDoc) (e : Event) : List RErr :=
  match e.p with
  | .inlineFragment f parent =>
    if spreadImpossible s parent f.typeCond then
      [errAt (str "Fragment cannot be spread here as objects of type " ++ dq ((parent.map (·.name)).getD [])
        ++ str " can never be of type " ++ dq f.typeCond ++ str ".") f.pos]
    else []
  | .fragmentSpread f (some fd) parent =>
    if spreadImpossible s parent fd.typeCond then
      [errAt (str "Fragment " ++ dq f.name ++ str " cannot be spread here as objects of type "
        ++ dq ((parent.map (·.name)).getD []) ++ str " can never be of type " ++ dq fd.typeCond ++ str ".") f.pos]
    else []
  | _ => []

def possibleFragmentSpreads : Rule := Rule.stateless (str "PossibleFragmentSpreads") possibleFragmentSpreadsStep

end Gql.Validate.Rules
