import GqlModel.Validate.Engine
/- rules/unique_argument_names.go -/
namespace Gql.Validate.Rules
open Gql Gql.Validate

/-- `checkUniqueArgs`: the error is added when the count is exactly 1, i.e. at the second occurrence only -/
def checkUniqueArgs : List Argument → List Name → List RErr
  | [], _ => []
  | a :: rest, seen =>
    (if seen.count a.name = 1 then [errAt (str "There can be only one argument named " ++ dq a.name ++ str ".") a.pos] else [])
      ++ checkUniqueArgs rest (a.name :: seen)

def uniqueArgumentNamesStep (_ : SV) (_ : QueryDoc) (e : Event) : List RErr :=
  match e.p with
  | .field f _ _ => checkUniqueArgs f.args []
  | .directive d _ _ _ => checkUniqueArgs d.args []
  | _ => []

def uniqueArgumentNames : Rule := Rule.stateless (str "UniqueArgumentNames") uniqueArgumentNamesStep

end Gql.Validate.Rules
