import GqlModel.Validate.Engine
/- rules/known_fragment_names.go -/
namespace Gql.Validate.Rules
open Gql Gql.Validate

def knownFragmentNamesStep (_ : SV) (_ : QueryDoc) (e : Event) : List RErr :=
  match e.p with
  | .fragmentSpread f none _ => [errAt (str "Unknown fragment " ++ dq f.name ++ str ".") f.pos]
  | _ => []

def knownFragmentNames : Rule := Rule.stateless (str "KnownFragmentNames") knownFragmentNamesStep

end Gql.Validate.Rules
