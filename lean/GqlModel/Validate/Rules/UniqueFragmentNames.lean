import GqlModel.Validate.Engine
/- rules/unique_fragment_names.go -/
namespace Gql.Validate.Rules
open Gql Gql.Validate

def uniqueFragmentNamesStep (_ : SV) (_ : QueryDoc) (seen : List Name) (e : Event) : StepOut (List Name) :=
  match e.p with
  | .fragment f _ =>
    .ok (f.name :: seen)
      (if seen.contains f.name then [errAt (str "There can be only one fragment named " ++ dq f.name ++ str ".") f.pos] else [])
  | _ => .ok seen []

def uniqueFragmentNames : Rule :=
  { name := str "UniqueFragmentNames", σ := List Name, init := [], step := uniqueFragmentNamesStep }

end Gql.Validate.Rules
