import GqlModel.Validate.Engine
/- rules/no_unused_fragments.go -/
namespace Gql.Validate.Rules
open Gql Gql.Validate

structure NUFState where
  inFragmentDefinition : Bool
  used : List Name

def noUnusedFragmentsStep (_ : SV) (_ : QueryDoc) (st : NUFState) (e : Event) : StepOut NUFState :=
  match e.p with
  | .fragmentSpread f _ _ =>
    if !st.inFragmentDefinition then .ok { st with used := f.name :: st.used } [] else .ok st []
  | .fragment f _ =>
    .ok { st with inFragmentDefinition := true }
      (if !st.used.contains f.name then [errAt (str "Fragment " ++ dq f.name ++ str " is never used.") f.pos] else [])
  | _ => .ok st []

def noUnusedFragments : Rule :=
  { name := str "NoUnusedFragments", σ := NUFState, init := ⟨false, []⟩, step := noUnusedFragmentsStep }

end Gql.Validate.Rules
