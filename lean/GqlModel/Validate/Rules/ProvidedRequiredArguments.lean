import GqlModel.Validate.Engine
/- rules/provided_required_arguments.go -/
namespace Gql.Validate.Rules
open Gql Gql.Validate

def missingArgs (args : List Argument) (mk : ArgDef → Bytes) (p : Pos) : List ArgDef → List RErr
  | [] => []
  | ad :: rest =>
    if !ad.type.nonNull || ad.default.isSome || args.any (·.name == ad.name) then missingArgs args mk p rest
    else errAt (mk ad) p :: missingArgs args mk p rest

def providedRequiredArgumentsStep (_ : SV) (_ : QueryDoc) (e : Event) : List RErr :=
  match e.p with
  | .field f _ (some fd) =>
    missingArgs f.args (fun ad => str "Field " ++ dq f.name ++ str " argument " ++ dq ad.name ++ str " of type "
      ++ dq ad.type.render ++ str " is required, but it was not provided.") f.pos fd.args
  | .directive d (some dd) _ _ =>
    missingArgs d.args (fun ad => str "Directive \"@" ++ dd.name ++ str "\" argument " ++ dq ad.name ++ str " of type "
      ++ dq ad.type.render ++ str " is required, but it was not provided.") d.pos dd.args
  | _ => []

def providedRequiredArguments : Rule := Rule.stateless (str "ProvidedRequiredArguments") providedRequiredArgumentsStep

end Gql.Validate.Rules
