import GqlModel.Validate.Engine
/- rules/unique_input_field_names.go -/
namespace Gql.Validate.Rules
open Gql Gql.Validate

def dupInputFields : Children → List Name → List RErr
  | .nil, _ => []
  | .cons n _ p rest, seen =>
    (if seen.contains n then [errAt (str "There can be only one input field named " ++ dq n ++ str ".") p] else [])
      ++ dupInputFields rest (n :: seen)

def uniqueInputFieldNamesStep (_ : SV) (_ : QueryDoc) (e : Event) : List RErr :=
  match e.p with
  | .value v _ _ => if v.kind == .object then dupInputFields v.children [] else []
  | _ => []

def uniqueInputFieldNames : Rule := Rule.stateless (str "UniqueInputFieldNames") uniqueInputFieldNamesStep

end Gql.Validate.Rules
