import GqlModel.Validate.Engine
/- rules/known_root_type.go -/
namespace Gql.Validate.Rules
open Gql Gql.Validate

def knownRootTypeStep (s : SV) (_ : QueryDoc) (e : Event) : Except Bytes (List RErr) :=
  match e.p with
  | .operation op _ =>
    if op.op == opQuery || op.op == [] || op.op == opMutation || op.op == opSubscription then
      match (opRoot s op.op).1 with
      | some _ => .ok []
      | none => .ok [errAt (str "Schema does not support operation type " ++ dq op.op) op.pos]
    else
      -- `panic(fmt.Sprintf("got unknown operation type %q"…))`; the parser never produces one
      .error (str "got unknown operation type " ++ dq op.op)
  | _ => .ok []

def knownRootType : Rule := Rule.statelessP (str "KnownRootType") knownRootTypeStep

end Gql.Validate.Rules
