import GqlModel.Validate.Engine
/-
  rules/single_field_subscriptions.go

  `retrieveTopFieldNames.walk`: `inFragmentRecursive` is never reset, so every fragment is
  entered at most once; a spread whose `Definition` is nil makes the CURRENT `walk` invocation
  return (the rest of that selection set is skipped, the callers go on).
-/
namespace Gql.Validate.Rules
open Gql Gql.Validate

structure TopState where
  fields : List (Name × Name × Pos)      -- response name, field name, position
  inFrag : List Name

abbrev TopJump := Selections → TopState → Option TopState

/-- one `walk(selectionSet)` invocation -/
def topWalk (l : Links) (d : QueryDoc) (jump : TopJump) : Selections → TopState → Option TopState
  | .nil, st => some st
  | .cons (.field al nm _ _ _ p) rest, st =>
    topWalk l d jump rest { st with fields := st.fields ++ [(if al != [] then al else nm, nm, p)] }
  | .cons (.inline _ _ sub _) rest, st =>
    match topWalk l d jump sub st with
    | none => none
    | some st' => topWalk l d jump rest st'
  | .cons (.spread nm _ p) rest, st =>
    match l.spreadDef d nm p with
    | none => some st          -- `return`
    | some f =>
      if st.inFrag.contains f.name then topWalk l d jump rest st
      else
        match jump f.sel { st with inFrag := f.name :: st.inFrag } with
        | none => none
        | some st' => topWalk l d jump rest st'

def topLevel (l : Links) (d : QueryDoc) : Nat → TopJump
  | 0 => fun _ _ => none
  | n + 1 => fun sels st => topWalk l d (topLevel l d n) sels st

/-- duplicates are removed by RESPONSE name -/
def uniqByName : List (Name × Name × Pos) → List Name → List (Name × Name × Pos)
  | [], _ => []
  | (r, n, p) :: rest, seen => if seen.contains r then uniqByName rest seen else (r, n, p) :: uniqByName rest (r :: seen)

def isPrefixOf2 (pfx b : Bytes) : Bool := b.take pfx.length == pfx

def singleFieldSubscriptionsStep (s : SV) (d : QueryDoc) (e : Event) : Except Bytes (List RErr) :=
  match e.p with
  | .operation op _ =>
    if s.subscription.isNone || op.op != opSubscription then .ok []
    else
      match topLevel e.links d (d.frags.length + 1) op.sel { fields := [], inFrag := [] } with
      | none => .error (str "model: out of fuel")
      | some st =>
        let fields := uniqByName st.fields []
        let name := if op.name != [] then str "Subscription " ++ quote op.name else str "Anonymous Subscription"
        let e1 := match fields with
          | _ :: (_, _, p) :: _ => [errAt (name ++ str " must select only one top level field.") p]
          | _ => []
        let e2 := (fields.filter fun f => isPrefixOf2 (str "__") f.2.1).map fun f =>
          errAt (name ++ str " must not select an introspection top level field.") f.2.2
        .ok (e1 ++ e2)
  | _ => .ok []

def singleFieldSubscriptions : Rule := Rule.statelessP (str "SingleFieldSubscriptions") singleFieldSubscriptionsStep

end Gql.Validate.Rules
