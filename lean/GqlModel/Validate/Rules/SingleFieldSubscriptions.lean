import GqlModel.Validate.Engine
/-
  rules/single_field_subscriptions.go

  `retrieveTopFieldNames.walk`: `inFragmentRecursive` is never reset, so every fragment is
  entered at most once; a spread whose `Definition` is nil makes the CURRENT `walk` invocation
  return (the rest of that selection set is skipped, the callers go on).

  `applies(typeCondition)`: an inline fragment / fragment spread contributes root fields only if
  its type condition can apply to the subscription root type: no condition, the root type itself,
  or an abstract type (interface / union) whose `GetPossibleTypes` contains the root type; unknown
  types and other non-abstract types do not apply.  For a spread the fragment is still entered in
  `inFragmentRecursive` before the test.
-/
namespace Gql.Validate.Rules
open Gql Gql.Validate

structure TopState where
  fields : List (Name × Name × Pos)      -- response name, field name, position
  inFrag : List Name

abbrev TopJump := Selections → TopState → Option TopState

/-- the closure `applies` of `retrieveTopFieldNames`; `root` is `schema.Subscription.Name` -/
def topApplies (s : SV) (root : Name) (tc : Name) : Bool :=
  if tc == [] || tc == root then true
  else match s.type? tc with
    | none => false
    | some dfn => isAbstractType dfn && (s.possible dfn.name).contains root

/-- one `walk(selectionSet)` invocation -/
def topWalk (s : SV) (root : Name) (l : Links) (d : QueryDoc) (jump : TopJump) : Selections → TopState → Option TopState
  | .nil, st => some st
  | .cons (.field al nm _ _ _ p) rest, st =>
    topWalk s root l d jump rest { st with fields := st.fields ++ [(if al != [] then al else nm, nm, p)] }
  | .cons (.inline tc _ sub _) rest, st =>
    if topApplies s root tc then
      match topWalk s root l d jump sub st with
      | none => none
      | some st' => topWalk s root l d jump rest st'
    else topWalk s root l d jump rest st
  | .cons (.spread nm _ p) rest, st =>
    match l.spreadDef d nm p with
    | none => some st          -- `return`
    | some f =>
      if st.inFrag.contains f.name then topWalk s root l d jump rest st
      else if topApplies s root f.typeCond then
        match jump f.sel { st with inFrag := f.name :: st.inFrag } with
        | none => none
        | some st' => topWalk s root l d jump rest st'
      else topWalk s root l d jump rest { st with inFrag := f.name :: st.inFrag }

def topLevel (s : SV) (root : Name) (l : Links) (d : QueryDoc) : Nat → TopJump
  | 0 => fun _ _ => none
  | n + 1 => fun sels st => topWalk s root l d (topLevel s root l d n) sels st

/-- duplicates are removed by RESPONSE name -/
def uniqByName : List (Name × Name × Pos) → List Name → List (Name × Name × Pos)
  | [], _ => []
  | (r, n, p) :: rest, seen => if seen.contains r then uniqByName rest seen else (r, n, p) :: uniqByName rest (r :: seen)

def isPrefixOf2 (pfx b : Bytes) : Bool := b.take pfx.length == pfx

def singleFieldSubscriptionsStep (s : SV) (d : QueryDoc) (e : Event) : Except Bytes (List RErr) :=
  match e.p with
  | .operation op _ =>
    if s.subscription.isNone || op.op != opSubscription then .ok []
    else
      -- `schema.Subscription` is not nil here
      match topLevel s (s.subscription.getD []) e.links d (d.frags.length + 1) op.sel { fields := [], inFrag := [] } with
      | none => .error (str "model: out of fuel")
      | some st =>
        let fields := uniqByName st.fields []
        let name := if op.name != [] then str "Subscription " ++ quote op.name else str "Anonymous Subscription"
        let e1 := match fields with
          | _ :: (_, _, p) :: _ => [errAt (name ++ str " must select only one top level field.") p]
          | _ => []
        let e2 := (fields.filter fun f => isPrefixOf2 (str "__") f.2.1).map fun f =>
          errAt (name ++ str " must not select an introspection top level field.") f.2.2
        .ok (e1 ++ e2)
  | _ => .ok []

def singleFieldSubscriptions : Rule := Rule.statelessP (str "SingleFieldSubscriptions") singleFieldSubscriptionsStep

end Gql.Validate.Rules
