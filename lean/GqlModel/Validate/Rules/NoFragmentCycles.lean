import GqlModel.Validate.Engine
/-
  rules/no_fragment_cycles.go

  `getFragmentSpreads` is an explicit-stack traversal: it pops the LAST pushed selection set,
  appends that set's own spreads in order and pushes the sub-selection sets of its fields and
  inline fragments in order.  The result is therefore: own spreads, then the spreads of the child
  sets taken in REVERSE order, each recursively — `spreadsOf`.
-/
namespace Gql.Validate.Rules
open Gql Gql.Validate

def directSpreads : Selections → List SpreadNode
  | .nil => []
  | .cons (.spread nm ds p) rest => ⟨nm, ds, p⟩ :: directSpreads rest
  | .cons _ rest => directSpreads rest

mutual
  def spreadsOf (ss : Selections) : List SpreadNode := directSpreads ss ++ nestedSpreads ss
  def nestedSpreads : Selections → List SpreadNode
    | .nil => []
    | .cons (.field _ _ _ _ sub _) rest => nestedSpreads rest ++ spreadsOf sub
    | .cons (.inline _ _ sub _) rest => nestedSpreads rest ++ spreadsOf sub
    | .cons (.spread _ _ _) rest => nestedSpreads rest
end

structure CycState where
  visited : List Name          -- visitedFrags
  errs : List RErr

/-- `recursive`: fragment → spreadPath → spreadPathIndexByName → state → state (`none` = out of fuel) -/
abbrev CycRec := FragmentDef → List SpreadNode → List (Name × Nat) → CycState → Option CycState

def cycleError (node : SpreadNode) (cyclePath : List SpreadNode) : RErr :=
  let names := cyclePath.map fun fs => dq fs.name
  let via := if names.isEmpty then [] else str " via " ++ joinWith (str ", ") names
  errAt (str "Cannot spread fragment " ++ dq node.name ++ str " within itself" ++ via ++ str ".") node.pos

/-- the `for _, spreadNode := range spreadNodes` loop -/
def cycLoop (d : QueryDoc) (recur : CycRec) (path : List SpreadNode) (index : List (Name × Nat)) :
    List SpreadNode → CycState → Option CycState
  | [], st => some st
  | node :: rest, st =>
    match index.lookup node.name with
    | none =>
      match fragForName d node.name with
      | some f =>
        match recur f (path ++ [node]) index st with
        | none => none
        | some st' => cycLoop d recur path index rest st'
      | none => cycLoop d recur path index rest st
    | some cycleIndex =>
      cycLoop d recur path index rest { st with errs := st.errs ++ [cycleError node (path.drop cycleIndex)] }

def cycLevel (d : QueryDoc) : Nat → CycRec
  | 0 => fun _ _ _ _ => none
  | n + 1 => fun frag path index st =>
    if st.visited.contains frag.name then some st
    else
      let st1 := { st with visited := frag.name :: st.visited }
      let nodes := spreadsOf frag.sel
      if nodes.isEmpty then some st1
      else cycLoop d (cycLevel d n) path ((frag.name, path.length) :: index) nodes st1

def noFragmentCyclesStep (_ : SV) (d : QueryDoc) (visited : List Name) (e : Event) : StepOut (List Name) :=
  match e.p with
  | .fragment f _ =>
    match cycLevel d (d.frags.length + 2) f [] [] { visited := visited, errs := [] } with
    | none => .panic (str "model: out of fuel")
    | some st => .ok st.visited st.errs
  | _ => .ok visited []

def noFragmentCycles : Rule :=
  { name := str "NoFragmentCycles", σ := List Name, init := [], step := noFragmentCyclesStep }

end Gql.Validate.Rules
