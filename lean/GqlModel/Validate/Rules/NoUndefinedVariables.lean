import GqlModel.Validate.Engine
/- rules/no_undefined_variables.go -/
namespace Gql.Validate.Rules
open Gql Gql.Validate

def noUndefinedVariablesStep (_ : SV) (_ : QueryDoc) (e : Event) : List RErr :=
  match e.p, e.cur with
  | .value v _ _, some op =>
    if v.kind != .variable || (e.links.varDef v.pos.start).isSome then []
    else if op.name != [] then
      [errAt (str "Variable " ++ dq (valueString v) ++ str " is not defined by operation " ++ dq op.name ++ str ".") v.pos]
    else [errAt (str "Variable " ++ dq (valueString v) ++ str " is not defined.") v.pos]
  | _, _ => []

def noUndefinedVariables : Rule := Rule.stateless (str "NoUndefinedVariables") noUndefinedVariablesStep

end Gql.Validate.Rules
