import GqlModel.Validate.Engine
/- rules/variables_in_allowed_position.go -/
namespace Gql.Validate.Rules
open Gql Gql.Validate

/-- the `NamedType` field of `ast.Type` (empty for list types) -/
def namedOf : GType → Name
  | .named n _ _ => n
  | .list _ _ _ => []

/-- `Type.IsCompatible` -/
def isCompatible : GType → GType → Bool
  | .named a nnA _, other =>
    if a != namedOf other then false
    else if other.nonNull then nnA else true
  | .list ea nnA _, other =>
    if namedOf other != [] then false
    else match other with
      | .named _ _ _ => false                      -- t.Elem != nil && other.Elem == nil
      | .list eb nnB _ =>
        if !isCompatible ea eb then false
        else if nnB then nnA else true

def clearNonNull : GType → GType
  | .named n _ p => .named n false p
  | .list e _ p => .list e false p

def variablesInAllowedPositionStep (_ : SV) (_ : QueryDoc) (e : Event) : List RErr :=
  match e.p, e.cur with
  | .value v (some expected) _, some _ =>
    if v.kind != .variable then []
    else match e.links.varDef v.pos.start with
      | none => []
      | some vd =>
        let relaxed : Bool := match vd.default with
          | some dv => dv.kind != .null && expected.nonNull
          | none => false
        let tmp := if relaxed then clearNonNull expected else expected
        if !isCompatible vd.type tmp then
          [errAt (str "Variable " ++ dq (valueString v) ++ str " of type " ++ dq vd.type.render
            ++ str " used in position expecting type " ++ dq expected.render ++ str ".") v.pos]
        else []
  | _, _ => []

def variablesInAllowedPosition : Rule := Rule.stateless (str "VariablesInAllowedPosition") variablesInAllowedPositionStep

end Gql.Validate.Rules
