import GqlModel.Validate.Engine
/- rules/variables_are_input_types.go -/
namespace Gql.Validate.Rules
open Gql Gql.Validate

def nonInputVars (s : SV) : List VarDef → List RErr
  | [] => []
  | v :: rest =>
    match s.type? v.type.name with     -- `def.Definition`, assigned by walkOperation
    | none => nonInputVars s rest
    | some t =>
      if !isInputType t then
        errAt (str "Variable \"$" ++ v.var ++ str "\" cannot be non-input type " ++ dq v.type.render ++ str ".") v.pos
          :: nonInputVars s rest
      else nonInputVars s rest

def variablesAreInputTypesStep (s : SV) (_ : QueryDoc) (e : Event) : List RErr :=
  match e.p with
  | .operation op _ => nonInputVars s op.vars
  | _ => []

def variablesAreInputTypes : Rule := Rule.stateless (str "VariablesAreInputTypes") variablesAreInputTypesStep

end Gql.Validate.Rules
