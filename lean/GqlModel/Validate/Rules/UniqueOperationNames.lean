import GqlModel.Validate.Engine
/- rules/unique_operation_names.go — the empty name of anonymous operations is a key like any other -/
namespace Gql.Validate.Rules
open Gql Gql.Validate

def uniqueOperationNamesStep (_ : SV) (_ : QueryDoc) (seen : List Name) (e : Event) : StepOut (List Name) :=
  match e.p with
  | .operation op _ =>
    .ok (op.name :: seen)
      (if seen.contains op.name then [errAt (str "There can be only one operation named " ++ dq op.name ++ str ".") op.pos] else [])
  | _ => .ok seen []

def uniqueOperationNames : Rule :=
  { name := str "UniqueOperationNames", σ := List Name, init := [], step := uniqueOperationNamesStep }

end Gql.Validate.Rules
