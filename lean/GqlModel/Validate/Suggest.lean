import GqlModel.Basic.Bytes
import GqlModel.Basic.Utf8
import GqlModel.Validate.View
/-
  `validator/suggestionList.go` and `validator/messaging.go`.

  * `levenshtein` is the plain Levenshtein distance over runes, which is what
    `agnivade/levenshtein.ComputeDistance` computes (its prefix/suffix trimming and the swap of
    the two arguments do not change the result; the `uint16` row cannot overflow below 65535
    runes).
  * `toLower` is `strings.ToLower` restricted to ASCII letters (GraphQL names are ASCII; a raw
    string value handed to the enum suggestions may contain other letters, whose case mapping is
    NOT modelled — trusted-base note).
  * `calcThreshold`: `int(math.Floor(float64(len(a))*0.4) + 1)`.  The double nearest to 0.4 is
    slightly above 0.4 and the product with an integer below 2^50 rounds to a double that is never
    below the exact value `2·len/5` when that is an integer, so the floor is `len*2/5`.
  * `suggestionList`: Go sorts with `sort.Slice` (insertion sort — stable — below 12 elements,
    unstable pdqsort above) by distance only.  The model is the STABLE sort of the options in the
    order given (DESIGN §7 R10: the repair makes the Go code exactly this).
-/
namespace Gql.Validate
open Gql

def toLower (b : Bytes) : Bytes := b.map fun c => if decide (65 ≤ c) && decide (c ≤ 90) then c + 32 else c

/-- one row of the Levenshtein matrix: `s1` and the old row from column `j` on, `diag = old[j-1]`,
    `left = new[j-1]` -/
def levStep (c : Nat) : List Nat → List Nat → Nat → Nat → List Nat
  | a :: s1, up :: row, diag, left =>
    let cur := if a = c then diag else min (min diag left) up + 1
    cur :: levStep c s1 row up cur
  | _, _, _, _ => []

def levRows : List Nat → List Nat → List Nat → Nat → List Nat
  | [], _, row, _ => row
  | c :: s2, s1, row, i =>
    match row with
    | d0 :: row' => levRows s2 s1 ((i + 1) :: levStep c s1 row' d0 (i + 1)) (i + 1)
    | [] => []

def levenshteinRunes (s1 s2 : List Nat) : Nat :=
  ((levRows s2 s1 (List.range (s1.length + 1)) 0).getLast?).getD 0

/-- `levenshtein.ComputeDistance` -/
def levenshtein (a b : Bytes) : Nat := levenshteinRunes (runesOf a.length a) (runesOf b.length b)

/-- `lexicalDistance` -/
def lexicalDistance (a b : Bytes) : Nat :=
  if a = b then 0
  else
    let a' := toLower a
    let b' := toLower b
    if a' = b' then 1 else levenshtein a' b'

/-- `calcThreshold` -/
def calcThreshold (a : Bytes) : Nat := a.length * 2 / 5 + 1

/-- `SuggestionList` (stable) -/
def suggestionList (input : Bytes) (options : List Bytes) : List Bytes :=
  stableSort (fun x y => decide (lexicalDistance input x ≤ lexicalDistance input y))
    (options.filter fun o => lexicalDistance input o ≤ calcThreshold input)

def joinWith (sep : Bytes) : List Bytes → Bytes
  | [] => []
  | [x] => x
  | x :: rest => x ++ sep ++ joinWith sep rest

/-- the general branch of `OrList`: `a, b, or c` -/
def orListGo : List Bytes → Nat → Nat → Bytes
  | [], _, _ => []
  | x :: rest, i, n =>
    (if i = 0 then [] else if i = n - 1 then str ", or " else str ", ") ++ x ++ orListGo rest (i + 1) n

/-- `OrList` -/
def orList (items : List Bytes) : Bytes :=
  let items := items.take 5
  match items with
  | [a, b] => a ++ str " or " ++ b
  | _ => orListGo items 0 items.length

/-- `QuotedOrList` -/
def quotedOrList (items : List Bytes) : Bytes := orList (items.map fun i => 34 :: i ++ [34])

/-- suffix appended by `SuggestListQuoted(prefix, typed, suggestions)` -/
def suggestListQuoted (pfx : Bytes) (typed : Bytes) (options : List Bytes) : Bytes :=
  let sg := suggestionList typed options
  if sg.isEmpty then [] else 32 :: pfx ++ 32 :: quotedOrList sg ++ [63]

/-- suffix appended by `SuggestListUnquoted` -/
def suggestListUnquoted (pfx : Bytes) (typed : Bytes) (options : List Bytes) : Bytes :=
  let sg := suggestionList typed options
  if sg.isEmpty then [] else 32 :: pfx ++ 32 :: orList sg ++ [63]

end Gql.Validate
