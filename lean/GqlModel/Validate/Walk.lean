import GqlModel.Validate.Annot
/-
  `validator/walk.go`: the walker as a function that produces the ordered list of observer calls
  (events), in exactly the order and multiplicity in which the Go walker fires them.

  Totality.  Everything is structural recursion over the tree except the jump from a fragment
  spread into the fragment definition (its directives, then its selection set), which Go guards by
  the per-operation set `validatedFragmentSpreads`.  That jump is the parameter `jump` of the structural functions;
  `walkLevel n` ties the knot by recursion on a natural number (the number of nested jumps still
  allowed), so every definition here is structurally recursive and kernel-reducible.
  `GqlProofs/Validate/WalkTerm.lean` proves that `frags.length + 1` levels always suffice
  (`walkDoc_isSome`), i.e. the `none` (out of fuel) outcome is unreachable.
-/
namespace Gql.Validate
open Gql

/-- walker state: `validatedFragmentSpreads`, the link side table, and the names of the
    variables of the current operation whose definition got `Used = true` -/
structure WS where
  visited : List Name
  links : Links
  used : List Name
  deriving Inhabited

def WS.markSel (ws : WS) (start : Nat) : WS :=
  { ws with links := { ws.links with sels := start :: ws.links.sels } }

def locQuery := str "QUERY"
def locMutation := str "MUTATION"
def locSubscription := str "SUBSCRIPTION"
def locField := str "FIELD"
def locFragmentDefinition := str "FRAGMENT_DEFINITION"
def locFragmentSpread := str "FRAGMENT_SPREAD"
def locInlineFragment := str "INLINE_FRAGMENT"
def locVariableDefinition := str "VARIABLE_DEFINITION"

def nameTypename := str "__typename"

/-- the synthetic `&ast.FieldDefinition{Name: "__typename", Type: ast.NonNullNamedType("String", nil)}` -/
def typenameDef : FieldDef :=
  { desc := [], name := nameTypename, args := [], default := none,
    type := .named (str "String") true Pos.zero, dirs := [], pos := Pos.zero }

/-- expected type / definition pair assigned from a declared type -/
def linkOfType (s : SV) (t : GType) : Option GType × Option Definition := (some t, s.type? t.name)

mutual
  /-- `walkValue` (`exp`/`dfn` are the node's `ExpectedType`/`Definition` as assigned by the caller) -/
  def walkValue (s : SV) (cur : Option OperationDef) (exp : Option GType) (dfn : Option Definition)
      (v : Value) (ws : WS) : WS × List Event :=
    match v with
    | .mk k raw ch p =>
      let ws1 : WS := match k, cur with
        | .variable, some op =>
          let vd := varForName op.vars raw
          { ws with links := { ws.links with vlinks := (p.start, vd) :: ws.links.vlinks },
                    used := if vd.isSome then raw :: ws.used else ws.used }
        | _, _ => ws
      let r : WS × List Event := match k with
        | .object => walkObjChildren s cur dfn ch ws1
        | .list => walkListChildren s cur exp dfn ch ws1
        | _ => (ws1, [])
      (r.1, r.2 ++ [{ cur := cur, links := r.1.links, p := .value (.mk k raw ch p) exp dfn }])
  /-- children of an object literal: `dfn` is the parent's `Definition` -/
  def walkObjChildren (s : SV) (cur : Option OperationDef) (dfn : Option Definition)
      (ch : Children) (ws : WS) : WS × List Event :=
    match ch with
    | .nil => (ws, [])
    | .cons name v _ rest =>
      let lk : Option GType × Option Definition := match dfn with
        | some d => match fieldForName d.fields name with
          | some fd => linkOfType s fd.type
          | none => (none, none)
        | none => (none, none)
      let r1 := walkValue s cur lk.1 lk.2 v ws
      let r2 := walkObjChildren s cur dfn rest r1.1
      (r2.1, r1.2 ++ r2.2)
  /-- children of a list literal: `exp`/`dfn` are the parent's -/
  def walkListChildren (s : SV) (cur : Option OperationDef) (exp : Option GType) (dfn : Option Definition)
      (ch : Children) (ws : WS) : WS × List Event :=
    match ch with
    | .nil => (ws, [])
    | .cons _ v _ rest =>
      let lk : Option GType × Option Definition := match exp with
        | some (.list e _ _) => (some e, dfn)
        | _ => (none, none)
      let r1 := walkValue s cur lk.1 lk.2 v ws
      let r2 := walkListChildren s cur exp dfn rest r1.1
      (r2.1, r1.2 ++ r2.2)
end

/-- `walkArgument` over an argument list; `argDefs = none` when the field/directive is unknown -/
def walkArgs (s : SV) (cur : Option OperationDef) (argDefs : Option (List ArgDef)) :
    List Argument → WS → WS × List Event
  | [], ws => (ws, [])
  | a :: rest, ws =>
    let lk : Option GType × Option Definition := match argDefs.bind (argDefForName · a.name) with
      | some ad => linkOfType s ad.type
      | none => (none, none)
    let r1 := walkValue s cur lk.1 lk.2 a.value ws
    let r2 := walkArgs s cur argDefs rest r1.1
    (r2.1, r1.2 ++ r2.2)

def walkDirectiveItems (s : SV) (cur : Option OperationDef) (parent : Option Definition) (loc : Bytes) :
    List Directive → WS → WS × List Event
  | [], ws => (ws, [])
  | dir :: rest, ws =>
    let dfn := s.directive? dir.name
    let r1 := walkArgs s cur (dfn.map (·.args)) dir.args ws
    let ev : Event := { cur := cur, links := r1.1.links, p := .directive dir dfn parent loc }
    let r2 := walkDirectiveItems s cur parent loc rest r1.1
    (r2.1, r1.2 ++ ev :: r2.2)

/-- `walkDirectives` -/
def walkDirectives (s : SV) (cur : Option OperationDef) (parent : Option Definition) (dirs : List Directive)
    (loc : Bytes) (ws : WS) : WS × List Event :=
  let r := walkDirectiveItems s cur parent loc dirs ws
  (r.1, r.2 ++ [{ cur := cur, links := r.1.links, p := .directiveList dirs }])

/-- what the walker does with the selection set of a fragment it jumps into; `none` = out of fuel -/
abbrev Jump := Option Definition → Selections → WS → Option (WS × List Event)

mutual
  /-- `walkSelection` -/
  def walkSelection (s : SV) (d : QueryDoc) (cur : Option OperationDef) (jump : Jump)
      (parent : Option Definition) (sel : Selection) (ws : WS) : Option (WS × List Event) :=
    match sel with
    | .field al nm args dirs sub p =>
      let dfn : Option FieldDef :=
        if nm == nameTypename then some typenameDef
        else match parent with
          | some pd => fieldForName pd.fields nm
          | none => none
      let next : Option Definition := dfn.bind fun fd => s.type? fd.type.name
      let r1 := walkArgs s cur (dfn.map (·.args)) args (ws.markSel p.start)
      let r2 := walkDirectives s cur next dirs locField r1.1
      match walkSelections s d cur jump next sub r2.1 with
      | none => none
      | some r3 =>
        some (r3.1, r1.2 ++ r2.2 ++ r3.2 ++
          [{ cur := cur, links := r3.1.links, p := .field ⟨al, nm, args, dirs, sub, p⟩ parent dfn }])
    | .inline tc dirs sub p =>
      let next : Option Definition := if tc != [] then s.type? tc else parent
      let r2 := walkDirectives s cur next dirs locInlineFragment (ws.markSel p.start)
      match walkSelections s d cur jump next sub r2.1 with
      | none => none
      | some r3 =>
        some (r3.1, r2.2 ++ r3.2 ++
          [{ cur := cur, links := r3.1.links, p := .inlineFragment ⟨tc, dirs, sub, p⟩ parent }])
    | .spread nm dirs p =>
      let dfn := fragForName d nm
      let next : Option Definition := dfn.bind fun f => s.type? f.typeCond
      let r2 := walkDirectives s cur next dirs locFragmentSpread (ws.markSel p.start)
      match dfn with
      | some f =>
        if r2.1.visited.contains f.name then
          some (r2.1, r2.2 ++ [{ cur := cur, links := r2.1.links, p := .fragmentSpread ⟨nm, dirs, p⟩ dfn parent }])
        else
          -- first visit of the fragment in this walk: the directives of the fragment DEFINITION
          -- are walked (their variables are uses of the current operation), then its selection set
          let rd := walkDirectives s cur next f.dirs locFragmentDefinition
            { r2.1 with visited := f.name :: r2.1.visited }
          match jump next f.sel rd.1 with
          | none => none
          | some r3 =>
            some (r3.1, r2.2 ++ rd.2 ++ r3.2 ++
              [{ cur := cur, links := r3.1.links, p := .fragmentSpread ⟨nm, dirs, p⟩ dfn parent }])
      | none =>
        some (r2.1, r2.2 ++ [{ cur := cur, links := r2.1.links, p := .fragmentSpread ⟨nm, dirs, p⟩ dfn parent }])
  /-- `walkSelectionSet` -/
  def walkSelections (s : SV) (d : QueryDoc) (cur : Option OperationDef) (jump : Jump)
      (parent : Option Definition) (sels : Selections) (ws : WS) : Option (WS × List Event) :=
    match sels with
    | .nil => some (ws, [])
    | .cons x rest =>
      match walkSelection s d cur jump parent x ws with
      | none => none
      | some r1 =>
        match walkSelections s d cur jump parent rest r1.1 with
        | none => none
        | some r2 => some (r2.1, r1.2 ++ r2.2)
end

/-- `walkSelectionSet` with at most `n - 1` nested jumps into fragment definitions -/
def walkLevel (s : SV) (d : QueryDoc) (cur : Option OperationDef) : Nat → Jump
  | 0 => fun _ _ _ => none
  | n + 1 => fun parent sels ws => walkSelections s d cur (walkLevel s d cur n) parent sels ws

/-- first loop of `walkOperation`: `varDef.Definition = Types[…]`, fire the `variable` observers -/
def walkVarDefsA (s : SV) (cur : Option OperationDef) (ws : WS) : List VarDef → List Event
  | [] => []
  | v :: rest => { cur := cur, links := ws.links, p := .variable v (s.type? v.type.name) } :: walkVarDefsA s cur ws rest

/-- second loop of `walkOperation`: default values and directives of the variable definitions -/
def walkVarDefsB (s : SV) (cur : Option OperationDef) : List VarDef → WS → WS × List Event
  | [], ws => (ws, [])
  | v :: rest, ws =>
    let r1 : WS × List Event := match v.default with
      | some dv => walkValue s cur (some v.type) (s.type? v.type.name) dv ws
      | none => (ws, [])
    let r2 := walkDirectives s cur (s.type? v.type.name) v.dirs locVariableDefinition r1.1
    let r3 := walkVarDefsB s cur rest r2.1
    (r3.1, r1.2 ++ r2.2 ++ r3.2)

/-- `Used` flag of every variable definition: the walker marks `VariableDefinitions.ForName(raw)`,
    i.e. the FIRST definition of that name -/
def usedFlags (used : List Name) : List VarDef → List Name → List Bool
  | [], _ => []
  | v :: rest, seen => (used.contains v.var && !seen.contains v.var) :: usedFlags used rest (v.var :: seen)

def opQuery := str "query"
def opMutation := str "mutation"
def opSubscription := str "subscription"

/-- root definition and directive location chosen by `walkOperation` -/
def opRoot (s : SV) (op : Operation) : Option Definition × Bytes :=
  if op == opQuery || op == [] then (s.query.bind s.type?, locQuery)
  else if op == opMutation then (s.mutation.bind s.type?, locMutation)
  else if op == opSubscription then (s.subscription.bind s.type?, locSubscription)
  else (none, [])

/-- `walkOperation` (the caller has reset `validatedFragmentSpreads`) -/
def walkOperation (s : SV) (d : QueryDoc) (fuel : Nat) (op : OperationDef) (links : Links) :
    Option (Links × List Event) :=
  let cur := some op
  let ws0 : WS := { visited := [], links := links, used := [] }
  let e1 := walkVarDefsA s cur ws0 op.vars
  let root := opRoot s op.op
  let r2 := walkVarDefsB s cur op.vars ws0
  let r3 := walkDirectives s cur root.1 op.dirs root.2 r2.1
  match walkLevel s d cur fuel root.1 op.sel r3.1 with
  | none => none
  | some r4 =>
    some (r4.1.links, e1 ++ r2.2 ++ r3.2 ++ r4.2 ++
      [{ cur := cur, links := r4.1.links, p := .operation op (usedFlags r4.1.used op.vars []) }])

/-- `walkFragment` (stand-alone: `CurrentOperation == nil`) -/
def walkFragment (s : SV) (d : QueryDoc) (fuel : Nat) (f : FragmentDef) (links : Links) :
    Option (Links × List Event) :=
  let dfn := s.type? f.typeCond
  let ws0 : WS := { visited := [], links := links, used := [] }
  let r1 := walkDirectives s none dfn f.dirs locFragmentDefinition ws0
  match walkLevel s d none fuel dfn f.sel r1.1 with
  | none => none
  | some r2 =>
    some (r2.1.links, r1.2 ++ r2.2 ++ [{ cur := none, links := r2.1.links, p := .fragment f dfn }])

def walkOps (s : SV) (d : QueryDoc) (fuel : Nat) : List OperationDef → Links → Option (Links × List Event)
  | [], l => some (l, [])
  | op :: rest, l =>
    match walkOperation s d fuel op l with
    | none => none
    | some r1 =>
      match walkOps s d fuel rest r1.1 with
      | none => none
      | some r2 => some (r2.1, r1.2 ++ r2.2)

def walkFrags (s : SV) (d : QueryDoc) (fuel : Nat) : List FragmentDef → Links → Option (Links × List Event)
  | [], l => some (l, [])
  | f :: rest, l =>
    match walkFragment s d fuel f l with
    | none => none
    | some r1 =>
      match walkFrags s d fuel rest r1.1 with
      | none => none
      | some r2 => some (r2.1, r1.2 ++ r2.2)

/-- number of jump levels that is always enough: a chain of nested jumps enters pairwise
    distinct fragment names -/
def walkFuel (d : QueryDoc) : Nat := d.frags.length + 1

/-- `Walker.walk`: all events of one validation run, `none` = out of fuel (proved unreachable) -/
def walkDoc (s : SV) (d : QueryDoc) : Option (List Event) :=
  match walkOps s d (walkFuel d) d.ops Links.empty with
  | none => none
  | some r1 =>
    match walkFrags s d (walkFuel d) d.frags r1.1 with
    | none => none
    | some r2 => some (r1.2 ++ r2.2)

end Gql.Validate
