import GqlModel.Validate.Walk
import GqlModel.Validate.Fmt
/-
  `validator/validator.go` (`Validate`): rules, observers, and the order in which errors are
  appended.

  Go: `Validate` calls every rule's `RuleFunc` once, in rule-list order; the rule registers its
  observers (at most one per event kind in every rule of package `rules`) in per-kind lists.
  `Walk` then fires, for every event, the observers of that kind in registration order, and
  `addError` appends to one shared list.  Hence the error list is event-major, rule-minor, and a
  rule's closure variables are a private state that only its own observers see.

  Model: a rule is a name plus a state machine over events; `validate` folds the event list,
  stepping every rule (in list order) on every event.  A rule step may `panic` (a Go run-time
  panic or explicit `panic`, which nothing in `Validate` recovers): the whole result is then
  `panic` and the errors collected so far are lost, as in Go.

  An error carries the message in two parts: `msg` and the optional "Did you mean …?" suffix
  `sugg` that the `…WithoutSuggestions` variants of four rules omit (`Rule.withoutSuggestions`).
-/
namespace Gql.Validate
open Gql

/-- what a rule hands to `addError`: `Message(...)`, suggestion suffix, `At(...)` positions in order -/
structure RErr where
  msg : Bytes
  sugg : Bytes := []
  locs : List Pos
  deriving Inhabited

/-- `gqlerror.Error` as far as `Validate` fills it -/
structure Err where
  rule : Bytes
  msg : Bytes
  locs : List (Nat × Int)
  deriving DecidableEq, Repr, Inhabited

inductive StepOut (σ : Type)
  | ok (st : σ) (errs : List RErr)
  | panic (msg : Bytes)

structure Rule where
  name : Bytes
  σ : Type
  init : σ
  step : SV → QueryDoc → σ → Event → StepOut σ

/-- a rule whose observers share no state -/
def Rule.stateless (name : Bytes) (f : SV → QueryDoc → Event → List RErr) : Rule :=
  { name := name, σ := Unit, init := (), step := fun s d _ e => .ok () (f s d e) }

/-- a stateless rule that can panic -/
def Rule.statelessP (name : Bytes) (f : SV → QueryDoc → Event → Except Bytes (List RErr)) : Rule :=
  { name := name, σ := Unit, init := (),
    step := fun s d _ e => match f s d e with
      | .ok errs => .ok () errs
      | .error m => .panic m }

def RErr.dropSugg (e : RErr) : RErr := { e with sugg := [] }

/-- the `disableSuggestion = true` instance of a shared rule body -/
def Rule.withoutSuggestions (name : Bytes) (r : Rule) : Rule :=
  { name := name, σ := r.σ, init := r.init,
    step := fun s d st e => match r.step s d st e with
      | .ok st' errs => .ok st' (errs.map RErr.dropSugg)
      | .panic m => .panic m }

def RErr.toErr (rule : Bytes) (e : RErr) : Err :=
  { rule := rule, msg := e.msg ++ e.sugg, locs := e.locs.map fun p => (p.line, p.col) }

/-- a rule together with its current private state -/
structure Running where
  rule : Rule
  st : rule.σ

def Rule.start (r : Rule) : Running := { rule := r, st := r.init }

def Running.step (s : SV) (d : QueryDoc) (r : Running) (e : Event) : Except Bytes (Running × List Err) :=
  match r.rule.step s d r.st e with
  | .ok st' errs => .ok ({ rule := r.rule, st := st' }, errs.map (RErr.toErr r.rule.name))
  | .panic m => .error m

/-- one event: every rule in registration order -/
def stepAll (s : SV) (d : QueryDoc) (e : Event) : List Running → Except Bytes (List Running × List Err)
  | [] => .ok ([], [])
  | r :: rs =>
    match r.step s d e with
    | .error m => .error m
    | .ok (r', errs) =>
      match stepAll s d e rs with
      | .error m => .error m
      | .ok (rs', errs') => .ok (r' :: rs', errs ++ errs')

def runAll (s : SV) (d : QueryDoc) : List Running → List Event → Except Bytes (List Err)
  | _, [] => .ok []
  | rs, e :: es =>
    match stepAll s d e rs with
    | .error m => .error m
    | .ok (rs', errs) =>
      match runAll s d rs' es with
      | .error m => .error m
      | .ok errs' => .ok (errs ++ errs')

inductive VResult
  | ok (errs : List Err)
  | panic (msg : Bytes)
  | outOfFuel
  deriving DecidableEq, Repr, Inhabited

/-- `Validate` on the schema view -/
def validateV (rules : List Rule) (s : SV) (d : QueryDoc) : VResult :=
  match walkDoc s d with
  | none => .outOfFuel
  | some evs =>
    match runAll s d (rules.map Rule.start) evs with
    | .ok errs => .ok errs
    | .error m => .panic m

/-- `validator.Validate(schema, doc, rules...)` for non-nil schema and document -/
def validate (rules : List Rule) (s : Schema) (d : QueryDoc) : VResult := validateV rules s.view d

/-- run-time panic text of a nil pointer dereference -/
def nilDeref : Bytes := str "runtime error: invalid memory address or nil pointer dereference"

def indexOutOfRange (i n : Nat) : Bytes :=
  str "runtime error: index out of range [" ++ natToDec i ++ str "] with length " ++ natToDec n

end Gql.Validate

namespace Gql.Validate
open Gql

/- helpers shared by the rule bodies -/

/-- `"` ++ b ++ `"` (the `"%s"` of the Go templates) -/
def dq (b : Bytes) : Bytes := 34 :: b ++ [34]

def errAt (msg : Bytes) (p : Pos) : RErr := { msg := msg, locs := [p] }
def errAtS (msg sugg : Bytes) (p : Pos) : RErr := { msg := msg, sugg := sugg, locs := [p] }

def isLeafType (d : Definition) : Bool := d.kind == .enum || d.kind == .scalar
def isAbstractType (d : Definition) : Bool := d.kind == .interface || d.kind == .union
def isCompositeType (d : Definition) : Bool := d.kind == .object || d.kind == .interface || d.kind == .union
def isInputType (d : Definition) : Bool := d.kind == .scalar || d.kind == .enum || d.kind == .inputObject

/-- `Definition.OneOf(names...)` -/
def defOneOf (d : Definition) (names : List Bytes) : Bool := names.contains d.name

/-- byte-wise `strings.Compare(a, b) < 0` -/
def bytesLt (a b : Bytes) : Bool := decide (a < b)

end Gql.Validate
